/-
  SatA / C01 (world part): every transaction is a conservative step (`Spec.C01.stepOk`) for every vAMM.
-/
import Perp.Props.C01
import Perp.Props.SatA.Common
import Perp.Props.SatA.VammLift

namespace Perp.Props.SatA
open Perp Perp.World Perp.Engine Perp.Spec Perp.Props.ModelStep
open Perp.Props.SatA.VammLift

/-- REGISTRY SHAPE (kind a) — one stored record per vAMM address.  The list of addresses never changes
    (`VammLift.applyTx_keys`), so `step` preserves it (`vammKeysNodup_step`).  Needed by
    `k-or-net-invariant(v·)` (and by C02): the check pairs every stored PRE record with the record found at the
    same address afterwards; a shadowed duplicate record is paired with the live one, to which it bears no
    relation (witness: `Cex.c01_dup_witness` in Perp/Props/SatA/Witness.lean). -/
def VammKeysNodup (w : World) : Prop := (w.vamms.map (·.1)).Nodup

theorem vammKeysNodup_step (w : World) (env : Env) (s : Nat) (f : Funds) (tx : Tx)
    (h : VammKeysNodup w) : VammKeysNodup (step w env s f tx) := by
  unfold step
  split
  · rename_i w' happ
    unfold VammKeysNodup
    rw [applyTx_keys w w' env s f tx happ]
    exact h
  · exact h

theorem find_of_mem_nodup : ∀ (l : List (Nat × Vamm.V)) (p : Nat × Vamm.V), (l.map (·.1)).Nodup → p ∈ l →
    l.find? (fun q => q.1 == p.1) = some p := by
  intro l
  induction l with
  | nil => intro p _ hp; cases hp
  | cons q l ih =>
    intro p hnd hp
    rw [List.map_cons, List.nodup_cons] at hnd
    rw [List.find?_cons]
    rcases List.mem_cons.1 hp with rfl | hp
    · simp
    · have : (q.1 == p.1) = false := by
        apply beq_false_of_ne
        intro e
        exact hnd.1 (e ▸ List.mem_map_of_mem hp)
      rw [this]
      exact ih p hnd.2 hp

theorem vamm?_of_mem {w : World} (h : VammKeysNodup w) {p : Nat × Vamm.V} (hp : p ∈ w.vamms) :
    w.vamm? p.1 = some p.2 := by
  unfold vamm?
  rw [find_of_mem_nodup _ _ h hp]

theorem stepOk_refl (D : Nat) (a : Vamm.State) : Spec.C01.stepOk D a a = true := by
  rw [C01.stepOk_iff]; exact ⟨Nat.le_refl _, rfl⟩

/-- `stepOk` (at one scale) is transitive: several swaps may hit one vAMM within a transaction -/
theorem stepOk_trans (D : Nat) (a b c : Vamm.State) (h1 : Spec.C01.stepOk D a b = true)
    (h2 : Spec.C01.stepOk D b c = true) : Spec.C01.stepOk D a c = true := by
  rw [C01.stepOk_iff] at *
  exact ⟨Nat.le_trans h1.1 h2.1, h1.2.trans h2.2⟩

/-- the record now stored at `a` is a conservative step away from the record `w` stored there -/
def StepFrom (w : World) (a : Nat) (y : Vamm.V) : Prop :=
  ∀ x, w.vamm? a = some x → Spec.C01.stepOk x.cfg.decimals x.st y.st = true ∧ y.cfg.decimals = x.cfg.decimals

theorem stepFrom_hop (w : World) (env : Env) : ∀ (a : Nat) (v v' : Vamm.V) (sender : Nat) (op : Vamm.VOp),
    StepFrom w a v → Vamm.apply v ⟨env, sender, op⟩ = .ok v' → StepFrom w a v' := by
  intro a v v' sender op hv h x hx
  obtain ⟨h1, h2⟩ := hv x hx
  obtain ⟨h3, h4⟩ := C01.apply_step v v' _ h
  rw [h2] at h3
  exact ⟨stepOk_trans _ _ _ _ h1 h3, h4.trans h2⟩

theorem stepFrom_init (w : World) (hn : VammKeysNodup w) : VI (StepFrom w) w := by
  intro p hp x hx
  rw [vamm?_of_mem hn hp] at hx
  cases hx
  exact ⟨stepOk_refl _ _, rfl⟩

theorem c01_sat (w : World) (env : Env) (s : Nat) (f : Funds) (tx : Tx) (hn : VammKeysNodup w) :
    Spec.C01.check (modelStep w env s f tx) = [] := by
  have key : ∀ w', (modelStep w env s f tx).pre = w → (modelStep w env s f tx).post = w' → VI (StepFrom w) w' →
      Spec.C01.check (modelStep w env s f tx) = [] := by
    intro w' hpre hpost hVI
    unfold Spec.C01.check
    apply foldl_append_nil
    intro t ht
    apply chk_nil
    unfold Spec.W.wiredVamms at ht
    rw [hpre, hpost] at ht
    rw [List.mem_filterMap] at ht
    obtain ⟨p, hp, hf⟩ := ht
    cases hy : w'.vamm? p.1 with
    | none => rw [hy] at hf; cases hf
    | some y =>
      rw [hy] at hf
      dsimp only at hf
      split at hf
      · cases hf
        exact (hVI _ (vamm?_mem hy) p.2 (vamm?_of_mem hn hp)).1
      · cases hf
  rcases except_cases (applyTx w env s f tx) with ⟨e, h⟩ | ⟨w', h⟩
  · refine key w ?_ ?_ (stepFrom_init w hn) <;> rw [modelStep_err h]
  · refine key w' ?_ ?_ (applyTx_VI (StepFrom w) env (stepFrom_hop w env) w w' s f tx h (stepFrom_init w hn)).1
      <;> rw [modelStep_ok h]

end Perp.Props.SatA
