/-
  SatG, part 6a — helpers for the C13 twins of the REVERSAL flow of `OpenPosition` (`REPLY_REVERSE`):
  the branch conditions (`ReverseQ`, `CloseOnlyQ`, `ReopenQ`), the shape of the execute half, the two replies
  characterised uniformly in the collateral kind (`rpr_spec`, `upr2_spec`), and the dispatcher unrolled
  (`reverse_tx_iff`, `execSubs_xfers_append`, `leg2_iff`, `wd_run_iff`).
-/
import Perp.Props.SatGReduce

namespace Perp.Props.SatGReverse
open Perp Perp.World Perp.Engine Perp.Props.LiqTwin Perp.Props.SatGTwin
open Perp.Props.SatGRun Perp.Props.SatGLedger Perp.Props.SatGOpen Perp.Props.SatGClose Perp.Props.SatGOpenTx
open Perp.Props.SatGCloseTx (paidTo paidTo_append paidTo_optE closeTx)

/-! ### the execute half of a reversing order -/

/-- the order takes the reversal path: the increase test of `open_position` fails (a stored position of non-zero
    size on the other side), and whenever the order's notional `m·l/D` and the position's spot notional can be
    computed, the latter does NOT exceed the former — exactly the condition under which `openPosition`
    dispatches the `REPLY_REVERSE` swap (the complement of `SatGReduce.ReduceQ` in its second half) -/
def ReverseQ (q : Q) (e : E) (env : Env) (s v : Nat) (side : Side) (m l : Nat) : Prop :=
  ¬ ((getPosition env e v s side).size.isZero = true
      ∨ ((getPosition env e v s side).direction = .addToAmm ∧ side = .buy)
      ∨ ((getPosition env e v s side).direction = .removeFromAmm ∧ side = .sell))
  ∧ ∀ ml N pn, cmul m l = .ok ml → cdiv ml e.cfg.decimals = .ok N →
      unwrap (positionNotionalPnl q e (getPosition env e v s side) .spot) = .ok pn → ¬ pn.1 > N

/-- the swap that closes the old position whole -/
def revMsg (env : Env) (e : E) (s v : Nat) (side : Side) : SubMsg :=
  swapOutputMsg v (directionToSide (getPosition env e v s side).direction)
    (getPosition env e v s side).size.value 0 REPLY_REVERSE

/-- the in-flight record of a reversing order -/
def revTmp (v s : Nat) (side : Side) (m l N : Nat) (pn : Nat × Integer) : TmpSwap :=
  ⟨v, s, side, m, l, N, pn.1, pn.2, Integer.zero, false⟩

open Perp.Props.EngineGuards in
theorem reverse_shape (q : Q) (e : E) (env : Env) (s : Nat) (f : Funds) (v : Nat) (side : Side) (m l b : Nat)
    (hrev : ReverseQ q e env s v side m l) :
    Post (fun r => ∃ ml N pn,
        r.1 = { e with tmpSwap := some (revTmp v s side m l N pn),
                       sentFunds := some ⟨sentAmt e.cfg.native f.amount, 0⟩ }
        ∧ cmul m l = .ok ml ∧ cdiv ml e.cfg.decimals = .ok N
        ∧ unwrap (positionNotionalPnl q e (getPosition env e v s side) .spot) = .ok pn
        ∧ l ≠ 0
        ∧ r.2 = [revMsg env e s v side])
      (openPosition q e env s f v side m l b) := by
  have hv : (getPosition env e v s side).vamm = v := (EngineMoney.getPosition_key env e v s side).1
  unfold openPosition sentAmt revMsg revTmp
  cases hn : e.cfg.native
  all_goals
    simp only [↓reduceIte, Bool.false_eq_true]
    post_walk [first
      | exact absurd ‹_ ∨ _ ∨ _› hrev.1
      | (rw [hv]
         refine ⟨_, _, _, rfl, ‹cmul m l = _›, ‹cdiv _ e.cfg.decimals = _›, ‹unwrap _ = Except.ok _›, ?_, rfl⟩
         exact (EngineGuards.requireNonZero_ok _ _).1 ‹requireNonZero l = _›)
      | (have hgt := ‹_ > _›
         exact False.elim (hrev.2 _ _ _ ‹cmul m l = _› ‹cdiv _ e.cfg.decimals = _› (by assumption) hgt))]

open Perp.Props.EngineGuards in
/-- conversely: a successful `openPosition` that dispatches a `REPLY_REVERSE` swap satisfies `ReverseQ` -/
theorem reverseQ_of_reverse (q : Q) (e : E) (env : Env) (s : Nat) (f : Funds) (v : Nat) (side : Side) (m l b : Nat) :
    Post (fun r => (∃ a sd n lim, r.2 = [swapOutputMsg a sd n lim REPLY_REVERSE]) → ReverseQ q e env s v side m l)
      (openPosition q e env s f v side m l b) := by
  unfold openPosition
  post_walk [first
    | (rintro ⟨a, sd, n, lim, hN⟩
       have h1 := congrArg (fun l => l.map (·.id)) hN
       simp [swapInputMsg, swapOutputMsg, REPLY_INCREASE, REPLY_DECREASE, REPLY_REVERSE] at h1
       done)
    | (intro _
       rename_i c1 _ c2 _ hni _ nt pl c3 c4 _ _ _
       refine ⟨hni, fun ml' N' pn' e1 e2 e3 => ?_⟩
       rw [c1] at e1
       injection e1 with e1
       subst e1
       rw [c2] at e2
       injection e2 with e2
       subst e2
       rw [c3] at e3
       injection e3 with e3
       subst e3
       exact c4)]

/-- `ReverseQ` holds exactly when a successful `openPosition` takes the `REPLY_REVERSE` branch -/
theorem reverseQ_iff_reverse (q : Q) (e : E) (env : Env) (s : Nat) (f : Funds) (v : Nat) (side : Side) (m l b : Nat)
    (r : E × List SubMsg) (h : openPosition q e env s f v side m l b = .ok r) :
    ReverseQ q e env s v side m l ↔ ∃ a sd n lim, r.2 = [swapOutputMsg a sd n lim REPLY_REVERSE] := by
  constructor
  · intro hrev
    obtain ⟨_, _, _, _, _, _, _, _, hm⟩ := reverse_shape q e env s f v side m l b hrev r h
    exact ⟨_, _, _, _, hm⟩
  · exact reverseQ_of_reverse q e env s f v side m l b r h

/-! ### the reversal reply, uniformly in the collateral kind -/

/-- `|a − b|` as `reverse_position_reply` computes the notional of the second leg -/
def absDiff (a b : Nat) : Nat := if a > b then a - b else b - a

/-- the fee transfers in the form of configuration `cfg` -/
def feeMsgs (cfg : Config) (t sp tl : Nat) : List SubMsg :=
  (if sp ≠ 0 then [transferFromMsg cfg t cfg.insuranceFund sp] else [])
  ++ (if tl ≠ 0 then [transferFromMsg cfg t cfg.feePool tl] else [])

/-- `required` as the re-opening branch of `reverse_position_reply` nets it (`R` = the fees) -/
def reqNet (R sp tl : Nat) (mtv : Integer) : Except Err Nat :=
  if mtv.isPositive then cadd R mtv.value
  else if R > mtv.value then csub R mtv.value
  else cadd sp tl

/-- the engine after the close-only branch -/
def coEngine (e : E) (st : State) (p' : Position) : E :=
  { storePosition { e with tmpSwap := none, sentFunds := none } p' with st := st }

/-- the engine after the re-opening branch -/
def reEngine (e : E) (st : State) (p' : Position) (swap' : TmpSwap) (sf : SentFunds) : E :=
  { storePosition { e with tmpSwap := some swap', sentFunds := some sf } p' with st := st }

theorem transferFees_of_fee (q : Q) (e : E) (t v N sp tl : Nat) (h : q.calcFee v N = .ok (tl, sp)) :
    transferFees q e t v N = .ok (feeMsgs e.cfg t sp tl, sp, tl) := by
  unfold transferFees feeMsgs
  rw [h]
  rfl

theorem rpr_spec (q : Q) (e : E) (env : Env) (out : Nat) (swap : TmpSwap) (b : Bool) (A : Nat)
    (hsw : e.tmpSwap = some swap) (r : E × List SubMsg) :
    reversePositionReply q (withSent (setNative e b) ⟨A, 0⟩) env out = .ok r ↔
      ∃ st rm0 pm sp tl mtv,
        updateOpenInterest q e e.st swap.vamm (Integer.newNegative out) swap.trader = .ok st
        ∧ calcRemainMargin e (getPosition env e swap.vamm swap.trader swap.side) swap.upnl = .ok rm0
        ∧ Integer.checkedAdd (Integer.newNegative (getPosition env e swap.vamm swap.trader swap.side).margin)
            rm0.funding = .ok pm
        ∧ q.calcFee swap.vamm swap.openNotional = .ok (tl, sp)
        ∧ sp + tl ≤ U128.MAX ∧ swap.leverage ≠ 0
        ∧ Integer.checkedSub pm swap.upnl = .ok mtv
        ∧ ((absDiff swap.openNotional out / swap.leverage = 0 ∧ (b = true → A = sp + tl)
            ∧ r = (setNative (coEngine e st (clearPosition env (getPosition env e swap.vamm swap.trader swap.side))) b,
                   feeMsgs (setNative e b).cfg swap.trader sp tl
                     ++ [transferMsg (setNative e b).cfg swap.trader mtv.value]))
          ∨ (absDiff swap.openNotional out / swap.leverage ≠ 0
            ∧ ∃ R', reqNet (sp + tl) sp tl mtv = .ok R'
              ∧ r = (setNative (reEngine e st (clearPosition env (getPosition env e swap.vamm swap.trader swap.side))
                        { swap with openNotional := absDiff swap.openNotional out, marginToVault := mtv,
                                    upnl := Integer.zero, feesPaid := true } ⟨A, R'⟩) b,
                     feeMsgs (setNative e b).cfg swap.trader sp tl
                       ++ [swapInputMsg swap.vamm swap.side (absDiff swap.openNotional out) 0 false REPLY_INCREASE]))) := by
  unfold reversePositionReply
  simp only [ws_st, ws_cfg, ws_tmpSwap, ws_sentFunds, ws_getPosition, ws_calcRemainMargin, ws_updateOpenInterest,
    ws_transferFees, sn_st, sn_tmpSwap, sn_native, sn_getPosition, sn_calcRemainMargin, sn_updateOpenInterest, hsw]
  constructor
  · intro h
    simp only [bind_ok_iff, pure_ok_iff, EngineMoney.unwrap_ok, cadd_ok, cdiv_ok] at h
    obtain ⟨_, rfl, _, rfl, st, hst, rm0, hrm, pm, hpm, x, hx, _, ⟨h1, rfl⟩, _, ⟨h2, rfl⟩, lev, ⟨hl, rfl⟩, h⟩ := h
    obtain ⟨fm, sp, tl⟩ := x
    obtain ⟨hfee, rfl⟩ := EngineGuards.transferFees_spec _ _ _ _ _ _ _ _ hx
    dsimp only at h1 h2 h
    by_cases hz : (if swap.openNotional > out then swap.openNotional - out else out - swap.openNotional)
        / swap.leverage = 0
    · rw [if_pos hz] at h
      simp only [bind_ok_iff] at h
      obtain ⟨mtv, hmtv, h⟩ := h
      refine ⟨st, rm0, pm, sp, tl, mtv, hst, hrm, hpm, hfee, by omega, hl, hmtv, Or.inl ⟨hz, ?_, ?_⟩⟩
      · intro hb
        subst hb
        simp only [↓reduceIte, bind_ok_iff, sentFundsSufficient_ok] at h
        obtain ⟨_, h, _⟩ := h
        omega
      · cases b
        · simp only [Bool.false_eq_true, ↓reduceIte, pure_ok_iff] at h
          rw [← h]; rfl
        · simp only [↓reduceIte, bind_ok_iff, pure_ok_iff] at h
          obtain ⟨_, _, h⟩ := h
          rw [← h]; rfl
    · rw [if_neg hz] at h
      simp only [bind_ok_iff, Nat.zero_add] at h
      obtain ⟨mtv, hmtv, h⟩ := h
      refine ⟨st, rm0, pm, sp, tl, mtv, hst, hrm, hpm, hfee, by omega, hl, hmtv, Or.inr ⟨hz, ?_⟩⟩
      unfold reqNet
      by_cases hp : mtv.isPositive = true
      · rw [if_pos hp] at h ⊢
        simp only [bind_ok_iff, pure_ok_iff] at h
        obtain ⟨R', hR, h⟩ := h
        exact ⟨R', hR, by rw [← h]; rfl⟩
      · rw [if_neg hp] at h ⊢
        by_cases hg : sp + tl > mtv.value
        · rw [if_pos hg] at h ⊢
          simp only [bind_ok_iff, pure_ok_iff] at h
          obtain ⟨R', hR, h⟩ := h
          exact ⟨R', hR, by rw [← h]; rfl⟩
        · rw [if_neg hg] at h ⊢
          simp only [bind_ok_iff, pure_ok_iff] at h
          obtain ⟨R', hR, h⟩ := h
          exact ⟨R', hR, by rw [← h]; rfl⟩
  · rintro ⟨st, rm0, pm, sp, tl, mtv, hst, hrm, hpm, hfee, hR, hl, hmtv, hcase⟩
    have htf := transferFees_of_fee q (setNative e b) swap.trader swap.vamm swap.openNotional sp tl hfee
    simp only [bind_ok_iff, pure_ok_iff, EngineMoney.unwrap_ok, cadd_ok, cdiv_ok]
    refine ⟨_, rfl, _, rfl, st, hst, rm0, hrm, pm, hpm, _, htf, _, ⟨by dsimp only; omega, rfl⟩, _,
      ⟨by dsimp only; omega, rfl⟩, _, ⟨hl, rfl⟩, ?_⟩
    dsimp only
    unfold absDiff at hcase
    rcases hcase with ⟨hz, hA, rfl⟩ | ⟨hz, R', hR', rfl⟩
    · rw [if_pos hz]
      simp only [bind_ok_iff]
      refine ⟨mtv, hmtv, ?_⟩
      cases b
      · rfl
      · have := hA rfl
        subst this
        simp only [↓reduceIte, bind_ok_iff, sentFundsSufficient_ok, pure_ok_iff]
        exact ⟨(), by omega, rfl⟩
    · rw [if_neg hz]
      simp only [bind_ok_iff, Nat.zero_add]
      refine ⟨mtv, hmtv, ?_⟩
      unfold reqNet at hR'
      by_cases hp : mtv.isPositive = true
      · rw [if_pos hp] at hR' ⊢
        simp only [bind_ok_iff, pure_ok_iff]
        exact ⟨R', hR', rfl⟩
      · rw [if_neg hp] at hR' ⊢
        by_cases hg : sp + tl > mtv.value
        · rw [if_pos hg] at hR' ⊢
          simp only [bind_ok_iff, pure_ok_iff]
          exact ⟨R', hR', rfl⟩
        · rw [if_neg hg] at hR' ⊢
          simp only [bind_ok_iff, pure_ok_iff]
          exact ⟨R', hR', rfl⟩

/-! ### the second leg's reply (fees already paid), uniformly in the collateral kind -/

/-- the position the second leg stores -/
def legPos (env : Env) (P : Position) (side : Side) (nn : Nat) (ns : Integer) (rm : RemainMargin) : Position :=
  { P with direction := sideToDirection side, notional := nn, size := ns, margin := rm.margin, chk := rm.latest,
           block := env.height }

/-- the engine after the second leg -/
def upEngine (e1 : E) (st : State) : E := { e1 with st := st, tmpSwap := none, sentFunds := none }

theorem upr2_spec (q : Q) (e : E) (env : Env) (i o : Nat) (swap : TmpSwap) (b : Bool) (A R : Nat)
    (hsw : e.tmpSwap = some swap) (hfp : swap.feesPaid = true) (r : E × List SubMsg) :
    updatePositionReply q (withSent (setNative e b) ⟨A, R⟩) env i o REPLY_INCREASE = .ok r ↔
      ∃ st x sm mtv nn rm ns ratio,
        updateOpenInterest q e e.st swap.vamm (Integer.newPositive i) swap.trader = .ok st
        ∧ cmul swap.openNotional e.cfg.decimals = .ok x ∧ cdiv x swap.leverage = .ok sm
        ∧ Integer.checkedAdd swap.marginToVault (Integer.newPositive sm) = .ok mtv
        ∧ cadd (getPosition env e swap.vamm swap.trader swap.side).notional swap.openNotional = .ok nn
        ∧ calcRemainMargin e (getPosition env e swap.vamm swap.trader swap.side) (Integer.newPositive sm) = .ok rm
        ∧ Integer.add (getPosition env e swap.vamm swap.trader swap.side).size (signedOutput swap.side o) = .ok ns
        ∧ checkHoldingCap q (storePosition e (legPos env (getPosition env e swap.vamm swap.trader swap.side) swap.side nn ns rm))
            swap.vamm ns.value swap.trader = .ok ()
        ∧ queryMarginRatio q (storePosition e (legPos env (getPosition env e swap.vamm swap.trader swap.side) swap.side nn ns rm))
            (getPosition env e swap.vamm swap.trader swap.side).vamm
            (getPosition env e swap.vamm swap.trader swap.side).trader = .ok ratio
        ∧ requireAdditionalMargin ratio e.cfg.mmr = .ok ()
        ∧ ((Integer.lt mtv Integer.zero = true
            ∧ ∃ st' ms, unwrap (withdraw q (setNative (storePosition e
                  (legPos env (getPosition env e swap.vamm swap.trader swap.side) swap.side nn ns rm)) b)
                  st swap.trader mtv.value 0) = .ok (st', ms)
              ∧ (b = true → A = R)
              ∧ r = (setNative (upEngine (storePosition e
                      (legPos env (getPosition env e swap.vamm swap.trader swap.side) swap.side nn ns rm)) st') b, ms))
          ∨ (Integer.lt mtv Integer.zero = false ∧ Integer.gt mtv Integer.zero = true
            ∧ (b = true → R + sm ≤ U128.MAX ∧ A = R + sm)
            ∧ r = (setNative (upEngine (storePosition e
                      (legPos env (getPosition env e swap.vamm swap.trader swap.side) swap.side nn ns rm)) st) b,
                   if b = true then [] else [transferFromMsg (setNative e b).cfg swap.trader ENGINE_ADDR mtv.value]))
          ∨ (Integer.lt mtv Integer.zero = false ∧ Integer.gt mtv Integer.zero = false
            ∧ (b = true → A = R)
            ∧ r = (setNative (upEngine (storePosition e
                      (legPos env (getPosition env e swap.vamm swap.trader swap.side) swap.side nn ns rm)) st) b, []))) := by
  unfold updatePositionReply
  simp only [ws_st, ws_cfg, ws_tmpSwap, ws_sentFunds, ws_getPosition, ws_calcRemainMargin, ws_updateOpenInterest,
    ws_checkHoldingCap, ws_storePosition, ws_queryMarginRatio, ws_withdraw, ws_transferFees,
    sn_st, sn_tmpSwap, sn_native, sn_decimals, sn_mmr, sn_getPosition, sn_calcRemainMargin, sn_updateOpenInterest,
    sn_checkHoldingCap, sn_storePosition, sn_queryMarginRatio, hsw, hfp, ↓reduceIte, Bool.not_true,
    Bool.false_eq_true, pure_bind]
  constructor
  · intro h
    simp only [bind_ok_iff, cadd_ok, cdiv_ok, cmul_ok] at h
    obtain ⟨st, hst, _, ⟨hx, rfl⟩, _, ⟨hl, rfl⟩, mtv, hmtv, _, ⟨hn, rfl⟩, rm, hrm, ns, hns, ⟨⟩, hcap, h⟩ := h
    by_cases hlt : Integer.lt mtv Integer.zero = true
    · rw [if_pos hlt] at h
      cases b
      · simp only [Bool.false_eq_true, ↓reduceIte, bind_ok_iff, pure_ok_iff] at h
        obtain ⟨⟨st', ms⟩, hw, ratio, hratio, ⟨⟩, hreq, rfl⟩ := h
        exact ⟨st, _, _, mtv, _, rm, ns, ratio, hst, (cmul_ok _ _ _).2 ⟨hx, rfl⟩, (cdiv_ok _ _ _).2 ⟨hl, rfl⟩, hmtv,
          (cadd_ok _ _ _).2 ⟨hn, rfl⟩, hrm, hns, hcap, hratio, hreq,
          Or.inl ⟨hlt, st', ms, hw, (fun hb => absurd hb (by decide)), rfl⟩⟩
      · simp only [↓reduceIte, bind_ok_iff, pure_ok_iff, sentFundsSufficient_ok] at h
        obtain ⟨⟨st', ms⟩, hw, ⟨⟩, hA, ratio, hratio, ⟨⟩, hreq, rfl⟩ := h
        exact ⟨st, _, _, mtv, _, rm, ns, ratio, hst, (cmul_ok _ _ _).2 ⟨hx, rfl⟩, (cdiv_ok _ _ _).2 ⟨hl, rfl⟩, hmtv,
          (cadd_ok _ _ _).2 ⟨hn, rfl⟩, hrm, hns, hcap, hratio, hreq,
          Or.inl ⟨hlt, st', ms, hw, fun _ => hA, rfl⟩⟩
    · rw [if_neg hlt] at h
      have hlt' : Integer.lt mtv Integer.zero = false := by simpa using hlt
      by_cases hgt : Integer.gt mtv Integer.zero = true
      · rw [if_pos hgt] at h
        cases b
        · simp only [Bool.false_eq_true, ↓reduceIte, bind_ok_iff, pure_ok_iff] at h
          obtain ⟨ratio, hratio, ⟨⟩, hreq, rfl⟩ := h
          exact ⟨st, _, _, mtv, _, rm, ns, ratio, hst, (cmul_ok _ _ _).2 ⟨hx, rfl⟩, (cdiv_ok _ _ _).2 ⟨hl, rfl⟩, hmtv,
            (cadd_ok _ _ _).2 ⟨hn, rfl⟩, hrm, hns, hcap, hratio, hreq,
            Or.inr (Or.inl ⟨hlt', hgt, (fun hb => absurd hb (by decide)), rfl⟩)⟩
        · simp only [↓reduceIte, bind_ok_iff, pure_ok_iff, sentFundsSufficient_ok, cadd_ok] at h
          obtain ⟨_, ⟨hR, rfl⟩, ⟨⟩, hA, ratio, hratio, ⟨⟩, hreq, rfl⟩ := h
          exact ⟨st, _, _, mtv, _, rm, ns, ratio, hst, (cmul_ok _ _ _).2 ⟨hx, rfl⟩, (cdiv_ok _ _ _).2 ⟨hl, rfl⟩, hmtv,
            (cadd_ok _ _ _).2 ⟨hn, rfl⟩, hrm, hns, hcap, hratio, hreq,
            Or.inr (Or.inl ⟨hlt', hgt, (fun _ => ⟨hR, hA⟩), rfl⟩)⟩
      · rw [if_neg hgt] at h
        have hgt' : Integer.gt mtv Integer.zero = false := by simpa using hgt
        cases b
        · simp only [Bool.false_eq_true, ↓reduceIte, bind_ok_iff, pure_ok_iff] at h
          obtain ⟨ratio, hratio, ⟨⟩, hreq, rfl⟩ := h
          exact ⟨st, _, _, mtv, _, rm, ns, ratio, hst, (cmul_ok _ _ _).2 ⟨hx, rfl⟩, (cdiv_ok _ _ _).2 ⟨hl, rfl⟩, hmtv,
            (cadd_ok _ _ _).2 ⟨hn, rfl⟩, hrm, hns, hcap, hratio, hreq,
            Or.inr (Or.inr ⟨hlt', hgt', (fun hb => absurd hb (by decide)), rfl⟩)⟩
        · simp only [↓reduceIte, bind_ok_iff, pure_ok_iff, sentFundsSufficient_ok] at h
          obtain ⟨⟨⟩, hA, ratio, hratio, ⟨⟩, hreq, rfl⟩ := h
          exact ⟨st, _, _, mtv, _, rm, ns, ratio, hst, (cmul_ok _ _ _).2 ⟨hx, rfl⟩, (cdiv_ok _ _ _).2 ⟨hl, rfl⟩, hmtv,
            (cadd_ok _ _ _).2 ⟨hn, rfl⟩, hrm, hns, hcap, hratio, hreq,
            Or.inr (Or.inr ⟨hlt', hgt', (fun _ => hA), rfl⟩)⟩
  · rintro ⟨st, x, sm, mtv, nn, rm, ns, ratio, hst, hcm, hcd, hmtv, hnn, hrm, hns, hcap, hratio, hreq, hcase⟩
    obtain ⟨hx, rfl⟩ := (cmul_ok _ _ _).1 hcm
    obtain ⟨hl, rfl⟩ := (cdiv_ok _ _ _).1 hcd
    obtain ⟨hn, rfl⟩ := (cadd_ok _ _ _).1 hnn
    simp only [bind_ok_iff, cadd_ok, cdiv_ok, cmul_ok]
    refine ⟨st, hst, _, ⟨hx, rfl⟩, _, ⟨hl, rfl⟩, mtv, hmtv, _, ⟨hn, rfl⟩, rm, hrm, ns, hns, (), hcap, ?_⟩
    rcases hcase with ⟨hlt, st', ms, hw, hA, rfl⟩ | ⟨hlt, hgt, hA, rfl⟩ | ⟨hlt, hgt, hA, rfl⟩
    · rw [if_pos hlt]
      cases b
      · simp only [Bool.false_eq_true, ↓reduceIte, bind_ok_iff, pure_ok_iff]
        exact ⟨(st', ms), hw, ratio, hratio, (), hreq, rfl⟩
      · simp only [↓reduceIte, bind_ok_iff, pure_ok_iff, sentFundsSufficient_ok]
        exact ⟨(st', ms), hw, (), hA rfl, ratio, hratio, (), hreq, rfl⟩
    · rw [if_neg (by rw [hlt]; decide), if_pos hgt]
      cases b
      · simp only [Bool.false_eq_true, ↓reduceIte, bind_ok_iff, pure_ok_iff]
        exact ⟨ratio, hratio, (), hreq, rfl⟩
      · simp only [↓reduceIte, bind_ok_iff, pure_ok_iff, sentFundsSufficient_ok, cadd_ok]
        exact ⟨_, ⟨(hA rfl).1, rfl⟩, (), (hA rfl).2, ratio, hratio, (), hreq, rfl⟩
    · rw [if_neg (by rw [hlt]; decide), if_neg (by rw [hgt]; decide)]
      cases b
      · simp only [Bool.false_eq_true, ↓reduceIte, bind_ok_iff, pure_ok_iff]
        exact ⟨ratio, hratio, (), hreq, rfl⟩
      · simp only [↓reduceIte, bind_ok_iff, pure_ok_iff, sentFundsSufficient_ok]
        exact ⟨(), hA rfl, ratio, hratio, (), hreq, rfl⟩

/-! ### the dispatcher, unrolled -/

open SatGReduce (attach_form)

theorem replyOk_reverse (q : Q) (e : E) (env : Env) (o : Vamm.SwapOut) :
    replyOk q e env REPLY_REVERSE (.swap o) = reversePositionReply q e env (swOut o) := rfl

theorem dir_side (d : Direction) : sideToDirection (directionToSide d) = d := by cases d <;> rfl

/-- an `OpenPosition` on the reversal path, down to the messages of the reversal reply -/
theorem reverse_tx_iff (w : World) (env : Env) (s : Nat) (f : Funds) (v : Nat) (side : Side) (m l b : Nat) (w' : World)
    (hrev : ReverseQ ({ w with env := env, log := [] } : World).q w.engine env s v side m l) :
    applyTx w env s f (openTx v side m l b) = .ok w' ↔
      ∃ Wa e1 x x' o e2 subs2, Attach w env s f Wa
        ∧ openPosition Wa.q Wa.engine env s f v side m l b = .ok (e1, [revMsg env w.engine s v side])
        ∧ Wa.vammE v = .ok x
        ∧ Vamm.swapOutput x env ENGINE (getPosition env w.engine v s side).direction
            (getPosition env w.engine v s side).size.value 0 = .ok (x', o)
        ∧ reversePositionReply (({ Wa with engine := e1 } : World).setVamm v x').q e1 env (swOut o) = .ok (e2, subs2)
        ∧ execSubs 39 { ({ Wa with engine := e1 } : World).setVamm v x' with engine := e2 } ENGINE subs2 = .ok w' := by
  unfold openTx
  rw [applyTx_engine_iff]
  constructor
  · rintro ⟨Wa, e1, subs, ha, hex, hrun⟩
    obtain ⟨henv, heng, _⟩ := Attach.env ha
    have hex' : openPosition Wa.q Wa.engine env s f v side m l b = .ok (e1, subs) := hex
    obtain ⟨g, lg, rfl⟩ := attach_form ha
    obtain ⟨_, _, _, _, _, _, _, _, hsubs⟩ := reverse_shape _ _ _ _ _ _ _ _ _ _ hrev _ hex'
    dsimp only at hsubs
    subst hsubs
    rw [show FUEL = 38 + 2 from rfl] at hrun
    obtain ⟨w1, ev, e2, subs2, hx, hr, hs⟩ := (single_always_iff 38 _ _ _ _).1 hrun
    obtain ⟨x, x', o, hvx, hsw, rfl, rfl⟩ := (swapOut_iff 38 _ _ _ _ _ _ _).1 hx
    rw [replyOk_reverse] at hr
    rw [dir_side] at hsw
    exact ⟨_, e1, x, x', o, e2, subs2, ha, hex', hvx, hsw, hr, hs⟩
  · rintro ⟨Wa, e1, x, x', o, e2, subs2, ha, hex, hvx, hsw, hr, hs⟩
    obtain ⟨henv, _⟩ := Attach.env ha
    refine ⟨Wa, e1, _, ha, hex, ?_⟩
    rw [show FUEL = 38 + 2 from rfl]
    refine (single_always_iff 38 _ _ _ _).2 ⟨_, _, e2, subs2, (swapOut_iff 38 _ _ _ _ _ _ _).2
      ⟨x, x', o, hvx, by rw [dir_side, show ({ Wa with engine := e1 } : World).env = env from henv]; exact hsw,
        rfl, rfl⟩, ?_, hs⟩
    rw [replyOk_reverse]
    rw [← henv] at hr
    exact hr

/-- a prefix of fire-and-forget transfers, then the rest of the list -/
theorem execSubs_xfers_append : ∀ (xs : List SubMsg) (fuel : Nat) (W w' : World) (rest : List SubMsg),
    (∀ m ∈ xs, XE m) →
    (execSubs (fuel + 1 + xs.length) W ENGINE (xs ++ rest) = .ok w' ↔
      ∃ W1, runX W xs = some W1 ∧ execSubs (fuel + 1) W1 ENGINE rest = .ok w') := by
  intro xs
  induction xs with
  | nil =>
    intro fuel W w' rest _
    simp [runX]
  | cons m r ih =>
    intro fuel W w' rest hx
    have hm : XE m := hx m (List.mem_cons_self ..)
    have hr : ∀ m' ∈ r, XE m' := fun m' h' => hx m' (List.mem_cons_of_mem _ h')
    have hnr : ¬ (m.replyOn = .always ∨ m.replyOn = .success) := by rw [hm.1]; simp
    rw [List.length_cons, List.cons_append, show fuel + 1 + (r.length + 1) = (fuel + r.length + 1) + 1 by omega]
    conv => lhs; lhs; unfold execSubs
    dsimp only []
    unfold runX
    cases hs : stepX W m.msg with
    | none =>
      cases he : execMsg (fuel + r.length + 1) W ENGINE m.msg with
      | ok p =>
        obtain ⟨w1, ev⟩ := p
        rw [(execMsg_xfer_iff _ W m.msg hm.2 w1 ev).1 he |>.1] at hs
        cases hs
      | error e =>
        dsimp only []
        rw [if_pos (Or.inr hm.1), if_neg (by simp)]
        simp [replyErr]
    | some W1 =>
      have he := (execMsg_xfer_iff (fuel + r.length) W m.msg hm.2 W1 .none).2 ⟨hs, rfl⟩
      rw [he]
      dsimp only []
      rw [if_neg hnr, show fuel + r.length + 1 = fuel + 1 + r.length by omega]
      exact ih fuel W1 w' rest hr

/-- the messages of the re-opening branch: the fee transfers, then the second leg with its reply -/
theorem leg2_iff (fm : List SubMsg) (fuel : Nat) (W w' : World) (v : Nat) (side : Side) (n : Nat)
    (hx : ∀ m ∈ fm, XE m) :
    execSubs (fuel + 2 + fm.length) W ENGINE (fm ++ [swapInputMsg v side n 0 false REPLY_INCREASE]) = .ok w' ↔
      ∃ W3 y y' o e5 subs5, runX W fm = some W3 ∧ W3.vammE v = .ok y
        ∧ Vamm.swapInput y W3.env ENGINE (sideToDirection side) n 0 false = .ok (y', o)
        ∧ updatePositionReply (W3.setVamm v y').q W3.engine W3.env (swIn o) (swOut o) REPLY_INCREASE = .ok (e5, subs5)
        ∧ execSubs (fuel + 1) { W3.setVamm v y' with engine := e5 } ENGINE subs5 = .ok w' := by
  rw [show fuel + 2 + fm.length = (fuel + 1) + 1 + fm.length by omega, execSubs_xfers_append fm (fuel + 1) W w' _ hx]
  constructor
  · rintro ⟨W3, hrun, h⟩
    obtain ⟨w1, ev, e5, subs5, hx, hr, hs⟩ := (single_always_iff fuel _ _ _ _).1 h
    obtain ⟨y, y', o, hvy, hsw, rfl, rfl⟩ := (swapIn_iff fuel _ _ _ _ _ _ _ _).1 hx
    rw [replyOk_increase] at hr
    exact ⟨W3, y, y', o, e5, subs5, hrun, hvy, hsw, hr, hs⟩
  · rintro ⟨W3, y, y', o, e5, subs5, hrun, hvy, hsw, hr, hs⟩
    refine ⟨W3, hrun, (single_always_iff fuel _ _ _ _).2 ⟨_, _, e5, subs5,
      (swapIn_iff fuel _ _ _ _ _ _ _ _).2 ⟨y, y', o, hvy, hsw, rfl, rfl⟩, ?_, hs⟩⟩
    rw [replyOk_increase]
    exact hr

/-! ### insurance-fund draws and the messages of a `withdraw` -/

/-- an insurance-fund withdrawal requested by the engine: the fund pays the engine -/
def stepIF (W : World) (a : Nat) : Option World :=
  if W.engine.cfg.insuranceFund = IFUND ∧ W.ifund.engine = ENGINE then
    match W.ledger.bankSend IFUND ENGINE a with
    | .ok g => some { W with ledger := g, log := W.log ++ [(IFUND, ENGINE, a)] }
    | .error _ => none
  else none

theorem execSubs_never_single (fuel : Nat) (W : World) (c : Nat) (msg : Msg) :
    execSubs (fuel + 2) W c [⟨msg, 0, .never⟩] = (execMsg (fuel + 1) W c msg).map (·.1) := by
  conv => lhs; unfold execSubs
  dsimp only []
  cases h : execMsg (fuel + 1) W c msg with
  | ok p =>
    obtain ⟨w1, ev⟩ := p
    dsimp only []
    rw [if_neg (by simp)]
    exact SatGDeposit.execSubs_nil_eq _ _ _
  | error e =>
    dsimp only []
    rw [if_neg (by simp)]
    rfl

theorem execMsg_ifw_iff (fuel : Nat) (W : World) (a : Nat) (w1 : World) (ev : Ev) :
    execMsg (fuel + 3) W ENGINE (.ifWithdraw a) = .ok (w1, ev) ↔ stepIF W a = some w1 ∧ ev = .none := by
  unfold execMsg stepIF
  dsimp only []
  by_cases h1 : W.engine.cfg.insuranceFund = IFUND
  · by_cases h2 : W.ifund.engine = ENGINE
    · rw [if_neg (show ¬ W.engine.cfg.insuranceFund ≠ IFUND by simp [h1]), if_neg (show ¬ ENGINE ≠ W.ifund.engine by simp [h2]),
        if_pos (show W.engine.cfg.insuranceFund = IFUND ∧ W.ifund.engine = ENGINE from ⟨h1, h2⟩)]
      have hsub : ∀ (b : Bool), execSubs (fuel + 2) W IFUND
          [if b = true then ⟨.bankSend W.ifund.engine a, 0, .never⟩ else ⟨.tokenTransfer W.ifund.engine a, 0, .never⟩]
          = (W.ledger.bankSend IFUND ENGINE a).map
              (fun g => { W with ledger := g, log := W.log ++ [(IFUND, ENGINE, a)] }) := by
        intro b
        cases b
        · rw [if_neg (by simp), execSubs_never_single, h2]
          unfold execMsg
          dsimp only []
          show Except.map _ (W.ledger.bankSend IFUND ENGINE a >>= _) = _
          cases W.ledger.bankSend IFUND ENGINE a <;> rfl
        · rw [if_pos rfl, execSubs_never_single, h2]
          unfold execMsg
          dsimp only []
          cases W.ledger.bankSend IFUND ENGINE a <;> rfl
      rw [hsub]
      cases W.ledger.bankSend IFUND ENGINE a with
      | ok g => simp [Except.map, bind, Except.bind, pure, Except.pure]; intro _; exact eq_comm
      | error e => simp [Except.map, bind, Except.bind]
    · rw [if_neg (show ¬ W.engine.cfg.insuranceFund ≠ IFUND by simp [h1]), if_pos (show ENGINE ≠ W.ifund.engine from fun h => h2 h.symm),
        if_neg (show ¬ (W.engine.cfg.insuranceFund = IFUND ∧ W.ifund.engine = ENGINE) from fun h => h2 h.2)]
      simp
  · rw [if_pos (show W.engine.cfg.insuranceFund ≠ IFUND from h1),
      if_neg (show ¬ (W.engine.cfg.insuranceFund = IFUND ∧ W.ifund.engine = ENGINE) from fun h => h1 h.1)]
    simp

theorem if_mv (W W1 : World) (a : Nat) (h : stepIF W a = some W1) :
    Mv W W1 IFUND ENGINE a ∧ a ≠ 0 ∧ W.engine.cfg.insuranceFund = IFUND ∧ W.ifund.engine = ENGINE := by
  unfold stepIF at h
  split at h
  · rename_i hw
    cases hg : W.ledger.bankSend IFUND ENGINE a with
    | error e => rw [hg] at h; cases h
    | ok g =>
      rw [hg] at h
      injection h with h
      subst h
      unfold Ledger.bankSend at hg
      split at hg
      · cases hg
      · rename_i ha
        exact ⟨mv_of_move W g IFUND ENGINE a (by decide) ha hg, ha, hw.1, hw.2⟩
  · cases h

theorem if_ok (W : World) (a : Nat) (hw1 : W.engine.cfg.insuranceFund = IFUND) (hw2 : W.ifund.engine = ENGINE)
    (ha : a ≠ 0) (h1 : a ≤ W.ledger.balance IFUND) (h2 : W.ledger.balance ENGINE + a ≤ U128.MAX) :
    ∃ W1, stepIF W a = some W1 := by
  obtain ⟨g, hg⟩ := move_ok W.ledger IFUND ENGINE a (by decide) h1 h2
  unfold stepIF
  rw [if_pos ⟨hw1, hw2⟩]
  have : W.ledger.bankSend IFUND ENGINE a = .ok g := by unfold Ledger.bankSend; rw [if_neg ha]; exact hg
  rw [this]
  exact ⟨_, rfl⟩

/-- the optional insurance-fund draw of a `withdraw` -/
def optIF (W : World) (sf : Nat) : Option World := if sf = 0 then some W else stepIF W sf

theorem xe_transferMsg (cfg : Config) (r a : Nat) : XE (transferMsg cfg r a) := by
  unfold transferMsg; split <;> exact ⟨rfl, trivial⟩

/-- the messages of one `withdraw`, run by the dispatcher -/
theorem wd_run_iff (fuel : Nat) (hf : 5 ≤ fuel) (W w' : World) (cfg : Config) (r amt sf : Nat) :
    execSubs fuel W ENGINE (TxMoney.wdMsgs cfg r amt sf) = .ok w' ↔
      ∃ W1, optIF W sf = some W1 ∧ stepX W1 (transferMsg cfg r amt).msg = some w' := by
  obtain ⟨f, rfl⟩ : ∃ f, fuel = f + 5 := ⟨fuel - 5, by omega⟩
  have hx1 : ∀ m ∈ [transferMsg cfg r amt], XE m := by
    intro m hm; rw [List.mem_singleton.1 hm]; exact xe_transferMsg _ _ _
  unfold TxMoney.wdMsgs optIF
  by_cases hsf : sf = 0
  · rw [if_pos hsf, if_pos hsf, List.nil_append, execSubs_xfers_iff _ _ _ _ (by simp) hx1]
    simp only [runX]
    constructor
    · intro h
      refine ⟨W, rfl, ?_⟩
      cases hs : stepX W (transferMsg cfg r amt).msg with
      | none => rw [hs] at h; cases h
      | some W2 => rw [hs] at h; exact h
    · rintro ⟨W1, h1, h2⟩
      injection h1 with h1
      subst h1
      rw [h2]
  · rw [if_neg hsf, if_neg hsf]
    show execSubs (f + 4 + 1) W ENGINE (ifWithdrawMsg sf :: [transferMsg cfg r amt]) = _ ↔ _
    conv => lhs; lhs; unfold execSubs
    dsimp only []
    cases hs : stepIF W sf with
    | none =>
      cases he : execMsg (f + 4) W ENGINE (ifWithdrawMsg sf).msg with
      | ok p =>
        obtain ⟨w1, ev⟩ := p
        rw [((execMsg_ifw_iff (f + 1) W sf w1 ev).1 he).1] at hs
        cases hs
      | error e =>
        dsimp only []
        rw [if_pos (show (ifWithdrawMsg sf).replyOn = ReplyOn.always ∨ (ifWithdrawMsg sf).replyOn = ReplyOn.error
          from Or.inr rfl), if_neg (by simp)]
        simp [replyErr]
    | some W1 =>
      have he : execMsg (f + 4) W ENGINE (ifWithdrawMsg sf).msg = .ok (W1, .none) :=
        (execMsg_ifw_iff (f + 1) W sf W1 .none).2 ⟨hs, rfl⟩
      rw [he]
      dsimp only []
      rw [if_neg (by simp [ifWithdrawMsg]), execSubs_xfers_iff _ _ _ _ (by simp) hx1]
      simp only [runX]
      constructor
      · intro h
        refine ⟨W1, rfl, ?_⟩
        cases hs2 : stepX W1 (transferMsg cfg r amt).msg with
        | none => rw [hs2] at h; cases h
        | some W2 => rw [hs2] at h; exact h
      · rintro ⟨W1', h1, h2⟩
        injection h1 with h1
        subst h1
        rw [h2]


theorem mv_bal_eq {Wa Wa1 Wb Wb1 : World} {src dst a : Nat} (ha : Mv Wa Wa1 src dst a) (hb : Mv Wb Wb1 src dst a)
    (hne : src ≠ dst) (hbal : ∀ x, Wb.ledger.balance x = Wa.ledger.balance x) :
    ∀ x, Wb1.ledger.balance x = Wa1.ledger.balance x := by
  intro x
  by_cases h1 : x = src
  · subst h1; rw [ha.bsrc, hb.bsrc, hbal]
  · by_cases h2 : x = dst
    · subst h2; rw [ha.bdst, hb.bdst, hbal]
    · rw [ha.bother x h1 h2, hb.bother x h1 h2, hbal]

theorem optIF_mv (W W1 : World) (sf : Nat) (h : optIF W sf = some W1) :
    Mv W W1 IFUND ENGINE sf ∧ (sf ≠ 0 → W.engine.cfg.insuranceFund = IFUND ∧ W.ifund.engine = ENGINE) := by
  unfold optIF at h
  by_cases hsf : sf = 0
  · rw [if_pos hsf] at h
    injection h with h
    subst h hsf
    exact ⟨Mv.zero _ _ _, fun h => absurd rfl h⟩
  · rw [if_neg hsf] at h
    obtain ⟨hm, _, hw⟩ := if_mv W W1 sf h
    exact ⟨hm, fun _ => hw⟩

theorem optIF_ok (W : World) (sf : Nat)
    (hw : sf ≠ 0 → W.engine.cfg.insuranceFund = IFUND ∧ W.ifund.engine = ENGINE)
    (h1 : sf ≤ W.ledger.balance IFUND) (h2 : W.ledger.balance ENGINE + sf ≤ U128.MAX ∨ sf = 0) :
    ∃ W1, optIF W sf = some W1 := by
  unfold optIF
  by_cases hsf : sf = 0
  · rw [if_pos hsf]; exact ⟨W, rfl⟩
  · rw [if_neg hsf]
    exact if_ok W sf (hw hsf).1 (hw hsf).2 hsf h1 (h2.resolve_right hsf)

theorem stepX_transferMsg (W : World) (cfg : Config) (r amt : Nat) :
    stepX W (transferMsg cfg r amt).msg = stepX W (.bankSend r amt) := by
  unfold transferMsg; split <;> rfl

/-- the messages of a `withdraw` run alike on two worlds with the same balances and the same wiring -/
theorem wd_transfer (fuel : Nat) (hf : 5 ≤ fuel) (Wa Wb wa' : World) (cfga cfgb : Config) (r amt sf : Nat)
    (hr : ENGINE ≠ r)
    (hbal : ∀ a, Wb.ledger.balance a = Wa.ledger.balance a)
    (hw1 : Wb.engine.cfg.insuranceFund = Wa.engine.cfg.insuranceFund) (hw2 : Wb.ifund.engine = Wa.ifund.engine)
    (h : execSubs fuel Wa ENGINE (TxMoney.wdMsgs cfga r amt sf) = .ok wa') :
    ∃ wb', execSubs fuel Wb ENGINE (TxMoney.wdMsgs cfgb r amt sf) = .ok wb' ∧ Fr Wa wa' ∧ Fr Wb wb'
      ∧ wa'.log = Wa.log ++ optE IFUND ENGINE sf ++ [(ENGINE, r, amt)]
      ∧ wb'.log = Wb.log ++ optE IFUND ENGINE sf ++ [(ENGINE, r, amt)] := by
  obtain ⟨W1, h1, h2⟩ := (wd_run_iff fuel hf Wa wa' cfga r amt sf).1 h
  obtain ⟨M1, hwa⟩ := optIF_mv Wa W1 sf h1
  rw [stepX_transferMsg] at h2
  obtain ⟨M2, hamt⟩ := send_mv W1 wa' r amt hr h2
  have e1 := M1.has; have e2 := M1.room
  obtain ⟨V1, k1⟩ := optIF_ok Wb sf (fun hs => by rw [hw1, hw2]; exact hwa hs) (by rw [hbal]; exact e1)
    (by rw [hbal]; exact e2)
  obtain ⟨N1, _⟩ := optIF_mv Wb V1 sf k1
  have hbal1 := mv_bal_eq M1 N1 (by decide) hbal
  have e3 := M2.has; have e4 := M2.room
  obtain ⟨wb', k2⟩ := send_ok V1 r amt hr hamt (by rw [hbal1]; exact e3) (by rw [hbal1]; exact e4.resolve_right hamt)
  obtain ⟨N2, _⟩ := send_mv V1 wb' r amt hr k2
  refine ⟨wb', (wd_run_iff fuel hf Wb wb' cfgb r amt sf).2 ⟨V1, k1, by rw [stepX_transferMsg]; exact k2⟩,
    Fr.trans M1.fr M2.fr, Fr.trans N1.fr N2.fr, ?_, ?_⟩
  · rw [M2.log, M1.log]; simp [optE, hamt]
  · rw [N2.log, N1.log]; simp [optE, hamt]


/-! ### ledger accounting along a chain of moves -/

theorem mv_LL {W W1 : World} {src dst a : Nat} (h : Mv W W1 src dst a) (hne : src ≠ dst) (bal0 : Nat → Int)
    (hL : TxLog.LL bal0 W) : TxLog.LL bal0 W1 := by
  intro x
  have hx := hL x
  rw [h.log, TxLog.tot_append, TxLog.tot_append, tot_optE, tot_optE]
  simp only [beq_iff_eq]
  have hhas := h.has
  by_cases h1 : x = src
  · subst h1
    have := h.bsrc
    rw [if_neg (fun hh => hne hh.symm), if_pos rfl]
    omega
  · by_cases h2 : x = dst
    · subst h2
      have := h.bdst
      rw [if_pos rfl, if_neg (fun hh => h1 hh.symm)]
      omega
    · have := h.bother x h1 h2
      rw [if_neg (fun hh => h2 hh.symm), if_neg (fun hh => h1 hh.symm)]
      omega

theorem LL_congr {W W' : World} (bal0 : Nat → Int) (h1 : W'.ledger = W.ledger) (h2 : W'.log = W.log)
    (hL : TxLog.LL bal0 W) : TxLog.LL bal0 W' := by
  intro x
  have := hL x
  rw [h1, h2]
  exact this

theorem bal_eq_of_LL {Wn Wc : World} (bal0 : Nat → Int) (hn : TxLog.LL bal0 Wn) (hc : TxLog.LL bal0 Wc)
    (hflow : ∀ a, TxLog.tot (fun x => x.2.1 == a) Wn.log - TxLog.tot (fun x => x.1 == a) Wn.log
                = TxLog.tot (fun x => x.2.1 == a) Wc.log - TxLog.tot (fun x => x.1 == a) Wc.log) :
    ∀ a, Wn.ledger.balance a = Wc.ledger.balance a := by
  intro a
  have h1 := hn a
  have h2 := hc a
  have h3 := hflow a
  omega

/-! ### the fee transfers as a prefix of a longer list -/

theorem feesC_chain (W W' : World) (s I F sp tl : Nat) :
    runX W (feesC s I F sp tl) = some W' ↔
      ∃ W1, optStep W (.tokenTransferFrom s I sp) sp = some W1
        ∧ optStep W1 (.tokenTransferFrom s F tl) tl = some W' := by
  unfold feesC
  rw [runX_append, runX_opt, bind_some_iff]
  constructor
  · rintro ⟨W1, h1, h⟩
    rw [runX_opt] at h
    exact ⟨W1, h1, h⟩
  · rintro ⟨W1, h1, h2⟩
    exact ⟨W1, h1, by rw [runX_opt]; exact h2⟩

theorem cwFees_inv (W W' : World) (s sp tl : Nat) (s2 : s ≠ IFUND) (s3 : s ≠ FEEPOOL)
    (h : runX W (feesC s IFUND FEEPOOL sp tl) = some W') :
    Fr W W' ∧ W'.log = W.log ++ optE s IFUND sp ++ optE s FEEPOOL tl
    ∧ sp + tl ≤ W.ledger.balance s ∧ sp + tl ≤ Ledger.get W.ledger.allow s
    ∧ (W.ledger.balance IFUND + sp ≤ U128.MAX ∨ sp = 0) ∧ (W.ledger.balance FEEPOOL + tl ≤ U128.MAX ∨ tl = 0)
    ∧ W'.ledger.balance s = W.ledger.balance s - (sp + tl)
    ∧ Ledger.get W'.ledger.allow s = Ledger.get W.ledger.allow s - (sp + tl)
    ∧ (∀ x, x ≠ s → x ≠ IFUND → x ≠ FEEPOOL → W'.ledger.balance x = W.ledger.balance x)
    ∧ (∀ bal0, TxLog.LL bal0 W → TxLog.LL bal0 W') := by
  obtain ⟨W1, hp2, hp3⟩ := (feesC_chain _ _ _ _ _ _ _).1 h
  have P2 := optPull_pl _ _ _ _ _ s2 hp2
  have P3 := optPull_pl _ _ _ _ _ s3 hp3
  have h2 := P2.has; have h3 := P3.has; have e2 := P2.bsrc; have e3 := P3.bsrc
  have a2 := P2.allowed; have a2' := P2.allowAfter; have a3 := P3.allowed; have a3' := P3.allowAfter
  refine ⟨Fr.trans P2.fr P3.fr, by rw [P3.log, P2.log], by omega, by omega, P2.room, ?_, by omega, by omega, ?_, ?_⟩
  · have h1 : W1.ledger.balance FEEPOOL = W.ledger.balance FEEPOOL := P2.bother FEEPOOL (Ne.symm s3) (by decide)
    have := P3.room
    rw [h1] at this
    exact this
  · intro x hx1 hx2 hx3
    rw [P3.bother x hx1 hx3, P2.bother x hx1 hx2]
  · intro bal0 hL
    exact mv_LL P3.toMv s3 bal0 (mv_LL P2.toMv s2 bal0 hL)

theorem cwFees_ok (W : World) (s sp tl : Nat) (s2 : s ≠ IFUND) (s3 : s ≠ FEEPOOL)
    (hal : sp + tl ≤ Ledger.get W.ledger.allow s) (hb : sp + tl ≤ W.ledger.balance s)
    (hI : W.ledger.balance IFUND + sp ≤ U128.MAX ∨ sp = 0)
    (hF : W.ledger.balance FEEPOOL + tl ≤ U128.MAX ∨ tl = 0) :
    ∃ W', runX W (feesC s IFUND FEEPOOL sp tl) = some W' := by
  obtain ⟨W1, hp2⟩ := optPull_ok W s IFUND sp s2 (by omega) (by omega) hI
  have P2 := optPull_pl _ _ _ _ _ s2 hp2
  have a2 := P2.allowAfter
  have b2 := P2.bsrc
  have f2 : W1.ledger.balance FEEPOOL = W.ledger.balance FEEPOOL := P2.bother FEEPOOL (Ne.symm s3) (by decide)
  obtain ⟨W', hp3⟩ := optPull_ok W1 s FEEPOOL tl s3 (by omega) (by omega) (by rw [f2]; exact hF)
  exact ⟨W', (feesC_chain _ _ _ _ _ _ _).2 ⟨W1, hp2, hp3⟩⟩

theorem natFees_inv (W W' : World) (sp tl : Nat)
    (h : runX W (feesN IFUND FEEPOOL sp tl) = some W') :
    Fr W W' ∧ W'.log = W.log ++ optE ENGINE IFUND sp ++ optE ENGINE FEEPOOL tl
    ∧ sp + tl ≤ W.ledger.balance ENGINE
    ∧ (W.ledger.balance IFUND + sp ≤ U128.MAX ∨ sp = 0) ∧ (W.ledger.balance FEEPOOL + tl ≤ U128.MAX ∨ tl = 0)
    ∧ W'.ledger.balance ENGINE = W.ledger.balance ENGINE - (sp + tl)
    ∧ (∀ x, x ≠ ENGINE → x ≠ IFUND → x ≠ FEEPOOL → W'.ledger.balance x = W.ledger.balance x)
    ∧ (∀ bal0, TxLog.LL bal0 W → TxLog.LL bal0 W') := by
  obtain ⟨W1, hn1, hn2⟩ := (nat_fees_chain _ _ _ _ _ _).1 h
  have M1 := optSend_mv _ _ _ _ (by decide) hn1
  have M2 := optSend_mv _ _ _ _ (by decide) hn2
  have h2 := M1.has; have h3 := M2.has; have e2 := M1.bsrc; have e3 := M2.bsrc
  refine ⟨Fr.trans M1.fr M2.fr, by rw [M2.log, M1.log], by omega, M1.room, ?_, by omega, ?_, ?_⟩
  · have h1 : W1.ledger.balance FEEPOOL = W.ledger.balance FEEPOOL := M1.bother FEEPOOL (by decide) (by decide)
    have := M2.room
    rw [h1] at this
    exact this
  · intro x hx1 hx2 hx3
    rw [M2.bother x hx1 hx3, M1.bother x hx1 hx2]
  · intro bal0 hL
    exact mv_LL M2 (by decide) bal0 (mv_LL M1 (by decide) bal0 hL)

theorem natFees_ok (W : World) (sp tl : Nat) (hE : sp + tl ≤ W.ledger.balance ENGINE)
    (hI : W.ledger.balance IFUND + sp ≤ U128.MAX ∨ sp = 0)
    (hF : W.ledger.balance FEEPOOL + tl ≤ U128.MAX ∨ tl = 0) :
    ∃ W', runX W (feesN IFUND FEEPOOL sp tl) = some W' := by
  obtain ⟨W1, hn1⟩ := optSend_ok W IFUND sp (by decide) (by omega) hI
  have M1 := optSend_mv _ _ _ _ (by decide) hn1
  have hM1E : W1.ledger.balance ENGINE = W.ledger.balance ENGINE - sp := M1.bsrc
  have hM1F : W1.ledger.balance FEEPOOL = W.ledger.balance FEEPOOL := M1.bother FEEPOOL (by decide) (by decide)
  obtain ⟨W', hn2⟩ := optSend_ok W1 FEEPOOL tl (by decide) (by omega) (by rw [hM1F]; exact hF)
  exact ⟨W', (nat_fees_chain _ _ _ _ _ _).2 ⟨W1, hn1, hn2⟩⟩

end Perp.Props.SatGReverse
