/-
  G8 — handler-level theorems for C07 (liquidation liveness, partial) and C13 (the collateral kind
  only changes the form of the emitted transfers).  Statements were fixed before the proofs were written.
-/
import Perp.Model.World
import Perp.Lemmas.Basic

namespace Perp.Props.LiqTwin
open Perp Perp.Engine

def isOk {α : Type} (e : Except Err α) : Prop := ∃ r, e = .ok r

/-! ### C07 (partial): the execute half of `Liquidate` has no failure path of its own -/

theorem readPosition_tmpLiq (e : E) (x : Option Nat) (v t : Nat) :
    readPosition { e with tmpLiq := x } v t = readPosition e v t := rfl

/-- full-liquidation path: if the position exists, every query answers, the vAMM is registered and
    open, and the (possibly oracle-lifted) margin ratio is at most the maintenance ratio, `liquidate`
    dispatches the closing swap — whatever the caller, the pause flag, the vault balance, and however
    negative the ratio is -/
theorem liquidate_full_path_live (q : Q) (e : E) (env : Env) (s v t l : Nat) (r0 : Integer) (over : Bool)
    (hq : queryMarginRatio q { e with tmpLiq := some s } v t = .ok r0)
    (hs : q.isOverSpread v = .ok over)
    (horacle : over = true → ∃ ro d, marginRatioByOption q { e with tmpLiq := some s } v t .oracle = .ok ro
                 ∧ Integer.checkedSub ro r0 = .ok d
                 ∧ Integer.gt (if Integer.gt d Integer.zero then ro else r0) (Integer.newPositive e.cfg.mmr) = false)
    (hlow : over = false → Integer.gt r0 (Integer.newPositive e.cfg.mmr) = false)
    (hv : requireVamm q v = .ok ())
    (hp : (readPosition e v t).size.value ≠ 0)
    (hfull : e.cfg.plr = 0) :
    ∃ e', liquidate q e env s v t l = .ok (e',
      [swapOutputMsg (readPosition e v t).vamm (directionToSide (readPosition e v t).direction)
        (readPosition e v t).size.value l REPLY_LIQUIDATION])
      ∧ e'.tmpLiq = some s := by
  cases over with
  | false =>
    have h1 := hlow rfl
    simp [liquidate, hq, hs, hv, h1, requireInsufficientMargin, readPosition_tmpLiq, hp, hfull,
      internalClosePosition, bind, Except.bind, pure, Except.pure]
  | true =>
    obtain ⟨ro, d, h1, h2, h3⟩ := horacle rfl
    simp [liquidate, hq, hs, hv, h1, h2, h3, requireInsufficientMargin, readPosition_tmpLiq, hp, hfull,
      internalClosePosition, bind, Except.bind, pure, Except.pure]

/-- the unrestricted liveness statement is FALSE of the model (and of the code): a deeply
    under-water position with a non-zero partial-liquidation ratio takes the partial path, whose reply
    underflows.  Witness: margin 10, notional 100, long 10 base, quote paid for a quarter is 15
    (value collapsed), 25 % partial ratio, fee 2.5 %. -/
def witnessE : E :=
  { cfg := { owner := 100, insuranceFund := 2, feePool := 3, native := false, decimals := 1000000,
             imr := 100000, mmr := 50000, plr := 250000, liqFee := 25000 },
    st := ⟨0, 0, false⟩, pauser := 111, whitelist := [],
    positions := [⟨10, 101, .addToAmm, ⟨10000000, false⟩, 10000000, 100000000, Integer.zero, 5⟩],
    vammMaps := [],
    tmpSwap := some ⟨10, 101, .sell, 2500000, 0, 15000000, 0, ⟨40000000, true⟩, Integer.zero, false⟩,
    sentFunds := none, tmpLiq := some 110 }

def witnessQ : Q :=
  { isVamm := fun _ => .ok true, vammOpen := fun _ => .ok true, vammNet := fun _ => .ok Integer.zero,
    vammCaps := fun _ => .ok (0, 0), outputAmount := fun _ _ _ => .ok 15000000,
    outputTwap := fun _ _ _ => .ok 15000000, calcFee := fun _ _ => .ok (0, 0),
    isOverSpread := fun _ => .ok false, underlyingPrice := fun _ => .ok 6000000,
    isOverFluct := fun _ _ _ => .ok false, balance := fun _ => .ok 1000000000 }

theorem partial_path_underflows :
    ∃ x, partialLiquidationReply witnessQ witnessE ⟨6, 100⟩ 2500000 15000000 = .error x := by
  exact ⟨.overflow, rfl⟩

/-! ### C13: collateral kind and message form -/

def setNative (e : E) (b : Bool) : E := { e with cfg := { e.cfg with native := b } }

/-- the native form of a cw20 transfer message (a `TransferFrom` becomes a send out of the engine) -/
def toNative (m : SubMsg) : SubMsg :=
  match m.msg with
  | .tokenTransfer to amt => { m with msg := .bankSend to amt }
  | .tokenTransferFrom _ to amt => { m with msg := .bankSend to amt }
  | _ => m

def lift (r : E × List SubMsg) : E × List SubMsg := (setNative r.1 true, r.2.map toNative)

/-! ### helper lemmas for the twin theorems -/

section comm
variable (q : Q) (e : E) (b : Bool)
@[simp] theorem sn_st : (setNative e b).st = e.st := rfl
@[simp] theorem sn_pauser : (setNative e b).pauser = e.pauser := rfl
@[simp] theorem sn_whitelist : (setNative e b).whitelist = e.whitelist := rfl
@[simp] theorem sn_positions : (setNative e b).positions = e.positions := rfl
@[simp] theorem sn_vammMaps : (setNative e b).vammMaps = e.vammMaps := rfl
@[simp] theorem sn_tmpSwap : (setNative e b).tmpSwap = e.tmpSwap := rfl
@[simp] theorem sn_sentFunds : (setNative e b).sentFunds = e.sentFunds := rfl
@[simp] theorem sn_tmpLiq : (setNative e b).tmpLiq = e.tmpLiq := rfl
@[simp] theorem sn_native : (setNative e b).cfg.native = b := rfl
@[simp] theorem sn_owner : (setNative e b).cfg.owner = e.cfg.owner := rfl
@[simp] theorem sn_if : (setNative e b).cfg.insuranceFund = e.cfg.insuranceFund := rfl
@[simp] theorem sn_feePool : (setNative e b).cfg.feePool = e.cfg.feePool := rfl
@[simp] theorem sn_decimals : (setNative e b).cfg.decimals = e.cfg.decimals := rfl
@[simp] theorem sn_imr : (setNative e b).cfg.imr = e.cfg.imr := rfl
@[simp] theorem sn_mmr : (setNative e b).cfg.mmr = e.cfg.mmr := rfl
@[simp] theorem sn_plr : (setNative e b).cfg.plr = e.cfg.plr := rfl
@[simp] theorem sn_liqFee : (setNative e b).cfg.liqFee = e.cfg.liqFee := rfl

@[simp] theorem sn_readPosition (v t : Nat) : readPosition (setNative e b) v t = readPosition e v t := rfl
@[simp] theorem sn_readVammMap (v : Nat) : readVammMap (setNative e b) v = readVammMap e v := rfl
@[simp] theorem sn_latestCum (v : Nat) : latestCum (setNative e b) v = latestCum e v := rfl
@[simp] theorem sn_getPosition (env : Env) (v t : Nat) (s : Side) :
    getPosition env (setNative e b) v t s = getPosition env e v t s := rfl
@[simp] theorem sn_calcRemainMargin (p : Position) (d : Integer) :
    calcRemainMargin (setNative e b) p d = calcRemainMargin e p d := rfl
@[simp] theorem sn_calcFundingPayment (p : Position) (d : Integer) :
    calcFundingPayment (setNative e b) p d = calcFundingPayment e p d := rfl
@[simp] theorem sn_positionNotionalPnl (p : Position) (o : PnlOpt) :
    positionNotionalPnl q (setNative e b) p o = positionNotionalPnl q e p o := rfl
@[simp] theorem sn_ratioOf (rm : RemainMargin) (n : Nat) : ratioOf (setNative e b) rm n = ratioOf e rm n := rfl
@[simp] theorem sn_queryMarginRatio (v t : Nat) :
    queryMarginRatio q (setNative e b) v t = queryMarginRatio q e v t := rfl
@[simp] theorem sn_marginRatioByOption (v t : Nat) (o : PnlOpt) :
    marginRatioByOption q (setNative e b) v t o = marginRatioByOption q e v t o := rfl
@[simp] theorem sn_positionWithFunding (v t : Nat) :
    positionWithFunding (setNative e b) v t = positionWithFunding e v t := rfl
@[simp] theorem sn_queryFreeCollateral (v t : Nat) :
    queryFreeCollateral q (setNative e b) v t = queryFreeCollateral q e v t := rfl
@[simp] theorem sn_requireNotRestrictionMode (v t h : Nat) :
    requireNotRestrictionMode (setNative e b) v t h = requireNotRestrictionMode e v t h := rfl
@[simp] theorem sn_updateOpenInterest (st : State) (v : Nat) (a : Integer) (t : Nat) :
    updateOpenInterest q (setNative e b) st v a t = updateOpenInterest q e st v a t := rfl
@[simp] theorem sn_checkHoldingCap (v s t : Nat) :
    checkHoldingCap q (setNative e b) v s t = checkHoldingCap q e v s t := rfl
@[simp] theorem sn_storePosition (p : Position) :
    storePosition (setNative e b) p = setNative (storePosition e p) b := rfl
@[simp] theorem sn_removePosition (p : Position) :
    removePosition (setNative e b) p = setNative (removePosition e p) b := rfl
@[simp] theorem sn_storeVammMap (v : Nat) (m : VammMap) :
    storeVammMap (setNative e b) v m = setNative (storeVammMap e v m) b := rfl
@[simp] theorem sn_enterRestrictionMode (v h : Nat) :
    enterRestrictionMode (setNative e b) v h = setNative (enterRestrictionMode e v h) b := rfl
end comm

/-! twin infrastructure -/
theorem tw_bind_same {α β γ : Type} (F : β → γ) (x : Except Err α) (f : α → Except Err γ) (g : α → Except Err β)
    (h : ∀ a, f a = Except.map F (g a)) : (x >>= f) = Except.map F (x >>= g) := by
  cases x with
  | error e => rfl
  | ok a => exact h a

theorem tw_bind_map {α α' β γ : Type} (F : β → γ) (G : α → α') (x' : Except Err α') (x : Except Err α)
    (f : α' → Except Err γ) (g : α → Except Err β)
    (hx : x' = Except.map G x)
    (h : ∀ a, f (G a) = Except.map F (g a)) : (x' >>= f) = Except.map F (x >>= g) := by
  subst hx
  cases x with
  | error e => rfl
  | ok a => exact h a

theorem tw_pure {β γ : Type} (F : β → γ) (a : γ) (b : β) (h : a = F b) :
    (pure a : Except Err γ) = Except.map F (pure b) := by subst h; rfl

theorem tw_ok {β γ : Type} (F : β → γ) (a : γ) (b : β) (h : a = F b) :
    (.ok a : Except Err γ) = Except.map F (.ok b) := by subst h; rfl

theorem tw_error {β γ : Type} (F : β → γ) (e : Err) :
    (.error e : Except Err γ) = Except.map F (.error e) := rfl

theorem tw_pure_bind {α α' β γ : Type} (F : β → γ) (a' : α') (a : α)
    (f : α' → Except Err γ) (g : α → Except Err β)
    (h : f a' = Except.map F (g a)) : ((pure a' : Except Err α') >>= f) = Except.map F ((pure a : Except Err α) >>= g) := h

theorem tw_error_bind {α α' β γ : Type} (F : β → γ) (e : Err)
    (f : α' → Except Err γ) (g : α → Except Err β) :
    ((.error e : Except Err α') >>= f) = Except.map F ((.error e : Except Err α) >>= g) := rfl

theorem unwrap_map {α β : Type} (G : α → β) (x : Except Err α) : unwrap (Except.map G x) = Except.map G (unwrap x) := by
  cases x <;> rfl

/-! messages -/
abbrev tn (x : State × List SubMsg) : State × List SubMsg := (x.1, x.2.map toNative)

@[simp] theorem toNative_transferMsg (e : E) (r a : Nat) :
    toNative (transferMsg (setNative e false).cfg r a) = transferMsg (setNative e true).cfg r a := rfl
@[simp] theorem toNative_transferFromMsg (e : E) (o r a : Nat) :
    toNative (transferFromMsg (setNative e false).cfg o r a) = transferFromMsg (setNative e true).cfg o r a := rfl
@[simp] theorem toNative_ifWithdrawMsg (a : Nat) : toNative (ifWithdrawMsg a) = ifWithdrawMsg a := rfl
@[simp] theorem toNative_swapOutputMsg (v : Nat) (s : Side) (a l id : Nat) :
    toNative (swapOutputMsg v s a l id) = swapOutputMsg v s a l id := rfl
@[simp] theorem toNative_swapInputMsg (v : Nat) (s : Side) (a l : Nat) (c : Bool) (id : Nat) :
    toNative (swapInputMsg v s a l c id) = swapInputMsg v s a l c id := rfl

theorem withdraw_tw (q : Q) (e : E) (st : State) (r a p : Nat) :
    withdraw q (setNative e true) st r a p = Except.map tn (withdraw q (setNative e false) st r a p) := by
  unfold withdraw
  refine tw_bind_same _ _ _ _ fun bal => ?_
  refine tw_bind_same _ _ _ _ fun tot => ?_
  split
  · refine tw_bind_same _ _ _ _ fun sf => ?_
    refine tw_bind_same _ _ _ _ fun pp => ?_
    rfl
  · rfl

theorem transferFees_tw (q : Q) (e : E) (f v n : Nat) :
    transferFees q (setNative e true) f v n
      = Except.map (fun x => (x.1.map toNative, x.2)) (transferFees q (setNative e false) f v n) := by
  unfold transferFees
  refine tw_bind_same _ _ _ _ fun x => ?_
  obtain ⟨toll, spread⟩ := x
  by_cases h1 : spread ≠ 0 <;> by_cases h2 : toll ≠ 0 <;> simp [h1, h2, Except.map, pure, Except.pure]

theorem transferToInsuranceFund_tw (q : Q) (e : E) (a : Nat) :
    transferToInsuranceFund q (setNative e true) a
      = Except.map toNative (transferToInsuranceFund q (setNative e false) a) := by
  unfold transferToInsuranceFund
  refine tw_bind_same _ _ _ _ fun bal => ?_
  rfl

theorem realizeBadDebt_tn (st : State) (d : Nat) :
    (realizeBadDebt st d).2.1.map toNative = (realizeBadDebt st d).2.1 := by
  unfold realizeBadDebt; split <;> rfl

theorem appendCum_tw (e : E) (b : Bool) (v : Nat) (pf : Integer) :
    appendCum (setNative e b) v pf = Except.map (fun x => setNative x b) (appendCum e v pf) := by
  unfold appendCum
  simp only [sn_readVammMap]
  split
  · rfl
  · refine tw_bind_same _ _ _ _ fun s => ?_
    rfl

theorem unwrap_withdraw_tw (q : Q) (e : E) (st : State) (r a p : Nat) :
    unwrap (withdraw q (setNative e true) st r a p) = Except.map tn (unwrap (withdraw q (setNative e false) st r a p)) := by
  rw [withdraw_tw, unwrap_map]

theorem unwrap_transferFees_tw (q : Q) (e : E) (f v n : Nat) :
    unwrap (transferFees q (setNative e true) f v n)
      = Except.map (fun x => (x.1.map toNative, x.2)) (unwrap (transferFees q (setNative e false) f v n)) := by
  rw [transferFees_tw, unwrap_map]

theorem tw_ite {β γ : Type} (F : β → γ) (c : Prop) {i1 : Decidable c} {i2 : Decidable c}
    (a b : Except Err γ) (a' b' : Except Err β)
    (h1 : c → a = Except.map F a') (h2 : ¬ c → b = Except.map F b') :
    @ite _ c i1 a b = Except.map F (@ite _ c i2 a' b') := by
  by_cases h : c
  · rw [if_pos h, if_pos h]; exact h1 h
  · rw [if_neg h, if_neg h]; exact h2 h

theorem tw_bind_map2 {α α1 α2 β γ : Type} (F : β → γ) (G1 : α → α1) (G2 : α → α2)
    (x1 : Except Err α1) (x2 : Except Err α2) (x : Except Err α)
    (f : α1 → Except Err γ) (g : α2 → Except Err β)
    (hx1 : x1 = Except.map G1 x) (hx2 : x2 = Except.map G2 x)
    (h : ∀ a, f (G1 a) = Except.map F (g (G2 a))) : (x1 >>= f) = Except.map F (x2 >>= g) := by
  subst hx1 hx2
  cases x with
  | error e => rfl
  | ok a => exact h a

macro "tw_leaf" : tactic => `(tactic|
  (refine Prod.ext rfl ?_; first | rfl | simp [lift, realizeBadDebt_tn]))

macro "tw_walk" "[" leaf:tactic "]" : tactic => `(tactic|
  repeat' first
    | (with_reducible rfl)
    | (with_reducible exact tw_error _ _)
    | (with_reducible exact tw_error_bind _ _ _ _)
    | (with_reducible refine tw_pure_bind _ _ _ _ _ ?_)
    | (with_reducible refine tw_bind_same _ _ _ _ fun _ => ?_)
    | (with_reducible refine tw_bind_map _ _ _ _ _ _ (unwrap_withdraw_tw ..) fun _ => ?_)
    | (with_reducible refine tw_bind_map _ _ _ _ _ _ (unwrap_transferFees_tw ..) fun _ => ?_)
    | (with_reducible refine tw_bind_map _ _ _ _ _ _ (transferToInsuranceFund_tw ..) fun _ => ?_)
    | (with_reducible refine tw_bind_map2 _ _ _ _ _ _ _ _ (appendCum_tw ..) (appendCum_tw ..) fun _ => ?_)
    | (refine tw_bind_same _ _ _ _ fun _ => ?_)
    | (refine tw_ite _ _ _ _ _ _ (fun _ => ?_) (fun _ => ?_))
    | split
    | ((first | with_reducible refine tw_pure _ _ _ ?_ | with_reducible refine tw_ok _ _ _ ?_); $leaf))

macro "tw_unfold" "[" ds:Lean.Parser.Tactic.simpLemma,* "]" : tactic => `(tactic|
  simp only [$ds,*, sn_st, sn_pauser, sn_whitelist, sn_positions, sn_vammMaps, sn_tmpSwap, sn_sentFunds, sn_tmpLiq,
    sn_native, sn_owner, sn_if, sn_feePool, sn_decimals, sn_imr, sn_mmr, sn_plr, sn_liqFee,
    sn_readPosition, sn_readVammMap, sn_latestCum, sn_getPosition, sn_calcRemainMargin, sn_calcFundingPayment,
    sn_positionNotionalPnl, sn_ratioOf, sn_queryMarginRatio, sn_marginRatioByOption, sn_positionWithFunding,
    sn_queryFreeCollateral, sn_requireNotRestrictionMode, sn_updateOpenInterest, sn_checkHoldingCap,
    sn_storePosition, sn_removePosition, sn_storeVammMap, sn_enterRestrictionMode])


theorem sn_liq_upd (e : E) (b : Bool) (x : Option Nat) :
    ({ cfg := (setNative e b).cfg, st := e.st, pauser := e.pauser, whitelist := e.whitelist,
       positions := e.positions, vammMaps := e.vammMaps, tmpSwap := e.tmpSwap, sentFunds := e.sentFunds,
       tmpLiq := x } : E) = setNative { e with tmpLiq := x } b := rfl


/-- for every handler that does not read the attached funds, the native engine does exactly what the
    cw20 engine does, with each transfer in its native form (given the same query answers) -/
theorem closePosition_twin (q : Q) (e : E) (env : Env) (s v l : Nat) :
    closePosition q (setNative e true) env s v l = (closePosition q (setNative e false) env s v l).map lift := by
  tw_unfold [closePosition, internalClosePosition]
  tw_walk [tw_leaf]

theorem liquidate_twin (q : Q) (e : E) (env : Env) (s v t l : Nat) :
    liquidate q (setNative e true) env s v t l = (liquidate q (setNative e false) env s v t l).map lift := by
  tw_unfold [liquidate, internalClosePosition, partialLiquidation, bind_assoc, pure_bind]
  simp only [sn_liq_upd]
  tw_unfold [Nat.add_zero]
  tw_walk [tw_leaf]

theorem withdrawMargin_twin (q : Q) (e : E) (env : Env) (s v a : Nat) :
    withdrawMargin q (setNative e true) env s v a = (withdrawMargin q (setNative e false) env s v a).map lift := by
  tw_unfold [withdrawMargin]
  tw_walk [tw_leaf]

theorem closePositionReply_twin (q : Q) (e : E) (env : Env) (out : Nat) :
    closePositionReply q (setNative e true) env out = (closePositionReply q (setNative e false) env out).map lift := by
  tw_unfold [closePositionReply]
  tw_walk [tw_leaf]

theorem partialClosePositionReply_twin (q : Q) (e : E) (env : Env) (i o : Nat) :
    partialClosePositionReply q (setNative e true) env i o
      = (partialClosePositionReply q (setNative e false) env i o).map lift := by
  tw_unfold [partialClosePositionReply]
  tw_walk [tw_leaf]

theorem liquidateReply_twin (q : Q) (e : E) (env : Env) (out : Nat) :
    liquidateReply q (setNative e true) env out = (liquidateReply q (setNative e false) env out).map lift := by
  tw_unfold [liquidateReply]
  tw_walk [tw_leaf]

theorem partialLiquidationReply_twin (q : Q) (e : E) (env : Env) (i o : Nat) :
    partialLiquidationReply q (setNative e true) env i o
      = (partialLiquidationReply q (setNative e false) env i o).map lift := by
  tw_unfold [partialLiquidationReply]
  tw_walk [tw_leaf]

theorem payFundingReply_twin (q : Q) (e : E) (env : Env) (pf : Integer) (v : Nat) :
    payFundingReply q (setNative e true) env pf v = (payFundingReply q (setNative e false) env pf v).map lift := by
  tw_unfold [payFundingReply]
  tw_walk [tw_leaf]

/-- a deposit changes the stored margin identically; native requires exactly the amount attached,
    cw20 pulls it -/
theorem depositMargin_twin (e : E) (env : Env) (s v a : Nat) :
    (depositMargin (setNative e true) env s ⟨a, false⟩ v a).map (·.1)
      = (depositMargin (setNative e false) env s ⟨0, false⟩ v a).map (fun r => setNative r.1 true) := by
  tw_unfold [depositMargin]
  cases h1 : requireNotPaused e.st with
  | error x => rfl
  | ok u =>
    by_cases ha : a = 0
    · subst ha; rfl
    · simp only [requireNonZero, ha, if_false]
      simp only [bind, Except.bind, pure, Except.pure, if_true, if_false, Bool.false_eq_true, ne_eq, not_true_eq_false]
      by_cases ht : (readPosition e v s).trader = s
      · simp only [ht, not_true_eq_false, if_false]
        cases cadd (readPosition e v s).margin a <;> rfl
      · simp only [ht, not_false_eq_true, if_true]
        rfl

/-- the ledger effect of a transfer is the same in both forms (cw20 `Transfer` vs bank `Send`) -/
theorem transfer_twin (g : Ledger) (src dst amt : Nat) :
    Ledger.tokenTransfer g src dst amt = Ledger.bankSend g src dst amt := by
  rfl

end Perp.Props.LiqTwin
