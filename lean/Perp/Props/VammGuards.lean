/-
  G1 — vAMM-level guard theorems (parts of C09, C11, C14, C20).  Statements were fixed before the proofs were written.
-/
import Perp.Model.VammRun
import Perp.Lemmas.Basic
import Perp.Props.C19

namespace Perp.Props.VammGuards
open Perp Perp.Vamm

/-- configuration bounds of a vAMM (C20): ratios within [0,1], TWAP interval between a minute and a week -/
def ConfigOK (c : Config) : Prop :=
  c.toll ≤ c.decimals ∧ c.spread ≤ c.decimals ∧ c.fluct ≤ c.decimals ∧ 60 ≤ c.twapInterval ∧ c.twapInterval ≤ 604800

/-- one field-update step: keeps decimals, owner and the bounds -/
def CfgStep (c w : Config) : Prop :=
  w.decimals = c.decimals ∧ w.owner = c.owner ∧ (ConfigOK c → ConfigOK w)

theorem CfgStep.refl (c : Config) : CfgStep c c := ⟨rfl, rfl, id⟩
theorem CfgStep.trans {a b c : Config} (h1 : CfgStep a b) (h2 : CfgStep b c) : CfgStep a c :=
  ⟨h2.1.trans h1.1, h2.2.1.trans h1.2.1, fun h => h2.2.2 (h1.2.2 h)⟩

theorem validateRatio_ok (x D : Nat) (u : Unit) : validateRatio x D = .ok u ↔ x ≤ D := by
  unfold validateRatio; split <;> simp <;> omega

theorem updateConfig_all (v v' : V) (s : Nat) (u : ConfigUpdate)
    (h : updateConfig v s u = .ok v') :
    s = v.cfg.owner ∧ v'.st = v.st ∧ CfgStep v.cfg v'.cfg := by
  unfold updateConfig at h
  split at h
  · simp at h
  · rename_i hs
    refine ⟨by simpa using hs, ?_⟩
    extract_lets c0 c1 c2 c3 c4 j3 j2 j1 j0 at h
    have e4 : CfgStep v.cfg c4 := by
      simp only [c4, c3, c2, c1, c0]
      cases u.holdingCap <;> cases u.oiCap <;> cases u.marginEngine <;> cases u.insuranceFund <;>
        exact ⟨rfl, rfl, id⟩
    clear_value c4
    have p3 : ∀ c w, j3 c = .ok w → w.st = v.st ∧ CfgStep c w.cfg := by
      intro c w hw
      simp [j3] at hw
      subst hw
      exact ⟨rfl, CfgStep.refl _⟩
    clear_value j3
    have p2 : ∀ c w, j2 c = .ok w → w.st = v.st ∧ CfgStep c w.cfg := by
      intro c w hw
      simp only [j2] at hw
      revert hw
      cases u.pricefeed <;> cases u.twapInterval <;> intro hw <;> simp only [] at hw <;>
        (try split at hw) <;> (try simp at hw) <;>
        (have := p3 _ _ hw; refine ⟨this.1, CfgStep.trans ?_ this.2⟩;
         refine ⟨rfl, rfl, ?_⟩; simp only [ConfigOK, ONE_MINUTE, ONE_WEEK] at *; omega)
    clear_value j2
    have p1 : ∀ c w, j1 c = .ok w → w.st = v.st ∧ CfgStep c w.cfg := by
      intro c w hw
      simp only [j1] at hw
      split at hw <;> simp [validateRatio_ok] at hw
      · have := p2 _ _ hw.2
        refine ⟨this.1, CfgStep.trans ?_ this.2⟩
        refine ⟨rfl, rfl, ?_⟩; simp only [ConfigOK] at *; omega
      · exact p2 _ _ hw
    clear_value j1
    have p0 : ∀ c w, j0 c = .ok w → w.st = v.st ∧ CfgStep c w.cfg := by
      intro c w hw
      simp only [j0] at hw
      split at hw <;> simp [validateRatio_ok] at hw
      · have := p1 _ _ hw.2
        refine ⟨this.1, CfgStep.trans ?_ this.2⟩
        refine ⟨rfl, rfl, ?_⟩; simp only [ConfigOK] at *; omega
      · exact p1 _ _ hw
    clear_value j0
    split at h <;> simp [validateRatio_ok] at h
    · have := p0 _ _ h.2
      refine ⟨this.1, CfgStep.trans (CfgStep.trans e4 ?_) this.2⟩
      refine ⟨rfl, rfl, ?_⟩; simp only [ConfigOK] at *; omega
    · have := p0 _ _ h
      exact ⟨this.1, CfgStep.trans e4 this.2⟩


/-! ### helper lemmas -/

theorem requireOpen_ok (v : V) (u : Unit) : requireOpen v = .ok u ↔ v.st.isOpen = true := by
  unfold requireOpen; split <;> simp_all

theorem requireEngine_ok (v : V) (s : Nat) (u : Unit) : requireEngine v s = .ok u ↔ s = v.cfg.marginEngine := by
  unfold requireEngine; split <;> simp_all

theorem add64_ok (a b c : Nat) : add64 a b = .ok c ↔ (a + b ≤ U64.MAX ∧ c = a + b) := by
  unfold add64; split <;> simp_all <;> omega

theorem updateReserve_cfg (v v' : V) (env : Env) (dir : Direction) (qa ba : Nat) (cgo : Bool)
    (h : updateReserve v env dir qa ba cgo = .ok v') : v'.cfg = v.cfg := by
  unfold updateReserve at h
  simp at h
  obtain ⟨_, h⟩ := h
  cases dir <;> simp at h <;> obtain ⟨q, _, b, _, n, _, h⟩ := h <;> subst h <;> rfl

theorem swapInput_guards (v : V) (env : Env) (s : Nat) (d : Direction) (a l : Nat) (g : Bool)
    (r : V × SwapOut) (h : swapInput v env s d a l g = .ok r) :
    v.st.isOpen = true ∧ s = v.cfg.marginEngine ∧ ∃ qa ba, updateReserve v env d qa ba g = .ok r.1 := by
  unfold swapInput at h
  simp at h
  obtain ⟨⟨_, ho⟩, ⟨_, he⟩, h⟩ := h
  refine ⟨(requireOpen_ok _ _).1 ho, (requireEngine_ok _ _ _).1 he, ?_⟩
  split at h
  · simp at h
    obtain ⟨v1, h1, h2⟩ := h
    subst h2
    exact ⟨_, _, h1⟩
  · simp at h
    obtain ⟨b, _, h⟩ := h
    repeat' split at h
    all_goals simp at h
    all_goals
      obtain ⟨v1, h1, h2⟩ := h
      subst h2
      exact ⟨_, _, h1⟩

theorem swapOutput_guards (v : V) (env : Env) (s : Nat) (d : Direction) (a l : Nat)
    (r : V × SwapOut) (h : swapOutput v env s d a l = .ok r) :
    v.st.isOpen = true ∧ s = v.cfg.marginEngine ∧ ∃ d' qa ba, updateReserve v env d' qa ba true = .ok r.1 := by
  unfold swapOutput at h
  simp at h
  obtain ⟨⟨_, ho⟩, ⟨_, he⟩, h⟩ := h
  refine ⟨(requireOpen_ok _ _).1 ho, (requireEngine_ok _ _ _).1 he, ?_⟩
  split at h
  · simp at h
    obtain ⟨v1, h1, h2⟩ := h
    subst h2
    exact ⟨_, _, _, h1⟩
  · simp at h
    obtain ⟨b, _, h⟩ := h
    repeat' split at h
    all_goals simp at h
    all_goals
      obtain ⟨v1, h1, h2⟩ := h
      subst h2
      exact ⟨_, _, _, h1⟩

theorem exmap_ok {α β : Type} (x : Except Err α) (f : α → β) (r : β) :
    x.map f = .ok r ↔ ∃ a, x = .ok a ∧ f a = r := by
  cases x <;> simp [Except.map]

theorem setOpen_inv (v v' : V) (env : Env) (s : Nat) (o : Bool) (h : setOpen v env s o = .ok v') :
    (s = v.cfg.owner ∨ s = v.cfg.insuranceFund) ∧ v.st.isOpen ≠ o ∧ v'.st.isOpen = o ∧ v'.cfg = v.cfg := by
  unfold setOpen at h
  split at h
  · cases h
  · rename_i hg
    have hg' : (s = v.cfg.owner ∨ s = v.cfg.insuranceFund) ∧ v.st.isOpen ≠ o := by
      by_cases h1 : s = v.cfg.owner <;> by_cases h2 : s = v.cfg.insuranceFund <;>
        by_cases h3 : v.st.isOpen = o <;> simp_all
    refine ⟨hg'.1, hg'.2, ?_⟩
    split at h
    · rename_i ho
      simp at h
      obtain ⟨_, _, rfl⟩ := h
      exact ⟨ho.symm, rfl⟩
    · rename_i ho
      simp at h
      subst h
      exact ⟨by simpa using ho, rfl⟩

theorem updateOwner_inv (v v' : V) (s n : Nat) (h : updateOwner v s n = .ok v') :
    s = v.cfg.owner ∧ v' = { v with cfg := { v.cfg with owner := n } } := by
  unfold updateOwner at h
  split at h
  · cases h
  · rename_i hs
    injection h with h
    exact ⟨by simpa using hs, h.symm⟩

/-- full inversion of an accepted `settle_funding` -/
theorem settleFunding_inv (v : V) (env : Env) (s : Nat) (oracle : Except Err Nat) (r : V × Integer)
    (h : settleFunding v env s oracle = .ok r) :
    v.st.isOpen = true ∧ s = v.cfg.marginEngine ∧ v.st.nextFunding ≤ env.time ∧
    ∃ u tw premium pm fr rate,
      oracle = .ok u ∧ calcTwap v.cfg.decimals v.st.snaps env .reserve v.cfg.twapInterval = .ok tw
      ∧ Integer.checkedSub (Integer.newPositive tw) (Integer.newPositive u) = .ok premium
      ∧ Integer.checkedMul premium (Integer.newPositive v.cfg.fundingPeriod) = .ok pm
      ∧ Integer.checkedDiv pm (Integer.newPositive ONE_DAY) = .ok r.2
      ∧ Integer.checkedMul r.2 (Integer.newPositive v.cfg.decimals) = .ok fr
      ∧ Integer.checkedDiv fr (Integer.newPositive u) = .ok rate
      ∧ env.time + v.cfg.fundingBuffer ≤ r.1.st.nextFunding
      ∧ r.1.cfg = v.cfg ∧ r.1.st.quote = v.st.quote ∧ r.1.st.base = v.st.base ∧ r.1.st.net = v.st.net
      ∧ r.1.st.snaps = v.st.snaps ∧ r.1.st.isOpen = v.st.isOpen := by
  unfold settleFunding at h
  simp at h
  obtain ⟨⟨_, ho⟩, ⟨_, he⟩, h⟩ := h
  refine ⟨(requireOpen_ok _ _).1 ho, (requireEngine_ok _ _ _).1 he, ?_⟩
  split at h
  · simp at h
  · rename_i ht
    refine ⟨by omega, ?_⟩
    simp [add64_ok] at h
    obtain ⟨u, hu, tw, htw, p, hp, pm, hpm, pf, hpf, fr, hfr, rate, hrate, mn, ⟨_, hmn⟩, t, ⟨_, _⟩, hr⟩ := h
    subst hr hmn
    refine ⟨u, tw, p, pm, fr, rate, hu, htw, hp, hpm, hpf, hfr, hrate, ?_, rfl, rfl, rfl, rfl, rfl, rfl⟩
    show _ ≤ (if _ then _ else _)
    generalize t / ONE_HOUR * ONE_HOUR = X
    split
    · rename_i hlt; exact Nat.le_of_lt hlt
    · exact Nat.le_refl _

/-! ### the theorems -/

theorem instantiate_configOK (env : Env) (s : Nat) (m : InstantiateMsg) (v : V)
    (h : instantiate env s m = .ok v) : ConfigOK v.cfg ∧ v.cfg.decimals ≤ v.st.quote ∧ v.cfg.decimals ≤ v.st.base
      ∧ 1000000 ≤ v.cfg.decimals := by
  unfold instantiate at h
  simp only [] at h
  split at h
  · cases h
  rename_i h6
  split at h
  · cases h
  split at h
  · cases h
  rename_i hr
  split at h
  · cases h
  rename_i hres
  injection h with h
  subst h
  have hp : 10 ^ 6 ≤ 10 ^ m.decimalPlaces := Nat.pow_le_pow_right (by decide) (by omega)
  simp only [ConfigOK, ONE_HOUR]
  omega

/-- every accepted `update_config` (single or combined fields) keeps the bounds -/
theorem updateConfig_configOK (v v' : V) (s : Nat) (u : ConfigUpdate) (hc : ConfigOK v.cfg)
    (h : updateConfig v s u = .ok v') : ConfigOK v'.cfg ∧ v'.cfg.decimals = v.cfg.decimals ∧ v'.st = v.st := by
  obtain ⟨_, hst, hd, _, hok⟩ := updateConfig_all _ _ _ _ h
  exact ⟨hok hc, hd, hst⟩

/-- any accepted call keeps the bounds (C20, vAMM half, for all update sequences) -/
theorem apply_configOK (v v' : V) (c : Call) (hc : ConfigOK v.cfg) (h : apply v c = .ok v') : ConfigOK v'.cfg := by
  rcases c with ⟨env, sender, op⟩
  cases op with
  | swapInput d a l g =>
    simp only [apply, exmap_ok] at h
    obtain ⟨r, hr, rfl⟩ := h
    obtain ⟨_, _, qa, ba, hu⟩ := swapInput_guards _ _ _ _ _ _ _ _ hr
    rw [updateReserve_cfg _ _ _ _ _ _ _ hu]; exact hc
  | swapOutput d a l =>
    simp only [apply, exmap_ok] at h
    obtain ⟨r, hr, rfl⟩ := h
    obtain ⟨_, _, d', qa, ba, hu⟩ := swapOutput_guards _ _ _ _ _ _ _ hr
    rw [updateReserve_cfg _ _ _ _ _ _ _ hu]; exact hc
  | settle o =>
    simp only [apply, exmap_ok] at h
    obtain ⟨r, hr, rfl⟩ := h
    obtain ⟨_, _, _, _, _, _, _, _, _, _, _, _, _, _, _, _, _, hcfg, _⟩ := settleFunding_inv _ _ _ _ _ hr
    rw [hcfg]; exact hc
  | setOpen o =>
    simp only [apply] at h
    rw [(setOpen_inv _ _ _ _ _ h).2.2.2]; exact hc
  | updateConfig u =>
    simp only [apply] at h
    exact (updateConfig_configOK _ _ _ _ hc h).1
  | updateOwner n =>
    simp only [apply] at h
    obtain ⟨_, rfl⟩ := updateOwner_inv _ _ _ _ h
    exact hc

theorem run_configOK (v : V) (cs : List Call) (hc : ConfigOK v.cfg) : ConfigOK (run v cs).cfg := by
  unfold run
  induction cs generalizing v with
  | nil => exact hc
  | cons c cs ih =>
    simp only [List.foldl_cons]
    apply ih
    unfold step
    split
    · rename_i v' hv'
      exact apply_configOK _ _ _ hc hv'
    · exact hc

/-- roles (C09): swaps and funding settlement only for the configured margin engine -/
theorem swapInput_role (v : V) (env : Env) (s : Nat) (d : Direction) (a l : Nat) (g : Bool) (r : V × SwapOut)
    (h : swapInput v env s d a l g = .ok r) : s = v.cfg.marginEngine :=
  (swapInput_guards _ _ _ _ _ _ _ _ h).2.1
theorem swapOutput_role (v : V) (env : Env) (s : Nat) (d : Direction) (a l : Nat) (r : V × SwapOut)
    (h : swapOutput v env s d a l = .ok r) : s = v.cfg.marginEngine :=
  (swapOutput_guards _ _ _ _ _ _ _ h).2.1
theorem settleFunding_role (v : V) (env : Env) (s : Nat) (o : Except Err Nat) (r : V × Integer)
    (h : settleFunding v env s o = .ok r) : s = v.cfg.marginEngine :=
  (settleFunding_inv _ _ _ _ _ h).2.1
/-- configuration and ownership only for the owner; the new owner then holds the role, the old one does not -/
theorem updateConfig_role (v v' : V) (s : Nat) (u : ConfigUpdate) (h : updateConfig v s u = .ok v') :
    s = v.cfg.owner ∧ v'.cfg.owner = v.cfg.owner := by
  obtain ⟨hs, _, _, ho, _⟩ := updateConfig_all _ _ _ _ h
  exact ⟨hs, ho⟩
theorem updateOwner_role (v v' : V) (s n : Nat) (h : updateOwner v s n = .ok v') :
    s = v.cfg.owner ∧ v'.cfg.owner = n ∧ v'.st = v.st := by
  obtain ⟨hs, rfl⟩ := updateOwner_inv _ _ _ _ h
  exact ⟨hs, rfl, rfl⟩
theorem updateOwner_old_refused (v v' : V) (s n : Nat) (u : ConfigUpdate) (h : updateOwner v s n = .ok v')
    (hne : n ≠ s) : (∃ e, updateConfig v' s u = .error e) ∧ (∃ e, updateOwner v' s s = .error e) := by
  obtain ⟨_, ho, _⟩ := updateOwner_role _ _ _ _ h
  constructor
  · rcases except_cases (updateConfig v' s u) with h' | ⟨w, h'⟩
    · exact h'
    · exact absurd ((updateConfig_role _ _ _ _ h').1.trans ho).symm hne
  · rcases except_cases (updateOwner v' s s) with h' | ⟨w, h'⟩
    · exact h'
    · exact absurd ((updateOwner_role _ _ _ _ h').1.trans ho).symm hne
/-- opening / closing only for the owner or the insurance fund, and only when it changes the flag -/
theorem setOpen_role (v v' : V) (env : Env) (s : Nat) (o : Bool) (h : setOpen v env s o = .ok v') :
    (s = v.cfg.owner ∨ s = v.cfg.insuranceFund) ∧ v.st.isOpen ≠ o ∧ v'.st.isOpen = o ∧ v'.cfg = v.cfg :=
  setOpen_inv _ _ _ _ _ h

/-- closed market (C14): no swap and no funding settlement -/
theorem closed_rejects (v : V) (env : Env) (s : Nat) (d : Direction) (a l : Nat) (g : Bool) (o : Except Err Nat)
    (hc : v.st.isOpen = false) :
    (∃ e, swapInput v env s d a l g = .error e) ∧ (∃ e, swapOutput v env s d a l = .error e)
      ∧ (∃ e, settleFunding v env s o = .error e) := by
  refine ⟨?_, ?_, ?_⟩
  · rcases except_cases (swapInput v env s d a l g) with h | ⟨r, h⟩
    · exact h
    · have := (swapInput_guards _ _ _ _ _ _ _ _ h).1
      rw [hc] at this; cases this
  · rcases except_cases (swapOutput v env s d a l) with h | ⟨r, h⟩
    · exact h
    · have := (swapOutput_guards _ _ _ _ _ _ _ h).1
      rw [hc] at this; cases this
  · rcases except_cases (settleFunding v env s o) with h | ⟨r, h⟩
    · exact h
    · have := (settleFunding_inv _ _ _ _ _ h).1
      rw [hc] at this; cases this

/-- funding schedule (C11, vAMM half): not before the funding time; the premium fraction is
    trunc((vAMM TWAP − oracle TWAP) · period / 1 day); the next funding time is at least the buffer
    (half a period, by `instantiate`) later -/
theorem settleFunding_spec (v v' : V) (env : Env) (s : Nat) (oracle : Except Err Nat) (pf : Integer)
    (h : settleFunding v env s oracle = .ok (v', pf)) :
    v.st.nextFunding ≤ env.time
    ∧ (∃ u tw, oracle = .ok u ∧ calcTwap v.cfg.decimals v.st.snaps env .reserve v.cfg.twapInterval = .ok tw
        ∧ pf.toInt = Int.tdiv (((tw : Int) - (u : Int)) * (v.cfg.fundingPeriod : Int)) 86400)
    ∧ env.time + v.cfg.fundingBuffer ≤ v'.st.nextFunding
    ∧ v'.cfg = v.cfg ∧ v'.st.quote = v.st.quote ∧ v'.st.base = v.st.base ∧ v'.st.net = v.st.net
    ∧ v'.st.snaps = v.st.snaps ∧ v'.st.isOpen = v.st.isOpen := by
  obtain ⟨_, _, ht, u, tw, p, pm, fr, rate, hu, htw, hp, hpm, hpf, _, _, hn, hrest⟩ :=
    settleFunding_inv _ _ _ _ _ h
  refine ⟨ht, ⟨u, tw, hu, htw, ?_⟩, hn, hrest⟩
  have h1 := (C19.checkedSub_ok _ _ _ hp).1
  have h2 := (C19.checkedMul_ok _ _ _ hpm).1
  have h3 := (C19.checkedDiv_ok _ _ _ hpf).1
  simp only [C19.toInt_newPositive] at h1 h2 h3
  rw [h3, h2, h1]
  rfl

theorem instantiate_buffer (env : Env) (s : Nat) (m : InstantiateMsg) (v : V)
    (h : instantiate env s m = .ok v) : v.cfg.fundingBuffer = v.cfg.fundingPeriod / 2 := by
  unfold instantiate at h
  simp only [] at h
  repeat' split at h
  all_goals first | (injection h with h; subst h; rfl) | cases h

end Perp.Props.VammGuards
