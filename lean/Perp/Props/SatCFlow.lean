/-
  SatC, part 2 — the flow of a successful `OpenPosition` transaction, reduced to its LAST reply:
  the world `W` in which that reply ran (after the last swap), the reply's own equation, and the fact
  that nothing the reply reads (`W.q`'s vAMM answers, the clock) changes afterwards — what follows
  the last reply are fire-and-forget collateral messages only.  Used for the margin-ratio clause of C05
  and the caps clause of C20.
-/
import Perp.Props.SatCBase

namespace Perp.Props.SatC
open Perp Perp.World Perp.Engine Perp.Spec Perp.Props.ModelStep
open Perp.Props.Dispatch
open Perp.Props.EngineGuards (Post Post_bind Post_pure Post_ok Post_error Post_bind_pure Post_bind_error)
open Perp.Props.MirrorP (AllCE CE IsColl AllCE_tail AllCE_nil AllCE_cons AllCE_append Post_bind_assoc Post_bind_ite)

theorem withdraw_oi (q : Q) (e : E) (st : State) (r a p : Nat) (x : State × List SubMsg)
    (h : unwrap (withdraw q e st r a p) = .ok x) : x.1.oi = st.oi := by
  rw [EngineMoney.unwrap_ok] at h
  obtain ⟨st', msgs⟩ := x
  obtain ⟨bal, _, hm⟩ := EngineMoney.withdraw_spec q e st st' r a p msgs h
  rcases hm with ⟨_, _, h3, _, _⟩ | ⟨_, h2, _⟩
  · exact h3
  · rw [h2]

set_option maxHeartbeats 1600000 in
/-- what `update_position_reply` checks about the caps, and on which values -/
theorem updatePositionReply_caps (q : Q) (e : E) (env : Env) (i o id : Nat) (sw : TmpSwap)
    (hs : e.tmpSwap = some sw) :
    Post (fun r => ∃ (st1 : State) (p' : Position),
        updateOpenInterest q e e.st sw.vamm
          (if id = REPLY_INCREASE then Integer.newPositive i else Integer.newNegative i) sw.trader = .ok st1
        ∧ r.1.st.oi = st1.oi
        ∧ r.1.positions = (storePosition e p').positions
        ∧ p'.vamm = (getPosition env e sw.vamm sw.trader sw.side).vamm
        ∧ p'.trader = (getPosition env e sw.vamm sw.trader sw.side).trader
        ∧ checkHoldingCap q (storePosition e p') sw.vamm p'.size.value sw.trader = .ok ()
        ∧ r.1.whitelist = e.whitelist)
      (updatePositionReply q e env i o id) := by
  unfold updatePositionReply
  rw [hs]
  walk [(
    refine ⟨_, _, ‹updateOpenInterest _ _ _ _ _ _ = Except.ok _›, ?_, rfl, rfl, rfl,
      ‹checkHoldingCap _ _ _ _ _ = Except.ok _›, rfl⟩
    first
      | rfl
      | exact withdraw_oi _ _ _ _ _ _ _ ‹unwrap (withdraw _ _ _ _ _ _) = Except.ok _›)]

theorem openPosition_keep (q : Q) (e : E) (env : Env) (s : Nat) (f : Funds) (v : Nat) (side : Side) (m l b : Nat) :
    Post (fun r => r.1.whitelist = e.whitelist ∧ r.1.st = e.st ∧ r.1.vammMaps = e.vammMaps)
      (openPosition q e env s f v side m l b) := by
  unfold openPosition
  post_walk [exact ⟨rfl, rfl, rfl⟩]

theorem reversePositionReply_keep (q : Q) (e : E) (env : Env) (o : Nat) :
    Post (fun r => r.1.whitelist = e.whitelist) (reversePositionReply q e env o) := by
  unfold reversePositionReply
  post_walk [rfl]

/-- the last reply of a successful `OpenPosition v side …` by `s` from `w` to `w'` -/
def OpenEnd (w w' : World) (env : Env) (s v : Nat) (side : Side) : Prop :=
  ∃ (W : World) (sw : TmpSwap) (msgs : List SubMsg),
    W.engine.tmpSwap = some sw ∧ sw.vamm = v ∧ sw.trader = s ∧ sw.side = side
    ∧ W.env = env ∧ W.engine.whitelist = w.engine.whitelist
    ∧ w'.vamms = W.vamms ∧ w'.env = W.env
    ∧ ((∃ N bb, updatePositionReply W.q W.engine W.env N bb REPLY_INCREASE = .ok (w'.engine, msgs))
       ∨ (∃ N bb, updatePositionReply W.q W.engine W.env N bb REPLY_DECREASE = .ok (w'.engine, msgs)
            ∧ W.engine.positions = w.engine.positions
            ∧ (getPosition env w.engine v s side).direction ≠ sideToDirection side
            ∧ ∃ (Wq : World) (pn : Nat) (x : Vamm.V), Wq.vamms = w.vamms
                ∧ Wq.q.outputAmount v (getPosition env w.engine v s side).direction
                    (getPosition env w.engine v s side).size.value = .ok pn
                ∧ pn > N ∧ Wq.vamm? v = some x
                ∧ Vamm.queryInputAmount x (sideToDirection side) N = .ok bb)
       ∨ (∃ o, reversePositionReply W.q W.engine W.env o = .ok (w'.engine, msgs)
            ∧ w'.engine.tmpSwap = none ∧ (readPosition w'.engine v s).size = Integer.zero))

theorem open_flow (w w' : World) (env : Env) (s : Nat) (f : Funds) (v : Nat) (side : Side) (mg l b : Nat)
    (h : applyTx w env s f (.engine (.openPosition v side mg l b)) = .ok w') : OpenEnd w w' env s v side := by
  obtain ⟨w1, e1, subs, a1, a2, a3, a4, a5, a6, hex, hrun⟩ := WorldInv.applyTx_engine_inv w w' env s f _ h
  have hex' : openPosition w1.q w1.engine env s f v side mg l b = .ok (e1, subs) := hex
  obtain ⟨hpos, hcfg, tmp, htmp, tv, tt, ts, hcase⟩ := MirrorP.openPosition_inv _ _ _ _ _ _ _ _ _ _ _ hex'
  obtain ⟨hwl, _, _⟩ := openPosition_keep _ _ _ _ _ _ _ _ _ _ _ hex'
  have hk := EngineMoney.getPosition_key env w1.engine v s side
  have hrun' : execSubs (39 + 1) { w1 with engine := e1 } ENGINE subs = .ok w' := hrun
  dsimp only at hpos hcfg htmp hwl hcase
  rw [a1] at hwl
  rcases hcase with ⟨N, hm, hdir⟩ | ⟨N, hm, _, hdir, pn, u, hpnl, hgt⟩ | ⟨hm, _, hdir⟩
  · -- open / increase
    subst hm
    obtain ⟨w2, ev, hx, hyes, _⟩ := execSubs_cons_ok 39 _ w' ENGINE _ [] hrun'
    obtain ⟨_, e2, subs2, w3, hrep, hs2, hrest⟩ := hyes (Or.inl rfl)
    obtain ⟨he, henv, x, bb, hxa, hq, rfl, hV⟩ := MirrorP.exec_swapIn _ _ _ _ _ _ _ _ _ _ hx
    have h' : updatePositionReply w2.q w2.engine w2.env N bb REPLY_INCREASE = .ok (e2, subs2) := hrep
    have hs2e : w2.engine.tmpSwap = some tmp := by rw [he]; exact htmp
    obtain ⟨_, hce⟩ := MirrorP.updatePositionReply_eff _ _ _ _ _ _ tmp hs2e _ h'
    have hc := run_coll _ _ _ _ hce hs2
    rw [WorldInv.execSubs_nil _ _ _ _ hrest]
    refine ⟨w2, tmp, subs2, hs2e, tv, tt, ts, henv.trans a2, ?_, hc.2.1, hc.2.2.1, Or.inl ⟨N, bb, ?_⟩⟩
    · rw [he]; exact hwl
    · rw [hc.1]; exact h'
  · -- reduce
    rw [hk.1] at hm
    subst hm
    obtain ⟨w2, ev, hx, hyes, _⟩ := execSubs_cons_ok 39 _ w' ENGINE _ [] hrun'
    obtain ⟨_, e2, subs2, w3, hrep, hs2, hrest⟩ := hyes (Or.inl rfl)
    obtain ⟨he, henv, x, bb, hxa, hq, rfl, hV⟩ := MirrorP.exec_swapIn _ _ _ _ _ _ _ _ _ _ hx
    have h' : updatePositionReply w2.q w2.engine w2.env N bb REPLY_DECREASE = .ok (e2, subs2) := hrep
    have hs2e : w2.engine.tmpSwap = some tmp := by rw [he]; exact htmp
    obtain ⟨_, hce⟩ := MirrorP.updatePositionReply_eff _ _ _ _ _ _ tmp hs2e _ h'
    have hc := run_coll _ _ _ _ hce hs2
    rw [WorldInv.execSubs_nil _ _ _ _ hrest]
    have hout := MirrorP.pnl_spot_pos _ _ _ _ _ _ hpnl hgt
    rw [hk.1] at hout
    rw [a1] at hout hdir
    refine ⟨w2, tmp, subs2, hs2e, tv, tt, ts, henv.trans a2, ?_, hc.2.1, hc.2.2.1,
      Or.inr (Or.inl ⟨N, bb, ?_, ?_, hdir, w1, pn, x, a3, hout, hgt, hxa, hq⟩)⟩
    · rw [he]; exact hwl
    · rw [hc.1]; exact h'
    · rw [he]; exact hpos.trans (by rw [a1])
  · -- reversal
    rw [hk.1] at hm
    subst hm
    obtain ⟨w2, ev, hx, hyes, _⟩ := execSubs_cons_ok 39 _ w' ENGINE _ [] hrun'
    obtain ⟨_, e2, subs2, w3, hrep, hs2, hrest⟩ := hyes (Or.inl rfl)
    obtain ⟨he, henv, qq, rfl, hV⟩ := MirrorP.exec_swapOut _ _ _ _ _ _ _ _ _ hx
    have h' : reversePositionReply w2.q w2.engine w2.env qq = .ok (e2, subs2) := hrep
    have hs2e : w2.engine.tmpSwap = some tmp := by rw [he]; exact htmp
    have hwl2 := reversePositionReply_keep _ _ _ _ _ h'
    dsimp only at hwl2
    obtain ⟨fm, sp, tl, last, hfm, hmsgs, hlast, hsize0, _⟩ :=
      EngineMoney.reversePositionReply_fees _ _ _ _ _ _ tmp hs2e h'
    have hfce : AllCE fm := MirrorP.transferFees_allCE' _ _ _ _ _ _ hfm
    rw [WorldInv.execSubs_nil _ _ _ _ hrest]
    rcases hlast with ⟨hts, _, amt, rfl⟩ | ⟨sw', hs', _, htr, hvm, hsd', _, rfl⟩
    · have hce : AllCE subs2 := by
        rw [hmsgs]
        exact AllCE_append hfce (AllCE_cons (MirrorP.CE_transferMsg _ _ _) AllCE_nil)
      have hc := run_coll _ _ _ _ hce hs2
      refine ⟨w2, tmp, subs2, hs2e, tv, tt, ts, henv.trans a2, ?_, hc.2.1, hc.2.2.1,
        Or.inr (Or.inr ⟨qq, ?_, ?_, ?_⟩)⟩
      · rw [he]; exact hwl
      · rw [hc.1]; exact h'
      · rw [hc.1]; exact hts
      · rw [hc.1, ← tv, ← tt]; exact hsize0
    · rw [hmsgs] at hs2
      obtain ⟨fuel', wm, hsc, hr2⟩ := run_coll_prefix fm _ _ _ _ hfce hs2
      cases fuel' with
      | zero => unfold execSubs at hr2; cases hr2
      | succ fuel' =>
        obtain ⟨w4, ev2, hx2, hyes2, _⟩ := execSubs_cons_ok fuel' wm w3 ENGINE _ [] hr2
        obtain ⟨_, e3, subs3, w5, hrep2, hs3, hrest2⟩ := hyes2 (Or.inl rfl)
        obtain ⟨he4, henv4, x4, bb4, hxa4, hq4, rfl, hV4⟩ := MirrorP.exec_swapIn _ _ _ _ _ _ _ _ _ _ hx2
        have h'' : updatePositionReply w4.q w4.engine w4.env sw'.openNotional bb4 REPLY_INCREASE = .ok (e3, subs3) :=
          hrep2
        have hwm : wm.engine = e2 := hsc.1
        have hs4e : w4.engine.tmpSwap = some sw' := by rw [he4, hwm]; exact hs'
        obtain ⟨_, hce3⟩ := MirrorP.updatePositionReply_eff _ _ _ _ _ _ sw' hs4e _ h''
        have hc := run_coll _ _ _ _ hce3 hs3
        rw [WorldInv.execSubs_nil _ _ _ _ hrest2]
        refine ⟨w4, sw', subs3, hs4e, hvm.trans tv, htr.trans tt, hsd'.trans ts, ?_, ?_, hc.2.1, hc.2.2.1,
          Or.inl ⟨sw'.openNotional, bb4, ?_⟩⟩
        · rw [henv4, hsc.2.2.1]; exact henv.trans a2
        · rw [he4, hwm, hwl2, he]; exact hwl
        · rw [hc.1]; exact h''

end Perp.Props.SatC
