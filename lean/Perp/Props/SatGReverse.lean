/-
  SatG, part 6 — C13 twins for the REVERSAL flow of `OpenPosition` (`REPLY_REVERSE`), at transaction level
  (`applyTx`): an order against a stored position of non-zero size on the OTHER side whose spot notional is at most
  the order's notional.  `openPosition` closes the old position whole (`swapOutputMsg … REPLY_REVERSE`);
  `reversePositionReply` settles it and either
    (a) CLOSE-ONLY (`CloseOnlyQ`): pays the old equity out with a plain transfer and takes the fees, or
    (b) RE-OPENING (`ReopenQ`): nets the old equity into `required`, and opens the rest on the new side
        (`swapInputMsg … REPLY_INCREASE`, reply `updatePositionReply` with `feesPaid = true`).
  Results (statements as in `SatGReduce.twin_open_reduce`: (A) cw20 ⇒ native given exactly the pulled amount,
  (B) native with any attachable `X` ⇒ cw20 pulling exactly `X`; `Agree` on the final worlds):
    * `twin_open_reverse_closeonly` — (a), NO extra premise;
    * `twin_open_reverse_reopen`    — (b) under the netting condition `NetsOK` (`NetsOKQ`);
    * `netsOK_exact` / `reopen_exact` — `NetsOK` is also NECESSARY: given a successful cw20 run, the native run with
      exactly the pulled amount succeeds iff `NetsOK`;
    * `reverseQ_iff_reverse`, `closeOnlyQ_iff_payout`, `reopenQ_iff_secondLeg` — the three conditions are exactly the
      model's branch conditions; `nets_iff` — `NetsOK` is exactly "native `required` = what cw20 pulls";
    * `Witness` — non-vacuity of every theorem, `…_applied`, and the sharpness witnesses (kernel-evaluated).
  Architecture as in `SatGReduce`: the two replies characterised uniformly in the collateral kind (`rpr_spec`,
  `upr2_spec'` in `SatGReverseTx`), the dispatcher unrolled (`reverse_tx_iff`, `leg2_iff`, `wd_run_iff`), the ledger
  accounted for along the chain of moves (`mv_LL`, `bal_eq_of_LL`), the two directions (`revco_A/B`, `reopen_A/B`).
-/
import Perp.Props.SatGReverseTx

namespace Perp.Props.SatGReverse
open Perp Perp.World Perp.Engine Perp.Props.LiqTwin Perp.Props.SatGTwin
open Perp.Props.SatGRun Perp.Props.SatGLedger Perp.Props.SatGOpen Perp.Props.SatGClose Perp.Props.SatGOpenTx
open Perp.Props.SatGCloseTx (paidTo paidTo_append paidTo_optE closeTx)

/-! ### the branch taken by the reversal reply -/

/-- `out` is the quote amount the vAMM pays for closing the caller's old position whole (the `output` the
    reversal reply receives) -/
def RevOut (w : World) (env : Env) (s v : Nat) (side : Side) (out : Nat) : Prop :=
  ∃ x x' o, ({ w with env := env, log := [] } : World).vammE v = .ok x
    ∧ Vamm.swapOutput x env ENGINE (getPosition env w.engine v s side).direction
        (getPosition env w.engine v s side).size.value 0 = .ok (x', o)
    ∧ out = swOut o

/-- the reply takes the close-only branch: what is left of the order's notional `m·l/D` after the old position
    (worth `out`) is closed buys less than one unit of margin, `|m·l/D − out| / l = 0` -/
def CloseOnlyQ (e : E) (m l out : Nat) : Prop :=
  ∀ ml N, cmul m l = .ok ml → cdiv ml e.cfg.decimals = .ok N → absDiff N out / l = 0

/-- the reply takes the re-opening branch -/
def ReopenQ (e : E) (m l out : Nat) : Prop :=
  ∀ ml N, cmul m l = .ok ml → cdiv ml e.cfg.decimals = .ok N → absDiff N out / l ≠ 0

/-- net flows of the two logs when only the fees are pulled / attached -/
theorem fee_flows (s sp tl : Nat) (a : Nat) :
    TxLog.tot (fun x => x.2.1 == a) (optE s ENGINE (sp + tl) ++ optE ENGINE IFUND sp ++ optE ENGINE FEEPOOL tl)
      - TxLog.tot (fun x => x.1 == a) (optE s ENGINE (sp + tl) ++ optE ENGINE IFUND sp ++ optE ENGINE FEEPOOL tl)
    = TxLog.tot (fun x => x.2.1 == a) (optE s IFUND sp ++ optE s FEEPOOL tl)
      - TxLog.tot (fun x => x.1 == a) (optE s IFUND sp ++ optE s FEEPOOL tl) := by
  have := open_flows s 0 sp tl a
  simpa [optE] using this

theorem flows_append (A B C : List TxLog.Xf) (a : Nat)
    (h : TxLog.tot (fun x => x.2.1 == a) A - TxLog.tot (fun x => x.1 == a) A
        = TxLog.tot (fun x => x.2.1 == a) B - TxLog.tot (fun x => x.1 == a) B) :
    TxLog.tot (fun x => x.2.1 == a) (A ++ C) - TxLog.tot (fun x => x.1 == a) (A ++ C)
      = TxLog.tot (fun x => x.2.1 == a) (B ++ C) - TxLog.tot (fun x => x.1 == a) (B ++ C) := by
  rw [TxLog.tot_append, TxLog.tot_append, TxLog.tot_append, TxLog.tot_append]
  omega

/-- the cw20 / native messages of the close-only branch -/
def coMsgsC (s sp tl mv : Nat) : List SubMsg :=
  feesC s IFUND FEEPOOL sp tl ++ [⟨.tokenTransfer s mv, REPLY_TRANSFER_FAILURE, .error⟩]
def coMsgsN (s sp tl mv : Nat) : List SubMsg :=
  feesN IFUND FEEPOOL sp tl ++ [⟨.bankSend s mv, REPLY_TRANSFER_FAILURE, .error⟩]

theorem feeMsgs_false (e : E) (t sp tl : Nat) :
    feeMsgs (setNative e false).cfg t sp tl = feesC t e.cfg.insuranceFund e.cfg.feePool sp tl := rfl

theorem feeMsgs_true (e : E) (t sp tl : Nat) :
    feeMsgs (setNative e true).cfg t sp tl = feesN e.cfg.insuranceFund e.cfg.feePool sp tl := by
  rw [← feesN_eq t, ← feeMsgs_false]
  unfold feeMsgs
  by_cases h1 : sp = 0 <;> by_cases h2 : tl = 0 <;> simp [h1, h2]

theorem xe_feesC (s i f sp tl : Nat) : ∀ m ∈ feesC s i f sp tl, XE m := by
  intro m hm
  exact xe_pull_fees s i f 0 sp tl m (by unfold pullE; simpa using hm)

theorem xe_co_c (s sp tl mv : Nat) : ∀ m ∈ coMsgsC s sp tl mv, XE m := by
  intro m hm
  rcases List.mem_append.1 hm with hm | hm
  · exact xe_feesC _ _ _ _ _ m hm
  · rw [List.mem_singleton.1 hm]; exact ⟨rfl, trivial⟩

theorem xe_co_n (s sp tl mv : Nat) : ∀ m ∈ coMsgsN s sp tl mv, XE m := by
  intro m hm
  rcases List.mem_append.1 hm with hm | hm
  · exact xe_feesN _ _ _ _ m hm
  · rw [List.mem_singleton.1 hm]; exact ⟨rfl, trivial⟩

theorem len_feesC (s i f sp tl : Nat) : (feesC s i f sp tl).length ≤ 2 := by
  unfold feesC
  by_cases h2 : sp ≠ 0 <;> by_cases h3 : tl ≠ 0 <;> simp [h2, h3]

theorem run_co_c (W W' : World) (s sp tl mv : Nat) :
    runX W (coMsgsC s sp tl mv) = some W' ↔
      ∃ W1, runX W (feesC s IFUND FEEPOOL sp tl) = some W1 ∧ stepX W1 (.bankSend s mv) = some W' := by
  unfold coMsgsC
  rw [runX_append, bind_some_iff]
  simp only [runX]
  constructor
  · rintro ⟨W1, h1, h2⟩
    refine ⟨W1, h1, ?_⟩
    cases hs : stepX W1 (.tokenTransfer s mv) with
    | none => rw [hs] at h2; cases h2
    | some W2 => rw [hs] at h2; exact hs.symm ▸ h2 ▸ rfl
  · rintro ⟨W1, h1, h2⟩
    refine ⟨W1, h1, ?_⟩
    have : stepX W1 (.tokenTransfer s mv) = some W' := h2
    rw [this]

theorem run_co_n (W W' : World) (s sp tl mv : Nat) :
    runX W (coMsgsN s sp tl mv) = some W' ↔
      ∃ W1, runX W (feesN IFUND FEEPOOL sp tl) = some W1 ∧ stepX W1 (.bankSend s mv) = some W' := by
  unfold coMsgsN
  rw [runX_append, bind_some_iff]
  simp only [runX]
  constructor
  · rintro ⟨W1, h1, h2⟩
    refine ⟨W1, h1, ?_⟩
    cases hs : stepX W1 (.bankSend s mv) with
    | none => rw [hs] at h2; cases h2
    | some W2 => rw [hs] at h2; exact h2
  · rintro ⟨W1, h1, h2⟩
    exact ⟨W1, h1, by rw [h2]⟩

theorem len_co_c (s sp tl mv : Nat) : (coMsgsC s sp tl mv).length ≤ 3 := by
  unfold coMsgsC
  have := len_feesC s IFUND FEEPOOL sp tl
  simp; omega

theorem len_co_n (s sp tl mv : Nat) : (coMsgsN s sp tl mv).length ≤ 3 := by
  unfold coMsgsN
  have := len_feesN IFUND FEEPOOL sp tl
  simp; omega

/-- the world an engine transaction starts from accounts for its (empty) log -/
theorem LL_start (w : World) (env : Env) :
    TxLog.LL (fun a => (w.ledger.balance a : Int)) ({ w with env := env, log := [] } : World) := by
  intro a
  simp [TxLog.tot]

/-! ### the close-only reversal -/

theorem revco_A (w : World) (env : Env) (s v : Nat) (side : Side) (m l b : Nat)
    (hrev : ReverseQ ({ w with env := env, log := [] } : World).q w.engine env s v side m l)
    (hco : ∀ out, RevOut w env s v side out → CloseOnlyQ w.engine m l out)
    (hS : Setup w s) (hroom : w.ledger.balance ENGINE + w.ledger.balance s ≤ U128.MAX)
    (wc' : World) (h : applyTx (cwW w) env s ⟨0, false⟩ (openTx v side m l b) = .ok wc') :
    ∃ wn', applyTx (natW w) env s ⟨pulledBy wc'.log s, false⟩ (openTx v side m l b) = .ok wn' ∧ Agree wn' wc'
      ∧ pulledBy wc'.log s ≤ Ledger.get w.ledger.allow s := by
  obtain ⟨Wa, e1, x, x', o, e2, subs2, ha, hex, hvx, hsw, hr, hrun⟩ :=
    (reverse_tx_iff (cwW w) env s ⟨0, false⟩ v side m l b wc' hrev).1 h
  have hWa := ha.2 (fun hc => absurd hc.1 (by simp [cwW]))
  subst hWa
  obtain ⟨ml, N, pn, he1, hml, hN, hpn, hl, _⟩ :=
    reverse_shape _ (setNative w.engine false) env s ⟨0, false⟩ v side m l b hrev _ hex
  dsimp only at he1
  have he1' : e1 = withSent (setNative { w.engine with tmpSwap := some (revTmp v s side m l N pn) } false) ⟨0, 0⟩ := he1
  subst he1'
  -- the reply
  have hspec := fun b A r => rpr_spec ((({ cwW w with env := env, log := [] } : World).setVamm v x').q)
    { w.engine with tmpSwap := some (revTmp v s side m l N pn) } env (swOut o) (revTmp v s side m l N pn) b A rfl r
  obtain ⟨st, rm0, pm, sp, tl, mtv, hst, hrm, hpm, hfee, hR, hlev, hmtv, hcase⟩ := (hspec false 0 _).1 hr
  have hz : absDiff N (swOut o) / l = 0 := hco (swOut o) ⟨x, x', o, hvx, hsw, rfl⟩ ml N hml hN
  obtain ⟨_, _, hres⟩ := hcase.resolve_right (fun hh => hh.1 hz)
  injection hres with he2 hsubs
  have hsubs' : subs2 = coMsgsC s sp tl mtv.value := by
    rw [hsubs, feeMsgs_false]
    show feesC s w.engine.cfg.insuranceFund w.engine.cfg.feePool sp tl ++ _ = _
    rw [hS.hif, hS.hfp]
    rfl
  subst he2 hsubs'
  -- the cw20 transfers
  have hrunX := (execSubs_xfers_iff _ 39 _ wc' (by have := len_co_c s sp tl mtv.value; omega) (xe_co_c _ _ _ _)).1 hrun
  obtain ⟨W3, hf, hp⟩ := (run_co_c _ _ _ _ _ _).1 hrunX
  obtain ⟨hFr3, hlog3, hbs, hal, hI, hF, hb3s, _, hb3o, hLL3⟩ := cwFees_inv _ _ _ _ _ hS.s2 hS.s3 hf
  obtain ⟨MP, hmv⟩ := send_mv _ _ _ _ (Ne.symm hS.s1) hp
  have hlog : wc'.log = optE s IFUND sp ++ optE s FEEPOOL tl ++ [(ENGINE, s, mtv.value)] := by
    rw [MP.log, hlog3]; simp [optE, hmv]
  have hX : pulledBy wc'.log s = sp + tl := by
    rw [hlog, pulledBy_append, pulledBy_append, pulledBy_optE, pulledBy_optE]
    simp [pulledBy, Ne.symm hS.s1]
  rw [hX]
  have hbs' : sp + tl ≤ w.ledger.balance s := hbs
  have hal' : sp + tl ≤ Ledger.get w.ledger.allow s := hal
  have hI' : w.ledger.balance IFUND + sp ≤ U128.MAX ∨ sp = 0 := hI
  have hF' : w.ledger.balance FEEPOOL + tl ≤ U128.MAX ∨ tl = 0 := hF
  -- the native run: attach
  have hbE : w.ledger.balance ENGINE + (sp + tl) ≤ U128.MAX := by omega
  obtain ⟨Wan, han⟩ := attach_ok (natW w) env s (sp + tl) hS.s1 hbs' hbE
  obtain ⟨⟨g, lg, hform⟩, hmva⟩ := attach_mv (natW w) env s (sp + tl) hS.s1 rfl Wan han
  subst hform
  have hgE : g.balance ENGINE = w.ledger.balance ENGINE + (sp + tl) := hmva.bdst
  have hgI : g.balance IFUND = w.ledger.balance IFUND := hmva.bother IFUND (Ne.symm hS.s2) (by decide)
  have hgF : g.balance FEEPOOL = w.ledger.balance FEEPOOL := hmva.bother FEEPOOL (Ne.symm hS.s3) (by decide)
  have hlg : lg = optE s ENGINE (sp + tl) := hmva.log
  have hLLa := mv_LL hmva hS.s1 _ (LL_start (natW w) env)
  -- the native reply
  have hrn := (hspec true (sp + tl) (_, _)).2 ⟨st, rm0, pm, sp, tl, mtv, hst, hrm, hpm, hfee, hR, hlev, hmtv,
    Or.inl ⟨hz, fun _ => rfl, rfl⟩⟩
  rw [feeMsgs_true] at hrn
  -- the native transfers
  obtain ⟨W3n, hfn⟩ := natFees_ok
    ({ (({ ({ natW w with env := env, ledger := g, log := lg } : World) with
            engine := withSent (setNative { w.engine with tmpSwap := some (revTmp v s side m l N pn) } true) ⟨sp + tl, 0⟩ } : World).setVamm v x')
        with engine := setNative (coEngine { w.engine with tmpSwap := some (revTmp v s side m l N pn) } st
          (clearPosition env (getPosition env { w.engine with tmpSwap := some (revTmp v s side m l N pn) } v s side))) true } : World)
    sp tl (show sp + tl ≤ g.balance ENGINE by omega)
    (show g.balance IFUND + sp ≤ U128.MAX ∨ sp = 0 by rw [hgI]; exact hI')
    (show g.balance FEEPOOL + tl ≤ U128.MAX ∨ tl = 0 by rw [hgF]; exact hF')
  obtain ⟨hFr3n, hlog3n, _, _, _, _, _, hLL3n⟩ := natFees_inv _ _ _ _ hfn
  have hbal3 : ∀ a, W3n.ledger.balance a = W3.ledger.balance a := by
    refine bal_eq_of_LL (fun a => (w.ledger.balance a : Int)) (hLL3n _ hLLa) (hLL3 _ (LL_start (cwW w) env)) (fun a => ?_)
    rw [hlog3n, hlog3]
    show TxLog.tot _ (lg ++ _ ++ _) - TxLog.tot _ (lg ++ _ ++ _) = TxLog.tot _ ([] ++ _ ++ _) - TxLog.tot _ ([] ++ _ ++ _)
    rw [hlg, List.nil_append]
    exact fee_flows s sp tl a
  have e3 := MP.has; have e4 := MP.room
  obtain ⟨wn', hpn'⟩ := send_ok W3n s mtv.value (Ne.symm hS.s1) hmv (by rw [hbal3]; exact e3)
    (by rw [hbal3]; exact e4.resolve_right hmv)
  obtain ⟨MPn, _⟩ := send_mv _ _ _ _ (Ne.symm hS.s1) hpn'
  have hexecN := (execSubs_xfers_iff _ 39 _ wn' (by have := len_co_n s sp tl mtv.value; omega) (xe_co_n _ _ _ _)).2
    ((run_co_n _ _ _ _ _ _).2 ⟨W3n, hfn, hpn'⟩)
  have hexN := open_twin ({ cwW w with env := env, log := [] } : World).q (fun a => .ok (g.balance a)) w.engine env s
    (sp + tl) v side m l b
  have hex' : openPosition ({ cwW w with env := env, log := [] } : World).q (setNative w.engine false) env s
      ⟨0, false⟩ v side m l b = .ok (withSent (setNative { w.engine with tmpSwap := some (revTmp v s side m l N pn) } false) ⟨0, 0⟩,
        [revMsg env w.engine s v side]) := hex
  rw [hex'] at hexN
  have htxN : applyTx (natW w) env s ⟨sp + tl, false⟩ (openTx v side m l b) = .ok wn' :=
    (reverse_tx_iff (natW w) env s ⟨sp + tl, false⟩ v side m l b wn' hrev).2
      ⟨_, _, x, x', o, _, _, han, hexN, hvx, hsw, hrn, by rw [hS.hif, hS.hfp] at *; exact hexecN⟩
  refine ⟨wn', htxN, ?_, hal'⟩
  have hlogN : wn'.log = optE s ENGINE (sp + tl) ++ optE ENGINE IFUND sp ++ optE ENGINE FEEPOOL tl ++ [(ENGINE, s, mtv.value)] := by
    rw [MPn.log, hlog3n]
    show lg ++ _ ++ _ ++ _ = _
    rw [hlg]; simp [optE, hmv]
  have hFn := Fr.trans hFr3n MPn.fr
  have hFc := Fr.trans hFr3 MP.fr
  refine ⟨?_, ?_, ?_, ?_, ?_, ?_, ?_⟩
  · rw [hFn.1, hFc.1]; rfl
  · rw [hFn.2.1, hFc.2.1]; rfl
  · rw [hFn.2.2.1, hFc.2.2.1]; rfl
  · rw [hFn.2.2.2.1, hFc.2.2.2.1]; rfl
  · rw [hFn.2.2.2.2.1, hFc.2.2.2.2.1]; rfl
  · rw [hFn.2.2.2.2.2, hFc.2.2.2.2.2]; rfl
  · refine bal_agree (natW w) (cwW w) wn' wc' env s _ _ _ htxN h (fun _ => rfl) (fun a => ?_)
    rw [hlogN, hlog]
    exact flows_append _ _ _ a (fee_flows s sp tl a)

theorem rpr_qb (q : Q) (f : Nat → Except Err Nat) (e : E) (env : Env) (o : Nat) :
    reversePositionReply (qb q f) e env o = reversePositionReply q e env o := rfl

theorem revco_B (w : World) (env : Env) (s v : Nat) (side : Side) (m l b : Nat)
    (hrev : ReverseQ ({ w with env := env, log := [] } : World).q w.engine env s v side m l)
    (hco : ∀ out, RevOut w env s v side out → CloseOnlyQ w.engine m l out)
    (hS : Setup w s) (X : Nat) (hallow : X ≤ Ledger.get w.ledger.allow s)
    (wn' : World) (h : applyTx (natW w) env s ⟨X, false⟩ (openTx v side m l b) = .ok wn') :
    ∃ wc', applyTx (cwW w) env s ⟨0, false⟩ (openTx v side m l b) = .ok wc' ∧ pulledBy wc'.log s = X
      ∧ Agree wn' wc' := by
  obtain ⟨Wa, e1n, x, x', o, e2n, subs2n, han, hexn, hvx, hsw, hrn, hrunn⟩ :=
    (reverse_tx_iff (natW w) env s ⟨X, false⟩ v side m l b wn' hrev).1 h
  obtain ⟨⟨g, lg, hform⟩, hmva⟩ := attach_mv (natW w) env s X hS.s1 rfl Wa han
  subst hform
  -- the execute half on cw20
  have hexN := open_twin ({ cwW w with env := env, log := [] } : World).q (fun a => .ok (g.balance a)) w.engine env s
    X v side m l b
  have hexn' : openPosition (qb ({ cwW w with env := env, log := [] } : World).q (fun a => .ok (g.balance a)))
      (setNative w.engine true) env s ⟨X, false⟩ v side m l b
        = .ok (e1n, [revMsg env w.engine s v side]) := hexn
  rw [hexn'] at hexN
  cases hexc : openPosition ({ cwW w with env := env, log := [] } : World).q (setNative w.engine false) env s
      ⟨0, false⟩ v side m l b with
  | error err => rw [hexc] at hexN; cases hexN
  | ok rc =>
    obtain ⟨e1c, msgs⟩ := rc
    rw [hexc] at hexN
    injection hexN with hexN
    injection hexN with he1n hmsgs
    dsimp only at he1n hmsgs
    subst hmsgs
    obtain ⟨ml, N, pn, he1, hml, hN, hpn, hl, _⟩ :=
      reverse_shape _ (setNative w.engine false) env s ⟨0, false⟩ v side m l b hrev _ hexc
    dsimp only at he1
    have he1' : e1c = withSent (setNative { w.engine with tmpSwap := some (revTmp v s side m l N pn) } false) ⟨0, 0⟩ := he1
    subst he1'
    have he1n' : e1n = withSent (setNative { w.engine with tmpSwap := some (revTmp v s side m l N pn) } true) ⟨X, 0⟩ := he1n
    subst he1n'
    -- the reply
    have hspec := fun b A r => rpr_spec ((({ cwW w with env := env, log := [] } : World).setVamm v x').q)
      { w.engine with tmpSwap := some (revTmp v s side m l N pn) } env (swOut o) (revTmp v s side m l N pn) b A rfl r
    have hrn' : reversePositionReply ((({ cwW w with env := env, log := [] } : World).setVamm v x').q)
        (withSent (setNative { w.engine with tmpSwap := some (revTmp v s side m l N pn) } true) ⟨X, 0⟩) env (swOut o)
          = .ok (e2n, subs2n) := hrn
    obtain ⟨st, rm0, pm, sp, tl, mtv, hst, hrm, hpm, hfee, hR, hlev, hmtv, hcase⟩ := (hspec true X _).1 hrn'
    have hz : absDiff N (swOut o) / l = 0 := hco (swOut o) ⟨x, x', o, hvx, hsw, rfl⟩ ml N hml hN
    obtain ⟨_, hXeq, hres⟩ := hcase.resolve_right (fun hh => hh.1 hz)
    have hXeq' := hXeq rfl
    subst hXeq'
    injection hres with he2 hsubs
    have hsubs' : subs2n = coMsgsN s sp tl mtv.value := by
      rw [hsubs, feeMsgs_true]
      show feesN w.engine.cfg.insuranceFund w.engine.cfg.feePool sp tl ++ _ = _
      rw [hS.hif, hS.hfp]
      rfl
    subst he2 hsubs'
    -- the native transfers
    have hrunX := (execSubs_xfers_iff _ 39 _ wn' (by have := len_co_n s sp tl mtv.value; omega) (xe_co_n _ _ _ _)).1 hrunn
    obtain ⟨W3n, hfn, hpn'⟩ := (run_co_n _ _ _ _ _ _).1 hrunX
    obtain ⟨hFr3n, hlog3n, _, hIn, hFnr, _, _, hLL3n⟩ := natFees_inv _ _ _ _ hfn
    obtain ⟨MPn, hmv⟩ := send_mv _ _ _ _ (Ne.symm hS.s1) hpn'
    have hlg : lg = optE s ENGINE (sp + tl) := hmva.log
    have hLLa := mv_LL hmva hS.s1 _ (LL_start (natW w) env)
    have hXs : sp + tl ≤ w.ledger.balance s := hmva.has
    have hgI : g.balance IFUND = w.ledger.balance IFUND := hmva.bother IFUND (Ne.symm hS.s2) (by decide)
    have hgF : g.balance FEEPOOL = w.ledger.balance FEEPOOL := hmva.bother FEEPOOL (Ne.symm hS.s3) (by decide)
    have hI : w.ledger.balance IFUND + sp ≤ U128.MAX ∨ sp = 0 := by
      have : g.balance IFUND + sp ≤ U128.MAX ∨ sp = 0 := hIn
      rw [hgI] at this; exact this
    have hF : w.ledger.balance FEEPOOL + tl ≤ U128.MAX ∨ tl = 0 := by
      have : g.balance FEEPOOL + tl ≤ U128.MAX ∨ tl = 0 := hFnr
      rw [hgF] at this; exact this
    -- the cw20 reply
    have hrc := (hspec false 0 (_, _)).2 ⟨st, rm0, pm, sp, tl, mtv, hst, hrm, hpm, hfee, hR, hlev, hmtv,
      Or.inl ⟨hz, fun hb => absurd hb (by decide), rfl⟩⟩
    rw [feeMsgs_false] at hrc
    -- the cw20 transfers
    obtain ⟨W3, hf⟩ := cwFees_ok
      ({ (({ ({ cwW w with env := env, log := [] } : World) with
              engine := withSent (setNative { w.engine with tmpSwap := some (revTmp v s side m l N pn) } false) ⟨0, 0⟩ } : World).setVamm v x')
          with engine := setNative (coEngine { w.engine with tmpSwap := some (revTmp v s side m l N pn) } st
            (clearPosition env (getPosition env { w.engine with tmpSwap := some (revTmp v s side m l N pn) } v s side))) false } : World)
      s sp tl hS.s2 hS.s3 (show sp + tl ≤ Ledger.get w.ledger.allow s from hallow)
      (show sp + tl ≤ w.ledger.balance s from hXs)
      (show w.ledger.balance IFUND + sp ≤ U128.MAX ∨ sp = 0 from hI)
      (show w.ledger.balance FEEPOOL + tl ≤ U128.MAX ∨ tl = 0 from hF)
    obtain ⟨hFr3, hlog3, _, _, _, _, _, _, _, hLL3⟩ := cwFees_inv _ _ _ _ _ hS.s2 hS.s3 hf
    have hbal3 : ∀ a, W3n.ledger.balance a = W3.ledger.balance a := by
      refine bal_eq_of_LL (fun a => (w.ledger.balance a : Int)) (hLL3n _ hLLa) (hLL3 _ (LL_start (cwW w) env)) (fun a => ?_)
      rw [hlog3n, hlog3]
      show TxLog.tot _ (lg ++ _ ++ _) - TxLog.tot _ (lg ++ _ ++ _) = TxLog.tot _ ([] ++ _ ++ _) - TxLog.tot _ ([] ++ _ ++ _)
      rw [hlg, List.nil_append]
      exact fee_flows s sp tl a
    have e3 := MPn.has; have e4 := MPn.room
    obtain ⟨wc', hp⟩ := send_ok W3 s mtv.value (Ne.symm hS.s1) hmv (by rw [← hbal3]; exact e3)
      (by rw [← hbal3]; exact e4.resolve_right hmv)
    obtain ⟨MP, _⟩ := send_mv _ _ _ _ (Ne.symm hS.s1) hp
    have hexecC := (execSubs_xfers_iff _ 39 _ wc' (by have := len_co_c s sp tl mtv.value; omega) (xe_co_c _ _ _ _)).2
      ((run_co_c _ _ _ _ _ _).2 ⟨W3, hf, hp⟩)
    have htxC : applyTx (cwW w) env s ⟨0, false⟩ (openTx v side m l b) = .ok wc' :=
      (reverse_tx_iff (cwW w) env s ⟨0, false⟩ v side m l b wc' hrev).2
        ⟨_, _, x, x', o, _, _, ⟨fun hc => (by cases hc.1), fun _ => rfl⟩, hexc, hvx, hsw, hrc,
          by rw [hS.hif, hS.hfp] at *; exact hexecC⟩
    have hlog : wc'.log = optE s IFUND sp ++ optE s FEEPOOL tl ++ [(ENGINE, s, mtv.value)] := by
      rw [MP.log, hlog3]; simp [optE, hmv]
    have hX : pulledBy wc'.log s = sp + tl := by
      rw [hlog, pulledBy_append, pulledBy_append, pulledBy_optE, pulledBy_optE]
      simp [pulledBy, Ne.symm hS.s1]
    refine ⟨wc', htxC, hX, ?_⟩
    have hlogN : wn'.log = optE s ENGINE (sp + tl) ++ optE ENGINE IFUND sp ++ optE ENGINE FEEPOOL tl ++ [(ENGINE, s, mtv.value)] := by
      rw [MPn.log, hlog3n]
      show lg ++ _ ++ _ ++ _ = _
      rw [hlg]; simp [optE, hmv]
    have hFn := Fr.trans hFr3n MPn.fr
    have hFc := Fr.trans hFr3 MP.fr
    refine ⟨?_, ?_, ?_, ?_, ?_, ?_, ?_⟩
    · rw [hFn.1, hFc.1]; rfl
    · rw [hFn.2.1, hFc.2.1]; rfl
    · rw [hFn.2.2.1, hFc.2.2.1]; rfl
    · rw [hFn.2.2.2.1, hFc.2.2.2.1]; rfl
    · rw [hFn.2.2.2.2.1, hFc.2.2.2.2.1]; rfl
    · rw [hFn.2.2.2.2.2, hFc.2.2.2.2.2]; rfl
    · refine bal_agree (natW w) (cwW w) wn' wc' env s _ _ _ h htxC (fun _ => rfl) (fun a => ?_)
      rw [hlogN, hlog]
      exact flows_append _ _ _ a (fee_flows s sp tl a)

/-! ### the re-opening reversal: support -/

theorem fr_form {W W' : World} (h : Fr W W') : ∃ g lg, W' = { W with ledger := g, log := lg } := by
  obtain ⟨h1, h2, h3, h4, h5, h6⟩ := h
  obtain ⟨env', engine', vamms', ifund', feePool', feed', ledger', log'⟩ := W'
  dsimp only at h1 h2 h3 h4 h5 h6
  subst h1 h2 h3 h4 h5 h6
  exact ⟨_, _, rfl⟩

theorem calcFee_setVamm (W : World) (a : Nat) (x x' : Vamm.V) (hx : W.vammE a = .ok x) (hc : x'.cfg = x.cfg)
    (b n : Nat) : (W.setVamm a x').q.calcFee b n = W.q.calcFee b n := by
  show (do let y ← (W.setVamm a x').vammE b; Vamm.queryCalcFee y n) = (do let y ← W.vammE b; Vamm.queryCalcFee y n)
  by_cases hb : b = a
  · subst hb
    have h1 : (W.setVamm b x').vammE b = .ok x' :=
      (MirrorP.vammE_ok _ _ _).2 (MirrorP.setVamm_vamm_same W b x x' ((MirrorP.vammE_ok _ _ _).1 hx))
    rw [h1, hx]
    show Vamm.queryCalcFee x' n = Vamm.queryCalcFee x n
    unfold Vamm.queryCalcFee
    rw [hc]
  · have : (W.setVamm a x').vammE b = W.vammE b := by
      unfold World.vammE
      rw [Dispatch.setVamm_vamm_ne _ _ _ _ hb]
    rw [this]

theorem withdraw_qcongr (q q' : Q) (e : E) (st : State) (r a p : Nat)
    (h : q.balance ENGINE_ADDR = q'.balance ENGINE_ADDR) : withdraw q e st r a p = withdraw q' e st r a p := by
  unfold withdraw
  rw [h]

theorem wdMsgs_toNative (e : E) (r amt sf : Nat) :
    (TxMoney.wdMsgs (setNative e false).cfg r amt sf).map toNative = TxMoney.wdMsgs (setNative e true).cfg r amt sf := by
  unfold TxMoney.wdMsgs
  by_cases h : sf = 0 <;> simp [h]

/-! ### signs -/

theorem lt_zero_iff (a : Integer) : Integer.lt a Integer.zero = true ↔ (a.negative = true ∧ a.value ≠ 0) := by
  obtain ⟨v, n⟩ := a
  cases n <;> by_cases hv : v = 0
  · subst hv; decide
  · simp [Integer.lt, Integer.cmp, Integer.isNegative, Integer.isPositive, Integer.zero, hv]
    rw [Nat.compare_eq_gt.2 (by omega)]; decide
  · subst hv; decide
  · simp [Integer.lt, Integer.cmp, Integer.isNegative, Integer.isPositive, Integer.zero, hv]

theorem gt_zero_iff (a : Integer) : Integer.gt a Integer.zero = true ↔ (a.isPositive = true ∧ a.value ≠ 0) := by
  obtain ⟨v, n⟩ := a
  cases n <;> by_cases hv : v = 0
  · subst hv; decide
  · simp [Integer.gt, Integer.cmp, Integer.isNegative, Integer.isPositive, Integer.zero, hv]
    rw [Nat.compare_eq_gt.2 (by omega)]
  · subst hv; decide
  · simp [Integer.gt, Integer.cmp, Integer.isNegative, Integer.isPositive, Integer.zero, hv]


/-- the disjunction `NetsOK` asks of `mtv0 = previous_margin − upnl` (minus the old equity) -/
def NetsCase (sp tl sm : Nat) (mtv0 : Integer) : Prop :=
  mtv0.isPositive = true ∨ (sp + tl > mtv0.value ∧ sm > mtv0.value) ∨ (sp + tl ≤ mtv0.value ∧ sm ≤ mtv0.value)

/-- what the native engine requires against what the cw20 engine pulls, by the sign of the second leg's
    `margin_to_vault` -/
def NetsEq (sp tl sm R : Nat) (mtv : Integer) : Prop :=
  (Integer.lt mtv Integer.zero = true → R = sp + tl)
  ∧ (Integer.lt mtv Integer.zero = false → Integer.gt mtv Integer.zero = true → R + sm = sp + tl + mtv.value)
  ∧ (Integer.lt mtv Integer.zero = false → Integer.gt mtv Integer.zero = false → R = sp + tl)

theorem lt_pos (k : Nat) : Integer.lt ⟨k, false⟩ Integer.zero = false := pos_not_lt k
theorem gt_pos (k : Nat) (h : k ≠ 0) : Integer.gt ⟨k, false⟩ Integer.zero = true := (pos_gt_iff k).2 h
theorem gt_pos0 : Integer.gt ⟨0, false⟩ Integer.zero = false := by decide
theorem lt_neg (k : Nat) (h : k ≠ 0) : Integer.lt ⟨k, true⟩ Integer.zero = true :=
  (lt_zero_iff _).2 ⟨rfl, h⟩

theorem nets_iff (sp tl sm : Nat) (mtv0 mtv : Integer) (R : Nat)
    (hR : reqNet (sp + tl) sp tl mtv0 = .ok R)
    (hm : Integer.checkedAdd mtv0 (Integer.newPositive sm) = .ok mtv) :
    NetsCase sp tl sm mtv0 ↔ NetsEq sp tl sm R mtv := by
  obtain ⟨a, n⟩ := mtv0
  unfold NetsCase NetsEq
  unfold reqNet at hR
  cases n
  · -- mtv0 ≥ 0
    have hp : (⟨a, false⟩ : Integer).isPositive = true := rfl
    rw [hp] at hR ⊢
    simp only [↓reduceIte, cadd_ok] at hR
    simp only [Integer.checkedAdd, Integer.newPositive, bind_ok_iff, cadd_ok, pure_ok_iff] at hm
    obtain ⟨_, ⟨_, rfl⟩, rfl⟩ := hm
    obtain ⟨_, rfl⟩ := hR
    by_cases hk : a + sm = 0
    · rw [hk]
      simp [lt_pos, gt_pos0]
      omega
    · simp [lt_pos, gt_pos _ hk]
      omega
  · by_cases ha : a = 0
    · subst ha
      have hp : (⟨0, true⟩ : Integer).isPositive = true := rfl
      rw [hp] at hR ⊢
      simp only [↓reduceIte, cadd_ok] at hR
      have hm' : mtv = ⟨sm, false⟩ := by
        simp [Integer.checkedAdd, Integer.newPositive] at hm
        exact hm.symm
      obtain ⟨_, rfl⟩ := hR
      subst hm'
      by_cases hk : sm = 0
      · subst hk
        simp [lt_pos, gt_pos0]
      · simp [lt_pos, gt_pos _ hk]
    · have hneg : (⟨a, true⟩ : Integer).isPositive = false := by
        simp [Integer.isPositive, Integer.isNegative, ha]
      rw [hneg] at hR ⊢
      simp only [Bool.false_eq_true, ↓reduceIte, false_or] at hR ⊢
      by_cases hgs : a > sm
      · have hm' : mtv = ⟨a - sm, true⟩ := by
          simp [Integer.checkedAdd, Integer.newPositive, hgs, Integer.newNegative] at hm
          obtain ⟨_, ⟨_, rfl⟩, rfl⟩ := hm
          have : a - sm ≠ 0 := by omega
          simp [this]
        subst hm'
        have hv : a - sm ≠ 0 := by omega
        by_cases hF : sp + tl > a
        · rw [if_pos hF] at hR
          simp only [csub_ok] at hR
          obtain ⟨_, rfl⟩ := hR
          simp [lt_neg _ hv]
          omega
        · rw [if_neg hF] at hR
          simp only [cadd_ok] at hR
          obtain ⟨_, rfl⟩ := hR
          simp [lt_neg _ hv]
          omega
      · have hm' : mtv = ⟨sm - a, false⟩ := by
          simp [Integer.checkedAdd, Integer.newPositive, hgs] at hm
          obtain ⟨_, ⟨_, rfl⟩, rfl⟩ := hm
          rfl
        subst hm'
        by_cases hk : sm - a = 0
        · rw [hk]
          by_cases hF : sp + tl > a
          · rw [if_pos hF] at hR
            simp only [csub_ok] at hR
            obtain ⟨_, rfl⟩ := hR
            simp [lt_pos, gt_pos0]
            omega
          · rw [if_neg hF] at hR
            simp only [cadd_ok] at hR
            obtain ⟨_, rfl⟩ := hR
            simp [lt_pos, gt_pos0]
            omega
        · by_cases hF : sp + tl > a
          · rw [if_pos hF] at hR
            simp only [csub_ok] at hR
            obtain ⟨_, rfl⟩ := hR
            simp [lt_pos, gt_pos _ hk]
            omega
          · rw [if_neg hF] at hR
            simp only [cadd_ok] at hR
            obtain ⟨_, rfl⟩ := hR
            simp [lt_pos, gt_pos _ hk]
            omega


/-- **the netting condition.**  `mtv0 = (funding − margin) − upnl` is MINUS the old position's equity (margin − funding
    owed + unrealised pnl), `sp + tl` the fees on the order's notional, `sm` the margin of the second leg.
    Native and cw20 agree iff the old equity is not positive (nothing to net), or it is positive and either smaller than
    BOTH the fees and the new margin, or at least as large as BOTH. -/
def NetsOK (margin : Nat) (funding upnl : Integer) (sp tl sm : Nat) : Prop :=
  ∀ pm mtv0, Integer.checkedAdd (Integer.newNegative margin) funding = .ok pm →
    Integer.checkedSub pm upnl = .ok mtv0 → NetsCase sp tl sm mtv0

/-- `NetsOK` of the quantities the model computes from the pre-state: the stored margin, the funding owed since the
    checkpoint, the spot pnl, the fees on the order's notional `N = m·l/D`, and the margin `|N − out|·D/l` of the
    second leg -/
def NetsOKQ (q : Q) (e : E) (env : Env) (s v : Nat) (side : Side) (m l out : Nat) : Prop :=
  ∀ ml N pn rm tl sp x sm, cmul m l = .ok ml → cdiv ml e.cfg.decimals = .ok N →
    unwrap (positionNotionalPnl q e (getPosition env e v s side) .spot) = .ok pn →
    calcRemainMargin e (getPosition env e v s side) pn.2 = .ok rm →
    q.calcFee v N = .ok (tl, sp) →
    cmul (absDiff N out) e.cfg.decimals = .ok x → cdiv x l = .ok sm →
    NetsOK (getPosition env e v s side).margin rm.funding pn.2 sp tl sm


/-- what the second leg pulls from the trader on cw20 -/
def pullAmt (mtv : Integer) : Nat :=
  if Integer.lt mtv Integer.zero = true then 0 else if Integer.gt mtv Integer.zero = true then mtv.value else 0

/-- what the second leg adds to `required` on native -/
def legDelta (mtv : Integer) (sm : Nat) : Nat := if Integer.gt mtv Integer.zero = true then sm else 0

/-- `upr2_spec` with the two branches without a `withdraw` merged -/
theorem upr2_spec' (q : Q) (e : E) (env : Env) (i o : Nat) (swap : TmpSwap) (b : Bool) (A R : Nat)
    (hsw : e.tmpSwap = some swap) (hfp : swap.feesPaid = true) (r : E × List SubMsg) :
    updatePositionReply q (withSent (setNative e b) ⟨A, R⟩) env i o REPLY_INCREASE = .ok r ↔
      ∃ st x sm mtv nn rm ns ratio,
        updateOpenInterest q e e.st swap.vamm (Integer.newPositive i) swap.trader = .ok st
        ∧ cmul swap.openNotional e.cfg.decimals = .ok x ∧ cdiv x swap.leverage = .ok sm
        ∧ Integer.checkedAdd swap.marginToVault (Integer.newPositive sm) = .ok mtv
        ∧ cadd (getPosition env e swap.vamm swap.trader swap.side).notional swap.openNotional = .ok nn
        ∧ calcRemainMargin e (getPosition env e swap.vamm swap.trader swap.side) (Integer.newPositive sm) = .ok rm
        ∧ Integer.add (getPosition env e swap.vamm swap.trader swap.side).size (signedOutput swap.side o) = .ok ns
        ∧ checkHoldingCap q (storePosition e (legPos env (getPosition env e swap.vamm swap.trader swap.side) swap.side nn ns rm))
            swap.vamm ns.value swap.trader = .ok ()
        ∧ queryMarginRatio q (storePosition e (legPos env (getPosition env e swap.vamm swap.trader swap.side) swap.side nn ns rm))
            (getPosition env e swap.vamm swap.trader swap.side).vamm
            (getPosition env e swap.vamm swap.trader swap.side).trader = .ok ratio
        ∧ requireAdditionalMargin ratio e.cfg.mmr = .ok ()
        ∧ ((Integer.lt mtv Integer.zero = true
            ∧ ∃ st' ms, unwrap (withdraw q (setNative (storePosition e
                  (legPos env (getPosition env e swap.vamm swap.trader swap.side) swap.side nn ns rm)) b)
                  st swap.trader mtv.value 0) = .ok (st', ms)
              ∧ (b = true → A = R)
              ∧ r = (setNative (upEngine (storePosition e
                      (legPos env (getPosition env e swap.vamm swap.trader swap.side) swap.side nn ns rm)) st') b, ms))
          ∨ (Integer.lt mtv Integer.zero = false
            ∧ (b = true → A = R + legDelta mtv sm ∧ (Integer.gt mtv Integer.zero = true → R + sm ≤ U128.MAX))
            ∧ r = (setNative (upEngine (storePosition e
                      (legPos env (getPosition env e swap.vamm swap.trader swap.side) swap.side nn ns rm)) st) b,
                   if b = true then [] else pullE swap.trader (pullAmt mtv)))) := by
  rw [upr2_spec q e env i o swap b A R hsw hfp r]
  constructor
  · rintro ⟨st, x, sm, mtv, nn, rm, ns, ratio, h1, h2, h3, h4, h5, h6, h7, h8, h9, h10, hcase⟩
    refine ⟨st, x, sm, mtv, nn, rm, ns, ratio, h1, h2, h3, h4, h5, h6, h7, h8, h9, h10, ?_⟩
    rcases hcase with hW | ⟨hlt, hgt, hA, rfl⟩ | ⟨hlt, hgt, hA, rfl⟩
    · exact Or.inl hW
    · refine Or.inr ⟨hlt, fun hb => ?_, ?_⟩
      · obtain ⟨hb1, hb2⟩ := hA hb
        exact ⟨by simp [legDelta, hgt, hb2], fun _ => hb1⟩
      · have hv : mtv.value ≠ 0 := ((gt_zero_iff mtv).1 hgt).2
        cases b
        · simp [pullE, pullAmt, hlt, hgt, hv, transferFromMsg]
        · rfl
    · refine Or.inr ⟨hlt, fun hb => ?_, ?_⟩
      · exact ⟨by simp [legDelta, hgt, hA hb], fun h => by rw [hgt] at h; cases h⟩
      · cases b
        · simp [pullE, pullAmt, hlt, hgt]
        · rfl
  · rintro ⟨st, x, sm, mtv, nn, rm, ns, ratio, h1, h2, h3, h4, h5, h6, h7, h8, h9, h10, hcase⟩
    refine ⟨st, x, sm, mtv, nn, rm, ns, ratio, h1, h2, h3, h4, h5, h6, h7, h8, h9, h10, ?_⟩
    rcases hcase with hW | ⟨hlt, hA, rfl⟩
    · exact Or.inl hW
    · by_cases hgt : Integer.gt mtv Integer.zero = true
      · refine Or.inr (Or.inl ⟨hlt, hgt, fun hb => ?_, ?_⟩)
        · obtain ⟨hb1, hb2⟩ := hA hb
          exact ⟨hb2 hgt, by simpa [legDelta, hgt] using hb1⟩
        · have hv : mtv.value ≠ 0 := ((gt_zero_iff mtv).1 hgt).2
          cases b
          · simp [pullE, pullAmt, hlt, hgt, hv, transferFromMsg]
          · rfl
      · have hgt' : Integer.gt mtv Integer.zero = false := by simpa using hgt
        refine Or.inr (Or.inr ⟨hlt, hgt', fun hb => ?_, ?_⟩)
        · simpa [legDelta, hgt'] using (hA hb).1
        · cases b
          · simp [pullE, pullAmt, hlt, hgt']
          · rfl


/-- the in-flight record the re-opening branch stores for the second leg -/
def swap2 (tmp : TmpSwap) (out : Nat) (mtv0 : Integer) : TmpSwap :=
  { tmp with openNotional := absDiff tmp.openNotional out, marginToVault := mtv0, upnl := Integer.zero,
             feesPaid := true }

/-- the engine between the two legs, with nothing recorded as sent -/
def e2base (e0 : E) (env : Env) (tmp : TmpSwap) (st : State) (out : Nat) (mtv0 : Integer) (A R : Nat) : E :=
  reEngine e0 st (clearPosition env (getPosition env e0 tmp.vamm tmp.trader tmp.side)) (swap2 tmp out mtv0) ⟨A, R⟩

/-- the world after a swap's reply: engine `e1` while the swap runs, `e2` after the reply -/
def legW (W : World) (e1 e2 : E) (v : Nat) (x' : Vamm.V) : World :=
  { ({ W with engine := e1 } : World).setVamm v x' with engine := e2 }

/-! ### the re-opening reversal -/


theorem withdraw_nat (qc qn : Q) (e : E) (st : State) (r a : Nat) (st' : State) (ms : List SubMsg)
    (hq : qn.balance ENGINE_ADDR = qc.balance ENGINE_ADDR)
    (h : withdraw qc (setNative e false) st r a 0 = .ok (st', ms)) :
    unwrap (withdraw qn (setNative e true) st r a 0) = .ok (st', ms.map toNative) := by
  rw [withdraw_qcongr qn qc _ _ _ _ _ hq, unwrap_withdraw_tw, EngineMoney.unwrap_ok _ _ |>.2 h]
  rfl

theorem xe_pullE (s a : Nat) : ∀ m ∈ pullE s a, XE m := by
  intro m hm
  exact xe_pull_fees s IFUND FEEPOOL a 0 0 m (by unfold feesC; simpa using hm)

theorem len_pullE (s a : Nat) : (pullE s a).length ≤ 1 := by
  unfold pullE; split <;> simp

theorem run_pullE (W : World) (s a : Nat) :
    runX W (pullE s a) = optStep W (.tokenTransferFrom s ENGINE_ADDR a) a := runX_opt _ _ _ _ _

theorem len_fees_eq (s i f sp tl : Nat) : (feesN i f sp tl).length = (feesC s i f sp tl).length := by
  unfold feesN feesC
  by_cases h2 : sp ≠ 0 <;> by_cases h3 : tl ≠ 0 <;> simp [h2, h3]

/-- net flows of the two logs of a re-opening reversal whose second leg pulls `a` on cw20 -/
theorem reopen_flows (s a sp tl : Nat) (x : Nat) :
    TxLog.tot (fun e => e.2.1 == x) (optE s ENGINE (sp + tl + a) ++ optE ENGINE IFUND sp ++ optE ENGINE FEEPOOL tl)
      - TxLog.tot (fun e => e.1 == x) (optE s ENGINE (sp + tl + a) ++ optE ENGINE IFUND sp ++ optE ENGINE FEEPOOL tl)
    = TxLog.tot (fun e => e.2.1 == x) (optE s IFUND sp ++ optE s FEEPOOL tl ++ optE s ENGINE_ADDR a)
      - TxLog.tot (fun e => e.1 == x) (optE s IFUND sp ++ optE s FEEPOOL tl ++ optE s ENGINE_ADDR a) := by
  simp only [TxLog.tot_append, tot_optE, beq_iff_eq]
  have hE : ENGINE_ADDR = ENGINE := rfl
  rw [hE]
  by_cases h1 : ENGINE = x <;> by_cases h2 : IFUND = x <;> by_cases h3 : FEEPOOL = x <;> by_cases h4 : s = x <;>
    simp only [h1, h2, h3, h4, if_true, if_false] <;> push_cast <;> omega

theorem reopen_A (w : World) (env : Env) (s v : Nat) (side : Side) (m l b : Nat)
    (hrev : ReverseQ ({ w with env := env, log := [] } : World).q w.engine env s v side m l)
    (hre : ∀ out, RevOut w env s v side out → ReopenQ w.engine m l out)
    (hnet : ∀ out, RevOut w env s v side out →
      NetsOKQ ({ w with env := env, log := [] } : World).q w.engine env s v side m l out)
    (hS : Setup w s) (hroom : w.ledger.balance ENGINE + w.ledger.balance s ≤ U128.MAX)
    (wc' : World) (h : applyTx (cwW w) env s ⟨0, false⟩ (openTx v side m l b) = .ok wc') :
    ∃ wn', applyTx (natW w) env s ⟨pulledBy wc'.log s, false⟩ (openTx v side m l b) = .ok wn' ∧ Agree wn' wc'
      ∧ pulledBy wc'.log s ≤ Ledger.get w.ledger.allow s := by
  obtain ⟨Wa, e1, x, x', o, e2, subs2, ha, hex, hvx, hsw, hr, hrun⟩ :=
    (reverse_tx_iff (cwW w) env s ⟨0, false⟩ v side m l b wc' hrev).1 h
  have hWa := ha.2 (fun hc => absurd hc.1 (by simp [cwW]))
  subst hWa
  obtain ⟨ml, N, pn, he1, hml, hN, hpn, hl, _⟩ :=
    reverse_shape _ (setNative w.engine false) env s ⟨0, false⟩ v side m l b hrev _ hex
  dsimp only at he1
  have he1' : e1 = withSent (setNative { w.engine with tmpSwap := some (revTmp v s side m l N pn) } false) ⟨0, 0⟩ := he1
  subst he1'
  -- the reversal reply
  have hspec := fun b A r => rpr_spec ((({ cwW w with env := env, log := [] } : World).setVamm v x').q)
    { w.engine with tmpSwap := some (revTmp v s side m l N pn) } env (swOut o) (revTmp v s side m l N pn) b A rfl r
  obtain ⟨st, rm0, pm, sp, tl, mtv0, hst, hrm, hpm, hfee, hR, hlev, hmtv0, hcase⟩ := (hspec false 0 _).1 hr
  have hout : RevOut w env s v side (swOut o) := ⟨x, x', o, hvx, hsw, rfl⟩
  have hnz : absDiff N (swOut o) / l ≠ 0 := hre _ hout ml N hml hN
  obtain ⟨_, R, hRq, hres⟩ := hcase.resolve_left (fun hh => hnz hh.1)
  injection hres with he2 hsubs
  have hsubs' : subs2 = feesC s IFUND FEEPOOL sp tl
      ++ [swapInputMsg v side (absDiff N (swOut o)) 0 false REPLY_INCREASE] := by
    rw [hsubs, feeMsgs_false]
    show feesC s w.engine.cfg.insuranceFund w.engine.cfg.feePool sp tl ++ _ = _
    rw [hS.hif, hS.hfp]
    rfl
  subst he2 hsubs'
  -- the second leg on cw20
  have hlen := len_feesC s IFUND FEEPOOL sp tl
  obtain ⟨fu, hfu⟩ : ∃ fu, 39 = fu + 2 + (feesC s IFUND FEEPOOL sp tl).length :=
    ⟨37 - (feesC s IFUND FEEPOOL sp tl).length, by omega⟩
  rw [hfu] at hrun
  obtain ⟨W3, y, y', o2, e5, subs5, hf, hvy, hsw2, hr2, hrun5⟩ :=
    (leg2_iff _ fu _ _ _ _ _ (xe_feesC _ _ _ _ _)).1 hrun
  obtain ⟨hFr3, hlog3, hbs, hal, hI, hF, hb3s, ha3s, hb3o, hLL3⟩ := cwFees_inv _ _ _ _ _ hS.s2 hS.s3 hf
  obtain ⟨g3, lg3, hW3⟩ := fr_form hFr3
  subst hW3
  -- the second reply
  have hspec2 := fun q b A r => upr2_spec' q
    (e2base { w.engine with tmpSwap := some (revTmp v s side m l N pn) } env (revTmp v s side m l N pn) st (swOut o) mtv0 0 R)
    env (swIn o2) (swOut o2) (swap2 (revTmp v s side m l N pn) (swOut o) mtv0) b A R rfl rfl r
  obtain ⟨st2, xx, sm, mtv, nn, rm, ns, ratio, hst2, hcm, hcd, hmtv, hnn, hrm2, hns, hcap, hratio, hreq, hcase2⟩ :=
    (hspec2 _ false 0 _).1 hr2
  -- the netting condition
  have hcfg : x'.cfg = x.cfg := (MirrorP.swapOutput_net _ _ _ _ _ _ _ _ hsw).2.1
  have hfee' : ({ w with env := env, log := [] } : World).q.calcFee v N = .ok (tl, sp) := by
    have := calcFee_setVamm ({ cwW w with env := env, log := [] } : World) v x x' hvx hcfg v N
    exact this.symm.trans hfee
  have hNE : NetsEq sp tl sm R mtv :=
    (nets_iff sp tl sm mtv0 mtv R hRq hmtv).1 (hnet _ hout ml N pn rm0 tl sp xx sm hml hN hpn hrm hfee' hcm hcd pm mtv0 hpm hmtv0)
  -- the native run up to the second leg, for any attached amount covering the fees
  have hI' : w.ledger.balance IFUND + sp ≤ U128.MAX ∨ sp = 0 := hI
  have hF' : w.ledger.balance FEEPOOL + tl ≤ U128.MAX ∨ tl = 0 := hF
  have prefixN : ∀ X, sp + tl ≤ X → X ≤ w.ledger.balance s →
      ∃ g lg g3n lg3n, Attach (natW w) env s ⟨X, false⟩ ({ natW w with env := env, ledger := g, log := lg } : World)
        ∧ runX (legW ({ natW w with env := env, ledger := g, log := lg } : World)
              (withSent (setNative { w.engine with tmpSwap := some (revTmp v s side m l N pn) } true) ⟨X, 0⟩)
              (setNative (e2base { w.engine with tmpSwap := some (revTmp v s side m l N pn) } env
                (revTmp v s side m l N pn) st (swOut o) mtv0 X R) true) v x')
            (feesN IFUND FEEPOOL sp tl)
          = some ({ legW ({ natW w with env := env, ledger := g, log := lg } : World)
              (withSent (setNative { w.engine with tmpSwap := some (revTmp v s side m l N pn) } true) ⟨X, 0⟩)
              (setNative (e2base { w.engine with tmpSwap := some (revTmp v s side m l N pn) } env
                (revTmp v s side m l N pn) st (swOut o) mtv0 X R) true) v x' with ledger := g3n, log := lg3n } : World)
        ∧ lg3n = optE s ENGINE X ++ optE ENGINE IFUND sp ++ optE ENGINE FEEPOOL tl
        ∧ (∀ W : World, W.ledger = g3n → W.log = lg3n → TxLog.LL (fun a => (w.ledger.balance a : Int)) W) := by
    intro X hX1 hX2
    have hbE : w.ledger.balance ENGINE + X ≤ U128.MAX := by omega
    obtain ⟨Wan, han⟩ := attach_ok (natW w) env s X hS.s1 hX2 hbE
    obtain ⟨⟨g, lg, hform⟩, hmva⟩ := attach_mv (natW w) env s X hS.s1 rfl Wan han
    subst hform
    have hgE : g.balance ENGINE = w.ledger.balance ENGINE + X := hmva.bdst
    have hgI : g.balance IFUND = w.ledger.balance IFUND := hmva.bother IFUND (Ne.symm hS.s2) (by decide)
    have hgF : g.balance FEEPOOL = w.ledger.balance FEEPOOL := hmva.bother FEEPOOL (Ne.symm hS.s3) (by decide)
    have hlg : lg = optE s ENGINE X := hmva.log
    have hLLa := mv_LL hmva hS.s1 _ (LL_start (natW w) env)
    obtain ⟨W3n, hfn⟩ := natFees_ok
      (legW ({ natW w with env := env, ledger := g, log := lg } : World)
        (withSent (setNative { w.engine with tmpSwap := some (revTmp v s side m l N pn) } true) ⟨X, 0⟩)
        (setNative (e2base { w.engine with tmpSwap := some (revTmp v s side m l N pn) } env
          (revTmp v s side m l N pn) st (swOut o) mtv0 X R) true) v x')
      sp tl (show sp + tl ≤ g.balance ENGINE by omega)
      (show g.balance IFUND + sp ≤ U128.MAX ∨ sp = 0 by rw [hgI]; exact hI')
      (show g.balance FEEPOOL + tl ≤ U128.MAX ∨ tl = 0 by rw [hgF]; exact hF')
    obtain ⟨hFr3n, hlog3n, _, _, _, _, _, hLL3n⟩ := natFees_inv _ _ _ _ hfn
    obtain ⟨g3n, lg3n, hW3n⟩ := fr_form hFr3n
    subst hW3n
    refine ⟨g, lg, g3n, lg3n, han, hfn, ?_, ?_⟩
    · have : lg3n = lg ++ optE ENGINE IFUND sp ++ optE ENGINE FEEPOOL tl := hlog3n
      rw [this, hlg]
    · intro W hW1 hW2
      exact LL_congr _ hW1 hW2 (hLL3n _ hLLa)
  have hlg3 : lg3 = optE s IFUND sp ++ optE s FEEPOOL tl := by
    have : lg3 = [] ++ optE s IFUND sp ++ optE s FEEPOOL tl := hlog3
    rw [this, List.nil_append]
  have hb3s' : g3.balance s = w.ledger.balance s - (sp + tl) := hb3s
  have ha3s' : Ledger.get g3.allow s = Ledger.get w.ledger.allow s - (sp + tl) := ha3s
  have hbs' : sp + tl ≤ w.ledger.balance s := hbs
  have hal' : sp + tl ≤ Ledger.get w.ledger.allow s := hal
  have hexN := fun X g => open_twin ({ cwW w with env := env, log := [] } : World).q (fun a => .ok (Ledger.balance g a))
    w.engine env s X v side m l b
  have hex' : openPosition ({ cwW w with env := env, log := [] } : World).q (setNative w.engine false) env s
      ⟨0, false⟩ v side m l b = .ok (withSent (setNative { w.engine with tmpSwap := some (revTmp v s side m l N pn) } false) ⟨0, 0⟩,
        [revMsg env w.engine s v side]) := hex
  rcases hcase2 with ⟨hlt, st', ms, hw, -, hres2⟩ | ⟨hlt, -, hres2⟩
  · injection hres2 with he5 hsubs5
    subst he5 hsubs5
    rw [EngineMoney.unwrap_ok] at hw
    obtain ⟨sf, hpp, hms⟩ := TxMoney.withdraw_shape _ _ _ _ _ _ _ _ hw
    subst hms
    have hReq : R = sp + tl := hNE.1 hlt
    obtain ⟨g, lg, g3n, lg3n, han, hfn, hlg3n, hLLn⟩ := prefixN (sp + tl) (Nat.le_refl _) hbs'
    -- after the fees, the two ledgers hold the same balances
    have hbal3 : ∀ a, Ledger.balance g3n a = Ledger.balance g3 a :=
      bal_eq_of_LL (Wn := ({ w with ledger := g3n, log := lg3n } : World)) (fun a => (w.ledger.balance a : Int))
        (hLLn _ rfl rfl) (hLL3 _ (LL_start (cwW w) env))
        (fun a => by
          show TxLog.tot _ lg3n - TxLog.tot _ lg3n = TxLog.tot _ lg3 - TxLog.tot _ lg3
          rw [hlg3n, hlg3]
          exact fee_flows s sp tl a)
    -- the native replies
    have hrn := (hspec true (sp + tl) (_, _)).2 ⟨st, rm0, pm, sp, tl, mtv0, hst, hrm, hpm, hfee, hR, hlev,
      hmtv0, Or.inr ⟨hnz, R, hRq, rfl⟩⟩
    rw [feeMsgs_true] at hrn
    have hr2n := (hspec2 (({ (legW ({ natW w with env := env, ledger := g, log := lg } : World)
              (withSent (setNative { w.engine with tmpSwap := some (revTmp v s side m l N pn) } true) ⟨(sp + tl), 0⟩)
              (setNative (e2base { w.engine with tmpSwap := some (revTmp v s side m l N pn) } env (revTmp v s side m l N pn) st (swOut o) mtv0 (sp + tl) R) true) v x') with ledger := g3n, log := lg3n } : World).setVamm v y').q true (sp + tl) (_, _)).2
      ⟨st2, xx, sm, mtv, nn, rm, ns, ratio, hst2, hcm, hcd, hmtv, hnn, hrm2, hns, hcap, hratio, hreq,
        Or.inl ⟨hlt, st', _, withdraw_nat _ _ _ _ _ _ _ _
          (by show (Except.ok _ : Except Err Nat) = Except.ok _; exact congrArg _ (hbal3 _)) hw,
          fun _ => hReq.symm, rfl⟩⟩
    rw [wdMsgs_toNative] at hr2n
    -- the native payout
    obtain ⟨wn', hrun5n, hFc, hFn, hlogc, hlogn⟩ := wd_transfer (fu + 1) (by omega) _
      ({ ({ (legW ({ natW w with env := env, ledger := g, log := lg } : World)
              (withSent (setNative { w.engine with tmpSwap := some (revTmp v s side m l N pn) } true) ⟨(sp + tl), 0⟩)
              (setNative (e2base { w.engine with tmpSwap := some (revTmp v s side m l N pn) } env (revTmp v s side m l N pn) st (swOut o) mtv0 (sp + tl) R) true) v x') with ledger := g3n, log := lg3n } : World).setVamm v y' with engine := setNative (upEngine (storePosition (e2base { w.engine with tmpSwap := some (revTmp v s side m l N pn) } env (revTmp v s side m l N pn) st (swOut o) mtv0 0 R) (legPos env (getPosition env (e2base { w.engine with tmpSwap := some (revTmp v s side m l N pn) } env (revTmp v s side m l N pn) st (swOut o) mtv0 0 R) (swap2 (revTmp v s side m l N pn) (swOut o) mtv0).vamm (swap2 (revTmp v s side m l N pn) (swOut o) mtv0).trader (swap2 (revTmp v s side m l N pn) (swOut o) mtv0).side) (swap2 (revTmp v s side m l N pn) (swOut o) mtv0).side nn ns rm)) st') true } : World)
      wc' _ (setNative (storePosition (e2base { w.engine with tmpSwap := some (revTmp v s side m l N pn) } env (revTmp v s side m l N pn) st (swOut o) mtv0 0 R) (legPos env (getPosition env (e2base { w.engine with tmpSwap := some (revTmp v s side m l N pn) } env (revTmp v s side m l N pn) st (swOut o) mtv0 0 R) (swap2 (revTmp v s side m l N pn) (swOut o) mtv0).vamm (swap2 (revTmp v s side m l N pn) (swOut o) mtv0).trader (swap2 (revTmp v s side m l N pn) (swOut o) mtv0).side) (swap2 (revTmp v s side m l N pn) (swOut o) mtv0).side nn ns rm)) true).cfg s mtv.value sf (Ne.symm hS.s1) (by exact hbal3) (by rfl) (by rfl) hrun5
    have hfuN : 39 = fu + 2 + (feesN IFUND FEEPOOL sp tl).length := by rw [len_fees_eq s]; exact hfu
    have hrun2n := (leg2_iff (feesN IFUND FEEPOOL sp tl) fu _ _ v side (absDiff N (swOut o)) (xe_feesN _ _ _ _)).2
      ⟨_, y, y', o2, _, _, hfn, hvy, hsw2, hr2n, hrun5n⟩
    rw [← hfuN] at hrun2n
    have hexN' := hexN (sp + tl) g
    rw [hex'] at hexN'
    have htxN : applyTx (natW w) env s ⟨sp + tl, false⟩ (openTx v side m l b) = .ok wn' :=
      (reverse_tx_iff (natW w) env s ⟨sp + tl, false⟩ v side m l b _ hrev).2
        ⟨_, _, x, x', o, _, _, han, hexN', hvx, hsw, hrn, by rw [hS.hif, hS.hfp] at *; exact hrun2n⟩
    have hlog : wc'.log = optE s IFUND sp ++ optE s FEEPOOL tl ++ optE IFUND ENGINE sf ++ [(ENGINE, s, mtv.value)] := by
      rw [hlogc]
      show lg3 ++ _ ++ _ = _
      rw [hlg3]
    have hlogN : wn'.log = optE s ENGINE (sp + tl) ++ optE ENGINE IFUND sp ++ optE ENGINE FEEPOOL tl
        ++ optE IFUND ENGINE sf ++ [(ENGINE, s, mtv.value)] := by
      rw [hlogn]
      show lg3n ++ _ ++ _ = _
      rw [hlg3n]
    have hX : pulledBy wc'.log s = sp + tl := by
      rw [hlog, pulledBy_append, pulledBy_append, pulledBy_append, pulledBy_optE, pulledBy_optE, pulledBy_optE]
      simp [pulledBy, Ne.symm hS.s1, Ne.symm hS.s2]
    rw [hX]
    refine ⟨wn', htxN, ?_, hal'⟩
    refine ⟨?_, ?_, ?_, ?_, ?_, ?_, ?_⟩
    · rw [hFn.1, hFc.1]; rfl
    · rw [hFn.2.1, hFc.2.1]; rfl
    · rw [hFn.2.2.1, hFc.2.2.1]; rfl
    · rw [hFn.2.2.2.1, hFc.2.2.2.1]; rfl
    · rw [hFn.2.2.2.2.1, hFc.2.2.2.2.1]; rfl
    · rw [hFn.2.2.2.2.2, hFc.2.2.2.2.2]; rfl
    · refine bal_agree (natW w) (cwW w) wn' wc' env s _ _ _ htxN h (fun _ => rfl) (fun a => ?_)
      rw [hlogN, hlog]
      exact flows_append _ _ _ a (flows_append _ _ _ a (fee_flows s sp tl a))
  · injection hres2 with he5 hsubs5
    subst he5 hsubs5
    -- the cw20 pull of the margin
    have hrunX5 := (execSubs_xfers_iff _ (fu + 1) _ wc' (by have := len_pullE s (pullAmt mtv); omega)
      (xe_pullE s (pullAmt mtv))).1 hrun5
    rw [run_pullE] at hrunX5
    have P := optPull_pl _ _ _ _ _ hS.s1 hrunX5
    have hPhas : pullAmt mtv ≤ g3.balance s := P.has
    have hPal : pullAmt mtv ≤ Ledger.get g3.allow s := P.allowed
    have hlog : wc'.log = optE s IFUND sp ++ optE s FEEPOOL tl ++ optE s ENGINE_ADDR (pullAmt mtv) := by
      rw [P.log]
      show lg3 ++ _ = _
      rw [hlg3]
      rfl
    have hX : pulledBy wc'.log s = sp + tl + pullAmt mtv := by
      rw [hlog, pulledBy_append, pulledBy_append, pulledBy_optE, pulledBy_optE, pulledBy_optE]
      simp
    rw [hX]
    have hXs : sp + tl + pullAmt mtv ≤ w.ledger.balance s := by omega
    have hXa : sp + tl + pullAmt mtv ≤ Ledger.get w.ledger.allow s := by omega
    obtain ⟨g, lg, g3n, lg3n, han, hfn, hlg3n, hLLn⟩ := prefixN (sp + tl + pullAmt mtv) (by omega) hXs
    -- the native replies
    have hrn := (hspec true (sp + tl + pullAmt mtv) (_, _)).2 ⟨st, rm0, pm, sp, tl, mtv0, hst, hrm, hpm, hfee, hR, hlev,
      hmtv0, Or.inr ⟨hnz, R, hRq, rfl⟩⟩
    rw [feeMsgs_true] at hrn
    have hXeq : sp + tl + pullAmt mtv = R + legDelta mtv sm
        ∧ (Integer.gt mtv Integer.zero = true → R + sm ≤ U128.MAX) := by
      by_cases hgt : Integer.gt mtv Integer.zero = true
      · have := hNE.2.1 hlt hgt
        simp only [pullAmt, legDelta, hlt, hgt, Bool.false_eq_true, ↓reduceIte] at hXs ⊢
        exact ⟨by omega, fun _ => by omega⟩
      · have hgt' : Integer.gt mtv Integer.zero = false := by simpa using hgt
        have := hNE.2.2 hlt hgt'
        simp only [pullAmt, legDelta, hlt, hgt', Bool.false_eq_true, ↓reduceIte]
        exact ⟨by omega, fun h => by cases h⟩
    have hr2n := (hspec2
      (({ legW ({ natW w with env := env, ledger := g, log := lg } : World)
              (withSent (setNative { w.engine with tmpSwap := some (revTmp v s side m l N pn) } true) ⟨sp + tl + pullAmt mtv, 0⟩)
              (setNative (e2base { w.engine with tmpSwap := some (revTmp v s side m l N pn) } env
                (revTmp v s side m l N pn) st (swOut o) mtv0 (sp + tl + pullAmt mtv) R) true) v x' with ledger := g3n, log := lg3n } : World).setVamm v y').q
      true (sp + tl + pullAmt mtv) (_, _)).2
      ⟨st2, xx, sm, mtv, nn, rm, ns, ratio, hst2, hcm, hcd, hmtv, hnn, hrm2, hns, hcap, hratio, hreq,
        Or.inr ⟨hlt, fun _ => hXeq, rfl⟩⟩
    -- the native run
    have hfuN : 39 = fu + 2 + (feesN IFUND FEEPOOL sp tl).length := by rw [len_fees_eq s]; exact hfu
    have hrun2n := (leg2_iff (feesN IFUND FEEPOOL sp tl) fu _ _ v side (absDiff N (swOut o)) (xe_feesN _ _ _ _)).2
      ⟨_, y, y', o2, _, _, hfn, hvy, hsw2, hr2n, SatGDeposit.execSubs_nil_eq _ _ _⟩
    rw [← hfuN] at hrun2n
    have hexN' := hexN (sp + tl + pullAmt mtv) g
    rw [hex'] at hexN'
    have htxN : applyTx (natW w) env s ⟨sp + tl + pullAmt mtv, false⟩ (openTx v side m l b) = .ok _ :=
      (reverse_tx_iff (natW w) env s ⟨sp + tl + pullAmt mtv, false⟩ v side m l b _ hrev).2
        ⟨_, _, x, x', o, _, _, han, hexN', hvx, hsw, hrn, by rw [hS.hif, hS.hfp] at *; exact hrun2n⟩
    refine ⟨_, htxN, ?_, hXa⟩
    have hFc := P.fr
    refine ⟨?_, ?_, ?_, ?_, ?_, ?_, ?_⟩
    · rw [hFc.1]; rfl
    · rw [hFc.2.1]; rfl
    · rw [hFc.2.2.1]; rfl
    · rw [hFc.2.2.2.1]; rfl
    · rw [hFc.2.2.2.2.1]; rfl
    · rw [hFc.2.2.2.2.2]; rfl
    · refine bal_agree (natW w) (cwW w) _ wc' env s _ _ _ htxN h (fun _ => rfl) (fun a => ?_)
      rw [hlog]
      show TxLog.tot _ lg3n - TxLog.tot _ lg3n = _
      rw [hlg3n]
      exact reopen_flows s (pullAmt mtv) sp tl a


theorem withdraw_cw (qc qn : Q) (e : E) (st : State) (r a : Nat) (st' : State) (msn : List SubMsg)
    (hq : qn.balance ENGINE_ADDR = qc.balance ENGINE_ADDR)
    (h : unwrap (withdraw qn (setNative e true) st r a 0) = .ok (st', msn)) :
    ∃ msc, withdraw qc (setNative e false) st r a 0 = .ok (st', msc) ∧ msn = msc.map toNative := by
  rw [withdraw_qcongr qn qc _ _ _ _ _ hq, unwrap_withdraw_tw] at h
  cases hc : withdraw qc (setNative e false) st r a 0 with
  | error err =>
    rw [hc] at h
    cases h
  | ok rc =>
    obtain ⟨st'', msc⟩ := rc
    rw [hc] at h
    injection h with h
    injection h with h1 h2
    dsimp only at h1 h2
    subst h1 h2
    exact ⟨msc, rfl, rfl⟩

theorem reopen_B (w : World) (env : Env) (s v : Nat) (side : Side) (m l b : Nat)
    (hrev : ReverseQ ({ w with env := env, log := [] } : World).q w.engine env s v side m l)
    (hre : ∀ out, RevOut w env s v side out → ReopenQ w.engine m l out)
    (hnet : ∀ out, RevOut w env s v side out →
      NetsOKQ ({ w with env := env, log := [] } : World).q w.engine env s v side m l out)
    (hS : Setup w s) (X : Nat) (hallow : X ≤ Ledger.get w.ledger.allow s)
    (wn' : World) (h : applyTx (natW w) env s ⟨X, false⟩ (openTx v side m l b) = .ok wn') :
    ∃ wc', applyTx (cwW w) env s ⟨0, false⟩ (openTx v side m l b) = .ok wc' ∧ pulledBy wc'.log s = X
      ∧ Agree wn' wc' := by
  obtain ⟨Wa, e1n, x, x', o, e2n, subs2n, han, hexn, hvx, hsw, hrn, hrunn⟩ :=
    (reverse_tx_iff (natW w) env s ⟨X, false⟩ v side m l b wn' hrev).1 h
  obtain ⟨⟨g, lg, hform⟩, hmva⟩ := attach_mv (natW w) env s X hS.s1 rfl Wa han
  subst hform
  -- the execute half on cw20
  have hexN := open_twin ({ cwW w with env := env, log := [] } : World).q (fun a => .ok (g.balance a)) w.engine env s
    X v side m l b
  have hexn' : openPosition (qb ({ cwW w with env := env, log := [] } : World).q (fun a => .ok (g.balance a)))
      (setNative w.engine true) env s ⟨X, false⟩ v side m l b
        = .ok (e1n, [revMsg env w.engine s v side]) := hexn
  rw [hexn'] at hexN
  cases hexc : openPosition ({ cwW w with env := env, log := [] } : World).q (setNative w.engine false) env s
      ⟨0, false⟩ v side m l b with
  | error err => rw [hexc] at hexN; cases hexN
  | ok rc =>
    obtain ⟨e1c, msgs⟩ := rc
    rw [hexc] at hexN
    injection hexN with hexN
    injection hexN with he1n hmsgs
    dsimp only at he1n hmsgs
    subst hmsgs
    obtain ⟨ml, N, pn, he1, hml, hN, hpn, hl, _⟩ :=
      reverse_shape _ (setNative w.engine false) env s ⟨0, false⟩ v side m l b hrev _ hexc
    dsimp only at he1
    have he1' : e1c = withSent (setNative { w.engine with tmpSwap := some (revTmp v s side m l N pn) } false) ⟨0, 0⟩ := he1
    subst he1'
    have he1n' : e1n = withSent (setNative { w.engine with tmpSwap := some (revTmp v s side m l N pn) } true) ⟨X, 0⟩ := he1n
    subst he1n'
    -- the reversal reply
    have hspec := fun b A r => rpr_spec ((({ cwW w with env := env, log := [] } : World).setVamm v x').q)
      { w.engine with tmpSwap := some (revTmp v s side m l N pn) } env (swOut o) (revTmp v s side m l N pn) b A rfl r
    have hrn' : reversePositionReply ((({ cwW w with env := env, log := [] } : World).setVamm v x').q)
        (withSent (setNative { w.engine with tmpSwap := some (revTmp v s side m l N pn) } true) ⟨X, 0⟩) env (swOut o) = .ok (e2n, subs2n) := hrn
    obtain ⟨st, rm0, pm, sp, tl, mtv0, hst, hrm, hpm, hfee, hR, hlev, hmtv0, hcase⟩ := (hspec true X _).1 hrn'
    have hout : RevOut w env s v side (swOut o) := ⟨x, x', o, hvx, hsw, rfl⟩
    have hnz : absDiff N (swOut o) / l ≠ 0 := hre _ hout ml N hml hN
    obtain ⟨_, R, hRq, hres⟩ := hcase.resolve_left (fun hh => hnz hh.1)
    injection hres with he2 hsubs
    have hsubs' : subs2n = feesN IFUND FEEPOOL sp tl
        ++ [swapInputMsg v side (absDiff N (swOut o)) 0 false REPLY_INCREASE] := by
      rw [hsubs, feeMsgs_true]
      show feesN w.engine.cfg.insuranceFund w.engine.cfg.feePool sp tl ++ _ = _
      rw [hS.hif, hS.hfp]
      rfl
    subst he2 hsubs'
    -- the second leg on native
    have hlen := len_feesN IFUND FEEPOOL sp tl
    obtain ⟨fu, hfu⟩ : ∃ fu, 39 = fu + 2 + (feesN IFUND FEEPOOL sp tl).length :=
      ⟨37 - (feesN IFUND FEEPOOL sp tl).length, by omega⟩
    rw [hfu] at hrunn
    obtain ⟨W3n, y, y', o2, e5n, subs5n, hfn, hvy, hsw2, hr2n, hrun5n⟩ :=
      (leg2_iff _ fu _ _ _ _ _ (xe_feesN _ _ _ _)).1 hrunn
    obtain ⟨hFr3n, hlog3n, hEn, hIn, hFnr, hb3E, hb3on, hLL3n⟩ := natFees_inv _ _ _ _ hfn
    obtain ⟨g3n, lg3n, hW3n⟩ := fr_form hFr3n
    subst hW3n
    have hlg : lg = optE s ENGINE X := hmva.log
    have hlg3n : lg3n = optE s ENGINE X ++ optE ENGINE IFUND sp ++ optE ENGINE FEEPOOL tl := by
      have : lg3n = lg ++ optE ENGINE IFUND sp ++ optE ENGINE FEEPOOL tl := hlog3n
      rw [this, hlg]
    have hLLa := mv_LL hmva hS.s1 _ (LL_start (natW w) env)
    have hXs : X ≤ w.ledger.balance s := hmva.has
    have hXE : w.ledger.balance ENGINE + X ≤ U128.MAX ∨ X = 0 := hmva.room
    have hgI : g.balance IFUND = w.ledger.balance IFUND := hmva.bother IFUND (Ne.symm hS.s2) (by decide)
    have hgF : g.balance FEEPOOL = w.ledger.balance FEEPOOL := hmva.bother FEEPOOL (Ne.symm hS.s3) (by decide)
    have hI : w.ledger.balance IFUND + sp ≤ U128.MAX ∨ sp = 0 := by
      have : g.balance IFUND + sp ≤ U128.MAX ∨ sp = 0 := hIn
      rw [hgI] at this; exact this
    have hF : w.ledger.balance FEEPOOL + tl ≤ U128.MAX ∨ tl = 0 := by
      have : g.balance FEEPOOL + tl ≤ U128.MAX ∨ tl = 0 := hFnr
      rw [hgF] at this; exact this
    -- the second reply
    have hspec2 := fun q b A r => upr2_spec' q (e2base { w.engine with tmpSwap := some (revTmp v s side m l N pn) } env (revTmp v s side m l N pn) st (swOut o) mtv0 0 R)
      env (swIn o2) (swOut o2) (swap2 (revTmp v s side m l N pn) (swOut o) mtv0) b A R rfl rfl r
    obtain ⟨st2, xx, sm, mtv, nn, rm, ns, ratio, hst2, hcm, hcd, hmtv, hnn, hrm2, hns, hcap, hratio, hreq, hcase2⟩ :=
      (hspec2 _ true X _).1 hr2n
    -- the netting condition
    have hcfg : x'.cfg = x.cfg := (MirrorP.swapOutput_net _ _ _ _ _ _ _ _ hsw).2.1
    have hfee' : ({ w with env := env, log := [] } : World).q.calcFee v N = .ok (tl, sp) := by
      have := calcFee_setVamm ({ cwW w with env := env, log := [] } : World) v x x' hvx hcfg v N
      exact this.symm.trans hfee
    have hNE : NetsEq sp tl sm R mtv :=
      (nets_iff sp tl sm mtv0 mtv R hRq hmtv).1 (hnet _ hout ml N pn rm0 tl sp xx sm hml hN hpn hrm hfee' hcm hcd pm mtv0 hpm hmtv0)
    have hXpull : X = sp + tl + pullAmt mtv := by
      rcases hcase2 with ⟨hlt, _, _, _, hA, _⟩ | ⟨hlt, hA, _⟩
      · have := hNE.1 hlt
        have := hA rfl
        simp only [pullAmt, hlt, ↓reduceIte]
        omega
      · obtain ⟨hA1, _⟩ := hA rfl
        by_cases hgt : Integer.gt mtv Integer.zero = true
        · have := hNE.2.1 hlt hgt
          simp only [pullAmt, legDelta, hlt, hgt, Bool.false_eq_true, ↓reduceIte] at hA1 ⊢
          omega
        · have hgt' : Integer.gt mtv Integer.zero = false := by simpa using hgt
          have := hNE.2.2 hlt hgt'
          simp only [pullAmt, legDelta, hlt, hgt', Bool.false_eq_true, ↓reduceIte] at hA1 ⊢
          omega
    -- the cw20 run up to the second leg
    have hrc := (hspec false 0 (_, _)).2 ⟨st, rm0, pm, sp, tl, mtv0, hst, hrm, hpm, hfee, hR, hlev,
      hmtv0, Or.inr ⟨hnz, R, hRq, rfl⟩⟩
    rw [feeMsgs_false] at hrc
    obtain ⟨W3c, hf⟩ := cwFees_ok (legW ({ cwW w with env := env, log := [] } : World)
              (withSent (setNative { w.engine with tmpSwap := some (revTmp v s side m l N pn) } false) ⟨0, 0⟩)
              (setNative (e2base { w.engine with tmpSwap := some (revTmp v s side m l N pn) } env (revTmp v s side m l N pn) st (swOut o) mtv0 0 R) false) v x')
      s sp tl hS.s2 hS.s3 (show sp + tl ≤ Ledger.get w.ledger.allow s by omega)
      (show sp + tl ≤ w.ledger.balance s by omega)
      (show w.ledger.balance IFUND + sp ≤ U128.MAX ∨ sp = 0 from hI)
      (show w.ledger.balance FEEPOOL + tl ≤ U128.MAX ∨ tl = 0 from hF)
    obtain ⟨hFr3, hlog3, _, _, _, _, hb3s, ha3s, hb3o, hLL3⟩ := cwFees_inv _ _ _ _ _ hS.s2 hS.s3 hf
    obtain ⟨g3, lg3, hW3⟩ := fr_form hFr3
    subst hW3
    have hlg3 : lg3 = optE s IFUND sp ++ optE s FEEPOOL tl := by
      have : lg3 = [] ++ optE s IFUND sp ++ optE s FEEPOOL tl := hlog3
      rw [this, List.nil_append]
    have hb3s' : g3.balance s = w.ledger.balance s - (sp + tl) := hb3s
    have ha3s' : Ledger.get g3.allow s = Ledger.get w.ledger.allow s - (sp + tl) := ha3s
    have hb3E' : g3.balance ENGINE = w.ledger.balance ENGINE := hb3o ENGINE (Ne.symm hS.s1) (by decide) (by decide)
    have hfuC : 39 = fu + 2 + (feesC s IFUND FEEPOOL sp tl).length := by rw [← len_fees_eq s]; exact hfu
    have hexc' : openPosition ({ cwW w with env := env, log := [] } : World).q (setNative w.engine false) env s
        ⟨0, false⟩ v side m l b = .ok (withSent (setNative { w.engine with tmpSwap := some (revTmp v s side m l N pn) } false) ⟨0, 0⟩, [revMsg env w.engine s v side]) := hexc
    rcases hcase2 with ⟨hlt, st', msn, hwn, hA, hres2⟩ | ⟨hlt, hA, hres2⟩
    · injection hres2 with he5 hsubs5
      subst he5 hsubs5
      have hp0 : pullAmt mtv = 0 := by simp only [pullAmt, hlt, ↓reduceIte]
      rw [hp0, Nat.add_zero] at hXpull
      subst hXpull
      -- after the fees, the two ledgers hold the same balances
      have hbal3 : ∀ a, Ledger.balance g3n a = Ledger.balance g3 a :=
        bal_eq_of_LL (Wn := ({ w with ledger := g3n, log := lg3n } : World)) (fun a => (w.ledger.balance a : Int))
          (LL_congr _ rfl rfl (hLL3n _ hLLa)) (hLL3 _ (LL_start (cwW w) env))
          (fun a => by
            show TxLog.tot _ lg3n - TxLog.tot _ lg3n = TxLog.tot _ lg3 - TxLog.tot _ lg3
            rw [hlg3n, hlg3]
            exact fee_flows s sp tl a)
      obtain ⟨msc, hwc, hmsn⟩ := withdraw_cw ((({ (legW ({ cwW w with env := env, log := [] } : World)
              (withSent (setNative { w.engine with tmpSwap := some (revTmp v s side m l N pn) } false) ⟨0, 0⟩)
              (setNative (e2base { w.engine with tmpSwap := some (revTmp v s side m l N pn) } env (revTmp v s side m l N pn) st (swOut o) mtv0 0 R) false) v x') with ledger := g3, log := lg3 } : World).setVamm v y').q) _ _ _ _ _ _ _
        (by show (Except.ok _ : Except Err Nat) = Except.ok _; exact congrArg _ (hbal3 _)) hwn
      obtain ⟨sf, hpp, hms⟩ := TxMoney.withdraw_shape _ _ _ _ _ _ _ _ hwc
      subst hms
      rw [wdMsgs_toNative] at hmsn
      subst hmsn
      have hr2c := (hspec2 (({ (legW ({ cwW w with env := env, log := [] } : World)
              (withSent (setNative { w.engine with tmpSwap := some (revTmp v s side m l N pn) } false) ⟨0, 0⟩)
              (setNative (e2base { w.engine with tmpSwap := some (revTmp v s side m l N pn) } env (revTmp v s side m l N pn) st (swOut o) mtv0 0 R) false) v x') with ledger := g3, log := lg3 } : World).setVamm v y').q false 0 (_, _)).2
        ⟨st2, xx, sm, mtv, nn, rm, ns, ratio, hst2, hcm, hcd, hmtv, hnn, hrm2, hns, hcap, hratio, hreq,
          Or.inl ⟨hlt, st', _, (EngineMoney.unwrap_ok _ _).2 hwc, fun hb => absurd hb (by decide), rfl⟩⟩
      -- the cw20 payout
      obtain ⟨wc', hrun5c, hFn, hFc, hlogn, hlogc⟩ := wd_transfer (fu + 1) (by omega) _
        ({ ({ (legW ({ cwW w with env := env, log := [] } : World)
              (withSent (setNative { w.engine with tmpSwap := some (revTmp v s side m l N pn) } false) ⟨0, 0⟩)
              (setNative (e2base { w.engine with tmpSwap := some (revTmp v s side m l N pn) } env (revTmp v s side m l N pn) st (swOut o) mtv0 0 R) false) v x') with ledger := g3, log := lg3 } : World).setVamm v y' with engine := setNative (upEngine (storePosition (e2base { w.engine with tmpSwap := some (revTmp v s side m l N pn) } env (revTmp v s side m l N pn) st (swOut o) mtv0 0 R) (legPos env (getPosition env (e2base { w.engine with tmpSwap := some (revTmp v s side m l N pn) } env (revTmp v s side m l N pn) st (swOut o) mtv0 0 R) (swap2 (revTmp v s side m l N pn) (swOut o) mtv0).vamm (swap2 (revTmp v s side m l N pn) (swOut o) mtv0).trader (swap2 (revTmp v s side m l N pn) (swOut o) mtv0).side) (swap2 (revTmp v s side m l N pn) (swOut o) mtv0).side nn ns rm)) st') false } : World)
        wn' _ (setNative (storePosition (e2base { w.engine with tmpSwap := some (revTmp v s side m l N pn) } env (revTmp v s side m l N pn) st (swOut o) mtv0 0 R) (legPos env (getPosition env (e2base { w.engine with tmpSwap := some (revTmp v s side m l N pn) } env (revTmp v s side m l N pn) st (swOut o) mtv0 0 R) (swap2 (revTmp v s side m l N pn) (swOut o) mtv0).vamm (swap2 (revTmp v s side m l N pn) (swOut o) mtv0).trader (swap2 (revTmp v s side m l N pn) (swOut o) mtv0).side) (swap2 (revTmp v s side m l N pn) (swOut o) mtv0).side nn ns rm)) false).cfg s mtv.value sf (Ne.symm hS.s1) (by exact fun a => (hbal3 a).symm) (by rfl) (by rfl) hrun5n
      have hrun2c := (leg2_iff (feesC s IFUND FEEPOOL sp tl) fu _ _ v side (absDiff N (swOut o)) (xe_feesC _ _ _ _ _)).2
        ⟨_, y, y', o2, _, _, hf, hvy, hsw2, hr2c, hrun5c⟩
      rw [← hfuC] at hrun2c
      have htxC : applyTx (cwW w) env s ⟨0, false⟩ (openTx v side m l b) = .ok wc' :=
        (reverse_tx_iff (cwW w) env s ⟨0, false⟩ v side m l b _ hrev).2
          ⟨_, _, x, x', o, _, _, ⟨fun hc => (by cases hc.1), fun _ => rfl⟩, hexc', hvx, hsw, hrc,
            by rw [hS.hif, hS.hfp] at *; exact hrun2c⟩
      have hlog : wc'.log = optE s IFUND sp ++ optE s FEEPOOL tl ++ optE IFUND ENGINE sf ++ [(ENGINE, s, mtv.value)] := by
        rw [hlogc]
        show lg3 ++ _ ++ _ = _
        rw [hlg3]
      have hlogN : wn'.log = optE s ENGINE (sp + tl) ++ optE ENGINE IFUND sp ++ optE ENGINE FEEPOOL tl
          ++ optE IFUND ENGINE sf ++ [(ENGINE, s, mtv.value)] := by
        rw [hlogn]
        show lg3n ++ _ ++ _ = _
        rw [hlg3n]
      have hX : pulledBy wc'.log s = sp + tl := by
        rw [hlog, pulledBy_append, pulledBy_append, pulledBy_append, pulledBy_optE, pulledBy_optE, pulledBy_optE]
        simp [pulledBy, Ne.symm hS.s1, Ne.symm hS.s2]
      refine ⟨wc', htxC, hX, ?_⟩
      refine ⟨?_, ?_, ?_, ?_, ?_, ?_, ?_⟩
      · rw [hFn.1, hFc.1]; rfl
      · rw [hFn.2.1, hFc.2.1]; rfl
      · rw [hFn.2.2.1, hFc.2.2.1]; rfl
      · rw [hFn.2.2.2.1, hFc.2.2.2.1]; rfl
      · rw [hFn.2.2.2.2.1, hFc.2.2.2.2.1]; rfl
      · rw [hFn.2.2.2.2.2, hFc.2.2.2.2.2]; rfl
      · refine bal_agree (natW w) (cwW w) wn' wc' env s _ _ _ h htxC (fun _ => rfl) (fun a => ?_)
        rw [hlogN, hlog]
        exact flows_append _ _ _ a (flows_append _ _ _ a (fee_flows s sp tl a))
    · injection hres2 with he5 hsubs5
      subst he5 hsubs5
      have h5 : execSubs (fu + 1) _ ENGINE [] = .ok wn' := hrun5n
      rw [SatGDeposit.execSubs_nil_eq] at h5
      injection h5 with h5
      subst h5
      have hr2c := (hspec2 (({ (legW ({ cwW w with env := env, log := [] } : World)
              (withSent (setNative { w.engine with tmpSwap := some (revTmp v s side m l N pn) } false) ⟨0, 0⟩)
              (setNative (e2base { w.engine with tmpSwap := some (revTmp v s side m l N pn) } env (revTmp v s side m l N pn) st (swOut o) mtv0 0 R) false) v x') with ledger := g3, log := lg3 } : World).setVamm v y').q false 0 (_, _)).2
        ⟨st2, xx, sm, mtv, nn, rm, ns, ratio, hst2, hcm, hcd, hmtv, hnn, hrm2, hns, hcap, hratio, hreq,
          Or.inr ⟨hlt, fun hb => absurd hb (by decide), rfl⟩⟩
      -- the cw20 pull of the margin
      obtain ⟨wc', hp⟩ := optPull_ok
        ({ ({ (legW ({ cwW w with env := env, log := [] } : World)
              (withSent (setNative { w.engine with tmpSwap := some (revTmp v s side m l N pn) } false) ⟨0, 0⟩)
              (setNative (e2base { w.engine with tmpSwap := some (revTmp v s side m l N pn) } env (revTmp v s side m l N pn) st (swOut o) mtv0 0 R) false) v x') with ledger := g3, log := lg3 } : World).setVamm v y' with engine := setNative (upEngine (storePosition (e2base { w.engine with tmpSwap := some (revTmp v s side m l N pn) } env (revTmp v s side m l N pn) st (swOut o) mtv0 0 R) (legPos env (getPosition env (e2base { w.engine with tmpSwap := some (revTmp v s side m l N pn) } env (revTmp v s side m l N pn) st (swOut o) mtv0 0 R) (swap2 (revTmp v s side m l N pn) (swOut o) mtv0).vamm (swap2 (revTmp v s side m l N pn) (swOut o) mtv0).trader (swap2 (revTmp v s side m l N pn) (swOut o) mtv0).side) (swap2 (revTmp v s side m l N pn) (swOut o) mtv0).side nn ns rm)) st2) false } : World)
        s ENGINE_ADDR (pullAmt mtv) hS.s1
        (show pullAmt mtv ≤ Ledger.get g3.allow s by omega)
        (show pullAmt mtv ≤ g3.balance s by omega)
        (show g3.balance ENGINE + pullAmt mtv ≤ U128.MAX ∨ pullAmt mtv = 0 by omega)
      have P := optPull_pl _ _ _ _ _ hS.s1 hp
      have hrun5c := (execSubs_xfers_iff _ (fu + 1) _ wc' (by have := len_pullE s (pullAmt mtv); omega)
        (xe_pullE s (pullAmt mtv))).2 (by rw [run_pullE]; exact hp)
      have hrun2c := (leg2_iff (feesC s IFUND FEEPOOL sp tl) fu _ _ v side (absDiff N (swOut o)) (xe_feesC _ _ _ _ _)).2
        ⟨_, y, y', o2, _, _, hf, hvy, hsw2, hr2c, hrun5c⟩
      rw [← hfuC] at hrun2c
      have htxC : applyTx (cwW w) env s ⟨0, false⟩ (openTx v side m l b) = .ok wc' :=
        (reverse_tx_iff (cwW w) env s ⟨0, false⟩ v side m l b _ hrev).2
          ⟨_, _, x, x', o, _, _, ⟨fun hc => (by cases hc.1), fun _ => rfl⟩, hexc', hvx, hsw, hrc,
            by rw [hS.hif, hS.hfp] at *; exact hrun2c⟩
      have hlog : wc'.log = optE s IFUND sp ++ optE s FEEPOOL tl ++ optE s ENGINE_ADDR (pullAmt mtv) := by
        rw [P.log]
        show lg3 ++ _ = _
        rw [hlg3]
        rfl
      have hX : pulledBy wc'.log s = X := by
        rw [hlog, pulledBy_append, pulledBy_append, pulledBy_optE, pulledBy_optE, pulledBy_optE, hXpull]
        simp
      refine ⟨wc', htxC, hX, ?_⟩
      have hFc := P.fr
      refine ⟨?_, ?_, ?_, ?_, ?_, ?_, ?_⟩
      · rw [hFc.1]; rfl
      · rw [hFc.2.1]; rfl
      · rw [hFc.2.2.1]; rfl
      · rw [hFc.2.2.2.1]; rfl
      · rw [hFc.2.2.2.2.1]; rfl
      · rw [hFc.2.2.2.2.2]; rfl
      · refine bal_agree (natW w) (cwW w) _ wc' env s _ _ _ h htxC (fun _ => rfl) (fun a => ?_)
        rw [hlog]
        show TxLog.tot _ lg3n - TxLog.tot _ lg3n = _
        rw [hlg3n, hXpull]
        exact reopen_flows s (pullAmt mtv) sp tl a


/-! ### `CloseOnlyQ` / `ReopenQ` are exactly the reply's branch conditions -/

theorem transferMsg_id (cfg : Config) (r a : Nat) : (transferMsg cfg r a).id = REPLY_TRANSFER_FAILURE := by
  unfold transferMsg; split <;> rfl

theorem last_ne (fm fm' : List SubMsg) (cfg : Config) (t a vm n : Nat) (sd : Side) :
    fm ++ [transferMsg cfg t a] ≠ fm' ++ [swapInputMsg vm sd n 0 false REPLY_INCREASE] := by
  intro h
  have h1 := List.append_inj_right' h rfl
  injection h1 with h1 _
  have h2 := congrArg SubMsg.id h1
  rw [transferMsg_id] at h2
  cases h2

theorem closeOnlyQ_iff_lev (e : E) (m l ml N out : Nat) (hml : cmul m l = .ok ml)
    (hN : cdiv ml e.cfg.decimals = .ok N) : CloseOnlyQ e m l out ↔ absDiff N out / l = 0 := by
  constructor
  · intro h; exact h ml N hml hN
  · intro h ml' N' h1 h2
    rw [hml] at h1; injection h1 with h1; subst h1
    rw [hN] at h2; injection h2 with h2; subst h2
    exact h

theorem reopenQ_iff_lev (e : E) (m l ml N out : Nat) (hml : cmul m l = .ok ml)
    (hN : cdiv ml e.cfg.decimals = .ok N) : ReopenQ e m l out ↔ absDiff N out / l ≠ 0 := by
  constructor
  · intro h; exact h ml N hml hN
  · intro h ml' N' h1 h2
    rw [hml] at h1; injection h1 with h1; subst h1
    rw [hN] at h2; injection h2 with h2; subst h2
    exact h

/-- `CloseOnlyQ` holds exactly when a successful reversal reply (for the record `openPosition` stored: notional
    `m·l/D`, leverage `l`) ends with the payout of the old equity -/
theorem closeOnlyQ_iff_payout (q : Q) (e : E) (env : Env) (out : Nat) (swap : TmpSwap) (b : Bool) (A : Nat)
    (hsw : e.tmpSwap = some swap) (m l ml : Nat) (hml : cmul m l = .ok ml)
    (hN : cdiv ml e.cfg.decimals = .ok swap.openNotional) (hl : swap.leverage = l) (r : E × List SubMsg)
    (h : reversePositionReply q (withSent (setNative e b) ⟨A, 0⟩) env out = .ok r) :
    CloseOnlyQ e m l out ↔ ∃ fm amt, r.2 = fm ++ [transferMsg (setNative e b).cfg swap.trader amt] := by
  rw [closeOnlyQ_iff_lev e m l ml _ out hml hN]
  obtain ⟨st, rm0, pm, sp, tl, mtv, _, _, _, _, _, _, _, hcase⟩ := (rpr_spec q e env out swap b A hsw r).1 h
  subst hl
  constructor
  · intro hz
    obtain ⟨_, _, rfl⟩ := hcase.resolve_right (fun hh => hh.1 hz)
    exact ⟨_, _, rfl⟩
  · rintro ⟨fm, amt, hr⟩
    rcases hcase with ⟨hz, _⟩ | ⟨_, _, _, rfl⟩
    · exact hz
    · exact absurd hr.symm (last_ne _ _ _ _ _ _ _ _)

/-- `ReopenQ` holds exactly when a successful reversal reply ends with the second leg's swap -/
theorem reopenQ_iff_secondLeg (q : Q) (e : E) (env : Env) (out : Nat) (swap : TmpSwap) (b : Bool) (A : Nat)
    (hsw : e.tmpSwap = some swap) (m l ml : Nat) (hml : cmul m l = .ok ml)
    (hN : cdiv ml e.cfg.decimals = .ok swap.openNotional) (hl : swap.leverage = l) (r : E × List SubMsg)
    (h : reversePositionReply q (withSent (setNative e b) ⟨A, 0⟩) env out = .ok r) :
    ReopenQ e m l out ↔ ∃ fm n, r.2 = fm ++ [swapInputMsg swap.vamm swap.side n 0 false REPLY_INCREASE] := by
  rw [reopenQ_iff_lev e m l ml _ out hml hN]
  obtain ⟨st, rm0, pm, sp, tl, mtv, _, _, _, _, _, _, _, hcase⟩ := (rpr_spec q e env out swap b A hsw r).1 h
  subst hl
  constructor
  · intro hz
    obtain ⟨_, _, _, rfl⟩ := hcase.resolve_left (fun hh => hz hh.1)
    exact ⟨_, _, rfl⟩
  · rintro ⟨fm, n, hr⟩
    rcases hcase with ⟨_, _, rfl⟩ | ⟨hz, _⟩
    · exact absurd hr (last_ne _ _ _ _ _ _ _ _)
    · exact hz


/-! ### the twin theorems -/

open SatG (nat cw)

/-- **OpenPosition, close-only reversal** (`ReverseQ`: a stored position of non-zero size on the other side whose spot
    notional is at most the order's notional; `CloseOnlyQ`: what is left of the order after the old position is
    closed buys no margin).  The old equity is paid out, the fees move.
    (A) if the cw20 run succeeds, the native run given exactly what was pulled from the caller (the fees) succeeds,
        and the two final worlds agree; that amount was within the allowance;
    (B) if the native run succeeds with ANY attached amount `X` (within the caller's cw20 allowance), the cw20 run
        succeeds, pulls exactly `X`, and the worlds agree.
    NO extra premise is needed: on this path the model pays the equity out with a plain transfer AFTER the fee
    transfers (no `withdraw`, hence no insurance-fund draw), the fee is taken before the payout on both
    deployments, and the native engine checks the attached amount against the fees (`sent_funds_sufficient`). -/
theorem twin_open_reverse_closeonly (w : World) (env : Env) (s v : Nat) (side : Side) (m l b : Nat)
    (hrev : ReverseQ ({ w with env := env, log := [] } : World).q w.engine env s v side m l)
    (hco : ∀ out, RevOut w env s v side out → CloseOnlyQ w.engine m l out)
    (hS : Setup w s) (hk : Dispatch.KeysNodup w.ledger) (ht : Dispatch.total w.ledger ≤ U128.MAX) :
    (∀ wc, applyTx (cw w) env s ⟨0, false⟩ (.engine (.openPosition v side m l b)) = .ok wc →
        ∃ wn, applyTx (nat w) env s ⟨pulledBy wc.log s, false⟩ (.engine (.openPosition v side m l b)) = .ok wn
          ∧ Agree wn wc ∧ pulledBy wc.log s ≤ Ledger.get w.ledger.allow s)
    ∧ (∀ X wn, X ≤ Ledger.get w.ledger.allow s →
        applyTx (nat w) env s ⟨X, false⟩ (.engine (.openPosition v side m l b)) = .ok wn →
        ∃ wc, applyTx (cw w) env s ⟨0, false⟩ (.engine (.openPosition v side m l b)) = .ok wc
          ∧ pulledBy wc.log s = X ∧ Agree wn wc) :=
  ⟨fun wc h => revco_A w env s v side m l b hrev hco hS (room_of_total w s hS.s1 hk ht) wc h,
   fun X wn hX h => revco_B w env s v side m l b hrev hco hS X hX wn h⟩

/-- **OpenPosition, re-opening reversal** (`ReverseQ`, `ReopenQ`: the rest of the order opens a position on the new
    side) **under the netting condition `NetsOK`** of the pre-state quantities (old margin, funding owed, spot pnl,
    fees on the order's notional, margin of the second leg).
    (A) if the cw20 run succeeds, the native run given exactly what was pulled from the caller succeeds, and the two
        final worlds agree; that amount was within the allowance;
    (B) if the native run succeeds with ANY attached amount `X` (within the caller's cw20 allowance), the cw20 run
        succeeds, pulls exactly `X`, and the worlds agree.
    A vault shortfall on the payout of the netted equity (insurance-fund draw) is covered: the fee coins have left
    the vault before the second leg's `withdraw` looks at its balance. -/
theorem twin_open_reverse_reopen (w : World) (env : Env) (s v : Nat) (side : Side) (m l b : Nat)
    (hrev : ReverseQ ({ w with env := env, log := [] } : World).q w.engine env s v side m l)
    (hre : ∀ out, RevOut w env s v side out → ReopenQ w.engine m l out)
    (hnet : ∀ out, RevOut w env s v side out →
      NetsOKQ ({ w with env := env, log := [] } : World).q w.engine env s v side m l out)
    (hS : Setup w s) (hk : Dispatch.KeysNodup w.ledger) (ht : Dispatch.total w.ledger ≤ U128.MAX) :
    (∀ wc, applyTx (cw w) env s ⟨0, false⟩ (.engine (.openPosition v side m l b)) = .ok wc →
        ∃ wn, applyTx (nat w) env s ⟨pulledBy wc.log s, false⟩ (.engine (.openPosition v side m l b)) = .ok wn
          ∧ Agree wn wc ∧ pulledBy wc.log s ≤ Ledger.get w.ledger.allow s)
    ∧ (∀ X wn, X ≤ Ledger.get w.ledger.allow s →
        applyTx (nat w) env s ⟨X, false⟩ (.engine (.openPosition v side m l b)) = .ok wn →
        ∃ wc, applyTx (cw w) env s ⟨0, false⟩ (.engine (.openPosition v side m l b)) = .ok wc
          ∧ pulledBy wc.log s = X ∧ Agree wn wc) :=
  ⟨fun wc h => reopen_A w env s v side m l b hrev hre hnet hS (room_of_total w s hS.s1 hk ht) wc h,
   fun X wn hX h => reopen_B w env s v side m l b hrev hre hnet hS X hX wn h⟩

/-- both succeed or both fail (close-only reversal) -/
theorem twin_open_reverse_closeonly_outcome (w : World) (env : Env) (s v : Nat) (side : Side) (m l b : Nat)
    (hrev : ReverseQ ({ w with env := env, log := [] } : World).q w.engine env s v side m l)
    (hco : ∀ out, RevOut w env s v side out → CloseOnlyQ w.engine m l out)
    (hS : Setup w s) (hk : Dispatch.KeysNodup w.ledger) (ht : Dispatch.total w.ledger ≤ U128.MAX) :
    (∃ wc, applyTx (cw w) env s ⟨0, false⟩ (.engine (.openPosition v side m l b)) = .ok wc)
      ↔ (∃ X wn, X ≤ Ledger.get w.ledger.allow s
          ∧ applyTx (nat w) env s ⟨X, false⟩ (.engine (.openPosition v side m l b)) = .ok wn) := by
  obtain ⟨hA, hB⟩ := twin_open_reverse_closeonly w env s v side m l b hrev hco hS hk ht
  constructor
  · rintro ⟨wc, h⟩
    obtain ⟨wn, hn, _, hal⟩ := hA wc h
    exact ⟨_, wn, hal, hn⟩
  · rintro ⟨X, wn, hX, h⟩
    obtain ⟨wc, hc, _⟩ := hB X wn hX h
    exact ⟨wc, hc⟩

/-- both succeed or both fail (re-opening reversal under `NetsOK`) -/
theorem twin_open_reverse_reopen_outcome (w : World) (env : Env) (s v : Nat) (side : Side) (m l b : Nat)
    (hrev : ReverseQ ({ w with env := env, log := [] } : World).q w.engine env s v side m l)
    (hre : ∀ out, RevOut w env s v side out → ReopenQ w.engine m l out)
    (hnet : ∀ out, RevOut w env s v side out →
      NetsOKQ ({ w with env := env, log := [] } : World).q w.engine env s v side m l out)
    (hS : Setup w s) (hk : Dispatch.KeysNodup w.ledger) (ht : Dispatch.total w.ledger ≤ U128.MAX) :
    (∃ wc, applyTx (cw w) env s ⟨0, false⟩ (.engine (.openPosition v side m l b)) = .ok wc)
      ↔ (∃ X wn, X ≤ Ledger.get w.ledger.allow s
          ∧ applyTx (nat w) env s ⟨X, false⟩ (.engine (.openPosition v side m l b)) = .ok wn) := by
  obtain ⟨hA, hB⟩ := twin_open_reverse_reopen w env s v side m l b hrev hre hnet hS hk ht
  constructor
  · rintro ⟨wc, h⟩
    obtain ⟨wn, hn, _, hal⟩ := hA wc h
    exact ⟨_, wn, hal, hn⟩
  · rintro ⟨X, wn, hX, h⟩
    obtain ⟨wc, hc, _⟩ := hB X wn hX h
    exact ⟨wc, hc⟩


/-! ### executable forms of the hypotheses -/

/-- the quote amount the vAMM pays for the old position, computed -/
def revOutF (w : World) (env : Env) (s v : Nat) (side : Side) : Option Nat :=
  match ({ w with env := env, log := [] } : World).vammE v with
  | .ok x =>
    match Vamm.swapOutput x env ENGINE (getPosition env w.engine v s side).direction
        (getPosition env w.engine v s side).size.value 0 with
    | .ok r => some (swOut r.2)
    | .error _ => none
  | .error _ => none

theorem revOut_iff (w : World) (env : Env) (s v : Nat) (side : Side) (out : Nat) :
    RevOut w env s v side out ↔ revOutF w env s v side = some out := by
  unfold RevOut revOutF
  constructor
  · rintro ⟨x, x', o, h1, h2, rfl⟩
    rw [h1]
    dsimp only
    rw [h2]
  · intro h
    cases h1 : ({ w with env := env, log := [] } : World).vammE v with
    | error e => rw [h1] at h; cases h
    | ok x =>
      rw [h1] at h
      dsimp only at h
      cases h2 : Vamm.swapOutput x env ENGINE (getPosition env w.engine v s side).direction
          (getPosition env w.engine v s side).size.value 0 with
      | error e => rw [h2] at h; cases h
      | ok r =>
        rw [h2] at h
        injection h with h
        obtain ⟨r1, r2⟩ := r
        exact ⟨x, r1, r2, rfl, h2, h.symm⟩

/-- executable form of `ReverseQ` -/
def reverseB (q : Q) (e : E) (env : Env) (s v : Nat) (side : Side) (m l : Nat) : Bool :=
  !(decide ((getPosition env e v s side).size.isZero = true
      ∨ ((getPosition env e v s side).direction = .addToAmm ∧ side = .buy)
      ∨ ((getPosition env e v s side).direction = .removeFromAmm ∧ side = .sell)))
  && (match cmul m l with
      | .ok ml =>
        match cdiv ml e.cfg.decimals with
        | .ok N =>
          match unwrap (positionNotionalPnl q e (getPosition env e v s side) .spot) with
          | .ok pn => !decide (pn.1 > N)
          | .error _ => true
        | .error _ => true
      | .error _ => true)

theorem reverseQ_of_reverseB (q : Q) (e : E) (env : Env) (s v : Nat) (side : Side) (m l : Nat)
    (h : reverseB q e env s v side m l = true) : ReverseQ q e env s v side m l := by
  unfold reverseB at h
  simp only [Bool.and_eq_true, Bool.not_eq_true', decide_eq_false_iff_not] at h
  obtain ⟨h1, h2⟩ := h
  refine ⟨h1, fun ml N pn e1 e2 e3 => ?_⟩
  rw [e1] at h2
  dsimp only at h2
  rw [e2] at h2
  dsimp only at h2
  rw [e3] at h2
  simpa using h2

/-- `|m·l/D − out| / l`, when it can be computed -/
def levOf (e : E) (m l out : Nat) : Option Nat :=
  match cmul m l with
  | .ok ml =>
    match cdiv ml e.cfg.decimals with
    | .ok N => some (absDiff N out / l)
    | .error _ => none
  | .error _ => none

theorem closeOnlyQ_of_lev (e : E) (m l out : Nat) (h : levOf e m l out = some 0) : CloseOnlyQ e m l out := by
  intro ml N h1 h2
  unfold levOf at h
  rw [h1] at h
  dsimp only at h
  rw [h2] at h
  injection h

theorem reopenQ_of_lev (e : E) (m l out k : Nat) (h : levOf e m l out = some (k + 1)) : ReopenQ e m l out := by
  intro ml N h1 h2
  unfold levOf at h
  rw [h1] at h
  dsimp only at h
  rw [h2] at h
  injection h with h
  omega

/-- everything `NetsOKQ` speaks about, computed: `(fees (toll, spread), margin of the second leg, −old equity)` -/
def netsVals (q : Q) (e : E) (env : Env) (s v : Nat) (side : Side) (m l out : Nat) :
    Except Err ((Nat × Nat) × Nat × Integer) := do
  let ml ← cmul m l
  let N ← cdiv ml e.cfg.decimals
  let pn ← unwrap (positionNotionalPnl q e (getPosition env e v s side) .spot)
  let rm ← calcRemainMargin e (getPosition env e v s side) pn.2
  let fee ← q.calcFee v N
  let x ← cmul (absDiff N out) e.cfg.decimals
  let sm ← cdiv x l
  let pm ← Integer.checkedAdd (Integer.newNegative (getPosition env e v s side).margin) rm.funding
  let mtv0 ← Integer.checkedSub pm pn.2
  pure (fee, sm, mtv0)

/-- when the quantities can be computed, `NetsOKQ` IS the three-way case distinction on them -/
theorem netsOKQ_iff_vals (q : Q) (e : E) (env : Env) (s v : Nat) (side : Side) (m l out : Nat)
    (fee : Nat × Nat) (sm : Nat) (mtv0 : Integer)
    (h : netsVals q e env s v side m l out = .ok (fee, sm, mtv0)) :
    NetsOKQ q e env s v side m l out ↔ NetsCase fee.2 fee.1 sm mtv0 := by
  unfold netsVals at h
  simp only [bind_ok_iff, pure_ok_iff] at h
  obtain ⟨ml, h1, N, h2, pn, h3, rm, h4, fee', h5, x, h6, sm', h7, pm, h8, mtv0', h9, heq⟩ := h
  injection heq with k1 heq
  injection heq with k2 k3
  subst k1 k2 k3
  constructor
  · intro hq
    exact hq ml N pn rm fee'.1 fee'.2 x sm' h1 h2 h3 h4 h5 h6 h7 pm mtv0' h8 h9
  · intro hc ml' N' pn' rm' tl' sp' x' sm'' e1 e2 e3 e4 e5 e6 e7 pm' mtv0'' e8 e9
    rw [h1] at e1; injection e1 with e1; subst e1
    rw [h2] at e2; injection e2 with e2; subst e2
    rw [h3] at e3; injection e3 with e3; subst e3
    rw [h4] at e4; injection e4 with e4; subst e4
    rw [h5] at e5; injection e5 with e5; subst e5
    rw [h6] at e6; injection e6 with e6; subst e6
    rw [h7] at e7; injection e7 with e7; subst e7
    rw [h8] at e8; injection e8 with e8; subst e8
    rw [h9] at e9; injection e9 with e9; subst e9
    exact hc

instance (sp tl sm : Nat) (mtv0 : Integer) : Decidable (NetsCase sp tl sm mtv0) := by
  unfold NetsCase; exact inferInstance



/-! ### exactness of `NetsOK` -/

/-- what a successful cw20 run of a re-opening reversal computes and pulls -/
theorem cw_reopen_inv (w : World) (env : Env) (s v : Nat) (side : Side) (m l b : Nat)
    (hrev : ReverseQ ({ w with env := env, log := [] } : World).q w.engine env s v side m l)
    (hre : ∀ out, RevOut w env s v side out → ReopenQ w.engine m l out)
    (hS : Setup w s)
    (wc' : World) (h : applyTx (cwW w) env s ⟨0, false⟩ (openTx v side m l b) = .ok wc') :
    ∃ out fee sm mtv0 R mtv, RevOut w env s v side out
      ∧ netsVals ({ w with env := env, log := [] } : World).q w.engine env s v side m l out = .ok (fee, sm, mtv0)
      ∧ reqNet (fee.2 + fee.1) fee.2 fee.1 mtv0 = .ok R
      ∧ Integer.checkedAdd mtv0 (Integer.newPositive sm) = .ok mtv
      ∧ pulledBy wc'.log s = fee.2 + fee.1 + pullAmt mtv := by
  obtain ⟨Wa, e1, x, x', o, e2, subs2, ha, hex, hvx, hsw, hr, hrun⟩ :=
    (reverse_tx_iff (cwW w) env s ⟨0, false⟩ v side m l b wc' hrev).1 h
  have hWa := ha.2 (fun hc => absurd hc.1 (by simp [cwW]))
  subst hWa
  obtain ⟨ml, N, pn, he1, hml, hN, hpn, hl, _⟩ :=
    reverse_shape _ (setNative w.engine false) env s ⟨0, false⟩ v side m l b hrev _ hex
  dsimp only at he1
  have he1' : e1 = withSent (setNative { w.engine with tmpSwap := some (revTmp v s side m l N pn) } false) ⟨0, 0⟩ := he1
  subst he1'
  -- the reversal reply
  have hspec := fun b A r => rpr_spec ((({ cwW w with env := env, log := [] } : World).setVamm v x').q)
    { w.engine with tmpSwap := some (revTmp v s side m l N pn) } env (swOut o) (revTmp v s side m l N pn) b A rfl r
  obtain ⟨st, rm0, pm, sp, tl, mtv0, hst, hrm, hpm, hfee, hR, hlev, hmtv0, hcase⟩ := (hspec false 0 _).1 hr
  have hout : RevOut w env s v side (swOut o) := ⟨x, x', o, hvx, hsw, rfl⟩
  have hnz : absDiff N (swOut o) / l ≠ 0 := hre _ hout ml N hml hN
  obtain ⟨_, R, hRq, hres⟩ := hcase.resolve_left (fun hh => hnz hh.1)
  injection hres with he2 hsubs
  have hsubs' : subs2 = feesC s IFUND FEEPOOL sp tl
      ++ [swapInputMsg v side (absDiff N (swOut o)) 0 false REPLY_INCREASE] := by
    rw [hsubs, feeMsgs_false]
    show feesC s w.engine.cfg.insuranceFund w.engine.cfg.feePool sp tl ++ _ = _
    rw [hS.hif, hS.hfp]
    rfl
  subst he2 hsubs'
  -- the second leg on cw20
  have hlen := len_feesC s IFUND FEEPOOL sp tl
  obtain ⟨fu, hfu⟩ : ∃ fu, 39 = fu + 2 + (feesC s IFUND FEEPOOL sp tl).length :=
    ⟨37 - (feesC s IFUND FEEPOOL sp tl).length, by omega⟩
  rw [hfu] at hrun
  obtain ⟨W3, y, y', o2, e5, subs5, hf, hvy, hsw2, hr2, hrun5⟩ :=
    (leg2_iff _ fu _ _ _ _ _ (xe_feesC _ _ _ _ _)).1 hrun
  obtain ⟨hFr3, hlog3, hbs, hal, hI, hF, hb3s, ha3s, hb3o, hLL3⟩ := cwFees_inv _ _ _ _ _ hS.s2 hS.s3 hf
  obtain ⟨g3, lg3, hW3⟩ := fr_form hFr3
  subst hW3
  -- the second reply
  have hspec2 := fun q b A r => upr2_spec' q
    (e2base { w.engine with tmpSwap := some (revTmp v s side m l N pn) } env (revTmp v s side m l N pn) st (swOut o) mtv0 0 R)
    env (swIn o2) (swOut o2) (swap2 (revTmp v s side m l N pn) (swOut o) mtv0) b A R rfl rfl r
  obtain ⟨st2, xx, sm, mtv, nn, rm, ns, ratio, hst2, hcm, hcd, hmtv, hnn, hrm2, hns, hcap, hratio, hreq, hcase2⟩ :=
    (hspec2 _ false 0 _).1 hr2
  have hcfg : x'.cfg = x.cfg := (MirrorP.swapOutput_net _ _ _ _ _ _ _ _ hsw).2.1
  have hfee' : ({ w with env := env, log := [] } : World).q.calcFee v N = .ok (tl, sp) := by
    have := calcFee_setVamm ({ cwW w with env := env, log := [] } : World) v x x' hvx hcfg v N
    exact this.symm.trans hfee
  have hvals : netsVals ({ w with env := env, log := [] } : World).q w.engine env s v side m l (swOut o)
      = .ok ((tl, sp), sm, mtv0) := by
    unfold netsVals
    simp only [bind_ok_iff, pure_ok_iff]
    exact ⟨ml, hml, N, hN, pn, hpn, rm0, hrm, (tl, sp), hfee', xx, hcm, sm, hcd, pm, hpm, mtv0, hmtv0, rfl⟩
  refine ⟨swOut o, (tl, sp), sm, mtv0, R, mtv, hout, hvals, hRq, hmtv, ?_⟩
  have hlg3 : lg3 = optE s IFUND sp ++ optE s FEEPOOL tl := by
    have : lg3 = [] ++ optE s IFUND sp ++ optE s FEEPOOL tl := hlog3
    rw [this, List.nil_append]
  rcases hcase2 with ⟨hlt, st', ms, hw, -, hres2⟩ | ⟨hlt, -, hres2⟩
  · injection hres2 with he5 hsubs5
    subst he5 hsubs5
    rw [EngineMoney.unwrap_ok] at hw
    obtain ⟨sf, hpp, hms⟩ := TxMoney.withdraw_shape _ _ _ _ _ _ _ _ hw
    subst hms
    obtain ⟨_, _, _, _, hlogc, _⟩ := wd_transfer (fu + 1) (by omega) _ _ wc' _ (setNative w.engine false).cfg s mtv.value sf
      (Ne.symm hS.s1) (fun _ => rfl) rfl rfl hrun5
    have hlog : wc'.log = optE s IFUND sp ++ optE s FEEPOOL tl ++ optE IFUND ENGINE sf ++ [(ENGINE, s, mtv.value)] := by
      rw [hlogc]
      show lg3 ++ _ ++ _ = _
      rw [hlg3]
    have hp0 : pullAmt mtv = 0 := by simp only [pullAmt, hlt, ↓reduceIte]
    rw [hlog, pulledBy_append, pulledBy_append, pulledBy_append, pulledBy_optE, pulledBy_optE, pulledBy_optE, hp0]
    simp [pulledBy, Ne.symm hS.s1, Ne.symm hS.s2]
  · injection hres2 with he5 hsubs5
    subst he5 hsubs5
    have hrunX5 := (execSubs_xfers_iff _ (fu + 1) _ wc' (by have := len_pullE s (pullAmt mtv); omega)
      (xe_pullE s (pullAmt mtv))).1 hrun5
    rw [run_pullE] at hrunX5
    have P := optPull_pl _ _ _ _ _ hS.s1 hrunX5
    have hlog : wc'.log = optE s IFUND sp ++ optE s FEEPOOL tl ++ optE s ENGINE_ADDR (pullAmt mtv) := by
      rw [P.log]
      show lg3 ++ _ = _
      rw [hlg3]
      rfl
    rw [hlog, pulledBy_append, pulledBy_append, pulledBy_optE, pulledBy_optE, pulledBy_optE]
    simp


/-- what a successful native run of a re-opening reversal computes and requires -/
theorem nat_reopen_inv (w : World) (env : Env) (s v : Nat) (side : Side) (m l b : Nat)
    (hrev : ReverseQ ({ w with env := env, log := [] } : World).q w.engine env s v side m l)
    (hre : ∀ out, RevOut w env s v side out → ReopenQ w.engine m l out)
    (hS : Setup w s) (X : Nat)
    (wn' : World) (h : applyTx (natW w) env s ⟨X, false⟩ (openTx v side m l b) = .ok wn') :
    ∃ out fee sm mtv0 R mtv, RevOut w env s v side out
      ∧ netsVals ({ w with env := env, log := [] } : World).q w.engine env s v side m l out = .ok (fee, sm, mtv0)
      ∧ reqNet (fee.2 + fee.1) fee.2 fee.1 mtv0 = .ok R
      ∧ Integer.checkedAdd mtv0 (Integer.newPositive sm) = .ok mtv
      ∧ X = R + (if Integer.lt mtv Integer.zero = true then 0 else legDelta mtv sm) := by
  obtain ⟨Wa, e1n, x, x', o, e2n, subs2n, han, hexn, hvx, hsw, hrn, hrunn⟩ :=
    (reverse_tx_iff (natW w) env s ⟨X, false⟩ v side m l b wn' hrev).1 h
  obtain ⟨⟨g, lg, hform⟩, hmva⟩ := attach_mv (natW w) env s X hS.s1 rfl Wa han
  subst hform
  -- the execute half on cw20
  have hexN := open_twin ({ cwW w with env := env, log := [] } : World).q (fun a => .ok (g.balance a)) w.engine env s
    X v side m l b
  have hexn' : openPosition (qb ({ cwW w with env := env, log := [] } : World).q (fun a => .ok (g.balance a)))
      (setNative w.engine true) env s ⟨X, false⟩ v side m l b
        = .ok (e1n, [revMsg env w.engine s v side]) := hexn
  rw [hexn'] at hexN
  cases hexc : openPosition ({ cwW w with env := env, log := [] } : World).q (setNative w.engine false) env s
      ⟨0, false⟩ v side m l b with
  | error err => rw [hexc] at hexN; cases hexN
  | ok rc =>
    obtain ⟨e1c, msgs⟩ := rc
    rw [hexc] at hexN
    injection hexN with hexN
    injection hexN with he1n hmsgs
    dsimp only at he1n hmsgs
    subst hmsgs
    obtain ⟨ml, N, pn, he1, hml, hN, hpn, hl, _⟩ :=
      reverse_shape _ (setNative w.engine false) env s ⟨0, false⟩ v side m l b hrev _ hexc
    dsimp only at he1
    have he1' : e1c = withSent (setNative { w.engine with tmpSwap := some (revTmp v s side m l N pn) } false) ⟨0, 0⟩ := he1
    subst he1'
    have he1n' : e1n = withSent (setNative { w.engine with tmpSwap := some (revTmp v s side m l N pn) } true) ⟨X, 0⟩ := he1n
    subst he1n'
    -- the reversal reply
    have hspec := fun b A r => rpr_spec ((({ cwW w with env := env, log := [] } : World).setVamm v x').q)
      { w.engine with tmpSwap := some (revTmp v s side m l N pn) } env (swOut o) (revTmp v s side m l N pn) b A rfl r
    have hrn' : reversePositionReply ((({ cwW w with env := env, log := [] } : World).setVamm v x').q)
        (withSent (setNative { w.engine with tmpSwap := some (revTmp v s side m l N pn) } true) ⟨X, 0⟩) env (swOut o) = .ok (e2n, subs2n) := hrn
    obtain ⟨st, rm0, pm, sp, tl, mtv0, hst, hrm, hpm, hfee, hR, hlev, hmtv0, hcase⟩ := (hspec true X _).1 hrn'
    have hout : RevOut w env s v side (swOut o) := ⟨x, x', o, hvx, hsw, rfl⟩
    have hnz : absDiff N (swOut o) / l ≠ 0 := hre _ hout ml N hml hN
    obtain ⟨_, R, hRq, hres⟩ := hcase.resolve_left (fun hh => hnz hh.1)
    injection hres with he2 hsubs
    have hsubs' : subs2n = feesN IFUND FEEPOOL sp tl
        ++ [swapInputMsg v side (absDiff N (swOut o)) 0 false REPLY_INCREASE] := by
      rw [hsubs, feeMsgs_true]
      show feesN w.engine.cfg.insuranceFund w.engine.cfg.feePool sp tl ++ _ = _
      rw [hS.hif, hS.hfp]
      rfl
    subst he2 hsubs'
    -- the second leg on native
    have hlen := len_feesN IFUND FEEPOOL sp tl
    obtain ⟨fu, hfu⟩ : ∃ fu, 39 = fu + 2 + (feesN IFUND FEEPOOL sp tl).length :=
      ⟨37 - (feesN IFUND FEEPOOL sp tl).length, by omega⟩
    rw [hfu] at hrunn
    obtain ⟨W3n, y, y', o2, e5n, subs5n, hfn, hvy, hsw2, hr2n, hrun5n⟩ :=
      (leg2_iff _ fu _ _ _ _ _ (xe_feesN _ _ _ _)).1 hrunn
    obtain ⟨hFr3n, hlog3n, hEn, hIn, hFnr, hb3E, hb3on, hLL3n⟩ := natFees_inv _ _ _ _ hfn
    obtain ⟨g3n, lg3n, hW3n⟩ := fr_form hFr3n
    subst hW3n
    have hlg : lg = optE s ENGINE X := hmva.log
    have hlg3n : lg3n = optE s ENGINE X ++ optE ENGINE IFUND sp ++ optE ENGINE FEEPOOL tl := by
      have : lg3n = lg ++ optE ENGINE IFUND sp ++ optE ENGINE FEEPOOL tl := hlog3n
      rw [this, hlg]
    have hLLa := mv_LL hmva hS.s1 _ (LL_start (natW w) env)
    have hXs : X ≤ w.ledger.balance s := hmva.has
    have hXE : w.ledger.balance ENGINE + X ≤ U128.MAX ∨ X = 0 := hmva.room
    have hgI : g.balance IFUND = w.ledger.balance IFUND := hmva.bother IFUND (Ne.symm hS.s2) (by decide)
    have hgF : g.balance FEEPOOL = w.ledger.balance FEEPOOL := hmva.bother FEEPOOL (Ne.symm hS.s3) (by decide)
    have hI : w.ledger.balance IFUND + sp ≤ U128.MAX ∨ sp = 0 := by
      have : g.balance IFUND + sp ≤ U128.MAX ∨ sp = 0 := hIn
      rw [hgI] at this; exact this
    have hF : w.ledger.balance FEEPOOL + tl ≤ U128.MAX ∨ tl = 0 := by
      have : g.balance FEEPOOL + tl ≤ U128.MAX ∨ tl = 0 := hFnr
      rw [hgF] at this; exact this
    -- the second reply
    have hspec2 := fun q b A r => upr2_spec' q (e2base { w.engine with tmpSwap := some (revTmp v s side m l N pn) } env (revTmp v s side m l N pn) st (swOut o) mtv0 0 R)
      env (swIn o2) (swOut o2) (swap2 (revTmp v s side m l N pn) (swOut o) mtv0) b A R rfl rfl r
    obtain ⟨st2, xx, sm, mtv, nn, rm, ns, ratio, hst2, hcm, hcd, hmtv, hnn, hrm2, hns, hcap, hratio, hreq, hcase2⟩ :=
      (hspec2 _ true X _).1 hr2n
    have hcfg : x'.cfg = x.cfg := (MirrorP.swapOutput_net _ _ _ _ _ _ _ _ hsw).2.1
    have hfee' : ({ w with env := env, log := [] } : World).q.calcFee v N = .ok (tl, sp) := by
      have := calcFee_setVamm ({ cwW w with env := env, log := [] } : World) v x x' hvx hcfg v N
      exact this.symm.trans hfee
    have hvals : netsVals ({ w with env := env, log := [] } : World).q w.engine env s v side m l (swOut o)
        = .ok ((tl, sp), sm, mtv0) := by
      unfold netsVals
      simp only [bind_ok_iff, pure_ok_iff]
      exact ⟨ml, hml, N, hN, pn, hpn, rm0, hrm, (tl, sp), hfee', xx, hcm, sm, hcd, pm, hpm, mtv0, hmtv0, rfl⟩
    refine ⟨swOut o, (tl, sp), sm, mtv0, R, mtv, hout, hvals, hRq, hmtv, ?_⟩
    rcases hcase2 with ⟨hlt, _, _, _, hA, _⟩ | ⟨hlt, hA, _⟩
    · rw [if_pos hlt]
      exact hA rfl
    · rw [if_neg (by rw [hlt]; decide)]
      exact (hA rfl).1


/-- **`NetsOK` is necessary**: if the cw20 run of a re-opening reversal succeeds and the native run given exactly the
    pulled amount succeeds too, the netting condition holds -/
theorem reopen_exact (w : World) (env : Env) (s v : Nat) (side : Side) (m l b : Nat)
    (hrev : ReverseQ ({ w with env := env, log := [] } : World).q w.engine env s v side m l)
    (hre : ∀ out, RevOut w env s v side out → ReopenQ w.engine m l out)
    (hS : Setup w s) (wc' wn' : World)
    (hc : applyTx (cwW w) env s ⟨0, false⟩ (openTx v side m l b) = .ok wc')
    (hn : applyTx (natW w) env s ⟨pulledBy wc'.log s, false⟩ (openTx v side m l b) = .ok wn') :
    ∀ out, RevOut w env s v side out →
      NetsOKQ ({ w with env := env, log := [] } : World).q w.engine env s v side m l out := by
  obtain ⟨out1, fee1, sm1, mtv01, R1, mtv1, ho1, hv1, hR1, hm1, hp⟩ := cw_reopen_inv w env s v side m l b hrev hre hS wc' hc
  obtain ⟨out2, fee2, sm2, mtv02, R2, mtv2, ho2, hv2, hR2, hm2, hx⟩ :=
    nat_reopen_inv w env s v side m l b hrev hre hS _ wn' hn
  have huniq : ∀ a c, RevOut w env s v side a → RevOut w env s v side c → a = c := by
    intro a c h1 h2
    have e1 := (revOut_iff _ _ _ _ _ _).1 h1
    have e2 := (revOut_iff _ _ _ _ _ _).1 h2
    rw [e1] at e2
    injection e2
  have := huniq _ _ ho2 ho1
  subst this
  rw [hv1] at hv2
  injection hv2 with hv2
  injection hv2 with k1 hv2
  injection hv2 with k2 k3
  subst k1 k2 k3
  rw [hR1] at hR2
  injection hR2 with hR2
  subst hR2
  rw [hm1] at hm2
  injection hm2 with hm2
  subst hm2
  intro out ho
  have := huniq _ _ ho ho1
  subst this
  rw [netsOKQ_iff_vals _ _ _ _ _ _ _ _ _ _ _ _ hv1]
  refine (nets_iff fee1.2 fee1.1 sm1 mtv01 mtv1 R1 hR1 hm1).2 ⟨fun hlt => ?_, fun hlt hgt => ?_, fun hlt hgt => ?_⟩
  · simp only [pullAmt, hlt, ↓reduceIte] at hp hx
    omega
  · simp only [pullAmt, legDelta, hlt, hgt, Bool.false_eq_true, ↓reduceIte] at hp hx
    omega
  · simp only [pullAmt, legDelta, hlt, hgt, Bool.false_eq_true, ↓reduceIte] at hp hx
    omega

open SatG (nat cw) in
/-- **`NetsOK` is exact**: for a re-opening reversal whose cw20 run succeeds, the native run given exactly the pulled
    amount succeeds IF AND ONLY IF the netting condition holds (and then the two final worlds agree,
    `twin_open_reverse_reopen`) -/
theorem netsOK_exact (w : World) (env : Env) (s v : Nat) (side : Side) (m l b : Nat)
    (hrev : ReverseQ ({ w with env := env, log := [] } : World).q w.engine env s v side m l)
    (hre : ∀ out, RevOut w env s v side out → ReopenQ w.engine m l out)
    (hS : Setup w s) (hk : Dispatch.KeysNodup w.ledger) (ht : Dispatch.total w.ledger ≤ U128.MAX)
    (wc : World) (hc : applyTx (cw w) env s ⟨0, false⟩ (.engine (.openPosition v side m l b)) = .ok wc) :
    (∃ wn, applyTx (nat w) env s ⟨pulledBy wc.log s, false⟩ (.engine (.openPosition v side m l b)) = .ok wn)
      ↔ (∀ out, RevOut w env s v side out →
          NetsOKQ ({ w with env := env, log := [] } : World).q w.engine env s v side m l out) := by
  constructor
  · rintro ⟨wn, hn⟩
    exact reopen_exact w env s v side m l b hrev hre hS wc wn hc hn
  · intro hnet
    obtain ⟨wn, hn, _⟩ := (twin_open_reverse_reopen w env s v side m l b hrev hre hnet hS hk ht).1 wc hc
    exact ⟨wn, hn⟩


/-! ### non-vacuity and sharpness: concrete worlds (kernel-evaluated)

  `w1` (from `SatGReduce.Witness`): one vAMM (1000 / 1000 reserves, toll 0.1 %, spread 0.2 %), trader 101 long
  90.909090 base bought for 100 quote on margin 50 (leverage 2) in block 5, vault 50, fund 5000.2, trader's wallet
  949.7, allowance 449.7.  Closing the long pays 99.999999.  All orders below are SELL orders of trader 101 in block 7. -/

namespace Witness
open SatGReduce.Witness (w1 env7 D okLog pulled setup_w)

def errOf (r : Except Err World) : Option Err := match r with | .ok _ => none | .error e => some e

/-- sell 100 quote (margin 50, leverage 2): closes the long, `|100 − 99.999999| / 2 = 0` → close-only -/
def coTx : Tx := .engine (.openPosition 10 .sell (50 * D) (2 * D) 0)
/-- sell 150 quote (margin 75, leverage 2): closes the long and opens a short of 50.000001 on margin 25 -/
def reTx : Tx := .engine (.openPosition 10 .sell (75 * D) (2 * D) 0)
/-- sell 300 quote (margin 150, leverage 2): closes the long and opens a short of 200.000001 on margin 100 -/
def badTx : Tx := .engine (.openPosition 10 .sell (150 * D) (2 * D) 0)

theorem w1_base : Setup w1 101 ∧ Dispatch.KeysNodup w1.ledger ∧ Dispatch.total w1.ledger ≤ U128.MAX :=
  ⟨SatGReduce.Witness.reduce_nonvacuous.2.1, SatGReduce.Witness.reduce_nonvacuous.2.2.1,
   SatGReduce.Witness.reduce_nonvacuous.2.2.2.1⟩

set_option maxRecDepth 100000 in
theorem w1_out : revOutF w1 env7 101 10 .sell = some 99999999 := by decide +kernel

theorem w1_out_unique (out : Nat) (h : RevOut w1 env7 101 10 .sell out) : out = 99999999 := by
  have := (revOut_iff _ _ _ _ _ _).1 h
  rw [w1_out] at this
  injection this with this
  exact this.symm

set_option maxRecDepth 100000 in
/-- **non-vacuity of `twin_open_reverse_closeonly`**: on `w1`, trader 101 selling 100 quote: the hypotheses hold and the
    cw20 run succeeds — fees 0.2 + 0.1 pulled from the trader, the old equity 49.999999 paid out -/
theorem closeonly_nonvacuous :
    ReverseQ ({ w1 with env := env7, log := [] } : World).q w1.engine env7 101 10 .sell (50 * D) (2 * D)
    ∧ (∀ out, RevOut w1 env7 101 10 .sell out → CloseOnlyQ w1.engine (50 * D) (2 * D) out)
    ∧ Setup w1 101 ∧ Dispatch.KeysNodup w1.ledger ∧ Dispatch.total w1.ledger ≤ U128.MAX
    ∧ okLog (applyTx (cw w1) env7 101 ⟨0, false⟩ coTx)
        = some [(101, IFUND, 200000), (101, FEEPOOL, 100000), (ENGINE, 101, 49999999)]
    ∧ pulled (applyTx (cw w1) env7 101 ⟨0, false⟩ coTx) 101 = some 300000 :=
  ⟨reverseQ_of_reverseB _ _ _ _ _ _ _ _ (by decide +kernel),
   fun out h => by
     rw [w1_out_unique out h]
     exact closeOnlyQ_of_lev _ _ _ _ (by decide +kernel),
   w1_base.1, w1_base.2.1, w1_base.2.2, by decide +kernel, by decide +kernel⟩

/-- the theorem applied: the native run given exactly the pulled fees succeeds and agrees -/
theorem closeonly_applied : ∃ wc wn, applyTx (cw w1) env7 101 ⟨0, false⟩ coTx = .ok wc
    ∧ applyTx (nat w1) env7 101 ⟨pulledBy wc.log 101, false⟩ coTx = .ok wn ∧ Agree wn wc := by
  obtain ⟨hq, hco, hS, hk, ht, hlog, _⟩ := closeonly_nonvacuous
  cases hc : applyTx (cw w1) env7 101 ⟨0, false⟩ coTx with
  | error e => rw [hc] at hlog; cases hlog
  | ok wc =>
    obtain ⟨wn, hn, hag, _⟩ := (twin_open_reverse_closeonly w1 env7 101 10 .sell (50 * D) (2 * D) 0 hq hco hS hk ht).1 wc hc
    exact ⟨wc, wn, rfl, hn, hag⟩

set_option maxRecDepth 100000 in
/-- **non-vacuity of `twin_open_reverse_reopen`** (third disjunct of `NetsOK`: the old equity 49.999999 covers both the
    fees 0.45 and the new margin 25.000000): the hypotheses hold and the cw20 run succeeds — fees 0.3 + 0.15 pulled,
    the rest of the old equity, 24.999999, paid out -/
theorem reopen_nonvacuous :
    ReverseQ ({ w1 with env := env7, log := [] } : World).q w1.engine env7 101 10 .sell (75 * D) (2 * D)
    ∧ (∀ out, RevOut w1 env7 101 10 .sell out → ReopenQ w1.engine (75 * D) (2 * D) out)
    ∧ (∀ out, RevOut w1 env7 101 10 .sell out →
        NetsOKQ ({ w1 with env := env7, log := [] } : World).q w1.engine env7 101 10 .sell (75 * D) (2 * D) out)
    ∧ Setup w1 101 ∧ Dispatch.KeysNodup w1.ledger ∧ Dispatch.total w1.ledger ≤ U128.MAX
    ∧ okLog (applyTx (cw w1) env7 101 ⟨0, false⟩ reTx)
        = some [(101, IFUND, 300000), (101, FEEPOOL, 150000), (ENGINE, 101, 24999999)]
    ∧ pulled (applyTx (cw w1) env7 101 ⟨0, false⟩ reTx) 101 = some 450000 :=
  ⟨reverseQ_of_reverseB _ _ _ _ _ _ _ _ (by decide +kernel),
   fun out h => by
     rw [w1_out_unique out h]
     exact reopenQ_of_lev _ _ _ _ 24 (by decide +kernel),
   fun out h => by
     rw [w1_out_unique out h]
     exact (netsOKQ_iff_vals _ _ _ _ _ _ _ _ _ (150000, 300000) 25000000 ⟨49999999, true⟩ (by decide +kernel)).2
       (by decide),
   w1_base.1, w1_base.2.1, w1_base.2.2, by decide +kernel, by decide +kernel⟩

theorem reopen_applied : ∃ wc wn, applyTx (cw w1) env7 101 ⟨0, false⟩ reTx = .ok wc
    ∧ applyTx (nat w1) env7 101 ⟨pulledBy wc.log 101, false⟩ reTx = .ok wn ∧ Agree wn wc := by
  obtain ⟨hq, hre, hnet, hS, hk, ht, hlog, _⟩ := reopen_nonvacuous
  cases hc : applyTx (cw w1) env7 101 ⟨0, false⟩ reTx with
  | error e => rw [hc] at hlog; cases hlog
  | ok wc =>
    obtain ⟨wn, hn, hag, _⟩ :=
      (twin_open_reverse_reopen w1 env7 101 10 .sell (75 * D) (2 * D) 0 hq hre hnet hS hk ht).1 wc hc
    exact ⟨wc, wn, rfl, hn, hag⟩


/-! #### a vault shortfall on the re-opening path does NOT separate the deployments (contrast F10b) -/

/-- `w1` with only 10 in the vault (the payout of the netted equity is 24.999999) -/
def w1s : World :=
  { w1 with ledger := { w1.ledger with bal := [(FEEPOOL, 100000), (101, 949700000), (IFUND, 5000200000), (ENGINE, 10000000)] } }

set_option maxRecDepth 100000 in
theorem w1s_out : revOutF w1s env7 101 10 .sell = some 99999999 := by decide +kernel

theorem w1s_out_unique (out : Nat) (h : RevOut w1s env7 101 10 .sell out) : out = 99999999 := by
  have := (revOut_iff _ _ _ _ _ _).1 h
  rw [w1s_out] at this
  injection this with this
  exact this.symm

set_option maxRecDepth 100000 in
/-- the hypotheses of `twin_open_reverse_reopen` hold on `w1s`; the cw20 run draws the shortfall 14.999999 from the
    insurance fund, and so does the native run given the pulled fees (the attached fee coins have left the vault
    before `withdraw` looks at its balance) -/
theorem reopen_shortfall_nonvacuous :
    ReverseQ ({ w1s with env := env7, log := [] } : World).q w1s.engine env7 101 10 .sell (75 * D) (2 * D)
    ∧ (∀ out, RevOut w1s env7 101 10 .sell out → ReopenQ w1s.engine (75 * D) (2 * D) out)
    ∧ (∀ out, RevOut w1s env7 101 10 .sell out →
        NetsOKQ ({ w1s with env := env7, log := [] } : World).q w1s.engine env7 101 10 .sell (75 * D) (2 * D) out)
    ∧ Setup w1s 101 ∧ Dispatch.KeysNodup w1s.ledger ∧ Dispatch.total w1s.ledger ≤ U128.MAX
    ∧ okLog (applyTx (cw w1s) env7 101 ⟨0, false⟩ reTx)
        = some [(101, IFUND, 300000), (101, FEEPOOL, 150000), (IFUND, ENGINE, 14999999), (ENGINE, 101, 24999999)]
    ∧ okLog (applyTx (nat w1s) env7 101 ⟨450000, false⟩ reTx)
        = some [(101, ENGINE, 450000), (ENGINE, IFUND, 300000), (ENGINE, FEEPOOL, 150000),
                (IFUND, ENGINE, 14999999), (ENGINE, 101, 24999999)] :=
  ⟨reverseQ_of_reverseB _ _ _ _ _ _ _ _ (by decide +kernel),
   fun out h => by
     rw [w1s_out_unique out h]
     exact reopenQ_of_lev _ _ _ _ 24 (by decide +kernel),
   fun out h => by
     rw [w1s_out_unique out h]
     exact (netsOKQ_iff_vals _ _ _ _ _ _ _ _ _ (150000, 300000) 25000000 ⟨49999999, true⟩ (by decide +kernel)).2
       (by decide),
   setup_w _ _ (by decide +kernel) (by decide +kernel) (by decide) (by decide) (by decide),
   by unfold Dispatch.KeysNodup; decide +kernel, by decide +kernel, by decide +kernel, by decide +kernel⟩


/-! #### the close-only path on the world shapes of F10b / F10c / F10c′: the deployments fail alike

  On the whole-close path the three shapes separate the deployments (`SatGWitness`).  On the close-only reversal they do
  not — as `twin_open_reverse_closeonly` (which has no extra premise) says: the equity is paid with a plain transfer
  after the fee transfers, so a short vault, a missing allowance or an empty wallet fail BOTH runs. -/

/-- `w1` without an allowance -/
def w1a : World := { w1 with ledger := { w1.ledger with allow := [] } }
/-- `w1` with an empty wallet -/
def w1e : World :=
  { w1 with ledger := { w1.ledger with bal := [(FEEPOOL, 100000), (101, 0), (IFUND, 5000200000), (ENGINE, 50000000)] } }

set_option maxRecDepth 100000 in
theorem closeonly_fails_alike :
    -- F10b shape (vault 10 < payout 49.999999): no insurance-fund draw on this path, both fail
    errOf (applyTx (cw w1s) env7 101 ⟨0, false⟩ coTx) = some (.subcall 9)
    ∧ errOf (applyTx (nat w1s) env7 101 ⟨300000, false⟩ coTx) = some (.subcall 9)
    -- F10c shape (no allowance): cw20 cannot pull the fee; native (only 0 ≤ allowance attachable) is told the fee is missing
    ∧ errOf (applyTx (cw w1a) env7 101 ⟨0, false⟩ coTx) = some (.subcall 9)
    ∧ errOf (applyTx (nat w1a) env7 101 ⟨0, false⟩ coTx) = some (.guard 70)
    -- F10c′ shape (empty wallet): the fee is taken BEFORE the payout on cw20 too, both fail
    ∧ errOf (applyTx (cw w1e) env7 101 ⟨0, false⟩ coTx) = some (.subcall 9)
    ∧ errOf (applyTx (nat w1e) env7 101 ⟨300000, false⟩ coTx) = some .overflow := by
  decide +kernel

/-! #### sharpness of `NetsOK` -/

set_option maxRecDepth 100000 in
/-- **`NetsOK` cannot be dropped (1)**: on `w1`, selling 300 quote — `ReverseQ` and `ReopenQ` hold, `NetsOKQ` FAILS (old
    equity 49.999999 ≥ fees 0.9 but < new margin 100.000000), the cw20 run succeeds pulling 50.900001 (fees + new
    margin − old equity), and the native run given exactly that amount is rejected (guard 70, "sent funds are
    insufficient": it requires 100.9 — the fees and the WHOLE new margin) -/
theorem reopen_needs_NetsOK :
    ReverseQ ({ w1 with env := env7, log := [] } : World).q w1.engine env7 101 10 .sell (150 * D) (2 * D)
    ∧ (∀ out, RevOut w1 env7 101 10 .sell out → ReopenQ w1.engine (150 * D) (2 * D) out)
    ∧ (∀ out, RevOut w1 env7 101 10 .sell out →
        ¬ NetsOKQ ({ w1 with env := env7, log := [] } : World).q w1.engine env7 101 10 .sell (150 * D) (2 * D) out)
    ∧ okLog (applyTx (cw w1) env7 101 ⟨0, false⟩ badTx)
        = some [(101, IFUND, 600000), (101, FEEPOOL, 300000), (101, ENGINE, 50000001)]
    ∧ pulled (applyTx (cw w1) env7 101 ⟨0, false⟩ badTx) 101 = some 50900001
    ∧ errOf (applyTx (nat w1) env7 101 ⟨50900001, false⟩ badTx) = some (.guard 70) :=
  ⟨reverseQ_of_reverseB _ _ _ _ _ _ _ _ (by decide +kernel),
   fun out h => by
     rw [w1_out_unique out h]
     exact reopenQ_of_lev _ _ _ _ 99 (by decide +kernel),
   fun out h => by
     rw [w1_out_unique out h]
     intro hq
     exact absurd ((netsOKQ_iff_vals _ _ _ _ _ _ _ _ _ (300000, 600000) 100000000 ⟨49999999, true⟩
       (by decide +kernel)).1 hq) (by decide),
   by decide +kernel, by decide +kernel, by decide +kernel⟩

/-- the world of `SatGWitness.F10a_reverse_diverges` -/
def wF : World := SatGWitness.wA (100 * D) (100 * D) (100 * D)

set_option maxRecDepth 100000 in
theorem wF_out : revOutF wF SatGWitness.envA 101 10 .sell = some 9900990 := by decide +kernel

theorem wF_out_unique (out : Nat) (h : RevOut wF SatGWitness.envA 101 10 .sell out) : out = 9900990 := by
  have := (revOut_iff _ _ _ _ _ _).1 h
  rw [wF_out] at this
  injection this with this
  exact this.symm

set_option maxRecDepth 100000 in
/-- **`NetsOK` cannot be dropped (2)**: the known divergence F10a is a violation of `NetsOK` — old equity 4.90099 ≥ fees
    0.09 but < new margin 6.69967 -/
theorem F10a_violates_NetsOK :
    ReverseQ ({ wF with env := SatGWitness.envA, log := [] } : World).q wF.engine SatGWitness.envA 101 10 .sell (10 * D) (3 * D)
    ∧ (∀ out, RevOut wF SatGWitness.envA 101 10 .sell out → ReopenQ wF.engine (10 * D) (3 * D) out)
    ∧ (∀ out, RevOut wF SatGWitness.envA 101 10 .sell out →
        ¬ NetsOKQ ({ wF with env := SatGWitness.envA, log := [] } : World).q wF.engine SatGWitness.envA 101 10 .sell
            (10 * D) (3 * D) out) :=
  ⟨reverseQ_of_reverseB _ _ _ _ _ _ _ _ (by decide +kernel),
   fun out h => by
     rw [wF_out_unique out h]
     exact reopenQ_of_lev _ _ _ _ 5 (by decide +kernel),
   fun out h => by
     rw [wF_out_unique out h]
     intro hq
     exact absurd ((netsOKQ_iff_vals _ _ _ _ _ _ _ _ _ (30000, 60000) 6699670 ⟨4900990, true⟩
       (by decide +kernel)).1 hq) (by decide)⟩

/-! #### the other two disjuncts of `NetsOK` are inhabited too -/

/-- the F10a world with the long held on `margin` instead of 5 (closing it realises a loss of 0.09901) -/
def wB (margin : Nat) : World :=
  { wF with engine := { SatGWitness.eA with
      positions := [⟨10, 101, .addToAmm, ⟨10 * D, false⟩, margin, 10 * D, Integer.zero, 5⟩] } }

def wB1 : World := wB 120000
def wB2 : World := wB 50000

set_option maxRecDepth 100000 in
theorem wB1_out : revOutF wB1 SatGWitness.envA 101 10 .sell = some 9900990 := by decide +kernel
set_option maxRecDepth 100000 in
theorem wB2_out : revOutF wB2 SatGWitness.envA 101 10 .sell = some 9900990 := by decide +kernel

theorem wB1_out_unique (out : Nat) (h : RevOut wB1 SatGWitness.envA 101 10 .sell out) : out = 9900990 := by
  have := (revOut_iff _ _ _ _ _ _).1 h
  rw [wB1_out] at this
  injection this with this
  exact this.symm

theorem wB2_out_unique (out : Nat) (h : RevOut wB2 SatGWitness.envA 101 10 .sell out) : out = 9900990 := by
  have := (revOut_iff _ _ _ _ _ _).1 h
  rw [wB2_out] at this
  injection this with this
  exact this.symm

set_option maxRecDepth 100000 in
/-- second disjunct: margin 0.12 → old equity 0.02099 < fees 0.09 and < new margin 6.69967; both deployments take
    fees + new margin − old equity = 6.76868 -/
theorem reopen_nonvacuous_small_equity :
    ReverseQ ({ wB1 with env := SatGWitness.envA, log := [] } : World).q wB1.engine SatGWitness.envA 101 10
        .sell (10 * D) (3 * D)
    ∧ (∀ out, RevOut wB1 SatGWitness.envA 101 10 .sell out → ReopenQ wB1.engine (10 * D) (3 * D) out)
    ∧ (∀ out, RevOut wB1 SatGWitness.envA 101 10 .sell out →
        NetsOKQ ({ wB1 with env := SatGWitness.envA, log := [] } : World).q wB1.engine SatGWitness.envA
          101 10 .sell (10 * D) (3 * D) out)
    ∧ Setup wB1 101 ∧ Dispatch.KeysNodup wB1.ledger ∧ Dispatch.total wB1.ledger ≤ U128.MAX
    ∧ okLog (applyTx (cw wB1) SatGWitness.envA 101 ⟨0, false⟩ SatGWitness.revTx)
        = some [(101, IFUND, 60000), (101, FEEPOOL, 30000), (101, ENGINE, 6678680)]
    ∧ okLog (applyTx (nat wB1) SatGWitness.envA 101 ⟨6768680, false⟩ SatGWitness.revTx)
        = some [(101, ENGINE, 6768680), (ENGINE, IFUND, 60000), (ENGINE, FEEPOOL, 30000)] :=
  ⟨reverseQ_of_reverseB _ _ _ _ _ _ _ _ (by decide +kernel),
   fun out h => by
     rw [wB1_out_unique out h]
     exact reopenQ_of_lev _ _ _ _ 5 (by decide +kernel),
   fun out h => by
     rw [wB1_out_unique out h]
     exact (netsOKQ_iff_vals _ _ _ _ _ _ _ _ _ (30000, 60000) 6699670 ⟨20990, true⟩ (by decide +kernel)).2 (by decide),
   setup_w _ _ (by decide +kernel) (by decide +kernel) (by decide) (by decide) (by decide),
   by unfold Dispatch.KeysNodup; decide +kernel, by decide +kernel, by decide +kernel, by decide +kernel⟩

set_option maxRecDepth 100000 in
/-- first disjunct: margin 0.05 → old equity −0.04901 (not positive); both deployments take fees + new margin + the
    debt = 6.83868 -/
theorem reopen_nonvacuous_negative_equity :
    ReverseQ ({ wB2 with env := SatGWitness.envA, log := [] } : World).q wB2.engine SatGWitness.envA 101 10
        .sell (10 * D) (3 * D)
    ∧ (∀ out, RevOut wB2 SatGWitness.envA 101 10 .sell out → ReopenQ wB2.engine (10 * D) (3 * D) out)
    ∧ (∀ out, RevOut wB2 SatGWitness.envA 101 10 .sell out →
        NetsOKQ ({ wB2 with env := SatGWitness.envA, log := [] } : World).q wB2.engine SatGWitness.envA
          101 10 .sell (10 * D) (3 * D) out)
    ∧ Setup wB2 101 ∧ Dispatch.KeysNodup wB2.ledger ∧ Dispatch.total wB2.ledger ≤ U128.MAX
    ∧ okLog (applyTx (cw wB2) SatGWitness.envA 101 ⟨0, false⟩ SatGWitness.revTx)
        = some [(101, IFUND, 60000), (101, FEEPOOL, 30000), (101, ENGINE, 6748680)]
    ∧ okLog (applyTx (nat wB2) SatGWitness.envA 101 ⟨6838680, false⟩ SatGWitness.revTx)
        = some [(101, ENGINE, 6838680), (ENGINE, IFUND, 60000), (ENGINE, FEEPOOL, 30000)] :=
  ⟨reverseQ_of_reverseB _ _ _ _ _ _ _ _ (by decide +kernel),
   fun out h => by
     rw [wB2_out_unique out h]
     exact reopenQ_of_lev _ _ _ _ 5 (by decide +kernel),
   fun out h => by
     rw [wB2_out_unique out h]
     exact (netsOKQ_iff_vals _ _ _ _ _ _ _ _ _ (30000, 60000) 6699670 ⟨49010, false⟩ (by decide +kernel)).2 (by decide),
   setup_w _ _ (by decide +kernel) (by decide +kernel) (by decide) (by decide) (by decide),
   by unfold Dispatch.KeysNodup; decide +kernel, by decide +kernel, by decide +kernel, by decide +kernel⟩

end Witness
end Perp.Props.SatGReverse
