/-
  G9 — world-level theorems for C16 (restriction marker: who sets it, who keeps it) and C03
  (second sentence: a transaction moves collateral only between its sender, the engine, the
  insurance fund and the fee pool).  STATEMENTS ARE FIXED.
  
-/
import Perp.Model.World
import Perp.Lemmas.Basic
import Perp.Props.Dispatch
import Perp.Props.EngineGuards
import Perp.Props.EngineMoney
import Perp.Props.WorldInv
import Perp.Props.G9Restr
import Perp.Props.G9Perm

namespace Perp.Props.WorldMore
open Perp Perp.World Perp.Engine

/-! ### C16: the restriction marker -/

def restr (e : E) (v : Nat) : Nat := (readVammMap e v).lastRestriction

/-- only the two liquidation replies write the marker; every other reply keeps it for every vAMM -/
theorem replyOk_restr_frame (q : Q) (e e' : E) (env : Env) (id : Nat) (ev : Ev) (subs : List SubMsg)
    (h : replyOk q e env id ev = .ok (e', subs)) (h6 : id ≠ REPLY_LIQUIDATION) (h7 : id ≠ REPLY_PARTIAL_LIQUIDATION) :
    ∀ v, restr e' v = restr e v := by
  exact G9Restr.replyOk_restr q e e' env id ev subs h h6 h7

/-- no `execute` handler writes the marker -/
theorem execute_restr_frame (q : Q) (e e' : E) (env : Env) (s : Nat) (f : Funds) (m : ExecMsg) (subs : List SubMsg)
    (h : execute q e env s f m = .ok (e', subs)) : ∀ v, restr e' v = restr e v := by
  intro v
  unfold restr
  rw [G9Restr.readVammMap_same (G9Restr.execute_vm q e e' env s f m subs h)]

/-- a liquidation reply sets the marker of its own vAMM to the current block and keeps the others -/
theorem liquidation_reply_restr (q : Q) (e e' : E) (env : Env) (id : Nat) (ev : Ev) (subs : List SubMsg) (sw : TmpSwap)
    (hs : e.tmpSwap = some sw) (hid : id = REPLY_LIQUIDATION ∨ id = REPLY_PARTIAL_LIQUIDATION)
    (h : replyOk q e env id ev = .ok (e', subs)) :
    restr e' sw.vamm = env.height ∧ ∀ v, v ≠ sw.vamm → restr e' v = restr e v := by
  obtain ⟨h1, h2, _⟩ := G9Restr.liquidation_reply q e e' env id ev subs sw hs hid h
  refine ⟨h1, fun v hv => ?_⟩
  unfold restr
  rw [h2 v hv]

/-- a transaction that is not a Liquidate keeps every marker (so a marker set earlier in a block
    survives whatever else happens in that block, e.g. a PayFunding) -/
theorem nonliquidation_keeps_restr (w w' : World) (env : Env) (s : Nat) (f : Funds) (tx : Tx)
    (hinv : WorldInv.NoResidue w.engine) (hnl : ∀ v t l, tx ≠ .engine (.liquidate v t l))
    (h : applyTx w env s f tx = .ok w') : ∀ v, restr w'.engine v = restr w.engine v := by
  by_cases hne : ∃ m, tx = .engine m
  · obtain ⟨m, rfl⟩ := hne
    obtain ⟨w1, e1, subs, a1, _, _, _, _, _, hex, hrun⟩ := WorldInv.applyTx_engine_inv w w' env s f m h
    have hnl' : ∀ v t l, m ≠ .liquidate v t l := fun v t l hm => hnl v t l (by rw [hm])
    have hl : e1.tmpLiq = none := by
      rw [G9Restr.execute_tmpLiq _ _ _ _ _ _ _ _ hnl' hex, a1]; exact hinv.2.2
    have hvm := G9Restr.execute_vm _ _ _ _ _ _ _ _ hex
    obtain ⟨_, hr⟩ := G9Restr.execSubs_noLiq _ _ _ _ hrun hl
    intro v
    unfold restr
    rw [hr v]
    show (readVammMap e1 v).lastRestriction = _
    rw [G9Restr.readVammMap_same hvm, a1]
  · rw [WorldInv.applyTx_nonengine_frame w w' env s f tx (fun m hm => hne ⟨m, hm⟩) h]
    intro v; rfl

/-- a successful Liquidate sets the marker of its vAMM to the block it ran in -/
theorem liquidation_sets_restr (w w' : World) (env : Env) (s : Nat) (f : Funds) (v t l : Nat)
    (hinv : WorldInv.NoResidue w.engine)
    (h : applyTx w env s f (.engine (.liquidate v t l)) = .ok w') : restr w'.engine v = env.height := by
  have _hinv := hinv
  obtain ⟨w1, e1, subs, a1, a2, _, _, _, _, hex, hrun⟩ :=
    WorldInv.applyTx_engine_inv w w' env s f (.liquidate v t l) h
  have hex' : liquidate w1.q w1.engine env s v t l = .ok (e1, subs) := hex
  obtain ⟨_, ⟨tmp, hsw, hv⟩⟩ := G9Restr.liquidate_vm _ _ _ _ _ _ _ _ hex'
  obtain ⟨_, _, _, _, mm, h5, h6, h7⟩ := WorldInv.liquidate_frame _ _ _ _ _ _ _ _ hex'
  dsimp only at hsw h5
  subst h5
  have hF : FUEL = 39 + 1 := rfl
  rw [hF] at hrun
  obtain ⟨w2, ev, hx, hyes, _⟩ := Dispatch.execSubs_cons_ok 39 _ w' ENGINE mm [] hrun
  obtain ⟨f1, f2, _⟩ := (Dispatch.execMsg_engine_frame 39).1 _ _ _ _ _ hx
  obtain ⟨_, e2, subs2, w3, hrep, hs2, hrest⟩ := hyes (Or.inl h6)
  rw [WorldInv.execSubs_nil _ _ _ _ hrest]
  have hsw2 : w2.engine.tmpSwap = some tmp := by rw [f1]; exact hsw
  obtain ⟨r1, _, r3⟩ := G9Restr.liquidation_reply _ _ _ _ _ _ _ tmp hsw2 h7 hrep
  obtain ⟨_, hr⟩ := G9Restr.execSubs_noLiq _ _ _ _ hs2 r3
  unfold restr
  rw [hr v]
  show (readVammMap e2 v).lastRestriction = _
  rw [← hv, r1, f2]
  exact congrArg Env.height a2

/-- C16 assembled: after a successful liquidation on `v` in block `b`, any number of non-liquidation
    transactions later in block `b`, a sender whose position on `v` carries block stamp `b` can
    neither open nor close (both transactions are rejected) -/
theorem restricted_after_liquidation (w0 w1 : World) (env0 : Env) (s0 : Nat) (f0 : Funds) (v t l : Nat)
    (hinv : WorldInv.NoResidue w0.engine)
    (hliq : applyTx w0 env0 s0 f0 (.engine (.liquidate v t l)) = .ok w1)
    (txs : List (Env × Nat × Funds × Tx))
    (hsame : ∀ x ∈ txs, x.1.height = env0.height)
    (hnl : ∀ x ∈ txs, ∀ v' t' l', x.2.2.2 ≠ .engine (.liquidate v' t' l'))
    (env : Env) (henv : env.height = env0.height) (s : Nat) (f : Funds) (side : Side) (m lev b lim : Nat) :
    let w := txs.foldl (fun w x => step w x.1 x.2.1 x.2.2.1 x.2.2.2) w1
    (readPosition w.engine v s).block = env.height →
      WorldInv.isErr (applyTx w env s f (.engine (.openPosition v side m lev b)))
      ∧ WorldInv.isErr (applyTx w env s f (.engine (.closePosition v lim))) := by
  have _hsame := hsame  -- (the marker survives whatever the later blocks' heights are)
  have hinv1 := WorldInv.noResidue_step w0 w1 env0 s0 f0 _ hinv hliq
  have hr1 := liquidation_sets_restr w0 w1 env0 s0 f0 v t l hinv hliq
  have key : ∀ (txs : List (Env × Nat × Funds × Tx)) (w1 : World),
      WorldInv.NoResidue w1.engine → restr w1.engine v = env0.height →
      (∀ x ∈ txs, ∀ v' t' l', x.2.2.2 ≠ .engine (.liquidate v' t' l')) →
      restr (txs.foldl (fun w x => step w x.1 x.2.1 x.2.2.1 x.2.2.2) w1).engine v = env0.height := by
    intro txs
    induction txs with
    | nil => intro w1 _ hr _; exact hr
    | cons x txs ih =>
      intro w1 hn hr hnl
      rw [List.foldl_cons]
      apply ih
      · exact WorldInv.noResidue_run w1 x.1 x.2.1 x.2.2.1 x.2.2.2 hn
      · unfold step
        split
        · rename_i w' happ
          rw [nonliquidation_keeps_restr w1 w' x.1 x.2.1 x.2.2.1 x.2.2.2 hn
            (hnl x List.mem_cons_self) happ v]
          exact hr
        · exact hr
      · exact fun y hy => hnl y (List.mem_cons_of_mem _ hy)
  intro w hpos
  have hr : restr w.engine v = env.height := by rw [henv]; exact key txs w1 hinv1 hr1 hnl
  exact ⟨(WorldInv.restricted_tx_rejected w env s f v side m lev b ⟨hr, hpos⟩).1,
    (WorldInv.restricted_tx_rejected w env s f v side m lim b ⟨hr, hpos⟩).2⟩

/-! ### C03, second sentence -/

/-- the accounts an engine transaction may move collateral between -/
def permitted (w : World) (s : Nat) (a : Nat) : Prop :=
  a = s ∨ a = ENGINE ∨ a = IFUND ∨ a = w.engine.cfg.insuranceFund ∨ a = w.engine.cfg.feePool

/-- every transfer executed by an engine transaction has both endpoints in the permitted set -/
theorem engine_tx_log_permitted (w w' : World) (env : Env) (s : Nat) (f : Funds) (m : ExecMsg)
    (hinv : WorldInv.NoResidue w.engine) (hcfg : ∀ u, m ≠ .updateConfig u)
    (h : applyTx w env s f (.engine m) = .ok w') :
    ∀ x ∈ w'.log, permitted w s x.1 ∧ permitted w s x.2.1 := by
  exact (G9Perm.engine_tx_WP w w' env s f m hinv hcfg h).1

/-- hence no other account's balance changes -/
theorem engine_tx_balances_frame (w w' : World) (env : Env) (s : Nat) (f : Funds) (m : ExecMsg)
    (hinv : WorldInv.NoResidue w.engine) (hcfg : ∀ u, m ≠ .updateConfig u)
    (h : applyTx w env s f (.engine m) = .ok w') :
    ∀ a, ¬ permitted w s a → w'.ledger.balance a = w.ledger.balance a := by
  exact (G9Perm.engine_tx_WP w w' env s f m hinv hcfg h).2

/-- in particular a liquidated trader (other than the liquidator and the pools) receives and pays nothing -/
theorem liquidated_trader_balance (w w' : World) (env : Env) (s : Nat) (f : Funds) (v t l : Nat)
    (hinv : WorldInv.NoResidue w.engine) (ht : ¬ permitted w s t)
    (h : applyTx w env s f (.engine (.liquidate v t l)) = .ok w') :
    w'.ledger.balance t = w.ledger.balance t := by
  exact engine_tx_balances_frame w w' env s f (.liquidate v t l) hinv (fun u hu => by cases hu) h t ht

/-- the insurance fund pays out only to the engine; the fee pool only to the recipient its owner names -/
theorem if_withdraw_pays_engine (w w' : World) (env : Env) (s : Nat) (f : Funds) (amt : Nat)
    (h : applyTx w env s f (.ifWithdraw amt) = .ok w') :
    ∀ a, a ≠ IFUND → a ≠ w.ifund.engine → w'.ledger.balance a = w.ledger.balance a := by
  exact G9Perm.ifWithdraw_frame w w' env s f amt h

theorem fp_send_pays_recipient (w w' : World) (env : Env) (s : Nat) (f : Funds) (tok amt to : Nat)
    (h : applyTx w env s f (.fpSend tok amt to) = .ok w') :
    ∀ a, a ≠ FEEPOOL → a ≠ to → w'.ledger.balance a = w.ledger.balance a := by
  exact G9Perm.fpSend_frame w w' env s f tok amt to h

end Perp.Props.WorldMore
