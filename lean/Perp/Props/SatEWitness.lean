/-
  SatEWitness — concrete worlds in which clauses of C11 / C15 / C17 fail for the model: the genuine
  findings (rule 3) and, for every hypothesis added to the clean theorems, a world showing that the
  clause fails without it.  All evaluated by the kernel (`decide +kernel`).
-/
import Perp.Props.ModelStep

namespace Perp.Props.SatEWitness
open Perp Perp.World Perp.Engine Perp.Spec Perp.Props.ModelStep

def D : Nat := 10^6

def vcfg (fluct buf : Nat) : Vamm.Config :=
  { owner := 50, marginEngine := ENGINE, insuranceFund := IFUND, pricefeed := FEED, holdingCap := 0,
    oiCap := 0, decimals := D, toll := 0, spread := 0, fluct := fluct, twapInterval := 3600,
    fundingPeriod := 3600, fundingBuffer := buf }

/-- a vAMM with quote reserve `q`, base reserve `b` (one snapshot, stamped in block 1) -/
def vamm (q b fluct buf : Nat) (net : Integer) : Vamm.V :=
  { cfg := vcfg fluct buf,
    st := { isOpen := true, quote := q, base := b, net := net,
            fundingRate := Integer.zero, nextFunding := 0, snaps := [⟨q, b, 0, 1⟩] } }

def eng (native : Bool) (mmr plr : Nat) (ps : List Position) : E :=
  { cfg := { owner := 60, insuranceFund := IFUND, feePool := FEEPOOL, native := native, decimals := D,
             imr := mmr, mmr := mmr, plr := plr, liqFee := 25 * 10^3 },
    st := ⟨0, 0, false⟩, pauser := 60, whitelist := [], positions := ps, vammMaps := [],
    tmpSwap := none, sentFunds := none, tmpLiq := none }

/-- a correctly wired deployment: one vAMM at address 10, user 100 with funds and allowance -/
def world (e : E) (v : Vamm.V) : World :=
  { env := ⟨1, 5⟩, engine := e, vamms := [(10, v)],
    ifund := { owner := 61, engine := ENGINE, vamms := [10], stored := true },
    feePool := { owner := 62, tokens := [5] },
    feed := .mock { owner := 63, price := some (10 * D) },
    ledger := { bal := [(100, 10000 * D), (ENGINE, 5000 * D), (IFUND, 5000 * D)], allow := [(100, 10000 * D)] } }

/-! ### C17: a stale zero-size record of the opposite direction no longer drops the caller's limit

  (Before `open_position` treated a stored record of size zero like an absent one, the third transaction
  below went through the reversal path — `swap_output` of 0 base, then `swap_input` of the whole notional
  with `base_asset_limit = 0` — and was accepted although it sold about 60 base against a limit of 1:
  clause `open-base-limit-not-honoured(sell)` failed.) -/

/-- fresh deployment, price 10 -/
def a0 : World := world (eng false (5 * 10^4) (25 * 10^4) []) (vamm (10000 * D) (1000 * D) 0 1800 Integer.zero)
/-- user 100 opens a 10x long with 60 margin … -/
def a1 : World := step a0 ⟨2, 1000⟩ 100 ⟨0, false⟩ (.engine (.openPosition 10 .buy (60 * D) (10 * D) 0))
/-- … and sells the same notional: the position is closed by a reversal of equal size, which leaves a
    stored record of size 0 with direction `addToAmm` -/
def a2 : World := step a1 ⟨3, 2000⟩ 100 ⟨0, false⟩ (.engine (.openPosition 10 .sell (60 * D) (10 * D) 0))

set_option maxRecDepth 100000 in
theorem a2_stale : a2.engine.positions = [⟨10, 100, .addToAmm, Integer.zero, 0, 0, Integer.zero, 3⟩] := by
  decide +kernel

set_option maxRecDepth 100000 in
/-- the user now sells with `base_asset_limit = 1` (give at most 1 unit of base): the order takes the
    increase path, its `swap_input` carries the limit, the vAMM refuses (the order would sell 63.829788
    base) and the transaction is REJECTED; no clause of C17 fails -/
theorem c17_witness :
    (modelStep a2 ⟨4, 3000⟩ 100 ⟨0, false⟩ (.engine (.openPosition 10 .sell (60 * D) (10 * D) 1))).ok = false
    ∧ Spec.C17.check (modelStep a2 ⟨4, 3000⟩ 100 ⟨0, false⟩ (.engine (.openPosition 10 .sell (60 * D) (10 * D) 1)))
      = [] := by decide +kernel

set_option maxRecDepth 100000 in
/-- the limit is applied exactly: the same order with limit 63.829788 (the base it sells) is accepted and
    leaves a short of that size, with limit 63.829787 it is rejected -/
theorem c17_limit_exact :
    (modelStep a2 ⟨4, 3000⟩ 100 ⟨0, false⟩ (.engine (.openPosition 10 .sell (60 * D) (10 * D) 63829788))).ok = true
    ∧ (readPosition (step a2 ⟨4, 3000⟩ 100 ⟨0, false⟩ (.engine (.openPosition 10 .sell (60 * D) (10 * D) 63829788))).engine
          10 100).size = Integer.newNegative 63829788
    ∧ Spec.C17.check (modelStep a2 ⟨4, 3000⟩ 100 ⟨0, false⟩ (.engine (.openPosition 10 .sell (60 * D) (10 * D) 63829788)))
      = []
    ∧ (modelStep a2 ⟨4, 3000⟩ 100 ⟨0, false⟩ (.engine (.openPosition 10 .sell (60 * D) (10 * D) 63829787))).ok = false := by
  decide +kernel

/-- a record whose sign disagrees with its direction (excluded by the invariant `SignDir`) -/
def badSign : World :=
  world (eng false (5 * 10^4) (25 * 10^4) [⟨10, 100, .removeFromAmm, Integer.newPositive (5 * D), 10 * D, 50 * D, Integer.zero, 1⟩])
    (vamm (10000 * D) (1000 * D) 0 1800 (Integer.newPositive (5 * D)))

set_option maxRecDepth 100000 in
theorem c17_needs_signDir :
    Spec.C17.check (modelStep badSign ⟨2, 1000⟩ 100 ⟨0, false⟩ (.engine (.openPosition 10 .buy (20 * D) (10 * D) (100 * D))))
      = ["open-base-limit-not-honoured(buy)"] := by decide +kernel

/-! ### C11 -/

/-- maintenance ratio 0; a long of 84.604450 base -/
def b0 : World :=
  world (eng false 0 (25 * 10^4) [⟨10, 100, .addToAmm, Integer.newPositive 84604450, 100 * D, 780 * D, Integer.zero, 1⟩])
    (vamm (10000 * D) (1000 * D) 0 1800 (Integer.newPositive 84604450))

set_option maxRecDepth 100000 in
/-- selling 780.048891 of notional (one unit less than the whole position is worth) is a *reduce*, but the
    vAMM rounds the base amount up to the whole 84.604450: the record ends at size 0 still holding its
    margin (100 + the realised 0.048892) and 0.000001 of notional, nothing is paid out (with a non-zero
    maintenance ratio the final margin-ratio guard rejects this outcome).  Nothing was closed by a reversal:
    `Spec.C11.check`, which now follows the engine's own case distinction (position worth more than the
    order ⇒ reduce ⇒ clause "checkpoint moved"), is EMPTY.  (The former predicate classified by the outcome —
    size 0 after an opposite order — and reported `funding-skipped-when-closing-by-reversal` here; this was
    the witness for the former sub-case hypothesis `mmr ≠ 0` of `sat_C11`.) -/
theorem c11_rounded_reduce_ok :
    Spec.C11.check (modelStep b0 ⟨2, 1000⟩ 100 ⟨0, false⟩ (.engine (.openPosition 10 .sell 780048891 D 0)))
      = []
    ∧ (modelStep b0 ⟨2, 1000⟩ 100 ⟨0, false⟩ (.engine (.openPosition 10 .sell 780048891 D 0))).ok = true
    ∧ (step b0 ⟨2, 1000⟩ 100 ⟨0, false⟩ (.engine (.openPosition 10 .sell 780048891 D 0))).engine.positions
      = [⟨10, 100, .addToAmm, Integer.zero, 100048892, 1, Integer.zero, 2⟩] := by decide +kernel

/-- a deployment whose only vAMM lives at address 0 — the engine's "no record" sentinel (excluded by the
    invariant `Mirror.NoZeroVamm`) —, maintenance ratio 5 %, a stored long of 84.604450 base under (0, 100) -/
def z0 : World :=
  { env := ⟨1, 5⟩,
    engine := eng false (5 * 10^4) (25 * 10^4)
      [⟨0, 100, .addToAmm, Integer.newPositive 84604450, 100 * D, 780 * D, Integer.zero, 1⟩],
    vamms := [(0, vamm (10000 * D) (1000 * D) 0 1800 (Integer.newPositive 84604450))],
    ifund := { owner := 61, engine := ENGINE, vamms := [0], stored := true },
    feePool := { owner := 62, tokens := [5] },
    feed := .mock { owner := 63, price := some (10 * D) },
    ledger := { bal := [(100, 10000 * D), (ENGINE, 5000 * D), (IFUND, 5000 * D)], allow := [(100, 10000 * D)] } }

set_option maxRecDepth 100000 in
/-- user 100 sells 780.048900 of notional at 10x (the stored long is worth 780.048892: not more than the
    order, so the property expects a reversal, and the 0.000008 left over is less than one unit of margin at
    10x, so a close-only one that pays out margin + PnL).  But `get_position` takes the record — its vAMM
    field is 0 — for an absent one and reports the order's own direction: the engine runs an *increase*
    (`swap_input` of the whole notional, margin 78.004890 pulled from the trader, no payout) and stores the
    record as a short of 1 raw unit with both notionals added up.  The clause fails although the maintenance
    ratio is not 0: hypothesis `SatC11.NoZeroVamm` of `sat_C11` -/
theorem c11_needs_noZeroVamm :
    Spec.C11.check (modelStep z0 ⟨2, 1000⟩ 100 ⟨0, false⟩ (.engine (.openPosition 0 .sell 78004890 (10 * D) 0)))
      = ["funding-skipped-when-closing-by-reversal"]
    ∧ (modelStep z0 ⟨2, 1000⟩ 100 ⟨0, false⟩ (.engine (.openPosition 0 .sell 78004890 (10 * D) 0))).xfers
      = [(100, ENGINE, 78004890)]
    ∧ (step z0 ⟨2, 1000⟩ 100 ⟨0, false⟩ (.engine (.openPosition 0 .sell 78004890 (10 * D) 0))).engine.positions
      = [⟨0, 100, .removeFromAmm, Integer.newNegative 1, 178004890, 1560048900, Integer.zero, 2⟩] := by
  decide +kernel

/-- funding buffer 0 instead of half the period -/
def noBuffer : World := world (eng false (5 * 10^4) (25 * 10^4) []) (vamm (10000 * D) (1000 * D) 0 0 Integer.zero)

set_option maxRecDepth 100000 in
theorem c11_needs_bufferHalf :
    Spec.C11.check (modelStep noBuffer ⟨2, 7199⟩ 100 ⟨0, false⟩ (.engine (.payFunding 10)))
      = ["next-funding-less-than-half-a-period-away"] := by decide +kernel

/-- native collateral, coins attached to PayFunding -/
def nativeW : World :=
  world (eng true (5 * 10^4) (25 * 10^4) [⟨10, 100, .addToAmm, Integer.newPositive (5 * D), 10 * D, 50 * D, Integer.zero, 1⟩])
    (vamm (10000 * D) (1000 * D) 0 1800 (Integer.newPositive (5 * D)))

set_option maxRecDepth 100000 in
/-- the former counterexample to `sat_C11` without `NoFundsAttached` (7 coins attached to a PayFunding whose
    payment is zero: the host moves them to the vault, transfer list `[(100, ENGINE, 7)]`; the former clause
    reported `funding-moved-collateral-with-zero-payment`).  `Spec.C11.check` now expects the attachment
    transfer at the head of the list, and the check is empty -/
theorem c11_funds_attached_ok :
    Spec.C11.check (modelStep nativeW ⟨2, 7200⟩ 100 ⟨7, false⟩ (.engine (.payFunding 10)))
      = []
    ∧ (modelStep nativeW ⟨2, 7200⟩ 100 ⟨7, false⟩ (.engine (.payFunding 10))).ok = true
    ∧ (modelStep nativeW ⟨2, 7200⟩ 100 ⟨7, false⟩ (.engine (.payFunding 10))).xfers
      = [(100, ENGINE, 7)] := by decide +kernel

/-- `nativeW` with the index price at 9 (mark 10: the longs pay 5·(1/24) = 0.208330) and a vault of 10 raw units -/
def nativeCap : World :=
  { nativeW with
    feed := .mock { owner := 63, price := some (9 * D) },
    ledger := { bal := [(100, 10000 * D), (ENGINE, 10), (IFUND, 5000 * D)], allow := [] } }

set_option maxRecDepth 100000 in
/-- the cap on the vault→fund payment counts the attached coins: user 100 attaches 7, the vault holds 17
    when the reply runs and all of it goes to the fund.  When the vault itself is the sender the 7 coins
    are a self-transfer, the vault still holds 10 and pays 10.  No clause of C11 fails in either case -/
theorem c11_funds_attached_cap :
    Spec.C11.check (modelStep nativeCap ⟨2, 7200⟩ 100 ⟨7, false⟩ (.engine (.payFunding 10))) = []
    ∧ (modelStep nativeCap ⟨2, 7200⟩ 100 ⟨7, false⟩ (.engine (.payFunding 10))).xfers
      = [(100, ENGINE, 7), (ENGINE, IFUND, 17)]
    ∧ Spec.C11.check (modelStep nativeCap ⟨2, 7200⟩ ENGINE ⟨7, false⟩ (.engine (.payFunding 10))) = []
    ∧ (modelStep nativeCap ⟨2, 7200⟩ ENGINE ⟨7, false⟩ (.engine (.payFunding 10))).xfers
      = [(ENGINE, ENGINE, 7), (ENGINE, IFUND, 10)] := by decide +kernel

/-- a zero-size record that still carries margin 100 and notional 50 (as `c11_rounded_reduce_ok` leaves behind) -/
def staleNotional : World :=
  world (eng false (5 * 10^4) (25 * 10^4) [⟨10, 100, .addToAmm, Integer.zero, 100 * D, 50 * D, Integer.zero, 1⟩])
    (vamm (10000 * D) (1000 * D) 0 1800 Integer.zero)

set_option maxRecDepth 100000 in
/-- a tiny opposite order used to "close" it through the reversal path (the engine paid out the margin 100,
    the property's formula — margin + PnL with PnL = 0 − notional — gave 50: the former hypothesis
    `StaleClean` of `sat_C11`).  Now the order is an increase: it opens a short of 101 units on top of the
    stale record (margin 100 + 0.001, notional 50 + 0.001), nothing is paid out, and no clause of C11 fails -/
theorem c11_stale_notional_ok :
    Spec.C11.check (modelStep staleNotional ⟨2, 1000⟩ 100 ⟨0, false⟩ (.engine (.openPosition 10 .sell 1000 D 0)))
      = []
    ∧ (step staleNotional ⟨2, 1000⟩ 100 ⟨0, false⟩ (.engine (.openPosition 10 .sell 1000 D 0))).engine.positions
      = [⟨10, 100, .removeFromAmm, Integer.newNegative 101, 100001000, 50001000, Integer.zero, 2⟩] := by
  decide +kernel

/-! ### C15: the size of a partial close -/

/-- fluctuation limit 1 %, partial-close ratio 98 %, a long of `size` base against reserves 1372 / 1291 -/
def c0 (size : Nat) : World :=
  world (eng false (5 * 10^4) (98 * 10^4) [⟨10, 100, .addToAmm, Integer.newPositive size, 500 * D, 1100 * D, Integer.zero, 1⟩])
    (vamm (1372 * D) (1291 * D) (10^4) 1800 (Integer.newPositive size))

set_option maxRecDepth 100000 in
/-- 5657 base: 98 % is 5543.860000, closed 5543.859998 -/
theorem c15_within_witness :
    Spec.C15.check (modelStep (c0 (5657 * D)) ⟨2, 1000⟩ 100 ⟨0, false⟩ (.engine (.closePosition 10 0)))
      = ["partial-close-not-the-configured-fraction[within-requote-rounding]"] := by decide +kernel

set_option maxRecDepth 100000 in
/-- 5255.512575 base: 98 % is 5150.402323, closed 5150.402304 — 19 units off.  The quote is turned back
    into base at the post-trade exchange rate (about 23 base units per quote unit here, 25 times the pre-trade
    rate), which is why `Spec.C15` bounds the deviation by the larger of the pre- and post-trade rates -/
theorem c15_large_position_witness :
    Spec.C15.check (modelStep (c0 5255512575) ⟨2, 1000⟩ 100 ⟨0, false⟩ (.engine (.closePosition 10 0)))
      = ["partial-close-not-the-configured-fraction[within-requote-rounding]"] := by decide +kernel

set_option maxRecDepth 100000 in
/-- a long of 10^14 whole units of base against a pool of 1291: 98 % of it drains the quote reserve to
    1 raw unit (post-trade reserves 1 / 1771252000000000000), the re-quote returns 1.77·10^18 raw base units
    instead of 9.8·10^19 — far beyond the specification's rounding bound `max(pre, post rate) + 2`.
    The world satisfies `SignDir`, `CurveRegular` and the mirror property (`SatE.c15_gross_witness_hyps`) but
    is not reachable from a regular deployment (the base the long holds never was in the pool); it is
    excluded by `SatC15.PostRateBounded` -/
theorem c15_gross_witness :
    Spec.C15.check (modelStep (c0 (10^20)) ⟨2, 1000⟩ 100 ⟨0, false⟩ (.engine (.closePosition 10 0)))
      = ["partial-close-not-the-configured-fraction[gross]"]
    ∧ (modelStep (c0 (10^20)) ⟨2, 1000⟩ 100 ⟨0, false⟩ (.engine (.closePosition 10 0))).post.vamms.map
        (fun p => (p.2.st.quote, p.2.st.base)) = [(1, 1771252000000000000)] := by decide +kernel

/-- the record of `badSign` with a 1 % fluctuation limit -/
def badSignF : World :=
  world (eng false (5 * 10^4) (25 * 10^4) [⟨10, 100, .removeFromAmm, Integer.newPositive (5 * D), 10 * D, 50 * D, Integer.zero, 1⟩])
    (vamm (10000 * D) (1000 * D) (10^4) 1800 (Integer.newPositive (5 * D)))

set_option maxRecDepth 100000 in
theorem c15_needs_signDir :
    Spec.C15.check (modelStep badSignF ⟨2, 1000⟩ 100 ⟨0, false⟩ (.engine (.closePosition 10 0)))
      = ["whole-close-left-price-outside-band"] := by decide +kernel

end Perp.Props.SatEWitness
