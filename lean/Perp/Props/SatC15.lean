/-
  SatC15 — the model's step against `Spec.C15.check` (per-block price band).
-/
import Perp.Props.SatFlows
import Perp.Props.C15Band
import Perp.Props.C15Requote

namespace Perp.Props.SatC15
open Perp Perp.World Perp.Engine Perp.Spec Perp.Spec.W Perp.Props.ModelStep
open Perp.Props.Dispatch Perp.Props.SatTrace Perp.Props.SatFlows
open Perp.Props.MirrorP (AllCE SD SignDirE)
open Perp.Spec.C15 (band inside)

theorem q_isOverFluct' (w : World) (v : Nat) (d : Direction) (a : Nat) (r : Bool)
    (h : w.q.isOverFluct v d a = .ok r) :
    ∃ x, w.vamm? v = some x ∧ Vamm.queryIsOverFluctuationLimit x w.env d a = .ok r := by
  have h' : (do let x ← w.vammE v; Vamm.queryIsOverFluctuationLimit x w.env d a) = .ok r := h
  obtain ⟨x, hx, hq⟩ := EngineMoney.bind_ok h'
  exact ⟨x, (MirrorP.vammE_ok _ _ _).1 hx, hq⟩

/-- the direction `close_position` asks the fluctuation query about is the stored direction -/
theorem baseDir_eq (p : Position) (hp : SD p) (hnz : ¬ p.size.value = 0) :
    (if Integer.gt p.size Integer.zero then Direction.addToAmm else Direction.removeFromAmm) = p.direction := by
  have hv := C19.toInt_natAbs p.size
  by_cases hg : Integer.gt p.size Integer.zero = true
  · rw [if_pos hg]
    exact (hp.1 ((MirrorP.gt_zero_iff _).1 hg)).symm
  · rw [if_neg hg]
    have : ¬ 0 < p.size.toInt := fun hh => hg ((MirrorP.gt_zero_iff _).2 hh)
    exact (hp.2 (by omega)).symm

/-- a swap that went through with a limit is the swap without the limit -/
theorem swapOutput_drop_limit (x x' : Vamm.V) (env : Env) (s : Nat) (d : Direction) (amt lim : Nat) (o : Vamm.SwapOut)
    (hamt : amt ≠ 0) (h : Vamm.swapOutput x env s d amt lim = .ok (x', o)) :
    Vamm.swapOutput x env s d amt 0 = .ok (x', o) := by
  obtain ⟨q, hq, _⟩ := C17.swapOutput_inv _ _ _ _ _ _ _ _ h
  obtain ⟨h1, h2⟩ := C17.swapOutput_limit_iff x env s d amt lim hamt q hq
  cases hm : Spec.C17.outputLimitMet d lim q with
  | true => rw [← h1 hm]; exact h
  | false =>
    obtain ⟨e, he⟩ := h2 hm
    rw [he] at h
    cases h

/-! ### OpenPosition -/

theorem open_core (w w' : World) (env : Env) (s : Nat) (f : Funds) (v : Nat) (side : Side) (m l b : Nat)
    (h : applyTx w env s f (.engine (.openPosition v side m l b)) = .ok w')
    (x y : Vamm.V) (hxv : w.vamm? v = some x) (hyv : w'.vamm? v = some y)
    (hf : x.cfg.fluct ≠ 0) (bd : Nat × Nat)
    (hb : band x.cfg.decimals x.cfg.fluct x.st.snaps env.height = some bd) :
    inside x.cfg.decimals bd x.st.quote x.st.base = true
    ∧ ((readPosition w'.engine v s).size.value ≠ 0 → inside x.cfg.decimals bd y.st.quote y.st.base = true) := by
  obtain ⟨w1, e1, x0, sw, msgs, hst, _, hxv0, hex, hsw, sv, st, ss, hpos, hcfg, hcase⟩ :=
    open_flow w w' env s f v side m l b h
  rw [hxv] at hxv0
  cases hxv0
  rcases hcase with ⟨id, _, x', bo, w2, e3, subs3, hswap, _, _, _, hv'⟩
      | ⟨_, x1, qo, w2, e3, subs3, hswap, hrep, hcase2⟩
  · rw [hyv] at hv'
    cases hv'
    obtain ⟨h1, h2⟩ := C15B.swapInput_inside_band _ _ _ _ _ _ _ _ hf bd hb hswap
    exact ⟨h1, fun _ => h2⟩
  · have h1 := C15B.swapOutput_started_inside _ _ _ _ _ _ _ _ hf bd hb hswap
    refine ⟨h1, fun hnz => ?_⟩
    obtain ⟨hc1, hb1⟩ := C15B.swapOutput_band _ _ _ _ _ _ _ _ bd hb hswap
    rcases hcase2 with ⟨_, _, he3, _, _⟩ | ⟨fm, sw', x2, bo2, w4, e5, subs5, _, _, _, _, _, _, hswap2, _, _, _, hv2⟩
    · exfalso
      obtain ⟨p', hp', pv, pt, psz, _⟩ := MirrorP.reversePositionReply_eff _ _ _ _ sw hsw _ hrep
      dsimp only at hp' pv pt psz
      rw [sv, st, ss] at pv pt
      have hk := EngineMoney.getPosition_key env e1 v s side
      have hread3 : readPosition w'.engine v s = p' := by
        rw [he3]; exact read_of_store e1 e3 p' v s hp' (pv.trans hk.1) (pt.trans hk.2)
      rw [hread3] at hnz
      have := C19.toInt_natAbs p'.size
      omega
    · rw [hyv] at hv2
      cases hv2
      have hf1 : x1.cfg.fluct ≠ 0 := by rw [hc1]; exact hf
      obtain ⟨_, h2⟩ := C15B.swapInput_inside_band _ _ _ _ _ _ _ _ hf1 bd hb1 hswap2
      rw [hc1] at h2
      exact h2

/-! ### ClosePosition -/

theorem close_core (w w' : World) (env : Env) (s : Nat) (f : Funds) (v l : Nat)
    (h : applyTx w env s f (.engine (.closePosition v l)) = .ok w')
    (hsd : SignDirE w.engine)
    (x y : Vamm.V) (hxv : w.vamm? v = some x) (hyv : w'.vamm? v = some y)
    (hf : x.cfg.fluct ≠ 0) (hplr : w.engine.cfg.plr < w.engine.cfg.decimals) (bd : Nat × Nat)
    (hb : band x.cfg.decimals x.cfg.fluct x.st.snaps env.height = some bd) :
    (W.hasPos w' v s = false ∧ inside x.cfg.decimals bd y.st.quote y.st.base = true
      ∧ ({ w with env := env } : World).q.isOverFluct v
          (if Integer.gt (readPosition w.engine v s).size Integer.zero then .addToAmm else .removeFromAmm)
          (readPosition w.engine v s).size.value = .ok false)
    ∨ (W.hasPos w' v s = true
      ∧ (∀ z o, Vamm.swapOutput x env ENGINE (readPosition w.engine v s).direction
            (readPosition w.engine v s).size.value 0 = .ok (z, o) →
          inside x.cfg.decimals bd z.st.quote z.st.base = false)
      ∧ ({ w with env := env } : World).q.isOverFluct v
          (if Integer.gt (readPosition w.engine v s).size Integer.zero then .addToAmm else .removeFromAmm)
          (readPosition w.engine v s).size.value = .ok true) := by
  obtain ⟨w1, e1, x0, sw, msgs, over, hst, _, hxv0, hnz, pv, pt, hex, hsw, sv, st, hpos, hcfg, _, _, hover, hcase⟩ :=
    close_flow w w' env s f v l h
  rw [hxv] at hxv0
  cases hxv0
  have hbd := baseDir_eq _ (MirrorP.SD_read w.engine v s hsd) hnz
  -- the query as the pre-state (at the transaction's block) answers it
  have hover' : ({ w with env := env } : World).q.isOverFluct v
      (if Integer.gt (readPosition w.engine v s).size Integer.zero then .addToAmm else .removeFromAmm)
      (readPosition w.engine v s).size.value = .ok over := by
    obtain ⟨x1, hx1, hq1⟩ := q_isOverFluct' _ _ _ _ _ hover
    rw [hst.vamm? v, hxv] at hx1
    cases hx1
    rw [hst.env] at hq1
    show (do let x ← ({ w with env := env } : World).vammE v; Vamm.queryIsOverFluctuationLimit x env _ _) = _
    have : ({ w with env := env } : World).vammE v = .ok x := (MirrorP.vammE_ok _ _ _).2 hxv
    rw [this]
    exact hq1
  obtain ⟨x1, hx1, hq⟩ := q_isOverFluct' _ _ _ _ _ hover
  rw [hst.vamm? v, hxv] at hx1
  cases hx1
  rw [hst.env, hbd] at hq
  rcases hcase with ⟨hno, _, x', qo, w2, e3, subs3, hswap, _, _, _, hrep, _, he3, hv', _⟩
      | ⟨hyes, _, N, x', bo, w2, e3, subs3, hswap, hrep, _, he3, _⟩
  · left
    rw [hyv] at hv'
    cases hv'
    have hov : over = false := by
      cases over with
      | false => rfl
      | true => exact absurd ⟨rfl, hplr⟩ hno
    subst hov
    have hk := EngineMoney.getPosition_key env e1 sw.vamm sw.trader sw.side
    obtain ⟨hp', _⟩ := MirrorP.closePositionReply_eff _ _ _ _ sw hsw _ hrep
    have hhp := hasPos_remove e1 e3 w' _ v s he3 hp' (hk.1.trans sv) (hk.2.trans st)
    have hsw0 := swapOutput_drop_limit _ _ _ _ _ _ _ _ hnz hswap
    have := C15B.isOverFluctuation_spec _ _ _ _ _ _ _ _ hf bd hb hq hsw0
    refine ⟨hhp, ?_, hover'⟩
    cases hi : inside x.cfg.decimals bd y.st.quote y.st.base with
    | true => rfl
    | false => rw [hi] at this; cases this
  · right
    have hov : over = true := hyes.1
    subst hov
    have hk := EngineMoney.getPosition_key env e1 sw.vamm sw.trader sw.side
    obtain ⟨⟨p', hp', pv', pt', _, _⟩, _⟩ := MirrorP.partialClosePositionReply_eff _ _ _ _ _ sw hsw _ hrep
    dsimp only at hp' pv' pt'
    have hhp := hasPos_store e1 e3 w' p' v s he3 hp' ((pv'.trans hk.1).trans sv) ((pt'.trans hk.2).trans st)
    refine ⟨hhp, fun z o hz => ?_, hover'⟩
    have := C15B.isOverFluctuation_spec _ _ _ _ _ _ _ _ hf bd hb hq hz
    cases hi : inside x.cfg.decimals bd z.st.quote z.st.base with
    | false => rfl
    | true => rw [hi] at this; cases this


/-! ### the size of a partial close -/

/-- a partial close in the regular regime of the curve (both reserves hold a whole unit, spot price at
    least 1): the sign of the position is kept, the base amount closed is at most the configured fraction
    `want = ⌊|size|·plr/D⌋`, and falls short of it by at most `⌊base'/quote'⌋ + 2` (reserves after the
    trade) — provided that post-trade exchange rate stays below twice the post-trade quote reserve -/
theorem partial_core (w w' : World) (env : Env) (s : Nat) (f : Funds) (v l : Nat)
    (h : applyTx w env s f (.engine (.closePosition v l)) = .ok w')
    (hcr : MirrorP.CurveRegF w.vamm?)
    (x y : Vamm.V) (hxv : w.vamm? v = some x) (hyv : w'.vamm? v = some y)
    (hf : x.cfg.fluct ≠ 0) (hplr : w.engine.cfg.plr < w.engine.cfg.decimals)
    (hhp : W.hasPos w' v s = true)
    (hrb : y.st.base / y.st.quote + 2 ≤ 2 * y.st.quote) :
    (readPosition w.engine v s).size.toInt * (readPosition w'.engine v s).size.toInt > 0
    ∧ (readPosition w'.engine v s).size.toInt.natAbs ≤ (readPosition w.engine v s).size.toInt.natAbs
    ∧ (readPosition w.engine v s).size.toInt.natAbs - (readPosition w'.engine v s).size.toInt.natAbs
        ≤ (readPosition w.engine v s).size.toInt.natAbs * w.engine.cfg.plr / w.engine.cfg.decimals
    ∧ (readPosition w.engine v s).size.toInt.natAbs * w.engine.cfg.plr / w.engine.cfg.decimals
        - ((readPosition w.engine v s).size.toInt.natAbs - (readPosition w'.engine v s).size.toInt.natAbs)
        ≤ y.st.base / y.st.quote + 2 := by
  obtain ⟨w1, e1, x0, sw, msgs, over, hst, _, hxv0, hnz, pv, pt, hex, hsw, sv, st, hpos, hcfg, _, _, hover, hcase⟩ :=
    close_flow w w' env s f v l h
  rw [hxv] at hxv0
  cases hxv0
  obtain ⟨c1, c2, c3⟩ := hcr v x hxv
  have c3 := c3 hf
  rcases hcase with ⟨hno, _, x', qo, w2, e3, subs3, hswap, _, _, _, hrep, _, he3, hv', _⟩
      | ⟨hyes, hside, N, x', bo, w2, e3, subs3, hswap, hrep, _, he3, hv', hmsg⟩
  · exfalso
    have hk := EngineMoney.getPosition_key env e1 sw.vamm sw.trader sw.side
    obtain ⟨hp', _⟩ := MirrorP.closePositionReply_eff _ _ _ _ sw hsw _ hrep
    have := hasPos_remove e1 e3 w' _ v s he3 hp' (hk.1.trans sv) (hk.2.trans st)
    rw [this] at hhp
    cases hhp
  · rw [hyv] at hv'
    cases hv'
    -- the quote notional is the vAMM's quote for `|size|·plr/D` base
    obtain ⟨_, _, _, tmp', _, _, _, hc⟩ := MirrorP.closePosition_inv _ _ _ _ _ _ _ hex
    dsimp only at hc
    have hq : ∃ pa, pa = (readPosition w.engine v s).size.value * w.engine.cfg.plr / w.engine.cfg.decimals
        ∧ Vamm.queryOutputAmount x
            (if Integer.gt (readPosition w.engine v s).size Integer.zero then .addToAmm else .removeFromAmm) pa
            = .ok N := by
      rcases hc with ⟨_, h2⟩ | ⟨_, xx, pa, N', over', h2, hcm, hcd, hout, _, _⟩
      · rw [hmsg] at h2
        injection h2 with h2
        injection h2 with h2
        cases h2
      · rw [hmsg] at h2
        have hNN : N = N' := by
          injection h2 with h2
          injection h2 with h2
          injection h2
        subst hNN
        simp only [cmul_ok] at hcm
        obtain ⟨_, rfl⟩ := hcm
        simp only [cdiv_ok] at hcd
        obtain ⟨_, rfl⟩ := hcd
        obtain ⟨x1, hx1, hq1⟩ := MirrorP.q_outputAmount _ _ _ _ _ hout
        rw [hst.vamm? v, hxv] at hx1
        cases hx1
        exact ⟨_, rfl, hq1⟩
    obtain ⟨pa, hpa, hqo⟩ := hq
    -- the swap
    obtain ⟨b, hqi, hur, ho, _⟩ := C17.swapInput_inv _ _ _ _ _ _ _ _ _ hswap
    injection ho with _ _ hbo
    subst hbo
    -- the stored size
    have hk := EngineMoney.getPosition_key env e1 sw.vamm sw.trader sw.side
    obtain ⟨⟨p', hp', pv', pt', psz, _⟩, _⟩ := MirrorP.partialClosePositionReply_eff _ _ _ _ _ sw hsw _ hrep
    dsimp only at hp' pv' pt' psz
    have hread : readPosition w'.engine v s = p' := by
      rw [he3]; exact read_of_store e1 e3 p' v s hp' ((pv'.trans hk.1).trans sv) ((pt'.trans hk.2).trans st)
    have hrd : readPosition e1 sw.vamm sw.trader = readPosition w.engine v s := by
      rw [sv, st]; exact WorldInv.rp_same v s hpos
    rw [MirrorP.getPosition_size, hrd, hside, MirrorP.signedOutput_toInt] at psz
    rw [hread]
    have hv := C19.toInt_natAbs (readPosition w.engine v s).size
    rw [hv]
    have hpalt : pa < (readPosition w.engine v s).size.value := by
      rw [hpa]
      apply Nat.div_lt_of_lt_mul
      rw [Nat.mul_comm w.engine.cfg.decimals]
      exact Nat.mul_lt_mul_of_pos_left hplr (Nat.pos_of_ne_zero hnz)
    unfold Vamm.queryOutputAmount at hqo
    unfold Vamm.queryInputAmount at hqi
    unfold positionToSide at hqi hur psz
    by_cases hg : Integer.gt (readPosition w.engine v s).size Integer.zero = true
    · rw [if_pos hg] at hqo hqi hur psz
      have ha := (MirrorP.gt_zero_iff _).1 hg
      simp only [sideToDirection] at hqi hur psz
      rw [psz]
      obtain ⟨hle, hdev⟩ := C15Requote.long_requote _ _ _ _ _ _ c1 c2 hqo hqi
      obtain ⟨u1, u2, u3⟩ := C17.updateReserve_remove _ _ _ _ _ _ hur
      rw [u1, u3] at hrb ⊢
      have hdev := hdev hrb
      rw [← hpa]
      refine ⟨Int.mul_pos ha (by omega), by omega, by omega, by omega⟩
    · rw [if_neg hg] at hqo hqi hur psz
      have ha : (readPosition w.engine v s).size.toInt < 0 := by
        have : ¬ 0 < (readPosition w.engine v s).size.toInt := fun hh => hg ((MirrorP.gt_zero_iff _).2 hh)
        omega
      simp only [sideToDirection] at hqi hur psz
      rw [psz]
      have hex' := C15Requote.short_requote _ _ _ _ _ _ c1 c3 hqo hqi
      rw [← hpa]
      refine ⟨Int.mul_pos_of_neg_of_neg ha (by omega), by omega, by omega, ?_⟩
      have : (readPosition w.engine v s).size.value
          - ((readPosition w.engine v s).size.toInt + (bo : Int)).natAbs = bo := by omega
      rw [this, hex', Nat.sub_self]
      exact Nat.zero_le _

/-! ### the check -/

theorem ite_mem_pair {c : Prop} [Decidable c] (a b : String) : (if c then a else b) ∈ [a, b] := by
  by_cases h : c <;> simp [h]

theorem chk_true (c : Bool) (tag : String) (h : c = true) : W.chk c tag = [] := by
  unfold W.chk; rw [h]; rfl

theorem mem_chk {c : Bool} {tag t : String} (h : t ∈ W.chk c tag) : t = tag := by
  unfold W.chk at h
  split at h
  · cases h
  · simpa using h

/-- **sub-case hypothesis of `sat_C15`** (rule 3): the transaction is not a ClosePosition that the vAMM
    reports as over the fluctuation limit, i.e. the model does not take the partial-close path.  On that
    path the closed fraction is priced in quote and re-quoted in base, and differs from the configured
    fraction by the re-quote rounding (`…[within-requote-rounding]`, `SatE.c15_within_witness`,
    `SatE.c15_large_position_witness`); only for positions so large relative to the base reserve that the
    close drains the quote reserve to a few raw units does the deviation exceed the specification's
    rounding bound (`…[gross]`, `SatE.c15_gross_witness`; excluded by `PostRateBounded`,
    `C15_tags_within`). -/
def NoPartialClose (w : World) (env : Env) (s : Nat) (tx : Tx) : Prop :=
  ∀ v l, tx = .engine (.closePosition v l) →
    ({ w with env := env } : World).q.isOverFluct v
      (if Integer.gt (readPosition w.engine v s).size Integer.zero then .addToAmm else .removeFromAmm)
      (readPosition w.engine v s).size.value ≠ .ok true

theorem check_open_err (w : World) (env : Env) (s : Nat) (f : Funds) (v : Nat) (side : Side) (m l b : Nat) :
    Spec.C15.check (errStep w env s f (.engine (.openPosition v side m l b))) = [] := by
  simp only [Spec.C15.check, W.engineMsg, errStep]
  cases w.vamm? v with
  | none => rfl
  | some x =>
    simp only []
    split
    · rfl
    · split
      · simp [W.chk]
      · rfl

theorem check_open_ok (w w' : World) (env : Env) (s : Nat) (f : Funds) (v : Nat) (side : Side) (m l b : Nat)
    (h : applyTx w env s f (.engine (.openPosition v side m l b)) = .ok w') :
    Spec.C15.check (okStep w w' env s f (.engine (.openPosition v side m l b))) = [] := by
  simp only [Spec.C15.check, W.engineMsg, okStep, W.pos]
  cases hxv : w.vamm? v with
  | none => rfl
  | some x =>
    cases hyv : w'.vamm? v with
    | none => rfl
    | some y =>
      simp only []
      by_cases hf : x.cfg.fluct = 0
      · simp [hf]
      · have hf' : (x.cfg.fluct == 0) = false := by simpa using hf
        simp only [hf', Bool.false_eq_true, ↓reduceIte]
        cases hb : band x.cfg.decimals x.cfg.fluct x.st.snaps env.height with
        | none => rfl
        | some bd =>
          simp only []
          obtain ⟨h1, h2⟩ := open_core w w' env s f v side m l b h x y hxv hyv hf bd hb
          refine List.append_eq_nil_iff.2 ⟨chk_true _ _ (by simp [h1]), chk_true _ _ ?_⟩
          by_cases hz : (readPosition w'.engine v s).size.value = 0
          · simp [Integer.isZero, hz]
          · simp [h2 hz]

theorem check_close_err (w : World) (env : Env) (s : Nat) (f : Funds) (v l : Nat) :
    Spec.C15.check (errStep w env s f (.engine (.closePosition v l))) = [] := by
  simp only [Spec.C15.check, W.engineMsg, errStep]
  rfl

theorem check_close_ok (w w' : World) (env : Env) (s : Nat) (f : Funds) (v l : Nat)
    (h : applyTx w env s f (.engine (.closePosition v l)) = .ok w') (hsd : SignDirE w.engine) :
    (({ w with env := env } : World).q.isOverFluct v
        (if Integer.gt (readPosition w.engine v s).size Integer.zero then .addToAmm else .removeFromAmm)
        (readPosition w.engine v s).size.value ≠ .ok true →
      Spec.C15.check (okStep w w' env s f (.engine (.closePosition v l))) = [])
    ∧ ∀ tag ∈ Spec.C15.check (okStep w w' env s f (.engine (.closePosition v l))),
        tag ∈ ["partial-close-not-the-configured-fraction[within-requote-rounding]",
               "partial-close-not-the-configured-fraction[gross]"] := by
  simp only [Spec.C15.check, W.engineMsg, okStep, W.pos, Bool.not_true, Bool.false_eq_true, ↓reduceIte]
  cases hxv : w.vamm? v with
  | none => exact ⟨fun _ => by first | rfl | trivial, fun tag ht => by cases ht⟩
  | some x =>
    cases hyv : w'.vamm? v with
    | none => exact ⟨fun _ => by first | rfl | trivial, fun tag ht => by cases ht⟩
    | some y =>
      simp only []
      by_cases hf : x.cfg.fluct = 0
      · have hf' : (x.cfg.fluct == 0) = true := by simp [hf]
        simp only [hf', Bool.true_or, ↓reduceIte]
        exact ⟨fun _ => by first | rfl | trivial, fun tag ht => by cases ht⟩
      by_cases hp : w.engine.cfg.plr ≥ w.engine.cfg.decimals
      · simp only [hp, decide_true, Bool.or_true, ↓reduceIte]
        exact ⟨fun _ => by first | rfl | trivial, fun tag ht => by cases ht⟩
      · have hf' : (x.cfg.fluct == 0) = false := by simpa using hf
        simp only [hf', hp, decide_false, Bool.or_false, Bool.false_eq_true, ↓reduceIte]
        have hc' : ¬ x.cfg.fluct = 0 ∧ w.engine.cfg.plr < w.engine.cfg.decimals := ⟨hf, by omega⟩
        cases hb : band x.cfg.decimals x.cfg.fluct x.st.snaps env.height with
        | none => exact ⟨fun _ => by first | rfl | trivial, fun tag ht => by cases ht⟩
        | some bd =>
          simp only []
          rcases close_core w w' env s f v l h hsd x y hxv hyv hc'.1 hc'.2 bd hb with ⟨hp, hi, _⟩ | ⟨hp, hz, hov⟩
          · simp only [hp, Bool.not_false, ↓reduceIte]
            rw [chk_true _ _ hi]
            exact ⟨fun _ => by first | rfl | trivial, fun tag ht => by cases ht⟩
          · simp only [hp, Bool.not_true, Bool.false_eq_true, ↓reduceIte]
            have hfin : ∀ (c : Bool) (t : String),
                (({ w with env := env } : World).q.isOverFluct v
                    (if Integer.gt (readPosition w.engine v s).size Integer.zero then .addToAmm else .removeFromAmm)
                    (readPosition w.engine v s).size.value ≠ .ok true → W.chk c t = [])
                ∧ ∀ tag ∈ W.chk c t, tag = t :=
              fun c t => ⟨fun hne => absurd hov hne, fun tag ht => mem_chk ht⟩
            cases hsw : Vamm.swapOutput x env ENGINE (readPosition w.engine v s).direction
                (readPosition w.engine v s).size.value 0 with
            | error e =>
              simp only [List.append_nil]
              refine ⟨(hfin _ _).1, fun tag ht => ?_⟩
              rw [(hfin _ _).2 tag ht]
              exact ite_mem_pair _ _
            | ok r =>
              obtain ⟨z, o⟩ := r
              simp only []
              rw [chk_true (!inside x.cfg.decimals bd z.st.quote z.st.base) _ (by rw [hz z o hsw]; rfl), List.append_nil]
              refine ⟨(hfin _ _).1, fun tag ht => ?_⟩
              rw [(hfin _ _).2 tag ht]
              exact ite_mem_pair _ _

theorem within_cond (ab : Int) (A A' want M r : Nat) (k1 : ab > 0) (k2 : A' ≤ A) (k3 : A - A' ≤ want)
    (k4 : want - (A - A') ≤ r + 2) (hm : r ≤ M) :
    (decide (ab > 0) && decide ((if A - A' ≥ want then A - A' - want else want - (A - A')) ≤ M + 2)) = true := by
  simp only [Bool.and_eq_true, decide_eq_true_eq]
  refine ⟨k1, ?_⟩
  split <;> omega

/-- a successful ClosePosition in the regular regime whose post-trade exchange rate is bounded: the only tag
    that can occur is the re-quote rounding of a partial close -/
theorem check_close_within (w w' : World) (env : Env) (s : Nat) (f : Funds) (v l : Nat)
    (h : applyTx w env s f (.engine (.closePosition v l)) = .ok w') (hsd : SignDirE w.engine)
    (hcr : MirrorP.CurveRegF w.vamm?)
    (hrb : ∀ y, w'.vamm? v = some y → y.st.base / y.st.quote + 2 ≤ 2 * y.st.quote) :
    ∀ tag ∈ Spec.C15.check (okStep w w' env s f (.engine (.closePosition v l))),
        tag ∈ ["partial-close-not-the-configured-fraction[within-requote-rounding]"] := by
  simp only [Spec.C15.check, W.engineMsg, okStep, W.pos, Bool.not_true, Bool.false_eq_true, ↓reduceIte]
  cases hxv : w.vamm? v with
  | none => exact fun tag ht => by cases ht
  | some x =>
    cases hyv : w'.vamm? v with
    | none => exact fun tag ht => by cases ht
    | some y =>
      simp only []
      by_cases hf : x.cfg.fluct = 0
      · have hf' : (x.cfg.fluct == 0) = true := by simp [hf]
        simp only [hf', Bool.true_or, ↓reduceIte]
        exact fun tag ht => by cases ht
      by_cases hp : w.engine.cfg.plr ≥ w.engine.cfg.decimals
      · simp only [hp, decide_true, Bool.or_true, ↓reduceIte]
        exact fun tag ht => by cases ht
      · have hf' : (x.cfg.fluct == 0) = false := by simpa using hf
        simp only [hf', hp, decide_false, Bool.or_false, Bool.false_eq_true, ↓reduceIte]
        have hc' : ¬ x.cfg.fluct = 0 ∧ w.engine.cfg.plr < w.engine.cfg.decimals := ⟨hf, by omega⟩
        cases hb : band x.cfg.decimals x.cfg.fluct x.st.snaps env.height with
        | none => exact fun tag ht => by cases ht
        | some bd =>
          simp only []
          rcases close_core w w' env s f v l h hsd x y hxv hyv hc'.1 hc'.2 bd hb with ⟨hp, hi, _⟩ | ⟨hp, hz, hov⟩
          · simp only [hp, Bool.not_false, ↓reduceIte]
            rw [chk_true _ _ hi]
            exact fun tag ht => by cases ht
          · simp only [hp, Bool.not_true, Bool.false_eq_true, ↓reduceIte]
            obtain ⟨k1, k2, k3, k4⟩ := partial_core w w' env s f v l h hcr x y hxv hyv hc'.1 hc'.2 hp (hrb y hyv)
            have hm : y.st.base / y.st.quote ≤ max (x.st.base / x.st.quote) (y.st.base / y.st.quote) :=
              Nat.le_max_right _ _
            have hfin : ∀ (c : Bool) (t : String), ∀ tag ∈ W.chk c t, tag = t := fun c t tag ht => mem_chk ht
            cases hsw : Vamm.swapOutput x env ENGINE (readPosition w.engine v s).direction
                (readPosition w.engine v s).size.value 0 with
            | error e =>
              simp only [List.append_nil]
              intro tag ht
              rw [hfin _ _ tag ht]
              refine List.mem_singleton.2 ?_
              exact if_pos (within_cond _ _ _ _ _ _ k1 k2 k3 k4 hm)
            | ok r =>
              obtain ⟨z, o⟩ := r
              simp only []
              rw [chk_true (!inside x.cfg.decimals bd z.st.quote z.st.base) _ (by rw [hz z o hsw]; rfl), List.append_nil]
              intro tag ht
              rw [hfin _ _ tag ht]
              refine List.mem_singleton.2 ?_
              exact if_pos (within_cond _ _ _ _ _ _ k1 k2 k3 k4 hm)
theorem check_other (st : Step) (h1 : ∀ v side m l b, st.tx ≠ .engine (.openPosition v side m l b))
    (h2 : ∀ v l, st.tx ≠ .engine (.closePosition v l)) : Spec.C15.check st = [] := by
  unfold Spec.C15.check W.engineMsg
  split
  · rename_i hm
    split at hm
    · rename_i m' htx
      injection hm with hm
      subst hm
      exact absurd htx (h1 _ _ _ _ _)
    · cases hm
  · rename_i hm
    split at hm
    · rename_i m' htx
      injection hm with hm
      subst hm
      exact absurd htx (h2 _ _)
    · cases hm
  · rfl


theorem check_nil_of (st : Step) (h : Spec.C15.check st = []) (P : String → Prop) : ∀ tag ∈ Spec.C15.check st, P tag := by
  rw [h]; intro tag ht; cases ht

/-- **C15, general form**: under the sign/direction invariant the only clause that can fail is the size of
    a partial close (both tags: the re-quote rounding, and — for positions large relative to the base
    reserve — more than the specification's rounding bound) -/
theorem C15_tags (w : World) (env : Env) (s : Nat) (f : Funds) (tx : Tx) (hsd : SignDirE w.engine) :
    ∀ tag ∈ Spec.C15.check (modelStep w env s f tx),
      tag ∈ ["partial-close-not-the-configured-fraction[within-requote-rounding]",
             "partial-close-not-the-configured-fraction[gross]"] := by
  by_cases ho : ∃ v side m l b, tx = .engine (.openPosition v side m l b)
  · obtain ⟨v, side, m, l, b, rfl⟩ := ho
    cases hx : applyTx w env s f (.engine (.openPosition v side m l b)) with
    | error e => rw [modelStep_err hx]; exact check_nil_of _ (check_open_err w env s f v side m l b) _
    | ok w' => rw [modelStep_ok hx]; exact check_nil_of _ (check_open_ok w w' env s f v side m l b hx) _
  · by_cases hcl : ∃ v l, tx = .engine (.closePosition v l)
    · obtain ⟨v, l, rfl⟩ := hcl
      cases hx : applyTx w env s f (.engine (.closePosition v l)) with
      | error e => rw [modelStep_err hx]; exact check_nil_of _ (check_close_err w env s f v l) _
      | ok w' => rw [modelStep_ok hx]; exact (check_close_ok w w' env s f v l hx hsd).2
    · exact check_nil_of _
        (check_other _ (by
            intro v side m l b hh
            apply ho
            refine ⟨v, side, m, l, b, ?_⟩
            unfold modelStep at hh
            split at hh <;> exact hh) (by
            intro v l hh
            apply hcl
            refine ⟨v, l, ?_⟩
            unfold modelStep at hh
            split at hh <;> exact hh)) _

/-- **sub-case hypothesis of `C15_tags_within`**: after a successful ClosePosition the exchange rate of the
    vAMM traded on — raw base units per raw quote unit, rounded down — is below twice its quote reserve.
    It holds as soon as the post-trade spot price is at least 1 and the quote reserve holds two raw units
    (`postRate_of_price_ge_one`), i.e. in the regular regime of the curve (`Mirror.CurveRegular`) after the
    trade.  Without it the `[gross]` tag does occur although `SignDir`, `CurveRegular` and the mirror
    property hold before the trade: a long that is huge relative to the base reserve drains the quote reserve
    to a few raw units, where one quote unit is worth more base than the specification's rounding bound
    allows for (`SatE.c15_gross_witness`). -/
def PostRateBounded (w : World) (env : Env) (s : Nat) (f : Funds) (tx : Tx) : Prop :=
  ∀ v l w' y, tx = .engine (.closePosition v l) → applyTx w env s f tx = .ok w' → w'.vamm? v = some y →
    y.st.base / y.st.quote + 2 ≤ 2 * y.st.quote

theorem postRate_of_price_ge_one (b q : Nat) (h1 : b ≤ q) (h2 : 2 ≤ q) : b / q + 2 ≤ 2 * q := by
  have : b / q ≤ 1 := Nat.div_le_of_le_mul (by omega)
  omega

/-- **C15, sharper general form**: under the sign/direction invariant, in the regular regime of the curve
    and with a bounded post-trade exchange rate, the `[gross]` tag never occurs — the only clause that can
    fail is the size of a partial close, by the re-quote rounding: the closed amount is at most the
    configured fraction `⌊|size|·plr/D⌋` and falls short of it by at most `⌊base'/quote'⌋ + 2`
    (`partial_core`; for a short the closed amount is exactly the configured fraction) -/
theorem C15_tags_within (w : World) (env : Env) (s : Nat) (f : Funds) (tx : Tx) (hsd : SignDirE w.engine)
    (hcr : MirrorP.CurveRegF w.vamm?) (hrb : PostRateBounded w env s f tx) :
    ∀ tag ∈ Spec.C15.check (modelStep w env s f tx),
      tag ∈ ["partial-close-not-the-configured-fraction[within-requote-rounding]"] := by
  by_cases hcl : ∃ v l, tx = .engine (.closePosition v l)
  · obtain ⟨v, l, rfl⟩ := hcl
    cases hx : applyTx w env s f (.engine (.closePosition v l)) with
    | error e => rw [modelStep_err hx]; exact check_nil_of _ (check_close_err w env s f v l) _
    | ok w' =>
      rw [modelStep_ok hx]
      refine check_close_within w w' env s f v l hx hsd hcr ?_
      intro y hy
      exact hrb v l w' y rfl hx hy
  · intro tag ht
    have h2 := C15_tags w env s f tx hsd tag ht
    have hnil : Spec.C15.check (modelStep w env s f tx) = [] := by
      by_cases ho : ∃ v side m l b, tx = .engine (.openPosition v side m l b)
      · obtain ⟨v, side, m, l, b, rfl⟩ := ho
        cases hx : applyTx w env s f (.engine (.openPosition v side m l b)) with
        | error e => rw [modelStep_err hx]; exact check_open_err w env s f v side m l b
        | ok w' => rw [modelStep_ok hx]; exact check_open_ok w w' env s f v side m l b hx
      · exact check_other _ (by
            intro v side m l b hh
            apply ho
            refine ⟨v, side, m, l, b, ?_⟩
            unfold modelStep at hh
            split at hh <;> exact hh) (by
            intro v l hh
            apply hcl
            refine ⟨v, l, ?_⟩
            unfold modelStep at hh
            split at hh <;> exact hh)
    rw [hnil] at ht
    cases ht

/-- **C15, clean form**: every transaction that is not a partial close -/
theorem sat_C15 (w : World) (env : Env) (s : Nat) (f : Funds) (tx : Tx) (hsd : SignDirE w.engine)
    (hnp : NoPartialClose w env s tx) :
    Spec.C15.check (modelStep w env s f tx) = [] := by
  by_cases ho : ∃ v side m l b, tx = .engine (.openPosition v side m l b)
  · obtain ⟨v, side, m, l, b, rfl⟩ := ho
    cases hx : applyTx w env s f (.engine (.openPosition v side m l b)) with
    | error e => rw [modelStep_err hx]; exact check_open_err w env s f v side m l b
    | ok w' => rw [modelStep_ok hx]; exact check_open_ok w w' env s f v side m l b hx
  · by_cases hcl : ∃ v l, tx = .engine (.closePosition v l)
    · obtain ⟨v, l, rfl⟩ := hcl
      cases hx : applyTx w env s f (.engine (.closePosition v l)) with
      | error e => rw [modelStep_err hx]; exact check_close_err w env s f v l
      | ok w' => rw [modelStep_ok hx]; exact (check_close_ok w w' env s f v l hx hsd).1 (hnp v l rfl)
    · exact check_other _ (by
          intro v side m l b hh
          apply ho
          refine ⟨v, side, m, l, b, ?_⟩
          unfold modelStep at hh
          split at hh <;> exact hh) (by
          intro v l hh
          apply hcl
          refine ⟨v, l, ?_⟩
          unfold modelStep at hh
          split at hh <;> exact hh)

end Perp.Props.SatC15
