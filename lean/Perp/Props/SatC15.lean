/-
  SatC15 — the model's step against `Spec.C15.check` (per-block price band).
-/
import Perp.Props.SatFlows
import Perp.Props.C15Band

namespace Perp.Props.SatC15
open Perp Perp.World Perp.Engine Perp.Spec Perp.Spec.W Perp.Props.ModelStep
open Perp.Props.Dispatch Perp.Props.SatTrace Perp.Props.SatFlows
open Perp.Props.MirrorP (AllCE SD SignDirE)
open Perp.Spec.C15 (band inside)

theorem q_isOverFluct' (w : World) (v : Nat) (d : Direction) (a : Nat) (r : Bool)
    (h : w.q.isOverFluct v d a = .ok r) :
    ∃ x, w.vamm? v = some x ∧ Vamm.queryIsOverFluctuationLimit x w.env d a = .ok r := by
  have h' : (do let x ← w.vammE v; Vamm.queryIsOverFluctuationLimit x w.env d a) = .ok r := h
  obtain ⟨x, hx, hq⟩ := EngineMoney.bind_ok h'
  exact ⟨x, (MirrorP.vammE_ok _ _ _).1 hx, hq⟩

/-- the direction `close_position` asks the fluctuation query about is the stored direction -/
theorem baseDir_eq (p : Position) (hp : SD p) (hnz : ¬ p.size.value = 0) :
    (if Integer.gt p.size Integer.zero then Direction.addToAmm else Direction.removeFromAmm) = p.direction := by
  have hv := C19.toInt_natAbs p.size
  by_cases hg : Integer.gt p.size Integer.zero = true
  · rw [if_pos hg]
    exact (hp.1 ((MirrorP.gt_zero_iff _).1 hg)).symm
  · rw [if_neg hg]
    have : ¬ 0 < p.size.toInt := fun hh => hg ((MirrorP.gt_zero_iff _).2 hh)
    exact (hp.2 (by omega)).symm

/-- a swap that went through with a limit is the swap without the limit -/
theorem swapOutput_drop_limit (x x' : Vamm.V) (env : Env) (s : Nat) (d : Direction) (amt lim : Nat) (o : Vamm.SwapOut)
    (hamt : amt ≠ 0) (h : Vamm.swapOutput x env s d amt lim = .ok (x', o)) :
    Vamm.swapOutput x env s d amt 0 = .ok (x', o) := by
  obtain ⟨q, hq, _⟩ := C17.swapOutput_inv _ _ _ _ _ _ _ _ h
  obtain ⟨h1, h2⟩ := C17.swapOutput_limit_iff x env s d amt lim hamt q hq
  cases hm : Spec.C17.outputLimitMet d lim q with
  | true => rw [← h1 hm]; exact h
  | false =>
    obtain ⟨e, he⟩ := h2 hm
    rw [he] at h
    cases h

/-! ### OpenPosition -/

theorem open_core (w w' : World) (env : Env) (s : Nat) (f : Funds) (v : Nat) (side : Side) (m l b : Nat)
    (h : applyTx w env s f (.engine (.openPosition v side m l b)) = .ok w')
    (x y : Vamm.V) (hxv : w.vamm? v = some x) (hyv : w'.vamm? v = some y)
    (hf : x.cfg.fluct ≠ 0) (bd : Nat × Nat)
    (hb : band x.cfg.decimals x.cfg.fluct x.st.snaps env.height = some bd) :
    inside x.cfg.decimals bd x.st.quote x.st.base = true
    ∧ ((readPosition w'.engine v s).size.value ≠ 0 → inside x.cfg.decimals bd y.st.quote y.st.base = true) := by
  obtain ⟨w1, e1, x0, sw, msgs, hst, _, hxv0, hex, hsw, sv, st, ss, hpos, hcfg, hcase⟩ :=
    open_flow w w' env s f v side m l b h
  rw [hxv] at hxv0
  cases hxv0
  rcases hcase with ⟨id, _, x', bo, w2, e3, subs3, hswap, _, _, _, hv'⟩
      | ⟨_, x1, qo, w2, e3, subs3, hswap, hrep, hcase2⟩
  · rw [hyv] at hv'
    cases hv'
    obtain ⟨h1, h2⟩ := C15B.swapInput_inside_band _ _ _ _ _ _ _ _ hf bd hb hswap
    exact ⟨h1, fun _ => h2⟩
  · have h1 := C15B.swapOutput_started_inside _ _ _ _ _ _ _ _ hf bd hb hswap
    refine ⟨h1, fun hnz => ?_⟩
    obtain ⟨hc1, hb1⟩ := C15B.swapOutput_band _ _ _ _ _ _ _ _ bd hb hswap
    rcases hcase2 with ⟨_, _, he3, _, _⟩ | ⟨fm, sw', x2, bo2, w4, e5, subs5, _, _, _, _, _, _, hswap2, _, _, _, hv2⟩
    · exfalso
      obtain ⟨p', hp', pv, pt, psz, _⟩ := MirrorP.reversePositionReply_eff _ _ _ _ sw hsw _ hrep
      dsimp only at hp' pv pt psz
      rw [sv, st, ss] at pv pt
      have hk := EngineMoney.getPosition_key env e1 v s side
      have hread3 : readPosition w'.engine v s = p' := by
        rw [he3]; exact read_of_store e1 e3 p' v s hp' (pv.trans hk.1) (pt.trans hk.2)
      rw [hread3] at hnz
      have := C19.toInt_natAbs p'.size
      omega
    · rw [hyv] at hv2
      cases hv2
      have hf1 : x1.cfg.fluct ≠ 0 := by rw [hc1]; exact hf
      obtain ⟨_, h2⟩ := C15B.swapInput_inside_band _ _ _ _ _ _ _ _ hf1 bd hb1 hswap2
      rw [hc1] at h2
      exact h2

/-! ### ClosePosition -/

theorem close_core (w w' : World) (env : Env) (s : Nat) (f : Funds) (v l : Nat)
    (h : applyTx w env s f (.engine (.closePosition v l)) = .ok w')
    (hsd : SignDirE w.engine)
    (x y : Vamm.V) (hxv : w.vamm? v = some x) (hyv : w'.vamm? v = some y)
    (hf : x.cfg.fluct ≠ 0) (hplr : w.engine.cfg.plr < w.engine.cfg.decimals) (bd : Nat × Nat)
    (hb : band x.cfg.decimals x.cfg.fluct x.st.snaps env.height = some bd) :
    (W.hasPos w' v s = false ∧ inside x.cfg.decimals bd y.st.quote y.st.base = true
      ∧ ({ w with env := env } : World).q.isOverFluct v
          (if Integer.gt (readPosition w.engine v s).size Integer.zero then .addToAmm else .removeFromAmm)
          (readPosition w.engine v s).size.value = .ok false)
    ∨ (W.hasPos w' v s = true
      ∧ (∀ z o, Vamm.swapOutput x env ENGINE (readPosition w.engine v s).direction
            (readPosition w.engine v s).size.value 0 = .ok (z, o) →
          inside x.cfg.decimals bd z.st.quote z.st.base = false)
      ∧ ({ w with env := env } : World).q.isOverFluct v
          (if Integer.gt (readPosition w.engine v s).size Integer.zero then .addToAmm else .removeFromAmm)
          (readPosition w.engine v s).size.value = .ok true) := by
  obtain ⟨w1, e1, x0, sw, msgs, over, hst, _, hxv0, hnz, pv, pt, hex, hsw, sv, st, hpos, hcfg, _, _, hover, hcase⟩ :=
    close_flow w w' env s f v l h
  rw [hxv] at hxv0
  cases hxv0
  have hbd := baseDir_eq _ (MirrorP.SD_read w.engine v s hsd) hnz
  -- the query as the pre-state (at the transaction's block) answers it
  have hover' : ({ w with env := env } : World).q.isOverFluct v
      (if Integer.gt (readPosition w.engine v s).size Integer.zero then .addToAmm else .removeFromAmm)
      (readPosition w.engine v s).size.value = .ok over := by
    obtain ⟨x1, hx1, hq1⟩ := q_isOverFluct' _ _ _ _ _ hover
    rw [hst.vamm? v, hxv] at hx1
    cases hx1
    rw [hst.env] at hq1
    show (do let x ← ({ w with env := env } : World).vammE v; Vamm.queryIsOverFluctuationLimit x env _ _) = _
    have : ({ w with env := env } : World).vammE v = .ok x := (MirrorP.vammE_ok _ _ _).2 hxv
    rw [this]
    exact hq1
  obtain ⟨x1, hx1, hq⟩ := q_isOverFluct' _ _ _ _ _ hover
  rw [hst.vamm? v, hxv] at hx1
  cases hx1
  rw [hst.env, hbd] at hq
  rcases hcase with ⟨hno, _, x', qo, w2, e3, subs3, hswap, _, _, _, hrep, _, he3, hv', _⟩
      | ⟨hyes, _, N, x', bo, w2, e3, subs3, hswap, hrep, _, he3, _⟩
  · left
    rw [hyv] at hv'
    cases hv'
    have hov : over = false := by
      cases over with
      | false => rfl
      | true => exact absurd ⟨rfl, hplr⟩ hno
    subst hov
    have hk := EngineMoney.getPosition_key env e1 sw.vamm sw.trader sw.side
    obtain ⟨hp', _⟩ := MirrorP.closePositionReply_eff _ _ _ _ sw hsw _ hrep
    have hhp := hasPos_remove e1 e3 w' _ v s he3 hp' (hk.1.trans sv) (hk.2.trans st)
    have hsw0 := swapOutput_drop_limit _ _ _ _ _ _ _ _ hnz hswap
    have := C15B.isOverFluctuation_spec _ _ _ _ _ _ _ _ hf bd hb hq hsw0
    refine ⟨hhp, ?_, hover'⟩
    cases hi : inside x.cfg.decimals bd y.st.quote y.st.base with
    | true => rfl
    | false => rw [hi] at this; cases this
  · right
    have hov : over = true := hyes.1
    subst hov
    have hk := EngineMoney.getPosition_key env e1 sw.vamm sw.trader sw.side
    obtain ⟨⟨p', hp', pv', pt', _, _⟩, _⟩ := MirrorP.partialClosePositionReply_eff _ _ _ _ _ sw hsw _ hrep
    dsimp only at hp' pv' pt'
    have hhp := hasPos_store e1 e3 w' p' v s he3 hp' ((pv'.trans hk.1).trans sv) ((pt'.trans hk.2).trans st)
    refine ⟨hhp, fun z o hz => ?_, hover'⟩
    have := C15B.isOverFluctuation_spec _ _ _ _ _ _ _ _ hf bd hb hq hz
    cases hi : inside x.cfg.decimals bd z.st.quote z.st.base with
    | false => rfl
    | true => rw [hi] at this; cases this


/-! ### the check -/

theorem ite_mem_pair {c : Prop} [Decidable c] (a b : String) : (if c then a else b) ∈ [a, b] := by
  by_cases h : c <;> simp [h]

theorem chk_true (c : Bool) (tag : String) (h : c = true) : W.chk c tag = [] := by
  unfold W.chk; rw [h]; rfl

theorem mem_chk {c : Bool} {tag t : String} (h : t ∈ W.chk c tag) : t = tag := by
  unfold W.chk at h
  split at h
  · cases h
  · simpa using h

/-- **sub-case hypothesis of `sat_C15`** (rule 3): the transaction is not a ClosePosition that the vAMM
    reports as over the fluctuation limit, i.e. the model does not take the partial-close path.  On that
    path the closed fraction is priced in quote and re-quoted in base, and differs from the configured
    fraction by the re-quote rounding (`…[within-requote-rounding]`), which for positions that are large
    relative to the base reserve exceeds even the specification's rounding bound (`…[gross]`,
    `SatE.c15_gross_witness`). -/
def NoPartialClose (w : World) (env : Env) (s : Nat) (tx : Tx) : Prop :=
  ∀ v l, tx = .engine (.closePosition v l) →
    ({ w with env := env } : World).q.isOverFluct v
      (if Integer.gt (readPosition w.engine v s).size Integer.zero then .addToAmm else .removeFromAmm)
      (readPosition w.engine v s).size.value ≠ .ok true

theorem check_open_err (w : World) (env : Env) (s : Nat) (f : Funds) (v : Nat) (side : Side) (m l b : Nat) :
    Spec.C15.check (errStep w env s f (.engine (.openPosition v side m l b))) = [] := by
  simp only [Spec.C15.check, W.engineMsg, errStep]
  cases w.vamm? v with
  | none => rfl
  | some x =>
    simp only []
    split
    · rfl
    · split
      · simp [W.chk]
      · rfl

theorem check_open_ok (w w' : World) (env : Env) (s : Nat) (f : Funds) (v : Nat) (side : Side) (m l b : Nat)
    (h : applyTx w env s f (.engine (.openPosition v side m l b)) = .ok w') :
    Spec.C15.check (okStep w w' env s f (.engine (.openPosition v side m l b))) = [] := by
  simp only [Spec.C15.check, W.engineMsg, okStep, W.pos]
  cases hxv : w.vamm? v with
  | none => rfl
  | some x =>
    cases hyv : w'.vamm? v with
    | none => rfl
    | some y =>
      simp only []
      by_cases hf : x.cfg.fluct = 0
      · simp [hf]
      · have hf' : (x.cfg.fluct == 0) = false := by simpa using hf
        simp only [hf', Bool.false_eq_true, ↓reduceIte]
        cases hb : band x.cfg.decimals x.cfg.fluct x.st.snaps env.height with
        | none => rfl
        | some bd =>
          simp only []
          obtain ⟨h1, h2⟩ := open_core w w' env s f v side m l b h x y hxv hyv hf bd hb
          refine List.append_eq_nil_iff.2 ⟨chk_true _ _ (by simp [h1]), chk_true _ _ ?_⟩
          by_cases hz : (readPosition w'.engine v s).size.value = 0
          · simp [Integer.isZero, hz]
          · simp [h2 hz]

theorem check_close_err (w : World) (env : Env) (s : Nat) (f : Funds) (v l : Nat) :
    Spec.C15.check (errStep w env s f (.engine (.closePosition v l))) = [] := by
  simp only [Spec.C15.check, W.engineMsg, errStep]
  rfl

theorem check_close_ok (w w' : World) (env : Env) (s : Nat) (f : Funds) (v l : Nat)
    (h : applyTx w env s f (.engine (.closePosition v l)) = .ok w') (hsd : SignDirE w.engine) :
    (({ w with env := env } : World).q.isOverFluct v
        (if Integer.gt (readPosition w.engine v s).size Integer.zero then .addToAmm else .removeFromAmm)
        (readPosition w.engine v s).size.value ≠ .ok true →
      Spec.C15.check (okStep w w' env s f (.engine (.closePosition v l))) = [])
    ∧ ∀ tag ∈ Spec.C15.check (okStep w w' env s f (.engine (.closePosition v l))),
        tag ∈ ["partial-close-not-the-configured-fraction[within-requote-rounding]",
               "partial-close-not-the-configured-fraction[gross]"] := by
  simp only [Spec.C15.check, W.engineMsg, okStep, W.pos, Bool.not_true, Bool.false_eq_true, ↓reduceIte]
  cases hxv : w.vamm? v with
  | none => exact ⟨fun _ => by first | rfl | trivial, fun tag ht => by cases ht⟩
  | some x =>
    cases hyv : w'.vamm? v with
    | none => exact ⟨fun _ => by first | rfl | trivial, fun tag ht => by cases ht⟩
    | some y =>
      simp only []
      by_cases hf : x.cfg.fluct = 0
      · have hf' : (x.cfg.fluct == 0) = true := by simp [hf]
        simp only [hf', Bool.true_or, ↓reduceIte]
        exact ⟨fun _ => by first | rfl | trivial, fun tag ht => by cases ht⟩
      by_cases hp : w.engine.cfg.plr ≥ w.engine.cfg.decimals
      · simp only [hp, decide_true, Bool.or_true, ↓reduceIte]
        exact ⟨fun _ => by first | rfl | trivial, fun tag ht => by cases ht⟩
      · have hf' : (x.cfg.fluct == 0) = false := by simpa using hf
        simp only [hf', hp, decide_false, Bool.or_false, Bool.false_eq_true, ↓reduceIte]
        have hc' : ¬ x.cfg.fluct = 0 ∧ w.engine.cfg.plr < w.engine.cfg.decimals := ⟨hf, by omega⟩
        cases hb : band x.cfg.decimals x.cfg.fluct x.st.snaps env.height with
        | none => exact ⟨fun _ => by first | rfl | trivial, fun tag ht => by cases ht⟩
        | some bd =>
          simp only []
          rcases close_core w w' env s f v l h hsd x y hxv hyv hc'.1 hc'.2 bd hb with ⟨hp, hi, _⟩ | ⟨hp, hz, hov⟩
          · simp only [hp, Bool.not_false, ↓reduceIte]
            rw [chk_true _ _ hi]
            exact ⟨fun _ => by first | rfl | trivial, fun tag ht => by cases ht⟩
          · simp only [hp, Bool.not_true, Bool.false_eq_true, ↓reduceIte]
            have hfin : ∀ (c : Bool) (t : String),
                (({ w with env := env } : World).q.isOverFluct v
                    (if Integer.gt (readPosition w.engine v s).size Integer.zero then .addToAmm else .removeFromAmm)
                    (readPosition w.engine v s).size.value ≠ .ok true → W.chk c t = [])
                ∧ ∀ tag ∈ W.chk c t, tag = t :=
              fun c t => ⟨fun hne => absurd hov hne, fun tag ht => mem_chk ht⟩
            cases hsw : Vamm.swapOutput x env ENGINE (readPosition w.engine v s).direction
                (readPosition w.engine v s).size.value 0 with
            | error e =>
              simp only [List.append_nil]
              refine ⟨(hfin _ _).1, fun tag ht => ?_⟩
              rw [(hfin _ _).2 tag ht]
              exact ite_mem_pair _ _
            | ok r =>
              obtain ⟨z, o⟩ := r
              simp only []
              rw [chk_true (!inside x.cfg.decimals bd z.st.quote z.st.base) _ (by rw [hz z o hsw]; rfl), List.append_nil]
              refine ⟨(hfin _ _).1, fun tag ht => ?_⟩
              rw [(hfin _ _).2 tag ht]
              exact ite_mem_pair _ _

theorem check_other (st : Step) (h1 : ∀ v side m l b, st.tx ≠ .engine (.openPosition v side m l b))
    (h2 : ∀ v l, st.tx ≠ .engine (.closePosition v l)) : Spec.C15.check st = [] := by
  unfold Spec.C15.check W.engineMsg
  split
  · rename_i hm
    split at hm
    · rename_i m' htx
      injection hm with hm
      subst hm
      exact absurd htx (h1 _ _ _ _ _)
    · cases hm
  · rename_i hm
    split at hm
    · rename_i m' htx
      injection hm with hm
      subst hm
      exact absurd htx (h2 _ _)
    · cases hm
  · rfl


theorem check_nil_of (st : Step) (h : Spec.C15.check st = []) (P : String → Prop) : ∀ tag ∈ Spec.C15.check st, P tag := by
  rw [h]; intro tag ht; cases ht

/-- **C15, general form**: under the sign/direction invariant the only clause that can fail is the size of
    a partial close (both tags: the re-quote rounding, and — for positions large relative to the base
    reserve — more than the specification's rounding bound) -/
theorem C15_tags (w : World) (env : Env) (s : Nat) (f : Funds) (tx : Tx) (hsd : SignDirE w.engine) :
    ∀ tag ∈ Spec.C15.check (modelStep w env s f tx),
      tag ∈ ["partial-close-not-the-configured-fraction[within-requote-rounding]",
             "partial-close-not-the-configured-fraction[gross]"] := by
  by_cases ho : ∃ v side m l b, tx = .engine (.openPosition v side m l b)
  · obtain ⟨v, side, m, l, b, rfl⟩ := ho
    cases hx : applyTx w env s f (.engine (.openPosition v side m l b)) with
    | error e => rw [modelStep_err hx]; exact check_nil_of _ (check_open_err w env s f v side m l b) _
    | ok w' => rw [modelStep_ok hx]; exact check_nil_of _ (check_open_ok w w' env s f v side m l b hx) _
  · by_cases hcl : ∃ v l, tx = .engine (.closePosition v l)
    · obtain ⟨v, l, rfl⟩ := hcl
      cases hx : applyTx w env s f (.engine (.closePosition v l)) with
      | error e => rw [modelStep_err hx]; exact check_nil_of _ (check_close_err w env s f v l) _
      | ok w' => rw [modelStep_ok hx]; exact (check_close_ok w w' env s f v l hx hsd).2
    · exact check_nil_of _
        (check_other _ (by
            intro v side m l b hh
            apply ho
            refine ⟨v, side, m, l, b, ?_⟩
            unfold modelStep at hh
            split at hh <;> exact hh) (by
            intro v l hh
            apply hcl
            refine ⟨v, l, ?_⟩
            unfold modelStep at hh
            split at hh <;> exact hh)) _

/-- **C15, clean form**: every transaction that is not a partial close -/
theorem sat_C15 (w : World) (env : Env) (s : Nat) (f : Funds) (tx : Tx) (hsd : SignDirE w.engine)
    (hnp : NoPartialClose w env s tx) :
    Spec.C15.check (modelStep w env s f tx) = [] := by
  by_cases ho : ∃ v side m l b, tx = .engine (.openPosition v side m l b)
  · obtain ⟨v, side, m, l, b, rfl⟩ := ho
    cases hx : applyTx w env s f (.engine (.openPosition v side m l b)) with
    | error e => rw [modelStep_err hx]; exact check_open_err w env s f v side m l b
    | ok w' => rw [modelStep_ok hx]; exact check_open_ok w w' env s f v side m l b hx
  · by_cases hcl : ∃ v l, tx = .engine (.closePosition v l)
    · obtain ⟨v, l, rfl⟩ := hcl
      cases hx : applyTx w env s f (.engine (.closePosition v l)) with
      | error e => rw [modelStep_err hx]; exact check_close_err w env s f v l
      | ok w' => rw [modelStep_ok hx]; exact (check_close_ok w w' env s f v l hx hsd).1 (hnp v l rfl)
    · exact check_other _ (by
          intro v side m l b hh
          apply ho
          refine ⟨v, side, m, l, b, ?_⟩
          unfold modelStep at hh
          split at hh <;> exact hh) (by
          intro v l hh
          apply hcl
          refine ⟨v, l, ?_⟩
          unfold modelStep at hh
          split at hh <;> exact hh)

end Perp.Props.SatC15
