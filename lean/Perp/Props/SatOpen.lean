/-
  C12, open-position part: the transfer log of an `OpenPosition` transaction (increase, reduce,
  reversal with or without a second leg) credits the fee pool exactly once with the toll, the
  insurance fund with the spread, and draws on the insurance fund exactly what is booked as
  pre-paid bad debt.
-/
import Perp.Props.TxFlow
import Perp.Props.Mirror.Flow

namespace Perp.Props.SatOpen
open Perp Perp.World Perp.Engine
open Perp.Props.TxLog Perp.Props.TxMoney Perp.Props.TxFlow
open Perp.Props.MirrorP (AllCE vammE_ok setVamm_vamm_same)

/-- toll and spread of a notional at a vAMM's configuration (the arithmetic of `Spec.C12.fees`) -/
def feeOn (x : Vamm.V) (N : Nat) : Nat × Nat := (N * x.cfg.toll / x.cfg.decimals, N * x.cfg.spread / x.cfg.decimals)

theorem queryCalcFee_spec (x : Vamm.V) (N tl sp : Nat) (h : Vamm.queryCalcFee x N = .ok (tl, sp)) :
    feeOn x N = (tl, sp) := by
  unfold Vamm.queryCalcFee at h
  unfold feeOn
  split at h
  · rename_i h0
    injection h with h
    injection h with h1 h2
    subst h0 h1 h2
    simp
  · simp at h
    obtain ⟨xx, ⟨_, h1⟩, t, ⟨_, ht⟩, vv, ⟨_, hv⟩, ⟨_, hsp⟩, htl⟩ := h
    subst h1 hv ht hsp htl
    rfl

theorem calcFee_ok (w : World) (v N tl sp : Nat) (h : w.q.calcFee v N = .ok (tl, sp)) :
    ∃ x, w.vamm? v = some x ∧ feeOn x N = (tl, sp) := by
  have h' : (do let x ← w.vammE v; Vamm.queryCalcFee x N) = .ok (tl, sp) := h
  simp only [bind_ok_iff] at h'
  obtain ⟨x, hx, hq⟩ := h'
  exact ⟨x, (vammE_ok w v x).1 hx, queryCalcFee_spec x N tl sp hq⟩

theorem feeOn_cfg (x y : Vamm.V) (N : Nat) (h : y.cfg = x.cfg) : feeOn y N = feeOn x N := by
  unfold feeOn; rw [h]

/-- replacing one vAMM record by one with the same configuration keeps every `feeOn` -/
theorem setVamm_fee (W : World) (a : Nat) (x x' : Vamm.V) (hx : W.vamm? a = some x) (hc : x'.cfg = x.cfg)
    (b : Nat) (y : Vamm.V) (hy : (W.setVamm a x').vamm? b = some y) :
    ∃ y0, W.vamm? b = some y0 ∧ ∀ N, feeOn y N = feeOn y0 N := by
  by_cases hb : b = a
  · subst hb
    rw [setVamm_vamm_same _ _ _ _ hx] at hy
    cases hy
    exact ⟨x, hx, fun N => feeOn_cfg _ _ N hc⟩
  · rw [Dispatch.setVamm_vamm_ne _ _ _ _ hb] at hy
    exact ⟨y, hy, fun _ => rfl⟩

/-- one `update_position_reply` leg (reply ids 1, 2): the swap, the reply, and the reply's messages -/
theorem leg_update (fuel : Nat) (W w' : World) (a : Nat) (side : Side) (N lim id : Nat)
    (hid : id = REPLY_INCREASE ∨ id = REPLY_DECREASE) (sw : TmpSwap) (hsw : W.engine.tmpSwap = some sw)
    (hif : W.engine.cfg.insuranceFund = IFUND) (hfp : W.engine.cfg.feePool = FEEPOOL) (hs : Outside sw.trader)
    (h : execSubs fuel W ENGINE [swapInputMsg a side N lim false id] = .ok w') :
    ∃ sf : Nat, w'.engine.st.prepaid = W.engine.st.prepaid + sf
      ∧ (sw.feesPaid = true → ∃ L, w'.log = W.log ++ L ∧ Is L 0 0 0 sf 0)
      ∧ (sw.feesPaid = false → ∃ L y0 tl sp, w'.log = W.log ++ L ∧ W.vamm? sw.vamm = some y0
            ∧ feeOn y0 sw.openNotional = (tl, sp) ∧ Is L tl 0 sp sf (if tl = 0 then 0 else 1)) := by
  obtain ⟨f1, w2, ev, e2, subs2, hx, hr, hrun⟩ := swap_reply fuel W w' _ rfl h
  have hx' : execMsg f1 W ENGINE (.vammSwapInput a (sideToDirection side) N lim false) = .ok (w2, ev) := hx
  obtain ⟨x, x', bb, hxa, rfl, _, rfl, hc, _⟩ := swapIn_exec _ _ _ _ _ _ _ _ _ hx'
  have h' : updatePositionReply (W.setVamm a x').q W.engine W.env N bb id = .ok (e2, subs2) := by
    rcases hid with rfl | rfl <;> exact hr
  obtain ⟨sf, ms, hpp, hvm, hf1, hf2⟩ := updatePositionReply_money _ _ _ _ _ _ _ _ sw hsw h'
  have hce : AllCE subs2 := ((MirrorP.updatePositionReply_eff _ _ _ _ _ _ sw hsw) _ h').2
  obtain ⟨hsame, hlog⟩ := run_CE_all subs2 f1 _ w' hce hrun
  have hIv := Is_vault _ _ _ _ hvm hs
  refine ⟨sf, ?_, ?_, ?_⟩
  · rw [hsame.engine]; exact hpp
  · intro hfp'
    rw [hf1 hfp'] at hlog
    exact ⟨_, hlog, hIv⟩
  · intro hfp'
    obtain ⟨fm, sp, tl, htf, hm⟩ := hf2 hfp'
    rw [hm] at hlog
    obtain ⟨hcf, _⟩ := EngineGuards.transferFees_spec _ _ _ _ _ _ _ _ htf
    obtain ⟨y, hy, hfee⟩ := calcFee_ok _ _ _ _ _ hcf
    obtain ⟨y0, hy0, hsame'⟩ := setVamm_fee W a x x' hxa hc _ _ hy
    refine ⟨_, y0, tl, sp, hlog, hy0, by rw [← hsame', hfee], ?_⟩
    show Is (ents (ms ++ fm)) _ _ _ _ _
    rw [ents_append]
    exact Is_cast (Is_append hIv (Is_fees _ _ _ _ _ _ _ _ htf hif hfp hs)) (by omega) rfl (by omega) (by omega) (by omega)


/-- a reversal (reply id 3): first leg with the fee, then the payout or the second leg -/
theorem leg_reverse (fuel : Nat) (W w' : World) (a : Nat) (sd : Side) (n : Nat)
    (sw : TmpSwap) (hsw : W.engine.tmpSwap = some sw)
    (hif : W.engine.cfg.insuranceFund = IFUND) (hfp : W.engine.cfg.feePool = FEEPOOL) (hs : Outside sw.trader)
    (h : execSubs fuel W ENGINE [swapOutputMsg a sd n 0 REPLY_REVERSE] = .ok w') :
    ∃ L y0 tl sp, w'.log = W.log ++ L ∧ W.vamm? sw.vamm = some y0
      ∧ feeOn y0 sw.openNotional = (tl, sp)
      ∧ Is L tl 0 sp ((w'.engine.st.prepaid : Int) - (W.engine.st.prepaid : Int)) (if tl = 0 then 0 else 1) := by
  obtain ⟨f1, w2, ev, e2, subs2, hx, hr, hrun⟩ := swap_reply fuel W w' _ rfl h
  have hx' : execMsg f1 W ENGINE (.vammSwapOutput a (sideToDirection sd) n 0) = .ok (w2, ev) := hx
  obtain ⟨x, x', qq, hxa, rfl, _, rfl, hc, _⟩ := swapOut_exec _ _ _ _ _ _ _ _ hx'
  have h' : reversePositionReply (W.setVamm a x').q W.engine W.env qq = .ok (e2, subs2) := hr
  have hcfg : e2.cfg = W.engine.cfg := (EngineGuards.reversePositionReply_cfg _ _ _ _) _ h'
  obtain ⟨fm, sp, tl, last, htf, hm, hpp, hlast⟩ := reversePositionReply_money _ _ _ _ _ _ sw hsw h'
  obtain ⟨hcf, _⟩ := EngineGuards.transferFees_spec _ _ _ _ _ _ _ _ htf
  obtain ⟨y, hy, hfee⟩ := calcFee_ok _ _ _ _ _ hcf
  obtain ⟨y0, hy0, hsame'⟩ := setVamm_fee W a x x' hxa hc _ _ hy
  have hfce : AllCE fm := MirrorP.transferFees_allCE' _ _ _ _ _ _ htf
  have hIf := Is_fees _ _ _ _ _ _ _ _ htf hif hfp hs
  rw [hm] at hrun
  rcases hlast with ⟨amt, rfl⟩ | ⟨sw', hs', hfp', htr, hvm, rfl⟩
  · have hce : AllCE (fm ++ [transferMsg W.engine.cfg sw.trader amt]) :=
      MirrorP.AllCE_append hfce (MirrorP.AllCE_cons (MirrorP.CE_transferMsg _ _ _) MirrorP.AllCE_nil)
    obtain ⟨hsame, hlog⟩ := run_CE_all _ f1 _ w' hce hrun
    refine ⟨_, y0, tl, sp, hlog, hy0, by rw [← hsame', hfee], ?_⟩
    show Is (ents (fm ++ [transferMsg W.engine.cfg sw.trader amt])) _ _ _ _ _
    rw [ents_append, ents_single, xf_transferMsg]
    have hpl := Is_plain ENGINE sw.trader amt (by decide) hs.2.2 (by decide) hs.2.1
    have hpre : (w'.engine.st.prepaid : Int) - (W.engine.st.prepaid : Int) = 0 := by
      rw [hsame.engine]
      show (e2.st.prepaid : Int) - _ = 0
      rw [hpp]; omega
    rw [hpre]
    exact Is_cast (Is_append hIf hpl) (by omega) rfl (by omega) rfl (by omega)
  · obtain ⟨fuel', W3, h3, hsame3, hlog3⟩ := run_CE fm f1 _ w' _ hfce hrun
    have he3 : W3.engine = e2 := hsame3.engine
    obtain ⟨sf, hpp2, hL, _⟩ := leg_update fuel' W3 w' sw.vamm sw.side sw'.openNotional 0 REPLY_INCREASE (Or.inl rfl) sw'
      (by rw [he3]; exact hs') (by rw [he3, hcfg]; exact hif) (by rw [he3, hcfg]; exact hfp) (by rw [htr]; exact hs) h3
    obtain ⟨L, hlogL, hIL⟩ := hL hfp'
    refine ⟨ents fm ++ L, y0, tl, sp, ?_, hy0, by rw [← hsame', hfee], ?_⟩
    · rw [hlogL, hlog3, List.append_assoc]
      rfl
    · have hpre : (w'.engine.st.prepaid : Int) - (W.engine.st.prepaid : Int) = sf := by
        rw [hpp2, he3, hpp]; omega
      rw [hpre]
      exact Is_cast (Is_append hIf hIL) (by omega) rfl (by omega) (by omega) (by omega)

/-- **C12, open**: the pool measures of the log of a successful `OpenPosition` -/
theorem open_facts (w w' : World) (env : Env) (s : Nat) (f : Funds) (v : Nat) (side : Side) (m l b : Nat)
    (hp : PoolsWired w) (hs : Outside s)
    (h : applyTx w env s f (.engine (.openPosition v side m l b)) = .ok w') :
    ∃ y0 tl sp, w.vamm? v = some y0 ∧ feeOn y0 (m * l / w.engine.cfg.decimals) = (tl, sp)
      ∧ Is w'.log tl 0 sp ((w'.engine.st.prepaid : Int) - (w.engine.st.prepaid : Int)) (if tl = 0 then 0 else 1) := by
  obtain ⟨w1, e1, subs, he, henv, hv, hi, hlog, _, hex, hrun⟩ := tx_decomp w w' env s f _ h
  have hex' : openPosition w1.q w1.engine env s f v side m l b = .ok (e1, subs) := hex
  obtain ⟨tmp, sfd, he1, htv, htt, hts, hto, htf, hshape⟩ := openPosition_tmp _ _ _ _ _ _ _ _ _ _ _ _ hex'
  have hvm : ∀ a, w1.vamm? a = w.vamm? a := fun a => by unfold World.vamm?; rw [hv]
  have hsw : ({ w1 with engine := e1 } : World).engine.tmpSwap = some tmp := by rw [he1]
  have hif : ({ w1 with engine := e1 } : World).engine.cfg.insuranceFund = IFUND := by
    show e1.cfg.insuranceFund = IFUND
    rw [he1]; show w1.engine.cfg.insuranceFund = IFUND; rw [he]; exact hp.1
  have hfp : ({ w1 with engine := e1 } : World).engine.cfg.feePool = FEEPOOL := by
    show e1.cfg.feePool = FEEPOOL
    rw [he1]; show w1.engine.cfg.feePool = FEEPOOL; rw [he]; exact hp.2
  have hpp0 : ({ w1 with engine := e1 } : World).engine.st.prepaid = w.engine.st.prepaid := by
    show e1.st.prepaid = _
    rw [he1]; show w1.engine.st.prepaid = _; rw [he]
  have hlog0 : ({ w1 with engine := e1 } : World).log = w1.log := rfl
  have hvm0 : ∀ a, ({ w1 with engine := e1 } : World).vamm? a = w1.vamm? a := fun a => rfl
  have hsT : Outside tmp.trader := by rw [htt]; exact hs
  have hIfu := Is_funds w.engine.cfg.native s f hs
  rw [← hlog] at hIfu
  rcases hshape with ⟨N, lim, rfl⟩ | ⟨N, lim, rfl⟩ | ⟨sd, n, rfl⟩
  · obtain ⟨sf, hpp, _, hL⟩ := leg_update FUEL _ w' v side N lim REPLY_INCREASE (Or.inl rfl) tmp hsw hif hfp hsT hrun
    obtain ⟨L, y0, tl, sp, hlogL, hy0, hfee, hIL⟩ := hL htf
    refine ⟨y0, tl, sp, ?_, ?_, ?_⟩
    · rw [← hvm, ← hvm0, ← htv]; exact hy0
    · rw [← he, ← hto]; exact hfee
    · rw [hlogL, hlog0]
      have hpre : (w'.engine.st.prepaid : Int) - (w.engine.st.prepaid : Int) = sf := by
        rw [hpp, hpp0]; omega
      rw [hpre]
      exact Is_cast (Is_append hIfu hIL) (by omega) rfl (by omega) (by omega) (by omega)
  · obtain ⟨sf, hpp, _, hL⟩ := leg_update FUEL _ w' v side N lim REPLY_DECREASE (Or.inr rfl) tmp hsw hif hfp hsT hrun
    obtain ⟨L, y0, tl, sp, hlogL, hy0, hfee, hIL⟩ := hL htf
    refine ⟨y0, tl, sp, ?_, ?_, ?_⟩
    · rw [← hvm, ← hvm0, ← htv]; exact hy0
    · rw [← he, ← hto]; exact hfee
    · rw [hlogL, hlog0]
      have hpre : (w'.engine.st.prepaid : Int) - (w.engine.st.prepaid : Int) = sf := by
        rw [hpp, hpp0]; omega
      rw [hpre]
      exact Is_cast (Is_append hIfu hIL) (by omega) rfl (by omega) (by omega) (by omega)
  · obtain ⟨L, y0, tl, sp, hlogL, hy0, hfee, hIL⟩ := leg_reverse FUEL _ w' v sd n tmp hsw hif hfp hsT hrun
    refine ⟨y0, tl, sp, ?_, ?_, ?_⟩
    · rw [← hvm, ← hvm0, ← htv]; exact hy0
    · rw [← he, ← hto]; exact hfee
    · rw [hlogL, hlog0, ← hpp0]
      exact Is_cast (Is_append hIfu hIL) (by omega) rfl (by omega) (by omega) (by omega)

end Perp.Props.SatOpen
