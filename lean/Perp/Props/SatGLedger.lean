/-
  SatG, part 3b — ledger steps as relations on balances: what a successful (optional) transfer says about
  the balances before and after, and when a transfer goes through.
-/
import Perp.Props.SatGRun

namespace Perp.Props.SatGLedger
open Perp Perp.World Perp.Engine Perp.Props.SatGRun

/-- everything but ledger and log is untouched -/
def Fr (W W1 : World) : Prop :=
  W1.engine = W.engine ∧ W1.vamms = W.vamms ∧ W1.ifund = W.ifund ∧ W1.feePool = W.feePool ∧ W1.feed = W.feed
  ∧ W1.env = W.env

theorem Fr.refl (W : World) : Fr W W := ⟨rfl, rfl, rfl, rfl, rfl, rfl⟩
theorem Fr.trans {a b c : World} (h1 : Fr a b) (h2 : Fr b c) : Fr a c :=
  ⟨h2.1.trans h1.1, h2.2.1.trans h1.2.1, h2.2.2.1.trans h1.2.2.1, h2.2.2.2.1.trans h1.2.2.2.1,
   h2.2.2.2.2.1.trans h1.2.2.2.2.1, h2.2.2.2.2.2.trans h1.2.2.2.2.2⟩

/-- the log entry of an optional transfer (nothing is sent when the amount is zero) -/
def optE (src dst a : Nat) : List (Nat × Nat × Nat) := if a ≠ 0 then [(src, dst, a)] else []

/-- `W1` is `W` after moving `a` from `src` to `dst` (`src ≠ dst`), as far as balances and the log go -/
structure Mv (W W1 : World) (src dst a : Nat) : Prop where
  fr : Fr W W1
  log : W1.log = W.log ++ optE src dst a
  has : a ≤ W.ledger.balance src
  room : W.ledger.balance dst + a ≤ U128.MAX ∨ a = 0
  bsrc : W1.ledger.balance src = W.ledger.balance src - a
  bdst : W1.ledger.balance dst = W.ledger.balance dst + a
  bother : ∀ x, x ≠ src → x ≠ dst → W1.ledger.balance x = W.ledger.balance x
  allowOther : ∀ x, x ≠ src → Ledger.get W1.ledger.allow x = Ledger.get W.ledger.allow x

/-! ### `move` -/

theorem move_inv (g g' : Ledger) (src dst a : Nat) (hne : src ≠ dst) (h : Ledger.move g src dst a = .ok g') :
    a ≤ g.balance src ∧ g.balance dst + a ≤ U128.MAX ∧ g'.balance src = g.balance src - a
    ∧ g'.balance dst = g.balance dst + a ∧ (∀ x, x ≠ src → x ≠ dst → g'.balance x = g.balance x)
    ∧ g'.allow = g.allow := by
  have hfr := fun x h1 h2 => Dispatch.move_frame g g' src dst a x h h1 h2
  unfold Ledger.move at h
  split at h
  · cases h
  · rename_i h1
    simp only [] at h
    split at h
    · cases h
    · rename_i h2
      injection h with h
      subst h
      simp only [Ledger.balance] at h1 h2 ⊢
      rw [Ledger.get_set_ne _ _ _ _ (fun hh => hne hh.symm)] at h2
      refine ⟨by omega, by omega, ?_, ?_, hfr, trivial⟩
      · rw [Ledger.get_set_ne _ _ _ _ hne, Ledger.get_set_self]
      · rw [Ledger.get_set_self, Ledger.get_set_ne _ _ _ _ (fun hh => hne hh.symm)]

theorem move_ok (g : Ledger) (src dst a : Nat) (hne : src ≠ dst) (h1 : a ≤ g.balance src)
    (h2 : g.balance dst + a ≤ U128.MAX) : ∃ g', Ledger.move g src dst a = .ok g' := by
  unfold Ledger.move
  rw [if_neg (by omega)]
  have h3 : ¬ (Ledger.balance { g with bal := Ledger.set g.bal src (g.balance src - a) } dst + a > U128.MAX) := by
    simp only [Ledger.balance]
    rw [Ledger.get_set_ne _ _ _ _ (fun hh => hne hh.symm)]
    simp only [Ledger.balance] at h2
    omega
  simp only []
  rw [if_neg h3]
  exact ⟨_, rfl⟩


/-! ### single steps -/

theorem Mv.zero (W : World) (src dst : Nat) : Mv W W src dst 0 where
  fr := Fr.refl W
  log := by simp [optE]
  has := Nat.zero_le _
  room := Or.inr rfl
  bsrc := rfl
  bdst := rfl
  bother := fun _ _ _ => rfl
  allowOther := fun _ _ => rfl

theorem mv_of_move (W : World) (g : Ledger) (src dst a : Nat) (hne : src ≠ dst) (ha : a ≠ 0)
    (h : Ledger.move W.ledger src dst a = .ok g) :
    Mv W { W with ledger := g, log := W.log ++ [(src, dst, a)] } src dst a := by
  obtain ⟨h1, h2, h3, h4, h5, h6⟩ := move_inv _ _ _ _ _ hne h
  exact ⟨Fr.refl _, by simp [optE, ha], h1, Or.inl h2, h3, h4, h5, fun x _ => by show Ledger.get g.allow x = _; rw [h6]⟩

theorem send_mv (W W1 : World) (d a : Nat) (hne : ENGINE ≠ d) (h : stepX W (.bankSend d a) = some W1) :
    Mv W W1 ENGINE d a ∧ a ≠ 0 := by
  unfold stepX at h
  dsimp only [] at h
  cases hg : W.ledger.bankSend ENGINE d a with
  | error e => rw [hg] at h; cases h
  | ok g =>
    rw [hg] at h
    injection h with h
    subst h
    unfold Ledger.bankSend at hg
    split at hg
    · cases hg
    · rename_i ha
      exact ⟨mv_of_move W g ENGINE d a hne ha hg, ha⟩

theorem xfer_mv (W W1 : World) (d a : Nat) (hne : ENGINE ≠ d) (h : stepX W (.tokenTransfer d a) = some W1) :
    Mv W W1 ENGINE d a ∧ a ≠ 0 := send_mv W W1 d a hne h

theorem send_ok (W : World) (d a : Nat) (hne : ENGINE ≠ d) (ha : a ≠ 0) (h1 : a ≤ W.ledger.balance ENGINE)
    (h2 : W.ledger.balance d + a ≤ U128.MAX) : ∃ W1, stepX W (.bankSend d a) = some W1 := by
  obtain ⟨g, hg⟩ := move_ok W.ledger ENGINE d a hne h1 h2
  unfold stepX
  dsimp only []
  have : W.ledger.bankSend ENGINE d a = .ok g := by unfold Ledger.bankSend; rw [if_neg ha]; exact hg
  rw [this]
  exact ⟨_, rfl⟩

theorem xfer_ok (W : World) (d a : Nat) (hne : ENGINE ≠ d) (ha : a ≠ 0) (h1 : a ≤ W.ledger.balance ENGINE)
    (h2 : W.ledger.balance d + a ≤ U128.MAX) : ∃ W1, stepX W (.tokenTransfer d a) = some W1 :=
  send_ok W d a hne ha h1 h2

/-- a pull: a move plus the allowance bookkeeping -/
structure Pl (W W1 : World) (o d a : Nat) : Prop extends Mv W W1 o d a where
  allowed : a ≤ Ledger.get W.ledger.allow o
  allowAfter : Ledger.get W1.ledger.allow o = Ledger.get W.ledger.allow o - a

theorem Pl.zero (W : World) (o d : Nat) : Pl W W o d 0 :=
  { Mv.zero W o d with allowed := Nat.zero_le _, allowAfter := rfl }

theorem pull_pl (W W1 : World) (o d a : Nat) (hne : o ≠ d) (h : stepX W (.tokenTransferFrom o d a) = some W1) :
    Pl W W1 o d a ∧ a ≠ 0 := by
  unfold stepX at h
  dsimp only [] at h
  cases hg : W.ledger.tokenTransferFrom o d a with
  | error e => rw [hg] at h; cases h
  | ok g =>
    rw [hg] at h
    injection h with h
    subst h
    unfold Ledger.tokenTransferFrom at hg
    split at hg
    · cases hg
    · rename_i ha
      split at hg
      · cases hg
      · rename_i hal
        rw [SatGDeposit.move_allow] at hg
        obtain ⟨g1, hg1, rfl⟩ := (Dispatch.exmap_ok _ _ _).1 hg
        obtain ⟨h1, h2, h3, h4, h5, h6⟩ := move_inv _ _ _ _ _ hne hg1
        refine ⟨⟨⟨Fr.refl _, by simp [optE, ha], h1, Or.inl h2, h3, h4, h5, fun x hx => ?_⟩, by omega, ?_⟩, ha⟩
        · show Ledger.get (Ledger.set W.ledger.allow o _) x = _
          rw [Ledger.get_set_ne _ _ _ _ hx]
        · show Ledger.get (Ledger.set W.ledger.allow o _) o = _
          rw [Ledger.get_set_self]

theorem pull_ok (W : World) (o d a : Nat) (hne : o ≠ d) (ha : a ≠ 0) (hal : a ≤ Ledger.get W.ledger.allow o)
    (h1 : a ≤ W.ledger.balance o) (h2 : W.ledger.balance d + a ≤ U128.MAX) :
    ∃ W1, stepX W (.tokenTransferFrom o d a) = some W1 := by
  obtain ⟨g, hg⟩ := move_ok W.ledger o d a hne h1 h2
  unfold stepX
  dsimp only []
  have : W.ledger.tokenTransferFrom o d a
      = .ok { g with allow := Ledger.set W.ledger.allow o (Ledger.get W.ledger.allow o - a) } := by
    unfold Ledger.tokenTransferFrom
    rw [if_neg ha, if_neg (by omega), SatGDeposit.move_allow, hg]
    rfl
  rw [this]
  exact ⟨_, rfl⟩

/-! ### optional steps and lists -/

/-- run the message unless the amount is zero -/
def optStep (W : World) (msg : Msg) (a : Nat) : Option World := if a ≠ 0 then stepX W msg else some W

theorem runX_append (W : World) (a b : List SubMsg) :
    runX W (a ++ b) = (runX W a).bind (fun W1 => runX W1 b) := by
  induction a generalizing W with
  | nil => rfl
  | cons m r ih =>
    simp only [List.cons_append, runX]
    cases stepX W m.msg with
    | none => rfl
    | some W1 => exact ih W1

theorem runX_opt (W : World) (msg : Msg) (id : Nat) (r : ReplyOn) (a : Nat) :
    runX W (if a ≠ 0 then [⟨msg, id, r⟩] else []) = optStep W msg a := by
  unfold optStep
  by_cases h : a ≠ 0
  · rw [if_pos h, if_pos h]
    simp only [runX]
    cases stepX W msg <;> rfl
  · rw [if_neg h, if_neg h]; rfl

theorem optPull_pl (W W1 : World) (o d a : Nat) (hne : o ≠ d)
    (h : optStep W (.tokenTransferFrom o d a) a = some W1) : Pl W W1 o d a := by
  unfold optStep at h
  by_cases ha : a ≠ 0
  · rw [if_pos ha] at h; exact (pull_pl W W1 o d a hne h).1
  · rw [if_neg ha] at h
    injection h with h
    subst h
    have : a = 0 := Decidable.not_not.mp ha
    subst this
    exact Pl.zero W o d

theorem optPull_ok (W : World) (o d a : Nat) (hne : o ≠ d) (hal : a ≤ Ledger.get W.ledger.allow o)
    (h1 : a ≤ W.ledger.balance o) (h2 : W.ledger.balance d + a ≤ U128.MAX ∨ a = 0) :
    ∃ W1, optStep W (.tokenTransferFrom o d a) a = some W1 := by
  unfold optStep
  by_cases ha : a ≠ 0
  · rw [if_pos ha]; exact pull_ok W o d a hne ha hal h1 (h2.resolve_right ha)
  · rw [if_neg ha]; exact ⟨W, rfl⟩

theorem optSend_mv (W W1 : World) (d a : Nat) (hne : ENGINE ≠ d)
    (h : optStep W (.bankSend d a) a = some W1) : Mv W W1 ENGINE d a := by
  unfold optStep at h
  by_cases ha : a ≠ 0
  · rw [if_pos ha] at h; exact (send_mv W W1 d a hne h).1
  · rw [if_neg ha] at h
    injection h with h
    subst h
    have : a = 0 := Decidable.not_not.mp ha
    subst this
    exact Mv.zero W ENGINE d

theorem optSend_ok (W : World) (d a : Nat) (hne : ENGINE ≠ d) (h1 : a ≤ W.ledger.balance ENGINE)
    (h2 : W.ledger.balance d + a ≤ U128.MAX ∨ a = 0) : ∃ W1, optStep W (.bankSend d a) a = some W1 := by
  unfold optStep
  by_cases ha : a ≠ 0
  · rw [if_pos ha]; exact send_ok W d a hne ha h1 (h2.resolve_right ha)
  · rw [if_neg ha]; exact ⟨W, rfl⟩

end Perp.Props.SatGLedger
