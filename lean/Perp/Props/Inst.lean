/-
  The engine's `instantiate` establishes what `Capstone.Deployed` asks of the engine: configuration within bounds
  (C20: every stored ratio in [0,1], maintenance ≤ initial), no position, no in-flight record, nothing paused;
  and it rejects exactly the messages that violate a bound.
-/
import Perp.Model.Instantiate
import Perp.Props.EngineGuards
import Perp.Props.WorldInv

namespace Perp.Props.Inst
open Perp Perp.Engine

/-- the acceptance condition, stated outright -/
def Accepts (m : InstantiateMsg) : Prop :=
  6 ≤ m.tokenDecimals ∧ 10 ^ m.tokenDecimals ≤ U128.MAX ∧ m.imr ≤ 10 ^ m.tokenDecimals ∧ m.mmr ≤ 10 ^ m.tokenDecimals
    ∧ m.liqFee ≤ 10 ^ m.tokenDecimals ∧ m.mmr ≤ m.imr

theorem instantiate_ok_iff (s : Nat) (m : InstantiateMsg) :
    (∃ e, instantiate s m = .ok e) ↔ Accepts m := by
  unfold instantiate Accepts validateRatio validateMarginRatios
  by_cases h1 : m.tokenDecimals < 6
  · simp [h1] <;> omega
  · by_cases h2 : 10 ^ m.tokenDecimals > U128.MAX
    · simp [h1, h2] <;> omega
    · by_cases h3 : m.imr > 10 ^ m.tokenDecimals
      · simp [h1, h2, h3, bind, Except.bind] <;> omega
      · by_cases h4 : m.mmr > 10 ^ m.tokenDecimals
        · simp [h1, h2, h3, h4, bind, Except.bind] <;> omega
        · by_cases h5 : m.liqFee > 10 ^ m.tokenDecimals
          · simp [h1, h2, h3, h4, h5, bind, Except.bind] <;> omega
          · by_cases h6 : m.mmr > m.imr
            · simp [h1, h2, h3, h4, h5, h6, bind, Except.bind] <;> omega
            · simp [h1, h2, h3, h4, h5, h6, bind, Except.bind, pure, Except.pure]
              try omega

/-- what an accepted instantiate stores -/
theorem instantiate_spec (s : Nat) (m : InstantiateMsg) (e : E) (h : instantiate s m = .ok e) :
    e.cfg = { owner := s, insuranceFund := m.insuranceFund, feePool := m.feePool, native := m.native,
              decimals := 10 ^ m.tokenDecimals, imr := m.imr, mmr := m.mmr, plr := 0, liqFee := m.liqFee }
    ∧ e.st = ⟨0, 0, false⟩ ∧ e.pauser = m.pauser ∧ e.whitelist = [] ∧ e.positions = [] ∧ e.vammMaps = []
    ∧ e.tmpSwap = none ∧ e.sentFunds = none ∧ e.tmpLiq = none := by
  have hacc := (instantiate_ok_iff s m).1 ⟨e, h⟩
  obtain ⟨a1, a2, a3, a4, a5, a6⟩ := hacc
  unfold instantiate validateRatio validateMarginRatios at h
  have h1 : ¬ m.tokenDecimals < 6 := by omega
  have h2 : ¬ 10 ^ m.tokenDecimals > U128.MAX := by omega
  have h3 : ¬ m.imr > 10 ^ m.tokenDecimals := by omega
  have h4 : ¬ m.mmr > 10 ^ m.tokenDecimals := by omega
  have h5 : ¬ m.liqFee > 10 ^ m.tokenDecimals := by omega
  have h6 : ¬ m.mmr > m.imr := by omega
  simp [h1, h2, h3, h4, h5, h6, bind, Except.bind, pure, Except.pure] at h
  subst h
  simp

/-- C20 at deployment: the stored configuration is within bounds -/
theorem instantiate_configOK (s : Nat) (m : InstantiateMsg) (e : E) (h : instantiate s m = .ok e) :
    EngineGuards.ConfigOK e.cfg := by
  obtain ⟨a1, a2, a3, a4, a5, a6⟩ := (instantiate_ok_iff s m).1 ⟨e, h⟩
  obtain ⟨hc, _⟩ := instantiate_spec s m e h
  rw [hc]
  exact ⟨a3, a4, Nat.zero_le _, a5, a6⟩

/-- no in-flight record, no position (the engine part of `Capstone.Deployed`) -/
theorem instantiate_fresh (s : Nat) (m : InstantiateMsg) (e : E) (h : instantiate s m = .ok e) :
    WorldInv.NoResidue e ∧ e.positions = [] := by
  obtain ⟨_, _, _, _, hp, _, h1, h2, h3⟩ := instantiate_spec s m e h
  exact ⟨⟨h1, h2, h3⟩, hp⟩

/-- non-vacuity: the repository's fixture values (cw20 with 9 decimals, 5 % / 5 % / 5 %) are accepted … -/
example : ∃ e, instantiate 100 ⟨111, 2, 3, false, 9, 50000000, 50000000, 50000000⟩ = .ok e :=
  (instantiate_ok_iff _ _).2 (by unfold Accepts U128.MAX; decide)
/-- … a maintenance ratio above the initial ratio, a ratio above one, and a 5-decimal collateral are not -/
example : instantiate 100 ⟨111, 2, 3, false, 9, 50000000, 50000001, 0⟩ = .error (.guard 34) := by decide
example : instantiate 100 ⟨111, 2, 3, false, 6, 1000001, 0, 0⟩ = .error (.guard 30) := by decide
example : instantiate 100 ⟨111, 2, 3, false, 5, 0, 0, 0⟩ = .error (.guard 36) := by decide

end Perp.Props.Inst
