/-
  SatF — the model's step satisfies Spec.C09, C14 (see Perp/Props/ModelStep.lean).
  Target shape of every theorem:   Spec.Cxx.check (modelStep w env s f tx) = []

  Helper files (build order): Perp/Props/SatF09.lean, Perp/Props/SatF14.lean.
-/
import Perp.Model.World
import Perp.Spec.World
import Perp.Lemmas.Basic
import Perp.Props.ModelStep
import Perp.Props.Dispatch
import Perp.Props.EngineGuards
import Perp.Props.EngineMoney
import Perp.Props.WorldInv
import Perp.Props.CurveNoFlip
import Perp.Props.C01
import Perp.Props.C15
import Perp.Props.C17
import Perp.Props.C18
import Perp.Props.VammGuards
import Perp.Props.G9Restr
import Perp.Props.G9Perm
import Perp.Props.WorldMore
import Perp.Props.MirrorInv
import Perp.Props.SatF09
import Perp.Props.SatF14

namespace Perp.Props.SatF
open Perp Perp.World Perp.Engine Perp.Spec Perp.Props.ModelStep
open Perp.Props.SatF14 (RegInv)

/-! ## C09 — privileged operations restricted to their role

  Holds of every model step with no hypothesis beyond the skeleton's (`WF` is not even used): every role
  guard is the first test of its handler, and every ownership transfer writes the new holder. -/

theorem sat_C09 (w : World) (env : Env) (s : Nat) (f : Funds) (tx : Tx) (_hwf : WF w) :
    Spec.C09.check (modelStep w env s f tx) = [] :=
  SatF09.c09 w env s f tx

/-! ## C14 — pause, closed markets, registry shape, shutdown -/

/-- Hypothesis of kind (a): the registry invariant `SatF14.RegInv` (no duplicates, at most three entries,
    a non-empty list is a stored one) holds in the freshly instantiated fund (empty list) … -/
theorem regInv_init (o e : Nat) : RegInv { owner := o, engine := e, vamms := [], stored := false } :=
  ⟨List.nodup_nil, by simp, fun h => absurd rfl h⟩

/-- … and is preserved by every `step`, for all senders, blocks, funds and transactions. -/
theorem regInv_step (w : World) (env : Env) (s : Nat) (f : Funds) (tx : Tx) (hr : RegInv w.ifund) :
    RegInv (step w env s f tx).ifund :=
  SatF14.regInv_step w env s f tx hr

/-- Hypothesis of kind (c), used only for the clean `= []` form: the emergency shutdown is attempted while
    every registered vAMM is still open.  Without it the model (like the implementation) reproduces the known
    finding: `ShutdownVamms` fails as a whole when one registered vAMM is already closed. -/
def ShutdownPre (w : World) (tx : Tx) : Prop :=
  tx = .ifShutdown → ∀ v ∈ w.ifund.vamms, W.isOpenV w v = true

/-- C14 in full generality: the only clause the model can violate is the known finding. In particular
    `shutdown-by-owner-failed` (without the bracket) never occurs: under the check's own wiring condition the
    owner's shutdown of a registry of open vAMMs succeeds (`SatF14.shutdown_by_owner_succeeds`). -/
theorem tags_C14 (w : World) (env : Env) (s : Nat) (f : Funds) (tx : Tx) (_hwf : WF w) (hreg : RegInv w.ifund) :
    ∀ tag ∈ Spec.C14.check (modelStep w env s f tx),
      tag ∈ ["shutdown-by-owner-failed[some-vamm-already-closed]"] := by
  unfold modelStep
  cases h : applyTx w env s f tx with
  | ok w' =>
    simp only [SatF14.c14_ok w w' env s f tx _ _ hreg h]
    intro tag ht; cases ht
  | error e =>
    rcases SatF14.c14_err w env s f tx [] (residue w.engine) e hreg h with h0 | ⟨_, _, h1⟩
    · simp only [h0]
      intro tag ht; cases ht
    · simp only [h1]
      intro tag ht; exact ht

/-- the tag can occur only on a failed shutdown that found a registered vAMM already closed -/
theorem tags_C14_only_when (w : World) (env : Env) (s : Nat) (f : Funds) (tx : Tx) (hreg : RegInv w.ifund)
    (h : Spec.C14.check (modelStep w env s f tx) ≠ []) :
    tx = .ifShutdown ∧ (w.ifund.vamms.any fun v => !W.isOpenV w v) = true := by
  unfold modelStep at h
  cases ha : applyTx w env s f tx with
  | ok w' =>
    simp only [ha] at h
    exact absurd (SatF14.c14_ok w w' env s f tx _ _ hreg ha) h
  | error e =>
    simp only [ha] at h
    rcases SatF14.c14_err w env s f tx [] (residue w.engine) e hreg ha with h0 | ⟨h1, h2, _⟩
    · exact absurd h0 h
    · exact ⟨h1, h2⟩

theorem sat_C14 (w : World) (env : Env) (s : Nat) (f : Funds) (tx : Tx) (_hwf : WF w) (hreg : RegInv w.ifund)
    (hpre : ShutdownPre w tx) :
    Spec.C14.check (modelStep w env s f tx) = [] := by
  apply Classical.byContradiction
  intro hne
  obtain ⟨h1, h2⟩ := tags_C14_only_when w env s f tx hreg hne
  obtain ⟨v, hv, hc⟩ := List.any_eq_true.1 h2
  rw [hpre h1 v hv] at hc
  cases hc


/-! ### the known finding, and why `RegInv` is needed: concrete worlds -/

namespace Witness
open Perp.Props.Mirror.Cex (v0 w0)

/-- two registered, correctly wired vAMMs; 10 is open, 11 was closed earlier by its owner -/
def vClosed : Vamm.V := { v0 with st := { v0.st with isOpen := false } }

def W0 : World :=
  { w0 with vamms := [(10, v0), (11, vClosed)],
            ifund := { owner := 61, engine := ENGINE, vamms := [10, 11], stored := true } }

theorem W0_hyps : WF W0 ∧ RegInv W0.ifund :=
  ⟨⟨⟨rfl, rfl, rfl⟩, by decide, by decide⟩, ⟨by decide, by decide, fun _ => rfl⟩⟩

/-- KNOWN FINDING reproduced by the model: the fund owner's `ShutdownVamms` fails as a whole because vAMM 11
    is already closed — vAMM 10 stays open. -/
theorem C14_witness :
    Spec.C14.check (modelStep W0 ⟨2, 1000⟩ 61 ⟨0, false⟩ .ifShutdown)
      = ["shutdown-by-owner-failed[some-vamm-already-closed]"]
    ∧ W.isOpenV (step W0 ⟨2, 1000⟩ 61 ⟨0, false⟩ .ifShutdown) 10 = true := by decide

/-- with every registered vAMM open the same call succeeds and the check is clean -/
theorem C14_witness_clean :
    Spec.C14.check (modelStep { W0 with vamms := [(10, v0), (11, v0)] } ⟨2, 1000⟩ 61 ⟨0, false⟩ .ifShutdown) = [] := by
  decide

/-- `RegInv.nodup` is needed (clause `registry-duplicates-or-over-capacity`): a malformed registry stays
    malformed under a transaction that does not touch it -/
theorem regInv_nodup_needed :
    Spec.C14.check (modelStep { w0 with ifund := { w0.ifund with vamms := [0, 0] } } ⟨2, 1000⟩ 100 ⟨0, false⟩
      (.tokenApprove 1)) = ["registry-duplicates-or-over-capacity"] := by decide

/-- `RegInv.stored` is needed (clause `shutdown-by-owner-failed`): a non-empty list whose storage item
    "does not exist" (unreachable) makes the owner's shutdown of an open, wired vAMM fail -/
theorem regInv_stored_needed :
    Spec.C14.check (modelStep { w0 with ifund := { w0.ifund with stored := false } } ⟨2, 1000⟩ 61 ⟨0, false⟩
      .ifShutdown) = ["shutdown-by-owner-failed"] := by decide

end Witness

end Perp.Props.SatF
