/-
  CapLedger — the third component of `ModelStep.WF` (one allowance entry per owner) is preserved by every
  transaction.  (The other two are `WorldInv.noResidue_run` and `Dispatch.step_total`; no `sat_*` theorem
  reads `allowNodup`, but `WF` is their common base hypothesis, so the capstone needs it as an invariant.)
  The proof follows `Dispatch.exec_total` / `Dispatch.applyTx_total` line by line.
-/
import Perp.Model.World
import Perp.Lemmas.Basic
import Perp.Lemmas.Ledger
import Perp.Props.Dispatch
import Perp.Props.WorldInv
import Perp.Props.ModelStep

namespace Perp.Props.CapLedger
open Perp Perp.World Perp.Props.Dispatch

/-- each owner appears at most once in the allowance list -/
def AllowNodup (g : Ledger) : Prop := (g.allow.map (·.1)).Nodup

theorem move_allow (g g' : Ledger) (src dst amt : Nat) (h : Ledger.move g src dst amt = .ok g') :
    g'.allow = g.allow := by
  unfold Ledger.move at h
  split at h
  · cases h
  · simp only [] at h
    split at h
    · cases h
    · injection h with h
      subst h
      rfl

theorem tokenTransfer_allow (g g' : Ledger) (src dst amt : Nat) (hk : AllowNodup g)
    (h : Ledger.tokenTransfer g src dst amt = .ok g') : AllowNodup g' := by
  unfold Ledger.tokenTransfer at h
  split at h
  · cases h
  · unfold AllowNodup; rw [move_allow g g' src dst amt h]; exact hk

theorem bankSend_allow (g g' : Ledger) (src dst amt : Nat) (hk : AllowNodup g)
    (h : Ledger.bankSend g src dst amt = .ok g') : AllowNodup g' := by
  unfold Ledger.bankSend at h
  split at h
  · cases h
  · unfold AllowNodup; rw [move_allow g g' src dst amt h]; exact hk

theorem tokenTransferFrom_allow (g g' : Ledger) (owner dst amt : Nat) (hk : AllowNodup g)
    (h : Ledger.tokenTransferFrom g owner dst amt = .ok g') : AllowNodup g' := by
  unfold Ledger.tokenTransferFrom at h
  split at h
  · cases h
  · split at h
    · cases h
    · unfold AllowNodup
      rw [move_allow _ g' owner dst amt h]
      exact Ledger.keys_set_nodup g.allow owner _ hk

theorem exec_allow (fuel : Nat) :
    (∀ w sender m w' ev, execMsg fuel w sender m = .ok (w', ev) → AllowNodup w.ledger → AllowNodup w'.ledger)
    ∧ (∀ w c subs w', execSubs fuel w c subs = .ok w' → AllowNodup w.ledger → AllowNodup w'.ledger) := by
  induction fuel with
  | zero =>
    constructor
    · intro w sender m w' ev h; unfold execMsg at h; cases h
    · intro w c subs w' h; unfold execSubs at h; cases h
  | succ fuel ih =>
    constructor
    · intro w sender m w' ev h hk
      unfold execMsg at h
      cases m with
      | vammSwapInput a d x l g =>
        simp at h
        obtain ⟨v, _, _, _, _, rfl, _⟩ := h
        exact hk
      | vammSwapOutput a d x l =>
        simp at h
        obtain ⟨v, _, _, _, _, rfl, _⟩ := h
        exact hk
      | vammSettle a =>
        simp at h
        obtain ⟨v, _, _, _, _, rfl, _⟩ := h
        exact hk
      | vammSetOpen a o =>
        simp at h
        obtain ⟨v, _, _, _, rfl, _⟩ := h
        exact hk
      | tokenTransfer to amt =>
        simp at h
        obtain ⟨g, hg, rfl, _⟩ := h
        exact tokenTransfer_allow _ _ _ _ _ hk hg
      | tokenTransferFrom owner to amt =>
        try simp only [] at h
        split at h
        · cases h
        simp at h
        obtain ⟨g, hg, rfl, _⟩ := h
        exact tokenTransferFrom_allow _ _ _ _ _ hk hg
      | bankSend to amt =>
        simp at h
        obtain ⟨g, hg, rfl, _⟩ := h
        exact bankSend_allow _ _ _ _ _ hk hg
      | ifWithdraw amt =>
        try simp only [] at h
        split at h
        · cases h
        try simp only [] at h
        split at h
        · cases h
        simp at h
        obtain ⟨w1, hs, rfl, _⟩ := h
        exact ih.2 _ _ _ _ hs hk
    · intro w c subs w' h hk
      unfold execSubs at h
      cases subs with
      | nil => simp at h; subst h; exact hk
      | cons s rest =>
        simp only [] at h
        cases hx : execMsg fuel w c s.msg with
        | error err =>
          simp only [hx] at h
          split at h
          · split at h
            · cases h
            · simp [Engine.replyErr] at h
          · cases h
        | ok r =>
          obtain ⟨w1, ev⟩ := r
          simp only [hx] at h
          have h1 := ih.1 _ _ _ _ _ hx hk
          split at h
          · split at h
            · cases h
            · split at h
              · rename_i e2 subs2 hr
                split at h
                · rename_i w3 h3
                  have h3' := ih.2 _ _ _ _ h3 h1
                  exact ih.2 _ _ _ _ h h3'
                · cases h
              · cases h
          · exact ih.2 _ _ _ _ h h1

/-- every successful transaction keeps one allowance entry per owner -/
theorem applyTx_allow (w w' : World) (env : Env) (s : Nat) (f : Engine.Funds) (tx : Tx)
    (hk : AllowNodup w.ledger) (h : applyTx w env s f tx = .ok w') : AllowNodup w'.ledger := by
  have hm : ∀ (w0 : World) m,
      (execMsg FUEL w0 s m).map (·.1) = .ok w' → w0.ledger = w.ledger → AllowNodup w'.ledger := by
    intro w0 m h' hl
    rw [exmap_ok] at h'
    obtain ⟨⟨w1, ev⟩, h', rfl⟩ := h'
    exact (exec_allow FUEL).1 _ _ _ _ _ h' (hl ▸ hk)
  have hs : ∀ (w0 : World) c subs,
      execSubs FUEL w0 c subs = .ok w' → w0.ledger = w.ledger → AllowNodup w'.ledger := by
    intro w0 c subs h' hl
    exact (exec_allow FUEL).2 _ _ _ _ h' (hl ▸ hk)
  unfold applyTx at h
  cases tx <;> dsimp only at h
  case engine m =>
    split at h
    · simp at h
      obtain ⟨w1, hg, e', subs, _, h⟩ := h
      obtain ⟨⟨w1', ev⟩, hg', rfl⟩ := (exmap_ok _ _ _).1 hg
      have h1 := (exec_allow FUEL).1 _ _ _ _ _ hg' hk
      exact (exec_allow FUEL).2 _ _ _ _ h h1
    · simp at h
      obtain ⟨e', subs, _, h⟩ := h
      exact hs _ _ _ h rfl
  case vammSwapInput v dir amt lim cgo => exact hm _ _ h rfl
  case vammSwapOutput v dir amt lim => exact hm _ _ h rfl
  case vammSettle v => exact hm _ _ h rfl
  case vammSetOpen v o => exact hm _ _ h rfl
  case vammConfig v u =>
    simp at h
    obtain ⟨_, _, _, _, rfl⟩ := h
    exact hk
  case vammOwner v n =>
    simp at h
    obtain ⟨_, _, _, _, rfl⟩ := h
    exact hk
  case ifAdd v =>
    simp at h
    obtain ⟨_, _, rfl⟩ := h
    exact hk
  case ifRemove v =>
    simp at h
    obtain ⟨_, _, rfl⟩ := h
    exact hk
  case ifShutdown =>
    split at h
    · cases h
    · split at h
      · cases h
      · exact hs _ _ _ h rfl
  case ifWithdraw amt => exact hm _ _ h rfl
  case ifOwner n =>
    simp at h
    obtain ⟨_, _, rfl⟩ := h
    exact hk
  case fpAdd tok =>
    simp at h
    obtain ⟨_, _, rfl⟩ := h
    exact hk
  case fpRemove tok =>
    simp at h
    obtain ⟨_, _, rfl⟩ := h
    exact hk
  case fpSend tok amt to =>
    repeat' split at h
    all_goals first | exact hs _ _ _ h rfl | cases h
  case fpOwner n =>
    simp at h
    obtain ⟨_, _, rfl⟩ := h
    exact hk
  case oracle price ts =>
    split at h
    · injection h with h; subst h; exact hk
    · simp at h
      obtain ⟨_, _, rfl⟩ := h
      exact hk
  case feedOwner n =>
    split at h
    · split at h
      · cases h
      · injection h with h; subst h; exact hk
    · simp at h
      obtain ⟨_, _, rfl⟩ := h
      exact hk
  case tokenApprove amt =>
    repeat' split at h
    all_goals first
      | (injection h with h; subst h; exact hk)
      | (injection h with h; subst h; exact Ledger.keys_set_nodup w.ledger.allow s _ hk)
      | cases h
  case tokenDecrease amt =>
    repeat' split at h
    all_goals first
      | (injection h with h; subst h; exact Ledger.keys_set_nodup w.ledger.allow s _ hk)
      | cases h
  case tokenTransfer to amt =>
    split at h
    · cases h
    · exact hm _ _ h rfl
  case bankSend to amt =>
    split at h
    · cases h
    · exact hm _ _ h rfl

theorem allowNodup_step (w : World) (env : Env) (s : Nat) (f : Engine.Funds) (tx : Tx)
    (hk : AllowNodup w.ledger) : AllowNodup (step w env s f tx).ledger := by
  unfold step
  split
  · rename_i w' h
    exact applyTx_allow w w' env s f tx hk h
  · exact hk

/-- `ModelStep.WF` is an invariant of `step`, for every sender, block, funds and transaction -/
theorem wf_step (w : World) (env : Env) (s : Nat) (f : Engine.Funds) (tx : Tx) (h : ModelStep.WF w) :
    ModelStep.WF (step w env s f tx) :=
  ⟨WorldInv.noResidue_run w env s f tx h.noResidue, (step_total w env s f tx h.balNodup).1,
    allowNodup_step w env s f tx h.allowNodup⟩

end Perp.Props.CapLedger
