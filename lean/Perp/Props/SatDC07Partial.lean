/-
  SatD — C07 (liveness of `Liquidate`) on the PARTIAL-liquidation path: the sub-case in which the model does
  go through, with the forward simulation of the whole transaction (execute, partial closing swap, reply,
  the two transfers).  Strict extension of `SatD.sat_C07`.
-/
import Perp.Props.SatD

namespace Perp.Props.SatDC07Partial
open Perp Perp.World Perp.Engine Perp.Spec Perp.Spec.W
open Perp.Props.EngineGuards (Post ConfigOK)
open Perp.Props.Dispatch
open Perp.Props.C19
open Perp.Props.ModelStep
open Perp.Props.SatD

/-! ### small facts -/

theorem signOfProduct_value (a b : Bool) (v : Nat) : (Integer.signOfProduct a b v).value = v := by
  cases a <;> cases b <;> rfl

/-- the size a partial liquidation leaves, as `partial_liquidation_reply` computes it -/
def partialNewSize (p : Position) (input : Nat) : Except Err Integer :=
  if Integer.lt p.size Integer.zero then Integer.add p.size (Integer.newPositive input)
  else Integer.add p.size (Integer.newNegative input)

/-- `marginOk` is exact: the reply's two checked subtractions on the margin both succeed iff the margin covers
    the sum -/
theorem margin_subs_iff (margin R pen : Nat) :
    (∃ m1 m2, csub margin R = .ok m1 ∧ csub m1 pen = .ok m2) ↔ R + pen ≤ margin := by
  simp only [csub_ok]
  constructor
  · rintro ⟨m1, m2, ⟨h1, rfl⟩, h2, _⟩; omega
  · intro h; exact ⟨_, _, ⟨by omega, rfl⟩, by omega, rfl⟩

/-- `notionalOk` is exact, branch by branch -/
theorem notional_subs_iff (notional cur R : Nat) :
    ((∃ a n, csub notional cur = .ok a ∧ csub a R = .ok n) ↔ cur + R ≤ notional)
    ∧ ((∃ a n, cadd R notional = .ok a ∧ csub a cur = .ok n) ↔ (R + notional ≤ U128.MAX ∧ cur ≤ R + notional)) := by
  simp only [csub_ok, cadd_ok]
  refine ⟨⟨?_, ?_⟩, ⟨?_, ?_⟩⟩
  · rintro ⟨a, n, ⟨h1, rfl⟩, h2, _⟩; omega
  · intro h; exact ⟨_, _, ⟨by omega, rfl⟩, by omega, rfl⟩
  · rintro ⟨a, n, ⟨h1, rfl⟩, h2, _⟩; exact ⟨h1, h2⟩
  · rintro ⟨h1, h2⟩; exact ⟨_, _, ⟨h1, rfl⟩, h2, rfl⟩

/-- the messages of a partial-liquidation reply on a vault that holds the liquidator's half -/
def pliqMsgs (cfg : Config) (liq fee : Nat) : List SubMsg :=
  if fee ≠ 0 then [transferMsg cfg cfg.insuranceFund fee, transferMsg cfg liq fee] else []

/-! ### the reply, forwards -/

theorem partialLiquidationReply_fwd_partial (q : Q) (e : E) (env : Env) (input out : Nat) (sw : TmpSwap)
    (liq : Nat) (p : Position) (newSize : Integer) (bal : Nat)
    (hs : e.tmpSwap = some sw) (hl : e.tmpLiq = some liq)
    (hgp : getPosition env e sw.vamm sw.trader sw.side = p)
    (hmulU : sw.upnl.value * e.cfg.plr ≤ U128.MAX) (hD : e.cfg.decimals ≠ 0)
    (hmul : out * e.cfg.liqFee ≤ U128.MAX)
    (hns : partialNewSize p input = .ok newSize)
    (hm : sw.upnl.value * e.cfg.plr / e.cfg.decimals + out * e.cfg.liqFee / e.cfg.decimals ≤ p.margin)
    (hn : if newSize.negative = false
          then sw.openNotional + sw.upnl.value * e.cfg.plr / e.cfg.decimals ≤ p.notional
          else sw.upnl.value * e.cfg.plr / e.cfg.decimals + p.notional ≤ U128.MAX
               ∧ sw.openNotional ≤ sw.upnl.value * e.cfg.plr / e.cfg.decimals + p.notional)
    (hbal : q.balance ENGINE_ADDR = .ok bal) (hbmax : bal ≤ U128.MAX)
    (hv : out * e.cfg.liqFee / e.cfg.decimals / 2 ≤ bal) :
    ∃ e2, partialLiquidationReply q e env input out
      = .ok (e2, pliqMsgs e.cfg liq (out * e.cfg.liqFee / e.cfg.decimals / 2)) := by
  have hmulE : cmul out e.cfg.liqFee = .ok (out * e.cfg.liqFee) := by simp [cmul, hmul]
  have hdivE : cdiv (out * e.cfg.liqFee) e.cfg.decimals = .ok (out * e.cfg.liqFee / e.cfg.decimals) := by
    simp [cdiv, hD]
  have hmulI : Integer.mul sw.upnl (Integer.newPositive e.cfg.plr)
      = .ok (Integer.signOfProduct sw.upnl.negative false (sw.upnl.value * e.cfg.plr)) := by
    simp [Integer.mul, Integer.newPositive, cmul, hmulU, bind, Except.bind, pure, Except.pure]
  have hdivI : Integer.div (Integer.signOfProduct sw.upnl.negative false (sw.upnl.value * e.cfg.plr))
        (Integer.newPositive e.cfg.decimals)
      = .ok (Integer.signOfProduct (Integer.signOfProduct sw.upnl.negative false (sw.upnl.value * e.cfg.plr)).negative
              false (sw.upnl.value * e.cfg.plr / e.cfg.decimals)) := by
    simp [Integer.div, Integer.newPositive, cdiv, hD, signOfProduct_value, bind, Except.bind, pure, Except.pure]
  generalize hR : sw.upnl.value * e.cfg.plr / e.cfg.decimals = R at *
  generalize hP : out * e.cfg.liqFee / e.cfg.decimals = pen at *
  have hns' : (if Integer.lt p.size Integer.zero then Integer.add p.size (Integer.newPositive input)
      else Integer.add p.size (Integer.newNegative input)) = .ok newSize := hns
  have hm1 : csub p.margin R = .ok (p.margin - R) := by simp [csub]; omega
  have hm2 : csub (p.margin - R) pen = .ok (p.margin - R - pen) := by simp [csub]; omega
  unfold partialLiquidationReply
  simp only [hs, hl, pure_bind, hgp, hmulI, hdivI, hmulE, hdivE, C17.ok_bind, signOfProduct_value, hm1, hm2]
  obtain ⟨st', hw⟩ := withdraw_fwd q e e.st liq (pen / 2) 0 bal hbal (by omega) (by intro h; omega)
  rw [if_neg (by omega)] at hw
  have tail : ∀ (nn : Nat), ∃ e2,
      (if pen / 2 ≠ 0 then do
          let __x ← unwrap (withdraw q e e.st liq (pen / 2) 0)
          pure
              (enterRestrictionMode
                  { (storePosition e { p with size := newSize, margin := p.margin - R - pen, notional := nn }) with
                    st := __x.fst, tmpSwap := none, tmpLiq := none }
                  sw.vamm env.height,
                transferMsg e.cfg e.cfg.insuranceFund (pen / 2) :: __x.snd)
        else
          pure
            (enterRestrictionMode
                { (storePosition e { p with size := newSize, margin := p.margin - R - pen, notional := nn }) with
                  st := e.st, tmpSwap := none, tmpLiq := none }
                sw.vamm env.height,
              []) : Except Err (E × List SubMsg)) = .ok (e2, pliqMsgs e.cfg liq (pen / 2)) := by
    intro nn
    unfold pliqMsgs
    by_cases hfee : pen / 2 = 0
    · simp only [hfee, ne_eq, not_true_eq_false, if_false]; exact ⟨_, rfl⟩
    · simp only [hfee, ne_eq, not_false_eq_true, if_true, hw, C17.ok_bind]; exact ⟨_, rfl⟩
  have body : ∃ e2,
      (if (!newSize.negative) = true then do
            let a ← csub p.notional sw.openNotional
            let newNotional ← csub a R
            if pen / 2 ≠ 0 then do
                let __x ← unwrap (withdraw q e e.st liq (pen / 2) 0)
                pure
                    (enterRestrictionMode
                        { (storePosition e { p with size := newSize, margin := p.margin - R - pen, notional := newNotional }) with
                          st := __x.fst, tmpSwap := none, tmpLiq := none }
                        sw.vamm env.height,
                      transferMsg e.cfg e.cfg.insuranceFund (pen / 2) :: __x.snd)
              else
                pure
                  (enterRestrictionMode
                      { (storePosition e { p with size := newSize, margin := p.margin - R - pen, notional := newNotional }) with
                        st := e.st, tmpSwap := none, tmpLiq := none }
                      sw.vamm env.height,
                    [])
          else do
            let a ← cadd R p.notional
            let newNotional ← csub a sw.openNotional
            if pen / 2 ≠ 0 then do
                let __x ← unwrap (withdraw q e e.st liq (pen / 2) 0)
                pure
                    (enterRestrictionMode
                        { (storePosition e { p with size := newSize, margin := p.margin - R - pen, notional := newNotional }) with
                          st := __x.fst, tmpSwap := none, tmpLiq := none }
                        sw.vamm env.height,
                      transferMsg e.cfg e.cfg.insuranceFund (pen / 2) :: __x.snd)
              else
                pure
                  (enterRestrictionMode
                      { (storePosition e { p with size := newSize, margin := p.margin - R - pen, notional := newNotional }) with
                        st := e.st, tmpSwap := none, tmpLiq := none }
                      sw.vamm env.height,
                    []) : Except Err (E × List SubMsg)) = .ok (e2, pliqMsgs e.cfg liq (pen / 2)) := by
    cases hneg : newSize.negative with
    | false =>
      rw [hneg] at hn
      simp only [if_true] at hn
      have h1 : csub p.notional sw.openNotional = .ok (p.notional - sw.openNotional) := by simp [csub]; omega
      have h2 : csub (p.notional - sw.openNotional) R = .ok (p.notional - sw.openNotional - R) := by simp [csub]; omega
      simp only [Bool.not_false, if_true, h1, h2, C17.ok_bind]
      exact tail _
    | true =>
      rw [hneg] at hn
      simp only [Bool.true_eq_false, if_false] at hn
      have h1 : cadd R p.notional = .ok (R + p.notional) := by simp [cadd]; omega
      have h2 : csub (R + p.notional) sw.openNotional = .ok (R + p.notional - sw.openNotional) := by simp [csub]; omega
      simp only [Bool.not_true, Bool.false_eq_true, if_false, h1, h2, C17.ok_bind]
      exact tail _
  by_cases hlt : Integer.lt p.size Integer.zero = true
  · rw [if_pos hlt] at hns' ⊢
    simp only [hns', C17.ok_bind]
    exact body
  · rw [if_neg hlt] at hns' ⊢
    simp only [hns', C17.ok_bind]
    exact body

theorem mul_pos_inv (a : Integer) (n : Nat) (r : Integer) (h : Integer.mul a (Integer.newPositive n) = .ok r) :
    a.value * n ≤ U128.MAX ∧ r.value = a.value * n := by
  unfold Integer.mul at h
  simp only [bind_ok_iff, cmul_ok] at h
  obtain ⟨v, ⟨hle, rfl⟩, hr⟩ := h
  cases hr
  exact ⟨hle, signOfProduct_value _ _ _⟩

theorem div_pos_inv (a : Integer) (n : Nat) (r : Integer) (h : Integer.div a (Integer.newPositive n) = .ok r) :
    n ≠ 0 ∧ r.value = a.value / n := by
  unfold Integer.div at h
  simp only [bind_ok_iff, cdiv_ok] at h
  obtain ⟨v, ⟨hne, rfl⟩, hr⟩ := h
  cases hr
  exact ⟨hne, signOfProduct_value _ _ _⟩

/-- … and conversely: the arithmetic hypotheses of `partialLiquidationReply_fwd_partial` are EXACT — whenever the
    reply succeeds they hold (so `ArithOk`, `MarginOk`, `NotionalOk` are the conditions the model needs, not
    merely sufficient ones) -/
theorem partialLiquidationReply_inv_partial (q : Q) (e : E) (env : Env) (input out : Nat) (sw : TmpSwap)
    (liq : Nat) (p : Position) (r : E × List SubMsg)
    (hs : e.tmpSwap = some sw) (hl : e.tmpLiq = some liq)
    (hgp : getPosition env e sw.vamm sw.trader sw.side = p)
    (h : partialLiquidationReply q e env input out = .ok r) :
    sw.upnl.value * e.cfg.plr ≤ U128.MAX ∧ e.cfg.decimals ≠ 0 ∧ out * e.cfg.liqFee ≤ U128.MAX
    ∧ ∃ ns, partialNewSize p input = .ok ns
      ∧ sw.upnl.value * e.cfg.plr / e.cfg.decimals + out * e.cfg.liqFee / e.cfg.decimals ≤ p.margin
      ∧ (if ns.negative = false
          then sw.openNotional + sw.upnl.value * e.cfg.plr / e.cfg.decimals ≤ p.notional
          else sw.upnl.value * e.cfg.plr / e.cfg.decimals + p.notional ≤ U128.MAX
               ∧ sw.openNotional ≤ sw.upnl.value * e.cfg.plr / e.cfg.decimals + p.notional) := by
  unfold partialLiquidationReply at h
  simp only [hs, hl, pure_bind, hgp] at h
  simp only [bind_ok_iff] at h
  obtain ⟨a, ha, rz, hrz, x, hx, pen, hpen, h⟩ := h
  obtain ⟨hmulU, hav⟩ := mul_pos_inv _ _ _ ha
  obtain ⟨hD, hrv⟩ := div_pos_inv _ _ _ hrz
  simp only [cmul_ok] at hx
  obtain ⟨hmul, rfl⟩ := hx
  simp only [cdiv_ok] at hpen
  obtain ⟨_, rfl⟩ := hpen
  rw [hav] at hrv
  refine ⟨hmulU, hD, hmul, ?_⟩
  have body : ∀ X : Except Err Integer, (∃ ns, X = .ok ns ∧ ∃ m1, csub p.margin rz.value = .ok m1 ∧ ∃ nm, csub m1 (out * e.cfg.liqFee / e.cfg.decimals) = .ok nm
        ∧ ((ns.negative = false ∧ ∃ a n, csub p.notional sw.openNotional = .ok a ∧ csub a rz.value = .ok n)
          ∨ (ns.negative = true ∧ ∃ a n, cadd rz.value p.notional = .ok a ∧ csub a sw.openNotional = .ok n))) →
      ∃ ns, X = .ok ns
      ∧ sw.upnl.value * e.cfg.plr / e.cfg.decimals + out * e.cfg.liqFee / e.cfg.decimals ≤ p.margin
      ∧ (if ns.negative = false
          then sw.openNotional + sw.upnl.value * e.cfg.plr / e.cfg.decimals ≤ p.notional
          else sw.upnl.value * e.cfg.plr / e.cfg.decimals + p.notional ≤ U128.MAX
               ∧ sw.openNotional ≤ sw.upnl.value * e.cfg.plr / e.cfg.decimals + p.notional) := by
    rintro X ⟨ns, hX, m1, h1, nm, h2, hcase⟩
    refine ⟨ns, hX, ?_, ?_⟩
    · rw [← hrv]; exact (margin_subs_iff _ _ _).1 ⟨m1, nm, h1, h2⟩
    · rw [← hrv]
      rcases hcase with ⟨hn, a, n, g1, g2⟩ | ⟨hn, a, n, g1, g2⟩
      · rw [if_pos hn]; exact (notional_subs_iff _ _ _).1.1 ⟨a, n, g1, g2⟩
      · rw [if_neg (by simp [hn])]; exact (notional_subs_iff _ _ _).2.1 ⟨a, n, g1, g2⟩
  unfold partialNewSize
  split at h
  · rename_i hlt
    rw [if_pos hlt]
    apply body
    simp only [bind_ok_iff] at h
    obtain ⟨ns, hns, m1, h1, nm, h2, h⟩ := h
    refine ⟨ns, hns, m1, h1, nm, h2, ?_⟩
    cases hneg : ns.negative
    · rw [hneg] at h
      simp only [Bool.not_false, if_true, bind_ok_iff] at h
      obtain ⟨a, g1, n, g2, _⟩ := h
      exact Or.inl ⟨rfl, a, n, g1, g2⟩
    · rw [hneg] at h
      simp only [Bool.not_true, Bool.false_eq_true, if_false, bind_ok_iff] at h
      obtain ⟨a, g1, n, g2, _⟩ := h
      exact Or.inr ⟨rfl, a, n, g1, g2⟩
  · rename_i hlt
    rw [if_neg hlt]
    apply body
    simp only [bind_ok_iff] at h
    obtain ⟨ns, hns, m1, h1, nm, h2, h⟩ := h
    refine ⟨ns, hns, m1, h1, nm, h2, ?_⟩
    cases hneg : ns.negative
    · rw [hneg] at h
      simp only [Bool.not_false, if_true, bind_ok_iff] at h
      obtain ⟨a, g1, n, g2, _⟩ := h
      exact Or.inl ⟨rfl, a, n, g1, g2⟩
    · rw [hneg] at h
      simp only [Bool.not_true, Bool.false_eq_true, if_false, bind_ok_iff] at h
      obtain ⟨a, g1, n, g2, _⟩ := h
      exact Or.inr ⟨rfl, a, n, g1, g2⟩

/-! ### the handler, forwards -/

/-- the in-flight record a partial liquidation leaves -/
def partialTmp (p : Position) (ps cur : Nat) (upnl : Integer) : TmpSwap :=
  ⟨p.vamm, p.trader, positionToSide p.size, ps, 0, cur, 0, upnl, Integer.zero, false⟩

theorem liquidate_fwd_partial (q : Q) (e : E) (env : Env) (s v t : Nat) (r0 ratio : Integer) (over : Bool)
    (cur outF : Nat) (upnl : Integer)
    (hq : queryMarginRatio q e v t = .ok r0) (hs : q.isOverSpread v = .ok over)
    (hov : over = true → ∃ ro d, marginRatioByOption q e v t .oracle = .ok ro ∧ Integer.checkedSub ro r0 = .ok d
              ∧ ratio = if Integer.gt d Integer.zero then ro else r0)
    (hnov : over = false → ratio = r0)
    (hv : requireVamm q v = .ok ())
    (hins : Integer.gt ratio (Integer.newPositive e.cfg.mmr) = false)
    (hp : (readPosition e v t).size.value ≠ 0)
    (hpart : ratio.value > e.cfg.liqFee ∧ e.cfg.plr ≠ 0)
    (hsz : (readPosition e v t).size.value * e.cfg.plr ≤ U128.MAX) (hD : e.cfg.decimals ≠ 0)
    (hcur : q.outputAmount v (readPosition e v t).direction
              ((readPosition e v t).size.value * e.cfg.plr / e.cfg.decimals) = .ok cur)
    (hup : positionNotionalPnl q e (readPosition e v t) .spot = .ok (outF, upnl)) :
    liquidate q e env s v t 0 = .ok (
      { e with
        tmpLiq := some s
        tmpSwap := some (partialTmp (readPosition e v t)
          ((readPosition e v t).size.value * e.cfg.plr / e.cfg.decimals) cur upnl) },
      [swapOutputMsg v (directionToSide (readPosition e v t).direction)
        ((readPosition e v t).size.value * e.cfg.plr / e.cfg.decimals) 0 REPLY_PARTIAL_LIQUIDATION]) := by
  have hq' : queryMarginRatio q { e with tmpLiq := some s } v t = .ok r0 := hq
  have hup' : positionNotionalPnl q { e with tmpLiq := some s } (readPosition e v t) .spot = .ok (outF, upnl) := hup
  have h1 : cmul (readPosition e v t).size.value e.cfg.plr = .ok ((readPosition e v t).size.value * e.cfg.plr) := by
    simp [cmul, hsz]
  have h2 : cdiv ((readPosition e v t).size.value * e.cfg.plr) e.cfg.decimals
      = .ok ((readPosition e v t).size.value * e.cfg.plr / e.cfg.decimals) := by simp [cdiv, hD]
  have h3 : cmul 0 e.cfg.plr = .ok 0 := by simp [cmul]
  have h4 : cdiv 0 e.cfg.decimals = .ok 0 := by simp [cdiv, hD]
  cases over with
  | false =>
    have h0 := hnov rfl
    subst h0
    simp [liquidate, partialLiquidation, hq', hs, hv, hins, requireInsufficientMargin, LiqTwin.readPosition_tmpLiq,
      hp, hpart, h1, h2, h3, h4, hcur, hup', unwrap, partialTmp, bind, Except.bind, pure, Except.pure]
  | true =>
    obtain ⟨ro, d, g1, g2, g3⟩ := hov rfl
    have g1' : marginRatioByOption q { e with tmpLiq := some s } v t .oracle = .ok ro := g1
    subst g3
    simp [liquidate, partialLiquidation, hq', hs, hv, g1', g2, hins, requireInsufficientMargin,
      LiqTwin.readPosition_tmpLiq, hp, hpart, h1, h2, h3, h4, hcur, hup', unwrap, partialTmp, bind, Except.bind,
      pure, Except.pure]

/-! ### position read back by the reply, the new size, the spot pnl -/

theorem gp_partial (env : Env) (e e1 : E) (v t : Nat) (side : Side) (hpos : e1.positions = e.positions)
    (hnz : ¬ (readPosition e v t).size.value = 0) :
    ∃ b d, getPosition env e1 (readPosition e v t).vamm (readPosition e v t).trader side
        = { readPosition e v t with block := b, direction := d } := by
  obtain ⟨pv, pt⟩ := MirrorP.read_found e v t hnz
  have hr : readPosition e1 (readPosition e v t).vamm (readPosition e v t).trader = readPosition e v t := by
    rw [pv, pt]; exact WorldInv.rp_same v t hpos
  unfold getPosition
  simp only [hr]
  split
  · exact ⟨env.height, sideToDirection side, by rw [pv, pt]⟩
  · exact ⟨(readPosition e v t).block, (readPosition e v t).direction, rfl⟩

theorem add_mixed_ok (a b : Integer) (h : a.negative ≠ b.negative) : ∃ r, Integer.add a b = .ok r := by
  rcases a with ⟨va, na⟩; rcases b with ⟨vb, nb⟩
  cases na <;> cases nb <;> simp only [ne_eq, not_true_eq_false, reduceCtorEq, not_false_eq_true] at h
  · unfold Integer.add
    simp only []
    split
    · rw [(csub_ok va vb _).2 ⟨by omega, rfl⟩]; exact ⟨_, rfl⟩
    · rw [(csub_ok vb va _).2 ⟨by omega, rfl⟩]; exact ⟨_, rfl⟩
  · unfold Integer.add
    simp only []
    split
    · rw [(csub_ok va vb _).2 ⟨by omega, rfl⟩]; exact ⟨_, rfl⟩
    · rw [(csub_ok vb va _).2 ⟨by omega, rfl⟩]; exact ⟨_, rfl⟩

theorem add_zero_ok (a : Integer) (h : a.value ≤ U128.MAX) : ∃ r, Integer.add a ⟨0, false⟩ = .ok r := by
  rcases a with ⟨va, na⟩
  cases na
  · unfold Integer.add
    simp only []
    rw [(cadd_ok va 0 _).2 ⟨by simpa using h, rfl⟩]; exact ⟨_, rfl⟩
  · exact add_mixed_ok _ _ (by simp)

/-- the new size is always computable for a stored (non-zero, `u128`) size: the two magnitudes are
    subtracted, never added -/
theorem partialNewSize_ok (p : Position) (i : Nat) (h : p.size.value ≤ U128.MAX) (hnz : p.size.value ≠ 0) :
    ∃ ns, partialNewSize p i = .ok ns := by
  unfold partialNewSize
  have hlt := EngineMoney.lt_zero_iff p.size
  rcases hsz : p.size with ⟨v, n⟩
  rw [hsz] at hlt h hnz
  simp only at h hnz
  cases n with
  | false =>
    rw [toInt_mk_false] at hlt
    have : ¬ (Integer.lt ⟨v, false⟩ Integer.zero = true) := fun hh => by have := hlt.1 hh; omega
    rw [if_neg this]
    by_cases hi : i = 0
    · subst hi
      exact add_zero_ok _ h
    · exact add_mixed_ok _ _ (by simp [Integer.newNegative, hi])
  | true =>
    rw [toInt_mk_true] at hlt
    have : Integer.lt ⟨v, true⟩ Integer.zero = true := hlt.2 (by omega)
    rw [if_pos this]
    exact add_mixed_ok _ _ (by simp [Integer.newPositive])

theorem spotPnl_inv (q : Q) (e : E) (p : Position) (outF : Nat) (r : Nat × Integer)
    (hz : p.size.isZero = false) (ho : q.outputAmount p.vamm p.direction p.size.value = .ok outF)
    (h : positionNotionalPnl q e p .spot = .ok r) : r.1 = outF ∧ r.2.toInt = pnlOf p outF := by
  unfold positionNotionalPnl at h
  rw [hz] at h
  simp only [Bool.false_eq_true, if_false, ho, C17.ok_bind] at h
  unfold pnlOf
  cases hd : p.direction <;> rw [hd] at h <;> simp only [bind_ok_iff] at h
  · obtain ⟨pnl, hsub, hr⟩ := h
    have := (sub_ok _ _ _ hsub).1
    rw [toInt_newPositive, toInt_newPositive] at this
    cases hr
    exact ⟨rfl, this⟩
  · obtain ⟨pnl, hsub, hr⟩ := h
    have := (sub_ok _ _ _ hsub).1
    rw [toInt_newPositive, toInt_newPositive] at this
    cases hr
    exact ⟨rfl, this⟩

/-- a margin ratio that is defined for a non-empty position went through the spot pnl -/
theorem queryMarginRatio_spot (q : Q) (e : E) (v t : Nat) (r0 : Integer)
    (hz : (readPosition e v t).size.isZero = false) (h : queryMarginRatio q e v t = .ok r0) :
    ∃ r, positionNotionalPnl q e (readPosition e v t) .spot = .ok r := by
  unfold queryMarginRatio at h
  simp only [hz, Bool.false_eq_true, if_false] at h
  cases hs : positionNotionalPnl q e (readPosition e v t) .spot with
  | error x => rw [hs] at h; cases h
  | ok r => exact ⟨r, rfl⟩

/-! ### the two transfers -/

theorem pliqMsgs_shape (cfg : Config) (liq fee : Nat) : ∀ m ∈ pliqMsgs cfg liq fee, IsLiqMsg m := by
  intro m hm
  unfold pliqMsgs at hm
  split at hm
  · simp only [List.mem_cons, List.mem_nil_iff, or_false] at hm
    rcases hm with hm | hm <;> exact Or.inr ⟨_, _, _, hm⟩
  · cases hm

theorem pliqMsgs_length (cfg : Config) (liq fee : Nat) : (pliqMsgs cfg liq fee).length ≤ 2 := by
  unfold pliqMsgs; split <;> simp

theorem pliqMsgs_xfers (cfg : Config) (liq fee : Nat) (h : cfg.insuranceFund = IFUND) :
    (pliqMsgs cfg liq fee).flatMap (fun m => xferOf ENGINE m.msg)
      = if fee ≠ 0 then [(ENGINE, IFUND, fee), (ENGINE, liq, fee)] else [] := by
  unfold pliqMsgs
  split
  · simp only [List.flatMap_cons, List.flatMap_nil, xferOf_transferMsg, h, List.cons_append, List.nil_append,
      List.append_nil]
  · rfl

/-- the transfers of a partial liquidation go through as soon as the vault holds both halves of the penalty -/
theorem pliq_sim (fee bE bI s : Nat) (hv : fee + fee ≤ bE) :
    simOk bE bI (if fee ≠ 0 then [(ENGINE, IFUND, fee), (ENGINE, s, fee)] else []) := by
  by_cases hf : fee = 0
  · rw [if_neg (by simpa using hf)]; trivial
  · rw [if_pos hf]
    exact ⟨hf, Or.inr (Or.inl ⟨rfl, rfl, by simp only []; omega, hf,
      Or.inr (Or.inr ⟨rfl, rfl, by simp only []; omega⟩)⟩)⟩

/-! ### the sub-case of C07 in which the model is live on the partial path -/

/-- base amount of the partial closing swap: `size · plr / D` -/
def partialSize (w : World) (v t : Nat) : Nat :=
  (readPosition w.engine v t).size.value * w.engine.cfg.plr / w.engine.cfg.decimals

/-- magnitude of the pnl the reply realises, `|spot pnl| · plr / D`; `outF` is the quote value of the whole
    position (the reply subtracts the MAGNITUDE from the margin whatever the sign of the pnl) -/
def realizedAbs (w : World) (v t outF : Nat) : Nat :=
  (pnlOf (readPosition w.engine v t) outF).natAbs * w.engine.cfg.plr / w.engine.cfg.decimals

/-! #### decidability of guarded quantifications (so that every clause can be evaluated on a concrete world) -/

instance decForallSome {α : Type} (o : Option α) (P : α → Prop) [∀ x, Decidable (P x)] :
    Decidable (∀ x, o = some x → P x) :=
  match o with
  | none => isTrue (fun _ h => by cases h)
  | some a => if h : P a then isTrue (fun x hx => by cases hx; exact h) else isFalse (fun H => h (H a rfl))

instance decForallOk {α : Type} (e : Except Err α) (P : α → Prop) [∀ x, Decidable (P x)] :
    Decidable (∀ x, e = .ok x → P x) :=
  match e with
  | .error _ => isTrue (fun _ h => by cases h)
  | .ok a => if h : P a then isTrue (fun x hx => by cases hx; exact h) else isFalse (fun H => h (H a rfl))

instance decExistsOk {α : Type} (e : Except Err α) : Decidable (∃ r, e = .ok r) :=
  match e with
  | .ok a => isTrue ⟨a, rfl⟩
  | .error _ => isFalse (fun ⟨_, h⟩ => by cases h)

instance decExistsOkAnd {α : Type} (e : Except Err α) (P : α → Prop) [∀ x, Decidable (P x)] :
    Decidable (∃ r, e = .ok r ∧ P r) :=
  match e with
  | .ok a => if h : P a then isTrue ⟨a, rfl, h⟩ else isFalse (fun ⟨r, hr, hp⟩ => by cases hr; exact h hp)
  | .error _ => isFalse (fun ⟨_, h, _⟩ => by cases h)

/-! #### the clauses -/

/-- the liquidator attaches no native funds.  Same reason as `LiqSubCase.noFunds` (the handler's path is not
    yet chosen): attached funds the sender does not own fail the call before the engine runs.
    Witness: `SatD.Witness.C07_cex_funds_attached` (full path), `Witness.C07p_cex_funds_attached` (partial path,
    exactly this clause fails). -/
def NoFunds (w : World) (f : Funds) : Prop := w.engine.cfg.native = true → f.amount = 0

/-- the handler's own ratio computation goes through.  Same reason as `LiqSubCase.ratioOk` (the code before the
    path split): the oracle is readable (known defect otherwise), and `oracleRatio − ratio` is representable (the
    handler compares the two ratios by a `checked_sub`, which fails only on a `u128` overflow of the magnitudes).
    Witness: `SatD.Witness.C07_witness_oracle_unreadable` (full path), `Witness.C07p_cex_oracle_unreadable`
    (partial path, exactly this clause fails). -/
def RatioOk (w : World) (env : Env) (v t : Nat) : Prop :=
  ∃ over, ({ w with env := env } : World).q.isOverSpread v = .ok over ∧
    (over = true → ∃ ro, marginRatioByOption ({ w with env := env } : World).q w.engine v t .oracle = .ok ro
      ∧ ∀ r0, queryMarginRatio ({ w with env := env } : World).q w.engine v t = .ok r0 →
          ∃ d, Integer.checkedSub ro r0 = .ok d)

/-- the PARTIAL-liquidation path is taken: a partial-liquidation ratio is configured and the MAGNITUDE of the
    liquidation ratio exceeds the liquidation fee ratio (`liquidate` tests `margin_ratio.value >
    liquidation_fee`, sign dropped).  This clause is not a further need but the definition of the sub-case: it is
    the exact complement of `LiqSubCase.fullPath` (`path_dichotomy`), so where it fails `LiqSubCase` is the
    sub-case to consult (`Witness.wP_not_fullCase`: world P is in this sub-case and not in `LiqSubCase`).  No
    counterexample applies. -/
def PartialPath (w : World) (env : Env) (v t : Nat) : Prop :=
  ∀ r, liqRatio ({ w with env := env } : World) v t = some r →
    w.engine.cfg.plr ≠ 0 ∧ w.engine.cfg.liqFee < r.natAbs

/-- `partial_liquidation` computes the base amount to close as `size.checked_mul(plr)?.checked_div(decimals)`,
    `unwrap`ped: the PRODUCT must fit `u128` (it also makes `size` itself fit, which the new size needs).
    Witness: `Witness.C07p_cex_size_product_overflows` (exactly this clause fails; control
    `Witness.C07p_size_control`). -/
def SizeOk (w : World) (v t : Nat) : Prop :=
  (readPosition w.engine v t).size.value * w.engine.cfg.plr ≤ U128.MAX

/-- the vAMM accepts the partial closing swap of `size · plr / D` base (`C07.precondition` speaks of the WHOLE
    size only): open, wired, quotable, inside the fluctuation band, no `u128` overflow in its reserve /
    net-position arithmetic.
    Witness: `Witness.C07p_cex_swap_refused` (`plr` > 1 asks a short's pool for more base than it holds; exactly
    this clause fails; control `Witness.C07p_swap_control`). -/
def SwapOk (w : World) (env : Env) (v t : Nat) : Prop :=
  ∀ x, w.vamm? v = some x →
    ∃ res, Vamm.swapOutput x env ENGINE (readPosition w.engine v t).direction (partialSize w v t) 0 = .ok res

/-- no `u128` overflow in the two products of the reply: the penalty `cur · liqFee` (`cur` = quote amount of the
    partial swap) and the realised pnl `|spot pnl| · plr` (unchecked `Integer` multiplication: a panic).
    Witness: `Witness.C07p_cex_pnl_product_overflows` (exactly this clause fails). -/
def ArithOk (w : World) (v t : Nat) : Prop :=
  ∀ x, w.vamm? v = some x →
  ∀ outF, Vamm.queryOutputAmount x (readPosition w.engine v t).direction (readPosition w.engine v t).size.value = .ok outF →
  ∀ cur, Vamm.queryOutputAmount x (readPosition w.engine v t).direction (partialSize w v t) = .ok cur →
    cur * w.engine.cfg.liqFee ≤ U128.MAX
    ∧ (pnlOf (readPosition w.engine v t) outF).natAbs * w.engine.cfg.plr ≤ U128.MAX

/-- the margin covers the realised pnl's MAGNITUDE plus the whole penalty: the reply computes the new margin by
    `margin.checked_sub(realized.value)?.checked_sub(penalty)?` (EXACT: both subtractions succeed iff this
    inequality holds).  This — not the sign of the liquidation ratio — is the model's condition: a negative ratio
    violates it (known defect: `LiqTwin.partial_path_underflows`, `SatD.Witness.C07_witness_partial_path`, shown
    to fail exactly this clause by `Witness.C07p_known_defect_is_marginOk`), but so does a position IN PROFIT with
    a large funding debt and a ratio of +4 % (`Witness.C07p_cex_margin_profit`, exactly this clause fails: the
    profit's magnitude is SUBTRACTED from the margin; a finding of this proof). -/
def MarginOk (w : World) (v t : Nat) : Prop :=
  ∀ x, w.vamm? v = some x →
  ∀ outF, Vamm.queryOutputAmount x (readPosition w.engine v t).direction (readPosition w.engine v t).size.value = .ok outF →
  ∀ cur, Vamm.queryOutputAmount x (readPosition w.engine v t).direction (partialSize w v t) = .ok cur →
    realizedAbs w v t outF + cur * w.engine.cfg.liqFee / w.engine.cfg.decimals ≤ (readPosition w.engine v t).margin

/-- the checked arithmetic of the new open notional succeeds (EXACT): for a new size that is not negative,
    `notional − cur − |realised|`; for a negative new size, `|realised| + notional − cur` (sum within `u128`).
    `partialNewSize` is the new size as the reply computes it (always defined here: `partialNewSize_ok`).
    Witness: `Witness.C07p_cex_notional_underflows` (a long in profit; exactly this clause fails). -/
def NotionalOk (w : World) (v t : Nat) : Prop :=
  ∀ x, w.vamm? v = some x →
  ∀ outF, Vamm.queryOutputAmount x (readPosition w.engine v t).direction (readPosition w.engine v t).size.value = .ok outF →
  ∀ cur, Vamm.queryOutputAmount x (readPosition w.engine v t).direction (partialSize w v t) = .ok cur →
  ∀ ns, partialNewSize (readPosition w.engine v t) (partialSize w v t) = .ok ns →
    if ns.negative = false then cur + realizedAbs w v t outF ≤ (readPosition w.engine v t).notional
    else realizedAbs w v t outF + (readPosition w.engine v t).notional ≤ U128.MAX
         ∧ cur ≤ realizedAbs w v t outF + (readPosition w.engine v t).notional

/-- the vault holds BOTH halves of the penalty: the fund's half is sent by a plain transfer, queued BEFORE the
    liquidator's; `withdraw` sizes the fund's top-up from the vault balance at reply time, ignoring the queued
    transfer — so a vault below one half fails in the first transfer, a vault between one and two halves in the
    second, and the fund is never asked (EXACT: `Witness.C07p_vault_threshold`).
    Witness: `Witness.C07p_cex_vault_empty`, `Witness.C07p_cex_vault_one_half` (exactly this clause fails). -/
def VaultOk (w : World) (v t : Nat) : Prop :=
  ∀ x, w.vamm? v = some x →
  ∀ cur, Vamm.queryOutputAmount x (readPosition w.engine v t).direction (partialSize w v t) = .ok cur →
    cur * w.engine.cfg.liqFee / w.engine.cfg.decimals / 2 + cur * w.engine.cfg.liqFee / w.engine.cfg.decimals / 2
      ≤ w.ledger.balance ENGINE

instance (w : World) (f : Funds) : Decidable (NoFunds w f) := by unfold NoFunds; infer_instance
instance (w : World) (env : Env) (v t : Nat) : Decidable (RatioOk w env v t) := by unfold RatioOk; infer_instance
instance (w : World) (env : Env) (v t : Nat) : Decidable (PartialPath w env v t) := by unfold PartialPath; infer_instance
instance (w : World) (v t : Nat) : Decidable (SizeOk w v t) := by unfold SizeOk; infer_instance
instance (w : World) (env : Env) (v t : Nat) : Decidable (SwapOk w env v t) := by unfold SwapOk; infer_instance
instance (w : World) (v t : Nat) : Decidable (ArithOk w v t) := by unfold ArithOk; infer_instance
instance (w : World) (v t : Nat) : Decidable (MarginOk w v t) := by unfold MarginOk; infer_instance
instance (w : World) (v t : Nat) : Decidable (NotionalOk w v t) := by unfold NotionalOk; infer_instance
instance (w : World) (v t : Nat) : Decidable (VaultOk w v t) := by unfold VaultOk; infer_instance

/-- the sub-case of C07 in which the model does liquidate on the PARTIAL path.  `v`, `t` are the vAMM and trader
    of the `Liquidate`.  Each clause is a named, decidable proposition (definitions and full doc comments above);
    `Witness.*` below gives for each a kernel-evaluated world in which EXACTLY that clause fails
    (`ExactlyFails`), `C07.precondition` and `C07.underMargined` hold, and the model's `Liquidate` fails.
    Compared with `LiqSubCase`: `noPrepaid` is not needed (the fund is never asked: `vaultOk`), `IfeWired`
    neither (`Witness.C07p_fund_wiring_not_needed`). -/
structure LiqPartialCase (w : World) (env : Env) (f : Funds) (v t : Nat) : Prop where
  /-- no native funds attached (as `LiqSubCase.noFunds`; `Witness.C07p_cex_funds_attached`) -/
  noFunds : NoFunds w f
  /-- oracle readable, ratio comparison representable (as `LiqSubCase.ratioOk`;
      `Witness.C07p_cex_oracle_unreadable`) -/
  ratioOk : RatioOk w env v t
  /-- the partial path is taken: `plr ≠ 0 ∧ liqFee < |ratio|` (defines the sub-case; complement of
      `LiqSubCase.fullPath`: `path_dichotomy`) -/
  partialPath : PartialPath w env v t
  /-- `size · plr` fits `u128` (`unwrap`ped `checked_mul` in `partial_liquidation`;
      `Witness.C07p_cex_size_product_overflows`) -/
  sizeOk : SizeOk w v t
  /-- the vAMM accepts the partial closing swap (`Witness.C07p_cex_swap_refused`) -/
  swapOk : SwapOk w env v t
  /-- `cur · liqFee` and `|spot pnl| · plr` fit `u128` (`Witness.C07p_cex_pnl_product_overflows`) -/
  arithOk : ArithOk w v t
  /-- `|realised pnl| + penalty ≤ margin`, so that the two checked subtractions of the reply succeed (known
      defect otherwise, `SatD.Witness.C07_witness_partial_path`; non-negative ratio does not suffice:
      `Witness.C07p_cex_margin_profit`) -/
  marginOk : MarginOk w v t
  /-- the checked arithmetic of the new open notional succeeds (`Witness.C07p_cex_notional_underflows`) -/
  notionalOk : NotionalOk w v t
  /-- the vault holds both halves of the penalty (`Witness.C07p_cex_vault_empty`,
      `Witness.C07p_cex_vault_one_half`) -/
  vaultOk : VaultOk w v t

instance (w : World) (env : Env) (f : Funds) (v t : Nat) : Decidable (LiqPartialCase w env f v t) :=
  decidable_of_iff (NoFunds w f ∧ RatioOk w env v t ∧ PartialPath w env v t ∧ SizeOk w v t ∧ SwapOk w env v t
      ∧ ArithOk w v t ∧ MarginOk w v t ∧ NotionalOk w v t ∧ VaultOk w v t)
    ⟨fun ⟨a, b, c, d, e, f, g, h, i⟩ => ⟨a, b, c, d, e, f, g, h, i⟩,
     fun h => ⟨h.noFunds, h.ratioOk, h.partialPath, h.sizeOk, h.swapOk, h.arithOk, h.marginOk, h.notionalOk, h.vaultOk⟩⟩

theorem liq_live_partial (w : World) (env : Env) (s : Nat) (f : Funds) (v t : Nat) (S : Step)
    (hSpre : S.pre = w) (hSenv : S.env = env)
    (hwf : WF w) (htot : TotalBounded w) (hife : IfeWired w) (hsub : LiqPartialCase w env f v t)
    (hpre : C07.precondition S v t = true) (hund : C07.underMargined S v t = some true)
    (r : Int) (hr : liqRatio (preAt S) v t = some r) (hrlt : r < (w.engine.cfg.mmr : Int)) :
    ∃ w', applyTx w env s f (.engine (.liquidate v t 0)) = .ok w' := by
  have hP : preAt S = ({ w with env := env } : World) := by unfold preAt; rw [hSpre, hSenv]
  obtain ⟨x, outF, hvx, hqo, hnz, hopen, hreg, hfee, hme, hifd, _⟩ := precondition_inv S v t hpre
  rw [hP] at hvx hqo hnz hreg hfee hifd hr
  have hvx : w.vamm? v = some x := hvx
  have hqo : Vamm.queryOutputAmount x (readPosition w.engine v t).direction (readPosition w.engine v t).size.value
      = .ok outF := hqo
  have hifd : w.engine.cfg.insuranceFund = IFUND := hifd
  have hnz : (readPosition w.engine v t).size.isZero = false := hnz
  have hnz' : (readPosition w.engine v t).size.value ≠ 0 := by
    have := hnz
    unfold Integer.isZero at this
    simpa using this
  have hD : w.engine.cfg.decimals ≠ 0 := by
    intro h0
    apply hfee
    show outF * w.engine.cfg.liqFee / w.engine.cfg.decimals / 2 = 0
    rw [h0]; simp
  -- the ratio
  have hq0 : ∃ r0, queryMarginRatio ({ w with env := env } : World).q w.engine v t = .ok r0 := by
    unfold C07.underMargined at hund
    rw [hP, hSpre] at hund
    cases hq : queryMarginRatio ({ w with env := env } : World).q w.engine v t with
    | error e => rw [hq] at hund; simp [exInt] at hund
    | ok r0 => exact ⟨r0, rfl⟩
  obtain ⟨r0, hq0⟩ := hq0
  obtain ⟨over, hos, hov⟩ := hsub.ratioOk
  have hratio : ∃ ratio : Integer,
      (over = true → ∃ ro d, marginRatioByOption ({ w with env := env } : World).q w.engine v t .oracle = .ok ro
          ∧ Integer.checkedSub ro r0 = .ok d ∧ ratio = if Integer.gt d Integer.zero then ro else r0)
      ∧ (over = false → ratio = r0) := by
    cases over with
    | false => exact ⟨r0, (fun h => by cases h), (fun _ => rfl)⟩
    | true =>
      obtain ⟨ro, hro, hd⟩ := hov rfl
      obtain ⟨d, hd⟩ := hd r0 hq0
      exact ⟨_, (fun _ => ⟨ro, d, hro, hd, rfl⟩), (fun h => by cases h)⟩
  obtain ⟨ratio, hrov, hrnov⟩ := hratio
  have hlr := liqRatio_eq ({ w with env := env } : World) v t r0 ratio over hq0 hos hrov hrnov
  rw [hr] at hlr
  injection hlr with hlr
  subst hlr
  have hins := not_gt_of_le ratio w.engine.cfg.mmr (by omega)
  obtain ⟨hplr, hgt⟩ := hsub.partialPath _ hr
  have hpart : ratio.value > w.engine.cfg.liqFee ∧ w.engine.cfg.plr ≠ 0 :=
    ⟨by rw [toInt_natAbs] at hgt; omega, hplr⟩
  have hrv : requireVamm ({ w with env := env } : World).q v = .ok () := by
    have hreg' : w.ifund.vamms.contains v = true := hreg
    have hmem : v ∈ w.ifund.vamms := by simpa using hreg'
    have hvxP : ({ w with env := env } : World).vamm? v = some x := hvx
    unfold requireVamm World.q
    simp [hifd, hmem, vammE, hvxP, hopen, Except.map, bind, Except.bind, pure, Except.pure]
  obtain ⟨pv, pt⟩ := MirrorP.read_found w.engine v t hnz'
  -- the partial swap
  obtain ⟨⟨x', o⟩, hsw⟩ := hsub.swapOk x hvx
  obtain ⟨cur, hqa, _, ho, _⟩ := C17.swapOutput_inv _ _ _ _ _ _ _ _ hsw
  subst ho
  -- the spot pnl
  have hvxP : ({ w with env := env } : World).vamm? v = some x := hvx
  have hout : ({ w with env := env } : World).q.outputAmount (readPosition w.engine v t).vamm
      (readPosition w.engine v t).direction (readPosition w.engine v t).size.value = .ok outF := by
    rw [pv]
    unfold World.q
    simp [vammE, hvxP, hqo, bind, Except.bind]
  have hcur : ({ w with env := env } : World).q.outputAmount v (readPosition w.engine v t).direction
      ((readPosition w.engine v t).size.value * w.engine.cfg.plr / w.engine.cfg.decimals) = .ok cur := by
    unfold World.q
    have hqa' : Vamm.queryOutputAmount x (readPosition w.engine v t).direction
      ((readPosition w.engine v t).size.value * w.engine.cfg.plr / w.engine.cfg.decimals) = .ok cur := hqa
    simp [vammE, hvxP, hqa', bind, Except.bind]
  obtain ⟨⟨outF', upnl⟩, hup⟩ := queryMarginRatio_spot _ _ v t r0 hnz hq0
  obtain ⟨h1, h2⟩ := spotPnl_inv _ _ _ outF _ hnz hout hup
  simp only [] at h1 h2
  subst h1
  have hval : upnl.value = (pnlOf (readPosition w.engine v t) outF').natAbs := by rw [← h2, toInt_natAbs]
  have hliq := liquidate_fwd_partial ({ w with env := env, log := [] } : World).q w.engine env s v t r0 ratio over
    cur outF' upnl hq0 hos hrov hrnov hrv hins hnz' hpart hsub.sizeOk hD hcur hup
  -- the reply's arithmetic
  obtain ⟨hmul, hmulU⟩ := hsub.arithOk x hvx outF' hqo cur hqa
  have hmg := hsub.marginOk x hvx outF' hqo cur hqa
  have hsmax : (readPosition w.engine v t).size.value ≤ U128.MAX := by
    have h1 : (readPosition w.engine v t).size.value * w.engine.cfg.plr ≤ U128.MAX := hsub.sizeOk
    have h2 : (readPosition w.engine v t).size.value ≤ (readPosition w.engine v t).size.value * w.engine.cfg.plr :=
      Nat.le_mul_of_pos_right _ (Nat.pos_of_ne_zero hplr)
    omega
  obtain ⟨ns, hns⟩ := partialNewSize_ok (readPosition w.engine v t) (partialSize w v t) hsmax hnz'
  have hno := hsub.notionalOk x hvx outF' hqo cur hqa ns hns
  have hvault := hsub.vaultOk x hvx cur hqa
  unfold realizedAbs at hmg hno
  rw [← hval] at hmulU hmg hno
  have hbE := balance_le_total w.ledger ENGINE hwf.balNodup
  have htot' : total w.ledger ≤ U128.MAX := htot
  obtain ⟨b, d, hgp⟩ := gp_partial env w.engine
    { w.engine with
      tmpLiq := some s
      tmpSwap := some (partialTmp (readPosition w.engine v t) (partialSize w v t) cur upnl) } v t
    (positionToSide (readPosition w.engine v t).size) rfl hnz'
  obtain ⟨e2, hrepl⟩ := partialLiquidationReply_fwd_partial
    (({ ({ w with env := env, log := [] } : World) with
        engine := { w.engine with
          tmpLiq := some s
          tmpSwap := some (partialTmp (readPosition w.engine v t) (partialSize w v t) cur upnl) } } : World).setVamm
          v x').q
    { w.engine with
      tmpLiq := some s
      tmpSwap := some (partialTmp (readPosition w.engine v t) (partialSize w v t) cur upnl) }
    env (partialSize w v t) cur (partialTmp (readPosition w.engine v t) (partialSize w v t) cur upnl) s
    { readPosition w.engine v t with block := b, direction := d } ns (w.ledger.balance ENGINE)
    rfl rfl hgp hmulU hD hmul hns hmg hno rfl (by omega) (Nat.le_trans (Nat.le_add_right _ _) hvault)
  have hcfg2 : e2.cfg = w.engine.cfg := EngineGuards.partialLiquidationReply_cfg _ _ _ _ _ _ hrepl
  -- the transfers
  have hsim : simOk (w.ledger.balance ENGINE) (w.ledger.balance IFUND)
      ((pliqMsgs w.engine.cfg s (cur * w.engine.cfg.liqFee / w.engine.cfg.decimals / 2)).flatMap
        (fun m => xferOf ENGINE m.msg)) := by
    rw [pliqMsgs_xfers _ _ _ hifd]
    exact pliq_sim _ _ _ s hvault
  obtain ⟨w3, hrun⟩ := run_CE_fwd
    (pliqMsgs w.engine.cfg s (cur * w.engine.cfg.liqFee / w.engine.cfg.decimals / 2)) 39
    { (({ ({ w with env := env, log := [] } : World) with
        engine := { w.engine with
          tmpLiq := some s
          tmpSwap := some (partialTmp (readPosition w.engine v t) (partialSize w v t) cur upnl) } } : World).setVamm
          v x') with engine := e2 }
    (pliqMsgs_shape _ _ _) (by show e2.cfg.insuranceFund = IFUND; rw [hcfg2]; exact hifd) hife
    (by have := pliqMsgs_length w.engine.cfg s (cur * w.engine.cfg.liqFee / w.engine.cfg.decimals / 2); omega)
    (movesOk_of_sim _ w.ledger hwf.balNodup htot hsim)
  have hrep : replyOk
      (({ ({ w with env := env, log := [] } : World) with
        engine := { w.engine with
          tmpLiq := some s
          tmpSwap := some (partialTmp (readPosition w.engine v t) (partialSize w v t) cur upnl) } } : World).setVamm
          v x').q
      { w.engine with
        tmpLiq := some s
        tmpSwap := some (partialTmp (readPosition w.engine v t) (partialSize w v t) cur upnl) } env
      REPLY_PARTIAL_LIQUIDATION (.swap ⟨false, cur, partialSize w v t⟩)
      = .ok (e2, pliqMsgs w.engine.cfg s (cur * w.engine.cfg.liqFee / w.engine.cfg.decimals / 2)) := hrepl
  have hflow := execSubs_swap_fwd 38
    ({ ({ w with env := env, log := [] } : World) with
        engine := { w.engine with
          tmpLiq := some s
          tmpSwap := some (partialTmp (readPosition w.engine v t) (partialSize w v t) cur upnl) } } : World)
    w3 v (directionToSide (readPosition w.engine v t).direction)
    (partialSize w v t) 0 REPLY_PARTIAL_LIQUIDATION x x'
    ⟨false, cur, partialSize w v t⟩ e2 _
    hvx (by rw [MirrorP.side_dir]; exact hsw) hrep hrun
  refine ⟨w3, ?_⟩
  unfold applyTx
  have hnf : ¬ (w.engine.cfg.native = true ∧ f.amount ≠ 0) := fun h => h.2 (hsub.noFunds h.1)
  simp only [hnf, if_false]
  have hex : Engine.execute ({ w with env := env, log := [] } : World).q w.engine env s f (.liquidate v t 0)
      = .ok (_, _) := hliq
  simp only [pure_bind, hex, C17.ok_bind]
  exact hflow

/-- C07 on both liquidation paths, for every transaction of the model: a strict extension of `SatD.sat_C07`
    (take the left disjunct everywhere to recover it) -/
theorem sat_C07_partial (w : World) (env : Env) (s : Nat) (f : Funds) (tx : Tx)
    (hwf : WF w) (htot : TotalBounded w) (hife : IfeWired w)
    (hsub : ∀ v t l, tx = .engine (.liquidate v t l) → LiqSubCase w env f v t ∨ LiqPartialCase w env f v t) :
    Spec.C07.check (modelStep w env s f tx) = [] := by
  by_cases hliq : ∃ v t l, tx = .engine (.liquidate v t l)
  · obtain ⟨v, t, lim, rfl⟩ := hliq
    rcases hsub v t lim rfl with hS | hS
    · exact sat_C07_core w env s f _ hwf htot hife (fun v' t' l' h => by
        obtain ⟨rfl, rfl, _⟩ := tx_liq_inj h
        exact hS)
    · unfold modelStep
      cases h : applyTx w env s f (.engine (.liquidate v t lim)) with
      | ok w' =>
        simp only []
        unfold C07.check engineMsg
        simp
      | error e =>
        simp only []
        unfold C07.check engineMsg
        simp only [Bool.false_eq_true, if_false]
        split
        · rename_i hc
          simp only [Bool.and_eq_true, beq_iff_eq] at hc
          obtain ⟨⟨hl, hpre⟩, hund⟩ := hc
          subst hl
          have hq0 : ∃ r0, queryMarginRatio ({ w with env := env } : World).q w.engine v t = .ok r0 := by
            unfold C07.underMargined at hund
            simp only [preAt] at hund
            cases hq : queryMarginRatio ({ w with env := env } : World).q w.engine v t with
            | error e => rw [hq] at hund; simp [exInt] at hund
            | ok r0 => exact ⟨r0, rfl⟩
          obtain ⟨r0, hq0⟩ := hq0
          obtain ⟨over, hos, hov⟩ := hS.ratioOk
          have hratio : ∃ ratio : Integer,
              liqRatio ({ w with env := env } : World) v t = some ratio.toInt := by
            cases over with
            | false =>
              exact ⟨r0, liqRatio_eq _ v t r0 r0 false hq0 hos (fun h => by cases h) (fun _ => rfl)⟩
            | true =>
              obtain ⟨ro, hro, hd⟩ := hov rfl
              obtain ⟨d, hd⟩ := hd r0 hq0
              exact ⟨_, liqRatio_eq _ v t r0 _ true hq0 hos (fun _ => ⟨ro, d, hro, hd, rfl⟩) (fun h => by cases h)⟩
          obtain ⟨ratio, hlr⟩ := hratio
          simp only [preAt]
          rw [hlr]
          simp only []
          split
          · rename_i hlt
            exfalso
            obtain ⟨w', hok⟩ := liq_live_partial w env s f v t _ rfl rfl hwf htot hife hS hpre hund _ hlr hlt
            rw [hok] at h
            cases h
          · rfl
        · rfl
  · exact sat_C07_core w env s f tx hwf htot hife (fun v t l h => absurd ⟨v, t, l, h⟩ hliq)

/-! #### the clauses by name ("exactly this clause fails") -/

inductive Clause where
  | noFunds | ratioOk | partialPath | sizeOk | swapOk | arithOk | marginOk | notionalOk | vaultOk
  deriving DecidableEq, Repr

def Clause.all : List Clause :=
  [.noFunds, .ratioOk, .partialPath, .sizeOk, .swapOk, .arithOk, .marginOk, .notionalOk, .vaultOk]

theorem Clause.mem_all (c : Clause) : c ∈ Clause.all := by cases c <;> decide

def Clause.Holds (w : World) (env : Env) (f : Funds) (v t : Nat) : Clause → Prop
  | .noFunds => NoFunds w f
  | .ratioOk => RatioOk w env v t
  | .partialPath => PartialPath w env v t
  | .sizeOk => SizeOk w v t
  | .swapOk => SwapOk w env v t
  | .arithOk => ArithOk w v t
  | .marginOk => MarginOk w v t
  | .notionalOk => NotionalOk w v t
  | .vaultOk => VaultOk w v t

instance (w : World) (env : Env) (f : Funds) (v t : Nat) (c : Clause) : Decidable (Clause.Holds w env f v t c) := by
  cases c <;> (simp only [Clause.Holds]; infer_instance)

theorem partialCase_iff (w : World) (env : Env) (f : Funds) (v t : Nat) :
    LiqPartialCase w env f v t ↔ ∀ c, Clause.Holds w env f v t c :=
  ⟨fun h c => by
      cases c
      · exact h.noFunds
      · exact h.ratioOk
      · exact h.partialPath
      · exact h.sizeOk
      · exact h.swapOk
      · exact h.arithOk
      · exact h.marginOk
      · exact h.notionalOk
      · exact h.vaultOk,
   fun h => ⟨h .noFunds, h .ratioOk, h .partialPath, h .sizeOk, h .swapOk, h .arithOk, h .marginOk, h .notionalOk,
     h .vaultOk⟩⟩

/-- clause `c` of `LiqPartialCase` fails and every other clause holds -/
def ExactlyFails (c : Clause) (w : World) (env : Env) (f : Funds) (v t : Nat) : Prop :=
  ∀ c' ∈ Clause.all, (Clause.Holds w env f v t c' ↔ c' ≠ c)

instance (c : Clause) (w : World) (env : Env) (f : Funds) (v t : Nat) : Decidable (ExactlyFails c w env f v t) := by
  unfold ExactlyFails; infer_instance

theorem ExactlyFails.spec {c : Clause} {w : World} {env : Env} {f : Funds} {v t : Nat}
    (h : ExactlyFails c w env f v t) :
    ¬ Clause.Holds w env f v t c ∧ (∀ c', c' ≠ c → Clause.Holds w env f v t c') ∧ ¬ LiqPartialCase w env f v t :=
  ⟨fun hc => (h c (Clause.mem_all c)).1 hc rfl, fun c' hne => (h c' (Clause.mem_all c')).2 hne,
   fun hp => (h c (Clause.mem_all c)).1 ((partialCase_iff w env f v t).1 hp c) rfl⟩

/-- the two sub-cases are complementary: wherever the liquidation ratio is defined, exactly one of
    `LiqSubCase.fullPath` and `LiqPartialCase.partialPath` can hold of it -/
theorem path_dichotomy (w : World) (env : Env) (v t : Nat) (r : Int)
    (_h : liqRatio ({ w with env := env } : World) v t = some r) :
    (w.engine.cfg.plr = 0 ∨ r.natAbs ≤ w.engine.cfg.liqFee)
      ↔ ¬ (w.engine.cfg.plr ≠ 0 ∧ w.engine.cfg.liqFee < r.natAbs) := by
  constructor
  · rintro (h | h) ⟨h1, h2⟩
    · exact h1 h
    · omega
  · intro h
    by_cases hp : w.engine.cfg.plr = 0
    · exact Or.inl hp
    · exact Or.inr (by
        by_cases hl : w.engine.cfg.liqFee < r.natAbs
        · exact absurd ⟨hp, hl⟩ h
        · omega)

/-! ## concrete worlds (everything below is evaluated by the kernel) -/

namespace Witness
open Perp.Props.SatD.Witness (D vA vB envA liqTx)

instance (w : World) : Decidable (WF w) :=
  decidable_of_iff
    ((w.engine.tmpSwap = none ∧ w.engine.sentFunds = none ∧ w.engine.tmpLiq = none)
      ∧ (w.ledger.bal.map (·.1)).Nodup ∧ (w.ledger.allow.map (·.1)).Nodup)
    ⟨fun ⟨a, b, c⟩ => ⟨a, b, c⟩, fun h => ⟨h.noResidue, h.balNodup, h.allowNodup⟩⟩

instance (w : World) : Decidable (TotalBounded w) := by unfold TotalBounded; infer_instance
instance (w : World) : Decidable (IfeWired w) := by unfold IfeWired; infer_instance

/-- engine with one position of trader 101 on vAMM 10 (checkpoint 0, latest cumulative premium fraction
    `cum`): `D` = 10⁶, maintenance 5 %, liquidation fee 2.5 % -/
def eQ (plr : Nat) (native : Bool) (pos : Position) (cum : Nat) : E :=
  { cfg := { owner := 60, insuranceFund := IFUND, feePool := FEEPOOL, native := native, decimals := D,
             imr := 100000, mmr := 50000, plr := plr, liqFee := 25000 },
    st := ⟨120 * D, 0, false⟩, pauser := 60, whitelist := [],
    positions := [pos], vammMaps := [(10, ⟨0, [⟨cum, false⟩]⟩)],
    tmpSwap := none, sentFunds := none, tmpLiq := none }

def wQ (x : Vamm.V) (e : E) (ife : Nat) (price : Option Nat) (balE balI : Nat) : World :=
  { env := ⟨9, 9000⟩, engine := e, vamms := [(10, x)],
    ifund := { owner := 61, engine := ife, vamms := [10], stored := true },
    feePool := { owner := 62, tokens := [5] },
    feed := .mock { owner := 63, price := price },
    ledger := { bal := [(100, 10000 * D), (ENGINE, balE), (IFUND, balI)], allow := [] } }

/-- a long of 10 base on vAMM 10 -/
def longB (margin notional : Nat) : Position :=
  ⟨10, 101, .addToAmm, ⟨10 * D, false⟩, margin, notional, Integer.zero, 5⟩

/-- the `Liquidate` of trader 101 on vAMM 10 by account 110, in block `envA` -/
def liqStep (w : World) (f : Funds) : Step := modelStep w envA 110 f (liqTx 101)

/-- the property calls the position liquidatable, all hypotheses of `sat_C07_partial` other than the sub-case
    and `TotalBounded` hold, and the model's `Liquidate` fails with `tag` -/
def Stuck (w : World) (f : Funds) (tag : String) : Prop :=
  WF w ∧ IfeWired w ∧ C07.precondition (liqStep w f) 10 101 = true
    ∧ C07.underMargined (liqStep w f) 10 101 = some true
    ∧ (liqStep w f).ok = false ∧ C07.check (liqStep w f) = [tag]

instance (w : World) (f : Funds) (tag : String) : Decidable (Stuck w f tag) := by unfold Stuck; infer_instance

def TAG : String := "liquidatable-position-could-not-be-liquidated"

/-! ### non-vacuity: world P — a long of 10 base, open notional 120, margin 40, now worth 96, funding debt
    12.16: equity 3.84, ratio 4 %, between the liquidation fee 2.5 % and maintenance 5 %; `plr` = 25 % -/

def wP : World := wQ vB (eQ 250000 false (longB (40 * D) (120 * D)) 1216000) ENGINE (some 9696000) (5000 * D) (5000 * D)

set_option maxRecDepth 100000 in
/-- the sub-case is inhabited -/
theorem wP_partialCase : LiqPartialCase wP envA ⟨0, false⟩ 10 101 := by decide +kernel

set_option maxRecDepth 100000 in
/-- … in the partial band, with `plr` = 25 %, on a position the property calls liquidatable … -/
theorem wP_band :
    liqRatio ({ wP with env := envA } : World) 10 101 = some 40000
    ∧ wP.engine.cfg.liqFee = 25000 ∧ wP.engine.cfg.mmr = 50000
    ∧ wP.engine.cfg.plr * 4 = wP.engine.cfg.decimals
    ∧ C07.precondition (liqStep wP ⟨0, false⟩) 10 101 = true
    ∧ C07.underMargined (liqStep wP ⟨0, false⟩) 10 101 = some true := by decide +kernel

set_option maxRecDepth 100000 in
/-- … and the model liquidates it: the position is reduced by the fraction (10 → 7.5 base; margin
    40 − 6 − 0.604 488, notional 120 − 24.179 551 − 6), liquidator and fund are paid half the penalty each
    (0.302 244 = ⌊24.179 551 · 2.5 %⌋ / 2), and C06 and C07 report nothing -/
theorem wP_liquidated :
    (liqStep wP ⟨0, false⟩).ok = true
    ∧ (liqStep wP ⟨0, false⟩).xfers = [(ENGINE, IFUND, 302244), (ENGINE, 110, 302244)]
    ∧ readPosition (liqStep wP ⟨0, false⟩).post.engine 10 101
        = ⟨10, 101, .addToAmm, ⟨7500000, false⟩, 33395512, 89820449, Integer.zero, 5⟩
    ∧ C07.check (liqStep wP ⟨0, false⟩) = []
    ∧ C06.check (liqStep wP ⟨0, false⟩) = [] := by decide +kernel

set_option maxRecDepth 100000 in
/-- the hypotheses of `sat_C07_partial` hold together of world P, for its `Liquidate`, by the RIGHT disjunct -/
theorem wP_hyps : WF wP ∧ TotalBounded wP ∧ IfeWired wP
    ∧ ∀ v t l, liqTx 101 = .engine (.liquidate v t l) →
        LiqSubCase wP envA ⟨0, false⟩ v t ∨ LiqPartialCase wP envA ⟨0, false⟩ v t := by
  refine ⟨by decide +kernel, by decide +kernel, rfl, ?_⟩
  intro v t l h
  obtain ⟨rfl, rfl, _⟩ := tx_liq_inj h
  exact Or.inr wP_partialCase

/-- the theorem applied (not evaluated) to world P -/
theorem wP_by_theorem : C07.check (modelStep wP envA 110 ⟨0, false⟩ (liqTx 101)) = [] :=
  sat_C07_partial wP envA 110 ⟨0, false⟩ (liqTx 101) wP_hyps.1 wP_hyps.2.1 wP_hyps.2.2.1 wP_hyps.2.2.2

/-- `LiqSubCase` does not hold of world P (it is not on the full path): `sat_C07_partial` is a STRICT extension
    of `sat_C07` -/
theorem wP_not_fullCase : ¬ LiqSubCase wP envA ⟨0, false⟩ 10 101 := by
  intro h
  rcases h.fullPath 40000 wP_band.1 with h | h
  · exact absurd h (by decide)
  · exact absurd h (by decide)

/-! ### each clause is needed: worlds in which exactly that clause fails, the property calls the position
    liquidatable, and the model's `Liquidate` fails -/

/-- `vaultOk`, empty vault: the plain transfer of the fund's half fails (the implementation's
    "transfer failure - reply (id 9)") -/
def wVault0 : World := wQ vB (eQ 250000 false (longB (40 * D) (120 * D)) 1216000) ENGINE (some 9696000) 0 (5000 * D)

set_option maxRecDepth 100000 in
theorem C07p_cex_vault_empty :
    ExactlyFails .vaultOk wVault0 envA ⟨0, false⟩ 10 101 ∧ TotalBounded wVault0 ∧ Stuck wVault0 ⟨0, false⟩ TAG := by
  decide +kernel

/-- `vaultOk`, vault = one half exactly (0.302 244): `withdraw` sees enough for the liquidator's half and asks
    the fund for nothing, the fund's half is transferred first, the liquidator's transfer fails -/
def wVaultHalf : World :=
  wQ vB (eQ 250000 false (longB (40 * D) (120 * D)) 1216000) ENGINE (some 9696000) 302244 (5000 * D)

set_option maxRecDepth 100000 in
theorem C07p_cex_vault_one_half :
    ExactlyFails .vaultOk wVaultHalf envA ⟨0, false⟩ 10 101 ∧ TotalBounded wVaultHalf
      ∧ Stuck wVaultHalf ⟨0, false⟩ TAG := by
  decide +kernel

set_option maxRecDepth 100000 in
/-- `vaultOk` is sharp: one unit below both halves the liquidation fails, with both halves it goes through -/
theorem C07p_vault_threshold :
    Stuck (wQ vB (eQ 250000 false (longB (40 * D) (120 * D)) 1216000) ENGINE (some 9696000) 604487 (5000 * D))
      ⟨0, false⟩ TAG
    ∧ (liqStep (wQ vB (eQ 250000 false (longB (40 * D) (120 * D)) 1216000) ENGINE (some 9696000) 604488 (5000 * D))
        ⟨0, false⟩).ok = true := by
  decide +kernel

/-- `marginOk` with a NON-NEGATIVE ratio: a long in profit (bought for 60, worth 96: pnl +36) whose funding debt
    (40.16) leaves equity 3.84, ratio 4 %; margin 8.  The reply subtracts the MAGNITUDE of the realised pnl
    (9 = 36 · 25 %) and the penalty (0.604 488) from the margin: `8 − 9` underflows.  (A finding of this proof:
    the sign of the ratio is not the condition; `Witness.C07_witness_partial_path` is the negative-ratio case.) -/
def wMargin : World :=
  wQ vB (eQ 250000 false (longB (8 * D) (60 * D)) 4016000) ENGINE (some 9696000) (5000 * D) (5000 * D)

set_option maxRecDepth 100000 in
theorem C07p_cex_margin_profit :
    ExactlyFails .marginOk wMargin envA ⟨0, false⟩ 10 101 ∧ TotalBounded wMargin ∧ Stuck wMargin ⟨0, false⟩ TAG
    ∧ liqRatio ({ wMargin with env := envA } : World) 10 101 = some 40000 := by
  decide +kernel

/-- `notionalOk`: a long in profit (bought for 20, worth 96: pnl +76), funding debt 102.16, equity 3.84, ratio
    4 %, margin 30 ≥ 19 + 0.6.  The new open notional `20 − 24.18 − 19` underflows -/
def wNotional : World :=
  wQ vB (eQ 250000 false (longB (30 * D) (20 * D)) 10216000) ENGINE (some 9696000) (5000 * D) (5000 * D)

set_option maxRecDepth 100000 in
theorem C07p_cex_notional_underflows :
    ExactlyFails .notionalOk wNotional envA ⟨0, false⟩ 10 101 ∧ TotalBounded wNotional
      ∧ Stuck wNotional ⟨0, false⟩ TAG := by
  decide +kernel

/-- `arithOk`: open notional 2·10³³ (raw) against a value of 9.9: the product `|upnl| · plr` of the reply
    (unchecked `Integer` multiplication) exceeds `u128`; margin chosen so that the ratio is 4 % -/
def wArith : World :=
  wQ vA (eQ 250000 false (longB (2 * 10 ^ 33 - 9504950) (2 * 10 ^ 33)) 0) ENGINE (some D) (5000 * D) (5000 * D)

set_option maxRecDepth 100000 in
theorem C07p_cex_pnl_product_overflows :
    ExactlyFails .arithOk wArith envA ⟨0, false⟩ 10 101 ∧ TotalBounded wArith ∧ Stuck wArith ⟨0, false⟩ TAG := by
  decide +kernel

/-- `sizeOk`: a long of 2·10³³ raw base units (the vAMM does quote it: a closing sale adds base): the handler
    multiplies `size · plr` before dividing by `decimals`, and `2·10³³ · 250 000 > u128::MAX` -/
def wSize (plr : Nat) : World :=
  wQ vA (eQ plr false ⟨10, 101, .addToAmm, ⟨2 * 10 ^ 33, false⟩, 240000001, 1200 * D, Integer.zero, 5⟩ 0)
    ENGINE (some D) (5000 * D) (5000 * D)

set_option maxRecDepth 100000 in
theorem C07p_cex_size_product_overflows :
    ExactlyFails .sizeOk (wSize 250000) envA ⟨0, false⟩ 10 101 ∧ TotalBounded (wSize 250000)
      ∧ Stuck (wSize 250000) ⟨0, false⟩ TAG := by
  decide +kernel

set_option maxRecDepth 100000 in
/-- control: the same world with `plr` = 10 % (`2·10³³ · 100 000 ≤ u128::MAX`) is in the sub-case and is
    liquidated -/
theorem C07p_size_control :
    LiqPartialCase (wSize 100000) envA ⟨0, false⟩ 10 101 ∧ (liqStep (wSize 100000) ⟨0, false⟩).ok = true := by
  decide +kernel

/-- `swapOk`: a short of 400 base on a pool holding 1000 base, with `plr` = 300 % (above one: `ConfigOK`
    violated, C07 does not assume it): the partial closing swap asks the vAMM for 1200 base -/
def wSwap (plr : Nat) : World :=
  wQ vA (eQ plr false ⟨10, 101, .removeFromAmm, ⟨400 * D, true⟩, 93333334, 600 * D, Integer.zero, 5⟩ 0)
    ENGINE (some D) (5000 * D) (5000 * D)

set_option maxRecDepth 100000 in
theorem C07p_cex_swap_refused :
    ExactlyFails .swapOk (wSwap 3000000) envA ⟨0, false⟩ 10 101 ∧ TotalBounded (wSwap 3000000)
      ∧ Stuck (wSwap 3000000) ⟨0, false⟩ TAG := by
  decide +kernel

set_option maxRecDepth 100000 in
/-- control: the same short with `plr` = 25 % is in the sub-case and is liquidated (the sub-case covers shorts) -/
theorem C07p_swap_control :
    LiqPartialCase (wSwap 250000) envA ⟨0, false⟩ 10 101 ∧ (liqStep (wSwap 250000) ⟨0, false⟩).ok = true
    ∧ C07.check (liqStep (wSwap 250000) ⟨0, false⟩) = [] ∧ C06.check (liqStep (wSwap 250000) ⟨0, false⟩) = [] := by
  decide +kernel

set_option maxRecDepth 100000 in
/-- the known defect (`SatD.Witness.C07_witness_partial_path`: world A, equity −80, ratio −809 %, `plr` = 25 %) is
    exactly a failure of `marginOk`: every other clause of the sub-case holds of it -/
theorem C07p_known_defect_is_marginOk :
    ExactlyFails .marginOk (SatD.Witness.wA 250000 101 0 (some D) (5000 * D)) envA ⟨0, false⟩ 10 101
    ∧ Stuck (SatD.Witness.wA 250000 101 0 (some D) (5000 * D)) ⟨0, false⟩ TAG := by
  decide +kernel

/-- `noFunds` on the partial path: native collateral, the liquidator attaches 5 units it does not own -/
def wNative : World :=
  wQ vB (eQ 250000 true (longB (40 * D) (120 * D)) 1216000) ENGINE (some 9696000) (5000 * D) (5000 * D)

set_option maxRecDepth 100000 in
theorem C07p_cex_funds_attached :
    ExactlyFails .noFunds wNative envA ⟨5, false⟩ 10 101 ∧ TotalBounded wNative ∧ Stuck wNative ⟨5, false⟩ TAG := by
  decide +kernel

/-- `ratioOk` on the partial path: the oracle gives no price, `is_over_spread_limit` fails -/
def wNoOracle : World :=
  wQ vB (eQ 250000 false (longB (40 * D) (120 * D)) 1216000) ENGINE none (5000 * D) (5000 * D)

set_option maxRecDepth 100000 in
theorem C07p_cex_oracle_unreadable :
    ExactlyFails .ratioOk wNoOracle envA ⟨0, false⟩ 10 101 ∧ TotalBounded wNoOracle
      ∧ Stuck wNoOracle ⟨0, false⟩ "liquidatable-position-could-not-be-liquidated(oracle-unreadable)" := by
  decide +kernel

/-- `TotalBounded` on the partial path: the fund's account is at `u128::MAX` and cannot be credited its half -/
def wFundFull : World :=
  wQ vB (eQ 250000 false (longB (40 * D) (120 * D)) 1216000) ENGINE (some 9696000) (5000 * D) U128.MAX

set_option maxRecDepth 100000 in
theorem C07p_cex_fund_at_u128 :
    LiqPartialCase wFundFull envA ⟨0, false⟩ 10 101 ∧ ¬ TotalBounded wFundFull ∧ Stuck wFundFull ⟨0, false⟩ TAG := by
  decide +kernel

set_option maxRecDepth 100000 in
/-- `IfeWired` is NOT needed on the partial path (no fund withdrawal is ever dispatched there: the hypothesis is
    kept for the full-path disjunct): world P with the fund's beneficiary set to account 7 is still liquidated -/
theorem C07p_fund_wiring_not_needed :
    ¬ IfeWired (wQ vB (eQ 250000 false (longB (40 * D) (120 * D)) 1216000) 7 (some 9696000) (5000 * D) (5000 * D))
    ∧ (liqStep (wQ vB (eQ 250000 false (longB (40 * D) (120 * D)) 1216000) 7 (some 9696000) (5000 * D) (5000 * D))
        ⟨0, false⟩).ok = true := by
  decide +kernel

end Witness

end Perp.Props.SatDC07Partial
