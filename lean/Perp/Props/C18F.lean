/-
  G5 — price feed theorems (second half of C18).  Statements were fixed before the proofs were written.
-/
import Perp.Model.Pricefeed
import Perp.Spec.Feed
import Perp.Lemmas.Basic

namespace Perp.Props.C18F
open Perp Perp.Pricefeed Perp.Spec.C18F

/-- a stored round list as the contract builds it: the dummy round, then pushes -/
inductive Built : List Round → Prop
  | init : Built [dummy]
  | push (rs : List Round) (p t : Nat) : Built rs → Built (pushRound rs p t)

def exOpt {α : Type} (e : Except Err α) : Option α :=
  match e with
  | .ok a => some a
  | .error _ => none

/-! #### structure of a built list -/

theorem subs_dummy : subs [dummy] = [] := by
  simp [subs, dummy]

theorem built_ne_nil (rs : List Round) (h : Built rs) : rs ≠ [] := by
  cases h <;> simp [pushRound]

theorem subs_push (rs : List Round) (p t : Nat) (hne : rs ≠ []) :
    subs (pushRound rs p t) = ⟨rs.length, p, t⟩ :: subs rs := by
  have hl : rs.length ≠ 0 := by
    intro h0
    exact hne (List.length_eq_zero_iff.mp h0)
  simp [subs, pushRound, hl]

/-- a built list is its submissions followed by the dummy round -/
theorem built_split (rs : List Round) (h : Built rs) : rs = subs rs ++ [dummy] := by
  induction h with
  | init => rw [subs_dummy]; rfl
  | push rs p t hb ih =>
    rw [subs_push rs p t (built_ne_nil rs hb)]
    simp only [List.cons_append]
    rw [← ih]
    rfl

/-- inversion: below the head of a built list is a built list (or nothing, under the dummy) -/
theorem built_inv (x : Round) (rest : List Round) (h : Built (x :: rest)) :
    (rest = [] ∧ x = dummy) ∨ (Built rest ∧ x.roundId = rest.length) := by
  generalize hl : x :: rest = l at h
  cases h with
  | init =>
    left
    simp at hl
    exact ⟨hl.2, hl.1⟩
  | push rs p t hb =>
    right
    simp [pushRound] at hl
    obtain ⟨hx, hr⟩ := hl
    subst hx hr
    exact ⟨hb, rfl⟩

theorem built_len_one (rs : List Round) (h : Built rs) (hl : rs.length = 1) : rs = [dummy] := by
  cases h with
  | init => rfl
  | push rs p t hb =>
    simp [pushRound] at hl
    exact absurd hl (built_ne_nil rs hb)

/-- round ids count the submissions: the head of a built list has id = number of submissions -/
theorem built_ids (rs : List Round) (h : Built rs) :
    rs.length = (subs rs).length + 1 ∧ (∀ r, rs.head? = some r → r.roundId = (subs rs).length) := by
  induction h with
  | init =>
    rw [subs_dummy]
    refine ⟨rfl, ?_⟩
    intro r hr
    simp at hr
    subst hr
    rfl
  | push rs p t hb ih =>
    rw [subs_push rs p t (built_ne_nil rs hb)]
    refine ⟨?_, ?_⟩
    · simp [pushRound]
      exact ih.1
    · intro r hr
      simp [pushRound] at hr
      subst hr
      simp
      exact ih.1

/-- the latest query returns exactly the last submission -/
theorem getPrice_latest (rs : List Round) (h : Built rs) : latestOk rs (exOpt (getPrice rs)) = true := by
  cases h with
  | init => simp [latestOk, subs_dummy]
  | push rs p t hb =>
    unfold latestOk
    rw [subs_push rs p t (built_ne_nil rs hb)]
    simp [pushRound, getPrice, exOpt]

/-- the n-back query returns exactly the n-back submission and fails when there is none -/
theorem getPrevious_nth (rs : List Round) (n : Nat) (h : Built rs) :
    previousOk rs n (exOpt (getPrevious rs n)) = true := by
  obtain ⟨hlen, hid⟩ := built_ids rs h
  have hsplit := built_split rs h
  cases rs with
  | nil => exact absurd rfl (built_ne_nil _ h)
  | cons latest rest =>
    have hidl : latest.roundId = (subs (latest :: rest)).length := hid latest rfl
    unfold previousOk getPrevious
    by_cases hn : n ≥ latest.roundId
    · have hdrop : (subs (latest :: rest)).drop n = [] := by
        apply List.drop_eq_nil_of_le
        omega
      rw [hdrop]
      simp [hn, exOpt]
    · have hlt : n < (subs (latest :: rest)).length := by omega
      cases hd : (subs (latest :: rest)).drop n with
      | nil =>
        have := List.drop_eq_nil_iff.mp hd
        omega
      | cons r tl =>
        have hdrop : (latest :: rest).drop n = r :: (tl ++ [dummy]) := by
          conv => lhs; rw [hsplit]
          rw [List.drop_append_of_le_length (by omega), hd]
          rfl
        simp only [hn, if_false]
        rw [hdrop]
        simp [exOpt]

/-! #### TWAP -/

theorem lower_step (L p d period weighted : Nat) (hp : L ≤ p) (hw : L * period ≤ weighted) :
    L * (period + d) ≤ weighted + p * d := by
  rw [Nat.mul_add]
  exact Nat.add_le_add hw (Nat.mul_le_mul_right d hp)

theorem upper_step (U p d period weighted : Nat) (hp : p ≤ U) (hw : weighted ≤ U * period) :
    weighted + p * d ≤ U * (period + d) := by
  rw [Nat.mul_add]
  exact Nat.add_le_add hw (Nat.mul_le_mul_right d hp)

theorem div_lower (L x W : Nat) (hW : W ≠ 0) (h : L * W ≤ x) : L ≤ x / W :=
  (Nat.le_div_iff_mul_le (Nat.pos_of_ne_zero hW)).2 h

theorem div_upper (U x W : Nat) (h : x ≤ U * W) : x / W ≤ U :=
  Nat.div_le_of_le_mul (by rw [Nat.mul_comm]; exact h)

@[simp] theorem ite_error_ok_iff {α : Type} (c : Prop) [Decidable c] (e : Err) (x : Except Err α)
    (r : α) : (if c then Except.error e else x) = .ok r ↔ ¬ c ∧ x = .ok r := by
  by_cases hc : c <;> simp [hc]

theorem subs_cons_ne (r : Round) (l : List Round) (h : r.roundId ≠ 0) :
    subs (r :: l) = r :: subs l := by
  simp [subs, h]

theorem twapLoop_bounds (baseTs interval now : Nat) (hb : baseTs + interval = now) :
    ∀ (rest : List Round) (latest : Round) (timestamp cumulative weighted r : Nat),
      Built (latest :: rest) → latest.roundId ≠ 0 →
      timestamp + cumulative = now →
      twapLoop baseTs interval rest latest timestamp cumulative weighted = .ok r →
      (∀ L, (∀ s ∈ inEffect baseTs (subs rest), L ≤ s.price) → L * cumulative ≤ weighted → L ≤ r) ∧
      (∀ U, (∀ s ∈ inEffect baseTs (subs rest), s.price ≤ U) → weighted ≤ U * cumulative → r ≤ U) := by
  intro rest
  induction rest with
  | nil =>
    intro latest timestamp cumulative weighted r hbuilt hid _ _
    rcases built_inv _ _ hbuilt with ⟨_, hx⟩ | ⟨hb', _⟩
    · subst hx; exact absurd rfl hid
    · exact absurd rfl (built_ne_nil _ hb')
  | cons x rest' ih =>
    intro latest timestamp cumulative weighted r hbuilt hid hnow h
    rcases built_inv _ _ hbuilt with ⟨hnil, _⟩ | ⟨hbr, hlen⟩
    · cases hnil
    unfold twapLoop at h
    by_cases h1 : latest.roundId = 1
    · simp [h1] at h
      obtain ⟨hW, hr⟩ := h
      subst hr
      exact ⟨fun L _ hw => div_lower L weighted cumulative hW hw,
             fun U _ hw => div_upper U weighted cumulative hw⟩
    · simp only [h1, if_false] at h
      have hxid : x.roundId ≠ 0 := by
        rcases built_inv _ _ hbr with ⟨hnil, _⟩ | ⟨_, hl⟩
        · subst hnil; simp at hlen; omega
        · simp at hlen; omega
      have hsub : subs (x :: rest') = x :: subs rest' := subs_cons_ne x rest' hxid
      by_cases hts : x.timestamp ≤ baseTs
      · simp [hts] at h
        obtain ⟨hge, _, _, hI, hr⟩ := h
        have hW : cumulative + (timestamp - baseTs) = interval := by omega
        have heff : inEffect baseTs (subs (x :: rest')) = [x] := by
          rw [hsub]; simp [inEffect, hts]
        subst hr
        refine ⟨fun L hL hw => ?_, fun U hU hw => ?_⟩
        · have hLs : L ≤ x.price := hL x (by rw [heff]; simp)
          apply div_lower _ _ _ hI
          have := lower_step L x.price (timestamp - baseTs) cumulative weighted hLs hw
          rw [hW] at this
          exact this
        · have hUs : x.price ≤ U := hU x (by rw [heff]; simp)
          apply div_upper
          have := upper_step U x.price (timestamp - baseTs) cumulative weighted hUs hw
          rw [hW] at this
          exact this
      · simp [hts] at h
        obtain ⟨hge, _, _, _, h⟩ := h
        have heff : inEffect baseTs (subs (x :: rest')) = x :: inEffect baseTs (subs rest') := by
          rw [hsub]; simp [inEffect, hts]
        have hnow' : x.timestamp + (cumulative + (timestamp - x.timestamp)) = now := by omega
        obtain ⟨ihL, ihU⟩ := ih x _ _ _ _ hbr hxid hnow' h
        refine ⟨fun L hL hw => ?_, fun U hU hw => ?_⟩
        · rw [heff] at hL
          exact ihL L (fun t ht => hL t (List.mem_cons_of_mem _ ht))
            (lower_step L _ _ _ _ (hL x (by simp)) hw)
        · rw [heff] at hU
          exact ihU U (fun t ht => hU t (List.mem_cons_of_mem _ ht))
            (upper_step U _ _ _ _ (hU x (by simp)) hw)

theorem getTwap_bounds (rs : List Round) (now interval r : Nat) (h : Built rs)
    (hr : getTwap rs now interval = .ok r) :
    (∃ s, s ∈ inEffect (now - interval) (subs rs)) ∧
    (∀ L, (∀ s ∈ inEffect (now - interval) (subs rs), L ≤ s.price) → L ≤ r) ∧
    (∀ U, (∀ s ∈ inEffect (now - interval) (subs rs), s.price ≤ U) → r ≤ U) := by
  cases rs with
  | nil => exact absurd rfl (built_ne_nil _ h)
  | cons latest rest =>
    unfold getTwap at hr
    by_cases hi : interval = 0
    · simp [hi] at hr
    by_cases hni : now < interval
    · simp [hi, hni] at hr
    by_cases hid : latest.roundId = 0
    · simp [hi, hni, hid] at hr
    simp only [hi, hni, hid, if_false] at hr
    have hsub : subs (latest :: rest) = latest :: subs rest := subs_cons_ne latest rest hid
    have hmem : latest ∈ inEffect (now - interval) (subs (latest :: rest)) := by
      rw [hsub]
      by_cases hc : latest.timestamp ≤ now - interval <;> simp [inEffect, hc]
    refine ⟨⟨latest, hmem⟩, ?_⟩
    by_cases hc : latest.timestamp < now - interval ∨ latest.roundId = 1
    · simp [hc] at hr
      subst hr
      exact ⟨fun L hL => hL latest hmem, fun U hU => hU latest hmem⟩
    · simp only [hc, if_false] at hr
      by_cases hfut : now < latest.timestamp
      · simp [hfut] at hr
      simp [hfut] at hr
      obtain ⟨w, ⟨_, hw⟩, hr⟩ := hr
      subst hw
      obtain ⟨ihL, ihU⟩ := twapLoop_bounds (now - interval) interval now (by omega) rest latest
        latest.timestamp (now - latest.timestamp) _ r h hid (by omega) hr
      by_cases hts : latest.timestamp ≤ now - interval
      · -- the latest round starts exactly at the window base: it is the only one in effect and
        -- every older round gets weight zero
        have hteq : latest.timestamp = now - interval := by omega
        have heff : inEffect (now - interval) (subs (latest :: rest)) = [latest] := by
          rw [hsub]; simp [inEffect, hts]
        have hcum : now - latest.timestamp = interval := by omega
        rw [hcum] at hr
        have hrp : r = latest.price := by
          clear ihL ihU
          rcases built_inv _ _ h with ⟨_, hx⟩ | ⟨hbr, hlen⟩
          · subst hx; exact absurd rfl hid
          unfold twapLoop at hr
          by_cases h1 : latest.roundId = 1
          · exact absurd (Or.inr h1) hc
          · simp only [h1, if_false] at hr
            cases rest with
            | nil => simp at hr
            | cons x rest' =>
              by_cases hx : x.timestamp ≤ now - interval
              · simp [hx, hteq] at hr
                obtain ⟨_, _, hr⟩ := hr
                subst hr
                exact Nat.mul_div_cancel _ (Nat.pos_of_ne_zero hi)
              · simp [hx] at hr
                omega
        subst hrp
        rw [heff]
        exact ⟨fun L hL => hL latest (by simp), fun U hU => hU latest (by simp)⟩
      · have heff : inEffect (now - interval) (subs (latest :: rest))
            = latest :: inEffect (now - interval) (subs rest) := by
          rw [hsub]; simp [inEffect, hts]
        refine ⟨fun L hL => ?_, fun U hU => ?_⟩
        · rw [heff] at hL
          exact ihL L (fun t ht => hL t (List.mem_cons_of_mem _ ht))
            (Nat.mul_le_mul_right _ (hL latest (by simp)))
        · rw [heff] at hU
          exact ihU U (fun t ht => hU t (List.mem_cons_of_mem _ ht))
            (Nat.mul_le_mul_right _ (hU latest (by simp)))

/-- the feed TWAP lies between the lowest and highest submitted price overlapping the window -/
theorem getTwap_within (rs : List Round) (now interval r : Nat) (h : Built rs)
    (hr : getTwap rs now interval = .ok r) : twapWithin rs now interval r = true := by
  obtain ⟨⟨t, ht⟩, hL, hU⟩ := getTwap_bounds rs now interval r h hr
  unfold twapWithin
  simp only [Bool.and_eq_true, List.any_eq_true, decide_eq_true_eq]
  constructor
  · apply Classical.byContradiction
    intro hne
    have : r + 1 ≤ r := hL (r + 1) (fun s hs => by
      apply Classical.byContradiction
      intro hlt
      exact hne ⟨s, hs, by omega⟩)
    omega
  · apply Classical.byContradiction
    intro hne
    have hall : ∀ s ∈ inEffect (now - interval) (subs rs), s.price ≤ r - 1 ∧ 0 < r := by
      intro s hs
      apply Classical.byContradiction
      intro hlt
      exact hne ⟨s, hs, by omega⟩
    have hr1 : r ≤ r - 1 := hU (r - 1) (fun s hs => (hall s hs).1)
    have := (hall t ht).2
    omega

/-- submissions only by the owner; ownership transfer moves the right (C09, feed part) -/
theorem appendPrice_role (f f' : Feed) (s k p t : Nat) (h : appendPrice f s k p t = .ok f') : s = f.owner := by
  unfold appendPrice at h
  by_cases hs : s = f.owner
  · exact hs
  · simp [hs] at h
theorem appendMultiple_role (f f' : Feed) (s k : Nat) (ps ts : List Nat) (h : appendMultiple f s k ps ts = .ok f') :
    s = f.owner := by
  unfold appendMultiple at h
  by_cases hs : s = f.owner
  · exact hs
  · simp [hs] at h
theorem updateOwner_role (f f' : Feed) (s n : Nat) (h : updateOwner f s n = .ok f') :
    s = f.owner ∧ f'.owner = n ∧ f'.keys = f.keys := by
  unfold updateOwner at h
  by_cases hs : s = f.owner
  · simp [hs] at h
    subst h
    exact ⟨hs, rfl, rfl⟩
  · simp [hs] at h

/-- what `appendPrice` stores stays `Built` -/
theorem push_built (f : Feed) (k p t : Nat) (hb : ∀ l, f.lookup k = some l → Built l) :
    ∀ l, (f.push k p t).lookup k = some l → Built l := by
  intro l hl
  have hlk : (f.push k p t).lookup k = some (pushRound (readRounds (f.lookup k)) p t) := by
    simp [Feed.push, Feed.store, Feed.lookup]
  rw [hlk] at hl
  injection hl with hl
  subst hl
  apply Built.push
  cases hlook : f.lookup k with
  | none => exact Built.init
  | some l0 => exact hb l0 hlook

end Perp.Props.C18F
