/-
  SatD (C06, C07) — shared infrastructure: arithmetic of the observed transfer list, the decomposition of
  an engine transaction with its log, the run of a list of fire-and-forget collateral messages, and the
  inversion of `liquidate` that keeps its ratio guard.
-/
import Perp.Model.World
import Perp.Spec.World
import Perp.Lemmas.Basic
import Perp.Props.ModelStep
import Perp.Props.Dispatch
import Perp.Props.EngineGuards
import Perp.Props.EngineMoney
import Perp.Props.WorldInv
import Perp.Props.G9Perm
import Perp.Props.Mirror.Run

namespace Perp.Props.SatD
open Perp Perp.World Perp.Engine Perp.Spec Perp.Spec.W
open Perp.Props.Dispatch
open Perp.Props.MirrorP (IsColl CE AllCE AllCE_tail)
open Perp.Props.EngineGuards (Post)

/-! ### sums over the transfer list -/

theorem flow_nil (src to : Nat) : flow [] src to = 0 := rfl
theorem inflow_nil (to : Nat) : inflow [] to = 0 := rfl

theorem flow_cons (x : Nat × Nat × Nat) (l : List (Nat × Nat × Nat)) (src to : Nat) :
    flow (x :: l) src to = (if x.1 = src ∧ x.2.1 = to then (x.2.2 : Int) else 0) + flow l src to := by
  unfold flow
  by_cases h : x.1 = src ∧ x.2.1 = to
  · have hb : (x.1 == src && x.2.1 == to) = true := by simp [h.1, h.2]
    rw [List.filter_cons, if_pos hb, List.map_cons, List.foldl_cons, if_pos h, MirrorP.foldl_add]
    omega
  · have hb : ¬ ((x.1 == src && x.2.1 == to) = true) := by simpa using h
    rw [List.filter_cons, if_neg hb, if_neg h]
    omega

theorem inflow_cons (x : Nat × Nat × Nat) (l : List (Nat × Nat × Nat)) (to : Nat) :
    inflow (x :: l) to = (if x.2.1 = to then (x.2.2 : Int) else 0) + inflow l to := by
  unfold inflow
  by_cases h : x.2.1 = to
  · have hb : (x.2.1 == to) = true := by simp [h]
    rw [List.filter_cons, if_pos hb, List.map_cons, List.foldl_cons, if_pos h, MirrorP.foldl_add]
    omega
  · have hb : ¬ ((x.2.1 == to) = true) := by simpa using h
    rw [List.filter_cons, if_neg hb, if_neg h]
    omega

theorem flow_append (a b : List (Nat × Nat × Nat)) (src to : Nat) :
    flow (a ++ b) src to = flow a src to + flow b src to := by
  induction a with
  | nil => simp [flow_nil]
  | cons x a ih => rw [List.cons_append, flow_cons, flow_cons, ih]; omega

theorem inflow_append (a b : List (Nat × Nat × Nat)) (to : Nat) :
    inflow (a ++ b) to = inflow a to + inflow b to := by
  induction a with
  | nil => simp [inflow_nil]
  | cons x a ih => rw [List.cons_append, inflow_cons, inflow_cons, ih]; omega

/-- a list all of whose transfers start somewhere else contributes nothing to a flow out of `src` -/
theorem flow_zero_of_src (l : List (Nat × Nat × Nat)) (src to : Nat) (h : ∀ x ∈ l, x.1 ≠ src) :
    flow l src to = 0 := by
  induction l with
  | nil => rfl
  | cons x l ih =>
    rw [flow_cons, ih (fun y hy => h y (List.mem_cons_of_mem _ hy)),
      if_neg (fun hh => h x List.mem_cons_self hh.1)]
    rfl

theorem inflow_zero_of_to (l : List (Nat × Nat × Nat)) (to : Nat) (h : ∀ x ∈ l, x.2.1 ≠ to) :
    inflow l to = 0 := by
  induction l with
  | nil => rfl
  | cons x l ih =>
    rw [inflow_cons, ih (fun y hy => h y (List.mem_cons_of_mem _ hy)),
      if_neg (fun hh => h x List.mem_cons_self hh)]
    rfl


/-! ### single collateral messages -/

theorem exec_bankSend (fuel : Nat) (w w1 : World) (c to amt : Nat) (ev : Ev)
    (h : execMsg fuel w c (.bankSend to amt) = .ok (w1, ev)) :
    ∃ g, Ledger.move w.ledger c to amt = .ok g ∧ amt ≠ 0
      ∧ w1 = { w with ledger := g, log := w.log ++ [(c, to, amt)] } := by
  cases fuel with
  | zero => unfold execMsg at h; cases h
  | succ fuel =>
    unfold execMsg at h
    simp at h
    obtain ⟨g, hg, rfl, _⟩ := h
    unfold Ledger.bankSend at hg
    split at hg
    · cases hg
    · rename_i ha
      exact ⟨g, hg, ha, rfl⟩

theorem exec_tokenTransfer (fuel : Nat) (w w1 : World) (c to amt : Nat) (ev : Ev)
    (h : execMsg fuel w c (.tokenTransfer to amt) = .ok (w1, ev)) :
    ∃ g, Ledger.move w.ledger c to amt = .ok g ∧ amt ≠ 0
      ∧ w1 = { w with ledger := g, log := w.log ++ [(c, to, amt)] } := by
  cases fuel with
  | zero => unfold execMsg at h; cases h
  | succ fuel =>
    unfold execMsg at h
    simp at h
    obtain ⟨g, hg, rfl, _⟩ := h
    unfold Ledger.tokenTransfer at hg
    split at hg
    · cases hg
    · rename_i ha
      exact ⟨g, hg, ha, rfl⟩

theorem exec_tokenTransferFrom (fuel : Nat) (w w1 : World) (c o to amt : Nat) (ev : Ev)
    (h : execMsg fuel w c (.tokenTransferFrom o to amt) = .ok (w1, ev)) :
    ∃ g, Ledger.tokenTransferFrom w.ledger o to amt = .ok g
      ∧ w1 = { w with ledger := g, log := w.log ++ [(o, to, amt)] } := by
  cases fuel with
  | zero => unfold execMsg at h; cases h
  | succ fuel =>
    unfold execMsg at h
    try simp only [] at h
    split at h
    · cases h
    simp at h
    obtain ⟨g, hg, rfl, _⟩ := h
    exact ⟨g, hg, rfl⟩

/-- an insurance-fund withdrawal that goes through: the engine is wired to the fund, the caller is the
    fund's engine, and the fund pays it exactly the amount -/
theorem exec_ifWithdraw (fuel : Nat) (w w1 : World) (c amt : Nat) (ev : Ev)
    (h : execMsg fuel w c (.ifWithdraw amt) = .ok (w1, ev)) :
    w.engine.cfg.insuranceFund = IFUND ∧ c = w.ifund.engine
    ∧ ∃ g, Ledger.move w.ledger IFUND w.ifund.engine amt = .ok g ∧ amt ≠ 0
      ∧ w1 = { w with ledger := g, log := w.log ++ [(IFUND, w.ifund.engine, amt)] } := by
  cases fuel with
  | zero => unfold execMsg at h; cases h
  | succ fuel =>
    unfold execMsg at h
    try simp only [] at h
    split at h
    · cases h
    rename_i h1
    split at h
    · cases h
    rename_i h2
    simp at h
    obtain ⟨w2, hs, rfl, _⟩ := h
    refine ⟨by simpa using h1, by simpa using h2, ?_⟩
    obtain ⟨f', ev', hx⟩ := G9Perm.execSubs_single_never _ _ _ _ _ hs (by split <;> rfl)
    split at hx
    · exact exec_bankSend _ _ _ _ _ _ _ hx
    · exact exec_tokenTransfer _ _ _ _ _ _ _ hx

/-- the transfer a collateral message dispatched by the engine puts on the log -/
def xferOf (ife : Nat) : Msg → List (Nat × Nat × Nat)
  | .tokenTransfer to amt => [(ENGINE, to, amt)]
  | .bankSend to amt => [(ENGINE, to, amt)]
  | .tokenTransferFrom o to amt => [(o, to, amt)]
  | .ifWithdraw amt => [(IFUND, ife, amt)]
  | _ => []

/-- everything but ledger and log -/
def SameButLedger (w w1 : World) : Prop :=
  w1.engine = w.engine ∧ w1.vamms = w.vamms ∧ w1.ifund = w.ifund ∧ w1.env = w.env ∧ w1.feed = w.feed
    ∧ w1.feePool = w.feePool

theorem SameButLedger.refl (w : World) : SameButLedger w w := ⟨rfl, rfl, rfl, rfl, rfl, rfl⟩
theorem SameButLedger.trans {a b c : World} (h1 : SameButLedger a b) (h2 : SameButLedger b c) : SameButLedger a c :=
  ⟨h2.1.trans h1.1, h2.2.1.trans h1.2.1, h2.2.2.1.trans h1.2.2.1, h2.2.2.2.1.trans h1.2.2.2.1,
   h2.2.2.2.2.1.trans h1.2.2.2.2.1, h2.2.2.2.2.2.trans h1.2.2.2.2.2⟩

theorem exec_coll (fuel : Nat) (w w1 : World) (m : Msg) (ev : Ev) (hm : IsColl m)
    (h : execMsg fuel w ENGINE m = .ok (w1, ev)) :
    SameButLedger w w1 ∧ w1.log = w.log ++ xferOf w.ifund.engine m
    ∧ (∀ a, m = .ifWithdraw a → w.engine.cfg.insuranceFund = IFUND ∧ w.ifund.engine = ENGINE) := by
  cases m with
  | tokenTransfer to amt =>
    obtain ⟨g, _, _, rfl⟩ := exec_tokenTransfer _ _ _ _ _ _ _ h
    exact ⟨SameButLedger.refl _, rfl, fun a ha => by cases ha⟩
  | bankSend to amt =>
    obtain ⟨g, _, _, rfl⟩ := exec_bankSend _ _ _ _ _ _ _ h
    exact ⟨SameButLedger.refl _, rfl, fun a ha => by cases ha⟩
  | tokenTransferFrom o to amt =>
    obtain ⟨g, _, rfl⟩ := exec_tokenTransferFrom _ _ _ _ _ _ _ _ h
    exact ⟨SameButLedger.refl _, rfl, fun a ha => by cases ha⟩
  | ifWithdraw amt =>
    obtain ⟨h1, h2, g, _, _, rfl⟩ := exec_ifWithdraw _ _ _ _ _ _ h
    exact ⟨SameButLedger.refl _, rfl, fun a _ => ⟨h1, h2.symm⟩⟩
  | vammSwapInput a d x l g => exact absurd hm (by simp [IsColl])
  | vammSwapOutput a d x l => exact absurd hm (by simp [IsColl])
  | vammSettle a => exact absurd hm (by simp [IsColl])
  | vammSetOpen a o => exact absurd hm (by simp [IsColl])

/-- running a list of fire-and-forget collateral messages of the engine: nothing but the ledger moves,
    and the log grows by exactly their transfers -/
theorem run_CE : ∀ (msgs : List SubMsg) (fuel : Nat) (w w' : World), AllCE msgs →
    execSubs fuel w ENGINE msgs = .ok w' →
    SameButLedger w w' ∧ w'.log = w.log ++ msgs.flatMap (fun m => xferOf w.ifund.engine m.msg)
    ∧ (∀ m ∈ msgs, ∀ a, m.msg = .ifWithdraw a → w.engine.cfg.insuranceFund = IFUND ∧ w.ifund.engine = ENGINE) := by
  intro msgs
  induction msgs with
  | nil =>
    intro fuel w w' _ h
    rw [WorldInv.execSubs_nil _ _ _ _ h]
    exact ⟨SameButLedger.refl _, by simp, fun m hm => by cases hm⟩
  | cons m rest ih =>
    intro fuel w w' hce h
    cases fuel with
    | zero => unfold execSubs at h; cases h
    | succ fuel =>
      obtain ⟨h1, h2⟩ := AllCE_tail hce
      obtain ⟨w1, ev, hx, _, hno⟩ := execSubs_cons_ok fuel w w' ENGINE m rest h
      have hrest := hno (WorldInv.not_reply_of_err h1.1)
      obtain ⟨s1, l1, i1⟩ := exec_coll _ _ _ _ _ h1.2 hx
      obtain ⟨s2, l2, i2⟩ := ih fuel w1 w' h2 hrest
      refine ⟨s1.trans s2, ?_, ?_⟩
      · rw [l2, l1, s1.2.2.1, List.flatMap_cons, List.append_assoc]
      · intro x hx' a ha
        rcases List.mem_cons.1 hx' with rfl | hx'
        · exact i1 a ha
        · have := i2 x hx' a ha
          rw [s1.1, s1.2.2.1] at this
          exact this

theorem xferOf_transferMsg (ife : Nat) (cfg : Config) (r a : Nat) :
    xferOf ife (transferMsg cfg r a).msg = [(ENGINE, r, a)] := by
  unfold transferMsg; split <;> rfl

theorem xferOf_ifWithdrawMsg (ife a : Nat) : xferOf ife (ifWithdrawMsg a).msg = [(IFUND, ife, a)] := rfl


/-! ### an engine transaction, with its log -/

/-- `WorldInv.applyTx_engine_inv` together with what the attachment of funds leaves on the log -/
theorem applyTx_engine_inv' (w w' : World) (env : Env) (s : Nat) (f : Funds) (m : ExecMsg)
    (h : applyTx w env s f (.engine m) = .ok w') :
    ∃ (w1 : World) (e1 : E) (subs : List SubMsg),
      SameButLedger { w with env := env, log := [] } w1
      ∧ (∀ x ∈ w1.log, x.1 = s ∧ x.2.1 = ENGINE)
      ∧ execute w1.q w1.engine env s f m = .ok (e1, subs)
      ∧ execSubs FUEL { w1 with engine := e1 } ENGINE subs = .ok w' := by
  unfold applyTx at h
  dsimp only at h
  split at h
  · simp at h
    obtain ⟨w1, hg, e', subs, hex, h⟩ := h
    obtain ⟨⟨w1', ev⟩, hg', rfl⟩ := (exmap_ok _ _ _).1 hg
    obtain ⟨g, _, _, hw1⟩ := exec_bankSend _ _ _ _ _ _ _ hg'
    subst hw1
    refine ⟨_, e', subs, ?_, ?_, hex, h⟩
    · exact ⟨rfl, rfl, rfl, rfl, rfl, rfl⟩
    · intro x hx
      simp at hx
      subst hx
      exact ⟨rfl, rfl⟩
  · simp at h
    obtain ⟨e', subs, hex, h⟩ := h
    refine ⟨{ w with env := env, log := [] }, e', subs, SameButLedger.refl _, ?_, hex, h⟩
    intro x hx
    cases hx


/-! ### the engine's queriers only see the ledger through `balance` -/

theorem q_of_same (w w1 : World) (h : SameButLedger w w1) :
    w1.q = { w.q with balance := fun a => .ok (w1.ledger.balance a) } := by
  obtain ⟨h1, h2, h3, h4, h5, h6⟩ := h
  cases w; cases w1
  simp only at h1 h2 h3 h4 h5 h6
  subst h1 h2 h3 h4 h5 h6
  rfl

theorem queryMarginRatio_bal (q : Q) (b : Nat → Except Err Nat) (e : E) (v t : Nat) :
    queryMarginRatio { q with balance := b } e v t = queryMarginRatio q e v t := rfl

theorem marginRatioByOption_bal (q : Q) (b : Nat → Except Err Nat) (e : E) (v t : Nat) (o : PnlOpt) :
    marginRatioByOption { q with balance := b } e v t o = marginRatioByOption q e v t o := rfl

theorem queryMarginRatio_tmpLiq (q : Q) (e : E) (x : Option Nat) (v t : Nat) :
    queryMarginRatio q { e with tmpLiq := x } v t = queryMarginRatio q e v t := rfl

theorem marginRatioByOption_tmpLiq (q : Q) (e : E) (x : Option Nat) (v t : Nat) (o : PnlOpt) :
    marginRatioByOption q { e with tmpLiq := x } v t o = marginRatioByOption q e v t o := rfl

/-! ### `liquidate`, with its ratio guard -/

section
open Perp.Props.MirrorP
/-- the in-flight record a whole-position close / liquidation leaves -/
def closeTmp (p : Position) : TmpSwap :=
  ⟨p.vamm, p.trader, directionToSide p.direction, p.size.value, 0, p.notional, 0, Integer.zero, Integer.zero, false⟩

theorem partial_size (a plr D ps : Nat) (h : unwrap (do let x ← cmul a plr; cdiv x D) = .ok ps) :
    D ≠ 0 ∧ ps = a * plr / D ∧ a * plr ≤ U128.MAX := by
  rw [EngineMoney.unwrap_ok] at h
  obtain ⟨y, hy, h⟩ := EngineMoney.bind_ok h
  simp only [cmul_ok] at hy
  obtain ⟨hle, rfl⟩ := hy
  simp only [cdiv_ok] at h
  exact ⟨h.1, h.2, hle⟩

theorem liquidate_guard (q : Q) (e : E) (env : Env) (s v t l : Nat) :
    Post (fun r =>
      ∃ r0 over ratio, queryMarginRatio q e v t = .ok r0 ∧ q.isOverSpread v = .ok over
        ∧ (over = true → ∃ ro d, marginRatioByOption q e v t .oracle = .ok ro ∧ Integer.checkedSub ro r0 = .ok d
              ∧ ratio = if Integer.gt d Integer.zero then ro else r0)
        ∧ (over = false → ratio = r0)
        ∧ requireVamm q v = .ok ()
        ∧ requireInsufficientMargin ratio e.cfg.mmr = .ok ()
        ∧ ¬ (readPosition e v t).size.value = 0
        ∧ r.1.positions = e.positions ∧ r.1.cfg = e.cfg ∧ r.1.vammMaps = e.vammMaps ∧ r.1.st = e.st
        ∧ r.1.sentFunds = e.sentFunds ∧ r.1.tmpLiq = some s
        ∧ ((¬ (ratio.value > e.cfg.liqFee ∧ e.cfg.plr ≠ 0)
              ∧ r.1.tmpSwap = some (closeTmp (readPosition e v t))
              ∧ r.2 = [swapOutputMsg (readPosition e v t).vamm (directionToSide (readPosition e v t).direction)
                        (readPosition e v t).size.value l REPLY_LIQUIDATION])
          ∨ ((ratio.value > e.cfg.liqFee ∧ e.cfg.plr ≠ 0)
              ∧ ∃ tmp ps pl, r.1.tmpSwap = some tmp ∧ tmp.vamm = (readPosition e v t).vamm
                  ∧ tmp.trader = (readPosition e v t).trader
                  ∧ r.2 = [swapOutputMsg v (directionToSide (readPosition e v t).direction) ps pl
                            REPLY_PARTIAL_LIQUIDATION]
                  ∧ e.cfg.decimals ≠ 0 ∧ ps = (readPosition e v t).size.value * e.cfg.plr / e.cfg.decimals)))
      (liquidate q e env s v t l) := by
  unfold liquidate partialLiquidation internalClosePosition
  walk [skip]
  all_goals (

    refine ⟨_, _, _, ‹queryMarginRatio q _ v t = Except.ok _›, ‹q.isOverSpread v = Except.ok _›, ?_, ?_,
      ‹requireVamm q v = Except.ok _›, ‹requireInsufficientMargin _ _ = Except.ok _›, ‹¬ _ = 0›,
      rfl, rfl, rfl, rfl, rfl, rfl, ?_⟩
    · first
        | exact fun _ => ⟨_, _, ‹marginRatioByOption q _ v t PnlOpt.oracle = Except.ok _›, ‹Integer.checkedSub _ _ = Except.ok _›, rfl⟩
        | exact fun h => absurd h ‹¬ _ = true›
    · first
        | exact fun _ => rfl
        | (intro h; subst h; contradiction)
    · first
        | (refine Or.inl ⟨?_, rfl, rfl⟩
           first
             | assumption
             | (rw [if_pos ‹Integer.gt _ _ = true›]; assumption)
             | (rw [if_neg ‹¬ Integer.gt _ _ = true›]; assumption))
        | (have hps := partial_size _ _ _ _ ‹unwrap (do let x ← cmul (readPosition _ v t).size.value _; cdiv x _) = Except.ok _›
           refine Or.inr ⟨?_, _, _, _, rfl, rfl, rfl, rfl, hps.1, hps.2.1⟩
           first
             | assumption
             | (rw [if_pos ‹Integer.gt _ _ = true›]; assumption)
             | (rw [if_neg ‹¬ Integer.gt _ _ = true›]; assumption)))
end

/-! ### the liquidation flow -/

/-- a liquidation flow: the closing swap, the reply to it, and the transfers the reply dispatched -/
theorem liq_run (W w' : World) (a : Nat) (side : Side) (amt lim id : Nat)
    (h : execSubs FUEL W ENGINE [swapOutputMsg a side amt lim id] = .ok w') :
    ∃ x x' qa e2 subs2, W.vamm? a = some x
      ∧ Vamm.swapOutput x W.env ENGINE (sideToDirection side) amt lim = .ok (x', ⟨false, qa, amt⟩)
      ∧ replyOk (W.setVamm a x').q W.engine W.env id (.swap ⟨false, qa, amt⟩) = .ok (e2, subs2)
      ∧ execSubs 39 { W.setVamm a x' with engine := e2 } ENGINE subs2 = .ok w' := by
  have hF : FUEL = 39 + 1 := rfl
  rw [hF] at h
  obtain ⟨w2, ev, hx, hyes, _⟩ := execSubs_cons_ok 39 W w' ENGINE _ [] h
  obtain ⟨_, e2, subs2, w3, hrep, hs2, hrest⟩ := hyes (Or.inl rfl)
  rw [WorldInv.execSubs_nil _ _ _ _ hrest]
  have hx' : execMsg 39 W ENGINE (.vammSwapOutput a (sideToDirection side) amt lim) = .ok (w2, ev) := hx
  obtain ⟨x, x', o, hv, hsw, rfl, rfl⟩ := MirrorP.execMsg_swapOutput_inv _ _ _ _ _ _ _ _ _ hx'
  obtain ⟨qa, _, _, ho, _⟩ := C17.swapOutput_inv _ _ _ _ _ _ _ _ hsw
  subst ho
  exact ⟨x, x', qa, e2, subs2, hv, hsw, hrep, hs2⟩

end Perp.Props.SatD
