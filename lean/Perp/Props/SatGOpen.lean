/-
  SatG, part 3 — OpenPosition on a flat or same-side position (the increase path): the native deployment,
  given exactly what the cw20 deployment pulls from the caller, does what the cw20 deployment does.
-/
import Perp.Props.SatGTwin
import Perp.Props.SatGDeposit
import Perp.Props.Mirror.Exec

namespace Perp.Props.SatGOpen
open Perp Perp.World Perp.Engine Perp.Props.LiqTwin Perp.Props.SatGTwin

/-- the same queriers, with another view of the balances -/
def qb (q : Q) (f : Nat → Except Err Nat) : Q := { q with balance := f }

/-- the engine with a sent-funds record -/
def withSent (e : E) (sf : SentFunds) : E := { e with sentFunds := some sf }

section ws
variable (q : Q) (f : Nat → Except Err Nat) (e : E) (sf : SentFunds)
@[simp] theorem ws_st : (withSent e sf).st = e.st := rfl
@[simp] theorem ws_cfg : (withSent e sf).cfg = e.cfg := rfl
@[simp] theorem ws_tmpSwap : (withSent e sf).tmpSwap = e.tmpSwap := rfl
@[simp] theorem ws_sentFunds : (withSent e sf).sentFunds = some sf := rfl
@[simp] theorem ws_getPosition (env : Env) (v t : Nat) (s : Side) :
    getPosition env (withSent e sf) v t s = getPosition env e v t s := rfl
@[simp] theorem ws_calcRemainMargin (p : Position) (d : Integer) :
    calcRemainMargin (withSent e sf) p d = calcRemainMargin e p d := rfl
@[simp] theorem ws_updateOpenInterest (st : State) (v : Nat) (a : Integer) (t : Nat) :
    updateOpenInterest q (withSent e sf) st v a t = updateOpenInterest q e st v a t := rfl
@[simp] theorem ws_checkHoldingCap (v s t : Nat) :
    checkHoldingCap q (withSent e sf) v s t = checkHoldingCap q e v s t := rfl
@[simp] theorem ws_storePosition (p : Position) :
    storePosition (withSent e sf) p = withSent (storePosition e p) sf := rfl
@[simp] theorem ws_queryMarginRatio (v t : Nat) :
    queryMarginRatio q (withSent e sf) v t = queryMarginRatio q e v t := rfl
@[simp] theorem ws_withdraw (st : State) (r a p : Nat) :
    withdraw q (withSent e sf) st r a p = withdraw q e st r a p := rfl
@[simp] theorem ws_transferFees (fr v n : Nat) :
    transferFees q (withSent e sf) fr v n = transferFees q e fr v n := rfl
@[simp] theorem qb_updateOpenInterest (st : State) (v : Nat) (a : Integer) (t : Nat) :
    updateOpenInterest (qb q f) e st v a t = updateOpenInterest q e st v a t := rfl
@[simp] theorem qb_checkHoldingCap (v s t : Nat) :
    checkHoldingCap (qb q f) e v s t = checkHoldingCap q e v s t := rfl
@[simp] theorem qb_queryMarginRatio (v t : Nat) :
    queryMarginRatio (qb q f) e v t = queryMarginRatio q e v t := rfl
@[simp] theorem qb_transferFees (fr v n : Nat) :
    transferFees (qb q f) e fr v n = transferFees q e fr v n := rfl
end ws

/-! ### relational walk: both runs step through the same binds -/

/-- a relation between two outcomes that only speaks about successful ones: a successful `A` is matched by
    a successful `B`; a successful `B` has the shape `S` (with data `d`), and is matched by a successful `A`
    if the data pass `Qc` -/
structure OkRel {α β δ : Type} (P : α → β → δ → Prop) (S : β → δ → Prop) (Qc : δ → Prop)
    (A : Except Err α) (B : Except Err β) : Prop where
  fwd : ∀ a, A = .ok a → ∃ b d, B = .ok b ∧ S b d ∧ P a b d
  bwd : ∀ b, B = .ok b → ∃ d, S b d ∧ (Qc d → ∃ a, A = .ok a ∧ P a b d)

section
variable {α β δ γ γ' : Type} {P : α → β → δ → Prop} {S : β → δ → Prop} {Qc : δ → Prop}

theorem OkRel.bind_same (x : Except Err γ)
    (f : γ → Except Err α) (g : γ → Except Err β) (h : ∀ c, x = .ok c → OkRel P S Qc (f c) (g c)) :
    OkRel P S Qc (x >>= f) (x >>= g) := by
  cases x with
  | error e => exact ⟨fun a h => (by cases h), fun b h => (by cases h)⟩
  | ok c => exact h c rfl

theorem OkRel.error (e1 e2 : Err) :
    OkRel P S Qc (.error e1 : Except Err α) (.error e2 : Except Err β) :=
  ⟨fun a h => (by cases h), fun b h => (by cases h)⟩

theorem OkRel.error_bind (e1 e2 : Err)
    (f : γ → Except Err α) (g : γ' → Except Err β) :
    OkRel P S Qc ((.error e1 : Except Err γ) >>= f) ((.error e2 : Except Err γ') >>= g) :=
  ⟨fun a h => (by cases h), fun b h => (by cases h)⟩

theorem OkRel.pure_bind (c : γ) (c' : γ')
    (f : γ → Except Err α) (g : γ' → Except Err β) (h : OkRel P S Qc (f c) (g c')) :
    OkRel P S Qc ((pure c : Except Err γ) >>= f) ((pure c' : Except Err γ') >>= g) := h

theorem OkRel.ite (c : Prop) {i1 i2 : Decidable c}
    (a a' : Except Err α) (b b' : Except Err β)
    (h1 : c → OkRel P S Qc a b) (h2 : ¬ c → OkRel P S Qc a' b') :
    OkRel P S Qc (@ite _ c i1 a a') (@ite _ c i2 b b') := by
  by_cases h : c
  · rw [if_pos h, if_pos h]; exact h1 h
  · rw [if_neg h, if_neg h]; exact h2 h
end

macro "ok_walk" : tactic => `(tactic|
  repeat' first
    | (with_reducible exact OkRel.error _ _)
    | (with_reducible exact OkRel.error_bind _ _ _ _)
    | (with_reducible refine OkRel.pure_bind _ _ _ _ ?_)
    | (with_reducible refine OkRel.bind_same _ _ _ fun _ _ => ?_)
    | (with_reducible refine OkRel.ite _ _ _ _ _ (fun _ => ?_) (fun _ => ?_)))

/-! ### the cw20 messages of an increase and their native counterparts -/

def pullE (s a : Nat) : List SubMsg :=
  if a ≠ 0 then [⟨.tokenTransferFrom s ENGINE_ADDR a, REPLY_TRANSFER_FAILURE, .error⟩] else []

def feesC (s i f sp tl : Nat) : List SubMsg :=
  (if sp ≠ 0 then [⟨.tokenTransferFrom s i sp, REPLY_TRANSFER_FAILURE, .error⟩] else [])
  ++ (if tl ≠ 0 then [⟨.tokenTransferFrom s f tl, REPLY_TRANSFER_FAILURE, .error⟩] else [])

def feesN (i f sp tl : Nat) : List SubMsg :=
  (if sp ≠ 0 then [⟨.bankSend i sp, REPLY_TRANSFER_FAILURE, .error⟩] else [])
  ++ (if tl ≠ 0 then [⟨.bankSend f tl, REPLY_TRANSFER_FAILURE, .error⟩] else [])

/-- relation between the native and the cw20 result of the increase reply; the data are the margin pulled
    into the vault, the spread fee and the toll -/
def IncP (X : Nat) (i f : Nat) (rn rc : E × List SubMsg) (d : Nat × Nat × Nat) : Prop :=
  rn.1 = setNative rc.1 true ∧ rn.2 = feesN i f d.2.1 d.2.2 ∧ X = d.1 + d.2.1 + d.2.2

/-- the shape of the cw20 messages of an increase reply -/
def IncS (s i f : Nat) (rc : E × List SubMsg) (d : Nat × Nat × Nat) : Prop :=
  rc.2 = pullE s d.1 ++ feesC s i f d.2.1 d.2.2

def IncQ (X : Nat) (d : Nat × Nat × Nat) : Prop := X = d.1 + d.2.1 + d.2.2 ∧ X ≤ U128.MAX

theorem sentFundsSufficient_ok (a r : Nat) (u : Unit) : sentFundsSufficient ⟨a, r⟩ = .ok u ↔ a = r := by
  unfold sentFundsSufficient
  by_cases h1 : a > r
  · simp [h1]; omega
  · by_cases h2 : a < r
    · simp [h1, h2]; omega
    · simp [h1, h2]; omega

theorem feesC_eq (e1 : E) (t sp tl : Nat) :
    ((if sp ≠ 0 then [transferFromMsg (setNative e1 false).cfg t (setNative e1 false).cfg.insuranceFund sp] else [])
      ++ (if tl ≠ 0 then [transferFromMsg (setNative e1 false).cfg t (setNative e1 false).cfg.feePool tl] else []))
      = feesC t e1.cfg.insuranceFund e1.cfg.feePool sp tl := rfl

theorem feesN_eq (t i f sp tl : Nat) : (feesC t i f sp tl).map toNative = feesN i f sp tl := by
  unfold feesC feesN
  by_cases h1 : sp = 0 <;> by_cases h2 : tl = 0 <;> simp [h1, h2, toNative]

/-- the part of the increase reply after the position was stored: margin, fees, sent-funds check -/
theorem suffix_rel (q : Q) (e1 : E) (X : Nat) (sm t v N pv pt mmr : Nat)
    (R0 : Except Err Nat) (pre : List SubMsg) (hR0 : ∀ r, R0 = .ok r ↔ (r = sm ∧ sm ≤ U128.MAX))
    (hpre : pre = pullE t sm) (En Ec : E) (hE : En = setNative Ec true)
    (ifd fp : Nat) (hifd : ifd = e1.cfg.insuranceFund) (hfp : fp = e1.cfg.feePool) :
    OkRel (IncP X ifd fp) (IncS t ifd fp) (IncQ X)
      (do let r0 ← R0
          let x ← unwrap (transferFees q (setNative e1 true) t v N)
          let r ← cadd r0 x.2.1
          let r ← cadd r x.2.2
          sentFundsSufficient ⟨X, r⟩
          let ratio ← queryMarginRatio q e1 pv pt
          requireAdditionalMargin ratio mmr
          pure (En, x.1))
      (do let x ← unwrap (transferFees q (setNative e1 false) t v N)
          let r ← cadd 0 x.2.1
          let _r ← cadd r x.2.2
          let ratio ← queryMarginRatio q e1 pv pt
          requireAdditionalMargin ratio mmr
          pure (Ec, pre ++ x.1)) := by
  subst hpre hE hifd hfp
  rw [unwrap_transferFees_tw]
  cases hx : unwrap (transferFees q (setNative e1 false) t v N) with
  | error err =>
    constructor
    · intro a hA
      simp only [bind_ok_iff] at hA
      obtain ⟨_, _, _, h, _⟩ := hA
      cases h
    · intro b hB; cases hB
  | ok x =>
    obtain ⟨fm, sp, tl⟩ := x
    have hfm := (EngineGuards.transferFees_spec _ _ _ _ _ _ _ _ ((EngineMoney.unwrap_ok _ _).1 hx)).2
    rw [feesC_eq] at hfm
    subst hfm
    constructor
    · intro a hA
      simp only [bind_ok_iff, Except.map, Except.ok.injEq, exists_eq_left', cadd_ok, pure_ok_iff,
        sentFundsSufficient_ok] at hA
      obtain ⟨r0, hr0, r1, ⟨h1, rfl⟩, r2, ⟨h2, rfl⟩, _, hs, ratio, hratio, u, hreq, rfl⟩ := hA
      obtain ⟨rfl, hsm⟩ := (hR0 r0).1 hr0
      refine ⟨(Ec,
        pullE t r0 ++ feesC t e1.cfg.insuranceFund e1.cfg.feePool sp tl), (r0, sp, tl), ?_, rfl,
        rfl, feesN_eq _ _ _ _ _, hs⟩
      simp only [bind_ok_iff, cadd_ok, pure_ok_iff]
      exact ⟨_, rfl, _, ⟨by dsimp only; omega, rfl⟩, _, ⟨by dsimp only; omega, rfl⟩, ratio, hratio, u, hreq, rfl⟩
    · intro b hB
      simp only [bind_ok_iff, Except.ok.injEq, exists_eq_left', cadd_ok, pure_ok_iff] at hB
      obtain ⟨r1, ⟨h1, rfl⟩, r2, ⟨h2, rfl⟩, ratio, hratio, u, hreq, rfl⟩ := hB
      refine ⟨(sm, sp, tl), rfl, fun hQ => ?_⟩
      obtain ⟨hX, hXm⟩ := hQ
      dsimp only at hX
      refine ⟨(setNative Ec true,
        feesN e1.cfg.insuranceFund e1.cfg.feePool sp tl), ?_, rfl, rfl, hX⟩
      rw [← feesN_eq t]
      simp only [bind_ok_iff, Except.map, Except.ok.injEq, exists_eq_left', cadd_ok, pure_ok_iff,
        sentFundsSufficient_ok]
      exact ⟨sm, (hR0 sm).2 ⟨rfl, by omega⟩, _, ⟨by omega, rfl⟩, _, ⟨by omega, rfl⟩, (), by omega,
        ratio, hratio, u, hreq, trivial⟩

theorem suffix_rel0 (q : Q) (e1 : E) (X : Nat) (t v N pv pt mmr : Nat)
    (En Ec : E) (hE : En = setNative Ec true)
    (ifd fp : Nat) (hifd : ifd = e1.cfg.insuranceFund) (hfp : fp = e1.cfg.feePool) :
    OkRel (IncP X ifd fp) (IncS t ifd fp) (IncQ X)
      (do let x ← unwrap (transferFees q (setNative e1 true) t v N)
          let r ← cadd 0 x.2.1
          let r ← cadd r x.2.2
          sentFundsSufficient ⟨X, r⟩
          let ratio ← queryMarginRatio q e1 pv pt
          requireAdditionalMargin ratio mmr
          pure (En, x.1))
      (do let x ← unwrap (transferFees q (setNative e1 false) t v N)
          let r ← cadd 0 x.2.1
          let _r ← cadd r x.2.2
          let ratio ← queryMarginRatio q e1 pv pt
          requireAdditionalMargin ratio mmr
          pure (Ec, x.1)) := by
  have h := suffix_rel q e1 X 0 t v N pv pt mmr (pure 0) [] (by intro r; simp only [pure_ok_iff]; omega) rfl
    En Ec hE ifd fp hifd hfp
  simpa only [pure_bind, List.nil_append] using h

theorem mtv_facts (sm : Nat) (mtv : Integer)
    (h : Integer.zero.checkedAdd (Integer.newPositive sm) = .ok mtv) : mtv = ⟨sm, false⟩ ∧ sm ≤ U128.MAX := by
  simp only [Integer.checkedAdd, Integer.zero, Integer.newPositive, bind_ok_iff, cadd_ok, pure_ok_iff] at h
  obtain ⟨v, ⟨h1, rfl⟩, rfl⟩ := h
  exact ⟨by simp, by omega⟩

theorem pos_not_lt (sm : Nat) : Integer.lt ⟨sm, false⟩ Integer.zero = false := by
  simp [Integer.lt, Integer.cmp, Integer.isNegative, Integer.isPositive, Integer.zero]
  by_cases h : sm = 0
  · subst h; decide
  · rw [Nat.compare_eq_gt.2 (by omega)]; decide

theorem pos_gt_iff (sm : Nat) : Integer.gt ⟨sm, false⟩ Integer.zero = true ↔ sm ≠ 0 := by
  simp [Integer.gt, Integer.cmp, Integer.isNegative, Integer.isPositive, Integer.zero]
  by_cases h : sm = 0
  · subst h; decide
  · rw [Nat.compare_eq_gt.2 (by omega)]; simp [h]

theorem upr_inc (q : Q) (f : Nat → Except Err Nat) (e : E) (env : Env) (i o X : Nat) (swap : TmpSwap)
    (hsw : e.tmpSwap = some swap)
    (hmtv : swap.marginToVault = Integer.zero) (hfp : swap.feesPaid = false) :
    OkRel (IncP X e.cfg.insuranceFund e.cfg.feePool) (IncS swap.trader e.cfg.insuranceFund e.cfg.feePool) (IncQ X)
      (updatePositionReply (qb q f) (withSent (setNative e true) ⟨X, 0⟩) env i o REPLY_INCREASE)
      (updatePositionReply q (withSent (setNative e false) ⟨0, 0⟩) env i o REPLY_INCREASE) := by
  unfold updatePositionReply
  simp only [ws_st, ws_cfg, ws_tmpSwap, ws_sentFunds, ws_getPosition, ws_calcRemainMargin, ws_updateOpenInterest,
    ws_checkHoldingCap, ws_storePosition, ws_queryMarginRatio, ws_withdraw, ws_transferFees,
    qb_updateOpenInterest, qb_checkHoldingCap, qb_queryMarginRatio, qb_transferFees,
    sn_st, sn_tmpSwap, sn_native, sn_decimals, sn_mmr, sn_getPosition, sn_calcRemainMargin, sn_updateOpenInterest,
    sn_checkHoldingCap, sn_storePosition, sn_queryMarginRatio, hsw, hfp, hmtv, ↓reduceIte, Bool.not_false,
    Bool.false_eq_true, pure_bind, List.nil_append]
  ok_walk
  · rename_i hlt
    obtain ⟨rfl, hsm⟩ := mtv_facts _ _ ‹Integer.zero.checkedAdd _ = Except.ok _›
    rw [pos_not_lt] at hlt
    cases hlt
  · rename_i hlt hgt
    obtain ⟨rfl, hsm⟩ := mtv_facts _ _ ‹Integer.zero.checkedAdd _ = Except.ok _›
    have hne := (pos_gt_iff _).1 hgt
    rename_i sm _ _ _ _ _ _ _ _ _ _
    with_reducible refine suffix_rel q _ X sm _ _ _ _ _ _ (cadd 0 _) _ ?_ ?_ _ _ ?_ _ _ ?_ ?_
    · intro r; simp only [cadd_ok]; omega
    · unfold pullE; rw [if_pos hne]; rfl
    · rfl
    · rfl
    · rfl
  · rename_i hlt hgt
    obtain ⟨rfl, hsm⟩ := mtv_facts _ _ ‹Integer.zero.checkedAdd _ = Except.ok _›
    have hz : _ = 0 := Decidable.not_not.mp (fun h => hgt ((pos_gt_iff _).2 h))
    rename_i sm _ _ _ _ _ _ _ _ _ _
    subst hz
    with_reducible refine suffix_rel0 q _ X _ _ _ _ _ _ _ _ ?_ _ _ ?_ ?_
    · rfl
    · rfl
    · rfl


/-! ### the execute half -/

@[simp] theorem qb_requireVamm (q : Q) (f : Nat → Except Err Nat) (v : Nat) :
    requireVamm (qb q f) v = requireVamm q v := rfl
@[simp] theorem qb_positionNotionalPnl (q : Q) (f : Nat → Except Err Nat) (e : E) (p : Position) (o : PnlOpt) :
    positionNotionalPnl (qb q f) e p o = positionNotionalPnl q e p o := rfl

theorem open_twin (q : Q) (f : Nat → Except Err Nat) (e : E) (env : Env) (s X v : Nat) (side : Side) (m l b : Nat) :
    openPosition (qb q f) (setNative e true) env s ⟨X, false⟩ v side m l b
      = (openPosition q (setNative e false) env s ⟨0, false⟩ v side m l b).map
          (fun r => (withSent (setNative r.1 true) ⟨X, 0⟩, r.2)) := by
  tw_unfold [openPosition, qb_requireVamm, qb_positionNotionalPnl, ↓reduceIte, Bool.false_eq_true]
  tw_walk [rfl]


def sentAmt (native : Bool) (a : Nat) : Nat := if native then a else 0

open Perp.Props.EngineGuards in
theorem open_shape (q : Q) (e : E) (env : Env) (s : Nat) (f : Funds) (v : Nat) (side : Side) (m l b : Nat)
    (hinc : (getPosition env e v s side).size.isZero = true
      ∨ (getPosition env e v s side).direction = sideToDirection side) :
    Post (fun r => ∃ tmp N,
        r.1 = { e with tmpSwap := some tmp, sentFunds := some ⟨sentAmt e.cfg.native f.amount, 0⟩ }
        ∧ tmp.marginToVault = Integer.zero ∧ tmp.feesPaid = false ∧ tmp.trader = s ∧ tmp.vamm = v
        ∧ r.2 = [swapInputMsg v side N b false REPLY_INCREASE])
      (openPosition q e env s f v side m l b) := by
  unfold openPosition sentAmt
  cases hn : e.cfg.native
  all_goals
    simp only [↓reduceIte, Bool.false_eq_true]
    post_walk [first
      | exact ⟨_, _, rfl, rfl, rfl, rfl, rfl, rfl⟩
      | exact absurd ((MirrorP.isInc3_iff _ _ _).2 hinc) ‹_›]

end Perp.Props.SatGOpen
