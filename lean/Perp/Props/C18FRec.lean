/-
  C18FRec — the price feed records what was submitted (`Spec.C18F.recordedOk`).

  An accepted `AppendPrice` / `AppendMultiplePrice` stores one new round per submitted `(price, timestamp)` pair,
  carrying exactly the submitted values, on top of the unchanged earlier rounds — whatever the timestamps (two
  submissions with equal timestamps are two rounds).  Other keys are untouched.
-/
import Perp.Model.Pricefeed
import Perp.Spec.Feed
import Perp.Lemmas.Basic
import Perp.Props.C18F

namespace Perp.Props.C18FRec
open Perp Perp.Pricefeed Perp.Spec.C18F Perp.Props.C18F

/-! ### storage: `lookup` after `store` -/

theorem lookup_store_same (f : Feed) (k : Nat) (rs : List Round) : (f.store k rs).lookup k = some rs := by
  simp [Feed.store, Feed.lookup]

theorem find_filter_ne (l : List (Nat × List Round)) (k k' : Nat) (hk : k' ≠ k) :
    (l.filter (fun p => p.1 != k)).find? (fun p => p.1 == k') = l.find? (fun p => p.1 == k') := by
  induction l with
  | nil => rfl
  | cons a l ih =>
    by_cases ha : a.1 = k
    · have h1 : (a.1 != k) = false := by simp [ha]
      have h2 : (a.1 == k') = false := by
        rw [ha]; simp; exact fun e => hk e.symm
      rw [List.filter_cons, h1]
      simp only [Bool.false_eq_true, if_false]
      rw [List.find?_cons, h2]
      exact ih
    · have h1 : (a.1 != k) = true := by simp [ha]
      rw [List.filter_cons, h1]
      simp only [if_true]
      rw [List.find?_cons, List.find?_cons, ih]

theorem lookup_store_ne (f : Feed) (k k' : Nat) (rs : List Round) (hk : k' ≠ k) :
    (f.store k rs).lookup k' = f.lookup k' := by
  have hne : ((k, rs).1 == k') = false := by
    simp; exact fun e => hk e.symm
  unfold Feed.store Feed.lookup
  simp only []
  rw [List.find?_cons, hne, find_filter_ne _ _ _ hk]

theorem lookup_push_same (f : Feed) (k p t : Nat) :
    (f.push k p t).lookup k = some (pushRound (readRounds (f.lookup k)) p t) :=
  lookup_store_same _ _ _

theorem lookup_push_ne (f : Feed) (k k' p t : Nat) (hk : k' ≠ k) : (f.push k p t).lookup k' = f.lookup k' :=
  lookup_store_ne _ _ _ _ hk

/-! ### what one push, and a run of pushes, does to the rounds of the key -/

/-- the rounds read under a key whose stored list (if any) is `Built` are `Built` -/
theorem read_built (f : Feed) (k : Nat) (hb : ∀ l, f.lookup k = some l → Built l) :
    Built (readRounds (f.lookup k)) := by
  cases hl : f.lookup k with
  | none => exact Built.init
  | some l => exact hb l hl

theorem read_push (f : Feed) (k p t : Nat) :
    readRounds ((f.push k p t).lookup k) = pushRound (readRounds (f.lookup k)) p t := by
  rw [lookup_push_same]
  rfl

/-- a run of pushes puts one new submission per pair on top of the earlier ones, newest first -/
theorem fold_push (k : Nat) : ∀ (l : List (Nat × Nat)) (g : Feed), Built (readRounds (g.lookup k)) →
    Built (readRounds ((l.foldl (fun g p => g.push k p.1 p.2) g).lookup k))
    ∧ ∃ news : List Round,
        subs (readRounds ((l.foldl (fun g p => g.push k p.1 p.2) g).lookup k))
          = news ++ subs (readRounds (g.lookup k))
        ∧ news.map (fun r => (r.price, r.timestamp)) = l.reverse := by
  intro l
  induction l with
  | nil =>
    intro g hb
    exact ⟨hb, [], rfl, rfl⟩
  | cons a l ih =>
    intro g hb
    have hb1 : Built (readRounds ((g.push k a.1 a.2).lookup k)) := by
      rw [read_push]
      exact Built.push _ _ _ hb
    obtain ⟨hbf, news, h1, h2⟩ := ih (g.push k a.1 a.2) hb1
    rw [List.foldl_cons]
    refine ⟨hbf, news ++ [⟨(readRounds (g.lookup k)).length, a.1, a.2⟩], ?_, ?_⟩
    · rw [h1, read_push, subs_push _ _ _ (built_ne_nil _ hb), List.append_assoc]
      rfl
    · rw [List.map_append, h2, List.reverse_cons]
      rfl

/-- the Boolean, from the shape -/
theorem recordedOk_of_shape (pre post news : List Round) (ps : List (Nat × Nat))
    (h1 : subs post = news ++ subs pre)
    (h2 : news.map (fun r => (r.price, r.timestamp)) = ps.reverse) :
    recordedOk pre post ps = true := by
  have hlen : news.length = ps.length := by
    have := congrArg List.length h2
    simpa using this
  unfold recordedOk
  rw [h1, ← hlen, List.drop_left, List.take_left, h2]
  simp

/-! ### the theorems -/

/-- an accepted run of submissions is recorded as that many new rounds with exactly the submitted values, older
    rounds untouched -/
theorem fold_recorded (f : Feed) (k : Nat) (l : List (Nat × Nat)) (hb : ∀ l, f.lookup k = some l → Built l) :
    recordedOk (readRounds (f.lookup k))
      (readRounds ((l.foldl (fun g p => g.push k p.1 p.2) f).lookup k)) l = true := by
  obtain ⟨_, news, h1, h2⟩ := fold_push k l f (read_built f k hb)
  exact recordedOk_of_shape _ _ news l h1 h2

/-- an accepted submission is recorded as one new round with exactly the submitted values, older rounds untouched -/
theorem appendPrice_recorded (f f' : Feed) (s k p t : Nat) (hb : ∀ l, f.lookup k = some l → Built l)
    (h : appendPrice f s k p t = .ok f') :
    recordedOk (readRounds (f.lookup k)) (readRounds (f'.lookup k)) [(p, t)] = true := by
  unfold appendPrice at h
  split at h
  · cases h
  injection h with h
  subst h
  exact fold_recorded f k [(p, t)] hb

theorem appendMultiple_recorded (f f' : Feed) (s k : Nat) (ps ts : List Nat) (hb : ∀ l, f.lookup k = some l → Built l)
    (h : appendMultiple f s k ps ts = .ok f') :
    recordedOk (readRounds (f.lookup k)) (readRounds (f'.lookup k)) (ps.zip ts) = true := by
  unfold appendMultiple at h
  split at h
  · cases h
  split at h
  · cases h
  injection h with h
  subst h
  exact fold_recorded f k (ps.zip ts) hb

/-- other keys are untouched -/
theorem appendPrice_other_key (f f' : Feed) (s k k' p t : Nat) (hk : k' ≠ k) (h : appendPrice f s k p t = .ok f') :
    f'.lookup k' = f.lookup k' := by
  unfold appendPrice at h
  split at h
  · cases h
  injection h with h
  subst h
  exact lookup_push_ne f k k' p t hk

theorem appendMultiple_other_key (f f' : Feed) (s k k' : Nat) (ps ts : List Nat) (hk : k' ≠ k)
    (h : appendMultiple f s k ps ts = .ok f') : f'.lookup k' = f.lookup k' := by
  unfold appendMultiple at h
  split at h
  · cases h
  split at h
  · cases h
  injection h with h
  subst h
  rename_i h1 h2
  clear h1 h2
  generalize ps.zip ts = l
  induction l generalizing f with
  | nil => rfl
  | cons a l ih => rw [List.foldl_cons, ih, lookup_push_ne _ _ _ _ _ hk]

/-- what is stored stays `Built` (so the theorems chain along any sequence of accepted submissions) -/
theorem appendMultiple_built (f f' : Feed) (s k : Nat) (ps ts : List Nat) (hb : ∀ l, f.lookup k = some l → Built l)
    (h : appendMultiple f s k ps ts = .ok f') : Built (readRounds (f'.lookup k)) := by
  unfold appendMultiple at h
  split at h
  · cases h
  split at h
  · cases h
  injection h with h
  subst h
  exact (fold_push k (ps.zip ts) f (read_built f k hb)).1

/-! ### a concrete feed: two submissions with equal timestamps are two rounds -/

/-- key 1 holds one submission (price 10 at time 5); key 2 is unknown -/
def feed0 : Feed := { owner := 63, keys := [(1, [⟨1, 10, 5⟩, dummy])] }

/-- both rounds of equal timestamp 7 are kept, newest first, on top of the earlier round; the clause holds, and
    fails of a store that would keep only one of them; key 2 is untouched; a stranger's submission is rejected -/
example :
    (appendMultiple feed0 63 1 [11, 12] [7, 7]).map (fun f' => readRounds (f'.lookup 1))
      = .ok [⟨3, 12, 7⟩, ⟨2, 11, 7⟩, ⟨1, 10, 5⟩, dummy]
    ∧ (appendMultiple feed0 63 1 [11, 12] [7, 7]).map
        (fun f' => recordedOk (readRounds (feed0.lookup 1)) (readRounds (f'.lookup 1)) ([11, 12].zip [7, 7]))
      = .ok true
    ∧ recordedOk (readRounds (feed0.lookup 1)) [⟨2, 12, 7⟩, ⟨1, 10, 5⟩, dummy] ([11, 12].zip [7, 7]) = false
    ∧ (appendMultiple feed0 63 1 [11, 12] [7, 7]).map (fun f' => f'.lookup 2) = .ok none
    ∧ (appendPrice feed0 63 1 11 7 >>= fun f1 => appendPrice f1 63 1 12 7).map (fun f' => readRounds (f'.lookup 1))
      = .ok [⟨3, 12, 7⟩, ⟨2, 11, 7⟩, ⟨1, 10, 5⟩, dummy]
    ∧ appendPrice feed0 100 1 11 7 = .error .unauthorized := by
  decide

end Perp.Props.C18FRec
