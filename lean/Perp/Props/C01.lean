/-
  C01 — vAMM curve conservation.  Statements were fixed before the proofs were written.
-/
import Perp.Model.VammRun
import Perp.Spec.Vamm
import Perp.Lemmas.Basic
import Perp.Props.C19

namespace Perp.Props.C01
open Perp Perp.Vamm Perp.Spec.C01

/-! ### helper lemmas: arithmetic -/

/-- `m · c ≥ N` as soon as `c ≥ ⌈N / m⌉` -/
theorem ceil_le (N m c : Nat) (hm : m ≠ 0)
    (hc : N / m ≤ c ∧ (N % m ≠ 0 → N / m + 1 ≤ c)) : N ≤ m * c := by
  have h1 := Nat.div_add_mod N m
  have h2 := Nat.mod_lt N (Nat.pos_of_ne_zero hm)
  by_cases h0 : N % m = 0
  · have := Nat.mul_le_mul_left m hc.1
    omega
  · have := Nat.mul_le_mul_left m (hc.2 h0)
    rw [Nat.mul_succ] at this
    omega

/-- with equal base `b ≥ D`, a strictly smaller quote gives a strictly smaller scaled product -/
theorem k_lt_of_quote_lt (D q q' b : Nat) (hD : 0 < D) (hb : D ≤ b) (hq : q' < q) :
    q' * b / D < q * b / D := by
  have h1 : (q' + 1) * b ≤ q * b := Nat.mul_le_mul_right b hq
  rw [Nat.succ_mul] at h1
  have h2 : (q' * b + D) / D ≤ q * b / D := Nat.div_le_div_right (by omega)
  rw [Nat.add_div_right _ hD] at h2
  omega

theorem exmap_ok {ε α β : Type} (f : α → β) (x : Except ε α) (r : β) :
    x.map f = .ok r ↔ ∃ v, x = .ok v ∧ f v = r := by
  cases x <;> simp [Except.map]

/-! ### helper lemmas: pricing -/

theorem modulo_ok (a b d r : Nat) : modulo a b d = .ok r ↔ (a * d ≤ U128.MAX ∧ b ≠ 0 ∧ r = (a * d) % b) := by
  unfold modulo
  have := Nat.div_add_mod (a*d) b
  split
  · split <;> simp_all <;> omega
  · simp_all; omega

/-- `get_input_price`, quote added: the base left in the pool is ≥ ⌈k·D / (x + a)⌉ -/
theorem gip_add (D a x y b : Nat) (ha : a ≠ 0) (h : getInputPrice D .addToAmm a x y = .ok b) :
    D ≠ 0 ∧ b ≤ y ∧ x * y / D * D ≤ (x + a) * (y - b) := by
  unfold getInputPrice at h
  simp [ha, modulo_ok] at h
  obtain ⟨_, ⟨_, rfl⟩, _, ⟨hD, rfl⟩, _, ⟨_, rfl⟩, _, ⟨_, rfl⟩, _, ⟨hx', rfl⟩, _, ⟨_, _, rfl⟩, h⟩ := h
  have hN : x * y / D * D ≤ (x + a) * y :=
    Nat.le_trans (Nat.div_mul_le_self _ _) (Nat.mul_le_mul_right y (Nat.le_add_right x a))
  have hq : x * y / D * D / (x + a) ≤ y := Nat.div_le_of_le_mul hN
  generalize x * y / D * D = N at *
  have hlt : ¬ y < N / (x + a) := by omega
  rw [if_neg hlt] at h
  refine ⟨hD, ?_⟩
  split at h
  · simp at h
    generalize hqq : N / (x + a) = q at *
    generalize hrr : N % (x + a) = r at *
    refine ⟨by omega, ceil_le _ _ _ hx' ?_⟩
    rw [hqq, hrr]; omega
  · simp at h
    generalize hqq : N / (x + a) = q at *
    generalize hrr : N % (x + a) = r at *
    refine ⟨by omega, ceil_le _ _ _ hx' ?_⟩
    rw [hqq, hrr]; omega

/-- `get_input_price`, quote removed: the base in the pool afterwards is ≥ ⌈k·D / (x - a)⌉ -/
theorem gip_rem (D a x y b : Nat) (ha : a ≠ 0) (h : getInputPrice D .removeFromAmm a x y = .ok b) :
    D ≠ 0 ∧ a ≤ x ∧ x * y / D * D ≤ (x - a) * (y + b) := by
  unfold getInputPrice at h
  simp [ha, modulo_ok] at h
  obtain ⟨_, ⟨_, rfl⟩, _, ⟨hD, rfl⟩, _, ⟨hax, rfl⟩, _, ⟨_, rfl⟩, _, ⟨hx', rfl⟩, _, ⟨_, _, rfl⟩, h⟩ := h
  generalize x * y / D * D = N at *
  refine ⟨hD, hax, ?_⟩
  split at h
  · simp at h
    refine ceil_le _ _ _ hx' ?_
    generalize N / (x - a) = q at *
    generalize N % (x - a) = r at *
    split at h <;> omega
  · simp at h
    refine ceil_le _ _ _ hx' ?_
    generalize N / (x - a) = q at *
    generalize N % (x - a) = r at *
    split at h <;> omega

/-- `get_output_price`, base added: the quote left in the pool is ≥ ⌈k·D / (y + a)⌉ -/
theorem gop_add (D a x y s : Nat) (ha : a ≠ 0) (h : getOutputPrice D .addToAmm a x y = .ok s) :
    D ≠ 0 ∧ s ≤ x ∧ x * y / D * D ≤ (x - s) * (y + a) := by
  unfold getOutputPrice at h
  simp [ha, modulo_ok] at h
  obtain ⟨_, ⟨_, rfl⟩, _, ⟨hD, rfl⟩, _, ⟨_, rfl⟩, _, ⟨_, rfl⟩, _, ⟨hy', rfl⟩, _, ⟨_, _, rfl⟩, h⟩ := h
  have hN : x * y / D * D ≤ (y + a) * x := by
    rw [Nat.mul_comm (y + a) x]
    exact Nat.le_trans (Nat.div_mul_le_self _ _) (Nat.mul_le_mul_left x (Nat.le_add_right y a))
  have hq : x * y / D * D / (y + a) ≤ x := Nat.div_le_of_le_mul hN
  generalize x * y / D * D = N at *
  have hlt : ¬ x < N / (y + a) := by omega
  rw [if_neg hlt] at h
  refine ⟨hD, ?_⟩
  rw [Nat.mul_comm (x - s)]
  split at h
  · simp at h
    generalize hqq : N / (y + a) = q at *
    generalize hrr : N % (y + a) = r at *
    refine ⟨by omega, ceil_le _ _ _ hy' ?_⟩
    rw [hqq, hrr]; omega
  · simp at h
    generalize hqq : N / (y + a) = q at *
    generalize hrr : N % (y + a) = r at *
    refine ⟨by omega, ceil_le _ _ _ hy' ?_⟩
    rw [hqq, hrr]; omega

/-- `get_output_price`, base removed: the quote in the pool afterwards is ≥ ⌈k·D / (y - a)⌉ -/
theorem gop_rem (D a x y s : Nat) (ha : a ≠ 0) (h : getOutputPrice D .removeFromAmm a x y = .ok s) :
    D ≠ 0 ∧ a ≤ y ∧ x * y / D * D ≤ (x + s) * (y - a) := by
  unfold getOutputPrice at h
  simp [ha, modulo_ok] at h
  obtain ⟨_, ⟨_, rfl⟩, _, ⟨hD, rfl⟩, _, ⟨hay, rfl⟩, _, ⟨_, rfl⟩, _, ⟨hy', rfl⟩, _, ⟨_, _, rfl⟩, h⟩ := h
  generalize x * y / D * D = N at *
  refine ⟨hD, hay, ?_⟩
  rw [Nat.mul_comm (x + s)]
  split at h
  · simp at h
    refine ceil_le _ _ _ hy' ?_
    generalize N / (y - a) = q at *
    generalize N % (y - a) = r at *
    split at h <;> omega
  · simp at h
    refine ceil_le _ _ _ hy' ?_
    generalize N / (y - a) = q at *
    generalize N % (y - a) = r at *
    split at h <;> omega

/-! ### helper lemmas: reserve update -/

theorem ur_add (v v' : V) (env : Env) (qa ba : Nat) (cgo : Bool)
    (h : updateReserve v env .addToAmm qa ba cgo = .ok v') :
    v'.cfg = v.cfg ∧ v'.st.quote = v.st.quote + qa ∧ ba ≤ v.st.base ∧ v'.st.base = v.st.base - ba
      ∧ v'.st.net.toInt = v.st.net.toInt + ba := by
  unfold updateReserve at h
  simp at h
  obtain ⟨_, _, ⟨_, rfl⟩, _, ⟨hb, rfl⟩, n, hn, rfl⟩ := h
  have := (Perp.Props.C19.add_ok _ _ _ hn).1
  rw [Perp.Props.C19.toInt_newPositive] at this
  exact ⟨rfl, rfl, hb, rfl, this⟩

theorem ur_rem (v v' : V) (env : Env) (qa ba : Nat) (cgo : Bool)
    (h : updateReserve v env .removeFromAmm qa ba cgo = .ok v') :
    v'.cfg = v.cfg ∧ qa ≤ v.st.quote ∧ v'.st.quote = v.st.quote - qa ∧ v'.st.base = v.st.base + ba
      ∧ v'.st.net.toInt = v.st.net.toInt - ba := by
  unfold updateReserve at h
  simp at h
  obtain ⟨_, _, ⟨_, rfl⟩, _, ⟨hq, rfl⟩, n, hn, rfl⟩ := h
  have := (Perp.Props.C19.sub_ok _ _ _ hn).1
  rw [Perp.Props.C19.toInt_newPositive] at this
  exact ⟨rfl, hq, rfl, rfl, this⟩

theorem stepOk_of (D : Nat) (pre post : State)
    (hk : (post.quote = pre.quote ∧ post.base = pre.base) ∨
      (D ≠ 0 ∧ pre.quote * pre.base / D * D ≤ post.quote * post.base))
    (hn : (pre.base : Int) + pre.net.toInt = (post.base : Int) + post.net.toInt) :
    stepOk D pre post = true := by
  simp only [stepOk, k, Bool.and_eq_true, decide_eq_true_iff]
  refine ⟨?_, hn⟩
  rcases hk with ⟨h1, h2⟩ | ⟨hD, h⟩
  · rw [h1, h2]; exact decide_eq_true (Nat.le_refl _)
  · exact decide_eq_true ((Nat.le_div_iff_mul_le (Nat.pos_of_ne_zero hD)).2 h)

theorem step_add (v v' : V) (env : Env) (qa ba : Nat) (cgo : Bool)
    (h : updateReserve v env .addToAmm qa ba cgo = .ok v')
    (hk : (qa = 0 ∧ ba = 0) ∨ (v.cfg.decimals ≠ 0 ∧
      v.st.quote * v.st.base / v.cfg.decimals * v.cfg.decimals ≤ (v.st.quote + qa) * (v.st.base - ba))) :
    stepOk v.cfg.decimals v.st v'.st = true ∧ v'.cfg = v.cfg := by
  obtain ⟨h1, h2, h3, h4, h5⟩ := ur_add _ _ _ _ _ _ h
  refine ⟨stepOk_of _ _ _ ?_ (by omega), h1⟩
  rcases hk with ⟨rfl, rfl⟩ | ⟨hD, hk⟩
  · left; exact ⟨h2, h4⟩
  · right; rw [h2, h4]; exact ⟨hD, hk⟩

theorem step_rem (v v' : V) (env : Env) (qa ba : Nat) (cgo : Bool)
    (h : updateReserve v env .removeFromAmm qa ba cgo = .ok v')
    (hk : (qa = 0 ∧ ba = 0) ∨ (v.cfg.decimals ≠ 0 ∧
      v.st.quote * v.st.base / v.cfg.decimals * v.cfg.decimals ≤ (v.st.quote - qa) * (v.st.base + ba))) :
    stepOk v.cfg.decimals v.st v'.st = true ∧ v'.cfg = v.cfg := by
  obtain ⟨h1, h2, h3, h4, h5⟩ := ur_rem _ _ _ _ _ _ h
  refine ⟨stepOk_of _ _ _ ?_ (by omega), h1⟩
  rcases hk with ⟨rfl, rfl⟩ | ⟨hD, hk⟩
  · left; exact ⟨h3, h4⟩
  · right; rw [h3, h4]; exact ⟨hD, hk⟩

/-! ### helper lemmas: swaps -/

theorem swapInput_inv (v v' : V) (env : Env) (s : Nat) (dir : Direction) (amt lim : Nat) (cgo : Bool)
    (o : SwapOut) (h : swapInput v env s dir amt lim cgo = .ok (v', o)) :
    ∃ b, ((amt = 0 ∧ b = 0) ∨ (amt ≠ 0 ∧ getInputPrice v.cfg.decimals dir amt v.st.quote v.st.base = .ok b))
      ∧ updateReserve v env dir amt b cgo = .ok v' := by
  unfold swapInput at h
  simp at h
  obtain ⟨_, _, h⟩ := h
  split at h
  · rename_i ha
    simp at h
    obtain ⟨w, hw, rfl, _⟩ := h
    exact ⟨0, Or.inl ⟨ha, rfl⟩, hw⟩
  · rename_i ha
    simp at h
    obtain ⟨b, hb, h⟩ := h
    refine ⟨b, Or.inr ⟨ha, hb⟩, ?_⟩
    repeat' split at h
    all_goals simp at h
    all_goals (obtain ⟨w, hw, rfl, _⟩ := h; exact hw)

theorem swapOutput_inv (v v' : V) (env : Env) (s : Nat) (dir : Direction) (amt lim : Nat)
    (o : SwapOut) (h : swapOutput v env s dir amt lim = .ok (v', o)) :
    ∃ q, ((amt = 0 ∧ q = 0) ∨ (amt ≠ 0 ∧ getOutputPrice v.cfg.decimals dir amt v.st.quote v.st.base = .ok q))
      ∧ updateReserve v env dir.flip q amt true = .ok v' := by
  unfold swapOutput at h
  simp at h
  obtain ⟨_, _, h⟩ := h
  split at h
  · rename_i ha
    simp at h
    obtain ⟨w, hw, rfl, _⟩ := h
    exact ⟨0, Or.inl ⟨ha, rfl⟩, hw⟩
  · rename_i ha
    simp at h
    obtain ⟨b, hb, h⟩ := h
    refine ⟨b, Or.inr ⟨ha, hb⟩, ?_⟩
    repeat' split at h
    all_goals simp at h
    all_goals (obtain ⟨w, hw, rfl, _⟩ := h; exact hw)

/-! ### helper lemmas: the other execute variants -/

theorem settle_keep (v v' : V) (env : Env) (s : Nat) (o : Except Err Nat) (r : Integer)
    (h : settleFunding v env s o = .ok (v', r)) :
    v'.st.quote = v.st.quote ∧ v'.st.base = v.st.base ∧ v'.st.net = v.st.net ∧ v'.cfg = v.cfg := by
  unfold settleFunding at h
  simp at h
  obtain ⟨_, _, h⟩ := h
  split at h
  · simp at h
  · simp at h
    obtain ⟨_, _, _, _, _, _, _, _, _, _, _, _, _, _, _, _, _, _, rfl, _⟩ := h
    exact ⟨rfl, rfl, rfl, rfl⟩

theorem setOpen_keep (v v' : V) (env : Env) (s : Nat) (o : Bool)
    (h : setOpen v env s o = .ok v') :
    v'.st.quote = v.st.quote ∧ v'.st.base = v.st.base ∧ v'.st.net = v.st.net ∧ v'.cfg = v.cfg := by
  unfold setOpen at h
  split at h
  · simp at h
  · split at h
    · simp at h
      obtain ⟨_, _, rfl⟩ := h
      simp
    · simp at h
      subst h
      simp

theorem updateOwner_keep (v v' : V) (s n : Nat)
    (h : updateOwner v s n = .ok v') :
    v'.st = v.st ∧ v'.cfg.decimals = v.cfg.decimals := by
  unfold updateOwner at h
  split at h
  · simp at h
  · simp at h
    subst h
    simp

/-- `update_config` never touches the state or `decimals` (walks the `do`-block's join points) -/
theorem updateConfig_keep (v v' : V) (s : Nat) (u : ConfigUpdate)
    (h : updateConfig v s u = .ok v') :
    v'.st = v.st ∧ v'.cfg.decimals = v.cfg.decimals := by
  unfold updateConfig at h
  split at h
  · simp at h
  · extract_lets c0 c1 c2 c3 c4 j3 j2 j1 j0 at h
    have e4 : c4.decimals = v.cfg.decimals := by
      simp only [c4, c3, c2, c1, c0]
      cases u.holdingCap <;> cases u.oiCap <;> cases u.marginEngine <;> cases u.insuranceFund <;> rfl
    clear_value c4
    have p3 : ∀ c w, j3 c = .ok w → w.st = v.st ∧ w.cfg.decimals = c.decimals := by
      intro c w hw
      simp [j3] at hw
      subst hw
      exact ⟨rfl, rfl⟩
    clear_value j3
    have p2 : ∀ c w, j2 c = .ok w → w.st = v.st ∧ w.cfg.decimals = c.decimals := by
      intro c w hw
      simp only [j2] at hw
      revert hw
      cases u.pricefeed <;> cases u.twapInterval <;> intro hw <;> simp only [] at hw <;>
        (try split at hw) <;> (try simp at hw) <;> (have := p3 _ _ hw; exact this)
    clear_value j2
    have p1 : ∀ c w, j1 c = .ok w → w.st = v.st ∧ w.cfg.decimals = c.decimals := by
      intro c w hw
      simp only [j1] at hw
      split at hw <;> simp at hw
      · (have := p2 _ _ hw.2; exact this)
      · exact p2 _ _ hw
    clear_value j1
    have p0 : ∀ c w, j0 c = .ok w → w.st = v.st ∧ w.cfg.decimals = c.decimals := by
      intro c w hw
      simp only [j0] at hw
      split at hw <;> simp at hw
      · (have := p1 _ _ hw.2; exact this)
      · exact p1 _ _ hw
    clear_value j0
    split at h <;> simp at h
    · have := p0 _ _ h.2
      exact ⟨this.1, this.2.trans e4⟩
    · have := p0 _ _ h
      exact ⟨this.1, this.2.trans e4⟩

/-! ### the C01 theorems -/

/-- (a) an accepted `swap_input` never lowers the scaled product and keeps base + net -/
theorem swapInput_step (v v' : V) (env : Env) (s : Nat) (dir : Direction) (amt lim : Nat) (cgo : Bool)
    (o : SwapOut) (h : swapInput v env s dir amt lim cgo = .ok (v', o)) :
    stepOk v.cfg.decimals v.st v'.st = true ∧ v'.cfg = v.cfg := by
  obtain ⟨b, hb, hu⟩ := swapInput_inv _ _ _ _ _ _ _ _ _ h
  cases dir with
  | addToAmm =>
    refine step_add _ _ _ _ _ _ hu ?_
    rcases hb with hb | ⟨ha, hb⟩
    · exact Or.inl hb
    · have := gip_add _ _ _ _ _ ha hb
      exact Or.inr ⟨this.1, this.2.2⟩
  | removeFromAmm =>
    refine step_rem _ _ _ _ _ _ hu ?_
    rcases hb with hb | ⟨ha, hb⟩
    · exact Or.inl hb
    · have := gip_rem _ _ _ _ _ ha hb
      exact Or.inr ⟨this.1, this.2.2⟩

/-- (a') the same for `swap_output` -/
theorem swapOutput_step (v v' : V) (env : Env) (s : Nat) (dir : Direction) (amt lim : Nat)
    (o : SwapOut) (h : swapOutput v env s dir amt lim = .ok (v', o)) :
    stepOk v.cfg.decimals v.st v'.st = true ∧ v'.cfg = v.cfg := by
  obtain ⟨q, hq, hu⟩ := swapOutput_inv _ _ _ _ _ _ _ _ h
  cases dir with
  | addToAmm =>
    refine step_rem _ _ _ _ _ _ hu ?_
    rcases hq with ⟨h1, h2⟩ | ⟨ha, hq⟩
    · exact Or.inl ⟨h2, h1⟩
    · have := gop_add _ _ _ _ _ ha hq
      exact Or.inr ⟨this.1, this.2.2⟩
  | removeFromAmm =>
    refine step_add _ _ _ _ _ _ hu ?_
    rcases hq with ⟨h1, h2⟩ | ⟨ha, hq⟩
    · exact Or.inl ⟨h2, h1⟩
    · have := gop_rem _ _ _ _ _ ha hq
      exact Or.inr ⟨this.1, this.2.2⟩

/-- (b) every other execute variant leaves reserves, net position and the decimals untouched -/
theorem other_ops_keep_reserves (v v' : V) (c : Call)
    (hop : ∀ d a l g, c.op ≠ .swapInput d a l g) (hop' : ∀ d a l, c.op ≠ .swapOutput d a l)
    (h : apply v c = .ok v') :
    v'.st.quote = v.st.quote ∧ v'.st.base = v.st.base ∧ v'.st.net = v.st.net
      ∧ v'.cfg.decimals = v.cfg.decimals := by
  rcases c with ⟨env, sender, op⟩
  cases op with
  | swapInput d a l g => exact absurd rfl (hop d a l g)
  | swapOutput d a l => exact absurd rfl (hop' d a l)
  | settle o =>
    simp only [apply, exmap_ok] at h
    obtain ⟨⟨w, r⟩, hs, rfl⟩ := h
    obtain ⟨h1, h2, h3, h4⟩ := settle_keep _ _ _ _ _ _ hs
    exact ⟨h1, h2, h3, by rw [h4]⟩
  | setOpen o =>
    simp only [apply] at h
    obtain ⟨h1, h2, h3, h4⟩ := setOpen_keep _ _ _ _ _ h
    exact ⟨h1, h2, h3, by rw [h4]⟩
  | updateConfig u =>
    simp only [apply] at h
    obtain ⟨h1, h2⟩ := updateConfig_keep _ _ _ _ h
    exact ⟨by rw [h1], by rw [h1], by rw [h1], h2⟩
  | updateOwner n =>
    simp only [apply] at h
    obtain ⟨h1, h2⟩ := updateOwner_keep _ _ _ _ h
    exact ⟨by rw [h1], by rw [h1], by rw [h1], h2⟩

/-- (c) any accepted call is a `stepOk` step -/
theorem apply_step (v v' : V) (c : Call) (h : apply v c = .ok v') :
    stepOk v.cfg.decimals v.st v'.st = true ∧ v'.cfg.decimals = v.cfg.decimals := by
  by_cases hin : ∃ d a l g, c.op = .swapInput d a l g
  · obtain ⟨d, a, l, g, hc⟩ := hin
    rcases c with ⟨env, sender, op⟩
    simp only at hc
    subst hc
    simp only [apply, exmap_ok] at h
    obtain ⟨⟨w, o⟩, hs, rfl⟩ := h
    obtain ⟨h1, h2⟩ := swapInput_step _ _ _ _ _ _ _ _ _ hs
    exact ⟨h1, by rw [h2]⟩
  by_cases hout : ∃ d a l, c.op = .swapOutput d a l
  · obtain ⟨d, a, l, hc⟩ := hout
    rcases c with ⟨env, sender, op⟩
    simp only at hc
    subst hc
    simp only [apply, exmap_ok] at h
    obtain ⟨⟨w, o⟩, hs, rfl⟩ := h
    obtain ⟨h1, h2⟩ := swapOutput_step _ _ _ _ _ _ _ _ hs
    exact ⟨h1, by rw [h2]⟩
  · obtain ⟨hq, hb, hn, hd⟩ := other_ops_keep_reserves v v' c
      (fun d a l g hc => hin ⟨d, a, l, g, hc⟩) (fun d a l hc => hout ⟨d, a, l, hc⟩) h
    exact ⟨stepOk_of _ _ _ (Or.inl ⟨hq, hb⟩) (by rw [hb, hn]), hd⟩

theorem stepOk_iff (D : Nat) (a b : State) : stepOk D a b = true ↔
    (k D a.quote a.base ≤ k D b.quote b.base ∧ (a.base : Int) + a.net.toInt = (b.base : Int) + b.net.toInt) := by
  simp [stepOk]

/-- one transactional step (accepted or reverted) conserves -/
theorem step_conserves (v : V) (c : Call) :
    k v.cfg.decimals v.st.quote v.st.base ≤ k v.cfg.decimals (step v c).st.quote (step v c).st.base
    ∧ (v.st.base : Int) + v.st.net.toInt = ((step v c).st.base : Int) + (step v c).st.net.toInt
    ∧ (step v c).cfg.decimals = v.cfg.decimals := by
  unfold step
  cases h : apply v c with
  | error e => exact ⟨Nat.le_refl _, rfl, rfl⟩
  | ok w =>
    obtain ⟨h1, h2⟩ := apply_step v w c h
    rw [stepOk_iff] at h1
    exact ⟨h1.1, h1.2, h2⟩

/-- (d) along any history (failed calls change nothing): product monotone, base + net constant -/
theorem run_conserves (v : V) (cs : List Call) :
    k v.cfg.decimals v.st.quote v.st.base ≤ k v.cfg.decimals (run v cs).st.quote (run v cs).st.base
    ∧ (v.st.base : Int) + v.st.net.toInt = ((run v cs).st.base : Int) + (run v cs).st.net.toInt
    ∧ (run v cs).cfg.decimals = v.cfg.decimals := by
  induction cs generalizing v with
  | nil => exact ⟨Nat.le_refl _, rfl, rfl⟩
  | cons c cs ih =>
    have hrun : run v (c :: cs) = run (step v c) cs := rfl
    rw [hrun]
    obtain ⟨s1, s2, s3⟩ := step_conserves v c
    obtain ⟨i1, i2, i3⟩ := ih (step v c)
    rw [s3] at i1 i3
    exact ⟨Nat.le_trans s1 i1, s2.trans i2, i3⟩

/-- (e) whenever the net position is back at an earlier value (base ≥ one whole unit), the quote
    reserve is at least what it was: no history withdraws more quote than it paid in -/
theorem run_quote_recovery (v : V) (cs : List Call) (hD : 0 < v.cfg.decimals) :
    recoveryOk v.cfg.decimals v.st (run v cs).st = true := by
  obtain ⟨hk, hbn, _⟩ := run_conserves v cs
  unfold recoveryOk
  split
  · rename_i hc
    obtain ⟨hnet, hb⟩ := hc
    apply decide_eq_true
    have hbase : (run v cs).st.base = v.st.base := by omega
    rw [hbase] at hk
    unfold k at hk
    apply Nat.le_of_not_lt
    intro hlt
    have := k_lt_of_quote_lt _ _ _ _ hD hb hlt
    omega
  · rfl

/-! ### non-vacuity -/

/-- fixture: reserves 1000 / 100 at 9 decimal places, open, margin engine = address 1, no
    fluctuation limit, one snapshot -/
def fixture : V :=
  { cfg :=
      { owner := 0, marginEngine := 1, insuranceFund := 2, pricefeed := 3, holdingCap := 0,
        oiCap := 0, decimals := 10^9, toll := 0, spread := 0, fluct := 0, twapInterval := 3600,
        fundingPeriod := 3600, fundingBuffer := 1800 },
    st :=
      { isOpen := true, quote := 1000 * 10^9, base := 100 * 10^9, net := Integer.zero,
        fundingRate := Integer.zero, nextFunding := 0,
        snaps := [⟨1000 * 10^9, 100 * 10^9, 0, 0⟩] } }

/-- the post-state of `fixture` after a swap at block 1 / time 5 -/
def fixtureAfter (q b : Nat) (net : Integer) : V :=
  { fixture with
    st := { fixture.st with
      quote := q, base := b, net := net,
      snaps := [⟨q, b, 5, 1⟩, ⟨1000 * 10^9, 100 * 10^9, 0, 0⟩] } }

/-- non-vacuity: the fixture's first trade (reserves 1000/100, 9 dp, 600 quote in) is accepted:
    zero remainder, base 62.5, net +37.5 -/
example : swapInput fixture ⟨1, 5⟩ 1 .addToAmm (600 * 10^9) 0 false
    = .ok (fixtureAfter (1600 * 10^9) 62500000000 ⟨37500000000, false⟩,
           ⟨true, 600 * 10^9, 37500000000⟩) := by decide

/-- the remainder of that trade is zero, the remainder of a 700-quote trade is not -/
example : modulo (1000 * 10^9 * (100 * 10^9) / 10^9) (1600 * 10^9) (10^9) = .ok 0
    ∧ modulo (1000 * 10^9 * (100 * 10^9) / 10^9) (1700 * 10^9) (10^9) = .ok 1300000000000 := by
  decide

/-- non-vacuity, non-zero remainder (700 quote in): the trader's base is rounded down by one unit,
    the pool keeps ⌈k·D/x'⌉ = 58823529412 -/
example : swapInput fixture ⟨1, 5⟩ 1 .addToAmm (700 * 10^9) 0 false
    = .ok (fixtureAfter (1700 * 10^9) 58823529412 ⟨41176470588, false⟩,
           ⟨true, 700 * 10^9, 41176470588⟩) := by decide

/-- non-zero remainder on the removing side (300 quote out): rounded up by one unit against the trader -/
example : swapInput fixture ⟨1, 5⟩ 1 .removeFromAmm (300 * 10^9) 0 false
    = .ok (fixtureAfter (700 * 10^9) 142857142858 ⟨42857142858, true⟩,
           ⟨true, 300 * 10^9, 42857142858⟩) := by decide

/-- `swap_output`, non-zero remainder (30 base out) -/
example : swapOutput fixture ⟨1, 5⟩ 1 .removeFromAmm (30 * 10^9) 0
    = .ok (fixtureAfter 1428571428572 (70 * 10^9) ⟨30000000000, false⟩,
           ⟨false, 428571428572, 30 * 10^9⟩) := by decide

/-- the step predicate is strict on the rounding case: the scaled product rises -/
example : k (10^9) (1000 * 10^9) (100 * 10^9) < k (10^9) (1700 * 10^9) 58823529412 := by decide

/-- the hypotheses of `run_quote_recovery` are met by the fixture, and a round trip (600 quote in,
    then the 37.5 base back) restores the net position with the quote reserve not below its start -/
example : 0 < fixture.cfg.decimals
    ∧ (run fixture [⟨⟨1, 5⟩, 1, .swapInput .addToAmm (600 * 10^9) 0 false⟩,
                    ⟨⟨2, 10⟩, 1, .swapOutput .addToAmm 37500000000 0⟩]).st.net.toInt
        = fixture.st.net.toInt
    ∧ fixture.cfg.decimals ≤ fixture.st.base
    ∧ fixture.st.quote ≤
        (run fixture [⟨⟨1, 5⟩, 1, .swapInput .addToAmm (600 * 10^9) 0 false⟩,
                      ⟨⟨2, 10⟩, 1, .swapOutput .addToAmm 37500000000 0⟩]).st.quote := by decide

end Perp.Props.C01
