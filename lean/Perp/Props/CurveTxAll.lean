/-
  Everything of the `CurveRegularTx` development, as one build target:
    Perp/Spec/MonitorTx.lean, Perp/Props/{CurveTx, CurveTxSat, CapstoneTx, CapstoneTxExtra, MonitorTxSound,
    CurveTxWitness, CurveTxC15}.lean
-/
import Perp.Spec.MonitorTx
import Perp.Props.CurveTx
import Perp.Props.CurveTxSat
import Perp.Props.CapstoneTx
import Perp.Props.CapstoneTxExtra
import Perp.Props.MonitorTxSound
import Perp.Props.CurveTxWitness
import Perp.Props.CurveTxC15
