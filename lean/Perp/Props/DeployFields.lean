/-
  DeployFields — what a deployment stores, field by field (the model-side statement of the driver's deployment
  correspondence: at the first observation of a real deployment the stored configuration of every market is compared
  with the parameters the deployment passed).

  * `deploy_fields`         every market of a successful deployment stores what its spec says (ratios, funding period,
                            decimals, reserves, owner, margin engine, caps, open flag, registry membership);
  * `deploy_fields_nodup`   the same from the distinctness of the markets' addresses alone (the only part of `CfgOK` used);
  * `deploy_engine_fields`  the engine's stored configuration (no side condition needed);
  * `Witness`               two markets whose toll ≠ spread: `deploy` succeeds and stores each market's own toll / spread;
                            without the distinctness of the addresses the conclusion fails on a deployment that succeeds.
-/
import Perp.Props.DeployOK
import Perp.Props.InstV

namespace Perp.Props.DeployFields
open Perp Perp.World Perp.Engine
open Perp.Props.SatA.VammLift
open Perp.Props.DeployOK

/-! ## 1. the three wiring transactions, inverted exactly -/

/-- nothing at address `a` moves: its record, its membership in the fund's registry; and the engine is untouched -/
structure Frame (a : Nat) (w w' : World) : Prop where
  v : w'.vamm? a = w.vamm? a
  r : w'.ifund.vamms.contains a = w.ifund.vamms.contains a
  e : w'.engine = w.engine

theorem Frame.refl (a : Nat) (w : World) : Frame a w w := ⟨rfl, rfl, rfl⟩

theorem Frame.trans {a : Nat} {w w1 w2 : World} (h1 : Frame a w w1) (h2 : Frame a w1 w2) : Frame a w w2 :=
  ⟨h2.v.trans h1.v, h2.r.trans h1.r, h2.e.trans h1.e⟩

theorem vamm?_start (w : World) (env : Env) (a : Nat) :
    ({ w with env := env, log := [] } : World).vamm? a = w.vamm? a := rfl

/-- the vAMM owner's `UpdateConfig{margin_engine}`: only `marginEngine` of the addressed record -/
theorem vammConfig_exact (w w' : World) (env : Env) (s : Nat) (f : Funds) (a : Nat)
    (h : applyTx w env s f (.vammConfig a { marginEngine := some ENGINE }) = .ok w') :
    (∃ x, w.vamm? a = some x ∧ w'.vamm? a = some { x with cfg := { x.cfg with marginEngine := ENGINE } })
      ∧ (∀ b, b ≠ a → w'.vamm? b = w.vamm? b) ∧ w'.ifund = w.ifund ∧ w'.engine = w.engine := by
  obtain ⟨x, hx, rfl⟩ := vammWiring_inv w w' env s f a h
  refine ⟨⟨x, hx, ?_⟩, ?_, rfl, rfl⟩
  · exact MirrorP.setVamm_vamm_same _ a x _ ((vamm?_start w env a).trans hx)
  · intro b hb
    rw [Dispatch.setVamm_vamm_ne _ b a _ hb]
    rfl

theorem addVamm_exact (s r : Insurance.S) (sender v : Nat) (ed vd : Except Err Nat)
    (h : Insurance.addVamm s sender v ed vd = .ok r) : r.vamms = s.vamms ++ [v] := by
  unfold Insurance.addVamm at h
  split at h
  · cases h
  cases ed with
  | error e => cases h
  | ok a =>
    cases vd with
    | error e => cases h
    | ok b =>
      simp only [bind, Except.bind] at h
      repeat' split at h
      all_goals cases h
      rfl

/-- the fund owner's `AddVamm`: appends the address to the registry, nothing else -/
theorem ifAdd_exact (w w' : World) (env : Env) (s : Nat) (f : Funds) (a : Nat)
    (h : applyTx w env s f (.ifAdd a) = .ok w') :
    w'.engine = w.engine ∧ w'.vamms = w.vamms ∧ w'.ifund.vamms = w.ifund.vamms ++ [a] := by
  unfold applyTx at h
  simp at h
  obtain ⟨r, hr, rfl⟩ := h
  exact ⟨rfl, rfl, addVamm_exact _ _ _ _ _ _ hr⟩

theorem setOpen_true_exact (x x' : Vamm.V) (env : Env) (s : Nat) (h : Vamm.setOpen x env s true = .ok x') :
    x'.cfg = x.cfg ∧ x'.st.quote = x.st.quote ∧ x'.st.base = x.st.base ∧ x'.st.isOpen = true := by
  unfold Vamm.setOpen at h
  split at h
  · cases h
  simp only [if_true] at h
  cases hadd : add64 env.time (x.cfg.fundingPeriod / Vamm.ONE_HOUR * Vamm.ONE_HOUR) with
  | error e => rw [hadd] at h; cases h
  | ok t => rw [hadd] at h; cases h; exact ⟨rfl, rfl, rfl, rfl⟩

/-- the vAMM owner's `SetOpen{true}`: the addressed record is open afterwards, configuration and reserves kept -/
theorem setOpen_exact (w w' : World) (env : Env) (s : Nat) (f : Funds) (a : Nat)
    (h : applyTx w env s f (.vammSetOpen a true) = .ok w') :
    (∃ x x', w.vamm? a = some x ∧ w'.vamm? a = some x' ∧ x'.cfg = x.cfg ∧ x'.st.quote = x.st.quote
        ∧ x'.st.base = x.st.base ∧ x'.st.isOpen = true)
      ∧ (∀ b, b ≠ a → w'.vamm? b = w.vamm? b) ∧ w'.ifund = w.ifund ∧ w'.engine = w.engine := by
  unfold applyTx at h
  dsimp only at h
  obtain ⟨⟨w1, ev⟩, h1, rfl⟩ := (EngineGuards.exmap_ok _ _ _).1 h
  obtain ⟨x, x', hx, hs, rfl⟩ := MirrorP.execMsg_setOpen_inv _ _ _ _ _ _ _ h1
  obtain ⟨c1, c2, c3, c4⟩ := setOpen_true_exact _ _ _ _ hs
  refine ⟨⟨x, x', hx, MirrorP.setVamm_vamm_same _ a x _ hx, c1, c2, c3, c4⟩, ?_, rfl, rfl⟩
  intro b hb
  show (World.setVamm _ a x').vamm? b = _
  rw [Dispatch.setVamm_vamm_ne _ b a _ hb]
  rfl

theorem contains_snoc (l : List Nat) (a b : Nat) : (l ++ [a]).contains b = (l.contains b || b == a) := by
  by_cases h : b = a <;> simp [h]

/-! ## 2. the wiring of one market -/

/-- the wiring of ANOTHER market leaves address `a` alone -/
theorem frame_wireVamm {env : Env} {owner a : Nat} {w w' : World} {s : VammSpec} (hne : a ≠ s.addr)
    (h : wireVamm env owner w s = .ok w') : Frame a w w' := by
  unfold wireVamm at h
  simp only [bind_ok_iff] at h
  obtain ⟨w1, h1, w2, h2, h3⟩ := h
  obtain ⟨_, f1, g1, e1⟩ := vammConfig_exact _ _ _ _ _ _ h1
  have F1 : Frame a w w1 := ⟨f1 a hne, by rw [g1], e1⟩
  have F2 : Frame a w1 w2 := by
    unfold optTx at h2
    split at h2
    · obtain ⟨e2, v2, r2⟩ := ifAdd_exact _ _ _ _ _ _ h2
      refine ⟨by unfold World.vamm?; rw [v2], ?_, e2⟩
      rw [r2, contains_snoc]
      have : (a == s.addr) = false := beq_false_of_ne hne
      rw [this, Bool.or_false]
    · cases h2; exact Frame.refl _ _
  have F3 : Frame a w2 w' := by
    unfold optTx at h3
    split at h3
    · obtain ⟨_, f3, g3, e3⟩ := setOpen_exact _ _ _ _ _ _ h3
      exact ⟨f3 a hne, by rw [g3], e3⟩
    · cases h3; exact Frame.refl _ _
  exact (F1.trans F2).trans F3

/-- the engine is untouched by the wiring of any market -/
theorem engine_wireVamm {env : Env} {owner : Nat} {w w' : World} {s : VammSpec}
    (h : wireVamm env owner w s = .ok w') : w'.engine = w.engine := by
  unfold wireVamm at h
  simp only [bind_ok_iff] at h
  obtain ⟨w1, h1, w2, h2, h3⟩ := h
  obtain ⟨_, _, _, e1⟩ := vammConfig_exact _ _ _ _ _ _ h1
  have e2 : w2.engine = w1.engine := by
    unfold optTx at h2
    split at h2
    · exact (ifAdd_exact _ _ _ _ _ _ h2).1
    · cases h2; rfl
  have e3 : w'.engine = w2.engine := by
    unfold optTx at h3
    split at h3
    · exact (setOpen_exact _ _ _ _ _ _ h3).2.2.2
    · cases h3; rfl
  rw [e3, e2, e1]

/-- the wiring of the market ITSELF: `marginEngine := ENGINE`, opened iff `open_`, registered iff `register`
    (or already registered), everything else of the record kept -/
theorem own_wireVamm {env : Env} {owner : Nat} {w w' : World} {s : VammSpec} {x : Vamm.V}
    (h : wireVamm env owner w s = .ok w') (hx : w.vamm? s.addr = some x) (hclosed : x.st.isOpen = false) :
    ∃ x', w'.vamm? s.addr = some x' ∧ x'.cfg = { x.cfg with marginEngine := ENGINE }
      ∧ x'.st.quote = x.st.quote ∧ x'.st.base = x.st.base ∧ x'.st.isOpen = s.open_
      ∧ w'.ifund.vamms.contains s.addr = (w.ifund.vamms.contains s.addr || s.register) := by
  unfold wireVamm at h
  simp only [bind_ok_iff] at h
  obtain ⟨w1, h1, w2, h2, h3⟩ := h
  obtain ⟨⟨x0, hx0, hx1⟩, _, g1, _⟩ := vammConfig_exact _ _ _ _ _ _ h1
  rw [hx] at hx0
  cases hx0
  have s2 : w2.vamm? s.addr = w1.vamm? s.addr
      ∧ w2.ifund.vamms.contains s.addr = (w.ifund.vamms.contains s.addr || s.register) := by
    unfold optTx at h2
    split at h2
    · rename_i hreg
      obtain ⟨_, v2, r2⟩ := ifAdd_exact _ _ _ _ _ _ h2
      refine ⟨by unfold World.vamm?; rw [v2], ?_⟩
      rw [r2, contains_snoc, g1, hreg]
      simp
    · rename_i hreg
      cases h2
      have : s.register = false := by simpa using hreg
      rw [g1, this, Bool.or_false]
      exact ⟨rfl, rfl⟩
  unfold optTx at h3
  split at h3
  · rename_i hopen
    obtain ⟨⟨y, y', hy, hy', c1, c2, c3, c4⟩, _, g3, _⟩ := setOpen_exact _ _ _ _ _ _ h3
    rw [s2.1, hx1] at hy
    cases hy
    exact ⟨y', hy', c1, c2, c3, by rw [c4, hopen], by rw [g3]; exact s2.2⟩
  · rename_i hopen
    cases h3
    have : s.open_ = false := by simpa using hopen
    exact ⟨_, s2.1.trans hx1, rfl, rfl, rfl, by rw [this]; exact hclosed, s2.2⟩

/-! ## 3. the wiring of all markets -/

theorem frame_wireAll {env : Env} {owner a : Nat} : ∀ (l : List VammSpec) {w w' : World},
    a ∉ l.map (·.addr) → wireAll env owner w l = .ok w' → Frame a w w' := by
  intro l
  induction l with
  | nil =>
    intro w w' _ h
    unfold wireAll at h
    cases h
    exact Frame.refl _ _
  | cons s rest ih =>
    intro w w' hn h
    unfold wireAll at h
    simp only [bind_ok_iff] at h
    obtain ⟨w1, h1, h2⟩ := h
    rw [List.map_cons, List.mem_cons, not_or] at hn
    exact (frame_wireVamm hn.1 h1).trans (ih hn.2 h2)

theorem engine_wireAll {env : Env} {owner : Nat} : ∀ (l : List VammSpec) {w w' : World},
    wireAll env owner w l = .ok w' → w'.engine = w.engine := by
  intro l
  induction l with
  | nil =>
    intro w w' h
    unfold wireAll at h
    cases h
    rfl
  | cons s rest ih =>
    intro w w' h
    unfold wireAll at h
    simp only [bind_ok_iff] at h
    obtain ⟨w1, h1, h2⟩ := h
    rw [ih h2, engine_wireVamm h1]

/-- every market of the list (distinct addresses) ends wired as its spec says -/
theorem own_wireAll {env : Env} {owner : Nat} : ∀ (l : List VammSpec) {w w' : World} {s : VammSpec} {x : Vamm.V},
    (l.map (·.addr)).Nodup → s ∈ l → wireAll env owner w l = .ok w' →
    w.vamm? s.addr = some x → x.st.isOpen = false →
    ∃ x', w'.vamm? s.addr = some x' ∧ x'.cfg = { x.cfg with marginEngine := ENGINE }
      ∧ x'.st.quote = x.st.quote ∧ x'.st.base = x.st.base ∧ x'.st.isOpen = s.open_
      ∧ w'.ifund.vamms.contains s.addr = (w.ifund.vamms.contains s.addr || s.register) := by
  intro l
  induction l with
  | nil => intro w w' s x _ hs; cases hs
  | cons t rest ih =>
    intro w w' s x hnd hs h hx hclosed
    unfold wireAll at h
    simp only [bind_ok_iff] at h
    obtain ⟨w1, h1, h2⟩ := h
    rw [List.map_cons, List.nodup_cons] at hnd
    rcases List.mem_cons.1 hs with rfl | hs'
    · obtain ⟨x', a1, a2, a3, a4, a5, a6⟩ := own_wireVamm h1 hx hclosed
      have F := frame_wireAll rest hnd.1 h2
      exact ⟨x', F.v.trans a1, a2, a3, a4, a5, F.r.trans a6⟩
    · have hne : s.addr ≠ t.addr := by
        intro e
        exact hnd.1 (e ▸ List.mem_map_of_mem (f := (·.addr)) hs')
      have F := frame_wireVamm hne h1
      obtain ⟨x', a1, a2, a3, a4, a5, a6⟩ := ih hnd.2 hs' h2 (F.v.trans hx) hclosed
      exact ⟨x', a1, a2, a3, a4, a5, by rw [a6, F.r]⟩

/-! ## 4. the world right after the instantiate calls -/

theorem instVamms_mem (env : Env) : ∀ (l : List VammSpec) (vs : List (Nat × Vamm.V)), instVamms env l = .ok vs →
    ∀ s ∈ l, ∃ v, (s.addr, v) ∈ vs ∧ Vamm.instantiate env s.owner s.msg = .ok v := by
  intro l
  induction l with
  | nil => intro vs _ s hs; cases hs
  | cons t rest ih =>
    intro vs h s hs
    unfold instVamms at h
    simp only [bind_ok_iff, pure_ok_iff] at h
    obtain ⟨v, hv, vs', hvs, rfl⟩ := h
    rcases List.mem_cons.1 hs with rfl | hs'
    · exact ⟨v, List.mem_cons_self, hv⟩
    · obtain ⟨v', m, i⟩ := ih vs' hvs s hs'
      exact ⟨v', List.mem_cons_of_mem _ m, i⟩

/-! ## 5. the theorems -/

/-- the statement from the distinctness of the addresses alone -/
theorem deploy_fields_nodup (c : DeployCfg) (hnd : (c.vamms.map (·.addr)).Nodup) (w : World)
    (h : World.deploy c = .ok w) (s : VammSpec) (hs : s ∈ c.vamms) :
    ∃ x, w.vamm? s.addr = some x
      ∧ x.cfg.toll = s.msg.toll ∧ x.cfg.spread = s.msg.spread ∧ x.cfg.fluct = s.msg.fluct
      ∧ x.cfg.fundingPeriod = s.msg.fundingPeriod ∧ x.cfg.decimals = 10 ^ s.msg.decimalPlaces
      ∧ x.st.quote = s.msg.quoteReserve ∧ x.st.base = s.msg.baseReserve
      ∧ x.cfg.owner = s.owner ∧ x.cfg.marginEngine = ENGINE
      ∧ x.cfg.holdingCap = 0 ∧ x.cfg.oiCap = 0
      ∧ x.st.isOpen = s.open_
      ∧ (w.ifund.vamms.contains s.addr = s.register) := by
  unfold deploy at h
  simp only [bind_ok_iff] at h
  obtain ⟨e, he, vs, hvs, w1, h1, h2⟩ := h
  obtain ⟨hk, _⟩ := instVamms_spec c.env c.vamms vs hvs
  obtain ⟨v, hmem, hinst⟩ := instVamms_mem c.env c.vamms vs hvs s hs
  obtain ⟨_, a2, a3⟩ := engineWiring_inv _ _ _ _ _ _ h1
  have hkeys : SatA.VammKeysNodup w1 := by
    unfold SatA.VammKeysNodup
    rw [a2]
    show (vs.map (·.1)).Nodup
    rw [hk]; exact hnd
  have hx1 : w1.vamm? s.addr = some v :=
    SatA.vamm?_of_mem hkeys (p := (s.addr, v)) (by rw [a2]; exact hmem)
  obtain ⟨f1, f2, f3, f4, _, f6, f7, f8, f9, f10, f11, f12, _⟩ := InstV.instantiate_fields _ _ _ _ hinst
  obtain ⟨x', b1, b2, b3, b4, b5, b6⟩ := own_wireAll c.vamms hnd hs h2 hx1 f12
  have hreg : w1.ifund.vamms = [] := by rw [a3]; rfl
  refine ⟨x', b1, ?_, ?_, ?_, ?_, ?_, ?_, ?_, ?_, ?_, ?_, ?_, b5, ?_⟩
  · rw [b2]; exact f1
  · rw [b2]; exact f2
  · rw [b2]; exact f3
  · rw [b2]; exact f4
  · rw [b2]; exact f6
  · rw [b3]; exact f7
  · rw [b4]; exact f8
  · rw [b2]; exact f9
  · rw [b2]
  · rw [b2]; exact f10
  · rw [b2]; exact f11
  · rw [b6, hreg]; simp

/-- MAIN: every market of a successful deployment stores what its spec says -/
theorem deploy_fields (c : DeployCfg) (hc : DeployOK.CfgOK c) (w : World) (h : World.deploy c = .ok w)
    (s : VammSpec) (hs : s ∈ c.vamms) :
    ∃ x, w.vamm? s.addr = some x
      ∧ x.cfg.toll = s.msg.toll ∧ x.cfg.spread = s.msg.spread ∧ x.cfg.fluct = s.msg.fluct
      ∧ x.cfg.fundingPeriod = s.msg.fundingPeriod ∧ x.cfg.decimals = 10 ^ s.msg.decimalPlaces
      ∧ x.st.quote = s.msg.quoteReserve ∧ x.st.base = s.msg.baseReserve
      ∧ x.cfg.owner = s.owner ∧ x.cfg.marginEngine = ENGINE
      ∧ x.cfg.holdingCap = 0 ∧ x.cfg.oiCap = 0
      ∧ x.st.isOpen = s.open_
      ∧ (w.ifund.vamms.contains s.addr = s.register) :=
  deploy_fields_nodup c hc.addrs.1 w h s hs

/-- further fields of the record (not compared by the driver, stated for completeness): the feed and fund addresses
    of the message, the funding buffer, and a flat market -/
theorem deploy_fields_more (c : DeployCfg) (hc : DeployOK.CfgOK c) (w : World) (h : World.deploy c = .ok w)
    (s : VammSpec) (hs : s ∈ c.vamms) :
    ∃ x, w.vamm? s.addr = some x
      ∧ x.cfg.pricefeed = s.msg.pricefeed ∧ x.cfg.insuranceFund = s.msg.insuranceFund.getD 0
      ∧ x.cfg.fundingBuffer = s.msg.fundingPeriod / 2 := by
  have hnd := hc.addrs.1
  unfold deploy at h
  simp only [bind_ok_iff] at h
  obtain ⟨e, he, vs, hvs, w1, h1, h2⟩ := h
  obtain ⟨hk, _⟩ := instVamms_spec c.env c.vamms vs hvs
  obtain ⟨v, hmem, hinst⟩ := instVamms_mem c.env c.vamms vs hvs s hs
  obtain ⟨_, a2, a3⟩ := engineWiring_inv _ _ _ _ _ _ h1
  have hkeys : SatA.VammKeysNodup w1 := by
    unfold SatA.VammKeysNodup
    rw [a2]
    show (vs.map (·.1)).Nodup
    rw [hk]; exact hnd
  have hx1 : w1.vamm? s.addr = some v :=
    SatA.vamm?_of_mem hkeys (p := (s.addr, v)) (by rw [a2]; exact hmem)
  obtain ⟨_, _, _, _, f5, _, _, _, _, _, _, f12, _, f14, _, f16⟩ := InstV.instantiate_fields _ _ _ _ hinst
  obtain ⟨x', b1, b2, _⟩ := own_wireAll c.vamms hnd hs h2 hx1 f12
  refine ⟨x', b1, ?_, ?_, ?_⟩
  · rw [b2]; exact f14
  · rw [b2]; exact f16
  · rw [b2]; exact f5

/-- the engine's stored configuration: what `Engine.instantiate` takes from its message, the fund re-pointed to
    `IFUND` and the partial liquidation ratio set by the post-instantiate `UpdateConfig`.  No side condition. -/
theorem deploy_engine_fields (c : DeployCfg) (w : World) (h : World.deploy c = .ok w) :
    w.engine.cfg.insuranceFund = IFUND ∧ w.engine.cfg.plr = c.plr
      ∧ w.engine.cfg.owner = c.owner ∧ w.engine.cfg.feePool = c.engine.feePool
      ∧ w.engine.cfg.native = c.engine.native ∧ w.engine.cfg.decimals = 10 ^ c.engine.tokenDecimals
      ∧ w.engine.cfg.imr = c.engine.imr ∧ w.engine.cfg.mmr = c.engine.mmr ∧ w.engine.cfg.liqFee = c.engine.liqFee
      ∧ w.engine.pauser = c.engine.pauser ∧ w.engine.st = ⟨0, 0, false⟩
      ∧ w.engine.whitelist = [] ∧ w.engine.positions = [] ∧ w.engine.vammMaps = [] := by
  unfold deploy at h
  simp only [bind_ok_iff] at h
  obtain ⟨e, he, vs, hvs, w1, h1, h2⟩ := h
  obtain ⟨a1, _, _⟩ := engineWiring_inv _ _ _ _ _ _ h1
  obtain ⟨s1, s2, s3, s4, s5, s6, _⟩ := Inst.instantiate_spec _ _ _ he
  have he' : (initWorld c e vs).engine = e := rfl
  rw [engine_wireAll c.vamms h2, a1, he']
  simp [s1, s2, s3, s4, s5, s6]

/-- the whole stored engine configuration as one record -/
theorem deploy_engine_cfg (c : DeployCfg) (w : World) (h : World.deploy c = .ok w) :
    w.engine.cfg = { owner := c.owner, insuranceFund := IFUND, feePool := c.engine.feePool, native := c.engine.native,
                     decimals := 10 ^ c.engine.tokenDecimals, imr := c.engine.imr, mmr := c.engine.mmr, plr := c.plr,
                     liqFee := c.engine.liqFee } := by
  unfold deploy at h
  simp only [bind_ok_iff] at h
  obtain ⟨e, he, vs, hvs, w1, h1, h2⟩ := h
  obtain ⟨a1, _, _⟩ := engineWiring_inv _ _ _ _ _ _ h1
  obtain ⟨s1, _⟩ := Inst.instantiate_spec _ _ _ he
  have he' : (initWorld c e vs).engine = e := rfl
  rw [engine_wireAll c.vamms h2, a1, he']
  simp only [s1]

/-! ## 6. non-vacuity -/

namespace Witness
open Perp.Props.DeployOK.Witness

/-- a market with its own fee ratios, reserves and flags -/
def mkt (a owner toll spread fluct period : Nat) (reg opn : Bool) : VammSpec :=
  { addr := a, owner := owner,
    msg := { decimalPlaces := 9, pricefeed := FEED, marginEngine := none, insuranceFund := some IFUND,
             quoteReserve := (1000 + a) * D9, baseReserve := (100 + a) * D9, fundingPeriod := period,
             toll := toll, spread := spread, fluct := fluct },
    register := reg, open_ := opn }

/-- the fixture with two markets whose toll ≠ spread (and which differ from each other in every compared field):
    market 10 is registered and opened by the deployer, market 11 belongs to account 61, is neither registered nor opened -/
def two : DeployCfg :=
  { fixture with vamms := [mkt 10 60 3000000 1000000 0 3600 true true, mkt 11 61 500000 7000000 20000000 7200 false false] }

theorem two_cfgOK : CfgOK two where
  addrs := ⟨by decide, by decide⟩
  balKeys := by decide
  allowKeys := by decide
  total := by decide +kernel
  feePool := rfl

/-- the compared fields of the record under `a`, read off a deployment's result -/
def stored (r : Except Err World) (a : Nat) : Option (List Nat × Bool × Bool) :=
  match r with
  | .ok w => (w.vamm? a).map (fun x =>
      ([x.cfg.toll, x.cfg.spread, x.cfg.fluct, x.cfg.fundingPeriod, x.cfg.owner, x.cfg.marginEngine, x.st.quote],
       x.st.isOpen, w.ifund.vamms.contains a))
  | .error _ => none

/-- `deploy` succeeds (kernel evaluation) and the stored toll / spread of each market are its spec's — not swapped,
    not the other market's -/
theorem two_deploys : (deploy two).toBool = true := by decide +kernel

theorem two_stored :
    stored (deploy two) 10 = some ([3000000, 1000000, 0, 3600, 60, ENGINE, 1010 * D9], true, true)
    ∧ stored (deploy two) 11 = some ([500000, 7000000, 20000000, 7200, 61, ENGINE, 1011 * D9], false, false) := by
  decide +kernel

/-- … and the theorem applies to it with every hypothesis discharged -/
theorem two_fields : ∀ w, deploy two = .ok w → ∀ s ∈ two.vamms,
    ∃ x, w.vamm? s.addr = some x ∧ x.cfg.toll = s.msg.toll ∧ x.cfg.spread = s.msg.spread := by
  intro w h s hs
  obtain ⟨x, h0, h1, h2, _⟩ := deploy_fields two two_cfgOK w h s hs
  exact ⟨x, h0, h1, h2⟩

/-- the distinctness of the addresses (the one field of `CfgOK` the proof uses) is NEEDED: two unregistered,
    unopened markets under one address — `deploy` succeeds, every other field of `CfgOK` holds, and the record under
    the address carries the FIRST spec's toll, not the second's -/
def dup : DeployCfg :=
  { fixture with vamms := [mkt 10 60 3000000 1000000 0 3600 false false, mkt 10 60 500000 7000000 0 3600 false false] }

theorem nodup_needed :
    (deploy dup).toBool = true
    ∧ (∀ s ∈ dup.vamms, s.addr ≠ 0 ∧ s.addr ≠ ENGINE ∧ s.addr ≠ IFUND ∧ s.addr ≠ FEEPOOL ∧ s.addr ≠ FEED ∧ s.addr ≠ TOKEN)
    ∧ (dup.bal.map (·.1)).Nodup ∧ (dup.allow.map (·.1)).Nodup
    ∧ Dispatch.total { bal := dup.bal, allow := dup.allow } ≤ U128.MAX ∧ dup.engine.feePool = FEEPOOL
    ∧ (stored (deploy dup) 10).map (·.1.head!) = some 3000000
    ∧ (mkt 10 60 500000 7000000 0 3600 false false) ∈ dup.vamms := by
  refine ⟨by decide +kernel, by decide, by decide, by decide, by decide +kernel, rfl, by decide +kernel, by decide⟩

end Witness

end Perp.Props.DeployFields
