/-
  SatG, part 2 — DepositMargin: the native caller attaches the amount, the cw20 deployment pulls it.
-/
import Perp.Props.SatGTwin

namespace Perp.Props.SatGDeposit
open Perp Perp.World Perp.Engine Perp.Props.LiqTwin Perp.Props.SatGTwin

/-! forward equations of the dispatcher -/

theorem execMsg_bankSend_eq (fuel : Nat) (w : World) (c to amt : Nat) :
    execMsg (fuel + 1) w c (.bankSend to amt)
      = (w.ledger.bankSend c to amt >>= fun g =>
          pure ({ w with ledger := g, log := w.log ++ [(c, to, amt)] }, Ev.none)) := by
  unfold execMsg; rfl

theorem execMsg_pull_eq (fuel : Nat) (w : World) (owner to amt : Nat) :
    execMsg (fuel + 1) w ENGINE (.tokenTransferFrom owner to amt)
      = (w.ledger.tokenTransferFrom owner to amt >>= fun g =>
          pure ({ w with ledger := g, log := w.log ++ [(owner, to, amt)] }, Ev.none)) := by
  unfold execMsg; rfl

theorem execSubs_nil_eq (fuel : Nat) (w : World) (c : Nat) : execSubs (fuel + 1) w c [] = .ok w := by
  unfold execSubs; rfl

theorem execSubs_single_err_eq (fuel : Nat) (w : World) (m : Msg) (id : Nat) :
    execSubs (fuel + 1) w ENGINE [⟨m, id, .error⟩]
      = match execMsg fuel w ENGINE m with
        | .ok (w1, _) => execSubs fuel w1 ENGINE []
        | .error _ => .error (.subcall id) := by
  conv => lhs; unfold execSubs
  dsimp only []
  cases execMsg fuel w ENGINE m with
  | ok r => rfl
  | error e => rfl

/-- the allowance does not influence a move -/
theorem move_allow (g : Ledger) (x : List (Nat × Nat)) (src dst amt : Nat) :
    Ledger.move { g with allow := x } src dst amt
      = (Ledger.move g src dst amt).map (fun g' => { g' with allow := x }) := by
  obtain ⟨b, al⟩ := g
  simp only [Ledger.move, Ledger.balance]
  by_cases h1 : Ledger.get b src < amt
  · simp [h1, Except.map]
  · by_cases h2 : Ledger.get (Ledger.set b src (Ledger.get b src - amt)) dst + amt > U128.MAX
    · simp [h1, h2, Except.map]
    · simp [h1, h2, Except.map]

/-- the world after a successful deposit -/
def res (w : World) (env : Env) (s a : Nat) (g : Ledger) (e' : E) : World :=
  { env := env, engine := e', vamms := w.vamms, ifund := w.ifund, feePool := w.feePool, feed := w.feed,
    ledger := g, log := [(s, ENGINE, a)] }

theorem nat_char (w : World) (env : Env) (s v a : Nat) (wn : World) :
    applyTx (natW w) env s ⟨a, false⟩ (.engine (.depositMargin v a)) = .ok wn ↔
      ∃ g e', a ≠ 0 ∧ Ledger.move w.ledger s ENGINE a = .ok g
        ∧ depositMargin (setNative w.engine true) env s ⟨a, false⟩ v a = .ok (e', [])
        ∧ wn = res w env s a g e' := by
  unfold applyTx
  dsimp only []
  by_cases ha : a = 0
  · subst ha
    simp only [ne_eq, not_true_eq_false, and_false, if_false, false_and, exists_false, iff_false]
    intro h
    simp only [pure_bind, bind_ok_iff] at h
    obtain ⟨⟨e', subs⟩, h1, _⟩ := h
    have h1' : depositMargin (natW w).engine env s ⟨0, false⟩ v 0 = .ok (e', subs) := h1
    exact (EngineMoney.depositMargin_spec _ _ _ _ _ _ _ _ h1').2.2.1 rfl
  · have hc : (natW w).engine.cfg.native = true ∧ (⟨a, false⟩ : Funds).amount ≠ 0 := ⟨rfl, ha⟩
    rw [if_pos hc, show FUEL = 39 + 1 from rfl, execMsg_bankSend_eq]
    simp only [bind_ok_iff, pure_ok_iff, Dispatch.exmap_ok, Ledger.bankSend, if_neg ha]
    constructor
    · rintro ⟨_, ⟨_, ⟨g, hg, rfl⟩, rfl⟩, ⟨e', subs⟩, hd, hx⟩
      have hd' : depositMargin (setNative w.engine true) env s ⟨a, false⟩ v a = .ok (e', subs) := hd
      have hsub : subs = [] := ((EngineMoney.depositMargin_spec _ _ _ _ _ _ _ _ hd').2.2.2.1 rfl).1
      subst hsub
      rw [execSubs_nil_eq] at hx
      injection hx with hx
      exact ⟨g, e', ha, hg, hd', hx.symm⟩
    · rintro ⟨g, e', _, hg, hd, rfl⟩
      refine ⟨_, ⟨_, ⟨g, hg, rfl⟩, rfl⟩, (e', []), hd, ?_⟩
      rw [execSubs_nil_eq]
      rfl


theorem cw_char (w : World) (env : Env) (s v a : Nat) (wc : World) :
    applyTx (cwW w) env s ⟨0, false⟩ (.engine (.depositMargin v a)) = .ok wc ↔
      ∃ g e' subs, a ≠ 0 ∧ Ledger.tokenTransferFrom w.ledger s ENGINE a = .ok g
        ∧ depositMargin (setNative w.engine false) env s ⟨0, false⟩ v a = .ok (e', subs)
        ∧ wc = res w env s a g e' := by
  unfold applyTx
  dsimp only []
  have hc : ¬ ((cwW w).engine.cfg.native = true ∧ (⟨0, false⟩ : Funds).amount ≠ 0) := fun h => h.2 rfl
  rw [if_neg hc]
  simp only [pure_bind, bind_ok_iff]
  constructor
  · rintro ⟨⟨e', subs⟩, hd, hx⟩
    have hd' : depositMargin (setNative w.engine false) env s ⟨0, false⟩ v a = .ok (e', subs) := hd
    have hsp := EngineMoney.depositMargin_spec _ _ _ _ _ _ _ _ hd'
    have hsub : subs = [⟨.tokenTransferFrom s ENGINE a, REPLY_TRANSFER_FAILURE, .error⟩] := hsp.2.2.2.2 rfl
    subst hsub
    dsimp only [] at hx
    rw [show FUEL = 38 + 1 + 1 from rfl, execSubs_single_err_eq, execMsg_pull_eq] at hx
    have hl : (cwW w).ledger = w.ledger := rfl
    dsimp only [] at hx
    rw [hl] at hx
    cases hg : Ledger.tokenTransferFrom w.ledger s ENGINE a with
    | error x =>
      rw [hg] at hx
      cases hx
    | ok g =>
      rw [hg] at hx
      simp only [bind, Except.bind, pure, Except.pure] at hx
      rw [execSubs_nil_eq] at hx
      injection hx with hx
      exact ⟨g, e', _, hsp.2.2.1, rfl, hd', hx.symm⟩
  · rintro ⟨g, e', subs, ha, hg, hd, rfl⟩
    have hsp := EngineMoney.depositMargin_spec _ _ _ _ _ _ _ _ hd
    have hsub : subs = [⟨.tokenTransferFrom s ENGINE a, REPLY_TRANSFER_FAILURE, .error⟩] := hsp.2.2.2.2 rfl
    subst hsub
    refine ⟨(e', _), hd, ?_⟩
    dsimp only []
    rw [show FUEL = 38 + 1 + 1 from rfl, execSubs_single_err_eq, execMsg_pull_eq]
    have hl : (cwW w).ledger = w.ledger := rfl
    dsimp only []
    rw [hl, hg]
    simp only [bind, Except.bind, pure, Except.pure]
    rw [execSubs_nil_eq]
    rfl


theorem pull_eq_move (g : Ledger) (s a : Nat) (ha : a ≠ 0) (hallow : a ≤ Ledger.get g.allow s) :
    Ledger.tokenTransferFrom g s ENGINE a
      = (Ledger.move g s ENGINE a).map
          (fun g' => { g' with allow := Ledger.set g.allow s (Ledger.get g.allow s - a) }) := by
  unfold Ledger.tokenTransferFrom
  rw [if_neg ha, if_neg (by omega)]
  exact move_allow _ _ _ _ _

theorem dep_nat_of_cw (e : E) (env : Env) (s v a : Nat) (ec : E) (subs : List SubMsg)
    (h : depositMargin (setNative e false) env s ⟨0, false⟩ v a = .ok (ec, subs)) :
    depositMargin (setNative e true) env s ⟨a, false⟩ v a = .ok (setNative ec true, []) := by
  have ht := depositMargin_twin e env s v a
  rw [h] at ht
  cases hn : depositMargin (setNative e true) env s ⟨a, false⟩ v a with
  | error x => rw [hn] at ht; cases ht
  | ok r =>
    obtain ⟨en, sn⟩ := r
    rw [hn] at ht
    have h1 : en = setNative ec true := by injection ht
    have h2 : sn = [] := ((EngineMoney.depositMargin_spec _ _ _ _ _ _ _ _ hn).2.2.2.1 rfl).1
    rw [h1, h2]

theorem dep_cw_of_nat (e : E) (env : Env) (s v a : Nat) (en : E) (sn : List SubMsg)
    (h : depositMargin (setNative e true) env s ⟨a, false⟩ v a = .ok (en, sn)) :
    ∃ ec subs, depositMargin (setNative e false) env s ⟨0, false⟩ v a = .ok (ec, subs) ∧ en = setNative ec true := by
  have ht := depositMargin_twin e env s v a
  rw [h] at ht
  cases hc : depositMargin (setNative e false) env s ⟨0, false⟩ v a with
  | error x => rw [hc] at ht; cases ht
  | ok r =>
    obtain ⟨ec, subs⟩ := r
    rw [hc] at ht
    exact ⟨ec, subs, rfl, by injection ht⟩

/-- what the two successful deposits have in common -/
def Same (wn wc : World) : Prop :=
  wn.engine = setNative wc.engine true ∧ wn.vamms = wc.vamms ∧ wn.ifund = wc.ifund ∧ wn.feePool = wc.feePool
  ∧ wn.feed = wc.feed ∧ wn.ledger.bal = wc.ledger.bal ∧ wn.log = wc.log ∧ wn.env = wc.env

theorem deposit_core (w : World) (env : Env) (s v a : Nat) (hallow : a ≤ Ledger.get w.ledger.allow s) :
    (∀ wn, applyTx (natW w) env s ⟨a, false⟩ (.engine (.depositMargin v a)) = .ok wn →
        ∃ wc, applyTx (cwW w) env s ⟨0, false⟩ (.engine (.depositMargin v a)) = .ok wc ∧ Same wn wc)
    ∧ (∀ wc, applyTx (cwW w) env s ⟨0, false⟩ (.engine (.depositMargin v a)) = .ok wc →
        ∃ wn, applyTx (natW w) env s ⟨a, false⟩ (.engine (.depositMargin v a)) = .ok wn ∧ Same wn wc) := by
  constructor
  · intro wn h
    obtain ⟨g, en, ha, hg, hd, rfl⟩ := (nat_char w env s v a wn).1 h
    obtain ⟨ec, subs, hc, rfl⟩ := dep_cw_of_nat _ _ _ _ _ _ _ hd
    have hp := pull_eq_move w.ledger s a ha hallow
    rw [hg] at hp
    exact ⟨_, (cw_char w env s v a _).2 ⟨_, ec, subs, ha, hp, hc, rfl⟩, rfl, rfl, rfl, rfl, rfl, rfl, rfl, rfl⟩
  · intro wc h
    obtain ⟨g, ec, subs, ha, hg, hd, rfl⟩ := (cw_char w env s v a wc).1 h
    have hp := pull_eq_move w.ledger s a ha hallow
    rw [hp] at hg
    obtain ⟨gm, hgm, hgeq⟩ := (Dispatch.exmap_ok _ _ _).1 hg
    subst hgeq
    exact ⟨_, (nat_char w env s v a _).2 ⟨gm, _, ha, hgm, dep_nat_of_cw _ _ _ _ _ _ _ hd, rfl⟩,
      rfl, rfl, rfl, rfl, rfl, rfl, rfl, rfl⟩

end Perp.Props.SatGDeposit
