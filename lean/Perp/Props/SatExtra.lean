/-
  SatExtra — refinement theorems for the three clauses of `Spec.extraChecks`:

  * `C16.checkHist`   judged on the observed history (`tradedThisBlock`); a model step carries the empty
                      history, so the clause is `[]` on every model step (`sat_C16_hist`, no hypothesis);
  * `C13.checkNative` a successful DepositMargin on a native deployment had exactly the deposited amount
                      attached and no other denom (`sat_C13_native`, no hypothesis: `must_pay`);
  * `C04.checkPartial` a ClosePosition that leaves the position (partial close, reply id 5) is not accepted
                      with bad debt.  The engine realises `upnl · |signed_output| / |size|` and
                      `size' = size + signed_output`; the clause recomputes `upnl · |size − size'| / |size|`
                      (signed size difference) with `upnl` the spot PnL of the pre-state: the same number,
                      also when the closing swap overshoots the position outside the regular regime of the
                      curve (`Witness.c04_partial_overshoot_ok`).  `sat_C04_partial`: every world, no
                      hypothesis.
  * `sat_extra`, `reachable_extra`, `reachable_sat_all`, `history_extra`: the three together (no hypothesis used).
-/
import Perp.Model.World
import Perp.Spec.World
import Perp.Lemmas.Basic
import Perp.Props.ModelStep
import Perp.Props.C19
import Perp.Props.C17
import Perp.Props.EngineMoney
import Perp.Props.WorldInv
import Perp.Props.MirrorInv
import Perp.Props.SatFlows
import Perp.Props.SatC11
import Perp.Props.Capstone
import Perp.Props.SatEWitness

namespace Perp.Props.SatExtra
open Perp Perp.World Perp.Engine Perp.Spec Perp.Spec.W Perp.Props.ModelStep
open Perp.Props.Dispatch Perp.Props.SatTrace
open Perp.Props.EngineGuards (Post Post_bind Post_pure Post_ok Post_error Post_bind_pure Post_bind_error)
open Perp.Props.MirrorP (AllCE)

/-! ## 1. C16 on the observed history -/

/-- a model step carries no history of earlier trades -/
theorem modelStep_traded_empty (w : World) (env : Env) (s : Nat) (f : Funds) (tx : Tx) :
    (modelStep w env s f tx).tradedThisBlock = [] := by
  unfold modelStep
  split <;> rfl

theorem sat_C16_hist (w : World) (env : Env) (s : Nat) (f : Funds) (tx : Tx) :
    Spec.C16.checkHist (modelStep w env s f tx) = [] := by
  have ht := modelStep_traded_empty w env s f tx
  unfold Spec.C16.checkHist
  split
  · rfl
  · split
    · rw [ht]; simp [W.chk]
    · rw [ht]; simp [W.chk]
    · rfl

/-! ## 2. C13 on a native deployment: DepositMargin takes exactly the attached amount -/

theorem sat_C13_native (w : World) (env : Env) (s : Nat) (f : Funds) (tx : Tx) :
    Spec.C13.checkNative (modelStep w env s f tx) = [] := by
  unfold modelStep
  cases happ : applyTx w env s f tx with
  | error e => rfl
  | ok w' =>
    cases tx with
    | engine m =>
      cases m with
      | depositMargin v amt =>
        obtain ⟨w1, e1, subs, a1, _, _, _, _, _, hex, _⟩ := WorldInv.applyTx_engine_inv w w' env s f _ happ
        have hex' : depositMargin w1.engine env s f v amt = .ok (e1, subs) := hex
        obtain ⟨_, _, _, hn, _⟩ := EngineMoney.depositMargin_spec _ _ _ _ _ _ _ _ hex'
        rw [a1] at hn
        cases hnat : w.engine.cfg.native with
        | false => simp [Spec.C13.checkNative, hnat]
        | true =>
          obtain ⟨_, h1, h2⟩ := hn hnat
          simp [Spec.C13.checkNative, W.engineMsg, W.chk, hnat, h1, h2]
      | _ => simp [Spec.C13.checkNative, W.engineMsg]
    | _ => simp [Spec.C13.checkNative, W.engineMsg]

/-! ## 3. C04 on the partial-close path -/

/-- `close_position`: on the partial path the in-flight record carries the position's spot PnL -/
theorem closePosition_upnl (q : Q) (e : E) (env : Env) (s v l : Nat) :
    Post (fun r => (∃ m, r.2 = [m] ∧ m.id = REPLY_CLOSE)
      ∨ (∃ pn u tmp, positionNotionalPnl q e (readPosition e v s) .spot = .ok (pn, u)
          ∧ r.1.tmpSwap = some tmp ∧ tmp.upnl = u))
      (closePosition q e env s v l) := by
  unfold closePosition internalClosePosition
  walk [first
    | exact Or.inl ⟨_, rfl, rfl⟩
    | exact Or.inr ⟨_, _, _, EngineGuards.unwrap_ok _ _ (by assumption), rfl, rfl⟩]

/-- the realised share of the PnL (`upnl · |signed_output| / |size|`, `Integer` operators) on the integers:
    truncating division, as `Spec.W.trunc` -/
theorem realizedPnl_toInt (p : Position) (sw : TmpSwap) (side : Side) (o : Nat) (r : Integer)
    (hnz : ¬ p.size.value = 0) (h : realizedPnl p sw (signedOutput side o) = .ok r) :
    r.toInt = Int.tdiv (sw.upnl.toInt * (o : Int)) (p.size.value : Int) := by
  unfold realizedPnl at h
  have hz : (!p.size.isZero) = true := by simp [Integer.isZero, hnz]
  rw [if_pos hz] at h
  obtain ⟨m, hm, hd⟩ := EngineMoney.bind_ok h
  have e1 := (C19.checkedMul_ok _ _ _ hm).1
  have e2 := (C19.checkedDiv_ok _ _ _ hd).1
  have hso : (signedOutput side o).value = o := by cases side <;> rfl
  rw [e2, e1, C19.abs_toInt, C19.abs_toInt, C19.toInt_natAbs, C19.toInt_natAbs, hso]

/-- **the successful ClosePosition on the partial path, as the clause sees it.**  Either no record under the
    caller's key remains (whole close), or: the spot PnL `u` the engine recorded is the one the pre-state
    answers at the transaction's block; the stored size moved by the signed base amount `bo` of the closing
    swap; margin + `u·bo / |size|` − funding owed is not negative (the engine's bad-debt guard); and in the
    regular regime of the curve the swap takes at most `|size|` out of the position. -/
theorem partial_core (w w' : World) (env : Env) (s : Nat) (f : Funds) (v l : Nat)
    (h : applyTx w env s f (.engine (.closePosition v l)) = .ok w') :
    W.hasPos w' v s = false
    ∨ ∃ (pn : Nat) (u : Integer) (bo : Nat),
        ¬ (readPosition w.engine v s).size.value = 0
        ∧ positionNotionalPnl ({ w with env := env } : World).q w.engine (readPosition w.engine v s) .spot = .ok (pn, u)
        ∧ (readPosition w'.engine v s).size.toInt
            = (readPosition w.engine v s).size.toInt
              + (signedOutput (positionToSide (readPosition w.engine v s).size) bo).toInt
        ∧ 0 ≤ ((readPosition w.engine v s).margin : Int)
              + Int.tdiv (u.toInt * (bo : Int)) ((readPosition w.engine v s).size.value : Int)
              - W.fundingOwed w (readPosition w.engine v s)
        ∧ (Mirror.CurveRegular w → bo ≤ (readPosition w.engine v s).size.value) := by
  obtain ⟨w1, e1, x, sw, msgs, over, hst, _, hxv, hnz, pv, pt, hex, hsw, sv, st, hpos, hcfg, hvm, _, hover, hcase⟩ :=
    SatFlows.close_flow w w' env s f v l h
  have hk := EngineMoney.getPosition_key env e1 sw.vamm sw.trader sw.side
  rcases hcase with ⟨_, _, x', qo, w2, e3, subs3, _, _, _, _, hrep, _, he3, _, _⟩
      | ⟨hyes, hside, N, x', bo, w2, e3, subs3, hswap, hrep, _, he3, _, hmsg⟩
  · left
    obtain ⟨hp', _⟩ := MirrorP.closePositionReply_eff _ _ _ _ sw hsw _ hrep
    exact hasPos_remove e1 e3 w' _ v s he3 hp' (hk.1.trans sv) (hk.2.trans st)
  · right
    have hrd : readPosition e1 sw.vamm sw.trader = readPosition w.engine v s := by
      rw [sv, st]; exact WorldInv.rp_same v s hpos
    -- the PnL in flight
    have hu := closePosition_upnl _ _ _ _ _ _ _ hex
    dsimp only at hu
    rcases hu with ⟨m, hm, hid⟩ | ⟨pn, u, tmp, hpnl, htmp, hup⟩
    · exfalso
      rw [hmsg] at hm
      injection hm with hm
      subst hm
      exact absurd hid (Nat.ne_of_beq_eq_false rfl)
    have hts : tmp = sw := by
      rw [hsw] at htmp
      injection htmp with h'
      exact h'.symm
    subst hts
    rw [SatC11.pnl_spot_congr w1.q ({ w with env := env } : World).q _ _ (SatC11.start_outputAmount hst)] at hpnl
    -- the reply
    obtain ⟨realized, rm, hr, hrm, hb, _, _, _⟩ :=
      EngineMoney.partialClose_no_bad_debt w2.q e1 e3 env N bo subs3 tmp hsw hrep
    have hsz : (getPosition env e1 tmp.vamm tmp.trader tmp.side).size = (readPosition w.engine v s).size := by
      rw [MirrorP.getPosition_size, hrd]
    have hnz' : ¬ (getPosition env e1 tmp.vamm tmp.trader tmp.side).size.value = 0 := by rw [hsz]; exact hnz
    have hreal := realizedPnl_toInt _ _ _ _ _ hnz' hr
    rw [hsz, hup] at hreal
    obtain ⟨_, _, _, hbad⟩ := EngineMoney.calcRemainMargin_spec e1 _ realized rm hrm
    have hfo : EngineMoney.fundingOwed e1 (getPosition env e1 tmp.vamm tmp.trader tmp.side)
        = W.fundingOwed w (readPosition w.engine v s) := by
      rw [SatC11.fundingOwed_get, hrd, SatC11.fundingOwed_congr hvm hcfg]
      rfl
    have hmg : (getPosition env e1 tmp.vamm tmp.trader tmp.side).margin = (readPosition w.engine v s).margin := by
      rw [SatC11.getPosition_margin, hrd]
    rw [hfo, hmg, hreal] at hbad
    -- the stored size
    obtain ⟨⟨p', hp', pv', pt', psz, _⟩, _⟩ := MirrorP.partialClosePositionReply_eff _ _ _ _ _ tmp hsw _ hrep
    dsimp only at hp' pv' pt' psz
    have hread : readPosition w'.engine v s = p' := by
      rw [he3]; exact read_of_store e1 e3 p' v s hp' ((pv'.trans hk.1).trans sv) ((pt'.trans hk.2).trans st)
    rw [hsz, hside] at psz
    refine ⟨pn, u, bo, hnz, hpnl, by rw [hread]; exact psz, ?_, fun hcr => ?_⟩
    · refine Int.not_lt.1 (fun hlt => ?_)
      have := (hbad (by omega)).2
      rw [hb] at this
      omega
    · -- the curve: the re-quoted base amount does not exceed the position
      obtain ⟨_, _, _, tmp', _, _, _, hc⟩ := MirrorP.closePosition_inv _ _ _ _ _ _ _ hex
      dsimp only at hc
      rcases hc with ⟨_, h2⟩ | ⟨_, xx, pa, N', over', h2, hcm, hcd, hout, hov, ho, hplr⟩
      · exfalso
        rw [hmsg] at h2
        injection h2 with h2
        injection h2 with h2
        cases h2
      · rw [hmsg] at h2
        have hNN : N = N' := by
          injection h2 with h2
          injection h2 with h2
          injection h2
        subst hNN
        rw [ho] at hov
        have hcr1 : MirrorP.CurveRegF w1.vamm? := fun a y hy => hcr a y ((hst.vamm? a) ▸ hy)
        have hnf := MirrorP.noflip_partial w1 _ _ _ _ _ _ v hcr1 hcm hcd hplr hout hov
        obtain ⟨b, hqi, _, ho', _⟩ := C17.swapInput_inv _ _ _ _ _ _ _ _ _ hswap
        injection ho' with _ _ hbo
        subst hbo
        exact hnf x _ ((hst.vamm? v).trans hxv) hqi

theorem chk_true (c : Bool) (tag : String) (h : c = true) : W.chk c tag = [] := by
  unfold W.chk; rw [h]; rfl

/-- the clause's closed amount — the signed size difference `|size − size'|` — is the base amount of the
    closing swap, i.e. the engine's `|signed_output|`, whatever the swap did to the sign of the position -/
theorem closed_exact (P P' : Integer) (bo : Nat)
    (hsz : P'.toInt = P.toInt + (signedOutput (positionToSide P) bo).toInt) :
    (P.toInt - P'.toInt).natAbs = bo := by
  rw [MirrorP.signedOutput_toInt] at hsz
  cases hside : positionToSide P <;> rw [hside] at hsz <;> simp only [] at hsz <;> omega

theorem check_close_ok (w w' : World) (env : Env) (s : Nat) (f : Funds) (v l : Nat)
    (h : applyTx w env s f (.engine (.closePosition v l)) = .ok w') :
    Spec.C04.checkPartial (okStep w w' env s f (.engine (.closePosition v l))) = [] := by
  rcases partial_core w w' env s f v l h with hno | ⟨pn, u, bo, hnz, hpnl, hsz, hge, _⟩
  · simp [Spec.C04.checkPartial, W.engineMsg, okStep, hno]
  · have hcl := closed_exact _ _ bo hsz
    unfold Spec.C04.checkPartial
    dsimp only [W.engineMsg, W.pos, W.preAt, okStep]
    rw [hpnl, hcl, C19.toInt_natAbs]
    simp only [Bool.not_true, Bool.false_eq_true, if_false]
    split
    · rfl
    · split
      · rfl
      · exact chk_true _ _ (decide_eq_true hge)

/-- **C04, partial-close clause — for every world, block, sender, funds and message, no hypothesis.**
    A ClosePosition that leaves the position is accepted only if margin + realised PnL − funding owed is not
    negative, the realised PnL being `trunc (upnl · |size − size'|) |size|` with `upnl` the spot PnL of the
    pre-state at the transaction's block: exactly what `partial_close_position_reply` feeds to
    `calc_remain_margin_with_funding_payment` (`realizedPnl_toInt`, `closed_exact`, `calcRemainMargin_spec`).
    No invariant is needed: engine and clause value the same stored record (`SignDir`), `get_position` keeps
    size, margin and checkpoint of a record stored under vAMM 0 (`NoZeroVamm`), the handler's own arithmetic
    succeeded (`MarginRep`), and — the closed amount being the signed size difference — the clause follows
    the engine also when the closing swap overshoots the position outside the regular regime of the curve
    (`Witness.c04_partial_overshoot_ok`). -/
theorem sat_C04_partial (w : World) (env : Env) (s : Nat) (f : Funds) (tx : Tx) :
    Spec.C04.checkPartial (modelStep w env s f tx) = [] := by
  cases hx : applyTx w env s f tx with
  | error e =>
    rw [modelStep_err hx]
    rfl
  | ok w' =>
    rw [modelStep_ok hx]
    cases tx with
    | engine m =>
      cases m with
      | closePosition v l => exact check_close_ok w w' env s f v l hx
      | _ => rfl
    | _ => rfl

/-! ## 4. the three together -/

/-- every clause of `Spec.extraChecks` is empty on the model's step — every world, no hypothesis -/
theorem sat_extra (w : World) (env : Env) (s : Nat) (f : Funds) (tx : Tx) :
    ∀ pc ∈ Spec.extraChecks (modelStep w env s f tx), pc.2 = [] := by
  intro pc hpc
  unfold Spec.extraChecks at hpc
  simp only [List.mem_cons, List.not_mem_nil, or_false] at hpc
  rcases hpc with rfl | rfl | rfl
  · exact sat_C16_hist w env s f tx
  · exact sat_C04_partial w env s f tx
  · exact sat_C13_native w env s f tx

/-- the extra clauses, as a record in the style of `Capstone.CleanChecks` -/
structure ExtraClean (st : Step) : Prop where
  c16hist : Spec.C16.checkHist st = []
  c04partial : Spec.C04.checkPartial st = []
  c13native : Spec.C13.checkNative st = []

theorem extraClean_of (w : World) (env : Env) (s : Nat) (f : Funds) (tx : Tx) :
    ExtraClean (modelStep w env s f tx) :=
  ⟨sat_C16_hist w env s f tx, sat_C04_partial w env s f tx, sat_C13_native w env s f tx⟩

/-- on a reachable world, under the side conditions (stated in the style of `Capstone.reachable_clean`; neither
    reachability nor the side conditions are used) -/
theorem reachable_extra (w : World) (_hr : Capstone.Reachable w) (env : Env) (s : Nat) (f : Funds) (tx : Tx)
    (_hs : Capstone.SideOK w env s f tx) :
    ∀ pc ∈ Spec.extraChecks (modelStep w env s f tx), pc.2 = [] :=
  sat_extra w env s f tx

theorem reachable_extra_clean (w : World) (_hr : Capstone.Reachable w) (env : Env) (s : Nat) (f : Funds) (tx : Tx)
    (_hs : Capstone.SideOK w env s f tx) : ExtraClean (modelStep w env s f tx) :=
  extraClean_of w env s f tx

/-- everything a check run evaluates (`allChecks ++ extraChecks`, as the driver folds them) on a reachable
    world: every reported tag is one of `Capstone.knownTags` -/
theorem reachable_sat_all (w : World) (hr : Capstone.Reachable w) (env : Env) (s : Nat) (f : Funds) (tx : Tx)
    (hs : Capstone.SideOK w env s f tx) :
    ∀ pc ∈ Spec.allChecks (modelStep w env s f tx) ++ Spec.extraChecks (modelStep w env s f tx),
      ∀ tag ∈ pc.2, tag ∈ Capstone.knownTags := by
  intro pc hpc tag htag
  rcases List.mem_append.1 hpc with h1 | h2
  · exact Capstone.reachable_sat w hr env s f tx hs pc h1 tag htag
  · rw [reachable_extra w hr env s f tx hs pc h2] at htag
    cases htag

/-- … and along any history from a deployment -/
theorem history_extra (w0 : World) (h0 : Capstone.Deployed w0) (txs : Capstone.History)
    (hside : Capstone.SideAlong w0 txs)
    (pre : Capstone.History) (t : Env × Nat × Funds × Tx) (post : Capstone.History) (e : txs = pre ++ t :: post) :
    ExtraClean (modelStep (Capstone.run w0 pre) t.1 t.2.1 t.2.2.1 t.2.2.2) :=
  reachable_extra_clean _ (Capstone.history_reachable w0 h0 txs hside pre (t :: post) e) _ _ _ _ (hside pre t post e)

/-! ## 5. witnesses (all evaluated by the kernel) -/

namespace Witness
open Perp.Props.SatEWitness (D world eng vamm)

def close10 : Tx := .engine (.closePosition 10 0)

/-- a short of 6 raw base units (margin 0, open notional 100 raw units, funding owed 102) against reserves
    1.000000 quote / 8.999929 base — both hold a whole unit, but the spot price is 1/9: the third conjunct of
    `Mirror.CurveRegular` fails.  Fluctuation limit 0.0001 %, partial-close ratio 50 %. -/
def lowPrice : World :=
  world (eng false (5 * 10^4) (50 * 10^4)
      [⟨10, 100, .removeFromAmm, Integer.newNegative 6, 0, 100, Integer.newPositive 17000000, 1⟩])
    (vamm (1 * D) 8999929 1 1800 (Integer.newNegative 6))

set_option maxRecDepth 100000 in
/-- **an overshooting partial close (sign flip) is judged like the engine judges it.**  ClosePosition: closing
    the 6 units whole would lift the price from 0.111111 to 0.111112, out of the band, so the engine closes
    50 %: it quotes 3 base (1 raw quote unit, rounded up) and swaps that 1 quote unit back into base — which
    buys 8.  The position flips from −6 to +2.  The spot PnL is +99; the engine realises
    `99 · 8 / 6 = 132` and accepts (0 + 132 − 102 ≥ 0, stored margin 30).  The clause takes
    `|−6 − (+2)| = 8` as closed, realises the same 132, and is EMPTY.  (With the closed amount taken as
    `|−6| − |+2| = 4` — the former formula — it realised `99 · 4 / 6 = 66` and reported bad debt,
    0 + 66 − 102 < 0: that formula needed `Mirror.CurveRegular`, which excludes the overshoot.) -/
theorem c04_partial_overshoot_ok :
    Spec.C04.checkPartial (modelStep lowPrice ⟨2, 1000⟩ 100 ⟨0, false⟩ close10) = []
    ∧ (modelStep lowPrice ⟨2, 1000⟩ 100 ⟨0, false⟩ close10).ok = true
    ∧ positionNotionalPnl ({ lowPrice with env := ⟨2, 1000⟩ } : World).q lowPrice.engine
        (readPosition lowPrice.engine 10 100) .spot = .ok (1, Integer.newPositive 99)
    ∧ realizedPnl (readPosition lowPrice.engine 10 100)
        ⟨10, 100, .buy, 6, D, 1, 1, Integer.newPositive 99, Integer.zero, false⟩ (signedOutput .buy 8)
      = .ok (Integer.newPositive 132)
    ∧ (step lowPrice ⟨2, 1000⟩ 100 ⟨0, false⟩ close10).engine.positions
      = [⟨10, 100, .removeFromAmm, Integer.newPositive 2, 30, 33, Integer.zero, 2⟩]
    ∧ (step lowPrice ⟨2, 1000⟩ 100 ⟨0, false⟩ close10).vamms.map (fun p => (p.2.st.quote, p.2.st.base))
      = [(1 * D + 1, 8999929 - 8)] := by decide +kernel

/-- that world satisfies `SignDir`, `MarginRep`, `NoZeroVamm`, `UserSender`, `WF` and the first two conjuncts
    of `CurveRegular`; only "spot price ≥ 1 where partial closes can happen" fails (which is what lets the
    re-quoted base amount overshoot) -/
theorem c04_partial_witness_hyps :
    Mirror.SignDir lowPrice.engine ∧ SatC.MarginRep lowPrice.engine ∧ Mirror.NoZeroVamm lowPrice
    ∧ UserSender lowPrice 100 ∧ WF lowPrice
    ∧ (∀ a x, lowPrice.vamm? a = some x → x.cfg.decimals ≤ x.st.quote ∧ x.cfg.decimals ≤ x.st.base)
    ∧ ¬ Mirror.CurveRegular lowPrice := by
  have hp : ∀ p ∈ lowPrice.engine.positions,
      p = ⟨10, 100, .removeFromAmm, Integer.newNegative 6, 0, 100, Integer.newPositive 17000000, 1⟩ := by
    intro p hp
    simpa [lowPrice, world, eng] using hp
  have hv : ∀ a x, lowPrice.vamm? a = some x → (a, x) = (10, vamm (1 * D) 8999929 1 1800 (Integer.newNegative 6)) := by
    intro a x hx
    have hm := Mirror.Cex.vamm?_mem _ a x hx
    simpa [lowPrice, world] using hm
  refine ⟨?_, ?_, by unfold Mirror.NoZeroVamm; decide, Capstone.Witness.userSender_of (by decide) (by decide),
    ⟨⟨rfl, rfl, rfl⟩, by decide, by decide⟩, ?_, ?_⟩
  · intro p hpm
    rw [hp p hpm]
    exact ⟨fun h => absurd h (by decide), fun _ => rfl⟩
  · intro p hpm
    rw [hp p hpm]
    decide
  · intro a x hx
    have := hv a x hx
    injection this with h1 h2
    subst h1 h2
    decide
  · intro hcr
    have h3 := (hcr 10 (vamm (1 * D) 8999929 1 1800 (Integer.newNegative 6)) (by decide)).2.2 (by decide)
    exact absurd h3 (by decide)

/-- regular regime (reserves 1372 / 1291, price 1.06, fluctuation limit 1 %, partial-close ratio 98 %): a long
    of 5657 base with the given margin and funding checkpoint -/
def reg (margin : Nat) (chk : Integer) : World :=
  world (eng false (5 * 10^4) (98 * 10^4)
      [⟨10, 100, .addToAmm, Integer.newPositive (5657 * D), margin, 1100 * D, chk, 1⟩])
    (vamm (1372 * D) (1291 * D) (10^4) 1800 (Integer.newPositive (5657 * D)))

theorem reg_curveRegular :
    Mirror.CurveRegular (reg (500 * D) Integer.zero) ∧ Mirror.CurveRegular (reg (500 * D) (Integer.newNegative (10^6))) :=
  ⟨Mirror.Cex.curveB_sound _ (by decide +kernel), Mirror.Cex.curveB_sound _ (by decide +kernel)⟩

set_option maxRecDepth 100000 in
/-- the theorem is not vacuous: in the regular regime a ClosePosition takes the partial path, is accepted,
    leaves the position (5657 → 113.140002 base), the clause's guard conditions are all met (spot PnL readable:
    +17.070236) and the clause is empty -/
theorem c04_partial_regular_accepted :
    (modelStep (reg (500 * D) Integer.zero) ⟨2, 1000⟩ 100 ⟨0, false⟩ close10).ok = true
    ∧ (step (reg (500 * D) Integer.zero) ⟨2, 1000⟩ 100 ⟨0, false⟩ close10).engine.positions
      = [⟨10, 100, .addToAmm, Integer.newPositive 113140002, 516728831, 3878543, Integer.zero, 2⟩]
    ∧ positionNotionalPnl ({ reg (500 * D) Integer.zero with env := ⟨2, 1000⟩ } : World).q
        (reg (500 * D) Integer.zero).engine (readPosition (reg (500 * D) Integer.zero).engine 10 100) .spot
      = .ok (1117070236, Integer.newPositive 17070236)
    ∧ Spec.C04.checkPartial (modelStep (reg (500 * D) Integer.zero) ⟨2, 1000⟩ 100 ⟨0, false⟩ close10) = [] := by
  decide +kernel

set_option maxRecDepth 100000 in
/-- … and the guard the clause is about fires: the same position owing 5657 of funding (checkpoint −1.000000)
    against a margin of 500 is REJECTED on the partial path -/
theorem c04_partial_regular_rejected :
    (modelStep (reg (500 * D) (Integer.newNegative (10^6))) ⟨2, 1000⟩ 100 ⟨0, false⟩ close10).ok = false
    ∧ applyTx (reg (500 * D) (Integer.newNegative (10^6))) ⟨2, 1000⟩ 100 ⟨0, false⟩ close10
        = .error (.guard 73) := by
  decide +kernel

/-- a native deployment: depositing 5 with 5 attached is accepted, with 7 attached (or a second denom) it is
    rejected — `sat_C13_native` is not vacuous -/
def nat0 : World :=
  world (eng true (5 * 10^4) (25 * 10^4) [⟨10, 100, .addToAmm, Integer.newPositive (5 * D), 10 * D, 50 * D, Integer.zero, 1⟩])
    (vamm (10000 * D) (1000 * D) 0 1800 (Integer.newPositive (5 * D)))

set_option maxRecDepth 100000 in
theorem c13_native_instances :
    (modelStep nat0 ⟨2, 1000⟩ 100 ⟨5, false⟩ (.engine (.depositMargin 10 5))).ok = true
    ∧ (modelStep nat0 ⟨2, 1000⟩ 100 ⟨7, false⟩ (.engine (.depositMargin 10 5))).ok = false
    ∧ (modelStep nat0 ⟨2, 1000⟩ 100 ⟨5, true⟩ (.engine (.depositMargin 10 5))).ok = false
    ∧ (modelStep nat0 ⟨2, 1000⟩ 100 ⟨0, false⟩ (.engine (.depositMargin 10 5))).ok = false := by
  decide +kernel

end Witness

end Perp.Props.SatExtra
