/-
  C15Requote — the arithmetic of a partial close: the engine quotes `want` base units in quote (`N`, by
  `get_output_price`) and swaps that quote back into base (`got`, by `get_input_price`).  Both results are
  ceilings of `K / ·` with `K = ⌊x·y/D⌋·D`, which pins down the re-quote deviation `|got − want|`.
-/
import Perp.Model.Vamm
import Perp.Lemmas.Basic
import Perp.Props.C01
import Perp.Props.CurveNoFlip

namespace Perp.Props.C15Requote
open Perp Perp.Vamm

/-- `m · c < N + m` as soon as `c ≤ ⌈N / m⌉` -/
theorem ceil_lt (N m c : Nat) (hm : m ≠ 0)
    (hc : (N % m = 0 → c ≤ N / m) ∧ c ≤ N / m + 1) : m * c < N + m := by
  have h1 := Nat.div_add_mod N m
  have h2 := Nat.mod_lt N (Nat.pos_of_ne_zero hm)
  by_cases h0 : N % m = 0
  · have := Nat.mul_le_mul_left m (hc.1 h0)
    omega
  · have := Nat.mul_le_mul_left m hc.2
    rw [Nat.mul_succ] at this
    omega

/-- `get_output_price`, base added: the quote left in the pool is exactly `⌈K / (y + a)⌉` -/
theorem gop_add_char (D a x y s : Nat) (ha : a ≠ 0) (h : getOutputPrice D .addToAmm a x y = .ok s) :
    D ≠ 0 ∧ s ≤ x ∧ x * y / D * D ≤ (x - s) * (y + a) ∧ (x - s) * (y + a) < x * y / D * D + (y + a) := by
  obtain ⟨hD, hsx, hlo⟩ := Perp.Props.C01.gop_add D a x y s ha h
  refine ⟨hD, hsx, hlo, ?_⟩
  unfold getOutputPrice at h
  simp [ha, Perp.Props.C01.modulo_ok] at h
  obtain ⟨_, ⟨_, rfl⟩, _, ⟨hD, rfl⟩, _, ⟨_, rfl⟩, _, ⟨_, rfl⟩, _, ⟨hy', rfl⟩, _, ⟨_, _, rfl⟩, h⟩ := h
  have hN : x * y / D * D ≤ (y + a) * x := by
    rw [Nat.mul_comm (y + a) x]
    exact Nat.le_trans (Nat.div_mul_le_self _ _) (Nat.mul_le_mul_left x (Nat.le_add_right y a))
  have hq : x * y / D * D / (y + a) ≤ x := Nat.div_le_of_le_mul hN
  generalize x * y / D * D = N at *
  have hlt : ¬ x < N / (y + a) := by omega
  rw [if_neg hlt] at h
  rw [Nat.mul_comm (x - s)]
  split at h
  · simp at h
    refine ceil_lt _ _ _ hy' ?_
    generalize hqq : N / (y + a) = q at *
    generalize hrr : N % (y + a) = r at *
    omega
  · simp at h
    refine ceil_lt _ _ _ hy' ?_
    generalize hqq : N / (y + a) = q at *
    generalize hrr : N % (y + a) = r at *
    omega

/-- `get_input_price`, quote removed, base reserve ≥ one whole unit: the base in the pool afterwards is
    exactly `⌈K / (x − n)⌉` -/
theorem gip_rem_char (D n x y B : Nat) (hn : n ≠ 0) (hy : D ≤ y)
    (h : getInputPrice D .removeFromAmm n x y = .ok B) :
    D ≠ 0 ∧ n < x ∧ x * y / D * D ≤ (x - n) * (y + B) ∧ (x - n) * (y + B) < x * y / D * D + (x - n) := by
  obtain ⟨hD, hnx, hlo⟩ := Perp.Props.C01.gip_rem D n x y B hn h
  unfold getInputPrice at h
  simp [hn, Perp.Props.C01.modulo_ok] at h
  obtain ⟨_, ⟨_, rfl⟩, _, ⟨hD, rfl⟩, _, ⟨hax, rfl⟩, _, ⟨_, rfl⟩, _, ⟨hx', rfl⟩, _, ⟨_, _, rfl⟩, h⟩ := h
  refine ⟨hD, by omega, hlo, ?_⟩
  have hb := CurveNoFlip.N_bounds D x y hD
  generalize x * y / D * D = N at *
  have h1 := Nat.div_add_mod N (x - n)
  have h2 := Nat.mod_lt N (Nat.pos_of_ne_zero hx')
  have hq'' : y ≤ N / (x - n) := by
    apply Nat.le_of_not_lt
    intro hc
    have h3 := Nat.mul_le_mul_left (x - n) (Nat.succ_le_of_lt hc)
    rw [Nat.mul_succ] at h3
    have h4 : (x - n) * y ≤ (x - 1) * y := Nat.mul_le_mul_right y (by omega)
    have h5 : (x - 1) * y = x * y - y := by rw [Nat.sub_mul, Nat.one_mul]
    omega
  refine ceil_lt _ _ _ hx' ?_
  generalize N / (x - n) = q at *
  generalize N % (x - n) = r at *
  split at h
  · simp at h
    split at h <;> omega
  · simp at h
    split at h <;> omega

/-- `get_input_price`, quote added: the base left in the pool is exactly `⌈K / (x + n)⌉` -/
theorem gip_add_char (D n x y B : Nat) (hn : n ≠ 0) (h : getInputPrice D .addToAmm n x y = .ok B) :
    D ≠ 0 ∧ B ≤ y ∧ x * y / D * D ≤ (x + n) * (y - B) ∧ (x + n) * (y - B) < x * y / D * D + (x + n) := by
  obtain ⟨hD, hBy, hlo⟩ := Perp.Props.C01.gip_add D n x y B hn h
  refine ⟨hD, hBy, hlo, ?_⟩
  unfold getInputPrice at h
  simp [hn, Perp.Props.C01.modulo_ok] at h
  obtain ⟨_, ⟨_, rfl⟩, _, ⟨hD, rfl⟩, _, ⟨_, rfl⟩, _, ⟨_, rfl⟩, _, ⟨hx', rfl⟩, _, ⟨_, _, rfl⟩, h⟩ := h
  have hN : x * y / D * D ≤ (x + n) * y :=
    Nat.le_trans (Nat.div_mul_le_self _ _) (Nat.mul_le_mul_right y (Nat.le_add_right x n))
  have hq : x * y / D * D / (x + n) ≤ y := Nat.div_le_of_le_mul hN
  generalize x * y / D * D = N at *
  have hlt : ¬ y < N / (x + n) := by omega
  rw [if_neg hlt] at h
  split at h
  · simp at h
    refine ceil_lt _ _ _ hx' ?_
    generalize hqq : N / (x + n) = q at *
    generalize hrr : N % (x + n) = r at *
    omega
  · simp at h
    refine ceil_lt _ _ _ hx' ?_
    generalize hqq : N / (x + n) = q at *
    generalize hrr : N % (x + n) = r at *
    omega

/-! ### the re-quote deviation

  `c` is the quote reserve after the trade, `bA = y ± want` the base reserve the quote was computed for,
  `g = y ± got` the base reserve after the trade:  `c = ⌈K / bA⌉`, `g = ⌈K / c⌉`. -/

/-- the re-quoted base reserve never exceeds the one the quote was computed for -/
theorem requote_le (K c bA g : Nat) (hA1 : K ≤ c * bA) (hB2 : c * g < K + c) : g ≤ bA := by
  apply Nat.le_of_not_lt
  intro hc
  have := Nat.mul_le_mul_left c (Nat.succ_le_of_lt hc)
  rw [Nat.mul_succ] at this
  omega

/-- … and falls short of it by at most `⌊g / c⌋ + 2`, as long as the post-trade exchange rate `⌊g / c⌋`
    (raw base units per raw quote unit) stays below twice the quote reserve -/
theorem requote_dev (K c bA g : Nat) (hA2 : c * bA < K + bA) (hB1 : K ≤ c * g) (hle : g ≤ bA)
    (hr : g / c + 2 ≤ 2 * c) : bA - g ≤ g / c + 2 := by
  apply Nat.le_of_not_lt
  intro hc
  obtain ⟨d, rfl⟩ : ∃ d, bA = g + d := ⟨bA - g, by omega⟩
  have hc1 : c ≠ 0 := by
    intro h0
    subst h0
    simp at hr
  obtain ⟨c', rfl⟩ : ∃ c', c = c' + 1 := ⟨c - 1, by omega⟩
  have h1 := Nat.div_add_mod g (c' + 1)
  have h2 := Nat.mod_lt g (Nat.succ_pos c')
  generalize g / (c' + 1) = h at *
  generalize g % (c' + 1) = r at *
  have e1 : (c' + 1) * (g + d) = (c' + 1) * g + (c' * d + d) := by
    rw [Nat.mul_add, Nat.succ_mul c' d]
  have e2 : (c' + 1) * h = c' * h + h := Nat.succ_mul c' h
  have e3 : c' * (h + 3) ≤ c' * d := Nat.mul_le_mul_left c' (by omega)
  rw [Nat.mul_add] at e3
  omega

/-- at a price of at least 1 before the trade (`bA ≤ c`) the re-quote of a buy-back is exact -/
theorem requote_exact (K c bA g : Nat) (hA1 : K ≤ c * bA) (hA2 : c * bA < K + bA) (hB1 : K ≤ c * g)
    (hB2 : c * g < K + c) (hp : bA ≤ c) : g = bA := by
  have hle := requote_le K c bA g hA1 hB2
  apply Nat.le_antisymm hle
  apply Nat.le_of_not_lt
  intro hc
  have := Nat.mul_le_mul_left c (Nat.succ_le_of_lt hc)
  rw [Nat.mul_succ] at this
  omega

/-! ### at the price functions -/

/-- partial close of a long (reserves ≥ one whole unit): the quote `N` quoted for `a` base units buys back
    `B ≤ a`, and `a − B ≤ ⌊y'/x'⌋ + 2` where `x' = x − N`, `y' = y + B` are the reserves after the trade —
    as long as that exchange rate stays below twice the quote reserve `x'` -/
theorem long_requote (D a x y N B : Nat) (hx : D ≤ x) (hy : D ≤ y)
    (hN : getOutputPrice D .addToAmm a x y = .ok N)
    (hB : getInputPrice D .removeFromAmm N x y = .ok B) :
    B ≤ a ∧ ((y + B) / (x - N) + 2 ≤ 2 * (x - N) → a - B ≤ (y + B) / (x - N) + 2) := by
  refine ⟨CurveNoFlip.partial_long_no_overshoot D a x y N B hx hy hN hB, fun hr => ?_⟩
  by_cases ha0 : a = 0
  · subst ha0
    rw [Nat.zero_sub]
    exact Nat.zero_le _
  obtain ⟨hD, hNx, hA1, hA2⟩ := gop_add_char D a x y N ha0 hN
  by_cases hN0 : N = 0
  · subst hN0
    simp [getInputPrice] at hB
    subst hB
    have hb := CurveNoFlip.N_bounds D x y hD
    have := requote_dev (x * y) x (y + a) y (by simp only [Nat.sub_zero] at hA2; omega) (Nat.le_refl _)
      (by omega) (by simpa using hr)
    simp only [Nat.sub_zero, Nat.add_zero]
    omega
  · obtain ⟨_, _, hB1, hB2⟩ := gip_rem_char D N x y B hN0 hy hB
    have hle := requote_le _ _ _ _ hA1 hB2
    have := requote_dev _ _ _ _ hA2 hB1 hle hr
    omega

/-- partial close of a short at a spot price of at least 1 (and reserves ≥ one whole unit): the quote
    quoted for `a` base units buys back exactly `a` -/
theorem short_requote (D a x y N B : Nat) (hx : D ≤ x) (hp : y ≤ x)
    (hN : getOutputPrice D .removeFromAmm a x y = .ok N)
    (hB : getInputPrice D .addToAmm N x y = .ok B) : B = a := by
  by_cases ha0 : a = 0
  · subst ha0
    simp [getOutputPrice] at hN
    subst hN
    simp [getInputPrice] at hB
    omega
  obtain ⟨hD, hay, hA1, hA2⟩ := CurveNoFlip.gop_rem_char D a x y N ha0 hx hN
  by_cases hN0 : N = 0
  · exfalso
    subst hN0
    have hb := CurveNoFlip.N_bounds D x y hD
    have h1 : x * (y - a) = x * y - x * a := Nat.mul_sub x y a
    have h2 : x * a ≤ x * y := Nat.mul_le_mul_left x hay
    have h3 : x * 1 ≤ x * a := Nat.mul_le_mul_left x (by omega)
    simp only [Nat.add_zero] at hA1
    omega
  · obtain ⟨_, hBy, hB1, hB2⟩ := gip_add_char D N x y B hN0 hB
    have := requote_exact _ _ _ _ hA1 hA2 hB1 hB2 (by omega)
    omega

end Perp.Props.C15Requote
