/-
  G2 — engine / insurance fund / fee pool guard theorems (handler level; parts of C05, C09, C12,
  C14, C15, C16, C17, C20).  Statements were fixed before the proofs were written.
-/
import Perp.Model.World
import Perp.Lemmas.Basic
import Perp.Props.C19

namespace Perp.Props.EngineGuards
open Perp Perp.Engine

def isErr {α : Type} (e : Except Err α) : Prop := ∃ x, e = .error x
def isOk {α : Type} (e : Except Err α) : Prop := ∃ r, e = .ok r

/-! ### proof infrastructure -/

def Post {β : Type} (P : β → Prop) (x : Except Err β) : Prop := ∀ r, x = .ok r → P r

theorem Post_bind {α β : Type} {P : β → Prop} {x : Except Err α} {f : α → Except Err β}
    (h : ∀ v, x = .ok v → Post P (f v)) : Post P (x >>= f) := by
  intro r hr
  obtain ⟨v, hv, hf⟩ := (bind_ok_iff _ _ _).1 hr
  exact h v hv r hf

theorem Post_pure {β : Type} {P : β → Prop} {a : β} (h : P a) : Post P (pure a : Except Err β) := by
  intro r hr; cases hr; exact h

theorem Post_ok {β : Type} {P : β → Prop} {a : β} (h : P a) : Post P (.ok a : Except Err β) := by
  intro r hr; cases hr; exact h

theorem Post_error {β : Type} {P : β → Prop} {e : Err} : Post P (.error e : Except Err β) := by
  intro r hr; cases hr

theorem Post_bind_pure {α β : Type} {P : β → Prop} {a : α} {f : α → Except Err β}
    (h : Post P (f a)) : Post P ((pure a : Except Err α) >>= f) := h

theorem Post_bind_error {α β : Type} {P : β → Prop} {e : Err} {f : α → Except Err β} :
    Post P ((.error e : Except Err α) >>= f) := by
  intro r hr; cases hr

/-- walk a `do`-block: `leaf` closes the goals `P a` at the `pure a` leaves -/
macro "post_walk" "[" leaf:tactic "]" : tactic => `(tactic|
  repeat' first
    | (with_reducible exact Post_error)
    | (with_reducible exact Post_bind_error)
    | ((with_reducible apply Post_pure); $leaf)
    | ((with_reducible apply Post_ok); $leaf)
    | (with_reducible apply Post_bind_pure)
    | (with_reducible apply Post_bind; intro _ _)
    | split
    | (dsimp only []))

/-- peel the first bind off `h : (x >>= f) = .ok r` -/
macro "peel " h:ident v:ident hv:ident : tactic => `(tactic|
  (obtain ⟨$v:ident, $hv:ident, htmp⟩ := (bind_ok_iff _ _ _).1 $h; clear $h; have $h:ident := htmp; clear htmp))

theorem isErr_bind_left {α β : Type} (x : Except Err α) (f : α → Except Err β) (h : isErr x) :
    isErr (x >>= f) := by
  obtain ⟨e, rfl⟩ := h; exact ⟨e, rfl⟩

theorem isErr_bind_right {α β : Type} (x : Except Err α) (f : α → Except Err β)
    (h : ∀ v, x = .ok v → isErr (f v)) : isErr (x >>= f) := by
  cases x with
  | error e => exact ⟨e, rfl⟩
  | ok v => exact h v rfl

theorem paused_err (st : State) (hp : st.pause = true) : isErr (requireNotPaused st) :=
  ⟨.guard 54, by simp [requireNotPaused, hp]⟩

theorem isOk_bind {α β : Type} (x : Except Err α) (f : α → Except Err β) :
    isOk (x >>= f) ↔ ∃ v, x = .ok v ∧ isOk (f v) := by
  cases x <;> simp [isOk, bind, Except.bind]

theorem isOk_map {α β : Type} (x : Except Err α) (f : α → β) :
    isOk (f <$> x) ↔ isOk x := by
  cases x <;> simp [isOk]

theorem isOk_pure {α : Type} (a : α) : isOk (pure a : Except Err α) := ⟨a, rfl⟩
theorem isOk_ok {α : Type} (a : α) : isOk (.ok a : Except Err α) := ⟨a, rfl⟩
theorem isOk_error {α : Type} (e : Err) : ¬ isOk (.error e : Except Err α) := by simp [isOk]

theorem isOk_ite {α : Type} (c : Prop) [Decidable c] (a b : Except Err α) :
    isOk (if c then a else b) ↔ (c ∧ isOk a) ∨ (¬ c ∧ isOk b) := by
  split <;> simp [*]

theorem exists_ok_true {α : Type} (x : Except Err α) : (∃ v, x = .ok v ∧ True) ↔ isOk x := by
  simp [isOk]

theorem pl_isOk (q : Q) (c : Config) (st : State) (p : Nat) (w : List Nat) (ps : List Position)
    (vm : List (Nat × VammMap)) (ts : Option TmpSwap) (sf : Option SentFunds) (tl : Option Nat) (v t l : Nat) :
    isOk (partialLiquidation q ⟨c, st, p, w, ps, vm, ts, sf, tl⟩ v t l)
      ↔ isOk (partialLiquidation q ⟨c, ⟨0, 0, false⟩, p, w, ps, vm, ts, sf, tl⟩ v t l) := by
  unfold partialLiquidation
  simp only [isOk_bind, isOk_pure]
  exact Iff.rfl

theorem liq_isOk (q : Q) (e : E) (env : Env) (st : State) (s v t l : Nat) :
    isOk (liquidate q { e with st := st } env s v t l) ↔ isOk (liquidate q e env s v t l) := by
  unfold liquidate
  simp only [isOk_bind, isOk_pure, isOk_ite, isOk_error, exists_ok_true]
  rw [pl_isOk q e.cfg st, pl_isOk q e.cfg e.st]
  exact Iff.rfl

theorem unwrap_ok {α : Type} (x : Except Err α) (v : α) (h : unwrap x = .ok v) : x = .ok v := by
  cases x <;> simp [unwrap] at h ⊢; exact h

theorem exmap_ok {ε α β : Type} (f : α → β) (x : Except ε α) (r : β) :
    x.map f = .ok r ↔ ∃ v, x = .ok v ∧ f v = r := by
  cases x <;> simp [Except.map]

theorem Post_exmap {α β : Type} {P : β → Prop} {x : Except Err α} {g : α → β}
    (h : ∀ v, x = .ok v → P (g v)) : Post P (x.map g) := by
  intro r hr
  cases x with
  | error e => cases hr
  | ok v => cases hr; exact h v rfl


/-! ### C14: pause and closed / unregistered markets -/

theorem paused_rejects (q : Q) (e : E) (env : Env) (s : Nat) (f : Funds) (v : Nat) (side : Side)
    (m l b a : Nat) (hp : e.st.pause = true) :
    isErr (openPosition q e env s f v side m l b) ∧ isErr (closePosition q e env s v l)
      ∧ isErr (depositMargin e env s f v a) ∧ isErr (withdrawMargin q e env s v a) := by
  refine ⟨?_, ?_, ?_, ?_⟩
  · unfold openPosition
    exact isErr_bind_left _ _ (paused_err _ hp)
  · unfold closePosition
    exact isErr_bind_left _ _ (paused_err _ hp)
  · unfold depositMargin
    exact isErr_bind_left _ _ (paused_err _ hp)
  · unfold withdrawMargin
    refine isErr_bind_right _ _ fun _ _ => ?_
    exact isErr_bind_left _ _ (paused_err _ hp)

/-- liquidation and funding do not read the pause flag -/
theorem liquidate_ignores_pause (q : Q) (e : E) (env : Env) (s v t l : Nat) (b : Bool) :
    isOk (liquidate q { e with st := { e.st with pause := b } } env s v t l) ↔ isOk (liquidate q e env s v t l) := by
  exact liq_isOk q e env _ s v t l

theorem payFunding_ignores_pause (q : Q) (e : E) (v : Nat) (b : Bool) :
    isOk (payFunding q { e with st := { e.st with pause := b } } v) ↔ isOk (payFunding q e v) := by
  unfold payFunding
  simp only [isOk_bind, isOk_pure]

/-- a vAMM that is closed or not registered fails `require_vamm`, … -/
theorem requireVamm_ok (q : Q) (v : Nat) (h : requireVamm q v = .ok ()) :
    q.isVamm v = .ok true ∧ q.vammOpen v = .ok true := by
  unfold requireVamm at h
  simp at h
  exact h

/-- … and every operation that needs it is rejected -/
theorem needs_vamm (q : Q) (e : E) (env : Env) (s : Nat) (f : Funds) (v : Nat) (side : Side)
    (m l b a t : Nat) (hv : isErr (requireVamm q v)) :
    isErr (openPosition q e env s f v side m l b) ∧ isErr (liquidate q e env s v t l)
      ∧ isErr (withdrawMargin q e env s v a) ∧ isErr (payFunding q e v) := by
  refine ⟨?_, ?_, ?_, ?_⟩
  · unfold openPosition
    refine isErr_bind_right _ _ fun _ _ => ?_
    exact isErr_bind_left _ _ hv
  · rcases except_cases (liquidate q e env s v t l) with h | ⟨r, h⟩
    · exact h
    · have hp : Post (fun _ => ∃ u, requireVamm q v = .ok u) (liquidate q e env s v t l) := by
        unfold liquidate
        post_walk [exact ⟨_, ‹requireVamm q v = Except.ok _›⟩]
      obtain ⟨u, hu⟩ := hp _ h
      obtain ⟨x, hx⟩ := hv
      rw [hx] at hu
      cases hu
  · unfold withdrawMargin
    exact isErr_bind_left _ _ hv
  · unfold payFunding
    exact isErr_bind_left _ _ hv


/-! ### C16: restriction mode -/

theorem restricted_err (e : E) (v s h : Nat)
    (hr : (readVammMap e v).lastRestriction = h ∧ (readPosition e v s).block = h) :
    isErr (requireNotRestrictionMode e v s h) :=
  ⟨_, by unfold requireNotRestrictionMode; rw [if_pos hr]⟩

theorem restricted_rejects (q : Q) (e : E) (env : Env) (s : Nat) (f : Funds) (v : Nat) (side : Side)
    (m l b : Nat)
    (hr : (readVammMap e v).lastRestriction = env.height ∧ (readPosition e v s).block = env.height) :
    isErr (openPosition q e env s f v side m l b) ∧ isErr (closePosition q e env s v l) := by
  refine ⟨?_, ?_⟩
  · unfold openPosition
    refine isErr_bind_right _ _ fun _ _ => ?_
    refine isErr_bind_right _ _ fun _ _ => ?_
    exact isErr_bind_left _ _ (restricted_err _ _ _ _ hr)
  · unfold closePosition
    refine isErr_bind_right _ _ fun _ _ => ?_
    simp only []
    split
    · exact ⟨_, rfl⟩
    · exact isErr_bind_left _ _ (restricted_err _ _ _ _ hr)

theorem unrestricted_passes (e : E) (v s h : Nat)
    (hr : ¬ ((readVammMap e v).lastRestriction = h ∧ (readPosition e v s).block = h)) :
    requireNotRestrictionMode e v s h = .ok () := by
  unfold requireNotRestrictionMode; rw [if_neg hr]

theorem readVammMap_enter (e : E) (v h : Nat) :
    (readVammMap (enterRestrictionMode e v h) v).lastRestriction = h := by
  simp [readVammMap, storeVammMap, enterRestrictionMode]

theorem liquidateReply_restricts (q : Q) (e e' : E) (env : Env) (out : Nat) (msgs : List SubMsg) (sw : TmpSwap)
    (hs : e.tmpSwap = some sw) (h : liquidateReply q e env out = .ok (e', msgs)) :
    (readVammMap e' sw.vamm).lastRestriction = env.height := by
  have : Post (fun r => (readVammMap r.1 sw.vamm).lastRestriction = env.height) (liquidateReply q e env out) := by
    unfold liquidateReply
    rw [hs]
    repeat' first
      | (with_reducible exact Post_error)
      | (with_reducible exact Post_bind_error)
      | (with_reducible apply Post_pure; exact readVammMap_enter _ _ _)
      | (with_reducible apply Post_bind_pure)
      | (with_reducible apply Post_bind; intro _ _)
      | split
      | (dsimp only [])
  exact this _ h

theorem partialLiquidationReply_restricts (q : Q) (e e' : E) (env : Env) (i o : Nat) (msgs : List SubMsg)
    (sw : TmpSwap) (hs : e.tmpSwap = some sw) (h : partialLiquidationReply q e env i o = .ok (e', msgs)) :
    (readVammMap e' sw.vamm).lastRestriction = env.height := by
  have : Post (fun r => (readVammMap r.1 sw.vamm).lastRestriction = env.height) (partialLiquidationReply q e env i o) := by
    unfold partialLiquidationReply
    rw [hs]
    repeat' first
      | (with_reducible exact Post_error)
      | (with_reducible exact Post_bind_error)
      | (with_reducible apply Post_pure; exact readVammMap_enter _ _ _)
      | (with_reducible apply Post_bind_pure)
      | (with_reducible apply Post_bind; intro _ _)
      | split
      | (dsimp only [])
  exact this _ h


/-! ### C05: leverage bounds -/

theorem requireNonZero_ok (x : Nat) (u : Unit) : requireNonZero x = .ok u ↔ x ≠ 0 := by
  unfold requireNonZero; split <;> simp_all

theorem requireAdditionalMargin_pos (x b : Nat) (u : Unit) :
    requireAdditionalMargin (Integer.newPositive x) b = .ok u ↔ b ≤ x := by
  unfold requireAdditionalMargin
  have hlt := Perp.Props.C19.cmp_lt_iff (Integer.newPositive x) (Integer.newPositive b)
  simp only [Perp.Props.C19.toInt_newPositive] at hlt
  by_cases hc : Integer.lt (Integer.newPositive x) (Integer.newPositive b) = true
  · rw [if_pos hc]
    have h1 := hlt.1 (by simpa [Integer.lt] using hc)
    simp; omega
  · rw [if_neg hc]
    have h1 : ¬ ((x : Int) < b) := fun h => hc (by simpa [Integer.lt] using hlt.2 h)
    simp; omega

theorem open_leverage_bounds (q : Q) (e e' : E) (env : Env) (s : Nat) (f : Funds) (v : Nat) (side : Side)
    (m l b : Nat) (msgs : List SubMsg) (h : openPosition q e env s f v side m l b = .ok (e', msgs)) :
    e.cfg.decimals ≤ l ∧ e.cfg.imr ≤ e.cfg.decimals * e.cfg.decimals / l ∧ m ≠ 0 := by
  unfold openPosition at h
  peel h u hu
  peel h u hu
  peel h u hu
  peel h u hm
  peel h u hl
  split at h
  · cases h
  rename_i hlev
  peel h dd hdd
  peel h mr hmr
  peel h u ham
  rw [requireNonZero_ok] at hm
  rw [requireAdditionalMargin_pos] at ham
  simp at hdd hmr
  obtain ⟨_, rfl⟩ := hdd
  obtain ⟨_, rfl⟩ := hmr
  exact ⟨by omega, ham, hm⟩


/-! ### C15 / C17: what the engine asks of the vAMM -/

/-- an OpenPosition dispatches exactly one swap; opening / increasing / reducing swaps carry the
    caller's base limit unchanged and may not leave the price band -/
theorem openPosition_msgs (q : Q) (e e' : E) (env : Env) (s : Nat) (f : Funds) (v : Nat) (side : Side)
    (m l b : Nat) (msgs : List SubMsg) (h : openPosition q e env s f v side m l b = .ok (e', msgs)) :
    let p := getPosition env e v s side
    let N := m * l / e.cfg.decimals
    msgs = [swapInputMsg v side N b false REPLY_INCREASE]
    ∨ msgs = [swapInputMsg p.vamm side N b false REPLY_DECREASE]
    ∨ msgs = [swapOutputMsg p.vamm (directionToSide p.direction) p.size.value 0 REPLY_REVERSE] := by
  unfold openPosition at h
  peel h u hu
  peel h u hu
  peel h u hu
  peel h u hm
  peel h u hl
  split at h
  · cases h
  peel h dd hdd
  peel h mr hmr
  peel h u ham
  dsimp only [] at h
  peel h ml hml
  peel h N hN
  simp at hml hN
  obtain ⟨_, rfl⟩ := hml
  obtain ⟨_, rfl⟩ := hN
  intro p N
  split at h
  · simp at h
    obtain ⟨_, _, _, _, rfl⟩ := h
    exact Or.inl rfl
  · simp at h
    obtain ⟨a, _, _, h⟩ := h
    split at h
    · simp at h
      obtain ⟨_, _, _, _, rfl⟩ := h
      exact Or.inr (Or.inl rfl)
    · simp at h
      obtain ⟨_, _, _, _, rfl⟩ := h
      exact Or.inr (Or.inr rfl)

/-- a whole-position close carries the caller's quote limit unchanged -/
theorem closePosition_msgs (q : Q) (e e' : E) (env : Env) (s v l : Nat) (msgs : List SubMsg)
    (h : closePosition q e env s v l = .ok (e', msgs)) :
    let p := readPosition e v s
    msgs = [swapOutputMsg p.vamm (directionToSide p.direction) p.size.value l REPLY_CLOSE]
    ∨ (∃ n, msgs = [swapInputMsg p.vamm (positionToSide p.size) n 0 true REPLY_PARTIAL_CLOSE]
        ∧ q.isOverFluct v (if Integer.gt p.size Integer.zero then .addToAmm else .removeFromAmm) p.size.value = .ok true
        ∧ e.cfg.plr < e.cfg.decimals) := by
  unfold closePosition at h
  dsimp only [] at h
  peel h u hu
  split at h
  · cases h
  peel h u hr
  peel h over hover
  intro p
  split at h
  · rename_i hc
    right
    peel h x hx
    peel h pa hpa
    peel h pn hpn
    peel h pp hpp
    obtain ⟨a, b⟩ := pp
    simp at h
    obtain ⟨_, rfl⟩ := h
    refine ⟨pn, rfl, ?_, hc.2⟩
    rw [hover, hc.1]
  · left
    simp [internalClosePosition] at h
    exact h.2.symm

def NoSwapIn (m : SubMsg) : Prop := ∀ a d x lim g, m.msg ≠ .vammSwapInput a d x lim g

theorem transferFromMsg_noSwap (c : Config) (o r a : Nat) : NoSwapIn (transferFromMsg c o r a) := by
  intro _ _ _ _ _; unfold transferFromMsg; split <;> simp

theorem transferMsg_noSwap (c : Config) (r a : Nat) : NoSwapIn (transferMsg c r a) := by
  intro _ _ _ _ _; unfold transferMsg; split <;> simp

theorem transferFees_noSwap (q : Q) (e : E) (src v N : Nat) (x : List SubMsg × Nat × Nat)
    (h : transferFees q e src v N = .ok x) : ∀ m ∈ x.1, NoSwapIn m := by
  unfold transferFees at h
  peel h y hy
  obtain ⟨t, sp⟩ := y
  simp at h
  subst h
  intro m hm
  simp only [List.mem_append] at hm
  rcases hm with hm | hm <;> split at hm <;> simp at hm <;> subst hm <;> exact transferFromMsg_noSwap _ _ _ _

def LegOK (m : SubMsg) : Prop :=
  ∀ a d x lim g, m.msg = .vammSwapInput a d x lim g → g = false ∧ m.id = REPLY_INCREASE

theorem leg_leaf (fm : List SubMsg) (X : SubMsg) (h1 : ∀ m ∈ fm, NoSwapIn m)
    (h2 : NoSwapIn X ∨ ∃ v s n, X = swapInputMsg v s n 0 false REPLY_INCREASE) :
    ∀ m ∈ fm ++ [X], LegOK m := by
  intro m hm a d x lim g hmsg
  simp only [List.mem_append, List.mem_singleton] at hm
  rcases hm with hm | rfl
  · exact absurd hmsg (h1 m hm _ _ _ _ _)
  · rcases h2 with h2 | ⟨v, s, n, rfl⟩
    · exact absurd hmsg (h2 _ _ _ _ _)
    · simp [swapInputMsg] at hmsg ⊢
      exact hmsg.2.2.2.2

/-- the second leg of a reversal may not leave the band either -/
theorem reverse_second_leg (q : Q) (e e' : E) (env : Env) (out : Nat) (msgs : List SubMsg)
    (h : reversePositionReply q e env out = .ok (e', msgs)) :
    ∀ m ∈ msgs, ∀ a d x lim g, m.msg = .vammSwapInput a d x lim g → g = false ∧ m.id = REPLY_INCREASE := by
  have : Post (fun r => ∀ m ∈ r.2, LegOK m) (reversePositionReply q e env out) := by
    unfold reversePositionReply
    post_walk [(
      have hx := unwrap_ok _ _ ‹unwrap (transferFees _ _ _ _ _) = Except.ok _›
      have hfm := transferFees_noSwap _ _ _ _ _ _ hx
      first
        | exact leg_leaf _ _ hfm (Or.inl (transferMsg_noSwap _ _ _))
        | exact leg_leaf _ _ hfm (Or.inr ⟨_, _, _, rfl⟩))]
  exact this _ h


/-! ### C12: shape of the fee transfers -/

theorem transferFees_spec (q : Q) (e : E) (src v N : Nat) (msgs : List SubMsg) (spread toll : Nat)
    (h : transferFees q e src v N = .ok (msgs, spread, toll)) :
    q.calcFee v N = .ok (toll, spread)
    ∧ msgs = (if spread ≠ 0 then [transferFromMsg e.cfg src e.cfg.insuranceFund spread] else [])
           ++ (if toll ≠ 0 then [transferFromMsg e.cfg src e.cfg.feePool toll] else []) := by
  unfold transferFees at h
  peel h x hx
  obtain ⟨t, sp⟩ := x
  simp at h
  obtain ⟨rfl, rfl, rfl⟩ := h
  exact ⟨hx, by simp⟩


/-! ### C20: caps and configuration bounds -/

def ConfigOK (c : Config) : Prop :=
  c.imr ≤ c.decimals ∧ c.mmr ≤ c.decimals ∧ c.plr ≤ c.decimals ∧ c.liqFee ≤ c.decimals ∧ c.mmr ≤ c.imr

def Keep (c w : Config) : Prop := w.decimals = c.decimals ∧ w.owner = c.owner ∧ (ConfigOK c → ConfigOK w)

theorem Keep.refl (c : Config) : Keep c c := ⟨rfl, rfl, id⟩
theorem Keep.trans {a b c : Config} (h1 : Keep a b) (h2 : Keep b c) : Keep a c :=
  ⟨h2.1.trans h1.1, h2.2.1.trans h1.2.1, fun h => h2.2.2 (h1.2.2 h)⟩

theorem validateRatio_ok (x D : Nat) (u : Unit) : validateRatio x D = .ok u ↔ x ≤ D := by
  unfold validateRatio; split <;> simp <;> omega

theorem validateMarginRatios_ok (i m : Nat) (u : Unit) : validateMarginRatios i m = .ok u ↔ m ≤ i := by
  unfold validateMarginRatios; split <;> simp <;> omega

theorem updateConfig_all (e e' : E) (s : Nat) (u : ConfigUpdate)
    (h : updateConfig e s u = .ok e') :
    s = e.cfg.owner ∧ e'.cfg.decimals = e.cfg.decimals ∧ (ConfigOK e.cfg → ConfigOK e'.cfg)
      ∧ e'.cfg.owner = u.owner.getD e.cfg.owner := by
  unfold updateConfig at h
  split at h
  · cases h
  rename_i hs
  refine ⟨by simpa using hs, ?_⟩
  extract_lets c0 c1 c2 c3 j3 j2 j1 j0 at h
  have e3 : c3.decimals = e.cfg.decimals ∧ (ConfigOK e.cfg → ConfigOK c3) ∧ c3.owner = u.owner.getD e.cfg.owner := by
    simp only [c3, c2, c1, c0]
    cases u.owner <;> cases u.insuranceFund <;> cases u.feePool <;> exact ⟨rfl, id, rfl⟩
  clear_value c3
  have p3 : ∀ c w, j3 c = .ok w → Keep c w.cfg := by
    intro c w hw
    simp [j3] at hw
    subst hw
    exact Keep.refl _
  clear_value j3
  have p2 : ∀ c w, j2 c = .ok w → Keep c w.cfg := by
    intro c w hw
    simp only [j2] at hw
    split at hw <;> simp [validateRatio_ok] at hw
    · refine Keep.trans ?_ (p3 _ _ hw.2)
      refine ⟨rfl, rfl, ?_⟩; simp only [ConfigOK] at *; omega
    · exact p3 _ _ hw
  clear_value j2
  have p1 : ∀ c w, j1 c = .ok w → Keep c w.cfg := by
    intro c w hw
    simp only [j1] at hw
    split at hw <;> simp [validateRatio_ok] at hw
    · refine Keep.trans ?_ (p2 _ _ hw.2)
      refine ⟨rfl, rfl, ?_⟩; simp only [ConfigOK] at *; omega
    · exact p2 _ _ hw
  clear_value j1
  have p0 : ∀ c w, j0 c = .ok w → Keep c w.cfg := by
    intro c w hw
    simp only [j0] at hw
    split at hw <;> simp [validateRatio_ok, validateMarginRatios_ok] at hw
    · refine Keep.trans ?_ (p1 _ _ hw.2.2)
      refine ⟨rfl, rfl, ?_⟩; simp only [ConfigOK] at *; omega
    · exact p1 _ _ hw
  clear_value j0
  have fin : ∀ c, Keep c3 c → Keep c e'.cfg →
      e'.cfg.decimals = e.cfg.decimals ∧ (ConfigOK e.cfg → ConfigOK e'.cfg) ∧ e'.cfg.owner = u.owner.getD e.cfg.owner := by
    intro c k1 k2
    have k := Keep.trans k1 k2
    exact ⟨k.1.trans e3.1, fun h => k.2.2 (e3.2.1 h), k.2.1.trans e3.2.2⟩
  split at h <;> simp [validateRatio_ok, validateMarginRatios_ok] at h
  · refine fin _ ?_ (p0 _ _ h.2.2)
    refine ⟨rfl, rfl, ?_⟩; simp only [ConfigOK] at *; omega
  · exact fin _ (Keep.refl _) (p0 _ _ h)

theorem updateConfig_configOK (e e' : E) (s : Nat) (u : ConfigUpdate) (hc : ConfigOK e.cfg)
    (h : updateConfig e s u = .ok e') : ConfigOK e'.cfg ∧ e'.cfg.decimals = e.cfg.decimals := by
  have := updateConfig_all e e' s u h
  exact ⟨this.2.2.1 hc, this.2.1⟩

theorem partialLiquidation_cfg (q : Q) (e : E) (v t l : Nat) :
    Post (fun r => r.1.cfg = e.cfg) (partialLiquidation q e v t l) := by
  unfold partialLiquidation
  post_walk [rfl]

theorem openPosition_cfg (q : Q) (e : E) (env : Env) (s : Nat) (f : Funds) (v : Nat) (side : Side) (m l b : Nat) :
    Post (fun r => r.1.cfg = e.cfg) (openPosition q e env s f v side m l b) := by
  unfold openPosition
  post_walk [rfl]

theorem closePosition_cfg (q : Q) (e : E) (env : Env) (s v l : Nat) :
    Post (fun r => r.1.cfg = e.cfg) (closePosition q e env s v l) := by
  unfold closePosition
  post_walk [rfl]

theorem liquidate_cfg (q : Q) (e : E) (env : Env) (s v t l : Nat) :
    Post (fun r => r.1.cfg = e.cfg) (liquidate q e env s v t l) := by
  unfold liquidate
  post_walk [first | rfl | (rename_i hpl; have hc := partialLiquidation_cfg _ _ _ _ _ _ hpl; exact hc)]

theorem payFunding_cfg (q : Q) (e : E) (v : Nat) :
    Post (fun r => r.1.cfg = e.cfg) (payFunding q e v) := by
  unfold payFunding
  post_walk [rfl]

theorem depositMargin_cfg (e : E) (env : Env) (s : Nat) (f : Funds) (v a : Nat) :
    Post (fun r => r.1.cfg = e.cfg) (depositMargin e env s f v a) := by
  unfold depositMargin
  post_walk [rfl]

theorem withdrawMargin_cfg (q : Q) (e : E) (env : Env) (s v a : Nat) :
    Post (fun r => r.1.cfg = e.cfg) (withdrawMargin q e env s v a) := by
  unfold withdrawMargin
  post_walk [rfl]

theorem updatePauser_cfg (e : E) (s n : Nat) : Post (fun r => r.cfg = e.cfg) (updatePauser e s n) := by
  unfold updatePauser
  post_walk [rfl]

theorem addWhitelist_cfg (e : E) (s n : Nat) : Post (fun r => r.cfg = e.cfg) (addWhitelist e s n) := by
  unfold addWhitelist
  post_walk [rfl]

theorem removeWhitelist_cfg (e : E) (s n : Nat) : Post (fun r => r.cfg = e.cfg) (removeWhitelist e s n) := by
  unfold removeWhitelist
  post_walk [rfl]

theorem setPause_cfg (e : E) (s : Nat) (p : Bool) : Post (fun r => r.cfg = e.cfg) (setPause e s p) := by
  unfold setPause
  post_walk [rfl]

/-- no other entry point (execute or reply) changes the configuration -/
theorem execute_cfg (q : Q) (e e' : E) (env : Env) (s : Nat) (f : Funds) (m : ExecMsg) (msgs : List SubMsg)
    (hm : ∀ u, m ≠ .updateConfig u) (h : execute q e env s f m = .ok (e', msgs)) : e'.cfg = e.cfg := by
  have : Post (fun r => r.1.cfg = e.cfg) (execute q e env s f m) := by
    unfold execute
    cases m with
    | updateConfig u => exact absurd rfl (hm u)
    | updatePauser p => exact Post_exmap (updatePauser_cfg _ _ _)
    | addWhitelist a => exact Post_exmap (addWhitelist_cfg _ _ _)
    | removeWhitelist a => exact Post_exmap (removeWhitelist_cfg _ _ _)
    | setPause p => exact Post_exmap (setPause_cfg _ _ _)
    | openPosition v sd m l b => exact openPosition_cfg _ _ _ _ _ _ _ _ _ _
    | closePosition v l => exact closePosition_cfg _ _ _ _ _ _
    | liquidate v t l => exact liquidate_cfg _ _ _ _ _ _ _
    | payFunding v => exact payFunding_cfg _ _ _
    | depositMargin v a => exact depositMargin_cfg _ _ _ _ _ _
    | withdrawMargin v a => exact withdrawMargin_cfg _ _ _ _ _ _
  exact this _ h

theorem appendCum_cfg (e e1 : E) (v : Nat) (pf : Integer) (h : appendCum e v pf = .ok e1) : e1.cfg = e.cfg := by
  have : Post (fun r => r.cfg = e.cfg) (appendCum e v pf) := by
    unfold appendCum
    post_walk [rfl]
  exact this _ h

theorem updatePositionReply_cfg (q : Q) (e : E) (env : Env) (i o id : Nat) :
    Post (fun r => r.1.cfg = e.cfg) (updatePositionReply q e env i o id) := by
  unfold updatePositionReply
  post_walk [rfl]

theorem reversePositionReply_cfg (q : Q) (e : E) (env : Env) (o : Nat) :
    Post (fun r => r.1.cfg = e.cfg) (reversePositionReply q e env o) := by
  unfold reversePositionReply
  post_walk [rfl]

theorem closePositionReply_cfg (q : Q) (e : E) (env : Env) (o : Nat) :
    Post (fun r => r.1.cfg = e.cfg) (closePositionReply q e env o) := by
  unfold closePositionReply
  post_walk [rfl]

theorem partialClosePositionReply_cfg (q : Q) (e : E) (env : Env) (i o : Nat) :
    Post (fun r => r.1.cfg = e.cfg) (partialClosePositionReply q e env i o) := by
  unfold partialClosePositionReply
  post_walk [rfl]

theorem liquidateReply_cfg (q : Q) (e : E) (env : Env) (o : Nat) :
    Post (fun r => r.1.cfg = e.cfg) (liquidateReply q e env o) := by
  unfold liquidateReply
  post_walk [rfl]

theorem partialLiquidationReply_cfg (q : Q) (e : E) (env : Env) (i o : Nat) :
    Post (fun r => r.1.cfg = e.cfg) (partialLiquidationReply q e env i o) := by
  unfold partialLiquidationReply
  post_walk [rfl]

theorem payFundingReply_cfg (q : Q) (e : E) (env : Env) (pf : Integer) (v : Nat) :
    Post (fun r => r.1.cfg = e.cfg) (payFundingReply q e env pf v) := by
  unfold payFundingReply
  post_walk [(exact appendCum_cfg _ _ _ _ (by assumption))]

theorem replyOk_cfg (q : Q) (e e' : E) (env : Env) (id : Nat) (ev : Ev) (msgs : List SubMsg)
    (h : replyOk q e env id ev = .ok (e', msgs)) : e'.cfg = e.cfg := by
  have : Post (fun r => r.1.cfg = e.cfg) (replyOk q e env id ev) := by
    unfold replyOk
    repeat' split
    all_goals try dsimp only []
    all_goals first
      | (with_reducible exact Post_error)
      | (with_reducible exact payFundingReply_cfg _ _ _ _ _)
      | (with_reducible exact updatePositionReply_cfg _ _ _ _ _ _)
      | (with_reducible exact reversePositionReply_cfg _ _ _ _)
      | (with_reducible exact closePositionReply_cfg _ _ _ _)
      | (with_reducible exact partialClosePositionReply_cfg _ _ _ _ _)
      | (with_reducible exact liquidateReply_cfg _ _ _ _)
      | (with_reducible exact partialLiquidationReply_cfg _ _ _ _ _)
  exact this _ h

theorem oi_cap (q : Q) (e : E) (st st' : State) (v : Nat) (amount : Integer) (trader hc cap : Nat)
    (h : updateOpenInterest q e st v amount trader = .ok st') (hq : q.vammCaps v = .ok (hc, cap))
    (hcap : cap ≠ 0) (hpos : amount.isPositive = true) (hw : e.whitelist.contains trader = false) :
    st'.oi ≤ cap := by
  unfold updateOpenInterest at h
  rw [hq] at h
  peel h x hx
  cases hx
  try dsimp only [] at h
  peel h upd hupd
  try dsimp only [] at h
  have hU : (if upd.isNegative = true then Integer.zero else upd).isNegative = false := by
    split
    · rfl
    · rename_i hn; simpa using hn
  generalize (if upd.isNegative = true then Integer.zero else upd) = U at h hU
  split at h
  · cases h
  rename_i hc
  simp at h
  subst h
  simp only []
  have hg : ¬ (Integer.gt U (Integer.newPositive cap) = true) := by
    intro hg
    exact hc ⟨⟨hcap, hpos, hg⟩, by rw [hw]; exact Bool.false_ne_true⟩
  have hgt := Perp.Props.C19.cmp_gt_iff U (Integer.newPositive cap)
  rw [Perp.Props.C19.toInt_newPositive] at hgt
  have hle : ¬ (Integer.toInt U > (cap : Int)) := by
    intro hh
    exact hg (by simpa [Integer.gt] using hgt.2 hh)
  simp only [Integer.toInt, hU] at hle
  simp at hle
  omega

theorem holding_cap (q : Q) (e : E) (v size trader hc cap : Nat)
    (h : checkHoldingCap q e v size trader = .ok ()) (hq : q.vammCaps v = .ok (hc, cap))
    (hcap : hc ≠ 0) (hw : e.whitelist.contains trader = false) : size ≤ hc := by
  unfold checkHoldingCap at h
  rw [hq] at h
  peel h x hx
  cases hx
  try dsimp only [] at h
  split at h
  · cases h
  rename_i hn
  by_cases hs : size ≤ hc
  · exact hs
  · exact absurd ⟨⟨hcap, by omega⟩, by rw [hw]; exact Bool.false_ne_true⟩ hn

/-- registry of the insurance fund: no duplicates, at most three, only decimals-compatible vAMMs -/
def RegOK (s : Insurance.S) : Prop := s.vamms.Nodup ∧ s.vamms.length ≤ 3

theorem addVamm_spec (s s' : Insurance.S) (sender v : Nat) (ed vd : Except Err Nat) (hr : RegOK s)
    (h : Insurance.addVamm s sender v ed vd = .ok s') :
    RegOK s' ∧ sender = s.owner ∧ (∃ d, ed = .ok d ∧ vd = .ok d) ∧ s'.vamms = s.vamms ++ [v] ∧ s'.owner = s.owner := by
  unfold Insurance.addVamm at h
  split at h
  · cases h
  rename_i hs
  peel h d1 hd1
  peel h d2 hd2
  split at h
  · cases h
  rename_i hd
  split at h
  · cases h
  rename_i hcon
  split at h
  · cases h
  rename_i hlen
  simp at h
  subst h
  simp only [Insurance.VAMM_LIMIT] at hlen
  have hd' : d1 = d2 := by simpa using hd
  subst hd'
  refine ⟨⟨?_, ?_⟩, by simpa using hs, ⟨d1, hd1, hd2⟩, rfl, rfl⟩
  · simp only []
    rw [List.nodup_append]
    refine ⟨hr.1, by simp, ?_⟩
    intro a ha b hb
    simp at hb hcon
    subst hb
    intro hab; subst hab; exact hcon ha
  · simp; omega

theorem go_spec (x last : Nat) (hne : last ≠ x) : ∀ (l : List Nat), x ∈ l → l.Nodup → last ∉ l →
    (Insurance.swapRemove.go x last l).Nodup ∧ x ∉ Insurance.swapRemove.go x last l
      ∧ (∀ y, y ≠ x → (y ∈ Insurance.swapRemove.go x last l ↔ (y ∈ l ∨ y = last)))
      ∧ (Insurance.swapRemove.go x last l).length = l.length := by
  intro l
  induction l with
  | nil => intro hx; cases hx
  | cons y ys ih =>
    intro hx hn hl
    rw [List.nodup_cons] at hn
    simp only [List.mem_cons, not_or] at hl
    unfold Insurance.swapRemove.go
    split
    · rename_i hy
      subst hy
      refine ⟨List.nodup_cons.2 ⟨hl.2, hn.2⟩, ?_, ?_, by simp⟩
      · simp only [List.mem_cons, not_or]
        exact ⟨fun h => hne h.symm, hn.1⟩
      · intro z hz
        simp only [List.mem_cons]
        constructor
        · rintro (h | h)
          · exact Or.inr h
          · exact Or.inl (Or.inr h)
        · rintro ((h | h) | h)
          · exact absurd h hz
          · exact Or.inr h
          · exact Or.inl h
    · rename_i hy
      have hx' : x ∈ ys := by
        simp only [List.mem_cons] at hx
        rcases hx with h | h
        · exact absurd h.symm hy
        · exact h
      obtain ⟨i1, i2, i3, i4⟩ := ih hx' hn.2 hl.2
      refine ⟨List.nodup_cons.2 ⟨?_, i1⟩, ?_, ?_, by simp [i4]⟩
      · rw [i3 y hy]
        rintro (h | h)
        · exact hn.1 h
        · exact hl.1 h.symm
      · simp only [List.mem_cons, not_or]
        exact ⟨fun h => hy h.symm, i2⟩
      · intro z hz
        simp only [List.mem_cons, i3 z hz]
        constructor
        · rintro (h | h | h)
          · exact Or.inl (Or.inl h)
          · exact Or.inl (Or.inr h)
          · exact Or.inr h
        · rintro ((h | h) | h)
          · exact Or.inl h
          · exact Or.inr (Or.inl h)
          · exact Or.inr (Or.inr h)

theorem swapRemove_spec (l : List Nat) (x : Nat) (hn : l.Nodup) (hx : x ∈ l) :
    (Insurance.swapRemove l x).Nodup ∧ (Insurance.swapRemove l x).length ≤ l.length
      ∧ x ∉ Insurance.swapRemove l x ∧ (∀ y, y ≠ x → (y ∈ Insurance.swapRemove l x ↔ y ∈ l)) := by
  unfold Insurance.swapRemove
  split
  · rename_i hlast
    simp at hlast
    subst hlast
    cases hx
  · rename_i last hlast
    obtain ⟨ys, rfl⟩ := List.getLast?_eq_some_iff.1 hlast
    simp only [List.dropLast_concat]
    rw [List.nodup_append] at hn
    obtain ⟨hys, _, hdis⟩ := hn
    have hlast_notin : last ∉ ys := fun h => hdis last h last (by simp) rfl
    split
    · rename_i hc
      obtain ⟨rfl, hc2⟩ := hc
      refine ⟨hys, by simp, hlast_notin, ?_⟩
      intro y hy
      simp [hy]
    · rename_i hc
      by_cases hlx : last = x
      · subst hlx
        exact absurd ⟨rfl, by simpa using hlast_notin⟩ hc
      · have hx' : x ∈ ys := by
          simp only [List.mem_append, List.mem_singleton] at hx
          rcases hx with h | h
          · exact h
          · exact absurd h.symm hlx
        obtain ⟨i1, i2, i3, i4⟩ := go_spec x last hlx ys hx' hys hlast_notin
        refine ⟨i1, by simp [i4], i2, ?_⟩
        intro y hy
        rw [i3 y hy]
        simp

theorem removeVamm_spec (s s' : Insurance.S) (sender v : Nat) (hr : RegOK s)
    (h : Insurance.removeVamm s sender v = .ok s') :
    RegOK s' ∧ sender = s.owner ∧ v ∉ s'.vamms ∧ (∀ x, x ≠ v → (x ∈ s'.vamms ↔ x ∈ s.vamms)) := by
  unfold Insurance.removeVamm at h
  split at h
  · cases h
  rename_i hs
  split at h
  · cases h
  split at h
  · cases h
  rename_i hc
  injection h with h
  subst h
  have hv : v ∈ s.vamms := by simpa using hc
  obtain ⟨i1, i2, i3, i4⟩ := swapRemove_spec s.vamms v hr.1 hv
  exact ⟨⟨i1, Nat.le_trans i2 hr.2⟩, by simpa using hs, i3, i4⟩


/-! ### C09: roles of the engine, the insurance fund and the fee pool -/

theorem engine_roles (e e' : E) (s : Nat) :
    (∀ u, updateConfig e s u = .ok e' → s = e.cfg.owner)
    ∧ (∀ n, updatePauser e s n = .ok e' → s = e.pauser ∧ e'.pauser = n)
    ∧ (∀ a, addWhitelist e s a = .ok e' → s = e.pauser)
    ∧ (∀ a, removeWhitelist e s a = .ok e' → s = e.pauser)
    ∧ (∀ p, setPause e s p = .ok e' → s = e.pauser ∧ e'.st.pause = p ∧ e.st.pause ≠ p) := by
  refine ⟨fun u h => (updateConfig_all e e' s u h).1, ?_, ?_, ?_, ?_⟩
  · intro n h
    unfold updatePauser at h
    split at h
    · cases h
    · rename_i hs
      injection h with h; subst h
      exact ⟨by simpa using hs, rfl⟩
  · intro a h
    unfold addWhitelist at h
    split at h
    · cases h
    · rename_i hs; simpa using hs
  · intro a h
    unfold removeWhitelist at h
    split at h
    · cases h
    · rename_i hs; simpa using hs
  · intro p h
    unfold setPause at h
    split at h
    · cases h
    · rename_i hs
      injection h with h; subst h
      have hs' : s = e.pauser ∧ ¬ e.st.pause = p := by
        by_cases h1 : s = e.pauser <;> by_cases h2 : e.st.pause = p <;> simp_all
      exact ⟨hs'.1, rfl, hs'.2⟩

theorem engine_owner_transfer (e e' : E) (s n : Nat) (u : ConfigUpdate) (hu : u.owner = some n)
    (h : updateConfig e s u = .ok e') : e'.cfg.owner = n := by
  have := (updateConfig_all e e' s u h).2.2.2
  rw [hu] at this
  exact this

theorem insurance_roles (s s' : Insurance.S) (x : Nat) :
    (∀ n, Insurance.updateOwner s x n = .ok s' → x = s.owner ∧ s'.owner = n ∧ s'.vamms = s.vamms) := by
  intro n h
  unfold Insurance.updateOwner at h
  split at h
  · cases h
  · rename_i hs
    injection h with h; subst h
    exact ⟨by simpa using hs, rfl, rfl⟩

theorem feepool_roles (s s' : FeePool.S) (x : Nat) :
    (∀ t, FeePool.addToken s x t = .ok s' → x = s.owner)
    ∧ (∀ t, FeePool.removeToken s x t = .ok s' → x = s.owner)
    ∧ (∀ n, FeePool.updateOwner s x n = .ok s' → x = s.owner ∧ s'.owner = n) := by
  refine ⟨?_, ?_, ?_⟩
  · intro t h
    unfold FeePool.addToken at h
    split at h
    · cases h
    · rename_i hs; simpa using hs
  · intro t h
    unfold FeePool.removeToken at h
    split at h
    · cases h
    · rename_i hs; simpa using hs
  · intro n h
    unfold FeePool.updateOwner at h
    split at h
    · cases h
    · rename_i hs
      injection h with h; subst h
      exact ⟨by simpa using hs, rfl⟩

theorem execMsg_ifWithdraw (fuel : Nat) (w : World) (s amt : Nat) (r : World × Ev)
    (h : World.execMsg fuel w s (.ifWithdraw amt) = .ok r) : s = w.ifund.engine := by
  cases fuel with
  | zero => unfold World.execMsg at h; cases h
  | succ n =>
    unfold World.execMsg at h
    dsimp only [] at h
    split at h
    · cases h
    split at h
    · cases h
    rename_i hs
    simpa using hs

/-- world level: the insurance fund pays out only on the engine's request, the fee pool only on its
    owner's, an emergency shutdown only for the fund's owner -/
theorem world_roles (w w' : World) (env : Env) (s : Nat) (f : Funds) :
    (∀ amt, World.applyTx w env s f (.ifWithdraw amt) = .ok w' → s = w.ifund.engine)
    ∧ (∀ t amt to, World.applyTx w env s f (.fpSend t amt to) = .ok w' → s = w.feePool.owner)
    ∧ (World.applyTx w env s f .ifShutdown = .ok w' → s = w.ifund.owner ∨ s = IFUND) := by
  refine ⟨?_, ?_, ?_⟩
  · intro amt h
    unfold World.applyTx at h
    dsimp only [] at h
    rw [exmap_ok] at h
    obtain ⟨r, hr, _⟩ := h
    have := execMsg_ifWithdraw _ _ _ _ _ hr
    exact this
  · intro t amt to h
    unfold World.applyTx at h
    dsimp only [] at h
    split at h
    · cases h
    split at h
    · cases h
    rename_i hs
    simpa using hs
  · intro h
    unfold World.applyTx at h
    dsimp only [] at h
    split at h
    · cases h
    rename_i hs
    by_cases h1 : s = w.ifund.owner
    · exact Or.inl h1
    · by_cases h2 : s = IFUND
      · exact Or.inr h2
      · exact absurd ⟨h1, h2⟩ hs


end Perp.Props.EngineGuards
