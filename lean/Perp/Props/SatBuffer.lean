/-
  SatBuffer — the invariant `BufferHalf` used by `sat_C11` (a vAMM's funding buffer is half its funding
  period) is preserved by every transaction: no message of any contract writes `funding_period` or
  `funding_buffer_period` of a vAMM.
-/
import Perp.Props.SatC11

namespace Perp.Props.SatBuffer
open Perp Perp.World Perp.Engine
open Perp.Props.Dispatch Perp.Props.MirrorP

/-- no vAMM appeared, and every vAMM kept its two funding-schedule parameters -/
def FK (w w' : World) : Prop :=
  ∀ a x', w'.vamm? a = some x' → ∃ x, w.vamm? a = some x
    ∧ x'.cfg.fundingBuffer = x.cfg.fundingBuffer ∧ x'.cfg.fundingPeriod = x.cfg.fundingPeriod

theorem FK.refl (w : World) : FK w w := fun _ x' h => ⟨x', h, rfl, rfl⟩

theorem FK.trans {a b c : World} (h1 : FK a b) (h2 : FK b c) : FK a c := by
  intro v x'' hx''
  obtain ⟨x', hx', e1, e2⟩ := h2 v x'' hx''
  obtain ⟨x, hx, f1, f2⟩ := h1 v x' hx'
  exact ⟨x, hx, e1.trans f1, e2.trans f2⟩

theorem FK_of_vamms {w w' : World} (h : ∀ a, w'.vamm? a = w.vamm? a) : FK w w' := by
  intro a x' hx'
  rw [h a] at hx'
  exact ⟨x', hx', rfl, rfl⟩

theorem FK_setVamm (w : World) (a : Nat) (v v' : Vamm.V) (hv : w.vamm? a = some v)
    (h1 : v'.cfg.fundingBuffer = v.cfg.fundingBuffer) (h2 : v'.cfg.fundingPeriod = v.cfg.fundingPeriod) :
    FK w (w.setVamm a v') := by
  intro b x' hx'
  by_cases hab : b = a
  · subst hab
    rw [setVamm_vamm_same _ _ _ _ hv] at hx'
    cases hx'
    exact ⟨v, hv, h1, h2⟩
  · rw [setVamm_vamm_ne _ _ _ _ hab] at hx'
    exact ⟨x', hx', rfl, rfl⟩

theorem exec_FK (fuel : Nat) :
    (∀ w s m w' ev, execMsg fuel w s m = .ok (w', ev) → FK w w')
    ∧ (∀ w c subs w', execSubs fuel w c subs = .ok w' → FK w w') := by
  induction fuel with
  | zero =>
    constructor
    · intro w s m w' ev h; unfold execMsg at h; cases h
    · intro w c subs w' h; unfold execSubs at h; cases h
  | succ fuel ih =>
    constructor
    · intro w s m w' ev h
      cases m with
      | vammSwapInput a d x l g =>
        obtain ⟨v, v', o, hv, hsw, rfl, _⟩ := execMsg_swapInput_inv _ _ _ _ _ _ _ _ _ _ h
        obtain ⟨_, hc, _⟩ := swapInput_net _ _ _ _ _ _ _ _ _ hsw
        exact FK_setVamm _ _ _ _ hv (by rw [hc]) (by rw [hc])
      | vammSwapOutput a d x l =>
        obtain ⟨v, v', o, hv, hsw, rfl, _⟩ := execMsg_swapOutput_inv _ _ _ _ _ _ _ _ _ h
        obtain ⟨_, hc, _⟩ := swapOutput_net _ _ _ _ _ _ _ _ hsw
        exact FK_setVamm _ _ _ _ hv (by rw [hc]) (by rw [hc])
      | vammSettle a =>
        obtain ⟨v, v', pf, hv, hsw, rfl, _⟩ := execMsg_settle_inv _ _ _ _ _ _ h
        obtain ⟨_, _, _, h4⟩ := C01.settle_keep _ _ _ _ _ _ hsw
        exact FK_setVamm _ _ _ _ hv (by rw [h4]) (by rw [h4])
      | vammSetOpen a o =>
        obtain ⟨v, v', hv, hsw, rfl⟩ := execMsg_setOpen_inv _ _ _ _ _ _ _ h
        obtain ⟨_, _, _, h4⟩ := C01.setOpen_keep _ _ _ _ _ hsw
        exact FK_setVamm _ _ _ _ hv (by rw [h4]) (by rw [h4])
      | tokenTransfer to amt =>
        exact FK_of_vamms (execMsg_coll_frame _ _ _ _ (.tokenTransfer to amt) _ trivial h).2
      | tokenTransferFrom owner to amt =>
        exact FK_of_vamms (execMsg_coll_frame _ _ _ _ (.tokenTransferFrom owner to amt) _ trivial h).2
      | bankSend to amt => exact FK_of_vamms (execMsg_coll_frame _ _ _ _ (.bankSend to amt) _ trivial h).2
      | ifWithdraw amt => exact FK_of_vamms (execMsg_coll_frame _ _ _ _ (.ifWithdraw amt) _ trivial h).2
    · intro w c subs w' h
      cases subs with
      | nil =>
        unfold execSubs at h
        simp at h
        subst h
        exact FK.refl _
      | cons sm rest =>
        obtain ⟨w1, ev, hx, hyes, hno⟩ := execSubs_cons_ok fuel w w' c sm rest h
        have h1 := ih.1 _ _ _ _ _ hx
        by_cases hr : sm.replyOn = .always ∨ sm.replyOn = .success
        · obtain ⟨_, e2, subs2, w3, _, hs2, hrest⟩ := hyes hr
          have h2 : FK w1 w3 := by
            have := ih.2 _ _ _ _ hs2
            exact this
          exact FK.trans h1 (FK.trans h2 (ih.2 _ _ _ _ hrest))
        · exact FK.trans h1 (ih.2 _ _ _ _ (hno hr))

/-- `update_config` of a vAMM never writes the funding period or the funding buffer -/
theorem updateConfig_funding_keep (v v' : Vamm.V) (s : Nat) (u : Vamm.ConfigUpdate)
    (h : Vamm.updateConfig v s u = .ok v') :
    v'.cfg.fundingBuffer = v.cfg.fundingBuffer ∧ v'.cfg.fundingPeriod = v.cfg.fundingPeriod := by
  unfold Vamm.updateConfig at h
  split at h
  · simp at h
  · extract_lets c0 c1 c2 c3 c4 j3 j2 j1 j0 at h
    have e4 : c4.fundingBuffer = v.cfg.fundingBuffer ∧ c4.fundingPeriod = v.cfg.fundingPeriod := by
      simp only [c4, c3, c2, c1, c0]
      cases u.holdingCap <;> cases u.oiCap <;> cases u.marginEngine <;> cases u.insuranceFund <;> exact ⟨rfl, rfl⟩
    clear_value c4
    have p3 : ∀ c w, j3 c = .ok w → w.cfg.fundingBuffer = c.fundingBuffer ∧ w.cfg.fundingPeriod = c.fundingPeriod := by
      intro c w hw
      simp [j3] at hw
      subst hw
      exact ⟨rfl, rfl⟩
    clear_value j3
    have p2 : ∀ c w, j2 c = .ok w → w.cfg.fundingBuffer = c.fundingBuffer ∧ w.cfg.fundingPeriod = c.fundingPeriod := by
      intro c w hw
      simp only [j2] at hw
      revert hw
      cases u.pricefeed <;> cases u.twapInterval <;> intro hw <;> simp only [] at hw <;>
        (try split at hw) <;> (try simp at hw) <;> (have := p3 _ _ hw; exact this)
    clear_value j2
    have p1 : ∀ c w, j1 c = .ok w → w.cfg.fundingBuffer = c.fundingBuffer ∧ w.cfg.fundingPeriod = c.fundingPeriod := by
      intro c w hw
      simp only [j1] at hw
      split at hw <;> simp at hw
      · (have := p2 _ _ hw.2; exact this)
      · exact p2 _ _ hw
    clear_value j1
    have p0 : ∀ c w, j0 c = .ok w → w.cfg.fundingBuffer = c.fundingBuffer ∧ w.cfg.fundingPeriod = c.fundingPeriod := by
      intro c w hw
      simp only [j0] at hw
      split at hw <;> simp at hw
      · (have := p1 _ _ hw.2; exact this)
      · exact p1 _ _ hw
    clear_value j0
    split at h <;> simp at h
    · have := p0 _ _ h.2
      exact ⟨this.1.trans e4.1, this.2.trans e4.2⟩
    · have := p0 _ _ h
      exact ⟨this.1.trans e4.1, this.2.trans e4.2⟩

theorem applyTx_FK (w w' : World) (env : Env) (s : Nat) (f : Funds) (tx : Tx)
    (h : applyTx w env s f tx = .ok w') : FK w w' := by
  have hm : ∀ (w0 : World) m, (execMsg FUEL w0 s m).map (·.1) = .ok w' → FK w0 w' := by
    intro w0 m h'
    rw [exmap_ok] at h'
    obtain ⟨⟨w1, ev⟩, h', rfl⟩ := h'
    exact (exec_FK FUEL).1 _ _ _ _ _ h'
  have hsub : ∀ (w0 : World) c subs, execSubs FUEL w0 c subs = .ok w' → FK w0 w' :=
    fun w0 c subs h' => (exec_FK FUEL).2 _ _ _ _ h'
  have hsame : ∀ w0 : World, w0.vamms = w.vamms → FK w w0 := by
    intro w0 h0
    apply FK_of_vamms
    intro a
    rw [vamm?_of_vamms h0]
  have hleft : ∀ w0 : World, FK w0 w' → w0.vamms = w.vamms → FK w w' :=
    fun w0 hk h0 => FK.trans (hsame w0 h0) hk
  by_cases hne : ∃ m, tx = .engine m
  · obtain ⟨m, rfl⟩ := hne
    obtain ⟨w1, e1, subs, _, _, a3, _, _, _, _, hrun⟩ := WorldInv.applyTx_engine_inv w w' env s f m h
    exact hleft { w1 with engine := e1 } (hsub _ _ _ hrun) a3
  unfold applyTx at h
  cases tx <;> dsimp only at h
  case engine m => exact absurd ⟨m, rfl⟩ hne
  case vammSwapInput v dir amt lim cgo => exact hleft _ (hm _ _ h) rfl
  case vammSwapOutput v dir amt lim => exact hleft _ (hm _ _ h) rfl
  case vammSettle v => exact hleft _ (hm _ _ h) rfl
  case vammSetOpen v o => exact hleft _ (hm _ _ h) rfl
  case vammConfig v u =>
    simp at h
    obtain ⟨x, hx, x', hx', rfl⟩ := h
    obtain ⟨k1, k2⟩ := updateConfig_funding_keep _ _ _ _ hx'
    exact hleft _ (FK_setVamm _ _ _ _ ((vammE_ok _ _ _).1 hx) k1 k2) rfl
  case vammOwner v n =>
    simp at h
    obtain ⟨x, hx, x', hx', rfl⟩ := h
    obtain ⟨_, rfl⟩ := VammGuards.updateOwner_inv _ _ _ _ hx'
    exact hleft _ (FK_setVamm _ _ _ _ ((vammE_ok _ _ _).1 hx) rfl rfl) rfl
  case ifAdd v =>
    simp at h
    obtain ⟨_, _, rfl⟩ := h
    exact hsame _ rfl
  case ifRemove v =>
    simp at h
    obtain ⟨_, _, rfl⟩ := h
    exact hsame _ rfl
  case ifShutdown =>
    split at h
    · cases h
    · split at h
      · cases h
      · exact hleft _ (hsub _ _ _ h) rfl
  case ifWithdraw amt => exact hleft _ (hm _ _ h) rfl
  case ifOwner n =>
    simp at h
    obtain ⟨_, _, rfl⟩ := h
    exact hsame _ rfl
  case fpAdd tok =>
    simp at h
    obtain ⟨_, _, rfl⟩ := h
    exact hsame _ rfl
  case fpRemove tok =>
    simp at h
    obtain ⟨_, _, rfl⟩ := h
    exact hsame _ rfl
  case fpSend tok amt to =>
    repeat' split at h
    all_goals first | exact hleft _ (hsub _ _ _ h) rfl | cases h
  case fpOwner n =>
    simp at h
    obtain ⟨_, _, rfl⟩ := h
    exact hsame _ rfl
  case oracle price ts =>
    split at h
    · injection h with h; subst h; exact hsame _ rfl
    · simp at h
      obtain ⟨_, _, rfl⟩ := h
      exact hsame _ rfl
  case feedOwner n =>
    split at h
    · split at h
      · cases h
      · injection h with h; subst h; exact hsame _ rfl
    · simp at h
      obtain ⟨_, _, rfl⟩ := h
      exact hsame _ rfl
  case tokenApprove amt =>
    repeat' split at h
    all_goals first | (injection h with h; subst h; exact hsame _ rfl) | cases h
  case tokenDecrease amt =>
    repeat' split at h
    all_goals first | (injection h with h; subst h; exact hsame _ rfl) | cases h
  case tokenTransfer to amt =>
    split at h
    · cases h
    · exact hleft _ (hm _ _ h) rfl
  case bankSend to amt =>
    split at h
    · cases h
    · exact hleft _ (hm _ _ h) rfl

/-- **`BufferHalf` is an invariant**: every transaction of every kind, by any sender, preserves it
    (and a failed transaction changes no vAMM) -/
theorem bufferHalf_step (w : World) (env : Env) (s : Nat) (f : Funds) (tx : Tx)
    (hb : SatC11.BufferHalf w) : SatC11.BufferHalf (step w env s f tx) := by
  unfold step
  split
  · rename_i w' h
    intro a x' hx'
    obtain ⟨x, hx, e1, e2⟩ := applyTx_FK w w' env s f tx h a x' hx'
    rw [e1, e2]
    exact hb a x hx
  · exact hb

end Perp.Props.SatBuffer
