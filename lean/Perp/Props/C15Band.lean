/-
  C15Band — the vAMM-level band lemmas of Perp/Props/C15.lean re-stated for the revised `Spec.C15.band`
  (undefined when the reference snapshot is not from an earlier block).  The band-free lemmas are copied
  unchanged; every lemma that mentioned `band` now takes `band … = some bd` as a hypothesis.
-/
import Perp.Model.VammRun
import Perp.Spec.Vamm
import Perp.Lemmas.Basic

namespace Perp.Props.C15B
open Perp Perp.Vamm Perp.Spec.C15

theorem priceOf_ok (D q b r : Nat) (h : priceOf D q b = .ok r) : b ≠ 0 ∧ r = spot D q b := by
  unfold priceOf at h
  simp at h
  obtain ⟨x, ⟨_, hx⟩, hb, hr⟩ := h
  subst hx
  exact ⟨hb, hr⟩

/-- the boundary computation from a given reference snapshot -/
def bounds (cfg : Config) (l : Snapshot) : Except Err (Nat × Nat) := do
  let last ← priceOf cfg.decimals l.quote l.base
  let up ← cadd cfg.decimals cfg.fluct
  let upper ← (do let x ← cmul last up; cdiv x cfg.decimals)
  let dn ← csub cfg.decimals cfg.fluct
  let lower ← (do let x ← cmul last dn; cdiv x cfg.decimals)
  pure (upper, lower)

theorem bounds_ok (cfg : Config) (l : Snapshot) (up lo : Nat) (h : bounds cfg l = .ok (up, lo)) :
    l.base ≠ 0 ∧ cfg.decimals ≠ 0 ∧
      up = l.quote * cfg.decimals / l.base * (cfg.decimals + cfg.fluct) / cfg.decimals ∧
      lo = l.quote * cfg.decimals / l.base * (cfg.decimals - cfg.fluct) / cfg.decimals := by
  unfold bounds at h
  simp at h
  obtain ⟨p, hp, a, ⟨_, ha⟩, x, ⟨_, hx⟩, u, ⟨hD, hu⟩, d, ⟨_, hd⟩, y, ⟨_, hy⟩, ⟨_, hlo⟩, hup⟩ := h
  obtain ⟨hb, hp⟩ := priceOf_ok _ _ _ _ hp
  subst hp ha hx hu hd hy hlo hup
  exact ⟨hb, hD, rfl, rfl⟩

theorem priceBoundaries_ref (cfg : Config) (snaps : List Snapshot) (env : Env) (r : Nat × Nat)
    (h : priceBoundaries cfg snaps env = .ok r) :
    ∃ l, refSnapshot snaps env.height = some l ∧ bounds cfg l = .ok r := by
  unfold priceBoundaries at h
  cases snaps with
  | nil => simp at h
  | cons s rest =>
    cases rest with
    | nil => exact ⟨s, rfl, h⟩
    | cons s2 t =>
      simp only [refSnapshot]
      by_cases hh : s.height = env.height
      · simp only [hh, if_true] at h ⊢
        exact ⟨s2, rfl, h⟩
      · simp only [hh, if_false] at h ⊢
        exact ⟨s, rfl, h⟩

/-- where the specification's band is defined it is the contract's pair of boundaries -/
theorem priceBoundaries_band (cfg : Config) (snaps : List Snapshot) (env : Env) (r bd : Nat × Nat)
    (h : priceBoundaries cfg snaps env = .ok r)
    (hb : band cfg.decimals cfg.fluct snaps env.height = some bd) : r = bd := by
  obtain ⟨up, lo⟩ := r
  obtain ⟨l, hl, hbo⟩ := priceBoundaries_ref cfg snaps env _ h
  obtain ⟨_, _, hu, hlo⟩ := bounds_ok cfg l up lo hbo
  unfold band at hb
  rw [hl] at hb
  simp only [] at hb
  split at hb
  · cases hb
  · injection hb with hb
    rw [← hb, hu, hlo]

/-- a defined band refers to a snapshot of an earlier block -/
theorem band_ref (D f : Nat) (snaps : List Snapshot) (h : Nat) (bd : Nat × Nat)
    (hb : band D f snaps h = some bd) : ∃ l, refSnapshot snaps h = some l ∧ l.height < h := by
  unfold band at hb
  cases hr : refSnapshot snaps h with
  | none => rw [hr] at hb; cases hb
  | some l =>
    rw [hr] at hb
    simp only [] at hb
    split at hb
    · cases hb
    · rename_i hc
      exact ⟨l, rfl, by omega⟩

/-- a trade in the block does not move the reference snapshot of a defined band -/
theorem refSnapshot_add (snaps : List Snapshot) (env : Env) (q b : Nat) (l : Snapshot)
    (hr : refSnapshot snaps env.height = some l) (hl : l.height < env.height) :
    refSnapshot (addSnapshot snaps env q b) env.height = some l := by
  cases snaps with
  | nil => cases hr
  | cons s rest =>
    cases rest with
    | nil =>
      simp only [refSnapshot] at hr
      injection hr with hr
      subst hr
      have : ¬ s.height = env.height := by omega
      simp [addSnapshot, this, refSnapshot]
    | cons s2 t =>
      simp only [refSnapshot] at hr
      by_cases hh : s.height = env.height
      · simp only [hh, if_true] at hr
        simp [addSnapshot, hh, refSnapshot, hr]
      · simp only [hh, if_false] at hr
        simp [addSnapshot, hh, refSnapshot, hr]

theorem band_add (D f : Nat) (snaps : List Snapshot) (env : Env) (q b : Nat) (bd : Nat × Nat)
    (hb : band D f snaps env.height = some bd) :
    band D f (addSnapshot snaps env q b) env.height = some bd := by
  obtain ⟨l, hr, hl⟩ := band_ref _ _ _ _ _ hb
  unfold band at hb ⊢
  rw [hr] at hb
  rw [refSnapshot_add snaps env q b l hr hl]
  exact hb

theorem updateReserve_snaps (v v' : V) (env : Env) (dir : Direction) (qa ba : Nat) (cgo : Bool)
    (h : updateReserve v env dir qa ba cgo = .ok v') :
    v'.cfg = v.cfg ∧ ∃ q b, v'.st.snaps = addSnapshot v.st.snaps env q b := by
  unfold updateReserve at h
  simp at h
  obtain ⟨_, h⟩ := h
  cases dir <;> simp at h
  · obtain ⟨q, _, b, _, n, _, h⟩ := h
    subst h
    exact ⟨rfl, _, _, rfl⟩
  · obtain ⟨b, _, q, _, n, _, h⟩ := h
    subst h
    exact ⟨rfl, _, _, rfl⟩

theorem inside_iff (D : Nat) (bd : Nat × Nat) (q b : Nat) :
    inside D bd q b = true ↔ (spot D q b ≤ bd.1 ∧ bd.2 ≤ spot D q b) := by
  simp [inside]

theorem not_inside_eq (D : Nat) (bd : Nat × Nat) (q b : Nat) :
    (!(inside D bd q b)) = (!decide (spot D q b ≤ bd.1) || !decide (bd.2 ≤ spot D q b)) := by
  simp [inside]

def postQ (dir : Direction) (q qa : Nat) : Nat :=
  match dir with | .addToAmm => q + qa | .removeFromAmm => q - qa
def postB (dir : Direction) (b ba : Nat) : Nat :=
  match dir with | .addToAmm => b - ba | .removeFromAmm => b + ba

theorem checkFluctuation_ok (v : V) (env : Env) (dir : Direction) (qa ba : Nat) (cgo : Bool)
    (hf : v.cfg.fluct ≠ 0) (h : checkFluctuation v env dir qa ba cgo = .ok ()) :
    ∃ bd, priceBoundaries v.cfg v.st.snaps env = .ok bd
      ∧ inside v.cfg.decimals bd v.st.quote v.st.base = true
      ∧ (cgo = false →
          inside v.cfg.decimals bd (postQ dir v.st.quote qa) (postB dir v.st.base ba) = true) := by
  unfold checkFluctuation at h
  simp only [hf, if_false] at h
  simp at h
  obtain ⟨up, lo, hpb, cur, hcur, h⟩ := h
  obtain ⟨_, hcur⟩ := priceOf_ok _ _ _ _ hcur
  subst hcur
  refine ⟨(up, lo), hpb, ?_⟩
  split at h
  · cases h
  · rename_i hg
    refine ⟨by rw [inside_iff]; simp only []; omega, ?_⟩
    intro hc
    simp only [hc, if_true] at h
    cases dir <;> simp at h <;>
      obtain ⟨q, ⟨_, hq⟩, x, ⟨_, hx⟩, b, ⟨_, hb⟩, p, ⟨_, hp⟩, h⟩ := h <;>
      subst hq hx hb hp <;> split at h
    · cases h
    · rename_i hg2
      simp only [not_or, Nat.not_lt] at hg2
      rw [inside_iff]
      simpa [spot, postQ, postB] using hg2
    · cases h
    · rename_i hg2
      simp only [not_or, Nat.not_lt] at hg2
      rw [inside_iff]
      simpa [spot, postQ, postB] using hg2

theorem updateReserve_ok (v v' : V) (env : Env) (dir : Direction) (qa ba : Nat) (cgo : Bool)
    (h : updateReserve v env dir qa ba cgo = .ok v') :
    checkFluctuation v env dir qa ba cgo = .ok () ∧
      v'.st.quote = postQ dir v.st.quote qa ∧ v'.st.base = postB dir v.st.base ba := by
  unfold updateReserve at h
  simp at h
  obtain ⟨⟨x, hx⟩, h⟩ := h
  refine ⟨hx, ?_⟩
  cases dir <;> simp at h
  · obtain ⟨q, ⟨_, hq⟩, b, ⟨_, hb⟩, n, _, h⟩ := h
    subst h hq hb
    exact ⟨rfl, rfl⟩
  · obtain ⟨b, ⟨_, hb⟩, q, ⟨_, hq⟩, n, _, h⟩ := h
    subst h hq hb
    exact ⟨rfl, rfl⟩

theorem swapInput_ok (v v' : V) (env : Env) (s : Nat) (dir : Direction) (amt lim : Nat) (cgo : Bool)
    (o : SwapOut) (h : swapInput v env s dir amt lim cgo = .ok (v', o)) :
    ∃ ba, updateReserve v env dir amt ba cgo = .ok v' := by
  unfold swapInput at h
  simp at h
  obtain ⟨_, _, h⟩ := h
  split at h
  · simp at h
    obtain ⟨w, hw, h, _⟩ := h
    subst h
    exact ⟨_, hw⟩
  · simp at h
    obtain ⟨b, _, h⟩ := h
    repeat' split at h
    all_goals simp at h
    all_goals
      obtain ⟨w, hw, h, _⟩ := h
      subst h
      exact ⟨_, hw⟩

theorem swapOutput_ok (v v' : V) (env : Env) (s : Nat) (dir : Direction) (amt lim : Nat)
    (o : SwapOut) (h : swapOutput v env s dir amt lim = .ok (v', o)) :
    ∃ qa, queryOutputAmount v dir amt = .ok qa ∧
      updateReserve v env dir.flip qa amt true = .ok v' := by
  unfold swapOutput at h
  simp at h
  obtain ⟨_, _, h⟩ := h
  split at h
  · rename_i h0
    simp at h
    obtain ⟨w, hw, h, _⟩ := h
    subst h
    exact ⟨0, by simp [queryOutputAmount, getOutputPrice, h0], hw⟩
  · simp at h
    obtain ⟨q, hq, h⟩ := h
    repeat' split at h
    all_goals simp at h
    all_goals
      obtain ⟨w, hw, h, _⟩ := h
      subst h
      exact ⟨_, hq, hw⟩

theorem checkFluctuation_band (v : V) (env : Env) (dir : Direction) (qa ba : Nat) (cgo : Bool)
    (hf : v.cfg.fluct ≠ 0) (bd : Nat × Nat)
    (hb : band v.cfg.decimals v.cfg.fluct v.st.snaps env.height = some bd)
    (h : checkFluctuation v env dir qa ba cgo = .ok ()) :
    priceBoundaries v.cfg v.st.snaps env = .ok bd
      ∧ inside v.cfg.decimals bd v.st.quote v.st.base = true
      ∧ (cgo = false →
          inside v.cfg.decimals bd (postQ dir v.st.quote qa) (postB dir v.st.base ba) = true) := by
  obtain ⟨bd', hpb, h1, h2⟩ := checkFluctuation_ok v env dir qa ba cgo hf h
  have := priceBoundaries_band _ _ _ _ _ hpb hb
  subst this
  exact ⟨hpb, h1, h2⟩

/-- a successful swap keeps the band of the block (same reference snapshot, same configuration) -/
theorem updateReserve_band (v v' : V) (env : Env) (dir : Direction) (qa ba : Nat) (cgo : Bool) (bd : Nat × Nat)
    (hb : band v.cfg.decimals v.cfg.fluct v.st.snaps env.height = some bd)
    (h : updateReserve v env dir qa ba cgo = .ok v') :
    band v'.cfg.decimals v'.cfg.fluct v'.st.snaps env.height = some bd := by
  obtain ⟨hc, q, b, hs⟩ := updateReserve_snaps _ _ _ _ _ _ _ h
  rw [hc, hs]
  exact band_add _ _ _ _ _ _ _ hb

theorem swapInput_inside_band (v v' : V) (env : Env) (s : Nat) (dir : Direction) (amt lim : Nat)
    (o : SwapOut) (hf : v.cfg.fluct ≠ 0) (bd : Nat × Nat)
    (hb : band v.cfg.decimals v.cfg.fluct v.st.snaps env.height = some bd)
    (h : swapInput v env s dir amt lim false = .ok (v', o)) :
    inside v.cfg.decimals bd v.st.quote v.st.base = true
      ∧ inside v.cfg.decimals bd v'.st.quote v'.st.base = true := by
  obtain ⟨ba, hu⟩ := swapInput_ok _ _ _ _ _ _ _ _ _ h
  obtain ⟨hc, hq, hb'⟩ := updateReserve_ok _ _ _ _ _ _ _ hu
  obtain ⟨_, h1, h2⟩ := checkFluctuation_band _ _ _ _ _ _ hf bd hb hc
  refine ⟨h1, ?_⟩
  rw [hq, hb']
  exact h2 rfl

theorem swapInput_band (v v' : V) (env : Env) (s : Nat) (dir : Direction) (amt lim : Nat) (cgo : Bool)
    (o : SwapOut) (bd : Nat × Nat)
    (hb : band v.cfg.decimals v.cfg.fluct v.st.snaps env.height = some bd)
    (h : swapInput v env s dir amt lim cgo = .ok (v', o)) :
    v'.cfg = v.cfg ∧ band v'.cfg.decimals v'.cfg.fluct v'.st.snaps env.height = some bd := by
  obtain ⟨ba, hu⟩ := swapInput_ok _ _ _ _ _ _ _ _ _ h
  exact ⟨(updateReserve_snaps _ _ _ _ _ _ _ hu).1, updateReserve_band _ _ _ _ _ _ _ _ hb hu⟩

theorem swapOutput_band (v v' : V) (env : Env) (s : Nat) (dir : Direction) (amt lim : Nat)
    (o : SwapOut) (bd : Nat × Nat)
    (hb : band v.cfg.decimals v.cfg.fluct v.st.snaps env.height = some bd)
    (h : swapOutput v env s dir amt lim = .ok (v', o)) :
    v'.cfg = v.cfg ∧ band v'.cfg.decimals v'.cfg.fluct v'.st.snaps env.height = some bd := by
  obtain ⟨qa, _, hu⟩ := swapOutput_ok _ _ _ _ _ _ _ _ h
  exact ⟨(updateReserve_snaps _ _ _ _ _ _ _ hu).1, updateReserve_band _ _ _ _ _ _ _ _ hb hu⟩

theorem swapOutput_started_inside (v v' : V) (env : Env) (s : Nat) (dir : Direction) (amt lim : Nat)
    (o : SwapOut) (hf : v.cfg.fluct ≠ 0) (bd : Nat × Nat)
    (hb : band v.cfg.decimals v.cfg.fluct v.st.snaps env.height = some bd)
    (h : swapOutput v env s dir amt lim = .ok (v', o)) :
    inside v.cfg.decimals bd v.st.quote v.st.base = true := by
  obtain ⟨qa, _, hu⟩ := swapOutput_ok _ _ _ _ _ _ _ _ h
  obtain ⟨hc, _, _⟩ := updateReserve_ok _ _ _ _ _ _ _ hu
  exact (checkFluctuation_band _ _ _ _ _ _ hf bd hb hc).2.1

theorem isOverFluctuation_spec (v v' : V) (env : Env) (s : Nat) (dir : Direction) (amt : Nat) (r : Bool)
    (o : SwapOut) (hf : v.cfg.fluct ≠ 0) (bd : Nat × Nat)
    (hb : band v.cfg.decimals v.cfg.fluct v.st.snaps env.height = some bd)
    (hq : queryIsOverFluctuationLimit v env dir amt = .ok r)
    (hs : swapOutput v env s dir amt 0 = .ok (v', o)) :
    r = !(inside v.cfg.decimals bd v'.st.quote v'.st.base) := by
  obtain ⟨qa, hqa, hu⟩ := swapOutput_ok _ _ _ _ _ _ _ _ hs
  obtain ⟨hc, hq', hb'⟩ := updateReserve_ok _ _ _ _ _ _ _ hu
  obtain ⟨hpb, _, _⟩ := checkFluctuation_band _ _ _ _ _ _ hf bd hb hc
  unfold queryIsOverFluctuationLimit at hq
  simp only [hf, if_false] at hq
  rw [hpb, hqa] at hq
  rw [hq', hb']
  cases dir <;> simp at hq <;>
    obtain ⟨q, ⟨_, hq1⟩, x, ⟨_, hx⟩, b, ⟨_, hb1⟩, p, ⟨_, hp⟩, hr⟩ := hq <;>
    subst hq1 hx hb1 hp hr <;>
    rw [not_inside_eq] <;> rfl

theorem isOverFluctuation_zero_limit (v : V) (env : Env) (dir : Direction) (amt : Nat)
    (hf : v.cfg.fluct = 0) : queryIsOverFluctuationLimit v env dir amt = .ok false := by
  simp [queryIsOverFluctuationLimit, hf]

end Perp.Props.C15B
