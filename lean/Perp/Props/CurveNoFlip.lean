/-
  G7a — curve lemmas behind "a reducing trade never flips a position" (used by C02 / C06).
  Statements were fixed before the proofs were written.
-/
import Perp.Model.Vamm
import Perp.Lemmas.Basic
import Perp.Props.C01

namespace Perp.Props.CurveNoFlip
open Perp Perp.Vamm

/-! ### helper lemmas -/

/-- `N = ⌊x·y/D⌋·D` lies in `(x·y − D, x·y]` -/
theorem N_bounds (D x y : Nat) (hD : D ≠ 0) : x * y / D * D ≤ x * y ∧ x * y < x * y / D * D + D := by
  have h1 := Nat.div_add_mod (x * y) D
  have h2 := Nat.mod_lt (x * y) (Nat.pos_of_ne_zero hD)
  rw [Nat.mul_comm D] at h1
  omega

/-- `get_input_price`, quote removed: if the pool side `(x - n)·(y + t)` already covers `N` (and `t ≥ 1`),
    the base owed is at most `t`; the "abs" branch only ever yields 0 or 1 -/
theorem gip_rem_le (D n x y B t : Nat) (hn : n ≠ 0) (hy : D ≤ y)
    (h : getInputPrice D .removeFromAmm n x y = .ok B) (ht : 1 ≤ t)
    (hN : x * y / D * D ≤ (x - n) * (y + t)) : B ≤ t := by
  unfold getInputPrice at h
  simp [hn, Perp.Props.C01.modulo_ok] at h
  obtain ⟨_, ⟨_, rfl⟩, _, ⟨hD, rfl⟩, _, ⟨hax, rfl⟩, _, ⟨_, rfl⟩, _, ⟨hx', rfl⟩, _, ⟨_, _, rfl⟩, h⟩ := h
  have hb := N_bounds D x y hD
  generalize x * y / D * D = N at *
  have h1 := Nat.div_add_mod N (x - n)
  have h2 := Nat.mod_lt N (Nat.pos_of_ne_zero hx')
  have hq : N / (x - n) ≤ y + t := Nat.div_le_of_le_mul hN
  have hq' : N % (x - n) ≠ 0 → N / (x - n) < y + t := by
    intro hr
    apply Nat.lt_of_not_le
    intro hc
    have := Nat.mul_le_mul_left (x - n) hc
    omega
  have hq'' : y ≤ N / (x - n) := by
    apply Nat.le_of_not_lt
    intro hc
    have h3 := Nat.mul_le_mul_left (x - n) (Nat.succ_le_of_lt hc)
    rw [Nat.mul_succ] at h3
    have h4 : (x - n) * y ≤ (x - 1) * y := Nat.mul_le_mul_right y (by omega)
    have h5 : (x - 1) * y = x * y - y := by rw [Nat.sub_mul, Nat.one_mul]
    omega
  generalize N / (x - n) = q at *
  generalize N % (x - n) = r at *
  split at h
  · simp at h
    split at h <;> omega
  · simp at h
    split at h <;> omega

/-- `get_output_price`, base removed, reserves ≥ one whole unit: `x + Q` is exactly `⌈N / (y - s)⌉` -/
theorem gop_rem_char (D s x y Q : Nat) (hs : s ≠ 0) (hx : D ≤ x)
    (h : getOutputPrice D .removeFromAmm s x y = .ok Q) :
    D ≠ 0 ∧ s ≤ y ∧ x * y / D * D ≤ (x + Q) * (y - s) ∧ (x + Q) * (y - s) < x * y / D * D + (y - s) := by
  unfold getOutputPrice at h
  simp [hs, Perp.Props.C01.modulo_ok] at h
  obtain ⟨_, ⟨_, rfl⟩, _, ⟨hD, rfl⟩, _, ⟨hay, rfl⟩, _, ⟨_, rfl⟩, _, ⟨hy', rfl⟩, _, ⟨_, _, rfl⟩, h⟩ := h
  have hb := N_bounds D x y hD
  generalize x * y / D * D = N at *
  refine ⟨hD, hay, ?_⟩
  have h1 := Nat.div_add_mod N (y - s)
  have h2 := Nat.mod_lt N (Nat.pos_of_ne_zero hy')
  have hxy : x * (y - s) < N := by
    have h3 : x * (y - s + 1) ≤ x * y := Nat.mul_le_mul_left x (by omega)
    rw [Nat.mul_succ] at h3
    omega
  rw [Nat.mul_comm x] at hxy
  have hq : x ≤ N / (y - s) := by
    apply Nat.le_of_not_lt
    intro hc
    have h3 := Nat.mul_le_mul_left (y - s) (Nat.succ_le_of_lt hc)
    rw [Nat.mul_succ] at h3
    omega
  rw [Nat.mul_comm (x + Q)]
  generalize hqq : N / (y - s) = q at *
  generalize hrr : N % (y - s) = r at *
  generalize y - s = w at *
  have key : ∀ e, (e = 0 ∧ r = 0 ∨ e = 1 ∧ r ≠ 0) → x + Q = q + e →
      N ≤ w * (x + Q) ∧ w * (x + Q) < N + w := by
    intro e he hxQ
    rw [hxQ, Nat.mul_add]
    rcases he with ⟨rfl, hr⟩ | ⟨rfl, hr⟩ <;> omega
  split at h
  · simp at h
    split at h
    · exact key 0 (by omega) (by omega)
    · have : q = x := by omega
      subst this
      omega
  · simp at h
    split at h
    · exact key 1 (by omega) (by omega)
    · exact key 1 (by omega) (by omega)

/-! ### the theorems -/

-- each fixed statement carries both `hx` and `hy`; every proof needs only one of them
set_option linter.unusedVariables false

/-- long position of `s` base units: closing it whole would pay `Q` quote; selling for a smaller
    quote notional `n < Q` takes at most `s` base out of the position -/
theorem reduce_long_no_flip (D s n x y Q B : Nat) (hx : D ≤ x) (hy : D ≤ y)
    (hQ : getOutputPrice D .addToAmm s x y = .ok Q) (hn : n < Q)
    (hB : getInputPrice D .removeFromAmm n x y = .ok B) : B ≤ s := by
  by_cases hn0 : n = 0
  · subst hn0
    simp [getInputPrice] at hB
    omega
  by_cases hs0 : s = 0
  · subst hs0
    simp [getOutputPrice] at hQ
    omega
  obtain ⟨_, hQx, hk⟩ := Perp.Props.C01.gop_add D s x y Q hs0 hQ
  refine gip_rem_le D n x y B s hn0 hy hB (by omega) ?_
  exact Nat.le_trans hk (Nat.mul_le_mul_right _ (by omega))

/-- short position of `s` base units: closing it whole would cost `Q` quote; buying for a smaller
    quote notional `n < Q` returns at most `s` base -/
theorem reduce_short_no_flip (D s n x y Q B : Nat) (hx : D ≤ x) (hy : D ≤ y)
    (hQ : getOutputPrice D .removeFromAmm s x y = .ok Q) (hn : n < Q)
    (hB : getInputPrice D .addToAmm n x y = .ok B) : B ≤ s := by
  by_cases hn0 : n = 0
  · subst hn0
    simp [getInputPrice] at hB
    omega
  by_cases hs0 : s = 0
  · subst hs0
    simp [getOutputPrice] at hQ
    omega
  obtain ⟨_, hsy, _, h2⟩ := gop_rem_char D s x y Q hs0 hx hQ
  obtain ⟨_, hBy, h3⟩ := Perp.Props.C01.gip_add D n x y B hn0 hB
  apply Nat.le_of_not_lt
  intro hc
  have h4 := Nat.mul_le_mul_left (x + n) (show y - B + 1 ≤ y - s by omega)
  rw [Nat.mul_succ] at h4
  have h5 : (x + n + 1) * (y - s) ≤ (x + Q) * (y - s) := Nat.mul_le_mul_right _ (by omega)
  rw [Nat.succ_mul] at h5
  omega

/-- partial close of a long: the quote notional quoted for `a ≤ s` base units buys back at most `a` -/
theorem partial_long_no_overshoot (D a x y Q B : Nat) (hx : D ≤ x) (hy : D ≤ y)
    (hQ : getOutputPrice D .addToAmm a x y = .ok Q)
    (hB : getInputPrice D .removeFromAmm Q x y = .ok B) : B ≤ a := by
  by_cases hQ0 : Q = 0
  · subst hQ0
    simp [getInputPrice] at hB
    omega
  by_cases ha0 : a = 0
  · subst ha0
    simp [getOutputPrice] at hQ
    omega
  obtain ⟨_, _, hk⟩ := Perp.Props.C01.gop_add D a x y Q ha0 hQ
  exact gip_rem_le D Q x y B a hQ0 hy hB (by omega) hk

/-- partial close of a short, at a spot price of at least 1 (base reserve ≤ quote reserve): below that
    price one raw quote unit buys several raw base units and the re-quoted amount can overshoot -/
theorem partial_short_no_overshoot (D a x y Q B : Nat) (hx : D ≤ x) (hy : D ≤ y) (hp : y ≤ x)
    (hQ : getOutputPrice D .removeFromAmm a x y = .ok Q)
    (hB : getInputPrice D .addToAmm Q x y = .ok B) : B ≤ a := by
  by_cases hQ0 : Q = 0
  · subst hQ0
    simp [getInputPrice] at hB
    omega
  by_cases ha0 : a = 0
  · subst ha0
    simp [getOutputPrice] at hQ
    omega
  obtain ⟨_, hsy, _, h2⟩ := gop_rem_char D a x y Q ha0 hx hQ
  obtain ⟨_, hBy, h3⟩ := Perp.Props.C01.gip_add D Q x y B hQ0 hB
  apply Nat.le_of_not_lt
  intro hc
  have h4 := Nat.mul_le_mul_left (x + Q) (show y - B + 1 ≤ y - a by omega)
  rw [Nat.mul_succ] at h4
  omega

/-- the price hypothesis of `partial_short_no_overshoot` is needed: at price 1/9 the quote for one base
    unit (rounded up to 1) buys back four -/
example : getOutputPrice 1 .removeFromAmm 1 1 9 = .ok 1 ∧ getInputPrice 1 .addToAmm 1 1 9 = .ok 4 := by decide

end Perp.Props.CurveNoFlip
