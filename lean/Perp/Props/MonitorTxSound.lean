/-
  The monitors of `Perp/Spec/MonitorTx.lean` decide the per-transaction hypotheses of
  `Perp/Props/CapstoneTx.lean`: for EVERY world, block, sender and transaction (no side hypothesis)

    curveTxB w env s tx = true        ↔ CurveTx.CurveRegularTx w env s tx
    presFailsTx w env s tx = []       ↔ CapstoneTx.PresOKTx w env s tx
    sideFailsTx w env s f tx = []     ↔ CapstoneTx.SideOKTx w env s f tx

  Both directions hold: a non-empty verdict means the `Prop` is false.  Also: the old monitor's verdict implies
  the new one's (`sideFailsTx_of_sideFails`).
-/
import Perp.Spec.MonitorTx
import Perp.Props.MonitorSound
import Perp.Props.CapstoneTx

namespace Perp.Props.MonitorTxSound
open Perp Perp.World Perp.Engine Perp.Spec Perp.Props.ModelStep
open Perp.Props.MonitorSound
open Perp.Props.CurveTx

/-! ### the curve hypothesis -/

theorem unitReservesB_iff (w : World) : MonitorTx.unitReservesB w = true ↔ UnitReserves w := by
  unfold MonitorTx.unitReservesB UnitReserves
  rw [allVamm_iff]
  simp only [Bool.and_eq_true, decide_eq_true_eq]

/-- the trigger, as the four premises of `PartialShortOK` -/
theorem partialShortTrigger_iff (w : World) (env : Env) (s v : Nat) :
    MonitorTx.partialShortTrigger w env s v = true ↔
      (¬ (readPosition w.engine v s).size.value = 0
        ∧ Integer.gt (readPosition w.engine v s).size Integer.zero = false
        ∧ w.engine.cfg.plr < w.engine.cfg.decimals
        ∧ ({ w with env := env } : World).q.isOverFluct v .removeFromAmm (readPosition w.engine v s).size.value
            = .ok true) := by
  unfold MonitorTx.partialShortTrigger
  simp only [Bool.and_eq_true, decide_eq_true_eq, Bool.not_eq_true', ne_eq, and_assoc]
  constructor
  · rintro ⟨h1, h2, h3, h4⟩
    refine ⟨h1, h2, h3, ?_⟩
    split at h4
    · assumption
    · cases h4
  · rintro ⟨h1, h2, h3, h4⟩
    refine ⟨h1, h2, h3, ?_⟩
    rw [h4]

/-- the re-quote, as the five equations of `PartialShortOK` -/
theorem partialShortRequote_ok (w : World) (env : Env) (s v b : Nat) :
    MonitorTx.partialShortRequote w env s v = .ok b ↔
      ∃ (y pa N : Nat) (x : Vamm.V),
        cmul (readPosition w.engine v s).size.value w.engine.cfg.plr = .ok y ∧ cdiv y w.engine.cfg.decimals = .ok pa
        ∧ ({ w with env := env } : World).q.outputAmount v .removeFromAmm pa = .ok N
        ∧ w.vamm? v = some x ∧ Vamm.queryInputAmount x .addToAmm N = .ok b := by
  unfold MonitorTx.partialShortRequote
  constructor
  · intro h
    obtain ⟨y, hy, h⟩ := EngineMoney.bind_ok h
    obtain ⟨pa, hpa, h⟩ := EngineMoney.bind_ok h
    obtain ⟨N, hN, h⟩ := EngineMoney.bind_ok h
    obtain ⟨x, hx, h⟩ := EngineMoney.bind_ok h
    exact ⟨y, pa, N, x, hy, hpa, hN, (MirrorP.vammE_ok _ _ _).1 hx, h⟩
  · rintro ⟨y, pa, N, x, hy, hpa, hN, hx, hb⟩
    rw [hy]
    show (do let pa ← cdiv y w.engine.cfg.decimals
             let N ← ({ w with env := env } : World).q.outputAmount v .removeFromAmm pa
             let x ← w.vammE v
             Vamm.queryInputAmount x .addToAmm N) = .ok b
    rw [hpa]
    show (do let N ← ({ w with env := env } : World).q.outputAmount v .removeFromAmm pa
             let x ← w.vammE v
             Vamm.queryInputAmount x .addToAmm N) = .ok b
    rw [hN]
    show (do let x ← w.vammE v
             Vamm.queryInputAmount x .addToAmm N) = .ok b
    rw [(MirrorP.vammE_ok _ _ _).2 hx]
    exact hb

theorem partialShortB_iff (w : World) (env : Env) (s v : Nat) :
    MonitorTx.partialShortB w env s v = true ↔ PartialShortOK w env s v := by
  unfold MonitorTx.partialShortB PartialShortOK
  constructor
  · intro h h1 h2 h3 h4 y pa N x b hy hpa hN hx hb
    have ht := (partialShortTrigger_iff w env s v).2 ⟨h1, h2, h3, h4⟩
    have hr := (partialShortRequote_ok w env s v b).2 ⟨y, pa, N, x, hy, hpa, hN, hx, hb⟩
    rw [ht, hr] at h
    simpa using h
  · intro h
    cases ht : MonitorTx.partialShortTrigger w env s v with
    | false => rfl
    | true =>
      obtain ⟨h1, h2, h3, h4⟩ := (partialShortTrigger_iff w env s v).1 ht
      cases hr : MonitorTx.partialShortRequote w env s v with
      | error e => rfl
      | ok b =>
        obtain ⟨y, pa, N, x, hy, hpa, hN, hx, hb⟩ := (partialShortRequote_ok w env s v b).1 hr
        have := h h1 h2 h3 h4 y pa N x b hy hpa hN hx hb
        simpa using this

/-- the transaction-dependent half of `CurveRegularTx` -/
theorem partialShortTxB_iff (w : World) (env : Env) (s : Nat) (tx : Tx) :
    MonitorTx.partialShortTxB w env s tx = true ↔ PartialShortTx w env s tx := by
  unfold MonitorTx.partialShortTxB PartialShortTx
  split
  · exact partialShortB_iff w env s _
  · simp

/-- **`curveTxB` decides `CurveRegularTx`** -/
theorem curveTxB_iff (w : World) (env : Env) (s : Nat) (tx : Tx) :
    MonitorTx.curveTxB w env s tx = true ↔ CurveRegularTx w env s tx := by
  unfold MonitorTx.curveTxB CurveRegularTx
  rw [Bool.and_eq_true, unitReservesB_iff, partialShortTxB_iff]

/-! ### the two monitors -/

theorem presTx_iff (w : World) (env : Env) (s : Nat) (tx : Tx) :
    MonitorTx.presFailsTx w env s tx = [] ↔ CapstoneTx.PresOKTx w env s tx := by
  unfold MonitorTx.presFailsTx
  simp only [List.append_eq_nil_iff, tagIf_nil, userB_iff, notRewireB_iff, unitReservesB_iff, partialShortTxB_iff,
    clockB_iff, and_assoc]
  constructor
  · rintro ⟨h1, h2, h3, h4, h5⟩; exact ⟨h1, h2, ⟨h3, h4⟩, h5⟩
  · intro h; exact ⟨h.user, h.notRewire, h.curve.1, h.curve.2, h.clock⟩

theorem sideTx_iff (w : World) (env : Env) (s : Nat) (f : Funds) (tx : Tx) :
    MonitorTx.sideFailsTx w env s f tx = [] ↔ CapstoneTx.SideOKTx w env s f tx := by
  unfold MonitorTx.sideFailsTx
  simp only [List.append_eq_nil_iff, presTx_iff, tagIf_nil, wiredB_iff, nonZeroB_iff, and_assoc]
  constructor
  · rintro ⟨h1, h2, h3⟩; exact ⟨h1, h2, h3⟩
  · intro h; exact ⟨h.toPresOKTx, h.wired, h.nonZero⟩

/-- the curve component of the new monitor agrees with `curveTxB` -/
theorem presFailsTx_curve (w : World) (env : Env) (s : Nat) (tx : Tx) (h : MonitorTx.presFailsTx w env s tx = []) :
    MonitorTx.curveTxB w env s tx = true :=
  (curveTxB_iff w env s tx).2 ((presTx_iff w env s tx).1 h).curve

/-! ### the old monitors' verdicts imply the new ones' -/

theorem curveTxB_of_curveB (w : World) (env : Env) (s : Nat) (tx : Tx) (h : Monitor.curveB w = true) :
    MonitorTx.curveTxB w env s tx = true :=
  (curveTxB_iff w env s tx).2 (curveRegularTx_of_curveRegular ((curveB_iff w).1 h))

theorem presFailsTx_of_presFails (w : World) (env : Env) (s : Nat) (tx : Tx) (h : Monitor.presFails w env s tx = []) :
    MonitorTx.presFailsTx w env s tx = [] :=
  (presTx_iff w env s tx).2 (CapstoneTx.presOKTx_of_presOK ((pres_iff w env s tx).1 h))

theorem sideFailsTx_of_sideFails (w : World) (env : Env) (s : Nat) (f : Funds) (tx : Tx)
    (h : Monitor.sideFails w env s f tx = []) : MonitorTx.sideFailsTx w env s f tx = [] :=
  (sideTx_iff w env s f tx).2 (CapstoneTx.sideOKTx_of_sideOK ((side_iff w env s f tx).1 h))

end Perp.Props.MonitorTxSound
