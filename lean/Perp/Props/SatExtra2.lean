/-
  SatExtra2 — refinement theorem for the clause of `Spec.extraChecks2`:

  * `C11.checkCharge`  after a successful REDUCING OpenPosition (record present with non-zero size, order on the
                      other side, spot notional of the position > notional of the order — the case distinction of
                      `Spec.C11.check`, which is the engine's own) or a successful ClosePosition that leaves the
                      position (partial close), the stored margin is
                      `max 0 (margin + trunc (upnl · |size − size'|) |size| − fundingOwed)`.

    Engine side.  Both paths feed `calc_remain_margin_with_funding_payment` with the realised share
    `upnl · |signed_output| / |size|` of the spot PnL put in flight by the `execute` handler, and store
    `size' = size + signed_output`, `margin' = remain.margin`:
      - reduce  (`update_position_reply`, reply id 2): bad debt is NOT rejected at that point, the margin is
                stored as 0 — the `max 0` of the clause (`Witness.c11_charge_reduce_bad_debt`);
      - partial (`partial_close_position_reply`, reply id 5): bad debt is rejected (guard 73), so `want ≥ 0`
                and the clamp is the identity (`partial_core2`).
    `|size − size'| = |signed_output|` whatever the swap did to the sign (`judgeRaw_nil`), the realised PnL is
    computed only for a record of non-zero size — which both paths have (`reduce_core` / `close_flow`) —, and a
    reduce always ends with a stored record (`reduce_core`, first conjunct: `hasPos` holds after it), so the
    clause is never vacuous on the reduce path; on ClosePosition it is vacuous exactly on the whole close.

    Result.  `sat_C11_charge`: the clause is TRUE of the model in every world with `Mirror.NoZeroVamm w`, and
    that hypothesis is used on the OpenPosition path only, and only for vAMM address 0 (`sat_C11_charge_gen`,
    hypothesis `OpenOnRealVamm`).  It is necessary (`Witness.c11_charge_needs_noZeroVamm`): a record stored
    under vAMM address 0 is taken by `get_position` for an absent one, the engine runs an INCREASE where the
    clause (reading the stored record) sees a reduce.  `SignDir`, `MarginRep`, `UserSender` are NOT needed:
    engine and clause value the same stored record with the same stored direction, the handler's own checked
    arithmetic succeeded, and the clause does not look at the transfer list.
  * `sat_extra2`, `reachable_extra2`, `reachable_sat_all2`, `history_extra2`.
-/
import Perp.Model.World
import Perp.Spec.World
import Perp.Lemmas.Basic
import Perp.Props.ModelStep
import Perp.Props.C19
import Perp.Props.EngineMoney
import Perp.Props.WorldInv
import Perp.Props.MirrorInv
import Perp.Props.SatFlows
import Perp.Props.SatC11
import Perp.Props.Capstone
import Perp.Props.SatEWitness
import Perp.Props.SatExtra

namespace Perp.Props.SatExtra2
open Perp Perp.World Perp.Engine Perp.Spec Perp.Spec.W Perp.Props.ModelStep
open Perp.Props.Dispatch Perp.Props.SatTrace
open Perp.Props.EngineGuards (Post Post_bind Post_pure Post_ok Post_error Post_bind_pure Post_bind_error)
open Perp.Props.MirrorP (AllCE)

/-! ## 1. the reduce path of `update_position_reply` -/

set_option maxHeartbeats 1600000 in
/-- `update_position_reply` with `REPLY_DECREASE`: the margin delta fed to
    `calc_remain_margin_with_funding_payment` is the realised share of the PnL in flight; the record stored
    carries the clamped remaining margin and `size + signed_output` -/
theorem upr_dec_inv (q : Q) (e : E) (env : Env) (i o : Nat) (sw : TmpSwap) (hs : e.tmpSwap = some sw) :
    Post (fun r => ∃ realized rm,
        realizedPnl (getPosition env e sw.vamm sw.trader sw.side) sw (signedOutput sw.side o) = .ok realized
        ∧ calcRemainMargin e (getPosition env e sw.vamm sw.trader sw.side) realized = .ok rm
        ∧ ∃ p' : Position, r.1.positions = (storePosition e p').positions
          ∧ p'.vamm = (getPosition env e sw.vamm sw.trader sw.side).vamm
          ∧ p'.trader = (getPosition env e sw.vamm sw.trader sw.side).trader
          ∧ p'.margin = rm.margin
          ∧ p'.size.toInt = (getPosition env e sw.vamm sw.trader sw.side).size.toInt
              + (signedOutput sw.side o).toInt)
      (updatePositionReply q e env i o REPLY_DECREASE) := by
  unfold updatePositionReply
  rw [hs]
  walk [first
    | exact absurd ‹REPLY_DECREASE = REPLY_INCREASE› (by decide)
    | exact ⟨_, _, by assumption, by assumption, _, rfl, rfl, rfl, rfl,
        (C19.add_ok _ _ _ ‹Integer.add _ _ = Except.ok _›).1⟩]

/-- the margin the clause expects: old margin + realised share of the spot PnL − funding owed -/
def wantOf (w : World) (v s : Nat) (u : Integer) (bo : Nat) : Int :=
  ((readPosition w.engine v s).margin : Int)
    + Int.tdiv (u.toInt * (bo : Int)) ((readPosition w.engine v s).size.value : Int)
    - W.fundingOwed w (readPosition w.engine v s)

/-- **a successful OpenPosition that the clause classifies as a reduce** (stored record of a real vAMM, of
    non-zero size, on the other side of the order, worth more than the order at the spot price of the pre-state
    at the transaction's block) IS a reduce for the engine (`REPLY_DECREASE`): a record under the caller's key
    is stored, its size moved by the signed base amount `bo` of the swap, its margin is
    `margin + upnl·bo/|size| − funding owed` clamped at 0 (bad debt is not rejected here) -/
theorem reduce_core (w w' : World) (env : Env) (s : Nat) (f : Funds) (v : Nat) (side : Side) (m l b : Nat)
    (h : applyTx w env s f (.engine (.openPosition v side m l b)) = .ok w')
    (hvz : (readPosition w.engine v s).vamm ≠ 0)
    (hnz : ¬ (readPosition w.engine v s).size.value = 0)
    (hdir : (readPosition w.engine v s).direction ≠ sideToDirection side)
    (pn : Nat) (u : Integer)
    (hpnl : positionNotionalPnl ({ w with env := env } : World).q w.engine (readPosition w.engine v s) .spot
              = .ok (pn, u))
    (hred : pn > m * l / w.engine.cfg.decimals) :
    ∃ bo : Nat,
      W.hasPos w' v s = true
      ∧ (readPosition w'.engine v s).size.toInt
          = (readPosition w.engine v s).size.toInt + (signedOutput side bo).toInt
      ∧ (0 ≤ wantOf w v s u bo → ((readPosition w'.engine v s).margin : Int) = wantOf w v s u bo)
      ∧ (wantOf w v s u bo < 0 → (readPosition w'.engine v s).margin = 0) := by
  obtain ⟨w1, e1, x, sw, msgs, hst, hlog1, hxv, hex, hsw, sv, st, ss, hpos, hcfg, hcase⟩ :=
    SatFlows.open_flow_msgs w w' env s f v side m l b h
  obtain ⟨hmaps, _, _, hD0, pn1, u1, hpnl1, htmp, _⟩ := SatFlows.openPosition_inv2 _ _ _ _ _ _ _ _ _ _ _ hex
  obtain ⟨pn2, u2, hpnl2, hdec, hrev⟩ := SatC11.openPosition_branch _ _ _ _ _ _ _ _ _ _ _ hex
  dsimp only at hmaps htmp hdec hrev
  have hgp : getPosition env w.engine v s side = readPosition w.engine v s := by
    unfold getPosition
    simp only []
    rw [if_neg hvz]
  rw [hgp, SatC11.pnl_spot_congr _ _ _ _ (SatC11.start_outputAmount hst), hpnl] at hpnl1 hpnl2
  injection hpnl1 with hpnl1
  injection hpnl1 with e1' e2'
  subst e1' e2'
  injection hpnl2 with hpnl2
  injection hpnl2 with e1' e2'
  subst e1' e2'
  have hswe : sw = ⟨v, s, side, m, l, m * l / w.engine.cfg.decimals, pn, u, Integer.zero, false⟩ := by
    have := hsw.symm.trans htmp
    injection this
  have hnzp : ¬ (readPosition w.engine v s).size.isZero = true := by
    simpa [Integer.isZero] using hnz
  rw [hgp] at hcase
  rcases hcase with ⟨id, hid, hmsg, x', bo, w2, e3, subs3, hswap, hrep, _, he3, _⟩
      | ⟨_, hmsg, _⟩
  · rcases hid with ⟨rfl, hinc⟩ | ⟨rfl, _, _⟩
    · rcases hinc with hi | hi
      · exact absurd hi hnzp
      · exact absurd hi hdir
    · obtain ⟨realized, rm, hr, hrm, p', hp', pv, pt, pmg, psz⟩ := upr_dec_inv _ _ _ _ _ sw hsw _ hrep
      dsimp only at hp' pv pt pmg psz
      have hg1 : getPosition env e1 sw.vamm sw.trader sw.side = readPosition w.engine v s := by
        rw [sv, st, ss, SatC11.getPosition_congr hpos env v s side, hgp]
      rw [hg1] at hr hrm pv pt psz
      obtain ⟨rv, rt⟩ := MirrorP.read_found w.engine v s hnz
      have hread : readPosition w'.engine v s = p' := by
        rw [he3]; exact read_of_store e1 e3 p' v s hp' (pv.trans rv) (pt.trans rt)
      have hreal := SatExtra.realizedPnl_toInt _ _ _ _ _ hnz (ss ▸ hr)
      have hup : sw.upnl = u := by rw [hswe]
      rw [hup] at hreal
      obtain ⟨_, _, hge, hlt⟩ := EngineMoney.calcRemainMargin_spec _ _ _ _ hrm
      rw [SatC11.fundingOwed_congr hmaps hcfg, hreal] at hge hlt
      refine ⟨bo, hasPos_store e1 e3 w' p' v s he3 hp' (pv.trans rv) (pt.trans rt), ?_, ?_, ?_⟩
      · rw [hread, psz, ss]
      · rw [hread, pmg]
        unfold wantOf
        intro hw
        exact (hge (by rw [SatC11.fundingOwed_spec] at hw; omega)).1.trans
          (by rw [SatC11.fundingOwed_spec]; omega)
      · rw [hread, pmg]
        unfold wantOf
        intro hw
        exact (hlt (by rw [SatC11.fundingOwed_spec] at hw; omega)).1
  · exact absurd hred (hrev _ hmsg rfl)

/-! ## 2. the partial-close path -/

/-- `SatExtra.partial_core` with the stored margin: after a ClosePosition either no record is left (whole
    close) or — partial close — the stored margin IS `margin + upnl·bo/|size| − funding owed`, which is not
    negative (guard 73 rejected the bad debt) -/
theorem partial_core2 (w w' : World) (env : Env) (s : Nat) (f : Funds) (v l : Nat)
    (h : applyTx w env s f (.engine (.closePosition v l)) = .ok w') :
    W.hasPos w' v s = false
    ∨ ∃ (pn : Nat) (u : Integer) (bo : Nat),
        ¬ (readPosition w.engine v s).size.value = 0
        ∧ positionNotionalPnl ({ w with env := env } : World).q w.engine (readPosition w.engine v s) .spot = .ok (pn, u)
        ∧ (readPosition w'.engine v s).size.toInt
            = (readPosition w.engine v s).size.toInt
              + (signedOutput (positionToSide (readPosition w.engine v s).size) bo).toInt
        ∧ 0 ≤ wantOf w v s u bo
        ∧ ((readPosition w'.engine v s).margin : Int) = wantOf w v s u bo := by
  obtain ⟨w1, e1, x, sw, msgs, over, hst, _, hxv, hnz, pv, pt, hex, hsw, sv, st, hpos, hcfg, hvm, _, hover, hcase⟩ :=
    SatFlows.close_flow w w' env s f v l h
  have hk := EngineMoney.getPosition_key env e1 sw.vamm sw.trader sw.side
  rcases hcase with ⟨_, _, x', qo, w2, e3, subs3, _, _, _, _, hrep, _, he3, _, _⟩
      | ⟨hyes, hside, N, x', bo, w2, e3, subs3, hswap, hrep, _, he3, _, hmsg⟩
  · left
    obtain ⟨hp', _⟩ := MirrorP.closePositionReply_eff _ _ _ _ sw hsw _ hrep
    exact hasPos_remove e1 e3 w' _ v s he3 hp' (hk.1.trans sv) (hk.2.trans st)
  · right
    have hrd : readPosition e1 sw.vamm sw.trader = readPosition w.engine v s := by
      rw [sv, st]; exact WorldInv.rp_same v s hpos
    have hu := SatExtra.closePosition_upnl _ _ _ _ _ _ _ hex
    dsimp only at hu
    rcases hu with ⟨m, hm, hid⟩ | ⟨pn, u, tmp, hpnl, htmp, hup⟩
    · exfalso
      rw [hmsg] at hm
      injection hm with hm
      subst hm
      exact absurd hid (Nat.ne_of_beq_eq_false rfl)
    have hts : tmp = sw := by
      rw [hsw] at htmp
      injection htmp with h'
      exact h'.symm
    subst hts
    rw [SatC11.pnl_spot_congr w1.q ({ w with env := env } : World).q _ _ (SatC11.start_outputAmount hst)] at hpnl
    obtain ⟨realized, rm, hr, hrm, hb, hmg', _, _⟩ :=
      EngineMoney.partialClose_no_bad_debt w2.q e1 e3 env N bo subs3 tmp hsw hrep
    have hsz : (getPosition env e1 tmp.vamm tmp.trader tmp.side).size = (readPosition w.engine v s).size := by
      rw [MirrorP.getPosition_size, hrd]
    have hnz' : ¬ (getPosition env e1 tmp.vamm tmp.trader tmp.side).size.value = 0 := by rw [hsz]; exact hnz
    have hreal := SatExtra.realizedPnl_toInt _ _ _ _ _ hnz' hr
    rw [hsz, hup] at hreal
    obtain ⟨_, _, hge, hbad⟩ := EngineMoney.calcRemainMargin_spec e1 _ realized rm hrm
    have hfo : EngineMoney.fundingOwed e1 (getPosition env e1 tmp.vamm tmp.trader tmp.side)
        = W.fundingOwed w (readPosition w.engine v s) := by
      rw [SatC11.fundingOwed_get, hrd, SatC11.fundingOwed_congr hvm hcfg]
      rfl
    have hmg : (getPosition env e1 tmp.vamm tmp.trader tmp.side).margin = (readPosition w.engine v s).margin := by
      rw [SatC11.getPosition_margin, hrd]
    rw [hfo, hmg, hreal] at hbad hge
    obtain ⟨⟨p', hp', pv', pt', psz, _⟩, _⟩ := MirrorP.partialClosePositionReply_eff _ _ _ _ _ tmp hsw _ hrep
    dsimp only at hp' pv' pt' psz
    have hread : readPosition w'.engine v s = p' := by
      rw [he3]; exact read_of_store e1 e3 p' v s hp' ((pv'.trans hk.1).trans sv) ((pt'.trans hk.2).trans st)
    rw [hsz, hside] at psz
    have hwant : 0 ≤ wantOf w v s u bo := by
      unfold wantOf
      refine Int.not_lt.1 (fun hlt => ?_)
      have := (hbad (by omega)).2
      rw [hb] at this
      omega
    refine ⟨pn, u, bo, hnz, hpnl, by rw [hread]; exact psz, hwant, ?_⟩
    have hmg2 : (readPosition e3 v s).margin = rm.margin := by
      rw [← sv, ← st]; exact hmg'
    rw [he3, hmg2]
    unfold wantOf at hwant ⊢
    exact (hge (by omega)).1.trans (by omega)

/-! ## 3. the clause -/

/-- the clause's local judgement, named -/
def judgeOf (st : Step) (v : Nat) : List String :=
  let p := W.pos st.pre v st.sender
  let p' := W.pos st.post v st.sender
  let a := p.size.toInt.natAbs
  let closed := (p.size.toInt - p'.size.toInt).natAbs
  if a == 0 || !W.hasPos st.post v st.sender then [] else
  (match Engine.positionNotionalPnl (W.preAt st).q st.pre.engine p .spot with
   | .ok r =>
     let realized := W.trunc (r.2.toInt * (closed : Int)) (a : Int)
     let want := (p.margin : Int) + realized - W.fundingOwed st.pre p
     W.chk ((p'.margin : Int) == (if want < 0 then 0 else want)) "funding-not-charged-on-reduce-or-partial-close"
   | .error _ => [])

theorem checkCharge_eq (st : Step) :
    Spec.C11.checkCharge st =
      (if !st.ok then [] else
        match W.engineMsg st with
        | some (.closePosition v _) => judgeOf st v
        | some (.openPosition v side margin lev _) =>
          let p := W.pos st.pre v st.sender
          let D := st.pre.engine.cfg.decimals
          let flat := !W.hasPos st.pre v st.sender || p.size.isZero
          let N := margin * lev / D
          let reduces : Bool := match Engine.positionNotionalPnl (W.preAt st).q st.pre.engine p .spot with
            | .ok r => decide (r.1 > N)
            | .error _ => false
          if !flat && p.direction != sideToDirection side && reduces then judgeOf st v else []
        | _ => []) := rfl

theorem chk_true (c : Bool) (tag : String) (h : c = true) : W.chk c tag = [] := by
  unfold W.chk; rw [h]; rfl

/-- the judgement on raw data -/
def judgeRaw (p p' : Position) (has : Bool) (r : Except Err (Nat × Integer)) (fo : Int) : List String :=
  let a := p.size.toInt.natAbs
  let closed := (p.size.toInt - p'.size.toInt).natAbs
  if a == 0 || !has then [] else
  (match r with
   | .ok r =>
     let realized := W.trunc (r.2.toInt * (closed : Int)) (a : Int)
     let want := (p.margin : Int) + realized - fo
     W.chk ((p'.margin : Int) == (if want < 0 then 0 else want)) "funding-not-charged-on-reduce-or-partial-close"
   | .error _ => [])

theorem judgeOf_ok (w w' : World) (env : Env) (s : Nat) (f : Funds) (tx : Tx) (v : Nat) :
    judgeOf (okStep w w' env s f tx) v
      = judgeRaw (readPosition w.engine v s) (readPosition w'.engine v s) (W.hasPos w' v s)
          (positionNotionalPnl ({ w with env := env } : World).q w.engine (readPosition w.engine v s) .spot)
          (W.fundingOwed w (readPosition w.engine v s)) := rfl

theorem judgeRaw_nil (p p' : Position) (has : Bool) (pn : Nat) (u : Integer) (fo : Int) (side : Side) (bo : Nat)
    (hsz : p'.size.toInt = p.size.toInt + (signedOutput side bo).toInt)
    (hge : 0 ≤ (p.margin : Int) + Int.tdiv (u.toInt * (bo : Int)) (p.size.value : Int) - fo →
      (p'.margin : Int) = (p.margin : Int) + Int.tdiv (u.toInt * (bo : Int)) (p.size.value : Int) - fo)
    (hlt : (p.margin : Int) + Int.tdiv (u.toInt * (bo : Int)) (p.size.value : Int) - fo < 0 → p'.margin = 0) :
    judgeRaw p p' has (.ok (pn, u)) fo = [] := by
  have hcl : (p.size.toInt - p'.size.toInt).natAbs = bo := by
    rw [MirrorP.signedOutput_toInt] at hsz
    cases side <;> simp only [] at hsz <;> omega
  unfold judgeRaw
  dsimp only
  rw [hcl, C19.toInt_natAbs]
  by_cases hg : (p.size.value == 0 || !has) = true
  · rw [if_pos hg]
  · rw [if_neg hg]
    apply chk_true
    unfold W.trunc
    by_cases hw : (p.margin : Int) + Int.tdiv (u.toInt * (bo : Int)) (p.size.value : Int) - fo < 0
    · rw [if_pos hw, hlt hw]; rfl
    · rw [if_neg hw, hge (by omega)]; simp

/-- the judgement is empty once the stored size moved by a signed base amount `bo` and the stored margin is the
    clamped `margin + upnl·bo/|size| − funding` -/
theorem judge_nil (w w' : World) (env : Env) (s : Nat) (f : Funds) (tx : Tx) (v : Nat) (side : Side)
    (pn : Nat) (u : Integer) (bo : Nat)
    (hpnl : positionNotionalPnl ({ w with env := env } : World).q w.engine (readPosition w.engine v s) .spot
              = .ok (pn, u))
    (hsz : (readPosition w'.engine v s).size.toInt
            = (readPosition w.engine v s).size.toInt + (signedOutput side bo).toInt)
    (hge : 0 ≤ wantOf w v s u bo → ((readPosition w'.engine v s).margin : Int) = wantOf w v s u bo)
    (hlt : wantOf w v s u bo < 0 → (readPosition w'.engine v s).margin = 0) :
    judgeOf (okStep w w' env s f tx) v = [] := by
  rw [judgeOf_ok, hpnl]
  exact judgeRaw_nil _ _ _ pn u _ side bo hsz hge hlt

theorem judgeRaw_nohas (p p' : Position) (r : Except Err (Nat × Integer)) (fo : Int) :
    judgeRaw p p' false r fo = [] := by
  unfold judgeRaw
  simp

theorem check_close_ok (w w' : World) (env : Env) (s : Nat) (f : Funds) (v l : Nat)
    (h : applyTx w env s f (.engine (.closePosition v l)) = .ok w') :
    Spec.C11.checkCharge (okStep w w' env s f (.engine (.closePosition v l))) = [] := by
  rw [checkCharge_eq]
  show judgeOf (okStep w w' env s f (.engine (.closePosition v l))) v = []
  rcases partial_core2 w w' env s f v l h with hno | ⟨pn, u, bo, hnz, hpnl, hsz, hge, hmg⟩
  · rw [judgeOf_ok, hno]
    exact judgeRaw_nohas _ _ _ _
  · exact judge_nil w w' env s f _ v _ pn u bo hpnl hsz (fun _ => hmg) (fun hlt => absurd hge (by omega))

theorem check_open_ok (w w' : World) (env : Env) (s : Nat) (f : Funds) (v : Nat) (side : Side) (m l b : Nat)
    (hz : v = 0 → w.vamm? 0 = none)
    (h : applyTx w env s f (.engine (.openPosition v side m l b)) = .ok w') :
    Spec.C11.checkCharge (okStep w w' env s f (.engine (.openPosition v side m l b))) = [] := by
  rw [checkCharge_eq]
  show (if (!(!W.hasPos w v s || (readPosition w.engine v s).size.isZero)
            && (readPosition w.engine v s).direction != sideToDirection side
            && (match positionNotionalPnl ({ w with env := env } : World).q w.engine
                        (readPosition w.engine v s) .spot with
                | .ok r => decide (r.1 > m * l / w.engine.cfg.decimals)
                | .error _ => false)) = true
        then judgeOf (okStep w w' env s f (.engine (.openPosition v side m l b))) v else []) = []
  by_cases hc : (!(!W.hasPos w v s || (readPosition w.engine v s).size.isZero)
            && (readPosition w.engine v s).direction != sideToDirection side
            && (match positionNotionalPnl ({ w with env := env } : World).q w.engine
                        (readPosition w.engine v s) .spot with
                | .ok r => decide (r.1 > m * l / w.engine.cfg.decimals)
                | .error _ => false)) = true
  · rw [if_pos hc]
    cases hpnl : positionNotionalPnl ({ w with env := env } : World).q w.engine
        (readPosition w.engine v s) .spot with
    | error e => rw [hpnl] at hc; simp at hc
    | ok r =>
      obtain ⟨pn, u⟩ := r
      rw [hpnl] at hc
      simp only [Bool.and_eq_true, Bool.not_eq_true', Bool.or_eq_false_iff, bne_iff_ne, ne_eq,
        decide_eq_true_eq] at hc
      obtain ⟨⟨⟨_, hsz0⟩, hdir⟩, hred⟩ := hc
      have hnz : ¬ (readPosition w.engine v s).size.value = 0 := by
        intro h0
        simp [Integer.isZero, h0] at hsz0
      obtain ⟨x, _, _, hxv, _⟩ := SatC11.open_core w w' env s f v side m l b h
      have hvz : (readPosition w.engine v s).vamm ≠ 0 := by
        rw [(MirrorP.read_found w.engine v s hnz).1]
        intro h0
        have := hz h0
        rw [h0] at hxv
        rw [hxv] at this
        cases this
      obtain ⟨bo, _, hsz, hge, hlt⟩ := reduce_core w w' env s f v side m l b h hvz hnz hdir pn u hpnl hred
      exact judge_nil w w' env s f _ v side pn u bo hpnl hsz hge hlt
  · rw [if_neg hc]

/-! ## 4. the theorems -/

/-- **hypothesis of `sat_C11_charge_gen`** (the weakest form in which `Mirror.NoZeroVamm` is used): an
    OpenPosition addressed to vAMM address 0 — the engine's "no record" sentinel — finds no vAMM there (and is
    therefore rejected).  Every other transaction needs nothing.  Necessary:
    `Witness.c11_charge_needs_noZeroVamm`. -/
def OpenOnRealVamm (w : World) (tx : Tx) : Prop :=
  ∀ side m l b, tx = .engine (.openPosition 0 side m l b) → w.vamm? 0 = none

theorem OpenOnRealVamm.of_noZeroVamm {w : World} (h : Mirror.NoZeroVamm w) (tx : Tx) : OpenOnRealVamm w tx :=
  fun _ _ _ _ _ => h

theorem sat_C11_charge_gen (w : World) (env : Env) (s : Nat) (f : Funds) (tx : Tx) (hz : OpenOnRealVamm w tx) :
    Spec.C11.checkCharge (modelStep w env s f tx) = [] := by
  cases hx : applyTx w env s f tx with
  | error e =>
    rw [modelStep_err hx]
    rfl
  | ok w' =>
    rw [modelStep_ok hx]
    cases tx with
    | engine m =>
      cases m with
      | closePosition v l => exact check_close_ok w w' env s f v l hx
      | openPosition v side m l b =>
        exact check_open_ok w w' env s f v side m l b (fun h0 => hz side m l b (by rw [h0])) hx
      | _ => rfl
    | _ => rfl

/-- **C11, funding charged on a reduce / partial close — every world with no vAMM at address 0, every block,
    sender, funds and message.**

    Hypothesis kept: `Mirror.NoZeroVamm w` (a conjunct of `Mirror.Inv`, hence of `Capstone.AllInv`; holds in
    every reachable world).  `get_position` takes a record stored under vAMM address 0 for an absent one and
    reports the order's own direction: an order against it is an increase for the engine — margin
    `+ ⌊N·D/L⌋` — whatever its stored direction, while the clause, which reads the stored record, classifies
    the order as a reduce and expects `+ realised PnL`.  Without the hypothesis the clause fails
    (`Witness.c11_charge_needs_noZeroVamm`, in a world that satisfies `SignDir`, `MarginRep`, `UserSender`,
    `WF`).  It is used for OpenPosition on address 0 only (`sat_C11_charge_gen`); the ClosePosition path needs
    nothing (`close_position` reads the stored record itself, and `get_position` keeps size, margin and
    checkpoint of a record stored under vAMM 0).

    Hypotheses NOT needed: `SignDir` (engine and clause use the same stored direction for the PnL, `|size|` for
    the share), `MarginRep` (the handler's own arithmetic succeeded), `UserSender` (no transfer is read). -/
theorem sat_C11_charge (w : World) (env : Env) (s : Nat) (f : Funds) (tx : Tx) (hnz : Mirror.NoZeroVamm w) :
    Spec.C11.checkCharge (modelStep w env s f tx) = [] :=
  sat_C11_charge_gen w env s f tx (OpenOnRealVamm.of_noZeroVamm hnz tx)

/-- every clause of `Spec.extraChecks2` is empty on the model's step — every world with no vAMM at address 0 -/
theorem sat_extra2 (w : World) (env : Env) (s : Nat) (f : Funds) (tx : Tx) (hnz : Mirror.NoZeroVamm w) :
    ∀ pc ∈ Spec.extraChecks2 (modelStep w env s f tx), pc.2 = [] := by
  intro pc hpc
  unfold Spec.extraChecks2 at hpc
  simp only [List.mem_cons, List.not_mem_nil, or_false] at hpc
  rcases hpc with rfl
  exact sat_C11_charge w env s f tx hnz

/-- the clauses of `extraChecks2`, as a record in the style of `Capstone.CleanChecks` / `SatExtra.ExtraClean` -/
structure ExtraClean2 (st : Step) : Prop where
  c11charge : Spec.C11.checkCharge st = []

/-- on a reachable world, under the side conditions (`Capstone.AllInv` supplies `NoZeroVamm`; the side
    conditions themselves are not used) -/
theorem reachable_extra2 (w : World) (hr : Capstone.Reachable w) (env : Env) (s : Nat) (f : Funds) (tx : Tx)
    (_hs : Capstone.SideOK w env s f tx) :
    ∀ pc ∈ Spec.extraChecks2 (modelStep w env s f tx), pc.2 = [] :=
  sat_extra2 w env s f tx (Capstone.reachable_allInv hr).noZeroVamm

theorem reachable_extra2_clean (w : World) (hr : Capstone.Reachable w) (env : Env) (s : Nat) (f : Funds) (tx : Tx)
    (_hs : Capstone.SideOK w env s f tx) : ExtraClean2 (modelStep w env s f tx) :=
  ⟨sat_C11_charge w env s f tx (Capstone.reachable_allInv hr).noZeroVamm⟩

/-- everything a check run evaluates (`allChecks ++ extraChecks ++ extraChecks2`, as the driver folds them) on
    a reachable world: every reported tag is one of `Capstone.knownTags` -/
theorem reachable_sat_all2 (w : World) (hr : Capstone.Reachable w) (env : Env) (s : Nat) (f : Funds) (tx : Tx)
    (hs : Capstone.SideOK w env s f tx) :
    ∀ pc ∈ Spec.allChecks (modelStep w env s f tx) ++ Spec.extraChecks (modelStep w env s f tx)
            ++ Spec.extraChecks2 (modelStep w env s f tx),
      ∀ tag ∈ pc.2, tag ∈ Capstone.knownTags := by
  intro pc hpc tag htag
  rcases List.mem_append.1 hpc with h1 | h2
  · exact SatExtra.reachable_sat_all w hr env s f tx hs pc h1 tag htag
  · rw [reachable_extra2 w hr env s f tx hs pc h2] at htag
    cases htag

/-- … and along any history from a deployment -/
theorem history_extra2 (w0 : World) (h0 : Capstone.Deployed w0) (txs : Capstone.History)
    (hside : Capstone.SideAlong w0 txs)
    (pre : Capstone.History) (t : Env × Nat × Funds × Tx) (post : Capstone.History) (e : txs = pre ++ t :: post) :
    ExtraClean2 (modelStep (Capstone.run w0 pre) t.1 t.2.1 t.2.2.1 t.2.2.2) :=
  reachable_extra2_clean _ (Capstone.history_reachable w0 h0 txs hside pre (t :: post) e) _ _ _ _ (hside pre t post e)

/-! ## 5. witnesses (all evaluated by the kernel) -/

namespace Witness
open Perp.Props.SatEWitness (D world eng vamm z0 b0)
open Perp.Props.SatExtra.Witness (reg close10 lowPrice)

def sell100 (v : Nat) : Tx := .engine (.openPosition v .sell (10 * D) (10 * D) 0)

set_option maxRecDepth 100000 in
/-- **`NoZeroVamm` is necessary.**  `SatEWitness.z0`: the only vAMM lives at address 0, a long of 84.604450
    base (margin 100, open notional 780, nothing owed) is stored under (0, 100).  User 100 sells 100 of notional
    at 10x.  The stored long is worth 780.048892 > 100 and lies on the other side: the clause sees a reduce and
    expects margin 100 + realised PnL (0.048892 · closed / size).  But `get_position` takes the record — its
    vAMM field is 0 — for an absent one and reports the order's own direction: the engine runs an INCREASE,
    pulls 10 of margin from the trader and stores margin 110 (size 84.604450 − 10.101011 with direction
    `removeFromAmm`, both notionals added up).  The clause fails. -/
theorem c11_charge_needs_noZeroVamm :
    Spec.C11.checkCharge (modelStep z0 ⟨2, 1000⟩ 100 ⟨0, false⟩ (sell100 0))
      = ["funding-not-charged-on-reduce-or-partial-close"]
    ∧ (modelStep z0 ⟨2, 1000⟩ 100 ⟨0, false⟩ (sell100 0)).ok = true
    ∧ positionNotionalPnl ({ z0 with env := ⟨2, 1000⟩ } : World).q z0.engine (readPosition z0.engine 0 100) .spot
        = .ok (780048892, Integer.newPositive 48892)
    ∧ (modelStep z0 ⟨2, 1000⟩ 100 ⟨0, false⟩ (sell100 0)).xfers = [(100, ENGINE, 10 * D)]
    ∧ (step z0 ⟨2, 1000⟩ 100 ⟨0, false⟩ (sell100 0)).engine.positions
      = [⟨0, 100, .removeFromAmm, Integer.newPositive 74503439, 110 * D, 880 * D, Integer.zero, 2⟩] := by
  decide +kernel

/-- that world satisfies every other candidate hypothesis — `SignDir`, `MarginRep`, `UserSender` — and `WF`;
    only `NoZeroVamm` fails -/
theorem c11_charge_witness_hyps :
    Mirror.SignDir z0.engine ∧ SatC.MarginRep z0.engine ∧ UserSender z0 100 ∧ WF z0
    ∧ ¬ Mirror.NoZeroVamm z0 ∧ ¬ OpenOnRealVamm z0 (sell100 0) := by
  have hp : ∀ p ∈ z0.engine.positions,
      p = ⟨0, 100, .addToAmm, Integer.newPositive 84604450, 100 * D, 780 * D, Integer.zero, 1⟩ := by
    intro p hp
    simpa [z0, eng] using hp
  refine ⟨?_, ?_, Capstone.Witness.userSender_of (by decide) (by decide),
    ⟨⟨rfl, rfl, rfl⟩, by decide, by decide⟩, by unfold Mirror.NoZeroVamm; decide, ?_⟩
  · intro p hpm
    rw [hp p hpm]
    exact ⟨fun _ => rfl, fun h => absurd h (by decide)⟩
  · intro p hpm
    rw [hp p hpm]
    decide
  · intro h
    have := h .sell (10 * D) (10 * D) 0 rfl
    exact absurd this (by decide)

/-- a long of 84.604450 base (margin 100, open notional 780) that owes 8.460445 of funding (checkpoint −0.1) -/
def owing : World :=
  world (eng false (5 * 10^4) (25 * 10^4)
      [⟨10, 100, .addToAmm, Integer.newPositive 84604450, 100 * D, 780 * D, Integer.newNegative 100000, 1⟩])
    (vamm (10000 * D) (1000 * D) 0 1800 (Integer.newPositive 84604450))

set_option maxRecDepth 100000 in
/-- the theorem is not vacuous on the reduce path: selling 100 of notional against the long worth 780.048892
    is accepted as a reduce (10.101011 base given up), the record stays, the funding owed (8.460445) is charged:
    stored margin 91.545392 = 100 + ⌊0.048892 · 10.101011 / 84.604450⌋ − 8.460445; the clause is empty -/
theorem c11_charge_reduce_regular :
    (modelStep owing ⟨2, 1000⟩ 100 ⟨0, false⟩ (sell100 10)).ok = true
    ∧ (step owing ⟨2, 1000⟩ 100 ⟨0, false⟩ (sell100 10)).engine.positions
      = [⟨10, 100, .addToAmm, Integer.newPositive 74503439, 91545392, 680005837, Integer.zero, 2⟩]
    ∧ positionNotionalPnl ({ owing with env := ⟨2, 1000⟩ } : World).q owing.engine
        (readPosition owing.engine 10 100) .spot = .ok (780048892, Integer.newPositive 48892)
    ∧ W.fundingOwed owing (readPosition owing.engine 10 100) = 8460445
    ∧ Spec.C11.checkCharge (modelStep owing ⟨2, 1000⟩ 100 ⟨0, false⟩ (sell100 10)) = [] := by
  decide +kernel

/-- the same long opened at 600 (spot PnL +180.048892) owing 200.004919 of funding (checkpoint −2.364) -/
def drowned : World :=
  world (eng false (5 * 10^4) (25 * 10^4)
      [⟨10, 100, .addToAmm, Integer.newPositive 84604450, 100 * D, 600 * D, Integer.newNegative 2364000, 1⟩])
    (vamm (10000 * D) (1000 * D) 0 1800 (Integer.newPositive 84604450))

set_option maxRecDepth 100000 in
/-- **point (a): the reduce path does not reject bad debt.**  margin 100 + realised 21.496219 − funding 200.004919
    is negative; `calc_remain_margin_with_funding_payment` clamps the margin at 0 and `update_position_reply`
    stores it (the remaining position still passes the final margin-ratio guard on its unrealised PnL): the
    order is ACCEPTED with stored margin 0 — the `max 0` of the clause, which is empty.  (On the partial-close
    path the same situation is rejected with guard 73: `SatExtra.Witness.c04_partial_regular_rejected`.) -/
theorem c11_charge_reduce_bad_debt :
    (modelStep drowned ⟨2, 1000⟩ 100 ⟨0, false⟩ (sell100 10)).ok = true
    ∧ (step drowned ⟨2, 1000⟩ 100 ⟨0, false⟩ (sell100 10)).engine.positions
      = [⟨10, 100, .addToAmm, Integer.newPositive 74503439, 0, 521496219, Integer.zero, 2⟩]
    ∧ positionNotionalPnl ({ drowned with env := ⟨2, 1000⟩ } : World).q drowned.engine
        (readPosition drowned.engine 10 100) .spot = .ok (780048892, Integer.newPositive 180048892)
    ∧ W.fundingOwed drowned (readPosition drowned.engine 10 100) = 200004919
    ∧ Spec.C11.checkCharge (modelStep drowned ⟨2, 1000⟩ 100 ⟨0, false⟩ (sell100 10)) = [] := by
  decide +kernel

set_option maxRecDepth 100000 in
/-- not vacuous on the partial-close path: `SatExtra.Witness.reg` (regular regime, partial-close ratio 98 %)
    with checkpoint −0.001: the long of 5657 base owes 5.657; ClosePosition takes the partial path, the
    position remains (113.140002 base) with margin 511.071831 = 500 + realised 16.728831 − 5.657; the clause is
    empty.  And the overshooting partial close of `SatExtra.Witness.lowPrice` (sign flip −6 → +2) is judged like
    the engine judges it -/
theorem c11_charge_partial_close :
    (modelStep (reg (500 * D) (Integer.newNegative 1000)) ⟨2, 1000⟩ 100 ⟨0, false⟩ close10).ok = true
    ∧ (step (reg (500 * D) (Integer.newNegative 1000)) ⟨2, 1000⟩ 100 ⟨0, false⟩ close10).engine.positions
      = [⟨10, 100, .addToAmm, Integer.newPositive 113140002, 511071831, 3878543, Integer.zero, 2⟩]
    ∧ W.fundingOwed (reg (500 * D) (Integer.newNegative 1000))
        (readPosition (reg (500 * D) (Integer.newNegative 1000)).engine 10 100) = 5657000
    ∧ Spec.C11.checkCharge (modelStep (reg (500 * D) (Integer.newNegative 1000)) ⟨2, 1000⟩ 100 ⟨0, false⟩ close10) = []
    ∧ Spec.C11.checkCharge (modelStep lowPrice ⟨2, 1000⟩ 100 ⟨0, false⟩ close10) = [] := by
  decide +kernel

end Witness

end Perp.Props.SatExtra2
