/-
  The refinement theorems that assume `Mirror.CurveRegular`, under the per-transaction hypothesis
  `CurveTx.CurveRegularTx` (or less):

    * `sat_C02_tx`     `SatA.sat_C02` with `CurveRegularTx w env s tx`;
    * `caps_clause_tx` / `sat_C20_tx`   `SatC.caps_clause` / `SatC.sat_C20` with `CurveTx.UnitReserves w` ONLY (the
      clause `open-interest-above-cap` concerns the reducing path of an OpenPosition: `MirrorP.noflip_reduce`,
      which never reads the price conjunct);
    * `partial_core_tx`  the last conjunct of `SatExtra.partial_core` (`Mirror.CurveRegular w → bo ≤ |size|`)
      with `CurveRegularTx` (long: `UnitReserves`; short: the hypothesis itself).

  `SatE.C15_tags_within` keeps `Mirror.CurveRegular`: see the note at the end of this file.
-/
import Perp.Props.CurveTx
import Perp.Props.SatA
import Perp.Props.SatC
import Perp.Props.SatExtra

namespace Perp.Props.CurveTx
open Perp Perp.World Perp.Engine Perp.Spec Perp.Props.ModelStep
open Perp.Props.Dispatch

/-! ## C02 -/

/-- `SatA.c02_sat` / `SatA.sat_C02` under the per-transaction hypothesis -/
theorem sat_C02_tx (w : World) (env : Env) (s : Nat) (f : Funds) (tx : Tx) (_hwf : WF w)
    (hI : Mirror.Inv w) (hs : SatA.SenderNotEngine s) (hcr : CurveRegularTx w env s tx)
    (hnr : SatA.NotRewireOrNodup w tx) :
    Spec.C02.check (modelStep w env s f tx) = [] := by
  rcases except_cases (applyTx w env s f tx) with ⟨e, h⟩ | ⟨w', h⟩
  · rw [SatA.modelStep_err h]
    exact SatA.c02_of_mirror _ hI.1.1
  · rw [SatA.modelStep_ok h]
    by_cases hr : Mirror.NotRewire tx
    · exact SatA.c02_of_mirror _ (inv_step_tx w w' env s f tx hI hs ((Mirror.notRewire_iff tx).1 hr) hcr h).1.1
    · have hn : SatA.VammKeysNodup w := hnr.resolve_left hr
      cases tx
      case vammConfig v u => exact SatA.c02_of _ (SatA.c02_vammConfig w w' env s f v u hI.1.1 hn h)
      all_goals exact absurd trivial hr

/-- `SatA.sat_C02'` under the per-transaction hypothesis -/
theorem sat_C02_tx' (w : World) (env : Env) (s : Nat) (f : Funds) (tx : Tx) (hwf : WF w)
    (hI : Mirror.Inv w) (hs : UserSender w s) (hcr : CurveRegularTx w env s tx) (hnr : Mirror.NotRewire tx) :
    Spec.C02.check (modelStep w env s f tx) = [] :=
  sat_C02_tx w env s f tx hwf hI (SatA.senderNotEngine_of_user hs) hcr (Or.inl hnr)

/-! ## C20 -/

open Perp.Props.SatC in
/-- `SatC.caps_clause` with the reserves ≥ one unit only -/
theorem caps_clause_tx (w w' : World) (env : Env) (s : Nat) (f : Funds) (v : Nat) (side : Side) (mg l b : Nat)
    (hsd : Mirror.SignDir w.engine) (hu : UnitReserves w)
    (hwl : w.engine.whitelist.contains s = false)
    (h : applyTx w env s f (.engine (.openPosition v side mg l b)) = .ok w')
    (x : Vamm.V) (hx : w'.vamm? v = some x) :
    (x.cfg.holdingCap ≠ 0 → (readPosition w'.engine v s).size.toInt.natAbs ≤ x.cfg.holdingCap)
    ∧ (((readPosition w'.engine v s).size.toInt.natAbs > (readPosition w.engine v s).size.toInt.natAbs
          ∨ (readPosition w.engine v s).size.toInt * (readPosition w'.engine v s).size.toInt < 0) →
        x.cfg.oiCap ≠ 0 → w'.engine.st.oi ≤ x.cfg.oiCap) := by
  obtain ⟨W, sw, msgs, hsw, sv, st, ss, hWenv, hWwl, hvm, henv, hcase⟩ := open_flow w w' env s f v side mg l b h
  have hxW : W.vamm? v = some x := by rw [← MirrorP.vamm?_of_vamms hvm]; exact hx
  have hq := q_vammCaps W v x hxW
  have hwlW : W.engine.whitelist.contains sw.trader = false := by rw [hWwl, st]; exact hwl
  have hk := EngineMoney.getPosition_key W.env W.engine sw.vamm sw.trader sw.side
  have hold : ∀ N bb id, updatePositionReply W.q W.engine W.env N bb id = .ok (w'.engine, msgs) →
      x.cfg.holdingCap ≠ 0 → (readPosition w'.engine v s).size.toInt.natAbs ≤ x.cfg.holdingCap := by
    intro N bb id hu hcap
    obtain ⟨st1, p', _, _, hpos, hpv, hpt, hchk, _⟩ := updatePositionReply_caps _ _ _ _ _ _ sw hsw _ hu
    have hr : readPosition w'.engine v s = p' := read_stored hpos ((hpv.trans hk.1).trans sv) ((hpt.trans hk.2).trans st)
    rw [hr, C19.toInt_natAbs]
    rw [sv] at hchk
    exact EngineGuards.holding_cap _ _ _ _ _ _ _ hchk hq hcap hwlW
  rcases hcase with ⟨N, bb, hu'⟩ | ⟨N, bb, hu', hposW, hdir, Wq, pn, x0, hWq, hout, hgt, hx0, hqi⟩ | ⟨o, hu', _, hz⟩
  · refine ⟨hold _ _ _ hu', fun _ hcap => ?_⟩
    obtain ⟨st1, p', hoi, hoi2, _⟩ := updatePositionReply_caps _ _ _ _ _ _ sw hsw _ hu'
    rw [if_pos rfl, sv] at hoi
    dsimp only at hoi2
    rw [hoi2]
    exact EngineGuards.oi_cap _ _ _ _ _ _ _ _ _ hoi hq hcap rfl hwlW
  · refine ⟨hold _ _ _ hu', fun hinc _ => ?_⟩
    exfalso
    obtain ⟨⟨p', hpos, hpv, hpt, hsz, _⟩, _⟩ := MirrorP.updatePositionReply_eff _ _ _ _ _ _ sw hsw _ hu'
    have hr : readPosition w'.engine v s = p' := read_stored hpos ((hpv.trans hk.1).trans sv) ((hpt.trans hk.2).trans st)
    have hrW : readPosition W.engine v s = readPosition w.engine v s := WorldInv.rp_same v s hposW
    rw [MirrorP.getPosition_size, sv, st, ss, hrW] at hsz
    rw [hr, hsz] at hinc
    have hdir' : MirrorP.gdir w.engine v s side ≠ sideToDirection side := by
      rw [← MirrorP.getPosition_direction env]; exact hdir
    have hgd := MirrorP.gdir_ne hdir'
    rw [MirrorP.getPosition_direction, hgd, MirrorP.getPosition_size] at hout
    have hne : (readPosition w.engine v s).direction ≠ sideToDirection side := by rw [← hgd]; exact hdir'
    have hSD : MirrorP.SD (readPosition w.engine v s) := MirrorP.SD_read w.engine v s hsd
    have hU : UnitResF Wq.vamm? := by rw [MirrorP.vamm?_of_vamms hWq]; exact hu
    have hb := noflip_reduce_tx Wq (readPosition w.engine v s) side N pn v hU hne hout hgt x0 bb hx0 hqi
    have hv := C19.toInt_natAbs (readPosition w.engine v s).size
    rw [MirrorP.signedOutput_toInt] at hinc
    have hS1 : 0 < (readPosition w.engine v s).size.toInt → (readPosition w.engine v s).direction = .addToAmm := hSD.1
    have hS2 : (readPosition w.engine v s).size.toInt < 0 → (readPosition w.engine v s).direction = .removeFromAmm := hSD.2
    generalize (readPosition w.engine v s).size.toInt = a at hinc hv hS1 hS2
    generalize (readPosition w.engine v s).size.value = av at hb hv
    cases side with
    | buy =>
      simp only [] at hinc
      have ha : ¬ 0 < a := fun hh => hne (hS1 hh)
      rcases hinc with hinc | hinc
      · omega
      · have := Int.mul_nonneg_of_nonpos_of_nonpos (a := a) (b := a + bb) (by omega) (by omega)
        omega
    | sell =>
      simp only [] at hinc
      have ha : ¬ a < 0 := fun hh => hne (hS2 hh)
      rcases hinc with hinc | hinc
      · omega
      · have := Int.mul_nonneg (a := a) (b := a + -(bb : Int)) (by omega) (by omega)
        omega
  · have h0 : (readPosition w'.engine v s).size.toInt = 0 := by rw [hz]; rfl
    rw [h0]
    refine ⟨fun _ => by simp, fun hinc _ => ?_⟩
    exfalso
    rcases hinc with hinc | hinc
    · simp at hinc
    · simp at hinc

open Perp.Props.SatC in
/-- **C20 with the reserves ≥ one unit only** (`SatC.sat_C20` assumes `Mirror.CurveRegular w`; its price conjunct
    is not used: the clause `open-interest-above-cap` concerns the reducing path of an OpenPosition) -/
theorem sat_C20_unit (w : World) (env : Env) (s : Nat) (f : Funds) (tx : Tx) (_hwf : WF w)
    (hcfg : AllConfigOK w) (hsd : Mirror.SignDir w.engine) (hu : UnitReserves w) :
    Spec.C20.check (modelStep w env s f tx) = [] := by
  cases h : applyTx w env s f tx with
  | error e =>
    rw [ms_err h]
    unfold C20.check
    dsimp only
    refine append_eq_nil' (append_eq_nil' (c20_bounds w hcfg) ?_) ?_
    · cases tx <;> first | rfl | (rw [chk_nil]; rfl)
    · unfold W.engineMsg
      cases tx with
      | engine m => cases m <;> rfl
      | _ => rfl
  | ok w' =>
    rw [ms_ok h]
    unfold C20.check
    dsimp only
    refine append_eq_nil' (append_eq_nil' (c20_bounds w' (allConfigOK_applyTx w w' env s f tx hcfg h)) ?_) ?_
    · cases tx
      case ifAdd v =>
        dsimp only
        rw [chk_nil, ifAdd_decimals w w' env s f v h]
        simp
      all_goals rfl
    · unfold W.engineMsg
      cases tx with
      | engine m =>
        cases m with
        | openPosition v side mg l b =>
          dsimp only
          cases hwl : W.whitelisted w s with
          | true => rfl
          | false =>
            simp only [Bool.true_and, Bool.not_false, if_true]
            cases hx : w'.vamm? v with
            | none => rfl
            | some x =>
              obtain ⟨c1, c2⟩ := caps_clause_tx w w' env s f v side mg l b hsd hu hwl h x hx
              have c1' : x.cfg.holdingCap ≠ 0 → (W.pos w' v s).size.toInt.natAbs ≤ x.cfg.holdingCap := c1
              have c2' : ((W.pos w' v s).size.toInt.natAbs > (W.pos w v s).size.toInt.natAbs
                  ∨ (W.pos w v s).size.toInt * (W.pos w' v s).size.toInt < 0) →
                  x.cfg.oiCap ≠ 0 → w'.engine.st.oi ≤ x.cfg.oiCap := c2
              refine append_eq_nil' ?_ ?_
              · rw [chk_nil]
                apply not_and3
                intro ha hb
                simp only [Bool.or_eq_true, decide_eq_true_eq, ne_eq] at ha hb
                have := c2' ha hb
                simp only [decide_eq_false_iff_not]
                omega
              · rw [chk_nil]
                apply not_and3
                intro _ hb
                simp only [decide_eq_true_eq, ne_eq] at hb
                have := c1' hb
                simp only [decide_eq_false_iff_not]
                omega
        | _ => rfl
      | _ => rfl

/-- `SatC.sat_C20` under the per-transaction hypothesis -/
theorem sat_C20_tx (w : World) (env : Env) (s : Nat) (f : Funds) (tx : Tx) (hwf : WF w)
    (hcfg : SatC.AllConfigOK w) (hsd : Mirror.SignDir w.engine) (hcr : CurveRegularTx w env s tx) :
    Spec.C20.check (modelStep w env s f tx) = [] :=
  sat_C20_unit w env s f tx hwf hcfg hsd hcr.1

/-! ## the partial-close core of `SatExtra` -/

section
open Perp.Spec.W Perp.Props.SatTrace Perp.Props.SatExtra
open Perp.Props.MirrorP (AllCE)

/-- `SatExtra.partial_core` with its last conjunct under the per-transaction hypothesis: on the partial path the
    closing swap takes at most `|size|` out of the position (proof: the same, the curve step by
    `close_noflip_tx`) -/
theorem partial_core_tx (w w' : World) (env : Env) (s : Nat) (f : Funds) (v l : Nat)
    (h : applyTx w env s f (.engine (.closePosition v l)) = .ok w') :
    W.hasPos w' v s = false
    ∨ ∃ (pn : Nat) (u : Integer) (bo : Nat),
        ¬ (readPosition w.engine v s).size.value = 0
        ∧ positionNotionalPnl ({ w with env := env } : World).q w.engine (readPosition w.engine v s) .spot = .ok (pn, u)
        ∧ (readPosition w'.engine v s).size.toInt
            = (readPosition w.engine v s).size.toInt
              + (signedOutput (positionToSide (readPosition w.engine v s).size) bo).toInt
        ∧ 0 ≤ ((readPosition w.engine v s).margin : Int)
              + Int.tdiv (u.toInt * (bo : Int)) ((readPosition w.engine v s).size.value : Int)
              - W.fundingOwed w (readPosition w.engine v s)
        ∧ (CurveRegularTx w env s (.engine (.closePosition v l)) → bo ≤ (readPosition w.engine v s).size.value) := by
  obtain ⟨w1, e1, x, sw, msgs, over, hst, _, hxv, hnz, pv, pt, hex, hsw, sv, st, hpos, hcfg, hvm, _, hover, hcase⟩ :=
    SatFlows.close_flow w w' env s f v l h
  have hk := EngineMoney.getPosition_key env e1 sw.vamm sw.trader sw.side
  rcases hcase with ⟨_, _, x', qo, w2, e3, subs3, _, _, _, _, hrep, _, he3, _, _⟩
      | ⟨hyes, hside, N, x', bo, w2, e3, subs3, hswap, hrep, _, he3, _, hmsg⟩
  · left
    obtain ⟨hp', _⟩ := MirrorP.closePositionReply_eff _ _ _ _ sw hsw _ hrep
    exact hasPos_remove e1 e3 w' _ v s he3 hp' (hk.1.trans sv) (hk.2.trans st)
  · right
    have hrd : readPosition e1 sw.vamm sw.trader = readPosition w.engine v s := by
      rw [sv, st]; exact WorldInv.rp_same v s hpos
    -- the PnL in flight
    have hu := closePosition_upnl _ _ _ _ _ _ _ hex
    dsimp only at hu
    rcases hu with ⟨m, hm, hid⟩ | ⟨pn, u, tmp, hpnl, htmp, hup⟩
    · exfalso
      rw [hmsg] at hm
      injection hm with hm
      subst hm
      exact absurd hid (Nat.ne_of_beq_eq_false rfl)
    have hts : tmp = sw := by
      rw [hsw] at htmp
      injection htmp with h'
      exact h'.symm
    subst hts
    rw [SatC11.pnl_spot_congr w1.q ({ w with env := env } : World).q _ _ (SatC11.start_outputAmount hst)] at hpnl
    -- the reply
    obtain ⟨realized, rm, hr, hrm, hb, _, _, _⟩ :=
      EngineMoney.partialClose_no_bad_debt w2.q e1 e3 env N bo subs3 tmp hsw hrep
    have hsz : (getPosition env e1 tmp.vamm tmp.trader tmp.side).size = (readPosition w.engine v s).size := by
      rw [MirrorP.getPosition_size, hrd]
    have hnz' : ¬ (getPosition env e1 tmp.vamm tmp.trader tmp.side).size.value = 0 := by rw [hsz]; exact hnz
    have hreal := realizedPnl_toInt _ _ _ _ _ hnz' hr
    rw [hsz, hup] at hreal
    obtain ⟨_, _, _, hbad⟩ := EngineMoney.calcRemainMargin_spec e1 _ realized rm hrm
    have hfo : EngineMoney.fundingOwed e1 (getPosition env e1 tmp.vamm tmp.trader tmp.side)
        = W.fundingOwed w (readPosition w.engine v s) := by
      rw [SatC11.fundingOwed_get, hrd, SatC11.fundingOwed_congr hvm hcfg]
      rfl
    have hmg : (getPosition env e1 tmp.vamm tmp.trader tmp.side).margin = (readPosition w.engine v s).margin := by
      rw [SatC11.getPosition_margin, hrd]
    rw [hfo, hmg, hreal] at hbad
    -- the stored size
    obtain ⟨⟨p', hp', pv', pt', psz, _⟩, _⟩ := MirrorP.partialClosePositionReply_eff _ _ _ _ _ tmp hsw _ hrep
    dsimp only at hp' pv' pt' psz
    have hread : readPosition w'.engine v s = p' := by
      rw [he3]; exact read_of_store e1 e3 p' v s hp' ((pv'.trans hk.1).trans sv) ((pt'.trans hk.2).trans st)
    rw [hsz, hside] at psz
    refine ⟨pn, u, bo, hnz, hpnl, by rw [hread]; exact psz, ?_, fun hcr => ?_⟩
    · refine Int.not_lt.1 (fun hlt => ?_)
      have := (hbad (by omega)).2
      rw [hb] at this
      omega
    · -- the curve: the re-quoted base amount does not exceed the position
      have hU1 : UnitResF w1.vamm? := by rw [MirrorP.vamm?_of_vamms hst.vamms]; exact hcr.1
      have hP1 := partialShortQ_start (w1 := w1) hst.env hst.vamms hcr.close
      have hnf := close_noflip_tx w1 w.engine env s v l e1 msgs hU1 hP1 hex N (by rw [hmsg, pv])
      obtain ⟨b, hqi, _, ho', _⟩ := C17.swapInput_inv _ _ _ _ _ _ _ _ _ hswap
      injection ho' with _ _ hbo
      subst hbo
      exact hnf x _ ((hst.vamm? v).trans hxv) hqi

end

end Perp.Props.CurveTx
