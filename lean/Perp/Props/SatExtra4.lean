/-
  Refinement theorem for `Spec.C14.checkPauseLive` (the permission / liveness sentence of C14 about a paused engine):
  the clause is judged on the implementation's error text; a model step carries none, so the model satisfies it for every
  world and transaction.  That the model's Liquidate / PayFunding really do not consult the pause flag is
  `EngineGuards.liquidate_ignores_pause` / `payFunding_ignores_pause`.
-/
import Perp.Spec.Registry
import Perp.Props.ModelStep

namespace Perp.Props.SatExtra4
open Perp Perp.World Perp.Engine Perp.Spec Perp.Props.ModelStep

theorem modelStep_err (w : World) (env : Env) (s : Nat) (f : Funds) (tx : Tx) : (modelStep w env s f tx).err = "" := by
  unfold modelStep
  split <;> rfl

theorem sat_C14_pauseLive (w : World) (env : Env) (s : Nat) (f : Funds) (tx : Tx) :
    Spec.C14.checkPauseLive (modelStep w env s f tx) = [] := by
  have herr := modelStep_err w env s f tx
  unfold Spec.C14.checkPauseLive
  split <;> simp [herr, W.chk]

theorem sat_extra4 (w : World) (env : Env) (s : Nat) (f : Funds) (tx : Tx) :
    ∀ pc ∈ Spec.extraChecks4 (modelStep w env s f tx), pc.2 = [] := by
  intro pc hpc
  simp only [Spec.extraChecks4, List.mem_singleton] at hpc
  subst hpc
  exact sat_C14_pauseLive w env s f tx

end Perp.Props.SatExtra4
