/-
  C04 / C12, close-position part: the transfer log, the payout and the fee of a `ClosePosition`
  transaction, for the whole close (reply id 4) and the partial close (reply id 5).
-/
import Perp.Props.SatOpen

namespace Perp.Props.SatClose
open Perp Perp.World Perp.Engine
open Perp.Props.TxLog Perp.Props.TxMoney Perp.Props.TxFlow Perp.Props.SatOpen
open Perp.Props.MirrorP (AllCE vammE_ok setVamm_vamm_same)
open Perp.Props.EngineMoney (readPosition_key calcRemainMargin_spec)

theorem any_erase (ps : List Position) (v t : Nat) :
    (erasePosition ps v t).any (fun p => p.vamm == v && p.trader == t) = false := by
  unfold erasePosition
  induction ps with
  | nil => rfl
  | cons a ps ih =>
    rw [List.filter_cons]
    split
    · rename_i hc
      rw [List.any_cons, ih]
      simp only [Bool.not_eq_true'] at hc
      rw [hc]; rfl
    · exact ih

theorem any_store (e : E) (p' : Position) :
    (storePosition e p').positions.any (fun p => p.vamm == p'.vamm && p.trader == p'.trader) = true := by
  unfold storePosition
  simp

/-- a record with a non-zero size was found under its key -/
theorem read_keys (e : E) (v t : Nat) (h : ¬ (readPosition e v t).size.value = 0) :
    (readPosition e v t).vamm = v ∧ (readPosition e v t).trader = t := by
  rcases readPosition_key e v t with hk | hk
  · exact hk
  · rw [hk] at h; exact absurd rfl h

/-- what the close reply reads back is the stored record, up to the block stamp -/
theorem getPosition_close (env : Env) (e : E) (p : Position)
    (hr : readPosition e p.vamm p.trader = p) :
    ∃ blk, getPosition env e p.vamm p.trader (directionToSide p.direction) = { p with block := blk } := by
  unfold getPosition
  simp only [hr]
  split
  · refine ⟨env.height, ?_⟩
    rw [MirrorP.side_dir]
  · exact ⟨p.block, rfl⟩

/-- the equity of a position closed for `out` quote: margin + realised PnL − funding owed -/
def equity (w : World) (p : Position) (out : Int) : Int :=
  (p.margin : Int)
    + (match p.direction with
       | .addToAmm => out - (p.notional : Int)
       | .removeFromAmm => (p.notional : Int) - out)
    - Spec.W.fundingOwed w p

theorem feeOn_zero (x : Vamm.V) : feeOn x 0 = (0, 0) := by simp [feeOn]

/-- **C04 / C12, close** -/
theorem close_facts (w w' : World) (env : Env) (s : Nat) (f : Funds) (v lim : Nat)
    (hp : PoolsWired w) (hs : Outside s)
    (h : applyTx w env s f (.engine (.closePosition v lim)) = .ok w') :
    let p := readPosition w.engine v s
    ∃ (x x' : Vamm.V) (tl sp : Nat), w.vamm? v = some x ∧ w'.vamm? v = some x'
      ∧ Is w'.log tl 0 sp ((w'.engine.st.prepaid : Int) - (w.engine.st.prepaid : Int)) (if tl = 0 then 0 else 1)
      ∧ ((w'.engine.positions.any (fun r => r.vamm == v && r.trader == s) = false
            ∧ feeOn x p.notional = (tl, sp)
            ∧ 0 ≤ equity w p (((x'.st.quote : Int) - (x.st.quote : Int)).natAbs)
            ∧ pay s w'.log = equity w p (((x'.st.quote : Int) - (x.st.quote : Int)).natAbs))
         ∨ (w'.engine.positions.any (fun r => r.vamm == v && r.trader == s) = true
            ∧ feeOn x (((x'.st.quote : Int) - (x.st.quote : Int)).natAbs) = (tl, sp))) := by
  intro p
  obtain ⟨w1, e1, subs, he, henv, hv, hi, hlog, _, hex, hrun⟩ := tx_decomp w w' env s f _ h
  have hex' : closePosition w1.q w1.engine env s v lim = .ok (e1, subs) := hex
  have hp1 : readPosition w1.engine v s = p := by rw [he]
  obtain ⟨hsz, tmp, he1, htv, htt, hshape⟩ := closePosition_tmp _ _ _ _ _ _ _ _ hex'
  rw [hp1] at hsz htv htt hshape
  obtain ⟨hpv, hpt⟩ := read_keys w.engine v s hsz
  have hpv' : p.vamm = v := hpv
  have hpt' : p.trader = s := hpt
  rw [hpv'] at htv hshape
  rw [hpt'] at htt
  have hvm : ∀ a, w1.vamm? a = w.vamm? a := fun a => by unfold World.vamm?; rw [hv]
  have hsw : ({ w1 with engine := e1 } : World).engine.tmpSwap = some tmp := by rw [he1]
  have hcfg1 : e1.cfg = w.engine.cfg := by rw [he1]; show w1.engine.cfg = _; rw [he]
  have hpos1 : e1.positions = w.engine.positions := by rw [he1]; show w1.engine.positions = _; rw [he]
  have hvm1 : e1.vammMaps = w.engine.vammMaps := by rw [he1]; show w1.engine.vammMaps = _; rw [he]
  have hst1 : e1.st = w.engine.st := by rw [he1]; show w1.engine.st = _; rw [he]
  have hsT : Outside tmp.trader := by rw [htt]; exact hs
  have hIfu := Is_funds w.engine.cfg.native s f hs
  have hPfu := pay_funds w.engine.cfg.native s f hs
  rw [← hlog] at hIfu hPfu
  rcases hshape with ⟨hside, hon, hup, rfl⟩ | rfl
  · -- whole close
    obtain ⟨f1, w2, ev, e2, subs2, hx, hr, hrun2⟩ := swap_reply FUEL _ w' _ rfl hrun
    have hx' : execMsg f1 { w1 with engine := e1 } ENGINE
        (.vammSwapOutput v (sideToDirection (directionToSide p.direction)) p.size.value lim) = .ok (w2, ev) := hx
    obtain ⟨x, x', qq, hxa, rfl, hxa', rfl, hc, hq⟩ := swapOut_exec _ _ _ _ _ _ _ _ hx'
    have h' : closePositionReply (({ w1 with engine := e1 } : World).setVamm v x').q e1 w1.env qq = .ok (e2, subs2) := hr
    have hce : AllCE subs2 := ((MirrorP.closePositionReply_eff _ _ _ _ tmp hsw) _ h').2
    obtain ⟨delta, rm, wa, sf, wm, fm, hd, hrm, hbd, hwa, hwm, hfm, hm, hpp, hposs⟩ :=
      closePositionReply_money _ _ _ _ _ _ tmp hsw h'
    simp only [] at hd hrm hfm hposs
    -- the record the reply reads
    have hread : readPosition e1 p.vamm p.trader = p := by
      rw [hpv', hpt']
      unfold readPosition; rw [hpos1]; rfl
    obtain ⟨blk, hgp⟩ := getPosition_close w1.env e1 p hread
    rw [htv, htt, hside, ← hpv', ← hpt'] at hd hrm hfm hposs
    rw [hgp] at hd hrm hfm hposs
    obtain ⟨hsame, hlogW⟩ := run_CE_all subs2 f1 _ w' hce hrun2
    have hw'e : w'.engine = e2 := hsame.engine
    -- arithmetic of the equity
    have hdelta : delta.toInt = (match p.direction with
        | .addToAmm => (qq : Int) - (p.notional : Int)
        | .removeFromAmm => (p.notional : Int) - (qq : Int)) := by
      unfold closeMarginDelta at hd
      simp only [] at hd
      rw [hon] at hd
      cases hdir : p.direction <;> rw [hdir] at hd <;> simp only [] at hd
      · rw [(C19.sub_ok _ _ _ hd).1, C19.toInt_newPositive, C19.toInt_newPositive]
      · rw [(C19.sub_ok _ _ _ hd).1, C19.toInt_newPositive, C19.toInt_newPositive]
    have hfo : EngineMoney.fundingOwed e1 { p with block := blk } = Spec.W.fundingOwed w p := by
      unfold EngineMoney.fundingOwed Spec.W.fundingOwed EngineMoney.trunc Spec.W.trunc latestCum readVammMap
      rw [hvm1, hcfg1]
    obtain ⟨_, _, hok, hbad⟩ := calcRemainMargin_spec e1 _ delta rm hrm
    rw [hfo] at hok hbad
    have hmar : ({ p with block := blk } : Position).margin = p.margin := rfl
    rw [hmar] at hok hbad
    have hnn : 0 ≤ delta.toInt - Spec.W.fundingOwed w p + (p.margin : Int) := by
      by_cases hc0 : 0 ≤ delta.toInt - Spec.W.fundingOwed w p + (p.margin : Int)
      · exact hc0
      · exfalso
        have := (hbad (by omega)).2
        omega
    have hrmm : (rm.margin : Int) = equity w p qq := by
      rw [(hok hnn).1]
      unfold equity
      rw [hdelta]; omega
    have hwav : wa.value = rm.margin := by
      have e1' := (C19.checkedAdd_ok _ _ _ hwa).1
      rw [hup, C19.toInt_newPositive] at e1'
      have hz : Integer.zero.toInt = 0 := rfl
      have := C19.toInt_natAbs wa
      omega
    -- the fee part
    have hnot : ({ p with block := blk } : Position).notional = p.notional := rfl
    rw [hnot] at hfm
    have hFee : ∃ tl sp, feeOn x p.notional = (tl, sp) ∧ Is (ents fm) tl 0 sp 0 (if tl = 0 then 0 else 1)
        ∧ pay s (ents fm) = 0 := by
      split at hfm
      · obtain ⟨sp, tl, htf⟩ := hfm
        rw [hpt'] at htf
        obtain ⟨hcf, _⟩ := EngineGuards.transferFees_spec _ _ _ _ _ _ _ _ htf
        obtain ⟨y, hy, hfee⟩ := calcFee_ok _ _ _ _ _ hcf
        rw [hpv'] at hy
        rw [hxa'] at hy
        cases hy
        refine ⟨tl, sp, by rw [← feeOn_cfg x x' _ hc]; exact hfee, ?_, ?_⟩
        · exact Is_fees _ _ _ _ _ _ _ _ htf (by rw [hcfg1]; exact hp.1) (by rw [hcfg1]; exact hp.2) hs
        · exact pay_fees _ _ _ _ _ _ _ _ htf (by rw [hcfg1]; exact hp.1) (by rw [hcfg1]; exact hp.2) hs
      · rename_i hn0
        have : p.notional = 0 := by omega
        rw [this, hfm]
        exact ⟨0, 0, feeOn_zero x, Is_nil, rfl⟩
    obtain ⟨tl, sp, hfee, hIfee, hPfee⟩ := hFee
    -- the payout part
    have hWm : Is (ents wm) 0 0 0 sf 0 ∧ pay s (ents wm) = rm.margin := by
      rw [htt] at hwm
      split at hwm
      · rename_i hz
        obtain ⟨rfl, rfl⟩ := hwm
        have : wa.value = 0 := by simpa [Integer.isZero] using hz
        exact ⟨Is_nil, by rw [← hwav, this]; rfl⟩
      · rw [hwm]
        exact ⟨Is_wd _ _ _ _ hs, by rw [pay_wd, hwav]⟩
    refine ⟨x, x', tl, sp, by rw [← hvm]; exact hxa, ?_, ?_, Or.inl ⟨?_, hfee, ?_, ?_⟩⟩
    · rw [hsame.vamm?]; exact hxa'
    · rw [hlogW, hm]
      have hpre : (w'.engine.st.prepaid : Int) - (w.engine.st.prepaid : Int) = sf := by
        rw [hw'e, hpp, hst1]; omega
      rw [hpre]
      show Is (w1.log ++ ents (wm ++ fm)) _ _ _ _ _
      rw [ents_append]
      exact Is_cast (Is_append hIfu (Is_append hWm.1 hIfee)) (by omega) rfl (by omega) (by omega) (by omega)
    · rw [hw'e, hposs]
      show (erasePosition e1.positions p.vamm p.trader).any _ = false
      rw [hpv', hpt']
      exact any_erase _ _ _
    · rw [hq, ← hrmm]; omega
    · rw [hq, hlogW, hm]
      show pay s (w1.log ++ ents (wm ++ fm)) = _
      rw [ents_append, pay_append, pay_append, hPfu, hWm.2, hPfee, ← hrmm]; omega
  · -- partial close
    obtain ⟨f1, w2, ev, e2, subs2, hx, hr, hrun2⟩ := swap_reply FUEL _ w' _ rfl hrun
    have hx' : execMsg f1 { w1 with engine := e1 } ENGINE
        (.vammSwapInput v (sideToDirection (positionToSide p.size)) tmp.openNotional 0 true) = .ok (w2, ev) := hx
    obtain ⟨x, x', bb, hxa, rfl, hxa', rfl, hc, hq⟩ := swapIn_exec _ _ _ _ _ _ _ _ _ hx'
    have h' : partialClosePositionReply (({ w1 with engine := e1 } : World).setVamm v x').q e1 w1.env
        tmp.openNotional bb = .ok (e2, subs2) := hr
    obtain ⟨fm, sp, tl, p', htf, hmm, hpp, hposs, hp'v, hp't⟩ := partialClose_money _ _ _ _ _ _ _ tmp hsw h'
    rw [hmm] at hrun2
    have hce : AllCE fm := MirrorP.transferFees_allCE' _ _ _ _ _ _ htf
    obtain ⟨hsame, hlogW⟩ := run_CE_all fm f1 _ w' hce hrun2
    have hw'e : w'.engine = e2 := hsame.engine
    obtain ⟨hcf, _⟩ := EngineGuards.transferFees_spec _ _ _ _ _ _ _ _ htf
    obtain ⟨y, hy, hfee⟩ := calcFee_ok _ _ _ _ _ hcf
    rw [htv, hxa'] at hy
    cases hy
    refine ⟨x, x', tl, sp, by rw [← hvm]; exact hxa, ?_, ?_, Or.inr ⟨?_, ?_⟩⟩
    · rw [hsame.vamm?]; exact hxa'
    · rw [hlogW]
      have hpre : (w'.engine.st.prepaid : Int) - (w.engine.st.prepaid : Int) = 0 := by
        rw [hw'e, hpp, hst1]; omega
      rw [hpre]
      have hIfee := Is_fees _ _ _ _ _ _ _ _ htf (by rw [hcfg1]; exact hp.1) (by rw [hcfg1]; exact hp.2) hsT
      exact Is_cast (Is_append hIfu hIfee) (by omega) rfl (by omega) (by omega) (by omega)
    · rw [hw'e, hposs, ← htv, ← htt, ← hp'v, ← hp't]
      exact any_store e1 p'
    · rw [hq, ← feeOn_cfg x x' _ hc]; exact hfee

end Perp.Props.SatClose
