/-
  SatTrace — shared infrastructure for the refinement theorems of group E (C11, C15, C17):
  the observation record of a model step, the decomposition of an engine transaction into
  `execute`, the one swap / settle it dispatches, the reply, and the fire-and-forget collateral
  messages that follow; the transfer log of collateral messages.
-/
import Perp.Model.World
import Perp.Spec.World
import Perp.Lemmas.Basic
import Perp.Props.ModelStep
import Perp.Props.Dispatch
import Perp.Props.EngineGuards
import Perp.Props.EngineMoney
import Perp.Props.WorldInv
import Perp.Props.C17
import Perp.Props.MirrorInv

namespace Perp.Props.SatTrace
open Perp Perp.World Perp.Engine Perp.Spec Perp.Props.ModelStep
open Perp.Props.Dispatch
open Perp.Props.MirrorP (AllCE CE IsColl AllCE_tail AllCE_nil execMsg_coll_frame)

/-! ### the observation record -/

/-- the observation of a successful model transaction -/
def okStep (w w' : World) (env : Env) (s : Nat) (f : Funds) (tx : Tx) : Step :=
  { pre := w, post := w', env := env, sender := s, funds := f, tx := tx, ok := true,
    xfers := w'.log, residue := residue w'.engine }

/-- the observation of a failed model transaction -/
def errStep (w : World) (env : Env) (s : Nat) (f : Funds) (tx : Tx) : Step :=
  { pre := w, post := w, env := env, sender := s, funds := f, tx := tx, ok := false,
    xfers := [], residue := residue w.engine }

theorem modelStep_ok {w w' : World} {env : Env} {s : Nat} {f : Funds} {tx : Tx}
    (h : applyTx w env s f tx = .ok w') : modelStep w env s f tx = okStep w w' env s f tx := by
  unfold modelStep okStep; rw [h]

theorem modelStep_err {w : World} {env : Env} {s : Nat} {f : Funds} {tx : Tx} {e : Err}
    (h : applyTx w env s f tx = .error e) : modelStep w env s f tx = errStep w env s f tx := by
  unfold modelStep errStep; rw [h]

/-! ### the world in which `execute` runs -/

structure Start (w w1 : World) (env : Env) : Prop where
  engine : w1.engine = w.engine
  env : w1.env = env
  vamms : w1.vamms = w.vamms
  ifund : w1.ifund = w.ifund
  feePool : w1.feePool = w.feePool
  feed : w1.feed = w.feed

theorem Start.vamm? {w w1 : World} {env : Env} (h : Start w w1 env) (a : Nat) : w1.vamm? a = w.vamm? a := by
  unfold World.vamm?; rw [h.vamms]

theorem engine_start (w w' : World) (env : Env) (s : Nat) (f : Funds) (m : ExecMsg)
    (h : applyTx w env s f (.engine m) = .ok w') :
    ∃ (w1 : World) (e1 : E) (subs : List SubMsg), Start w w1 env
      ∧ execute w1.q w1.engine env s f m = .ok (e1, subs)
      ∧ execSubs FUEL { w1 with engine := e1 } ENGINE subs = .ok w' := by
  obtain ⟨w1, e1, subs, a1, a2, a3, a4, a5, a6, hex, hrun⟩ := WorldInv.applyTx_engine_inv w w' env s f m h
  exact ⟨w1, e1, subs, ⟨a1, a2, a3, a4, a5, a6⟩, hex, hrun⟩

/-- without attached native funds the transaction starts from the pre-state itself (clock set, log emptied) -/
theorem engine_start_nofunds (w w' : World) (env : Env) (s : Nat) (f : Funds) (m : ExecMsg)
    (hnf : ¬ (w.engine.cfg.native = true ∧ f.amount ≠ 0))
    (h : applyTx w env s f (.engine m) = .ok w') :
    ∃ (e1 : E) (subs : List SubMsg),
      execute ({ w with env := env, log := [] } : World).q w.engine env s f m = .ok (e1, subs)
      ∧ execSubs FUEL { w with env := env, log := [], engine := e1 } ENGINE subs = .ok w' := by
  unfold applyTx at h
  dsimp only at h
  rw [if_neg hnf] at h
  simp at h
  obtain ⟨e', subs, hex, h⟩ := h
  exact ⟨e', subs, hex, h⟩

/-! ### running sub-messages -/

/-- a single sub-message with `ReplyOn::Always`: the message, the reply, the reply's own sub-messages -/
theorem execSubs_single (fuel : Nat) (w w' : World) (m : SubMsg) (hr : m.replyOn = .always)
    (h : execSubs fuel w ENGINE [m] = .ok w') :
    ∃ fuel' w1 ev e2 subs2, execMsg fuel' w ENGINE m.msg = .ok (w1, ev)
      ∧ replyOk w1.q w1.engine w1.env m.id ev = .ok (e2, subs2)
      ∧ execSubs fuel' { w1 with engine := e2 } ENGINE subs2 = .ok w' := by
  cases fuel with
  | zero => unfold execSubs at h; cases h
  | succ fuel =>
    obtain ⟨w1, ev, hx, hyes, _⟩ := execSubs_cons_ok fuel w w' ENGINE m [] h
    obtain ⟨_, e2, subs2, w3, hrep, hs2, hrest⟩ := hyes (Or.inl hr)
    rw [WorldInv.execSubs_nil _ _ _ _ hrest]
    exact ⟨fuel, w1, ev, e2, subs2, hx, hrep, hs2⟩

/-- the log entry of a collateral message dispatched by the engine -/
def collEntry (ife : Nat) : Msg → Nat × Nat × Nat
  | .tokenTransfer to amt => (ENGINE, to, amt)
  | .bankSend to amt => (ENGINE, to, amt)
  | .tokenTransferFrom owner to amt => (owner, to, amt)
  | .ifWithdraw amt => (IFUND, ife, amt)
  | _ => (0, 0, 0)

theorem execSubs_never_log (fuel : Nat) (w w' : World) (c : Nat) (s : SubMsg)
    (hs : (∃ to amt, s.msg = .bankSend to amt) ∨ (∃ to amt, s.msg = .tokenTransfer to amt))
    (hr : s.replyOn = .never)
    (h : execSubs fuel w c [s] = .ok w') :
    ∃ to amt, (s.msg = .bankSend to amt ∨ s.msg = .tokenTransfer to amt) ∧ amt ≠ 0 ∧ w'.log = w.log ++ [(c, to, amt)] := by
  cases fuel with
  | zero => unfold execSubs at h; cases h
  | succ fuel =>
    unfold execSubs at h
    simp only [hr] at h
    cases hx : execMsg fuel w c s.msg with
    | error err => simp [hx] at h
    | ok r =>
      obtain ⟨w1, ev⟩ := r
      simp [hx] at h
      have h1 : ∃ to amt, (s.msg = .bankSend to amt ∨ s.msg = .tokenTransfer to amt) ∧ amt ≠ 0
          ∧ w1.log = w.log ++ [(c, to, amt)] := by
        cases fuel with
        | zero => unfold execMsg at hx; cases hx
        | succ fuel =>
          unfold execMsg at hx
          rcases hs with ⟨to, amt, hs⟩ | ⟨to, amt, hs⟩
          · rw [hs] at hx
            simp at hx
            obtain ⟨g, hg, rfl, _⟩ := hx
            refine ⟨to, amt, Or.inl hs, ?_, rfl⟩
            intro h0
            unfold Ledger.bankSend at hg
            rw [if_pos h0] at hg
            cases hg
          · rw [hs] at hx
            simp at hx
            obtain ⟨g, hg, rfl, _⟩ := hx
            refine ⟨to, amt, Or.inr hs, ?_, rfl⟩
            intro h0
            unfold Ledger.tokenTransfer at hg
            rw [if_pos h0] at hg
            cases hg
      cases fuel with
      | zero => unfold execSubs at h; cases h
      | succ fuel =>
        unfold execSubs at h
        simp at h
        subst h
        exact h1

/-- a successful collateral message of the engine appends exactly its entry to the transfer log, and its
    amount is not zero -/
theorem execMsg_coll_log (fuel : Nat) (w w' : World) (m : Msg) (ev : Ev) (hm : IsColl m)
    (h : execMsg fuel w ENGINE m = .ok (w', ev)) :
    w'.log = w.log ++ [collEntry w.ifund.engine m] ∧ (collEntry w.ifund.engine m).2.2 ≠ 0 := by
  cases fuel with
  | zero => unfold execMsg at h; cases h
  | succ fuel =>
    unfold execMsg at h
    cases m with
    | vammSwapInput a d x l g => exact absurd hm id
    | vammSwapOutput a d x l => exact absurd hm id
    | vammSettle a => exact absurd hm id
    | vammSetOpen a o => exact absurd hm id
    | tokenTransfer to amt =>
      simp at h
      obtain ⟨g, hg, rfl, _⟩ := h
      refine ⟨rfl, ?_⟩
      intro h0
      have h0' : amt = 0 := h0
      unfold Ledger.tokenTransfer at hg
      rw [if_pos h0'] at hg
      cases hg
    | tokenTransferFrom owner to amt =>
      try simp only [] at h
      split at h
      · cases h
      simp at h
      obtain ⟨g, hg, rfl, _⟩ := h
      refine ⟨rfl, ?_⟩
      intro h0
      have h0' : amt = 0 := h0
      unfold Ledger.tokenTransferFrom at hg
      rw [if_pos h0'] at hg
      cases hg
    | bankSend to amt =>
      simp at h
      obtain ⟨g, hg, rfl, _⟩ := h
      refine ⟨rfl, ?_⟩
      intro h0
      have h0' : amt = 0 := h0
      unfold Ledger.bankSend at hg
      rw [if_pos h0'] at hg
      cases hg
    | ifWithdraw amt =>
      try simp only [] at h
      split at h
      · cases h
      split at h
      · cases h
      simp at h
      obtain ⟨w1, hs, rfl, _⟩ := h
      obtain ⟨to, a, hmsg, ha, hlog⟩ := execSubs_never_log _ _ _ _ _ (by split <;> simp) (by split <;> rfl) hs
      have : to = w.ifund.engine ∧ a = amt := by
        split at hmsg
        · rcases hmsg with hmsg | hmsg
          · injection hmsg with h1 h2; exact ⟨h1.symm, h2.symm⟩
          · cases hmsg
        · rcases hmsg with hmsg | hmsg
          · cases hmsg
          · injection hmsg with h1 h2; exact ⟨h1.symm, h2.symm⟩
      obtain ⟨rfl, rfl⟩ := this
      exact ⟨hlog, ha⟩

/-- running a prefix of fire-and-forget collateral messages: the engine, the vAMMs, the clock and the
    other contracts stay as they are, the transfer log grows by one entry per message -/
theorem coll_prefix : ∀ (pre : List SubMsg) (fuel : Nat) (w w' : World) (rest : List SubMsg),
    execSubs fuel w ENGINE (pre ++ rest) = .ok w' → AllCE pre →
    ∃ fuel' wm, execSubs fuel' wm ENGINE rest = .ok w' ∧ wm.engine = w.engine ∧ (∀ a, wm.vamm? a = w.vamm? a)
      ∧ wm.env = w.env ∧ wm.ifund = w.ifund ∧ wm.feed = w.feed
      ∧ wm.log = w.log ++ pre.map (fun m => collEntry w.ifund.engine m.msg)
      ∧ (∀ m ∈ pre, (collEntry w.ifund.engine m.msg).2.2 ≠ 0) := by
  intro pre
  induction pre with
  | nil =>
    intro fuel w w' rest h _
    exact ⟨fuel, w, h, rfl, fun _ => rfl, rfl, rfl, rfl, by simp, by intro m hm; cases hm⟩
  | cons p pre ih =>
    intro fuel w w' rest h hce
    cases fuel with
    | zero => unfold execSubs at h; cases h
    | succ fuel =>
      obtain ⟨h1, h2⟩ := AllCE_tail hce
      obtain ⟨w1, ev, hx, _, hno⟩ := execSubs_cons_ok fuel w w' ENGINE p (pre ++ rest) h
      have hrest := hno (WorldInv.not_reply_of_err h1.1)
      obtain ⟨he, hv⟩ := execMsg_coll_frame _ _ _ _ _ _ h1.2 hx
      obtain ⟨_, henv, hif, _, hfeed⟩ := (execMsg_engine_frame fuel).1 _ _ _ _ _ hx
      obtain ⟨hlog, hnz⟩ := execMsg_coll_log _ _ _ _ _ h1.2 hx
      obtain ⟨fuel', wm, hr, e1, e2, e3, e4, e5, e6, e7⟩ := ih fuel w1 w' rest hrest h2
      refine ⟨fuel', wm, hr, e1.trans he, fun a => (e2 a).trans (hv a), e3.trans henv, e4.trans hif,
        e5.trans hfeed, ?_, ?_⟩
      · rw [e6, hlog, hif]
        simp
      · intro m hm
        rcases List.mem_cons.1 hm with rfl | hm
        · exact hnz
        · have := e7 m hm
          rw [hif] at this
          exact this

/-- a whole run of fire-and-forget collateral messages -/
theorem coll_run (subs : List SubMsg) (fuel : Nat) (w w' : World)
    (h : execSubs fuel w ENGINE subs = .ok w') (hce : AllCE subs) :
    w'.engine = w.engine ∧ (∀ a, w'.vamm? a = w.vamm? a) ∧ w'.env = w.env
      ∧ w'.log = w.log ++ subs.map (fun m => collEntry w.ifund.engine m.msg)
      ∧ (∀ m ∈ subs, (collEntry w.ifund.engine m.msg).2.2 ≠ 0) := by
  have h' : execSubs fuel w ENGINE (subs ++ []) = .ok w' := by rw [List.append_nil]; exact h
  obtain ⟨fuel', wm, hr, e1, e2, e3, _, _, e6, e7⟩ := coll_prefix subs fuel w w' [] h' hce
  have := WorldInv.execSubs_nil _ _ _ _ hr
  subst this
  exact ⟨e1, e2, e3, e6, e7⟩

/-! ### reply dispatch -/

theorem replyOk_increase (q : Q) (e : E) (env : Env) (N b : Nat) :
    replyOk q e env REPLY_INCREASE (.swap ⟨true, N, b⟩) = updatePositionReply q e env N b REPLY_INCREASE := rfl

theorem replyOk_decrease (q : Q) (e : E) (env : Env) (N b : Nat) :
    replyOk q e env REPLY_DECREASE (.swap ⟨true, N, b⟩) = updatePositionReply q e env N b REPLY_DECREASE := rfl

theorem replyOk_reverse (q : Q) (e : E) (env : Env) (qa amt : Nat) :
    replyOk q e env REPLY_REVERSE (.swap ⟨false, qa, amt⟩) = reversePositionReply q e env qa := rfl

theorem replyOk_close (q : Q) (e : E) (env : Env) (qa amt : Nat) :
    replyOk q e env REPLY_CLOSE (.swap ⟨false, qa, amt⟩) = closePositionReply q e env qa := rfl

theorem replyOk_partialClose (q : Q) (e : E) (env : Env) (N b : Nat) :
    replyOk q e env REPLY_PARTIAL_CLOSE (.swap ⟨true, N, b⟩) = partialClosePositionReply q e env N b := rfl

theorem replyOk_payFunding (q : Q) (e : E) (env : Env) (pf : Integer) (v : Nat) :
    replyOk q e env REPLY_PAY_FUNDING (.settle pf v) = payFundingReply q e env pf v := rfl

/-! ### positions as the specification reads them -/

theorem hasPos_false_read (w : World) (v t : Nat) (h : W.hasPos w v t = false) :
    readPosition w.engine v t = Position.default := by
  unfold W.hasPos at h
  unfold readPosition
  have : w.engine.positions.find? (fun p => p.vamm == v && p.trader == t) = none := by
    rw [List.find?_eq_none]
    intro p hp
    have := List.any_eq_false.1 h p hp
    simpa using this
  rw [this]

theorem hasPos_true_read (w : World) (v t : Nat) (h : W.hasPos w v t = true) :
    (readPosition w.engine v t).vamm = v ∧ (readPosition w.engine v t).trader = t
      ∧ readPosition w.engine v t ∈ w.engine.positions := by
  unfold W.hasPos at h
  obtain ⟨p, hp, hk⟩ := List.any_eq_true.1 h
  unfold readPosition
  cases hf : w.engine.positions.find? (fun p => p.vamm == v && p.trader == t) with
  | none =>
    rw [List.find?_eq_none] at hf
    exact absurd hk (hf p hp)
  | some r =>
    have h1 := List.find?_some hf
    have h2 := List.mem_of_find?_eq_some hf
    simp only [Bool.and_eq_true, beq_iff_eq] at h1
    exact ⟨h1.1, h1.2, h2⟩

theorem hasPos_store (e e' : E) (w' : World) (p' : Position) (v t : Nat)
    (he : w'.engine = e') (hpos : e'.positions = (storePosition e p').positions) (hv : p'.vamm = v) (ht : p'.trader = t) :
    W.hasPos w' v t = true := by
  unfold W.hasPos
  rw [he, hpos]
  show (p' :: erasePosition e.positions p'.vamm p'.trader).any _ = true
  rw [List.any_cons, hv, ht]
  simp

theorem hasPos_remove (e e' : E) (w' : World) (p : Position) (v t : Nat)
    (he : w'.engine = e') (hpos : e'.positions = (removePosition e p).positions) (hv : p.vamm = v) (ht : p.trader = t) :
    W.hasPos w' v t = false := by
  unfold W.hasPos
  rw [he, hpos]
  show (erasePosition e.positions p.vamm p.trader).any _ = false
  rw [List.any_eq_false]
  intro x hx
  have := (MirrorP.mem_erase hx).2
  rw [hv, ht] at this
  simpa using this

theorem read_of_store (e e' : E) (p' : Position) (v t : Nat)
    (hpos : e'.positions = (storePosition e p').positions) (hv : p'.vamm = v) (ht : p'.trader = t) :
    readPosition e' v t = p' := by
  rw [WorldInv.rp_same v t hpos, ← hv, ← ht]
  exact EngineMoney.readPosition_store_same e p'

end Perp.Props.SatTrace
