/-
  SatG, part 3c — OpenPosition (increase path) at transaction level.
-/
import Perp.Props.SatGOpen
import Perp.Props.SatGLedger
import Perp.Props.SatDC07
import Perp.Props.TxLog

namespace Perp.Props.SatGOpenTx
open Perp Perp.World Perp.Engine Perp.Props.LiqTwin Perp.Props.SatGTwin
open Perp.Props.SatGRun Perp.Props.SatGLedger Perp.Props.SatGOpen

theorem bind_some_iff {α β : Type} (x : Option α) (f : α → Option β) (b : β) :
    x.bind f = some b ↔ ∃ a, x = some a ∧ f a = some b := by
  cases x <;> simp [Option.bind]

theorem cw_open_chain (W W' : World) (s I F sm sp tl : Nat) :
    runX W (pullE s sm ++ feesC s I F sp tl) = some W' ↔
      ∃ W1 W2, optStep W (.tokenTransferFrom s ENGINE_ADDR sm) sm = some W1
        ∧ optStep W1 (.tokenTransferFrom s I sp) sp = some W2
        ∧ optStep W2 (.tokenTransferFrom s F tl) tl = some W' := by
  unfold pullE feesC
  rw [runX_append, runX_opt, bind_some_iff]
  constructor
  · rintro ⟨W1, h1, h⟩
    rw [runX_append, runX_opt, bind_some_iff] at h
    obtain ⟨W2, h2, h3⟩ := h
    rw [runX_opt] at h3
    exact ⟨W1, W2, h1, h2, h3⟩
  · rintro ⟨W1, W2, h1, h2, h3⟩
    refine ⟨W1, h1, ?_⟩
    rw [runX_append, runX_opt, bind_some_iff]
    exact ⟨W2, h2, by rw [runX_opt]; exact h3⟩

theorem nat_fees_chain (W W' : World) (I F sp tl : Nat) :
    runX W (feesN I F sp tl) = some W' ↔
      ∃ W1, optStep W (.bankSend I sp) sp = some W1 ∧ optStep W1 (.bankSend F tl) tl = some W' := by
  unfold feesN
  rw [runX_append, runX_opt, bind_some_iff]
  constructor
  · rintro ⟨W1, h1, h⟩
    rw [runX_opt] at h
    exact ⟨W1, h1, h⟩
  · rintro ⟨W1, h1, h2⟩
    exact ⟨W1, h1, by rw [runX_opt]; exact h2⟩


/-! ### the transaction, unrolled -/

theorem Attach.env {w : World} {env : Env} {s : Nat} {f : Funds} {Wa : World} (h : Attach w env s f Wa) :
    Wa.env = env ∧ Wa.engine = w.engine ∧ Wa.vamms = w.vamms ∧ Wa.ifund = w.ifund ∧ Wa.feePool = w.feePool
      ∧ Wa.feed = w.feed := by
  by_cases hc : w.engine.cfg.native = true ∧ f.amount ≠ 0
  · obtain ⟨g, _, rfl⟩ := h.1 hc
    exact ⟨rfl, rfl, rfl, rfl, rfl, rfl⟩
  · obtain rfl := h.2 hc
    exact ⟨rfl, rfl, rfl, rfl, rfl, rfl⟩

/-- an `OpenPosition` on the increase path, step by step -/
theorem open_tx_iff (w : World) (env : Env) (s : Nat) (f : Funds) (v : Nat) (side : Side) (m l b : Nat) (w' : World)
    (hinc : (getPosition env w.engine v s side).size.isZero = true
      ∨ (getPosition env w.engine v s side).direction = sideToDirection side) :
    applyTx w env s f (.engine (.openPosition v side m l b)) = .ok w' ↔
      ∃ Wa e1 N x x' o e2 subs2, Attach w env s f Wa
        ∧ openPosition Wa.q Wa.engine env s f v side m l b = .ok (e1, [swapInputMsg v side N b false REPLY_INCREASE])
        ∧ Wa.vammE v = .ok x ∧ Vamm.swapInput x env ENGINE (sideToDirection side) N b false = .ok (x', o)
        ∧ updatePositionReply (({ Wa with engine := e1 } : World).setVamm v x').q e1 env (swIn o) (swOut o)
            REPLY_INCREASE = .ok (e2, subs2)
        ∧ execSubs 39 { ({ Wa with engine := e1 } : World).setVamm v x' with engine := e2 } ENGINE subs2 = .ok w' := by
  rw [applyTx_engine_iff]
  constructor
  · rintro ⟨Wa, e1, subs, ha, hex, hrun⟩
    obtain ⟨henv, heng, _⟩ := Attach.env ha
    have hex' : openPosition Wa.q Wa.engine env s f v side m l b = .ok (e1, subs) := hex
    obtain ⟨tmp, N, _, _, _, _, _, hsubs⟩ := open_shape _ _ _ _ _ _ _ _ _ _ (by rw [heng]; exact hinc) _ hex'
    dsimp only at hsubs
    subst hsubs
    rw [show FUEL = 38 + 2 from rfl] at hrun
    obtain ⟨w1, ev, e2, subs2, hx, hr, hs⟩ := (single_always_iff 38 _ _ _ _).1 hrun
    obtain ⟨x, x', o, hvx, hsw, rfl, rfl⟩ := (swapIn_iff 38 _ _ _ _ _ _ _ _).1 hx
    rw [replyOk_increase] at hr
    refine ⟨Wa, e1, N, x, x', o, e2, subs2, ha, hex', hvx, ?_, ?_, hs⟩
    · rw [← henv]; exact hsw
    · rw [← henv]; exact hr
  · rintro ⟨Wa, e1, N, x, x', o, e2, subs2, ha, hex, hvx, hsw, hr, hs⟩
    obtain ⟨henv, _⟩ := Attach.env ha
    refine ⟨Wa, e1, _, ha, hex, ?_⟩
    rw [show FUEL = 38 + 2 from rfl]
    refine (single_always_iff 38 _ _ _ _).2 ⟨_, _, e2, subs2, (swapIn_iff 38 _ _ _ _ _ _ _ _).2
      ⟨x, x', o, hvx, by rw [← henv] at hsw; exact hsw, rfl, rfl⟩, ?_, hs⟩
    rw [replyOk_increase]
    rw [← henv] at hr
    exact hr


/-! ### bookkeeping -/

/-- what the log says was taken out of account `s` -/
def pulledBy (log : List (Nat × Nat × Nat)) (s : Nat) : Nat :=
  ((log.filter (fun x => x.1 == s)).map (fun x => x.2.2)).sum

theorem pulledBy_append (a b : List (Nat × Nat × Nat)) (s : Nat) :
    pulledBy (a ++ b) s = pulledBy a s + pulledBy b s := by
  simp [pulledBy, List.filter_append, List.map_append, List.sum_append]

theorem pulledBy_optE (src dst a s : Nat) : pulledBy (optE src dst a) s = if src = s then a else 0 := by
  unfold optE pulledBy
  by_cases ha : a ≠ 0 <;> by_cases hs : src = s <;> simp [ha, hs]
  · omega

theorem tot_optE (P : TxLog.Xf → Bool) (src dst a : Nat) :
    TxLog.tot P (optE src dst a) = if P (src, dst, a) then (a : Int) else 0 := by
  unfold optE
  by_cases ha : a ≠ 0
  · rw [if_pos ha, TxLog.tot_single]
  · have : a = 0 := Decidable.not_not.mp ha
    subst this
    simp [TxLog.tot]

/-- what the two deployments agree on after a successful transaction -/
def Agree (wn wc : World) : Prop :=
  wn.engine = setNative wc.engine true ∧ wn.vamms = wc.vamms ∧ wn.ifund = wc.ifund ∧ wn.feePool = wc.feePool
  ∧ wn.feed = wc.feed ∧ wn.env = wc.env ∧ ∀ a, wn.ledger.balance a = wc.ledger.balance a

theorem len_pull_fees (s i f sm sp tl : Nat) : (pullE s sm ++ feesC s i f sp tl).length ≤ 3 := by
  unfold pullE feesC
  by_cases h1 : sm ≠ 0 <;> by_cases h2 : sp ≠ 0 <;> by_cases h3 : tl ≠ 0 <;> simp [h1, h2, h3]

theorem len_feesN (i f sp tl : Nat) : (feesN i f sp tl).length ≤ 2 := by
  unfold feesN
  by_cases h2 : sp ≠ 0 <;> by_cases h3 : tl ≠ 0 <;> simp [h2, h3]

theorem xe_pull_fees (s i f sm sp tl : Nat) : ∀ m ∈ pullE s sm ++ feesC s i f sp tl, XE m := by
  unfold pullE feesC
  intro m hm
  by_cases h1 : sm ≠ 0 <;> by_cases h2 : sp ≠ 0 <;> by_cases h3 : tl ≠ 0 <;>
    simp [h1, h2, h3] at hm <;> (try rcases hm with rfl | rfl | rfl) <;> (try rcases hm with rfl | rfl) <;>
    (try subst hm) <;> exact ⟨rfl, trivial⟩

theorem xe_feesN (i f sp tl : Nat) : ∀ m ∈ feesN i f sp tl, XE m := by
  unfold feesN
  intro m hm
  by_cases h2 : sp ≠ 0 <;> by_cases h3 : tl ≠ 0 <;>
    simp [h2, h3] at hm <;> (try rcases hm with rfl | rfl) <;> (try subst hm) <;> exact ⟨rfl, trivial⟩

/-- the attach step as a move -/
theorem attach_mv (w : World) (env : Env) (s X : Nat) (hs : s ≠ ENGINE) (hn : w.engine.cfg.native = true)
    (Wa : World) (h : Attach w env s ⟨X, false⟩ Wa) :
    (∃ g lg, Wa = { w with env := env, ledger := g, log := lg }) ∧ Mv { w with env := env, log := [] } Wa s ENGINE X := by
  by_cases hc : w.engine.cfg.native = true ∧ (⟨X, false⟩ : Funds).amount ≠ 0
  · obtain ⟨g, hg, rfl⟩ := h.1 hc
    exact ⟨⟨g, _, rfl⟩, mv_of_move { w with env := env, log := [] } g s ENGINE X hs hc.2 hg⟩
  · obtain rfl := h.2 hc
    have : X = 0 := Decidable.not_not.mp (fun hx => hc ⟨hn, hx⟩)
    subst this
    exact ⟨⟨_, _, rfl⟩, Mv.zero _ _ _⟩

theorem attach_ok (w : World) (env : Env) (s X : Nat) (hs : s ≠ ENGINE)
    (h1 : X ≤ w.ledger.balance s) (h2 : w.ledger.balance ENGINE + X ≤ U128.MAX) :
    ∃ Wa, Attach w env s ⟨X, false⟩ Wa := by
  by_cases hc : w.engine.cfg.native = true ∧ (⟨X, false⟩ : Funds).amount ≠ 0
  · obtain ⟨g, hg⟩ := move_ok w.ledger s ENGINE X hs h1 h2
    exact ⟨_, fun _ => ⟨g, hg, rfl⟩, fun h => absurd hc h⟩
  · exact ⟨_, fun h => absurd h hc, fun _ => rfl⟩


/-- total pulled towards `d` -/
def amtTo (d : Nat) : List SubMsg → Nat
  | [] => 0
  | m :: r => (match m.msg with | .tokenTransferFrom _ to a => if to = d then a else 0 | _ => 0) + amtTo d r

theorem amtTo_append (d : Nat) (a b : List SubMsg) : amtTo d (a ++ b) = amtTo d a + amtTo d b := by
  induction a with
  | nil => simp [amtTo]
  | cons m r ih => simp only [List.cons_append, amtTo, ih]; omega

theorem amtTo_opt (d s to a id : Nat) (r : ReplyOn) :
    amtTo d (if a ≠ 0 then [⟨.tokenTransferFrom s to a, id, r⟩] else []) = if to = d then a else 0 := by
  by_cases h : a ≠ 0
  · rw [if_pos h]; simp [amtTo]
  · have : a = 0 := Decidable.not_not.mp h
    subst this
    simp [amtTo]

theorem amtTo_shape (d s I F a b c : Nat) :
    amtTo d (pullE s a ++ feesC s I F b c)
      = (if ENGINE_ADDR = d then a else 0) + ((if I = d then b else 0) + (if F = d then c else 0)) := by
  unfold pullE feesC
  rw [amtTo_append, amtTo_append, amtTo_opt, amtTo_opt, amtTo_opt]

theorem shape_inj (s I F a b c a' b' c' : Nat) (h1 : ENGINE_ADDR ≠ I) (h2 : ENGINE_ADDR ≠ F) (h3 : I ≠ F)
    (h : pullE s a ++ feesC s I F b c = pullE s a' ++ feesC s I F b' c') : a = a' ∧ b = b' ∧ c = c' := by
  have e1 := congrArg (amtTo ENGINE_ADDR) h
  have e2 := congrArg (amtTo I) h
  have e3 := congrArg (amtTo F) h
  rw [amtTo_shape, amtTo_shape] at e1 e2 e3
  simp [h1, h2, h3, Ne.symm h1, Ne.symm h2, Ne.symm h3] at e1 e2 e3
  exact ⟨e1, e2, e3⟩

/-- balances after two transactions that started from the same balances and logged the same net flows -/
theorem bal_agree (wn wc wn' wc' : World) (env : Env) (s : Nat) (fn fc : Funds) (m : ExecMsg)
    (hn : applyTx wn env s fn (.engine m) = .ok wn') (hc : applyTx wc env s fc (.engine m) = .ok wc')
    (hb : ∀ a, wn.ledger.balance a = wc.ledger.balance a)
    (hflow : ∀ a, TxLog.tot (fun x => x.2.1 == a) wn'.log - TxLog.tot (fun x => x.1 == a) wn'.log
                = TxLog.tot (fun x => x.2.1 == a) wc'.log - TxLog.tot (fun x => x.1 == a) wc'.log) :
    ∀ a, wn'.ledger.balance a = wc'.ledger.balance a := by
  intro a
  have h1 := TxLog.applyTx_LL wn wn' env s fn m hn a
  have h2 := TxLog.applyTx_LL wc wc' env s fc m hc a
  have h3 := hflow a
  have h4 := hb a
  dsimp only at h1 h2
  omega

/-- net flows of the two logs of an increase -/
theorem open_flows (s sm sp tl : Nat) (a : Nat) :
    TxLog.tot (fun x => x.2.1 == a) (optE s ENGINE (sm + sp + tl) ++ optE ENGINE IFUND sp ++ optE ENGINE FEEPOOL tl)
      - TxLog.tot (fun x => x.1 == a) (optE s ENGINE (sm + sp + tl) ++ optE ENGINE IFUND sp ++ optE ENGINE FEEPOOL tl)
    = TxLog.tot (fun x => x.2.1 == a) (optE s ENGINE_ADDR sm ++ optE s IFUND sp ++ optE s FEEPOOL tl)
      - TxLog.tot (fun x => x.1 == a) (optE s ENGINE_ADDR sm ++ optE s IFUND sp ++ optE s FEEPOOL tl) := by
  simp only [TxLog.tot_append, tot_optE, beq_iff_eq]
  have hE : ENGINE_ADDR = ENGINE := rfl
  rw [hE]
  by_cases h1 : ENGINE = a <;> by_cases h2 : IFUND = a <;> by_cases h3 : FEEPOOL = a <;> by_cases h4 : s = a <;>
    simp only [h1, h2, h3, h4, if_true, if_false] <;> push_cast <;> omega

/-! ### the two directions -/

def openTx (v : Nat) (side : Side) (m l b : Nat) : Tx := .engine (.openPosition v side m l b)

/-- hypotheses on the world: pools wired as deployed, the caller is a user account -/
structure Setup (w : World) (s : Nat) : Prop where
  hif : w.engine.cfg.insuranceFund = IFUND
  hfp : w.engine.cfg.feePool = FEEPOOL
  s1 : s ≠ ENGINE
  s2 : s ≠ IFUND
  s3 : s ≠ FEEPOOL

theorem open_A (w : World) (env : Env) (s v : Nat) (side : Side) (m l b : Nat)
    (hinc : (getPosition env w.engine v s side).size.isZero = true
      ∨ (getPosition env w.engine v s side).direction = sideToDirection side)
    (hS : Setup w s) (hroom : w.ledger.balance ENGINE + w.ledger.balance s ≤ U128.MAX)
    (wc' : World) (h : applyTx (cwW w) env s ⟨0, false⟩ (openTx v side m l b) = .ok wc') :
    ∃ wn', applyTx (natW w) env s ⟨pulledBy wc'.log s, false⟩ (openTx v side m l b) = .ok wn' ∧ Agree wn' wc'
      ∧ pulledBy wc'.log s ≤ Ledger.get w.ledger.allow s := by
  obtain ⟨Wa, e1, N, x, x', o, e2, subs2, ha, hex, hvx, hsw, hr, hrun⟩ :=
    (open_tx_iff (cwW w) env s ⟨0, false⟩ v side m l b wc' hinc).1 h
  have hWa := ha.2 (fun hc => absurd hc.1 (by simp [cwW]))
  subst hWa
  -- the in-flight record
  obtain ⟨tmp, N', he1, hmtv, hfeesp, htr, hvm, hmsg⟩ :=
    open_shape _ (setNative w.engine false) env s ⟨0, false⟩ v side m l b hinc _ hex
  dsimp only at he1
  have he1' : e1 = withSent (setNative { w.engine with tmpSwap := some tmp } false) ⟨0, 0⟩ := he1
  subst he1'
  -- the reply
  have hrel := fun X f => upr_inc ((({ cwW w with env := env, log := [] } : World).setVamm v x').q) f
    { w.engine with tmpSwap := some tmp } env (swIn o) (swOut o) X tmp rfl hmtv hfeesp
  obtain ⟨⟨sm, sp, tl⟩, hshape, _⟩ := (hrel 0 (fun _ => .ok 0)).bwd (e2, subs2) hr
  dsimp only [IncS] at hshape
  rw [htr, hS.hif, hS.hfp] at hshape
  subst hshape
  -- the cw20 transfers
  have hrunX := (execSubs_xfers_iff _ 39 _ wc' (by have := len_pull_fees s IFUND FEEPOOL sm sp tl; omega)
    (xe_pull_fees _ _ _ _ _ _)).1 hrun
  obtain ⟨W1, W2, hp1, hp2, hp3⟩ := (cw_open_chain _ _ _ _ _ _ _ _).1 hrunX
  have P1 := optPull_pl _ _ _ _ _ hS.s1 hp1
  have P2 := optPull_pl _ _ _ _ _ hS.s2 hp2
  have P3 := optPull_pl _ _ _ _ _ hS.s3 hp3
  -- what was pulled
  have hlog : wc'.log = optE s ENGINE_ADDR sm ++ optE s IFUND sp ++ optE s FEEPOOL tl := by
    rw [P3.log, P2.log, P1.log]; rfl
  have hX : pulledBy wc'.log s = sm + sp + tl := by
    rw [hlog, pulledBy_append, pulledBy_append, pulledBy_optE, pulledBy_optE, pulledBy_optE]
    simp
  rw [hX]
  have hbs : sm + sp + tl ≤ w.ledger.balance s := by
    have h1 : sm ≤ w.ledger.balance s := P1.has
    have h2 := P2.has; have h3 := P3.has
    have e1 : W1.ledger.balance s = w.ledger.balance s - sm := P1.bsrc
    have e2' := P2.bsrc
    omega
  -- the native run: attach
  have hbE : w.ledger.balance ENGINE + (sm + sp + tl) ≤ U128.MAX := by omega
  obtain ⟨Wan, han⟩ := attach_ok (natW w) env s (sm + sp + tl) hS.s1 hbs hbE
  obtain ⟨⟨g, lg, hform⟩, hmv⟩ := attach_mv (natW w) env s (sm + sp + tl) hS.s1 rfl Wan han
  subst hform
  -- the native reply
  obtain ⟨⟨sm', sp', tl'⟩, hshape', hnat⟩ := (hrel (sm + sp + tl) (fun a => .ok (g.balance a))).bwd _ hr
  dsimp only [IncS] at hshape'
  rw [htr, hS.hif, hS.hfp] at hshape'
  obtain ⟨rfl, rfl, rfl⟩ := shape_inj s IFUND FEEPOOL _ _ _ _ _ _ (by decide) (by decide) (by decide) hshape'
  obtain ⟨⟨en, mn⟩, hrn, hPe, hPm, _⟩ := hnat ⟨rfl, by omega⟩
  dsimp only at hPe hPm
  rw [hS.hif, hS.hfp] at hPm
  subst hPe hPm
  -- the native fee transfers
  have hE1 : sm + sp + tl ≤ g.balance ENGINE := by
    have := hmv.bdst
    have h' : g.balance ENGINE = w.ledger.balance ENGINE + (sm + sp + tl) := this
    omega
  have hI : w.ledger.balance IFUND + sp ≤ U128.MAX ∨ sp = 0 := by
    have h1 : W1.ledger.balance IFUND = w.ledger.balance IFUND := P1.bother IFUND (Ne.symm hS.s2) (by decide)
    have := P2.room
    rw [h1] at this
    exact this
  have hF : w.ledger.balance FEEPOOL + tl ≤ U128.MAX ∨ tl = 0 := by
    have h1 : W1.ledger.balance FEEPOOL = w.ledger.balance FEEPOOL := P1.bother FEEPOOL (Ne.symm hS.s3) (by decide)
    have h2 : W2.ledger.balance FEEPOOL = W1.ledger.balance FEEPOOL := P2.bother FEEPOOL (Ne.symm hS.s3) (by decide)
    have := P3.room
    rw [h2, h1] at this
    exact this
  have hgI : g.balance IFUND = w.ledger.balance IFUND := hmv.bother IFUND (Ne.symm hS.s2) (by decide)
  have hgF : g.balance FEEPOOL = w.ledger.balance FEEPOOL := hmv.bother FEEPOOL (Ne.symm hS.s3) (by decide)
  -- the native fee transfers go through
  obtain ⟨Wn1, hn1⟩ := optSend_ok
    ({ (({ ({ natW w with env := env, ledger := g, log := lg } : World) with
            engine := withSent (setNative { w.engine with tmpSwap := some tmp } true) ⟨sm + sp + tl, 0⟩ } : World).setVamm v x')
        with engine := setNative e2 true } : World)
    IFUND sp (by decide) (show sp ≤ g.balance ENGINE by omega) (show g.balance IFUND + sp ≤ U128.MAX ∨ sp = 0 by rw [hgI]; exact hI)
  have M1 := optSend_mv _ _ _ _ (by decide) hn1
  have hM1E : Wn1.ledger.balance ENGINE = g.balance ENGINE - sp := M1.bsrc
  have hM1F : Wn1.ledger.balance FEEPOOL = g.balance FEEPOOL := M1.bother FEEPOOL (by decide) (by decide)
  obtain ⟨wn', hn2⟩ := optSend_ok Wn1 FEEPOOL tl (by decide) (by omega) (by rw [hM1F, hgF]; exact hF)
  have M2 := optSend_mv _ _ _ _ (by decide) hn2
  have hrunN := (nat_fees_chain _ _ _ _ _ _).2 ⟨Wn1, hn1, hn2⟩
  have hexecN := (execSubs_xfers_iff _ 39 _ wn' (by have := len_feesN IFUND FEEPOOL sp tl; omega)
    (xe_feesN _ _ _ _)).2 hrunN
  have hexN := open_twin ({ cwW w with env := env, log := [] } : World).q (fun a => .ok (g.balance a)) w.engine env s
    (sm + sp + tl) v side m l b
  have hex' : openPosition ({ cwW w with env := env, log := [] } : World).q (setNative w.engine false) env s
      ⟨0, false⟩ v side m l b = .ok (withSent (setNative { w.engine with tmpSwap := some tmp } false) ⟨0, 0⟩,
        [swapInputMsg v side N b false REPLY_INCREASE]) := hex
  rw [hex'] at hexN
  have htxN : applyTx (natW w) env s ⟨sm + sp + tl, false⟩ (openTx v side m l b) = .ok wn' :=
    (open_tx_iff (natW w) env s ⟨sm + sp + tl, false⟩ v side m l b wn' hinc).2
      ⟨_, _, N, x, x', o, _, _, han, hexN, hvx, hsw, hrn, hexecN⟩
  have hal : sm + sp + tl ≤ Ledger.get w.ledger.allow s := by
    have a1 : sm ≤ Ledger.get w.ledger.allow s := P1.allowed
    have a1' : Ledger.get W1.ledger.allow s = Ledger.get w.ledger.allow s - sm := P1.allowAfter
    have a2 := P2.allowed; have a2' := P2.allowAfter; have a3 := P3.allowed
    omega
  refine ⟨wn', htxN, ?_, hal⟩
  have hFn := Fr.trans M1.fr M2.fr
  have hFc := Fr.trans (Fr.trans P1.fr P2.fr) P3.fr
  have hlogN : wn'.log = optE s ENGINE (sm + sp + tl) ++ optE ENGINE IFUND sp ++ optE ENGINE FEEPOOL tl := by
    rw [M2.log, M1.log]
    have : lg = optE s ENGINE (sm + sp + tl) := hmv.log
    rw [← this]
    rfl
  refine ⟨?_, ?_, ?_, ?_, ?_, ?_, ?_⟩
  · rw [hFn.1, hFc.1]
  · rw [hFn.2.1, hFc.2.1]; rfl
  · rw [hFn.2.2.1, hFc.2.2.1]; rfl
  · rw [hFn.2.2.2.1, hFc.2.2.2.1]; rfl
  · rw [hFn.2.2.2.2.1, hFc.2.2.2.2.1]; rfl
  · rw [hFn.2.2.2.2.2, hFc.2.2.2.2.2]; rfl
  · refine bal_agree (natW w) (cwW w) wn' wc' env s _ _ _ htxN h (fun _ => rfl) (fun a => ?_)
    rw [hlogN, hlog]
    exact open_flows s sm sp tl a


theorem open_B (w : World) (env : Env) (s v : Nat) (side : Side) (m l b : Nat)
    (hinc : (getPosition env w.engine v s side).size.isZero = true
      ∨ (getPosition env w.engine v s side).direction = sideToDirection side)
    (hS : Setup w s) (X : Nat) (hallow : X ≤ Ledger.get w.ledger.allow s)
    (wn' : World) (h : applyTx (natW w) env s ⟨X, false⟩ (openTx v side m l b) = .ok wn') :
    ∃ wc', applyTx (cwW w) env s ⟨0, false⟩ (openTx v side m l b) = .ok wc' ∧ pulledBy wc'.log s = X
      ∧ Agree wn' wc' := by
  obtain ⟨Wa, e1n, N, x, x', o, e2n, subs2n, han, hexn, hvx, hsw, hrn, hrunn⟩ :=
    (open_tx_iff (natW w) env s ⟨X, false⟩ v side m l b wn' hinc).1 h
  obtain ⟨⟨g, lg, hform⟩, hmv⟩ := attach_mv (natW w) env s X hS.s1 rfl Wa han
  subst hform
  -- the execute half on cw20
  have hexN := open_twin ({ cwW w with env := env, log := [] } : World).q (fun a => .ok (g.balance a)) w.engine env s
    X v side m l b
  have hexn' : openPosition (qb ({ cwW w with env := env, log := [] } : World).q (fun a => .ok (g.balance a)))
      (setNative w.engine true) env s ⟨X, false⟩ v side m l b
        = .ok (e1n, [swapInputMsg v side N b false REPLY_INCREASE]) := hexn
  rw [hexn'] at hexN
  cases hexc : openPosition ({ cwW w with env := env, log := [] } : World).q (setNative w.engine false) env s
      ⟨0, false⟩ v side m l b with
  | error err => rw [hexc] at hexN; cases hexN
  | ok rc =>
    obtain ⟨e1c, msgs⟩ := rc
    rw [hexc] at hexN
    injection hexN with hexN
    injection hexN with he1n hmsgs
    dsimp only at he1n hmsgs
    subst hmsgs
    obtain ⟨tmp, N', he1, hmtv, hfeesp, htr, hvm, _⟩ :=
      open_shape _ (setNative w.engine false) env s ⟨0, false⟩ v side m l b hinc _ hexc
    dsimp only at he1
    have he1' : e1c = withSent (setNative { w.engine with tmpSwap := some tmp } false) ⟨0, 0⟩ := he1
    subst he1'
    have he1n' : e1n = withSent (setNative { w.engine with tmpSwap := some tmp } true) ⟨X, 0⟩ := he1n
    subst he1n'
    -- the reply
    have hrel := upr_inc ((({ cwW w with env := env, log := [] } : World).setVamm v x').q) (fun a => .ok (g.balance a))
      { w.engine with tmpSwap := some tmp } env (swIn o) (swOut o) X tmp rfl hmtv hfeesp
    obtain ⟨⟨e2c, mc⟩, ⟨sm, sp, tl⟩, hrc, hshape, hPe, hPm, hXeq⟩ := hrel.fwd (e2n, subs2n) hrn
    dsimp only [IncS] at hshape hPe hPm hXeq
    rw [htr, hS.hif, hS.hfp] at hshape
    rw [hS.hif, hS.hfp] at hPm
    subst hshape hPe hPm hXeq
    -- the native fee transfers
    have hrunX := (execSubs_xfers_iff _ 39 _ wn' (by have := len_feesN IFUND FEEPOOL sp tl; omega)
      (xe_feesN _ _ _ _)).1 hrunn
    obtain ⟨Wn1, hn1, hn2⟩ := (nat_fees_chain _ _ _ _ _ _).1 hrunX
    have M1 := optSend_mv _ _ _ _ (by decide) hn1
    have M2 := optSend_mv _ _ _ _ (by decide) hn2
    -- balances seen by the cw20 pulls
    have hXs : sm + sp + tl ≤ w.ledger.balance s := hmv.has
    have hXE : w.ledger.balance ENGINE + (sm + sp + tl) ≤ U128.MAX ∨ sm + sp + tl = 0 := hmv.room
    have hgI : g.balance IFUND = w.ledger.balance IFUND := hmv.bother IFUND (Ne.symm hS.s2) (by decide)
    have hgF : g.balance FEEPOOL = w.ledger.balance FEEPOOL := hmv.bother FEEPOOL (Ne.symm hS.s3) (by decide)
    have hI : w.ledger.balance IFUND + sp ≤ U128.MAX ∨ sp = 0 := by
      have : g.balance IFUND + sp ≤ U128.MAX ∨ sp = 0 := M1.room
      rw [hgI] at this; exact this
    have hF : w.ledger.balance FEEPOOL + tl ≤ U128.MAX ∨ tl = 0 := by
      have h1 : Wn1.ledger.balance FEEPOOL = g.balance FEEPOOL := M1.bother FEEPOOL (by decide) (by decide)
      have := M2.room
      rw [h1, hgF] at this; exact this
    -- the cw20 pulls go through
    obtain ⟨W1, hp1⟩ := optPull_ok
      ({ (({ ({ cwW w with env := env, log := [] } : World) with
              engine := withSent (setNative { w.engine with tmpSwap := some tmp } false) ⟨0, 0⟩ } : World).setVamm v x')
          with engine := e2c } : World)
      s ENGINE_ADDR sm hS.s1 (show sm ≤ Ledger.get w.ledger.allow s by omega) (show sm ≤ w.ledger.balance s by omega)
      (show w.ledger.balance ENGINE + sm ≤ U128.MAX ∨ sm = 0 by omega)
    have P1 := optPull_pl _ _ _ _ _ hS.s1 hp1
    have a1 : Ledger.get W1.ledger.allow s = Ledger.get w.ledger.allow s - sm := P1.allowAfter
    have b1 : W1.ledger.balance s = w.ledger.balance s - sm := P1.bsrc
    have i1 : W1.ledger.balance IFUND = w.ledger.balance IFUND := P1.bother IFUND (Ne.symm hS.s2) (by decide)
    have f1 : W1.ledger.balance FEEPOOL = w.ledger.balance FEEPOOL := P1.bother FEEPOOL (Ne.symm hS.s3) (by decide)
    obtain ⟨W2, hp2⟩ := optPull_ok W1 s IFUND sp hS.s2 (by omega) (by omega) (by rw [i1]; exact hI)
    have P2 := optPull_pl _ _ _ _ _ hS.s2 hp2
    have a2 := P2.allowAfter
    have b2 := P2.bsrc
    have f2 : W2.ledger.balance FEEPOOL = W1.ledger.balance FEEPOOL := P2.bother FEEPOOL (Ne.symm hS.s3) (by decide)
    obtain ⟨wc', hp3⟩ := optPull_ok W2 s FEEPOOL tl hS.s3 (by omega) (by omega) (by rw [f2, f1]; exact hF)
    have P3 := optPull_pl _ _ _ _ _ hS.s3 hp3
    have hrunC := (cw_open_chain _ _ _ _ _ _ _ _).2 ⟨W1, W2, hp1, hp2, hp3⟩
    have hexecC := (execSubs_xfers_iff _ 39 _ wc' (by have := len_pull_fees s IFUND FEEPOOL sm sp tl; omega)
      (xe_pull_fees _ _ _ _ _ _)).2 hrunC
    have htxC : applyTx (cwW w) env s ⟨0, false⟩ (openTx v side m l b) = .ok wc' :=
      (open_tx_iff (cwW w) env s ⟨0, false⟩ v side m l b wc' hinc).2
        ⟨_, _, N, x, x', o, _, _, ⟨fun hc => (by cases hc.1), fun _ => rfl⟩, hexc, hvx, hsw, hrc, hexecC⟩
    have hlog : wc'.log = optE s ENGINE_ADDR sm ++ optE s IFUND sp ++ optE s FEEPOOL tl := by
      rw [P3.log, P2.log, P1.log]; rfl
    have hX : pulledBy wc'.log s = sm + sp + tl := by
      rw [hlog, pulledBy_append, pulledBy_append, pulledBy_optE, pulledBy_optE, pulledBy_optE]
      simp
    refine ⟨wc', htxC, hX, ?_⟩
    have hFn := Fr.trans M1.fr M2.fr
    have hFc := Fr.trans (Fr.trans P1.fr P2.fr) P3.fr
    have hlogN : wn'.log = optE s ENGINE (sm + sp + tl) ++ optE ENGINE IFUND sp ++ optE ENGINE FEEPOOL tl := by
      rw [M2.log, M1.log]
      have : lg = optE s ENGINE (sm + sp + tl) := hmv.log
      rw [← this]
      rfl
    refine ⟨?_, ?_, ?_, ?_, ?_, ?_, ?_⟩
    · rw [hFn.1, hFc.1]
    · rw [hFn.2.1, hFc.2.1]; rfl
    · rw [hFn.2.2.1, hFc.2.2.1]; rfl
    · rw [hFn.2.2.2.1, hFc.2.2.2.1]; rfl
    · rw [hFn.2.2.2.2.1, hFc.2.2.2.2.1]; rfl
    · rw [hFn.2.2.2.2.2, hFc.2.2.2.2.2]; rfl
    · refine bal_agree (natW w) (cwW w) wn' wc' env s _ _ _ h htxC (fun _ => rfl) (fun a => ?_)
      rw [hlogN, hlog]
      exact open_flows s sm sp tl a


/-- room in the vault for whatever the caller holds, from the supply invariant -/
theorem room_of_total (w : World) (s : Nat) (hs : s ≠ ENGINE) (hk : Dispatch.KeysNodup w.ledger)
    (ht : Dispatch.total w.ledger ≤ U128.MAX) : w.ledger.balance ENGINE + w.ledger.balance s ≤ U128.MAX := by
  have := SatD.two_le_total w.ledger ENGINE s (Ne.symm hs) hk
  omega

end Perp.Props.SatGOpenTx
