/-
  SatG — C13 at world level: a deployment on native collateral and the otherwise identical deployment on
  cw20 collateral behave alike, transaction by transaction.  STATEMENTS OF GROUP 1 ARE FIXED.
-/
import Perp.Model.World
import Perp.Lemmas.Basic
import Perp.Props.Dispatch
import Perp.Props.EngineGuards
import Perp.Props.EngineMoney
import Perp.Props.WorldInv
import Perp.Props.LiqTwin
import Perp.Props.G9Perm
import Perp.Props.TxLog
import Perp.Props.SatGTwin
import Perp.Props.SatGDeposit
import Perp.Props.SatGOpenTx
import Perp.Props.SatGCloseTx
import Perp.Props.SatGWitness

namespace Perp.Props.SatG
open Perp Perp.World Perp.Engine

/-- the same world on native collateral -/
def nat (w : World) : World := { w with engine := LiqTwin.setNative w.engine true }
/-- … and on cw20 collateral -/
def cw (w : World) : World := { w with engine := LiqTwin.setNative w.engine false }

/-- worlds that agree on everything but the cw20 allowances (which only the cw20 deployment consumes) -/
def SameButAllow (a b : World) : Prop :=
  a.engine = b.engine ∧ a.vamms = b.vamms ∧ a.ifund = b.ifund ∧ a.feePool = b.feePool ∧ a.feed = b.feed
  ∧ a.ledger.bal = b.ledger.bal ∧ a.log = b.log ∧ a.env = b.env

/-! ### group 1: flows in which nothing is pulled from the caller -/

/-- WithdrawMargin, Liquidate, PayFunding with nothing attached: the native deployment does exactly what the
    cw20 deployment does — same outcome (both fail or both succeed), and on success the same engine state,
    vAMM states, balances of every account and the same list of executed transfers -/
theorem twin_withdraw (w : World) (env : Env) (s v a : Nat) :
    applyTx (nat w) env s ⟨0, false⟩ (.engine (.withdrawMargin v a))
      = (applyTx (cw w) env s ⟨0, false⟩ (.engine (.withdrawMargin v a))).map nat :=
  SatGTwin.twin_tx w env s _ (fun _ h => by cases h)
    (fun q e => LiqTwin.withdrawMargin_twin q e env s v a)
    (fun q e => SatGTwin.withdrawMargin_good q e env s v a)

theorem twin_liquidate (w : World) (env : Env) (s v t l : Nat) :
    applyTx (nat w) env s ⟨0, false⟩ (.engine (.liquidate v t l))
      = (applyTx (cw w) env s ⟨0, false⟩ (.engine (.liquidate v t l))).map nat :=
  SatGTwin.twin_tx w env s _ (fun _ h => by cases h)
    (fun q e => LiqTwin.liquidate_twin q e env s v t l)
    (fun q e => SatGTwin.liquidate_good q e env s v t l)

theorem twin_payFunding (w : World) (env : Env) (s v : Nat) :
    applyTx (nat w) env s ⟨0, false⟩ (.engine (.payFunding v))
      = (applyTx (cw w) env s ⟨0, false⟩ (.engine (.payFunding v))).map nat :=
  SatGTwin.twin_tx w env s _ (fun _ h => by cases h)
    (fun q e => by
      show payFunding q (LiqTwin.setNative e true) v = (payFunding q (LiqTwin.setNative e false) v).map LiqTwin.lift
      unfold payFunding
      refine LiqTwin.tw_bind_same _ _ _ _ fun _ => rfl)
    (fun q e => SatGTwin.payFunding_good q e v)

/-- DepositMargin: the native caller attaches exactly the amount the cw20 deployment pulls.  Given a
    sufficient allowance on the cw20 side, both succeed or both fail, and on success the worlds agree on
    everything but the allowance consumed -/
theorem twin_deposit (w : World) (env : Env) (s v a : Nat) (hs : s ≠ ENGINE)
    (hallow : a ≤ Ledger.get w.ledger.allow s) :
    (∀ wn, applyTx (nat w) env s ⟨a, false⟩ (.engine (.depositMargin v a)) = .ok wn →
        ∃ wc, applyTx (cw w) env s ⟨0, false⟩ (.engine (.depositMargin v a)) = .ok wc ∧ SameButAllow wn (nat wc))
    ∧ (∀ wc, applyTx (cw w) env s ⟨0, false⟩ (.engine (.depositMargin v a)) = .ok wc →
        ∃ wn, applyTx (nat w) env s ⟨a, false⟩ (.engine (.depositMargin v a)) = .ok wn ∧ SameButAllow wn (nat wc)) := by
  have _ := hs
  obtain ⟨h1, h2⟩ := SatGDeposit.deposit_core w env s v a hallow
  constructor
  · intro wn h
    obtain ⟨wc, hc, hsame⟩ := h1 wn h
    exact ⟨wc, hc, hsame⟩
  · intro wc h
    obtain ⟨wn, hn, hsame⟩ := h2 wc h
    exact ⟨wn, hn, hsame⟩


/-! ### group 2: flows in which the native caller attaches what the cw20 deployment pulls from the caller

  Statements are ours.  `pulledBy log s` = what the transfer log says left account `s`; `Agree wn wc` = same engine
  state (up to the `native` flag), same vAMMs / fund / pool / feed / clock, and the same balance of EVERY account
  (the transfer lists differ in shape, so the logs — and the order of the ledger's association list — do not agree).
  `Setup w s`: insurance fund and fee pool wired at their deployed addresses, `s` a user account.
  The hypotheses `KeysNodup` / `total ≤ u128::MAX` are the supply invariant of the ledger (`Dispatch.applyTx_total`). -/

open SatGOpenTx (pulledBy Agree Setup)
open SatGCloseTx (paidTo)

/-- **OpenPosition on a flat position (no record, or a stored record of size zero whatever its stale direction)
    or a same-side position — the increase path's condition.**
    (A) if the cw20 run succeeds, the native run given exactly what was pulled from the caller succeeds, and
        the two final worlds agree; that amount was within the allowance;
    (B) if the native run succeeds with ANY attached amount `X` (within the caller's cw20 allowance), the cw20
        run succeeds, pulls exactly `X`, and the worlds agree — so if the cw20 run fails, the native run fails
        for every attachable amount. -/
theorem twin_open_increase (w : World) (env : Env) (s v : Nat) (side : Side) (m l b : Nat)
    (hinc : (getPosition env w.engine v s side).size.isZero = true
      ∨ (getPosition env w.engine v s side).direction = sideToDirection side)
    (hS : Setup w s) (hk : Dispatch.KeysNodup w.ledger) (ht : Dispatch.total w.ledger ≤ U128.MAX) :
    (∀ wc, applyTx (cw w) env s ⟨0, false⟩ (.engine (.openPosition v side m l b)) = .ok wc →
        ∃ wn, applyTx (nat w) env s ⟨pulledBy wc.log s, false⟩ (.engine (.openPosition v side m l b)) = .ok wn
          ∧ Agree wn wc ∧ pulledBy wc.log s ≤ Ledger.get w.ledger.allow s)
    ∧ (∀ X wn, X ≤ Ledger.get w.ledger.allow s →
        applyTx (nat w) env s ⟨X, false⟩ (.engine (.openPosition v side m l b)) = .ok wn →
        ∃ wc, applyTx (cw w) env s ⟨0, false⟩ (.engine (.openPosition v side m l b)) = .ok wc
          ∧ pulledBy wc.log s = X ∧ Agree wn wc) :=
  ⟨fun wc h => SatGOpenTx.open_A w env s v side m l b hinc hS (SatGOpenTx.room_of_total w s hS.s1 hk ht) wc h,
   fun X wn hX h => SatGOpenTx.open_B w env s v side m l b hinc hS X hX wn h⟩

/-- both succeed or both fail -/
theorem twin_open_increase_outcome (w : World) (env : Env) (s v : Nat) (side : Side) (m l b : Nat)
    (hinc : (getPosition env w.engine v s side).size.isZero = true
      ∨ (getPosition env w.engine v s side).direction = sideToDirection side)
    (hS : Setup w s) (hk : Dispatch.KeysNodup w.ledger) (ht : Dispatch.total w.ledger ≤ U128.MAX) :
    (∃ wc, applyTx (cw w) env s ⟨0, false⟩ (.engine (.openPosition v side m l b)) = .ok wc)
      ↔ (∃ X wn, X ≤ Ledger.get w.ledger.allow s
          ∧ applyTx (nat w) env s ⟨X, false⟩ (.engine (.openPosition v side m l b)) = .ok wn) := by
  obtain ⟨hA, hB⟩ := twin_open_increase w env s v side m l b hinc hS hk ht
  constructor
  · rintro ⟨wc, h⟩
    obtain ⟨wn, hn, _, hal⟩ := hA wc h
    exact ⟨_, wn, hal, hn⟩
  · rintro ⟨X, wn, hX, h⟩
    obtain ⟨wc, hc, _⟩ := hB X wn hX h
    exact ⟨wc, hc⟩

/-- **ClosePosition, whole close** (`WholeQ`: the engine does not fall back to a partial close).
    (A) if the cw20 run succeeds WITHOUT a vault shortfall (nothing booked as pre-paid bad debt) and the trader
        could have paid the fee up front (`pulledBy … ≤ balance`), the native run given exactly the pulled amount
        succeeds and the worlds agree;
    (B) if the native run with `X` attached succeeds without a shortfall, the payout fits in the vault as it was
        before the fee coins arrived, and `X` is exactly the fee the run paid to fund and pool, then the cw20 run
        succeeds, pulls exactly `X`, and the worlds agree.
    The three restrictions are exactly F10b (shortfall), F10c / F10c′ (fee not payable / not payable up front);
    see `SatGWitness`. -/
theorem twin_close_whole (w : World) (env : Env) (s v lim : Nat)
    (hwh : SatGClose.WholeQ ({ w with env := env, log := [] } : World).q w.engine s v)
    (hS : Setup w s) (hk : Dispatch.KeysNodup w.ledger) (ht : Dispatch.total w.ledger ≤ U128.MAX) :
    (∀ wc, applyTx (cw w) env s ⟨0, false⟩ (.engine (.closePosition v lim)) = .ok wc →
        wc.engine.st.prepaid = w.engine.st.prepaid → pulledBy wc.log s ≤ w.ledger.balance s →
        ∃ wn, applyTx (nat w) env s ⟨pulledBy wc.log s, false⟩ (.engine (.closePosition v lim)) = .ok wn
          ∧ Agree wn wc ∧ pulledBy wc.log s ≤ Ledger.get w.ledger.allow s)
    ∧ (∀ X wn, X ≤ Ledger.get w.ledger.allow s →
        applyTx (nat w) env s ⟨X, false⟩ (.engine (.closePosition v lim)) = .ok wn →
        wn.engine.st.prepaid = w.engine.st.prepaid →
        (∀ amt, (ENGINE, s, amt) ∈ wn.log → amt ≤ w.ledger.balance ENGINE) →
        X = paidTo wn.log IFUND + paidTo wn.log FEEPOOL →
        ∃ wc, applyTx (cw w) env s ⟨0, false⟩ (.engine (.closePosition v lim)) = .ok wc
          ∧ pulledBy wc.log s = X ∧ Agree wn wc) :=
  ⟨fun wc h hns hpay =>
      SatGCloseTx.close_A w env s v lim hwh hS (SatGOpenTx.room_of_total w s hS.s1 hk ht) wc h hns hpay,
   fun X wn hX h hns hv hfee =>
      SatGCloseTx.close_B w env s v lim hwh hS (SatGOpenTx.room_of_total w s hS.s1 hk ht) X hX wn h hns hv hfee⟩

/-! the three known divergences (and a fourth, order-of-payment one), as concrete worlds:
    `SatGWitness.F10a_reverse_diverges`, `F10b_shortfall_diverges`, `F10c_fee_unpayable_diverges`,
    `F10c'_fee_upfront_diverges` -/

end Perp.Props.SatG
