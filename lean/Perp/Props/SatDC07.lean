/-
  SatD — C07 (liveness of `Liquidate`), the sub-case in which the model does go through: the forward
  simulation of the whole transaction (execute, closing swap, reply, transfers).
-/
import Perp.Props.SatDC06
import Perp.Props.LiqTwin

namespace Perp.Props.SatD
open Perp Perp.World Perp.Engine Perp.Spec Perp.Spec.W
open Perp.Props.EngineGuards (Post ConfigOK)
open Perp.Props.Dispatch
open Perp.Props.C19
open Perp.Props.ModelStep

/-! ### the ledger, forwards -/

theorem get_le_sumv (l : List (Nat × Nat)) (a : Nat) (hk : (l.map (·.1)).Nodup) : Ledger.get l a ≤ Ledger.sumv l := by
  have := Ledger.sumv_filter l a hk
  omega

theorem balance_le_total (g : Ledger) (a : Nat) (hk : KeysNodup g) : g.balance a ≤ total g := by
  rw [total_eq_sumv]; exact get_le_sumv g.bal a hk

theorem two_le_total (g : Ledger) (a b : Nat) (hab : a ≠ b) (hk : KeysNodup g) :
    g.balance a + g.balance b ≤ total g := by
  rw [total_eq_sumv]
  have h1 := Ledger.sumv_filter g.bal a hk
  have h2 := get_le_sumv (g.bal.filter (fun p => p.1 != a)) b (Ledger.keys_filter_nodup g.bal a hk)
  rw [Ledger.get_filter_ne g.bal a b (fun h => hab h.symm)] at h2
  unfold Ledger.balance
  omega

/-- with one entry per account and a total within `u128`, a move succeeds as soon as the source holds
    the amount -/
theorem move_fwd (g : Ledger) (src dst amt : Nat) (hk : KeysNodup g) (ht : total g ≤ U128.MAX)
    (hb : amt ≤ g.balance src) :
    ∃ g', Ledger.move g src dst amt = .ok g' ∧ KeysNodup g' ∧ total g' = total g
      ∧ (src ≠ dst → g'.balance src = g.balance src - amt ∧ g'.balance dst = g.balance dst + amt)
      ∧ (∀ a, a ≠ src → a ≠ dst → g'.balance a = g.balance a) := by
  have hk1 : KeysNodup { g with bal := Ledger.set g.bal src (g.balance src - amt) } :=
    Ledger.keys_set_nodup g.bal src _ hk
  have hov : ¬ (Ledger.balance { g with bal := Ledger.set g.bal src (g.balance src - amt) } dst + amt > U128.MAX) := by
    have h1 := balance_le_total _ dst hk1
    have h2 : total { g with bal := Ledger.set g.bal src (g.balance src - amt) } + amt = total g := by
      rw [total_eq_sumv, total_eq_sumv]
      have := Ledger.sumv_set g.bal src (g.balance src - amt) hk
      unfold Ledger.balance at *
      simp only [] at *
      omega
    omega
  have hmv : Ledger.move g src dst amt = .ok
      { { g with bal := Ledger.set g.bal src (g.balance src - amt) } with
        bal := Ledger.set (Ledger.set g.bal src (g.balance src - amt)) dst
          (Ledger.balance { g with bal := Ledger.set g.bal src (g.balance src - amt) } dst + amt) } := by
    unfold Ledger.move
    rw [if_neg (by omega)]
    simp only []
    rw [if_neg hov]
  refine ⟨_, hmv, (move_total _ _ _ _ _ hk hmv).1, (move_total _ _ _ _ _ hk hmv).2.1, ?_,
    fun a h1 h2 => move_frame _ _ _ _ _ _ hmv h1 h2⟩
  intro hne
  constructor
  · show Ledger.get (Ledger.set _ dst _) src = _
    rw [Ledger.get_set_ne _ _ _ _ hne, Ledger.get_set_self]
  · show Ledger.get (Ledger.set _ dst _) dst = _
    rw [Ledger.get_set_self]
    show Ledger.get (Ledger.set g.bal src _) dst + amt = _
    rw [Ledger.get_set_ne _ _ _ _ (fun h => hne h.symm)]
    rfl


/-- a sequence of ledger moves all of which go through (non-zero amounts) -/
def movesOk : Ledger → List (Nat × Nat × Nat) → Prop
  | _, [] => True
  | g, x :: r => x.2.2 ≠ 0 ∧ ∃ g', Ledger.move g x.1 x.2.1 x.2.2 = .ok g' ∧ movesOk g' r

/-- the same, tracked on the two balances that matter: fund → engine, engine → fund, and a last payment
    out of the engine -/
def simOk : Nat → Nat → List (Nat × Nat × Nat) → Prop
  | _, _, [] => True
  | bE, bI, x :: r =>
      x.2.2 ≠ 0 ∧ ((x.1 = IFUND ∧ x.2.1 = ENGINE ∧ x.2.2 ≤ bI ∧ simOk (bE + x.2.2) (bI - x.2.2) r)
             ∨ (x.1 = ENGINE ∧ x.2.1 = IFUND ∧ x.2.2 ≤ bE ∧ simOk (bE - x.2.2) (bI + x.2.2) r)
             ∨ (x.1 = ENGINE ∧ r = [] ∧ x.2.2 ≤ bE))

theorem movesOk_of_sim : ∀ (xs : List (Nat × Nat × Nat)) (g : Ledger), KeysNodup g → total g ≤ U128.MAX →
    simOk (g.balance ENGINE) (g.balance IFUND) xs → movesOk g xs := by
  intro xs
  induction xs with
  | nil => intro g _ _ _; trivial
  | cons x r ih =>
    intro g hk ht hs
    obtain ⟨hn, hcase⟩ := hs
    refine ⟨hn, ?_⟩
    have hIE : IFUND ≠ ENGINE := by decide
    rcases hcase with ⟨ha, hb, hle, hrest⟩ | ⟨ha, hb, hle, hrest⟩ | ⟨ha, hr, hle⟩
    · rw [ha, hb]
      obtain ⟨g', hmv, hk', ht', hbal, _⟩ := move_fwd g IFUND ENGINE x.2.2 hk ht hle
      refine ⟨g', hmv, ih g' hk' (ht' ▸ ht) ?_⟩
      rw [(hbal hIE).1, (hbal hIE).2]; exact hrest
    · rw [ha, hb]
      obtain ⟨g', hmv, hk', ht', hbal, _⟩ := move_fwd g ENGINE IFUND x.2.2 hk ht hle
      refine ⟨g', hmv, ih g' hk' (ht' ▸ ht) ?_⟩
      rw [(hbal hIE.symm).1, (hbal hIE.symm).2]; exact hrest
    · rw [ha, hr]
      obtain ⟨g', hmv, _⟩ := move_fwd g ENGINE x.2.1 x.2.2 hk ht hle
      exact ⟨g', hmv, trivial⟩

/-! ### the dispatcher, forwards -/

theorem execSubs_nil_fwd (fuel : Nat) (W : World) (c : Nat) : execSubs (fuel + 1) W c [] = .ok W := by
  unfold execSubs; rfl

theorem execSubs_cons_err_fwd (fuel : Nat) (W W1 : World) (c : Nat) (ev : Ev) (m : SubMsg) (rest : List SubMsg)
    (hr : m.replyOn = .error ∨ m.replyOn = .never) (hx : execMsg fuel W c m.msg = .ok (W1, ev)) :
    execSubs (fuel + 1) W c (m :: rest) = execSubs fuel W1 c rest := by
  conv => lhs; unfold execSubs
  simp only [hx]
  rcases hr with hr | hr <;> simp [hr]

theorem exec_move_fwd (fuel : Nat) (W : World) (c : Nat) (cfg : Config) (r a : Nat) (g : Ledger)
    (ha : a ≠ 0) (hm : Ledger.move W.ledger c r a = .ok g) :
    execMsg (fuel + 1) W c (transferMsg cfg r a).msg
      = .ok ({ W with ledger := g, log := W.log ++ [(c, r, a)] }, .none) := by
  unfold transferMsg
  split <;> (unfold execMsg; simp [Ledger.bankSend, Ledger.tokenTransfer, ha, hm])

theorem exec_ifWithdraw_fwd (fuel : Nat) (W : World) (a : Nat) (g : Ledger)
    (h1 : W.engine.cfg.insuranceFund = IFUND) (h2 : W.ifund.engine = ENGINE)
    (ha : a ≠ 0) (hm : Ledger.move W.ledger IFUND ENGINE a = .ok g) :
    execMsg (fuel + 3) W ENGINE (.ifWithdraw a)
      = .ok ({ W with ledger := g, log := W.log ++ [(IFUND, ENGINE, a)] }, .none) := by
  have hsub : ∀ sub : SubMsg, sub.replyOn = .never →
      execMsg (fuel + 1) W IFUND sub.msg = .ok ({ W with ledger := g, log := W.log ++ [(IFUND, ENGINE, a)] }, .none) →
      execSubs (fuel + 2) W IFUND [sub] = .ok { W with ledger := g, log := W.log ++ [(IFUND, ENGINE, a)] } := by
    intro sub hr hx
    rw [execSubs_cons_err_fwd _ _ _ _ _ _ _ (Or.inr hr) hx, execSubs_nil_fwd]
  unfold execMsg
  simp only [h1, h2, ne_eq, not_true_eq_false, if_false]
  split
  · rw [hsub _ rfl]
    · rfl
    · show execMsg (fuel + 1) W IFUND (.bankSend ENGINE a) = _
      unfold execMsg; simp [Ledger.bankSend, ha, hm]
  · rw [hsub _ rfl]
    · rfl
    · show execMsg (fuel + 1) W IFUND (.tokenTransfer ENGINE a) = _
      unfold execMsg; simp [Ledger.tokenTransfer, ha, hm]


/-- the messages a liquidation reply emits: insurance-fund withdrawals and plain transfers -/
def IsLiqMsg (m : SubMsg) : Prop := (∃ a, m = ifWithdrawMsg a) ∨ (∃ cfg r a, m = transferMsg cfg r a)

theorem run_CE_fwd : ∀ (msgs : List SubMsg) (fuel : Nat) (W : World),
    (∀ m ∈ msgs, IsLiqMsg m) → W.engine.cfg.insuranceFund = IFUND → W.ifund.engine = ENGINE →
    msgs.length + 4 ≤ fuel →
    movesOk W.ledger (msgs.flatMap (fun m => xferOf ENGINE m.msg)) →
    ∃ W', execSubs fuel W ENGINE msgs = .ok W' := by
  intro msgs
  induction msgs with
  | nil =>
    intro fuel W _ _ _ hf _
    obtain ⟨f, rfl⟩ : ∃ f, fuel = f + 1 := ⟨fuel - 1, by simp at hf; omega⟩
    exact ⟨W, execSubs_nil_fwd _ _ _⟩
  | cons m rest ih =>
    intro fuel W hsh h1 h2 hf hmv
    simp only [List.length_cons] at hf
    obtain ⟨f, rfl⟩ : ∃ f, fuel = f + 4 := ⟨fuel - 4, by omega⟩
    rw [List.flatMap_cons] at hmv
    have hrest : ∀ m' ∈ rest, IsLiqMsg m' := fun m' hm' => hsh m' (List.mem_cons_of_mem _ hm')
    rcases hsh m List.mem_cons_self with ⟨a, rfl⟩ | ⟨cfg, r, a, rfl⟩
    · rw [xferOf_ifWithdrawMsg] at hmv
      obtain ⟨ha, g', hm', hmv'⟩ := hmv
      have hx := exec_ifWithdraw_fwd f W a g' h1 h2 ha hm'
      rw [execSubs_cons_err_fwd (f + 3) W _ ENGINE _ (ifWithdrawMsg a) rest (Or.inl rfl) hx]
      exact ih (f + 3) _ hrest h1 h2 (by omega) hmv'
    · rw [xferOf_transferMsg] at hmv
      obtain ⟨ha, g', hm', hmv'⟩ := hmv
      have hx := exec_move_fwd (f + 2) W ENGINE cfg r a g' ha hm'
      rw [execSubs_cons_err_fwd (f + 3) W _ ENGINE _ (transferMsg cfg r a) rest
        (Or.inl (WorldInv.transferMsg_err _ _ _)) hx]
      exact ih (f + 3) _ hrest h1 h2 (by omega) hmv'


theorem exec_swapOutput_fwd (fuel : Nat) (W : World) (c a : Nat) (dir : Direction) (amt lim : Nat)
    (x x' : Vamm.V) (o : Vamm.SwapOut) (hv : W.vamm? a = some x)
    (hs : Vamm.swapOutput x W.env c dir amt lim = .ok (x', o)) :
    execMsg (fuel + 1) W c (.vammSwapOutput a dir amt lim) = .ok (W.setVamm a x', .swap o) := by
  unfold execMsg
  simp [vammE, hv, hs]

/-- the liquidation flow, forwards: swap, reply, the reply's messages -/
theorem execSubs_swap_fwd (fuel : Nat) (W w3 : World) (a : Nat) (side : Side) (amt lim id : Nat)
    (x x' : Vamm.V) (o : Vamm.SwapOut) (e2 : E) (subs2 : List SubMsg)
    (hv : W.vamm? a = some x)
    (hs : Vamm.swapOutput x W.env ENGINE (sideToDirection side) amt lim = .ok (x', o))
    (hrep : replyOk (W.setVamm a x').q W.engine W.env id (.swap o) = .ok (e2, subs2))
    (hrun : execSubs (fuel + 1) { W.setVamm a x' with engine := e2 } ENGINE subs2 = .ok w3) :
    execSubs (fuel + 2) W ENGINE [swapOutputMsg a side amt lim id] = .ok w3 := by
  have hx := exec_swapOutput_fwd fuel W ENGINE a (sideToDirection side) amt lim x x' o hv hs
  conv => lhs; unfold execSubs
  simp only [swapOutputMsg, hx]
  have hrep' : replyOk (W.setVamm a x').q (W.setVamm a x').engine (W.setVamm a x').env id (.swap o) = .ok (e2, subs2) := hrep
  simp only [true_or, if_true, ne_eq, not_true_eq_false, if_false, hrep', hrun]
  exact execSubs_nil_fwd _ _ _

/-! ### the handlers, forwards -/

theorem liquidate_fwd (q : Q) (e : E) (env : Env) (s v t l : Nat) (r0 ratio : Integer) (over : Bool)
    (hq : queryMarginRatio q e v t = .ok r0) (hs : q.isOverSpread v = .ok over)
    (hov : over = true → ∃ ro d, marginRatioByOption q e v t .oracle = .ok ro ∧ Integer.checkedSub ro r0 = .ok d
              ∧ ratio = if Integer.gt d Integer.zero then ro else r0)
    (hnov : over = false → ratio = r0)
    (hv : requireVamm q v = .ok ())
    (hins : Integer.gt ratio (Integer.newPositive e.cfg.mmr) = false)
    (hp : (readPosition e v t).size.value ≠ 0)
    (hfull : ¬ (ratio.value > e.cfg.liqFee ∧ e.cfg.plr ≠ 0)) :
    liquidate q e env s v t l = .ok ({ e with tmpLiq := some s, tmpSwap := some (closeTmp (readPosition e v t)) },
      [swapOutputMsg (readPosition e v t).vamm (directionToSide (readPosition e v t).direction)
        (readPosition e v t).size.value l REPLY_LIQUIDATION]) := by
  have hq' : queryMarginRatio q { e with tmpLiq := some s } v t = .ok r0 := hq
  cases over with
  | false =>
    have h1 := hnov rfl
    subst h1
    simp [liquidate, hq', hs, hv, hins, requireInsufficientMargin, LiqTwin.readPosition_tmpLiq, hp, hfull,
      internalClosePosition, closeTmp, bind, Except.bind, pure, Except.pure]
  | true =>
    obtain ⟨ro, d, h1, h2, h3⟩ := hov rfl
    have h1' : marginRatioByOption q { e with tmpLiq := some s } v t .oracle = .ok ro := h1
    subst h3
    simp [liquidate, hq', hs, hv, h1', h2, hins, requireInsufficientMargin, LiqTwin.readPosition_tmpLiq, hp, hfull,
      internalClosePosition, closeTmp, bind, Except.bind, pure, Except.pure]


theorem realize_noPrepaid (st : State) (bd : Nat) (hpp : st.prepaid = 0) :
    (if bd ≠ 0 then realizeBadDebt st bd else (st, [], 0))
      = (st, (if bd ≠ 0 then [ifWithdrawMsg bd] else []), bd) := by
  by_cases hb : bd = 0
  · subst hb; simp
  · obtain ⟨oi, pp, pa⟩ := st
    simp only at hpp
    subst hpp
    simp [realizeBadDebt, hb]

theorem withdraw_fwd (q : Q) (e : E) (st : State) (r amt pre bal : Nat)
    (hbal : q.balance ENGINE_ADDR = .ok bal) (htot : bal + pre ≤ U128.MAX)
    (hpp : bal + pre < amt → st.prepaid + (amt - (bal + pre)) ≤ U128.MAX) :
    ∃ st', unwrap (withdraw q e st r amt pre) = .ok (st',
      if bal + pre < amt then [ifWithdrawMsg (amt - (bal + pre)), transferMsg e.cfg r amt]
      else [transferMsg e.cfg r amt]) := by
  unfold withdraw
  simp only [hbal, unwrap, C17.ok_bind]
  have h1 : cadd bal pre = .ok (bal + pre) := by simp [cadd, htot]
  simp only [h1, C17.ok_bind]
  by_cases hlt : bal + pre < amt
  · have h2 : csub amt (bal + pre) = .ok (amt - (bal + pre)) := by simp [csub]; omega
    have h3 : cadd st.prepaid (amt - (bal + pre)) = .ok (st.prepaid + (amt - (bal + pre))) := by
      simp [cadd, hpp hlt]
    simp only [hlt, if_true, h2, h3, C17.ok_bind]
    exact ⟨_, rfl⟩
  · simp only [hlt, if_false]
    exact ⟨_, rfl⟩

theorem liquidateReply_fwd (q : Q) (e : E) (env : Env) (out : Nat) (sw : TmpSwap) (liq : Nat) (p : Position)
    (delta : Integer) (rm : RemainMargin) (bal : Nat)
    (hs : e.tmpSwap = some sw) (hl : e.tmpLiq = some liq)
    (hgp : getPosition env e sw.vamm sw.trader sw.side = p)
    (hd : closeMarginDelta p sw out = .ok delta) (hrm : calcRemainMargin e p delta = .ok rm)
    (hmul : out * e.cfg.liqFee ≤ U128.MAX) (hD : e.cfg.decimals ≠ 0)
    (hbal : q.balance ENGINE_ADDR = .ok bal) (hpp : e.st.prepaid = 0)
    (hbd : rm.badDebt + (out * e.cfg.liqFee / e.cfg.decimals / 2 - rm.margin) ≤ U128.MAX)
    (htot : bal + (if out * e.cfg.liqFee / e.cfg.decimals / 2 > rm.margin
                    then rm.badDebt + (out * e.cfg.liqFee / e.cfg.decimals / 2 - rm.margin) else rm.badDebt) ≤ U128.MAX) :
    ∃ e2, liquidateReply q e env out = .ok (e2,
      (if (if out * e.cfg.liqFee / e.cfg.decimals / 2 > rm.margin
              then rm.badDebt + (out * e.cfg.liqFee / e.cfg.decimals / 2 - rm.margin) else rm.badDebt) ≠ 0
        then [ifWithdrawMsg (if out * e.cfg.liqFee / e.cfg.decimals / 2 > rm.margin
              then rm.badDebt + (out * e.cfg.liqFee / e.cfg.decimals / 2 - rm.margin) else rm.badDebt)] else [])
      ++ (if (if out * e.cfg.liqFee / e.cfg.decimals / 2 > rm.margin then 0
                else rm.margin - out * e.cfg.liqFee / e.cfg.decimals / 2) ≠ 0
          then [transferMsg e.cfg e.cfg.insuranceFund
                  (if out * e.cfg.liqFee / e.cfg.decimals / 2 > rm.margin then 0
                    else rm.margin - out * e.cfg.liqFee / e.cfg.decimals / 2)] else [])
      ++ (if bal + (if out * e.cfg.liqFee / e.cfg.decimals / 2 > rm.margin
                    then rm.badDebt + (out * e.cfg.liqFee / e.cfg.decimals / 2 - rm.margin) else rm.badDebt)
              < out * e.cfg.liqFee / e.cfg.decimals / 2
          then [ifWithdrawMsg (out * e.cfg.liqFee / e.cfg.decimals / 2
                  - (bal + (if out * e.cfg.liqFee / e.cfg.decimals / 2 > rm.margin
                    then rm.badDebt + (out * e.cfg.liqFee / e.cfg.decimals / 2 - rm.margin) else rm.badDebt))),
                transferMsg e.cfg liq (out * e.cfg.liqFee / e.cfg.decimals / 2)]
          else [transferMsg e.cfg liq (out * e.cfg.liqFee / e.cfg.decimals / 2)])) := by
  have hfee : out * e.cfg.liqFee / e.cfg.decimals / 2 ≤ U128.MAX :=
    Nat.le_trans (Nat.div_le_self _ _) (Nat.le_trans (Nat.div_le_self _ _) hmul)
  generalize hF : out * e.cfg.liqFee / e.cfg.decimals / 2 = fee at *
  have hmulE : cmul out e.cfg.liqFee = .ok (out * e.cfg.liqFee) := by simp [cmul, hmul]
  have hdivE : cdiv (out * e.cfg.liqFee) e.cfg.decimals = .ok (out * e.cfg.liqFee / e.cfg.decimals) := by
    simp [cdiv, hD]
  unfold liquidateReply
  simp only [hs, hl, pure_bind, hgp, hd, hrm, hmulE, hdivE, C17.ok_bind, hF]
  have key : ∀ bd : Nat, bal + bd ≤ U128.MAX → ∀ mg : Nat,
      ∃ e2, (do
        let __x ← unwrap (withdraw q e (if bd ≠ 0 then realizeBadDebt e.st bd else (e.st, [], 0)).fst liq fee
                (if bd ≠ 0 then realizeBadDebt e.st bd else (e.st, [], 0)).2.snd)
        pure
            (enterRestrictionMode
                { cfg := (removePosition e p).cfg, st := __x.fst, pauser := (removePosition e p).pauser,
                  whitelist := (removePosition e p).whitelist, positions := (removePosition e p).positions,
                  vammMaps := (removePosition e p).vammMaps, tmpSwap := none,
                  sentFunds := (removePosition e p).sentFunds, tmpLiq := none }
                sw.vamm env.height,
              ((if bd ≠ 0 then realizeBadDebt e.st bd else (e.st, [], 0)).2.fst ++
                  if mg ≠ 0 then [transferMsg e.cfg e.cfg.insuranceFund mg] else []) ++
                __x.snd) : Except Err (E × List SubMsg))
        = .ok (e2, ((if bd ≠ 0 then [ifWithdrawMsg bd] else []) ++
              (if mg ≠ 0 then [transferMsg e.cfg e.cfg.insuranceFund mg] else [])) ++
            (if bal + bd < fee then [ifWithdrawMsg (fee - (bal + bd)), transferMsg e.cfg liq fee]
              else [transferMsg e.cfg liq fee])) := by
    intro bd hbdle mg
    rw [realize_noPrepaid e.st bd hpp]
    simp only []
    obtain ⟨st', hw⟩ := withdraw_fwd q e e.st liq fee bd bal hbal hbdle (by intro _; rw [hpp]; omega)
    rw [hw]
    exact ⟨_, rfl⟩
  by_cases hc : fee > rm.margin
  · simp only [hc, if_true] at htot ⊢
    have h4 : cadd rm.badDebt (fee - rm.margin) = .ok (rm.badDebt + (fee - rm.margin)) := by simp [cadd, hbd]
    simp only [h4, C17.ok_bind]
    exact key _ htot 0
  · simp only [hc, if_false] at htot ⊢
    exact key _ htot _


/-- the transfers of a full liquidation go through: the fund covers the bad debt and the two fee halves,
    the vault covers the equity it forwards -/
theorem liq_sim (E : Int) (fee rmm rbd bE bI s : Nat) (hfee : fee ≠ 0)
    (hge : 0 ≤ E → (rmm : Int) = E ∧ rbd = 0) (hlt : E < 0 → rmm = 0 ∧ (rbd : Int) = -E)
    (hneed : (if E < 0 then -E else 0) + (fee : Int) + fee ≤ bI)
    (hvault : E > fee → E ≤ bE) :
    simOk bE bI
      ((if (if fee > rmm then rbd + (fee - rmm) else rbd) ≠ 0
          then [(IFUND, ENGINE, (if fee > rmm then rbd + (fee - rmm) else rbd))] else [])
        ++ (if (if fee > rmm then 0 else rmm - fee) ≠ 0
          then [(ENGINE, IFUND, (if fee > rmm then 0 else rmm - fee))] else [])
        ++ (if bE + (if fee > rmm then rbd + (fee - rmm) else rbd) < fee
          then [(IFUND, ENGINE, fee - (bE + (if fee > rmm then rbd + (fee - rmm) else rbd))), (ENGINE, s, fee)]
          else [(ENGINE, s, fee)])) := by
  have hIE : IFUND ≠ ENGINE := by decide
  have hEI : ENGINE ≠ IFUND := by decide
  by_cases hE : E < 0
  · obtain ⟨h1, h2⟩ := hlt hE
    subst h1
    rw [if_pos hE] at hneed
    have hc : fee > 0 := by omega
    have hbd : rbd + (fee - 0) ≠ 0 := by omega
    have hnl : ¬ (bE + (rbd + (fee - 0)) < fee) := by omega
    simp only [hc, if_true, hbd, ne_eq, not_false_eq_true, not_true_eq_false, if_false, hnl,
      List.append_nil, List.cons_append, List.nil_append]
    refine ⟨hbd, Or.inl ⟨rfl, rfl, by simp only []; omega, fun h => hfee h, Or.inr (Or.inr ⟨rfl, rfl, by simp only []; omega⟩)⟩⟩
  · obtain ⟨h1, h2⟩ := hge (by omega)
    subst h2
    rw [if_neg hE] at hneed
    by_cases hc : fee > rmm
    · have hbd : 0 + (fee - rmm) ≠ 0 := by omega
      simp only [hc, if_true, hbd, ne_eq, not_false_eq_true, not_true_eq_false, if_false,
        List.append_nil, List.cons_append, List.nil_append]
      by_cases hl : bE + (0 + (fee - rmm)) < fee
      · simp only [hl, if_true]
        refine ⟨hbd, Or.inl ⟨rfl, rfl, by simp only []; omega, ⟨by simp only []; omega, Or.inl ⟨rfl, rfl, by simp only []; omega,
          fun h => hfee h, Or.inr (Or.inr ⟨rfl, rfl, by simp only []; omega⟩)⟩⟩⟩⟩
      · simp only [hl, if_false]
        refine ⟨hbd, Or.inl ⟨rfl, rfl, by simp only []; omega, fun h => hfee h, Or.inr (Or.inr ⟨rfl, rfl, by simp only []; omega⟩)⟩⟩
    · simp only [hc, if_false, ne_eq, not_true_eq_false, List.nil_append, Nat.add_zero]
      by_cases hm : rmm - fee = 0
      · simp only [hm, not_true_eq_false, if_false, List.nil_append]
        by_cases hl : bE < fee
        · simp only [hl, if_true]
          refine ⟨by simp only []; omega, Or.inl ⟨rfl, rfl, by simp only []; omega,
            fun h => hfee h, Or.inr (Or.inr ⟨rfl, rfl, by simp only []; omega⟩)⟩⟩
        · simp only [hl, if_false]
          exact ⟨fun h => hfee h, Or.inr (Or.inr ⟨rfl, rfl, by simp only []; omega⟩)⟩
      · have hv := hvault (by omega)
        have hl : ¬ bE < fee := by omega
        simp only [hm, not_false_eq_true, if_true, hl, if_false, List.cons_append, List.nil_append]
        refine ⟨hm, Or.inr (Or.inl ⟨rfl, rfl, by simp only []; omega, fun h => hfee h,
          Or.inr (Or.inr ⟨rfl, rfl, by simp only []; omega⟩)⟩)⟩

/-! ### what the precondition says -/

theorem precondition_inv (S : Step) (v t : Nat) (h : C07.precondition S v t = true) :
    ∃ x out, (preAt S).vamm? v = some x
      ∧ Vamm.queryOutputAmount x (pos (preAt S) v t).direction (pos (preAt S) v t).size.value = .ok out
      ∧ (pos (preAt S) v t).size.isZero = false ∧ x.st.isOpen = true ∧ registered (preAt S) v = true
      ∧ out * (preAt S).engine.cfg.liqFee / (preAt S).engine.cfg.decimals / 2 ≠ 0
      ∧ x.cfg.marginEngine = ENGINE ∧ (preAt S).engine.cfg.insuranceFund = IFUND
      ∧ (if (((pos (preAt S) v t).margin : Int) + pnlOf (pos (preAt S) v t) out
              - fundingOwed (preAt S) (pos (preAt S) v t)) < 0
          then -(((pos (preAt S) v t).margin : Int) + pnlOf (pos (preAt S) v t) out
              - fundingOwed (preAt S) (pos (preAt S) v t)) else 0)
          + ((out * (preAt S).engine.cfg.liqFee / (preAt S).engine.cfg.decimals / 2 : Nat) : Int)
          + ((out * (preAt S).engine.cfg.liqFee / (preAt S).engine.cfg.decimals / 2 : Nat) : Int)
          ≤ bal (preAt S) IFUND := by
  unfold C07.precondition at h
  simp only [] at h
  split at h
  · cases h
  · rename_i x hx
    cases hq : Vamm.queryOutputAmount x (pos (preAt S) v t).direction (pos (preAt S) v t).size.value with
    | error e => rw [hq] at h; simp at h
    | ok out =>
      rw [hq] at h
      simp only [Bool.and_eq_true, Bool.not_eq_true', decide_eq_true_eq, ne_eq, beq_iff_eq] at h
      obtain ⟨⟨⟨⟨⟨⟨⟨⟨⟨h1, h2⟩, h3⟩, _⟩, _⟩, _⟩, h7⟩, h8⟩, h9⟩, h10⟩ := h
      refine ⟨x, out, hx, hq, h1, h2, h3, h7, h8, h9, ?_⟩
      unfold pnlOf
      exact h10


/-! ### the sub-case of C07 in which the model is live -/

/-- (a) invariant of reachable worlds: the collateral in existence fits `u128` (the ledger checks every
    credit against `u128::MAX` and every transaction conserves the total: `Dispatch.step_total`), so a
    transfer can only fail for lack of funds.  Needed: a vault that cannot be credited fails the
    liquidation (`Witness.C07_cex_total_above_u128`). -/
def TotalBounded (w : World) : Prop := Dispatch.total w.ledger ≤ U128.MAX

theorem totalBounded_step (w : World) (env : Env) (s : Nat) (f : Funds) (tx : Tx) (hk : KeysNodup w.ledger)
    (h : TotalBounded w) : TotalBounded (step w env s f tx) := by
  unfold TotalBounded
  rw [(step_total w env s f tx hk).2]; exact h

/-- (b) deployment wiring — the component of `ModelStep.Wired` C07 needs beyond what
    `C07.precondition` states: the insurance fund recognises the engine as its beneficiary (otherwise
    every withdrawal of bad debt / fee shortfall is refused as unauthorised:
    `Witness.C07_cex_fund_not_wired_to_engine`). -/
def IfeWired (w : World) : Prop := w.ifund.engine = ENGINE

/-- (c) the sub-case of the property in which the model does liquidate: the full-liquidation path with
    none of the failure modes the model (mirroring the implementation) has beyond `C07.precondition`.
    `v`, `t` are the vAMM and trader of the `Liquidate`. -/
structure LiqSubCase (w : World) (env : Env) (f : Funds) (v t : Nat) : Prop where
  /-- the liquidator attaches no native funds (attached funds the sender does not own fail the call
      before the engine runs: `Witness.C07_cex_funds_attached`) -/
  noFunds : w.engine.cfg.native = true → f.amount = 0
  /-- no pre-paid bad debt is outstanding (with `prepaid = bad debt ≠ 0` exactly, `realize_bad_debt`
      dispatches a zero-amount withdrawal, which the token rejects: `Witness.C07_cex_prepaid_equals_bad_debt`;
      a finding of this proof, not among the known defects) -/
  noPrepaid : w.engine.st.prepaid = 0
  /-- the handler's own ratio computation goes through: the oracle is readable (known defect otherwise:
      tag `…(oracle-unreadable)`, `Witness.C07_witness_oracle_unreadable`), and `oracleRatio − ratio` is
      representable (the handler compares the two ratios by a `checked_sub`, the property compares them as
      integers) -/
  ratioOk : ∃ over, ({ w with env := env } : World).q.isOverSpread v = .ok over ∧
      (over = true → ∃ ro, marginRatioByOption ({ w with env := env } : World).q w.engine v t .oracle = .ok ro
        ∧ ∀ r0, queryMarginRatio ({ w with env := env } : World).q w.engine v t = .ok r0 →
            ∃ d, Integer.checkedSub ro r0 = .ok d)
  /-- the full-liquidation path is taken: no partial-liquidation ratio is configured, or the ratio's
      magnitude does not exceed the liquidation fee ratio (known defect otherwise: the partial path
      underflows / fails in its transfers: `LiqTwin.partial_path_underflows`,
      `Witness.C07_witness_partial_path`) -/
  fullPath : ∀ r, liqRatio ({ w with env := env } : World) v t = some r →
      w.engine.cfg.plr = 0 ∨ r.natAbs ≤ w.engine.cfg.liqFee
  /-- the vAMM accepts the closing swap: `fillable ∧ inBand ∧ open ∧ wired` of the precondition, and no
      `u128` overflow in the vAMM's band / reserve / net-position arithmetic -/
  swapOk : ∀ x, w.vamm? v = some x →
      ∃ res, Vamm.swapOutput x env ENGINE (readPosition w.engine v t).direction (readPosition w.engine v t).size.value 0 = .ok res
  /-- no `u128` overflow in the reply's own arithmetic (penalty product, funding settlement on the
      realised delta) -/
  arithOk : ∀ x out, w.vamm? v = some x →
      Vamm.queryOutputAmount x (readPosition w.engine v t).direction (readPosition w.engine v t).size.value = .ok out →
      out * w.engine.cfg.liqFee ≤ U128.MAX ∧
      ∃ delta rm, closeMarginDelta (readPosition w.engine v t) (closeTmp (readPosition w.engine v t)) out = .ok delta
        ∧ calcRemainMargin w.engine (readPosition w.engine v t) delta = .ok rm
  /-- the vault holds the equity it has to forward: when the position's equity exceeds the liquidator's
      fee, the engine's balance covers it (the remaining margin is sent to the insurance fund by a plain
      transfer, which fails on a short vault: `Witness.C07_cex_vault_short`; the fee itself and any bad
      debt are topped up from the fund, whose balance `C07.precondition` bounds) -/
  vaultOk : ∀ x out, w.vamm? v = some x →
      Vamm.queryOutputAmount x (readPosition w.engine v t).direction (readPosition w.engine v t).size.value = .ok out →
      let E : Int := ((readPosition w.engine v t).margin : Int) + pnlOf (readPosition w.engine v t) out
                      - fundingOwed w (readPosition w.engine v t)
      E > ((out * w.engine.cfg.liqFee / w.engine.cfg.decimals / 2 : Nat) : Int) → E ≤ (w.ledger.balance ENGINE : Int)

theorem calcRemainMargin_D (e : E) (p : Position) (d : Integer) (rm : RemainMargin)
    (h : calcRemainMargin e p d = .ok rm) : e.cfg.decimals ≠ 0 := by
  unfold calcRemainMargin at h
  simp only [bind_ok_iff] at h
  obtain ⟨d1, _, m, _, f, h3, _⟩ := h
  unfold Integer.div at h3
  simp only [bind_ok_iff, cdiv_ok] at h3
  obtain ⟨_, ⟨hD, _⟩, _⟩ := h3
  exact hD

theorem not_gt_of_le (a : Integer) (m : Nat) (h : a.toInt ≤ (m : Int)) :
    Integer.gt a (Integer.newPositive m) = false := by
  have := cmp_gt_iff a (Integer.newPositive m)
  rw [toInt_newPositive] at this
  unfold Integer.gt
  cases hc : Integer.cmp a (Integer.newPositive m) <;> simp
  have := this.1 hc
  omega

theorem flatMap_ite1 {α β : Type} (c : Prop) [Decidable c] (m : α) (g : α → List β) :
    (if c then [m] else []).flatMap g = if c then g m else [] := by
  split <;> simp

theorem flatMap_ite2 {α β : Type} (c : Prop) [Decidable c] (m1 m2 m3 : α) (g : α → List β) :
    (if c then [m1, m2] else [m3]).flatMap g = if c then g m1 ++ g m2 else g m3 := by
  split <;> simp


/-- the messages of a full-liquidation reply (no pre-paid bad debt) -/
def liqMsgs (cfg : Config) (liq fee rmm rbd bE : Nat) : List SubMsg :=
  (if (if fee > rmm then rbd + (fee - rmm) else rbd) ≠ 0
      then [ifWithdrawMsg (if fee > rmm then rbd + (fee - rmm) else rbd)] else [])
  ++ (if (if fee > rmm then 0 else rmm - fee) ≠ 0
      then [transferMsg cfg cfg.insuranceFund (if fee > rmm then 0 else rmm - fee)] else [])
  ++ (if bE + (if fee > rmm then rbd + (fee - rmm) else rbd) < fee
      then [ifWithdrawMsg (fee - (bE + (if fee > rmm then rbd + (fee - rmm) else rbd))), transferMsg cfg liq fee]
      else [transferMsg cfg liq fee])

theorem liqMsgs_shape (cfg : Config) (liq fee rmm rbd bE : Nat) :
    ∀ m ∈ liqMsgs cfg liq fee rmm rbd bE, IsLiqMsg m := by
  intro m hm
  unfold liqMsgs at hm
  generalize (if fee > rmm then rbd + (fee - rmm) else rbd) = bd at hm
  generalize (if fee > rmm then 0 else rmm - fee) = mg at hm
  simp only [List.mem_append] at hm
  rcases hm with (hm | hm) | hm
  · split at hm
    · simp only [List.mem_singleton] at hm; exact Or.inl ⟨_, hm⟩
    · cases hm
  · split at hm
    · simp only [List.mem_singleton] at hm; exact Or.inr ⟨_, _, _, hm⟩
    · cases hm
  · split at hm
    · simp only [List.mem_cons, List.mem_nil_iff, or_false] at hm
      rcases hm with hm | hm
      · exact Or.inl ⟨_, hm⟩
      · exact Or.inr ⟨_, _, _, hm⟩
    · simp only [List.mem_singleton] at hm; exact Or.inr ⟨_, _, _, hm⟩

theorem liqMsgs_length (cfg : Config) (liq fee rmm rbd bE : Nat) :
    (liqMsgs cfg liq fee rmm rbd bE).length ≤ 4 := by
  unfold liqMsgs
  simp only [List.length_append]
  have h1 : ∀ (c : Prop) [Decidable c] (m : SubMsg), (if c then [m] else []).length ≤ 1 := by
    intro c _ m; split <;> simp
  have h2 : ∀ (c : Prop) [Decidable c] (m1 m2 m3 : SubMsg), (if c then [m1, m2] else [m3]).length ≤ 2 := by
    intro c _ m1 m2 m3; split <;> simp
  have a := h1 ((if fee > rmm then rbd + (fee - rmm) else rbd) ≠ 0)
    (ifWithdrawMsg (if fee > rmm then rbd + (fee - rmm) else rbd))
  have b := h1 ((if fee > rmm then 0 else rmm - fee) ≠ 0)
    (transferMsg cfg cfg.insuranceFund (if fee > rmm then 0 else rmm - fee))
  have c := h2 (bE + (if fee > rmm then rbd + (fee - rmm) else rbd) < fee)
    (ifWithdrawMsg (fee - (bE + (if fee > rmm then rbd + (fee - rmm) else rbd)))) (transferMsg cfg liq fee)
    (transferMsg cfg liq fee)
  omega

theorem liqMsgs_xfers (cfg : Config) (liq fee rmm rbd bE : Nat) (h : cfg.insuranceFund = IFUND) :
    (liqMsgs cfg liq fee rmm rbd bE).flatMap (fun m => xferOf ENGINE m.msg) =
      ((if (if fee > rmm then rbd + (fee - rmm) else rbd) ≠ 0
          then [(IFUND, ENGINE, (if fee > rmm then rbd + (fee - rmm) else rbd))] else [])
        ++ (if (if fee > rmm then 0 else rmm - fee) ≠ 0
          then [(ENGINE, IFUND, (if fee > rmm then 0 else rmm - fee))] else [])
        ++ (if bE + (if fee > rmm then rbd + (fee - rmm) else rbd) < fee
          then [(IFUND, ENGINE, fee - (bE + (if fee > rmm then rbd + (fee - rmm) else rbd))), (ENGINE, liq, fee)]
          else [(ENGINE, liq, fee)])) := by
  unfold liqMsgs
  simp only [List.flatMap_append, flatMap_ite1, flatMap_ite2, xferOf_ifWithdrawMsg, xferOf_transferMsg, h,
    List.cons_append, List.nil_append]

/-- liveness in the sub-case: a position that the property calls liquidatable is liquidated -/
theorem liq_live (w : World) (env : Env) (s : Nat) (f : Funds) (v t : Nat) (S : Step)
    (hSpre : S.pre = w) (hSenv : S.env = env)
    (hwf : WF w) (htot : TotalBounded w) (hife : IfeWired w) (hsub : LiqSubCase w env f v t)
    (hpre : C07.precondition S v t = true) (hund : C07.underMargined S v t = some true)
    (r : Int) (hr : liqRatio (preAt S) v t = some r) (hrlt : r < (w.engine.cfg.mmr : Int)) :
    ∃ w', applyTx w env s f (.engine (.liquidate v t 0)) = .ok w' := by
  have hP : preAt S = ({ w with env := env } : World) := by unfold preAt; rw [hSpre, hSenv]
  obtain ⟨x, out, hvx, hqo, hnz, hopen, hreg, hfee, hme, hifd, hneed⟩ := precondition_inv S v t hpre
  rw [hP] at hvx hqo hnz hreg hfee hifd hneed hr
  have hvx : w.vamm? v = some x := hvx
  have hqo : Vamm.queryOutputAmount x (readPosition w.engine v t).direction (readPosition w.engine v t).size.value
      = .ok out := hqo
  have hifd : w.engine.cfg.insuranceFund = IFUND := hifd
  have hnz' : (readPosition w.engine v t).size.value ≠ 0 := by
    have : (readPosition w.engine v t).size.isZero = false := hnz
    unfold Integer.isZero at this
    simpa using this
  -- the ratio
  have hq0 : ∃ r0, queryMarginRatio ({ w with env := env } : World).q w.engine v t = .ok r0 := by
    unfold C07.underMargined at hund
    rw [hP, hSpre] at hund
    cases hq : queryMarginRatio ({ w with env := env } : World).q w.engine v t with
    | error e => rw [hq] at hund; simp [exInt] at hund
    | ok r0 => exact ⟨r0, rfl⟩
  obtain ⟨r0, hq0⟩ := hq0
  obtain ⟨over, hos, hov⟩ := hsub.ratioOk
  have hratio : ∃ ratio : Integer,
      (over = true → ∃ ro d, marginRatioByOption ({ w with env := env } : World).q w.engine v t .oracle = .ok ro
          ∧ Integer.checkedSub ro r0 = .ok d ∧ ratio = if Integer.gt d Integer.zero then ro else r0)
      ∧ (over = false → ratio = r0) := by
    cases over with
    | false => exact ⟨r0, (fun h => by cases h), (fun _ => rfl)⟩
    | true =>
      obtain ⟨ro, hro, hd⟩ := hov rfl
      obtain ⟨d, hd⟩ := hd r0 hq0
      exact ⟨_, (fun _ => ⟨ro, d, hro, hd, rfl⟩), (fun h => by cases h)⟩
  obtain ⟨ratio, hrov, hrnov⟩ := hratio
  have hlr := liqRatio_eq ({ w with env := env } : World) v t r0 ratio over hq0 hos hrov hrnov
  rw [hr] at hlr
  injection hlr with hlr
  subst hlr
  have hins := not_gt_of_le ratio w.engine.cfg.mmr (by omega)
  have hfull : ¬ (ratio.value > w.engine.cfg.liqFee ∧ w.engine.cfg.plr ≠ 0) := by
    rintro ⟨h1, h2⟩
    rcases hsub.fullPath _ hr with h | h
    · exact h2 h
    · rw [toInt_natAbs] at h; omega
  have hrv : requireVamm ({ w with env := env } : World).q v = .ok () := by
    have hreg' : w.ifund.vamms.contains v = true := hreg
    have hmem : v ∈ w.ifund.vamms := by simpa using hreg'
    have hvxP : ({ w with env := env } : World).vamm? v = some x := hvx
    unfold requireVamm World.q
    simp [hifd, hmem, vammE, hvxP, hopen, Except.map, bind, Except.bind, pure, Except.pure]
  have hliq := liquidate_fwd ({ w with env := env, log := [] } : World).q w.engine env s v t 0 r0 ratio over
    hq0 hos hrov hrnov hrv hins hnz' hfull
  obtain ⟨⟨x', o⟩, hsw⟩ := hsub.swapOk x hvx
  obtain ⟨qa, hqa, _, ho, _⟩ := C17.swapOutput_inv _ _ _ _ _ _ _ _ hsw
  rw [hqo] at hqa
  injection hqa with hqa
  subst hqa
  subst ho
  obtain ⟨hmul, delta, rm, hdl, hrm⟩ := hsub.arithOk x out hvx hqo
  have hD := calcRemainMargin_D _ _ _ _ hrm
  have hvault := hsub.vaultOk x out hvx hqo
  obtain ⟨pv, pt⟩ := MirrorP.read_found w.engine v t hnz'
  obtain ⟨b, hgp⟩ := gp_close env w.engine
    { w.engine with tmpLiq := some s, tmpSwap := some (closeTmp (readPosition w.engine v t)) } v t rfl hnz'
  have hd := closeMarginDelta_toInt _ out delta hdl
  have hcs := EngineMoney.calcRemainMargin_spec w.engine _ delta rm hrm
  rw [hd, fundingOwed_eq w w.engine _ rfl rfl] at hcs
  obtain ⟨_, _, hge, hlt⟩ := hcs
  have hbEI := two_le_total w.ledger ENGINE IFUND (by decide) hwf.balNodup
  have htot' : total w.ledger ≤ U128.MAX := htot
  have hneed' : (if ((readPosition w.engine v t).margin : Int) + pnlOf (readPosition w.engine v t) out
              - fundingOwed w (readPosition w.engine v t) < 0
          then -(((readPosition w.engine v t).margin : Int) + pnlOf (readPosition w.engine v t) out
              - fundingOwed w (readPosition w.engine v t)) else 0)
          + ((out * w.engine.cfg.liqFee / w.engine.cfg.decimals / 2 : Nat) : Int)
          + ((out * w.engine.cfg.liqFee / w.engine.cfg.decimals / 2 : Nat) : Int)
          ≤ (w.ledger.balance IFUND : Int) := hneed
  have hfee' : out * w.engine.cfg.liqFee / w.engine.cfg.decimals / 2 ≠ 0 := hfee
  simp only [] at hvault
  have hbI := balance_le_total w.ledger IFUND hwf.balNodup
  have harith : rm.badDebt + (out * w.engine.cfg.liqFee / w.engine.cfg.decimals / 2 - rm.margin) ≤ U128.MAX
      ∧ w.ledger.balance ENGINE + (if out * w.engine.cfg.liqFee / w.engine.cfg.decimals / 2 > rm.margin
          then rm.badDebt + (out * w.engine.cfg.liqFee / w.engine.cfg.decimals / 2 - rm.margin) else rm.badDebt)
          ≤ U128.MAX := by
    generalize hE : ((readPosition w.engine v t).margin : Int) + pnlOf (readPosition w.engine v t) out
              - fundingOwed w (readPosition w.engine v t) = E at hneed'
    have hge' : 0 ≤ E → (rm.margin : Int) = E ∧ rm.badDebt = 0 := by
      intro h0; obtain ⟨h1, h2⟩ := hge (by omega); exact ⟨by omega, h2⟩
    have hlt' : E < 0 → rm.margin = 0 ∧ (rm.badDebt : Int) = -E := by
      intro h0; obtain ⟨h1, h2⟩ := hlt (by omega); exact ⟨h1, by omega⟩
    generalize out * w.engine.cfg.liqFee / w.engine.cfg.decimals / 2 = fee at hneed' hfee' ⊢
    clear hneed hfee hvault hrm hdl hd hgp hge hlt hE
    by_cases h0 : E < 0
    · obtain ⟨h1, h2⟩ := hlt' h0
      rw [if_pos h0] at hneed'
      constructor
      · omega
      · split <;> omega
    · obtain ⟨h1, h2⟩ := hge' (by omega)
      rw [if_neg h0] at hneed'
      constructor
      · omega
      · split <;> omega
  obtain ⟨e2, hrepl⟩ := liquidateReply_fwd
    (({ ({ w with env := env, log := [] } : World) with
        engine := { w.engine with tmpLiq := some s, tmpSwap := some (closeTmp (readPosition w.engine v t)) } } : World).setVamm
          (readPosition w.engine v t).vamm x').q
    { w.engine with tmpLiq := some s, tmpSwap := some (closeTmp (readPosition w.engine v t)) }
    env out (closeTmp (readPosition w.engine v t)) s { readPosition w.engine v t with block := b } delta rm
    (w.ledger.balance ENGINE) rfl rfl hgp hdl hrm hmul hD rfl hsub.noPrepaid harith.1 harith.2
  have hrepl' : liquidateReply
      (({ ({ w with env := env, log := [] } : World) with
        engine := { w.engine with tmpLiq := some s, tmpSwap := some (closeTmp (readPosition w.engine v t)) } } : World).setVamm
          (readPosition w.engine v t).vamm x').q
      { w.engine with tmpLiq := some s, tmpSwap := some (closeTmp (readPosition w.engine v t)) } env out
      = .ok (e2, liqMsgs w.engine.cfg s (out * w.engine.cfg.liqFee / w.engine.cfg.decimals / 2)
                  rm.margin rm.badDebt (w.ledger.balance ENGINE)) := hrepl
  have hcfg2 : e2.cfg = w.engine.cfg := EngineGuards.liquidateReply_cfg _ _ _ _ _ hrepl'
  -- the transfers
  have hsim : simOk (w.ledger.balance ENGINE) (w.ledger.balance IFUND)
      ((liqMsgs w.engine.cfg s (out * w.engine.cfg.liqFee / w.engine.cfg.decimals / 2)
          rm.margin rm.badDebt (w.ledger.balance ENGINE)).flatMap (fun m => xferOf ENGINE m.msg)) := by
    rw [liqMsgs_xfers _ _ _ _ _ _ hifd]
    generalize hE : ((readPosition w.engine v t).margin : Int) + pnlOf (readPosition w.engine v t) out
              - fundingOwed w (readPosition w.engine v t) = E at hneed' hvault
    have hge' : 0 ≤ E → (rm.margin : Int) = E ∧ rm.badDebt = 0 := by
      intro h0; obtain ⟨h1, h2⟩ := hge (by omega); exact ⟨by omega, h2⟩
    have hlt' : E < 0 → rm.margin = 0 ∧ (rm.badDebt : Int) = -E := by
      intro h0; obtain ⟨h1, h2⟩ := hlt (by omega); exact ⟨h1, by omega⟩
    exact liq_sim E _ _ _ _ _ s hfee' hge' hlt' hneed' hvault
  obtain ⟨w3, hrun⟩ := run_CE_fwd
    (liqMsgs w.engine.cfg s (out * w.engine.cfg.liqFee / w.engine.cfg.decimals / 2)
          rm.margin rm.badDebt (w.ledger.balance ENGINE)) 39
    { (({ ({ w with env := env, log := [] } : World) with
        engine := { w.engine with tmpLiq := some s, tmpSwap := some (closeTmp (readPosition w.engine v t)) } } : World).setVamm
          (readPosition w.engine v t).vamm x') with engine := e2 }
    (liqMsgs_shape _ _ _ _ _ _) (by show e2.cfg.insuranceFund = IFUND; rw [hcfg2]; exact hifd) hife
    (by have := liqMsgs_length w.engine.cfg s (out * w.engine.cfg.liqFee / w.engine.cfg.decimals / 2)
          rm.margin rm.badDebt (w.ledger.balance ENGINE); omega)
    (movesOk_of_sim _ w.ledger hwf.balNodup htot hsim)
  have hrep : replyOk
      (({ ({ w with env := env, log := [] } : World) with
        engine := { w.engine with tmpLiq := some s, tmpSwap := some (closeTmp (readPosition w.engine v t)) } } : World).setVamm
          (readPosition w.engine v t).vamm x').q
      { w.engine with tmpLiq := some s, tmpSwap := some (closeTmp (readPosition w.engine v t)) } env
      REPLY_LIQUIDATION (.swap ⟨false, out, (readPosition w.engine v t).size.value⟩)
      = .ok (e2, liqMsgs w.engine.cfg s (out * w.engine.cfg.liqFee / w.engine.cfg.decimals / 2)
                  rm.margin rm.badDebt (w.ledger.balance ENGINE)) := hrepl'
  have hflow := execSubs_swap_fwd 38
    ({ ({ w with env := env, log := [] } : World) with
        engine := { w.engine with tmpLiq := some s, tmpSwap := some (closeTmp (readPosition w.engine v t)) } } : World)
    w3 (readPosition w.engine v t).vamm (directionToSide (readPosition w.engine v t).direction)
    (readPosition w.engine v t).size.value 0 REPLY_LIQUIDATION x x'
    ⟨false, out, (readPosition w.engine v t).size.value⟩ e2 _
    (by rw [pv]; exact hvx) (by rw [MirrorP.side_dir]; exact hsw) hrep hrun
  refine ⟨w3, ?_⟩
  unfold applyTx
  have hnf : ¬ (w.engine.cfg.native = true ∧ f.amount ≠ 0) := fun h => h.2 (hsub.noFunds h.1)
  simp only [hnf, if_false]
  have hex : Engine.execute ({ w with env := env, log := [] } : World).q w.engine env s f (.liquidate v t 0)
      = .ok (_, _) := hliq
  simp only [pure_bind, hex, C17.ok_bind]
  exact hflow


theorem tx_liq_inj {v t l v' t' l' : Nat} (h : Tx.engine (.liquidate v t l) = Tx.engine (.liquidate v' t' l')) :
    v = v' ∧ t = t' ∧ l = l' := by
  injection h with h
  injection h with h1 h2 h3
  exact ⟨h1, h2, h3⟩

/-- C07 in the sub-case, for every transaction of the model -/
theorem sat_C07_core (w : World) (env : Env) (s : Nat) (f : Funds) (tx : Tx)
    (hwf : WF w) (htot : TotalBounded w) (hife : IfeWired w)
    (hsub : ∀ v t l, tx = .engine (.liquidate v t l) → LiqSubCase w env f v t) :
    Spec.C07.check (modelStep w env s f tx) = [] := by
  unfold modelStep
  cases h : applyTx w env s f tx with
  | ok w' =>
    simp only []
    unfold C07.check engineMsg
    cases tx <;> simp only []
    rename_i m
    cases m <;> simp
  | error e =>
    simp only []
    cases tx
    case engine m =>
      cases m
      case liquidate v t lim =>
        have hS := hsub v t lim rfl
        unfold C07.check engineMsg
        simp only [Bool.false_eq_true, if_false]
        split
        · rename_i hc
          simp only [Bool.and_eq_true, beq_iff_eq] at hc
          obtain ⟨⟨hl, hpre⟩, hund⟩ := hc
          subst hl
          -- the ratio is defined in the sub-case
          have hq0 : ∃ r0, queryMarginRatio ({ w with env := env } : World).q w.engine v t = .ok r0 := by
            unfold C07.underMargined at hund
            simp only [preAt] at hund
            cases hq : queryMarginRatio ({ w with env := env } : World).q w.engine v t with
            | error e => rw [hq] at hund; simp [exInt] at hund
            | ok r0 => exact ⟨r0, rfl⟩
          obtain ⟨r0, hq0⟩ := hq0
          obtain ⟨over, hos, hov⟩ := hS.ratioOk
          have hratio : ∃ ratio : Integer,
              liqRatio ({ w with env := env } : World) v t = some ratio.toInt := by
            cases over with
            | false =>
              exact ⟨r0, liqRatio_eq _ v t r0 r0 false hq0 hos (fun h => by cases h) (fun _ => rfl)⟩
            | true =>
              obtain ⟨ro, hro, hd⟩ := hov rfl
              obtain ⟨d, hd⟩ := hd r0 hq0
              exact ⟨_, liqRatio_eq _ v t r0 _ true hq0 hos (fun _ => ⟨ro, d, hro, hd, rfl⟩) (fun h => by cases h)⟩
          obtain ⟨ratio, hlr⟩ := hratio
          simp only [preAt]
          rw [hlr]
          simp only []
          split
          · rename_i hlt
            exfalso
            obtain ⟨w', hok⟩ := liq_live w env s f v t _ rfl rfl hwf htot hife hS hpre hund _ hlr hlt
            rw [hok] at h
            cases h
          · rfl
        · rfl
      all_goals (unfold C07.check engineMsg; simp only [])
    all_goals (unfold C07.check engineMsg; simp only [])

/-- C07 in general (the property is FALSE of the model): whatever `Spec.C07.check` reports on a model
    step is one of its two liveness tags -/
theorem C07_tags (w : World) (env : Env) (s : Nat) (f : Funds) (tx : Tx) :
    ∀ tag ∈ Spec.C07.check (modelStep w env s f tx),
      tag ∈ ["liquidatable-position-could-not-be-liquidated",
             "liquidatable-position-could-not-be-liquidated(oracle-unreadable)"] := by
  intro tag htag
  unfold C07.check at htag
  split at htag
  · split at htag
    · cases htag
    · split at htag
      · split at htag
        · split at htag
          · simp only [List.mem_singleton] at htag; subst htag; simp
          · cases htag
        · simp only [List.mem_singleton] at htag; subst htag; simp
      · cases htag
  · cases htag

end Perp.Props.SatD
