/-
  DeployOK — the deployment (`World.deploy`, Perp/Model/Deploy.lean: the contracts' own instantiate entry points
  followed by the wiring transactions, each through `World.applyTx`) PRODUCES a world that satisfies
  `Capstone.Deployed`; hence `Capstone.reachable_sat` / `history_sat` speak about every history that starts with
  the protocol's own deployment, not about a bare predicate.

  * `CfgOK`            the side conditions no contract code checks (distinct non-zero addresses, one ledger entry
                       per account, a supply that fits u128, the fee pool's address handed to the engine);
  * `deploy_deployed`  `deploy c = .ok w → Deployed w`;
  * `deploy_allInv`    … hence `AllInv w`;
  * `deploy_wired`     … and the pools and every vAMM are wired to the engine;
  * `Witness`          the repository's fixture deploys; a vAMM with other decimals than the engine's does not.
-/
import Perp.Model.Deploy
import Perp.Props.Inst
import Perp.Props.SatBuffer
import Perp.Props.Capstone

namespace Perp.Props.DeployOK
open Perp Perp.World Perp.Engine Perp.Props.ModelStep
open Perp.Props.SatA.VammLift

/-! ## 1. the side conditions -/

/-- side conditions on the addresses and the ledger that no contract code checks (the chain hands out distinct
    non-zero addresses; the token supply fits u128) -/
structure CfgOK (c : DeployCfg) : Prop where
  /-- the chain hands out distinct addresses, none of them 0 (the engine's "no record" sentinel) or the address of
      another contract of the deployment -/
  addrs : ((c.vamms.map (·.addr))).Nodup ∧
    ∀ s ∈ c.vamms, s.addr ≠ 0 ∧ s.addr ≠ ENGINE ∧ s.addr ≠ IFUND ∧ s.addr ≠ FEEPOOL ∧ s.addr ≠ FEED ∧ s.addr ≠ TOKEN
  /-- one ledger entry per account -/
  balKeys : (c.bal.map (·.1)).Nodup
  /-- one allowance entry per owner -/
  allowKeys : (c.allow.map (·.1)).Nodup
  /-- the collateral in existence fits `u128` (`SatD.TotalBounded` of the deployed world, unfolded) -/
  total : Dispatch.total { bal := c.bal, allow := c.allow } ≤ U128.MAX
  /-- ADDED (forced by `deploy_wired`, not by `deploy_deployed`): the deployer hands the engine the address of the fee
      pool it has just instantiated.  The engine's `instantiate` stores whatever address it is given, and the
      post-instantiate `UpdateConfig` of the deployment re-points the insurance fund only; with another address
      `deploy` still succeeds but `SatA.WiredPools.fp` fails: `Witness.feePool_needed`. -/
  feePool : c.engine.feePool = FEEPOOL

/-! ## 2. the four wiring transactions, inverted -/

theorem step_of_ok {w w' : World} {env : Env} {s : Nat} {f : Funds} {tx : Tx}
    (h : applyTx w env s f tx = .ok w') : step w env s f tx = w' := by
  unfold step; rw [h]

/-- the engine's post-instantiate `UpdateConfig{insurance_fund, partial_liquidation_ratio}` -/
theorem updateConfig_wiring (e e' : E) (s p : Nat)
    (h : Engine.updateConfig e s { insuranceFund := some IFUND, plr := some p } = .ok e') :
    e' = { e with cfg := { e.cfg with insuranceFund := IFUND, plr := p } } := by
  unfold Engine.updateConfig at h
  split at h
  · cases h
  simp only [] at h
  unfold Engine.validateRatio at h
  by_cases hp : p > e.cfg.decimals
  · simp [hp, bind, Except.bind, pure, Except.pure] at h
  · simp [hp, bind, Except.bind, pure, Except.pure] at h
    rw [← h]

theorem engineWiring_inv (w w' : World) (env : Env) (s : Nat) (f : Funds) (p : Nat)
    (h : applyTx w env s f (.engine (.updateConfig { insuranceFund := some IFUND, plr := some p })) = .ok w') :
    w'.engine = { w.engine with cfg := { w.engine.cfg with insuranceFund := IFUND, plr := p } }
      ∧ w'.vamms = w.vamms ∧ w'.ifund = w.ifund := by
  obtain ⟨w1, e1, subs, a1, a2, a3, a4, a5, a6, hex, hrun⟩ := WorldInv.applyTx_engine_inv w w' env s f _ h
  have h' : (Engine.updateConfig w1.engine s { insuranceFund := some IFUND, plr := some p }).map
      (fun e' => (e', ([] : List SubMsg))) = .ok (e1, subs) := hex
  obtain ⟨e1', h1, h2⟩ := (EngineGuards.exmap_ok _ _ _).1 h'
  cases h2
  have := WorldInv.execSubs_nil _ _ _ _ hrun
  subst this
  rw [updateConfig_wiring _ _ _ _ h1, a1]
  exact ⟨rfl, a3, a4⟩

/-- the vAMM owner's `UpdateConfig{margin_engine}` -/
theorem vammUpdate_wiring (x x' : Vamm.V) (s : Nat)
    (h : Vamm.updateConfig x s { marginEngine := some ENGINE } = .ok x') :
    x' = { x with cfg := { x.cfg with marginEngine := ENGINE } } := by
  unfold Vamm.updateConfig at h
  split at h
  · cases h
  · cases h; rfl

theorem vammWiring_inv (w w' : World) (env : Env) (s : Nat) (f : Funds) (a : Nat)
    (h : applyTx w env s f (.vammConfig a { marginEngine := some ENGINE }) = .ok w') :
    ∃ x, w.vamm? a = some x ∧
      w' = ({ w with env := env, log := [] } : World).setVamm a { x with cfg := { x.cfg with marginEngine := ENGINE } } := by
  unfold applyTx at h
  simp at h
  obtain ⟨x, hx, x', hx', rfl⟩ := h
  refine ⟨x, vammE_ok hx, ?_⟩
  rw [vammUpdate_wiring _ _ _ hx']

theorem addVamm_engine (s r : Insurance.S) (sender v : Nat) (ed vd : Except Err Nat)
    (h : Insurance.addVamm s sender v ed vd = .ok r) : r.engine = s.engine := by
  unfold Insurance.addVamm at h
  split at h
  · cases h
  cases ed with
  | error e => cases h
  | ok a =>
    cases vd with
    | error e => cases h
    | ok b =>
      simp only [bind, Except.bind] at h
      repeat' split at h
      all_goals cases h
      rfl

/-- the fund owner's `AddVamm` -/
theorem ifAdd_inv (w w' : World) (env : Env) (s : Nat) (f : Funds) (a : Nat)
    (h : applyTx w env s f (.ifAdd a) = .ok w') :
    w'.engine = w.engine ∧ w'.vamms = w.vamms ∧ w'.ifund.engine = w.ifund.engine := by
  unfold applyTx at h
  simp at h
  obtain ⟨r, hr, rfl⟩ := h
  exact ⟨rfl, rfl, addVamm_engine _ _ _ _ _ _ hr⟩

theorem setOpen_spec (x x' : Vamm.V) (env : Env) (s : Nat) (o : Bool) (h : Vamm.setOpen x env s o = .ok x') :
    x'.cfg = x.cfg ∧ x'.st.net = x.st.net := by
  unfold Vamm.setOpen at h
  split at h
  · cases h
  split at h
  · cases hadd : add64 env.time (x.cfg.fundingPeriod / Vamm.ONE_HOUR * Vamm.ONE_HOUR) with
    | error e => rw [hadd] at h; cases h
    | ok t => rw [hadd] at h; cases h; exact ⟨rfl, rfl⟩
  · cases h; exact ⟨rfl, rfl⟩

/-- the vAMM owner's `SetOpen` -/
theorem setOpen_inv (w w' : World) (env : Env) (s : Nat) (f : Funds) (a : Nat) (o : Bool)
    (h : applyTx w env s f (.vammSetOpen a o) = .ok w') :
    ∃ x x', w.vamm? a = some x ∧ x'.cfg = x.cfg ∧ x'.st.net = x.st.net ∧
      w' = ({ w with env := env, log := [] } : World).setVamm a x' := by
  unfold applyTx at h
  dsimp only at h
  obtain ⟨⟨w1, ev⟩, h1, rfl⟩ := (EngineGuards.exmap_ok _ _ _).1 h
  obtain ⟨x, x', hx, hs, rfl⟩ := MirrorP.execMsg_setOpen_inv _ _ _ _ _ _ _ h1
  obtain ⟨c1, c2⟩ := setOpen_spec _ _ _ _ _ hs
  exact ⟨x, x', hx, c1, c2, rfl⟩

/-! ## 3. a successful transaction that neither writes a position nor moves a vAMM's net keeps `Deployed` -/

/-- everything but `noPositions` and `flat` is an invariant of EVERY transaction (the `*_step` / `*_applyTx`
    lemmas behind `Capstone.allInv_step_pres`; the clock is monotone because the deployment runs in one block);
    the two remaining fields are the frame conditions of the wiring transactions -/
theorem deployed_applyTx {w w' : World} {env : Env} {s : Nat} {f : Funds} {tx : Tx}
    (hd : Capstone.Deployed w) (henv : w.env = env) (h : applyTx w env s f tx = .ok w')
    (hpos : w'.engine.positions = w.engine.positions)
    (hflat : ∀ p ∈ w'.vamms, p.2.st.net.toInt = 0) : Capstone.Deployed w' ∧ w'.env = env := by
  have hstep := step_of_ok h
  have hI := Capstone.deployed_allInv hd
  have hwf : WF w' := hstep ▸ CapLedger.wf_step w env s f tx hI.wf
  have hkeys := applyTx_keys w w' env s f tx h
  have hsnap := SatA.snap_applyTx w w' env s f tx hd.snaps
    (by unfold SatA.ClockMono; rw [henv]; exact ⟨Nat.le_refl _, Nat.le_refl _⟩) h
  have hnd : SatA.VammKeysNodup w' := by unfold SatA.VammKeysNodup; rw [hkeys]; exact hd.vammKeys
  refine ⟨{ noPositions := by rw [hpos]; exact hd.noPositions
            noResidue := hwf.noResidue
            config := SatC.allConfigOK_applyTx w w' env s f tx hd.config h
            vammKeys := hnd
            noZeroVamm := ?_
            flat := hflat
            snaps := ?_
            buffer := ?_
            registry := SatF14.applyTx_regInv w w' env s f tx hd.registry h
            balNodup := hwf.balNodup
            allowNodup := hwf.allowNodup
            total := hstep ▸ SatD.totalBounded_step w env s f tx hd.balNodup hd.total }, hsnap.2⟩
  · intro p hp
    have hm : p.1 ∈ w'.vamms.map (·.1) := List.mem_map_of_mem hp
    rw [hkeys] at hm
    obtain ⟨q, hq, e⟩ := List.mem_map.1 hm
    rw [← e]; exact hd.noZeroVamm q hq
  · intro p hp; rw [hsnap.2]; exact hsnap.1 p hp
  · intro p hp
    have hb : SatC11.BufferHalf w' := hstep ▸ SatBuffer.bufferHalf_step w env s f tx hI.buffer
    exact hb p.1 p.2 (SatA.vamm?_of_mem hnd hp)

/-! ## 4. the invariant of the wiring phase -/

/-- `Deployed`, the deployment block, the pools wired, the address list `K`, and every vAMM whose address is in
    `D` (the markets wired so far) wired to the engine -/
structure Inv (env : Env) (K : List Nat) (D : Nat → Prop) (w : World) : Prop where
  dep : Capstone.Deployed w
  env : w.env = env
  pools : SatA.WiredPools w
  keys : w.vamms.map (·.1) = K
  me : ∀ p ∈ w.vamms, D p.1 → p.2.cfg.marginEngine = ENGINE

theorem mem_setVamm {w : World} {a : Nat} {v : Vamm.V} {p : Nat × Vamm.V} (hp : p ∈ (w.setVamm a v).vamms) :
    p = (a, v) ∨ (p ∈ w.vamms ∧ p.1 ≠ a) := by
  unfold setVamm at hp
  simp only [List.mem_map] at hp
  obtain ⟨q, hq, rfl⟩ := hp
  by_cases e : q.1 = a
  · left; simp [e]
  · right
    have : (q.1 == a) = false := beq_false_of_ne e
    simp only [this]
    exact ⟨hq, e⟩

theorem inv_vammConfig {env : Env} {K : List Nat} {D : Nat → Prop} {w w' : World} {s a : Nat}
    (hI : Inv env K D w)
    (h : applyTx w env s noFunds (.vammConfig a { marginEngine := some ENGINE }) = .ok w') :
    Inv env K (fun b => D b ∨ b = a) w' := by
  obtain ⟨x, hx, hw'⟩ := vammWiring_inv w w' env s noFunds a h
  have hxm := vamm?_mem hx
  have hmem : ∀ p ∈ w'.vamms,
      p = (a, { x with cfg := { x.cfg with marginEngine := ENGINE } }) ∨ (p ∈ w.vamms ∧ p.1 ≠ a) := by
    intro p hp; rw [hw'] at hp; exact mem_setVamm hp
  have he : w'.engine = w.engine := by rw [hw']; rfl
  have hf : w'.ifund = w.ifund := by rw [hw']; rfl
  obtain ⟨hd, henv⟩ := deployed_applyTx hI.dep hI.env h (by rw [he]) (by
    intro p hp
    rcases hmem p hp with rfl | ⟨hp', _⟩
    · exact hI.dep.flat (a, x) hxm
    · exact hI.dep.flat p hp')
  refine ⟨hd, henv, ⟨by rw [he]; exact hI.pools.ifd, by rw [he]; exact hI.pools.fp, by rw [hf]; exact hI.pools.ife⟩,
    (applyTx_keys w w' env s noFunds _ h).trans hI.keys, ?_⟩
  intro p hp hD
  rcases hmem p hp with rfl | ⟨hp', hne⟩
  · rfl
  · rcases hD with hD | e
    · exact hI.me p hp' hD
    · exact absurd e hne

theorem inv_ifAdd {env : Env} {K : List Nat} {D : Nat → Prop} {w w' : World} {s a : Nat}
    (hI : Inv env K D w) (h : applyTx w env s noFunds (.ifAdd a) = .ok w') : Inv env K D w' := by
  obtain ⟨he, hv, hf⟩ := ifAdd_inv w w' env s noFunds a h
  obtain ⟨hd, henv⟩ := deployed_applyTx hI.dep hI.env h (by rw [he]) (by rw [hv]; exact hI.dep.flat)
  refine ⟨hd, henv, ⟨by rw [he]; exact hI.pools.ifd, by rw [he]; exact hI.pools.fp, by rw [hf]; exact hI.pools.ife⟩,
    by rw [hv]; exact hI.keys, by rw [hv]; exact hI.me⟩

theorem inv_setOpen {env : Env} {K : List Nat} {D : Nat → Prop} {w w' : World} {s a : Nat} {o : Bool}
    (hI : Inv env K D w) (h : applyTx w env s noFunds (.vammSetOpen a o) = .ok w') : Inv env K D w' := by
  obtain ⟨x, x', hx, hcfg, hnet, hw'⟩ := setOpen_inv w w' env s noFunds a o h
  have hxm := vamm?_mem hx
  have hmem : ∀ p ∈ w'.vamms, p = (a, x') ∨ (p ∈ w.vamms ∧ p.1 ≠ a) := by
    intro p hp; rw [hw'] at hp; exact mem_setVamm hp
  have he : w'.engine = w.engine := by rw [hw']; rfl
  have hf : w'.ifund = w.ifund := by rw [hw']; rfl
  obtain ⟨hd, henv⟩ := deployed_applyTx hI.dep hI.env h (by rw [he]) (by
    intro p hp
    rcases hmem p hp with rfl | ⟨hp', _⟩
    · show x'.st.net.toInt = 0
      rw [hnet]; exact hI.dep.flat _ hxm
    · exact hI.dep.flat p hp')
  refine ⟨hd, henv, ⟨by rw [he]; exact hI.pools.ifd, by rw [he]; exact hI.pools.fp, by rw [hf]; exact hI.pools.ife⟩,
    (applyTx_keys w w' env s noFunds _ h).trans hI.keys, ?_⟩
  intro p hp hD
  rcases hmem p hp with rfl | ⟨hp', hne⟩
  · show x'.cfg.marginEngine = ENGINE
    rw [hcfg]; exact hI.me _ hxm hD
  · exact hI.me p hp' hD

theorem inv_mono {env : Env} {K : List Nat} {D D' : Nat → Prop} {w : World} (hI : Inv env K D w)
    (h : ∀ a, D' a → D a) : Inv env K D' w :=
  ⟨hI.dep, hI.env, hI.pools, hI.keys, fun p hp hD => hI.me p hp (h _ hD)⟩

theorem inv_wireVamm {env : Env} {K : List Nat} {D : Nat → Prop} {w w' : World} {owner : Nat} {s : VammSpec}
    (hI : Inv env K D w) (h : wireVamm env owner w s = .ok w') : Inv env K (fun b => D b ∨ b = s.addr) w' := by
  unfold wireVamm at h
  simp only [bind_ok_iff] at h
  obtain ⟨w1, h1, w2, h2, h3⟩ := h
  have i1 := inv_vammConfig hI h1
  have i2 : Inv env K (fun b => D b ∨ b = s.addr) w2 := by
    unfold optTx at h2
    split at h2
    · exact inv_ifAdd i1 h2
    · cases h2; exact i1
  unfold optTx at h3
  split at h3
  · exact inv_setOpen i2 h3
  · cases h3; exact i2

theorem inv_wireAll {env : Env} {K : List Nat} {owner : Nat} : ∀ (l : List VammSpec) {D : Nat → Prop} {w w' : World},
    Inv env K D w → wireAll env owner w l = .ok w' → Inv env K (fun b => D b ∨ b ∈ l.map (·.addr)) w' := by
  intro l
  induction l with
  | nil =>
    intro D w w' hI h
    unfold wireAll at h
    cases h
    exact inv_mono hI (fun a ha => ha.elim id (fun h => by cases h))
  | cons s rest ih =>
    intro D w w' hI h
    unfold wireAll at h
    simp only [bind_ok_iff] at h
    obtain ⟨w1, h1, h2⟩ := h
    refine inv_mono (ih (inv_wireVamm hI h1) h2) ?_
    intro a ha
    rcases ha with ha | ha
    · exact Or.inl (Or.inl ha)
    · rw [List.map_cons, List.mem_cons] at ha
      rcases ha with ha | ha
      · exact Or.inl (Or.inr ha)
      · exact Or.inr ha

/-! ## 5. the world right after the instantiate calls -/

theorem instantiate_flat (env : Env) (s : Nat) (m : Vamm.InstantiateMsg) (v : Vamm.V)
    (h : Vamm.instantiate env s m = .ok v) : v.st.net.toInt = 0 := by
  unfold Vamm.instantiate at h
  simp only [] at h
  repeat' split at h
  all_goals first | (injection h with h; subst h; rfl) | cases h

theorem instVamms_spec (env : Env) : ∀ (l : List VammSpec) (vs : List (Nat × Vamm.V)), instVamms env l = .ok vs →
    vs.map (·.1) = l.map (·.addr)
      ∧ ∀ p ∈ vs, ∃ s ∈ l, p.1 = s.addr ∧ Vamm.instantiate env s.owner s.msg = .ok p.2 := by
  intro l
  induction l with
  | nil =>
    intro vs h
    unfold instVamms at h
    cases h
    exact ⟨rfl, fun p hp => by cases hp⟩
  | cons s rest ih =>
    intro vs h
    unfold instVamms at h
    simp only [bind_ok_iff, pure_ok_iff] at h
    obtain ⟨v, hv, vs', hvs, rfl⟩ := h
    obtain ⟨i1, i2⟩ := ih vs' hvs
    refine ⟨by rw [List.map_cons, List.map_cons, i1], ?_⟩
    intro p hp
    rcases List.mem_cons.1 hp with rfl | hp
    · exact ⟨s, List.mem_cons_self, rfl, hv⟩
    · obtain ⟨s', hs', e1, e2⟩ := i2 p hp
      exact ⟨s', List.mem_cons_of_mem _ hs', e1, e2⟩

/-- the instantiate calls alone give a `Deployed` world (not yet wired) -/
theorem initWorld_deployed (c : DeployCfg) (hc : CfgOK c) (e : E) (vs : List (Nat × Vamm.V))
    (he : Engine.instantiate c.owner c.engine = .ok e) (hvs : instVamms c.env c.vamms = .ok vs) :
    Capstone.Deployed (initWorld c e vs) := by
  obtain ⟨hk, hv⟩ := instVamms_spec c.env c.vamms vs hvs
  obtain ⟨hres, hpos⟩ := Inst.instantiate_fresh _ _ _ he
  exact
    { noPositions := hpos
      noResidue := hres
      config := ⟨Inst.instantiate_configOK _ _ _ he, fun p hp => by
        obtain ⟨s, _, _, hi⟩ := hv p hp
        exact (VammGuards.instantiate_configOK _ _ _ _ hi).1⟩
      vammKeys := by
        show (vs.map (·.1)).Nodup
        rw [hk]; exact hc.addrs.1
      noZeroVamm := fun p hp => by
        obtain ⟨s, hs, e1, _⟩ := hv p hp
        rw [e1]; exact (hc.addrs.2 s hs).1
      flat := fun p hp => by
        obtain ⟨s, _, _, hi⟩ := hv p hp
        exact instantiate_flat _ _ _ _ hi
      snaps := fun p hp => by
        obtain ⟨s, _, _, hi⟩ := hv p hp
        exact C18.instantiate_snapInv _ _ _ _ hi
      buffer := fun p hp => by
        obtain ⟨s, _, _, hi⟩ := hv p hp
        exact VammGuards.instantiate_buffer _ _ _ _ hi
      registry := ⟨List.nodup_nil, Nat.zero_le _, fun h => absurd rfl h⟩
      balNodup := hc.balKeys
      allowNodup := hc.allowKeys
      total := hc.total }

/-! ## 6. the theorems -/

/-- everything the deployment establishes, in one statement -/
theorem deploy_inv (c : DeployCfg) (hc : CfgOK c) (w : World) (h : deploy c = .ok w) :
    Inv c.env (c.vamms.map (·.addr)) (fun b => b ∈ c.vamms.map (·.addr)) w := by
  unfold deploy at h
  simp only [bind_ok_iff] at h
  obtain ⟨e, he, vs, hvs, w1, h1, h2⟩ := h
  have hd0 := initWorld_deployed c hc e vs he hvs
  obtain ⟨hk, _⟩ := instVamms_spec c.env c.vamms vs hvs
  obtain ⟨a1, a2, a3⟩ := engineWiring_inv _ _ _ _ _ _ h1
  obtain ⟨hd1, henv1⟩ := deployed_applyTx hd0 rfl h1 (by rw [a1]) (by rw [a2]; exact hd0.flat)
  have hfp : e.cfg.feePool = FEEPOOL := by
    rw [(Inst.instantiate_spec _ _ _ he).1]; exact hc.feePool
  have i1 : Inv c.env (c.vamms.map (·.addr)) (fun _ => False) w1 :=
    ⟨hd1, henv1, ⟨by rw [a1], by rw [a1]; exact hfp, by rw [a3]; rfl⟩, by rw [a2]; exact hk,
      fun _ _ hF => hF.elim⟩
  exact inv_mono (inv_wireAll c.vamms i1 h2) (fun a ha => Or.inr ha)

theorem deploy_deployed (c : DeployCfg) (hc : CfgOK c) (w : World) (h : deploy c = .ok w) : Capstone.Deployed w :=
  (deploy_inv c hc w h).dep

theorem deploy_allInv (c : DeployCfg) (hc : CfgOK c) (w : World) (h : deploy c = .ok w) : Capstone.AllInv w :=
  Capstone.deployed_allInv (deploy_deployed c hc w h)

/-- what the deployment wires (so that `SatA.WiredPools` and the vAMM half of `ModelStep.Wired` hold) -/
theorem deploy_wired (c : DeployCfg) (hc : CfgOK c) (w : World) (h : deploy c = .ok w) :
    SatA.WiredPools w ∧ ∀ a x, w.vamm? a = some x → x.cfg.marginEngine = ENGINE := by
  have hI := deploy_inv c hc w h
  refine ⟨hI.pools, fun a x hx => ?_⟩
  have hm := vamm?_mem hx
  refine hI.me _ hm ?_
  rw [← hI.keys]
  exact List.mem_map_of_mem (f := (·.1)) hm

/-! ## 7. the capstone from the protocol's own deployment -/

/-- the world the deployment yields is `Capstone.Reachable` … -/
theorem deploy_reachable (c : DeployCfg) (hc : CfgOK c) (w : World) (h : deploy c = .ok w) : Capstone.Reachable w :=
  Capstone.Reachable.init (deploy_deployed c hc w h)

/-- … so `Capstone.history_sat` speaks about every history that starts with `deploy`: whatever any check of
    `Spec.allChecks` reports on any of its transactions is one of the known tags -/
theorem deploy_history_sat (c : DeployCfg) (hc : CfgOK c) (w0 : World) (h : deploy c = .ok w0)
    (txs : Capstone.History) (hside : Capstone.SideAlong w0 txs)
    (pre : Capstone.History) (t : Env × Nat × Funds × Tx) (post : Capstone.History) (e : txs = pre ++ t :: post) :
    ∀ pc ∈ Spec.allChecks (modelStep (Capstone.run w0 pre) t.1 t.2.1 t.2.2.1 t.2.2.2), ∀ tag ∈ pc.2,
      tag ∈ Capstone.knownTags :=
  Capstone.history_sat w0 (deploy_deployed c hc w0 h) txs hside pre t post e

/-- the pools are wired in the deployed world, so the `wired` field of `Capstone.SideOK` holds for the first
    transaction after the deployment whatever it is -/
theorem deploy_sideOK_wired (c : DeployCfg) (hc : CfgOK c) (w : World) (h : deploy c = .ok w) : SatA.WiredPools w :=
  (deploy_wired c hc w h).1

/-! ## 8. non-vacuity -/

namespace Witness

def D9 : Nat := 10 ^ 9

/-- the repository's fixture (packages/margined_utils/src/scenarios/mod.rs, the 9-decimals scenario): cw20
    collateral with 9 decimals, ratios 5 % / 5 % / 5 %, the engine instantiated with a placeholder fund; one vAMM
    1000 : 100 at 9 decimals, funding period 3600, no fees, instantiated without a margin engine, registered and
    opened; a mock feed; alice, bob, david and the insurance fund hold 5000 each, alice and bob have approved 2000.
    (The harness sets the partial liquidation ratio, 25 %, in the same `UpdateConfig`; the fixture leaves it 0.) -/
def fixture : DeployCfg :=
  { env := ⟨1, 1000⟩, owner := 60,
    engine := { pauser := 60, insuranceFund := 0, feePool := FEEPOOL, native := false, tokenDecimals := 9,
                imr := 50000000, mmr := 50000000, liqFee := 50000000 },
    plr := 250000000,
    vamms := [{ addr := 10, owner := 60,
                msg := { decimalPlaces := 9, pricefeed := FEED, marginEngine := none, insuranceFund := some IFUND,
                         quoteReserve := 1000 * D9, baseReserve := 100 * D9, fundingPeriod := 3600,
                         toll := 0, spread := 0, fluct := 0 },
                register := true, open_ := true }],
    feed := .mock { owner := 60, price := some (10 * D9) },
    bal := [(100, 5000 * D9), (101, 5000 * D9), (102, 5000 * D9), (IFUND, 5000 * D9)],
    allow := [(100, 2000 * D9), (101, 2000 * D9)] }

theorem fixture_cfgOK : CfgOK fixture where
  addrs := ⟨by decide, by decide⟩
  balKeys := by decide
  allowKeys := by decide
  total := by decide +kernel
  feePool := rfl

/-- the world the fixture's deployment yields -/
def fixtureWorld : World :=
  { env := ⟨1, 1000⟩,
    engine := { cfg := { owner := 60, insuranceFund := IFUND, feePool := FEEPOOL, native := false, decimals := D9,
                         imr := 50000000, mmr := 50000000, plr := 250000000, liqFee := 50000000 },
                st := ⟨0, 0, false⟩, pauser := 60, whitelist := [], positions := [], vammMaps := [],
                tmpSwap := none, sentFunds := none, tmpLiq := none },
    vamms := [(10, { cfg := { owner := 60, marginEngine := ENGINE, insuranceFund := IFUND, pricefeed := FEED,
                              holdingCap := 0, oiCap := 0, decimals := D9, toll := 0, spread := 0, fluct := 0,
                              twapInterval := 3600, fundingPeriod := 3600, fundingBuffer := 1800 },
                     st := { isOpen := true, quote := 1000 * D9, base := 100 * D9, net := Integer.zero,
                             fundingRate := Integer.zero, nextFunding := 4600,
                             snaps := [⟨1000 * D9, 100 * D9, 1000, 1⟩] } })],
    ifund := { owner := 60, engine := ENGINE, vamms := [10], stored := true },
    feePool := { owner := 60, tokens := [] },
    feed := .mock { owner := 60, price := some (10 * D9) },
    ledger := { bal := [(100, 5000 * D9), (101, 5000 * D9), (102, 5000 * D9), (IFUND, 5000 * D9)],
                allow := [(100, 2000 * D9), (101, 2000 * D9)] },
    log := [] }

/-- the fixture deploys (kernel evaluation of `deploy`) … -/
theorem fixture_deploys : deploy fixture = .ok fixtureWorld := by decide +kernel

/-- … so the theorems apply to it with every hypothesis discharged -/
theorem fixtureWorld_deployed : Capstone.Deployed fixtureWorld :=
  deploy_deployed fixture fixture_cfgOK _ fixture_deploys

theorem fixtureWorld_allInv : Capstone.AllInv fixtureWorld :=
  deploy_allInv fixture fixture_cfgOK _ fixture_deploys

theorem fixtureWorld_wired :
    SatA.WiredPools fixtureWorld ∧ ∀ a x, fixtureWorld.vamm? a = some x → x.cfg.marginEngine = ENGINE :=
  deploy_wired fixture fixture_cfgOK _ fixture_deploys

/-- a 6-decimals vAMM (reserves 1000 : 100 at its own scale) next to the 9-decimals engine -/
def mixedDecimals : DeployCfg :=
  { fixture with
    vamms := [{ addr := 10, owner := 60,
                msg := { decimalPlaces := 6, pricefeed := FEED, marginEngine := none, insuranceFund := some IFUND,
                         quoteReserve := 1000 * 10 ^ 6, baseReserve := 100 * 10 ^ 6, fundingPeriod := 3600,
                         toll := 0, spread := 0, fluct := 0 },
                register := true, open_ := true }] }

/-- `deploy` REJECTS: a vAMM with other decimals than the engine's cannot be registered (`add_vamm`, guard 80) … -/
theorem mixedDecimals_rejected : deploy mixedDecimals = .error (.guard 80) := by decide +kernel

/-- … although the side conditions hold (the rejection is the contracts' own) … -/
theorem mixedDecimals_cfgOK : CfgOK mixedDecimals where
  addrs := ⟨by decide, by decide⟩
  balKeys := by decide
  allowKeys := by decide
  total := by decide +kernel
  feePool := rfl

/-- … and it deploys if the market is left unregistered -/
theorem mixedDecimals_unregistered_deploys :
    (deploy { mixedDecimals with vamms := mixedDecimals.vamms.map (fun s => { s with register := false }) }).toBool
      = true := by decide +kernel

/-- more rejections by the contracts' own guards: a partial liquidation ratio above one (`validate_ratio`), -/
theorem plr_above_one_rejected : deploy { fixture with plr := D9 + 1 } = .error (.guard 30) := by decide +kernel

/-- a maintenance ratio above the initial ratio (the engine's `instantiate`), -/
theorem mmr_above_imr_rejected :
    deploy { fixture with engine := { fixture.engine with mmr := 50000001 } } = .error (.guard 34) := by
  decide +kernel

/-- reserves below one unit (the vAMM's `instantiate`), -/
theorem small_reserve_rejected :
    deploy { fixture with vamms := fixture.vamms.map (fun s => { s with msg := { s.msg with baseReserve := D9 - 1 } }) }
      = .error (.guard 33) := by decide +kernel

/-- a fourth registered market (the registry's capacity, guard 82) -/
def market (a : Nat) : VammSpec :=
  { addr := a, owner := 60,
    msg := { decimalPlaces := 9, pricefeed := FEED, marginEngine := none, insuranceFund := some IFUND,
             quoteReserve := 1000 * D9, baseReserve := 100 * D9, fundingPeriod := 3600, toll := 0, spread := 0, fluct := 0 },
    register := true, open_ := true }

theorem three_markets_deploy : (deploy { fixture with vamms := [market 10, market 11, market 12] }).toBool = true := by
  decide +kernel

theorem fourth_market_rejected :
    deploy { fixture with vamms := [market 10, market 11, market 12, market 13] } = .error (.guard 82) := by
  decide +kernel

/-- the same address twice (excluded by `CfgOK.addrs`): the second registration is refused (guard 81) -/
theorem duplicate_address_rejected :
    deploy { fixture with vamms := [market 10, market 10] } = .error (.guard 81) := by decide +kernel

/-! ### the added field `CfgOK.feePool` is needed -/

/-- the engine is handed another address (7) as its fee pool -/
def strayFeePool : DeployCfg := { fixture with engine := { fixture.engine with feePool := 7 } }

/-- COUNTEREXAMPLE for `CfgOK.feePool`: every other field of `CfgOK` holds, `deploy` succeeds, and the deployed world
    is not `SatA.WiredPools` (the engine would pay the tolls to account 7) -/
theorem feePool_needed :
    ((strayFeePool.vamms.map (·.addr)).Nodup ∧ ∀ s ∈ strayFeePool.vamms,
        s.addr ≠ 0 ∧ s.addr ≠ ENGINE ∧ s.addr ≠ IFUND ∧ s.addr ≠ FEEPOOL ∧ s.addr ≠ FEED ∧ s.addr ≠ TOKEN)
    ∧ (strayFeePool.bal.map (·.1)).Nodup ∧ (strayFeePool.allow.map (·.1)).Nodup
    ∧ Dispatch.total { bal := strayFeePool.bal, allow := strayFeePool.allow } ≤ U128.MAX
    ∧ deploy strayFeePool = .ok { fixtureWorld with engine := { fixtureWorld.engine with cfg := { fixtureWorld.engine.cfg with feePool := 7 } } }
    ∧ ¬ SatA.WiredPools { fixtureWorld with engine := { fixtureWorld.engine with cfg := { fixtureWorld.engine.cfg with feePool := 7 } } } := by
  refine ⟨⟨by decide, by decide⟩, by decide, by decide, by decide +kernel, by decide +kernel, ?_⟩
  intro h
  exact absurd h.fp (by decide)

end Witness

end Perp.Props.DeployOK
