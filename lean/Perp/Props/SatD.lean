/-
  SatD — the model's step satisfies Spec.C06, C07 (see Perp/Props/ModelStep.lean).
  Target shape of every theorem:   Spec.Cxx.check (modelStep w env s f tx) = []

  Helper files (build order): Perp/Props/SatDBase.lean, Perp/Props/SatDC06.lean, Perp/Props/SatDC07.lean,
  Perp/Props/SatDWitness.lean (concrete worlds: witnesses of the C07 tags, counterexamples for every extra
  hypothesis).  (`Perp.Props.C15` is not imported: nothing here uses it.)
-/
import Perp.Model.World
import Perp.Spec.World
import Perp.Lemmas.Basic
import Perp.Props.ModelStep
import Perp.Props.Dispatch
import Perp.Props.EngineGuards
import Perp.Props.EngineMoney
import Perp.Props.WorldInv
import Perp.Props.CurveNoFlip
import Perp.Props.C01
import Perp.Props.C17
import Perp.Props.C18
import Perp.Props.VammGuards
import Perp.Props.G9Restr
import Perp.Props.G9Perm
import Perp.Props.WorldMore
import Perp.Props.MirrorInv
import Perp.Props.SatDBase
import Perp.Props.SatDC06
import Perp.Props.SatDC07
import Perp.Props.SatDWitness

namespace Perp.Props.SatD
open Perp Perp.World Perp.Engine Perp.Spec Perp.Props.ModelStep

/-! ## C06 — liquidation only of under-margined positions, exact payouts

Hypotheses beyond `WF w` (definitions and doc comments in `Perp/Props/SatDC06.lean`):
* `EngineGuards.ConfigOK w.engine.cfg` — (a) invariant (C20; preserved by `step`: `configOK_step`).  Only
  `plr ≤ decimals` is used, by `partial-liquidation-size-not-the-fraction` and
  `partial-liquidation-flipped-position`: with `plr > decimals` the partial liquidation swaps more base
  than the position holds and flips it (`Witness.C06_cex_plr_above_one`).
* `NoContractPositions w` — (a) invariant (preserved by `step` for outsider senders:
  `noContractPositions_step`), for `liquidated-trader-was-paid`
  (`Witness.C06_cex_trader_is_fund`, `Witness.C06_cex_trader_is_engine`).
* `Outsider s` — (b) two components of `UserSender w s`, for the four clauses that count the liquidator's and
  the fund's receipts (`Witness.C06_cex_liquidator_is_fund`, `Witness.C06_cex_liquidator_is_engine`).
`WF w` itself is not used, and `Wired.ifd` need not be assumed (a `Liquidate` cannot succeed without it).
-/

theorem sat_C06 (w : World) (env : Env) (s : Nat) (f : Funds) (tx : Tx) (_hwf : WF w)
    (hcfg : EngineGuards.ConfigOK w.engine.cfg) (hncp : NoContractPositions w) (hs : Outsider s) :
    Spec.C06.check (modelStep w env s f tx) = [] :=
  sat_C06_core w env s f tx hcfg hncp hs

/-- the same under the bundles of `ModelStep.lean` -/
theorem sat_C06' (w : World) (env : Env) (s : Nat) (f : Funds) (tx : Tx) (hwf : WF w)
    (hcfg : EngineGuards.ConfigOK w.engine.cfg) (hncp : NoContractPositions w) (hs : UserSender w s) :
    Spec.C06.check (modelStep w env s f tx) = [] :=
  sat_C06 w env s f tx hwf hcfg hncp (Outsider_of_user hs)

/-! ## C07 — under-margined positions can always be liquidated

FALSE of the model in general (it mirrors the implementation's defects): `C07_tags` is the general form,
`sat_C07` the sub-case in which the model is live, `Witness.C07_witness_partial_path` /
`Witness.C07_witness_oracle_unreadable` (in `Perp/Props/SatDWitness.lean`) concrete worlds in which each tag
occurs, `Witness.C07_live_example` a world of the sub-case (the position is liquidated).

Hypotheses of `sat_C07` beyond `WF w` (definitions and doc comments in `Perp/Props/SatDC07.lean`):
* `TotalBounded w` — (a) invariant (`totalBounded_step`): the collateral in existence fits `u128`.
* `IfeWired w` — (b) component `ife` of `Wired w`.
* `LiqSubCase w env f v t` for the `v`, `t` of a `Liquidate` — (c) the sub-case: full-liquidation path,
  readable oracle, no funds attached, no pre-paid bad debt, the vAMM accepts the closing swap, no `u128`
  overflow in the reply's arithmetic, the vault covers the equity it forwards.
-/

/-- general form: whatever C07 reports on a model step is one of its two tags (both occur) -/
theorem sat_C07_general (w : World) (env : Env) (s : Nat) (f : Funds) (tx : Tx) :
    ∀ tag ∈ Spec.C07.check (modelStep w env s f tx),
      tag ∈ ["liquidatable-position-could-not-be-liquidated",
             "liquidatable-position-could-not-be-liquidated(oracle-unreadable)"] :=
  C07_tags w env s f tx

theorem sat_C07 (w : World) (env : Env) (s : Nat) (f : Funds) (tx : Tx) (hwf : WF w)
    (htot : TotalBounded w) (hife : IfeWired w)
    (hsub : ∀ v t l, tx = .engine (.liquidate v t l) → LiqSubCase w env f v t) :
    Spec.C07.check (modelStep w env s f tx) = [] :=
  sat_C07_core w env s f tx hwf htot hife hsub

end Perp.Props.SatD
