/-
  SatG, part 8 — C13 at HISTORY level: along any history of trader operations the deployment on native collateral
  and the otherwise identical deployment on cw20 collateral stay in step, provided each native call attaches
  exactly what the cw20 deployment pulls from the caller.
    * `Op`, `lockRun`, `cwRun`, `StepOK`, `AllOK` — histories and their lock-step run;
    * `sim_step`       — one step from a `Sim` pair, whatever the flow;
    * `twin_history`   — the history theorem (all ten flows of the six entry points);
    * `twin_history_C13` — … in the property's words;
    * `twin_history_trace` — … the two deployments are in step after EVERY step;
    * `twin_history_steps` — histories in which steps may FAIL (`World.step`): both deployments succeed or both fail at
      every step (close steps are required to succeed: F10c), and they are in step at the end;
    * `stepOKb` / `allOKb` / `allOKSb` — executable, sound form of the hypotheses (`twin_history_checked`);
    * `Witness` — non-vacuity: five concrete histories covering all paths but liquidation success (kernel-evaluated).
-/
import Perp.Props.SatGSim

namespace Perp.Props.SatGHistory
open Perp Perp.World Perp.Engine Perp.Props.LiqTwin Perp.Props.SatGTwin Perp.Props.SatGSim
open SatG (nat cw)
open SatGOpenTx (Agree Setup pulledBy)

/-! ### histories -/

/-- the six trader entry points of the engine -/
inductive Op where
  | open (v : Nat) (side : Side) (m l b : Nat)
  | close (v lim : Nat)
  | deposit (v a : Nat)
  | withdraw (v a : Nat)
  | liquidate (v t l : Nat)
  | payFunding (v : Nat)
  deriving Repr, DecidableEq, Inhabited

def Op.msg : Op → ExecMsg
  | .open v side m l b => .openPosition v side m l b
  | .close v lim => .closePosition v lim
  | .deposit v a => .depositMargin v a
  | .withdraw v a => .withdrawMargin v a
  | .liquidate v t l => .liquidate v t l
  | .payFunding v => .payFunding v

def Op.tx (op : Op) : Tx := .engine op.msg

theorem Op.msg_ne (op : Op) : ∀ u, op.msg ≠ .updateConfig u := by
  intro u h; cases op <;> cases h

/-- one step of a history: the block, the caller, the operation -/
abbrev Step := Env × Nat × Op

/-- the cw20 deployment executes the history, nothing attached -/
def cwRun : World → List Step → Except Err World
  | wc, [] => .ok wc
  | wc, (env, s, op) :: r => do
      let wc1 ← applyTx wc env s ⟨0, false⟩ op.tx
      cwRun wc1 r

/-- lock-step run: the cw20 deployment executes each step with nothing attached; the native deployment executes
    the same step attaching exactly what the cw20 step pulled from the caller -/
def lockRun : World → World → List Step → Except Err (World × World)
  | wn, wc, [] => .ok (wn, wc)
  | wn, wc, (env, s, op) :: r => do
      let wc1 ← applyTx wc env s ⟨0, false⟩ op.tx
      let wn1 ← applyTx wn env s ⟨pulledBy wc1.log s, false⟩ op.tx
      lockRun wn1 wc1 r

/-- … recording the pair of worlds after every step -/
def lockTrace : World → World → List Step → Except Err (List (World × World))
  | _, _, [] => .ok []
  | wn, wc, (env, s, op) :: r => do
      let wc1 ← applyTx wc env s ⟨0, false⟩ op.tx
      let wn1 ← applyTx wn env s ⟨pulledBy wc1.log s, false⟩ op.tx
      let t ← lockTrace wn1 wc1 r
      pure ((wn1, wc1) :: t)

/-! ### the premises of one step, evaluated at the cw20 world before the step -/

/-- `OpenPosition`: one of the four paths, each with the premise of its per-transaction twin theorem -/
def OpenOK (wc : World) (env : Env) (s v : Nat) (side : Side) (m l : Nat) : Prop :=
  -- increase (flat or same-side position): nothing
  ((getPosition env wc.engine v s side).size.isZero = true
      ∨ (getPosition env wc.engine v s side).direction = sideToDirection side)
  -- reducing order: nothing
  ∨ SatGReduce.ReduceQ ({ wc with env := env, log := [] } : World).q wc.engine env s v side m l
  -- close-only reversal: nothing
  ∨ (SatGReverse.ReverseQ ({ wc with env := env, log := [] } : World).q wc.engine env s v side m l
      ∧ ∀ out, SatGReverse.RevOut wc env s v side out → SatGReverse.CloseOnlyQ wc.engine m l out)
  -- re-opening reversal: the netting condition
  ∨ (SatGReverse.ReverseQ ({ wc with env := env, log := [] } : World).q wc.engine env s v side m l
      ∧ (∀ out, SatGReverse.RevOut wc env s v side out → SatGReverse.ReopenQ wc.engine m l out)
      ∧ ∀ out, SatGReverse.RevOut wc env s v side out →
          SatGReverse.NetsOKQ ({ wc with env := env, log := [] } : World).q wc.engine env s v side m l out)

/-- `ClosePosition`: partial close — nothing; whole close — no vault shortfall, and the trader could have paid the
    fee up front (F10b / F10c) -/
def CloseOK (wc : World) (env : Env) (s v lim : Nat) : Prop :=
  SatGReduce.PartialQ ({ wc with env := env, log := [] } : World).q wc.engine s v
  ∨ (SatGClose.WholeQ ({ wc with env := env, log := [] } : World).q wc.engine s v
      ∧ ∀ wc', applyTx wc env s ⟨0, false⟩ (.engine (.closePosition v lim)) = .ok wc' →
          wc'.engine.st.prepaid = wc.engine.st.prepaid ∧ pulledBy wc'.log s ≤ wc.ledger.balance s)

/-- the premises the flow's per-transaction theorem needs (the ledger invariants `KeysNodup`, `total ≤ u128::MAX`
    are carried by `Sim`) -/
def StepOK (wc : World) (env : Env) (s : Nat) : Op → Prop
  | .open v side m l _ => Setup wc s ∧ OpenOK wc env s v side m l
  | .close v lim => Setup wc s ∧ CloseOK wc env s v lim
  | .deposit _ _ => True
  | .withdraw _ _ => s ≠ ENGINE ∧ s ≠ IFUND
  | .liquidate _ _ _ => s ≠ ENGINE ∧ s ≠ IFUND
  | .payFunding _ => s ≠ ENGINE ∧ s ≠ IFUND

/-- every step of the cw20 run satisfies `StepOK` at the world it starts from -/
def AllOK : World → List Step → Prop
  | _, [] => True
  | wc, (env, s, op) :: r =>
      StepOK wc env s op ∧ ∀ wc1, applyTx wc env s ⟨0, false⟩ op.tx = .ok wc1 → AllOK wc1 r

/-! ### one step -/

/-- **one step from a `Sim` pair**: if the cw20 step succeeds and satisfies `StepOK`, the native step with exactly
    the pulled amount attached succeeds and the two deployments are in step again -/
theorem sim_step {wn wc wc1 : World} (h : Sim wn wc) (env : Env) (s : Nat) (op : Op)
    (hok : StepOK wc env s op) (hc : applyTx wc env s ⟨0, false⟩ op.tx = .ok wc1) :
    ∃ wn1, applyTx wn env s ⟨pulledBy wc1.log s, false⟩ op.tx = .ok wn1 ∧ Sim wn1 wc1 := by
  cases op with
  | «open» v side m l b =>
    obtain ⟨hS, hcase⟩ := hok
    rcases hcase with hinc | hred | ⟨hrev, hco⟩ | ⟨hrev, hre, hnet⟩
    · exact sim_step_open_increase h env s v side m l b hinc hS hc
    · exact sim_step_open_reduce h env s v side m l b hred hS hc
    · exact sim_step_open_reverse_closeonly h env s v side m l b hrev hco hS hc
    · exact sim_step_open_reverse_reopen h env s v side m l b hrev hre hnet hS hc
  | close v lim =>
    obtain ⟨hS, hcase⟩ := hok
    rcases hcase with hp | ⟨hwh, hres⟩
    · exact sim_step_close_partial h env s v lim hp hS hc
    · obtain ⟨hns, hpay⟩ := hres wc1 hc
      exact sim_step_close_whole h env s v lim hwh hS hc hns hpay
  | deposit v a => exact sim_step_deposit h env s v a hc
  | withdraw v a =>
    exact (sim_step_eq_pulled h env s _ (fun _ k => by cases k) hok.1 hok.2 (SatG.twin_withdraw wc env s v a) hc).2
  | liquidate v t l =>
    exact (sim_step_eq_pulled h env s _ (fun _ k => by cases k) hok.1 hok.2 (SatG.twin_liquidate wc env s v t l) hc).2
  | payFunding v =>
    exact (sim_step_eq_pulled h env s _ (fun _ k => by cases k) hok.1 hok.2 (SatG.twin_payFunding wc env s v) hc).2

/-- **the converse for `OpenPosition`** (all four paths): from a `Sim` pair, if the native step succeeds with ANY
    attached amount `X` within the caller's cw20 allowance, the cw20 step succeeds, pulls exactly `X`, and the two
    deployments are in step again — so from a `Sim` pair an `OpenPosition` succeeds on both or fails on both -/
theorem sim_step_open_B {wn wc wn1 : World} (h : Sim wn wc) (env : Env) (s v : Nat) (side : Side) (m l b X : Nat)
    (hok : StepOK wc env s (.open v side m l b)) (hX : X ≤ Ledger.get wc.ledger.allow s)
    (hn : applyTx wn env s ⟨X, false⟩ (.engine (.openPosition v side m l b)) = .ok wn1) :
    ∃ wc1, applyTx wc env s ⟨0, false⟩ (.engine (.openPosition v side m l b)) = .ok wc1
      ∧ pulledBy wc1.log s = X ∧ Sim wn1 wc1 := by
  obtain ⟨hS, hcase⟩ := hok
  refine h.stepB env s X _ (fun _ k => by cases k) hn fun wn' hn' => ?_
  rcases hcase with hinc | hred | ⟨hrev, hco⟩ | ⟨hrev, hre, hnet⟩
  · exact (SatG.twin_open_increase wc env s v side m l b hinc hS h.keysC h.totC).2 X wn' hX hn'
  · exact (SatGReduce.twin_open_reduce wc env s v side m l b hred hS h.keysC h.totC).2 X wn' hX hn'
  · exact (SatGReverse.twin_open_reverse_closeonly wc env s v side m l b hrev hco hS h.keysC h.totC).2 X wn' hX hn'
  · exact (SatGReverse.twin_open_reverse_reopen wc env s v side m l b hrev hre hnet hS h.keysC h.totC).2 X wn' hX hn'

/-! ### the history theorem -/

theorem bind_ok {α β : Type} (x : Except Err α) (f : α → Except Err β) (b : β) :
    (x >>= f) = .ok b ↔ ∃ a, x = .ok a ∧ f a = .ok b := bind_ok_iff x f b

/-- from any pair in step -/
theorem twin_history_sim : ∀ (hist : List Step) (wn wc wc' : World), Sim wn wc →
    cwRun wc hist = .ok wc' → AllOK wc hist →
    ∃ wn', lockRun wn wc hist = .ok (wn', wc') ∧ Sim wn' wc' := by
  intro hist
  induction hist with
  | nil =>
    intro wn wc wc' h hrun _
    injection hrun with hrun
    subst hrun
    exact ⟨wn, rfl, h⟩
  | cons st r ih =>
    intro wn wc wc' h hrun hok
    obtain ⟨env, s, op⟩ := st
    obtain ⟨wc1, hc1, hrest⟩ := (bind_ok _ _ _).1 hrun
    obtain ⟨wn1, hn1, h1⟩ := sim_step h env s op hok.1 hc1
    obtain ⟨wn', hl, h'⟩ := ih wn1 wc1 wc' h1 hrest (hok.2 wc1 hc1)
    refine ⟨wn', ?_, h'⟩
    show (applyTx wc env s ⟨0, false⟩ op.tx >>= fun wc1 =>
      applyTx wn env s ⟨pulledBy wc1.log s, false⟩ op.tx >>= fun wn1 => lockRun wn1 wc1 r) = _
    rw [hc1]
    show (applyTx wn env s ⟨pulledBy wc1.log s, false⟩ op.tx >>= fun wn1 => lockRun wn1 wc1 r) = _
    rw [hn1]
    exact hl

/-- **C13 at history level.**  Let `wc0` be a deployment on cw20 collateral (ledger well-formed, supply within
    `u128`).  If the cw20 deployment executes the history `hist` successfully (nothing attached) and every step
    satisfies the premises of its flow (`AllOK`), then the native twin `nat wc0`, executing the same history and
    attaching at each step exactly what the cw20 step pulled from the caller, succeeds at every step, and the final
    worlds are in step (`Sim`). -/
theorem twin_history (wc0 : World) (hist : List Step) (hf : wc0.engine.cfg.native = false)
    (hk : Dispatch.KeysNodup wc0.ledger) (ht : Dispatch.total wc0.ledger ≤ U128.MAX)
    (wc' : World) (hrun : cwRun wc0 hist = .ok wc') (hok : AllOK wc0 hist) :
    ∃ wn', lockRun (nat wc0) wc0 hist = .ok (wn', wc') ∧ Sim wn' wc' :=
  twin_history_sim hist (nat wc0) wc0 wc' (Sim.start wc0 hf hk ht) hrun hok

/-- … and the deployments are in step after EVERY step of the history -/
theorem twin_history_trace : ∀ (hist : List Step) (wn wc wc' : World), Sim wn wc →
    cwRun wc hist = .ok wc' → AllOK wc hist →
    ∃ tr, lockTrace wn wc hist = .ok tr ∧ tr.length = hist.length ∧ ∀ p ∈ tr, Sim p.1 p.2 := by
  intro hist
  induction hist with
  | nil =>
    intro wn wc wc' _ _ _
    exact ⟨[], rfl, rfl, fun _ hp => by cases hp⟩
  | cons st r ih =>
    intro wn wc wc' h hrun hok
    obtain ⟨env, s, op⟩ := st
    obtain ⟨wc1, hc1, hrest⟩ := (bind_ok _ _ _).1 hrun
    obtain ⟨wn1, hn1, h1⟩ := sim_step h env s op hok.1 hc1
    obtain ⟨tr, hl, hlen, h'⟩ := ih wn1 wc1 wc' h1 hrest (hok.2 wc1 hc1)
    refine ⟨(wn1, wc1) :: tr, ?_, by simp [hlen], ?_⟩
    · show (applyTx wc env s ⟨0, false⟩ op.tx >>= fun wc1 =>
        applyTx wn env s ⟨pulledBy wc1.log s, false⟩ op.tx >>= fun wn1 =>
          lockTrace wn1 wc1 r >>= fun t => pure ((wn1, wc1) :: t)) = _
      rw [hc1]
      show (applyTx wn env s ⟨pulledBy wc1.log s, false⟩ op.tx >>= fun wn1 =>
          lockTrace wn1 wc1 r >>= fun t => pure ((wn1, wc1) :: t)) = _
      rw [hn1]
      show (lockTrace wn1 wc1 r >>= fun t => pure ((wn1, wc1) :: t)) = _
      rw [hl]
      rfl
    · intro p hp
      rcases List.mem_cons.1 hp with rfl | hp
      · exact h1
      · exact h' p hp

/-- **C13 in the property's words**: after the history the two deployments hold the same positions, the same vAMM
    state, the same engine state (up to the collateral kind), and every account has the same collateral balance —
    the same amounts moved between the same parties. -/
theorem twin_history_C13 (wc0 : World) (hist : List Step) (hf : wc0.engine.cfg.native = false)
    (hk : Dispatch.KeysNodup wc0.ledger) (ht : Dispatch.total wc0.ledger ≤ U128.MAX)
    (wc' : World) (hrun : cwRun wc0 hist = .ok wc') (hok : AllOK wc0 hist) :
    ∃ wn', lockRun (nat wc0) wc0 hist = .ok (wn', wc')
      ∧ wn'.engine.positions = wc'.engine.positions
      ∧ wn'.vamms = wc'.vamms
      ∧ wn'.engine = setNative wc'.engine true
      ∧ wn'.ifund = wc'.ifund ∧ wn'.feePool = wc'.feePool ∧ wn'.feed = wc'.feed
      ∧ ∀ a, wn'.ledger.balance a = wc'.ledger.balance a := by
  obtain ⟨wn', hl, hs⟩ := twin_history wc0 hist hf hk ht wc' hrun hok
  obtain ⟨h1, h2, h3, h4, h5, _, h7⟩ := hs.agree
  exact ⟨wn', hl, by rw [h1]; rfl, h2, h1, h3, h4, h5, h7⟩

/-! ### histories in which steps may fail

  A failed transaction changes nothing but the clock (`World.step`).  When the cw20 step fails its log is empty, so
  the native step attaches nothing — and fails as well: for the open flows by part (B) of the twin theorems
  (the native run succeeding with `X = 0` would make the cw20 run succeed), for deposit because a native deposit
  needs the coins attached, for withdraw / liquidate / payFunding by the equalities.  For `ClosePosition` part (B)
  has premises of its own (F10c: the native engine pays the fee out of the vault when nothing is attached), so a
  close step is required to succeed (`Live`). -/

/-- lock-step run with transactional steps -/
def lockSteps : World → World → List Step → World × World
  | wn, wc, [] => (wn, wc)
  | wn, wc, (env, s, op) :: r =>
      lockSteps (step wn env s ⟨pulledBy (step wc env s ⟨0, false⟩ op.tx).log s, false⟩ op.tx)
        (step wc env s ⟨0, false⟩ op.tx) r

/-- the outcomes (success?) of the two deployments, step by step -/
def lockOutcomes : World → World → List Step → List (Bool × Bool)
  | _, _, [] => []
  | wn, wc, (env, s, op) :: r =>
      ((applyTx wn env s ⟨pulledBy (step wc env s ⟨0, false⟩ op.tx).log s, false⟩ op.tx).isOk,
        (applyTx wc env s ⟨0, false⟩ op.tx).isOk)
      :: lockOutcomes (step wn env s ⟨pulledBy (step wc env s ⟨0, false⟩ op.tx).log s, false⟩ op.tx)
        (step wc env s ⟨0, false⟩ op.tx) r

/-- a close step succeeds on cw20 -/
def Live (wc : World) (env : Env) (s : Nat) : Op → Prop
  | .close v lim => ∃ wc', applyTx wc env s ⟨0, false⟩ (.engine (.closePosition v lim)) = .ok wc'
  | _ => True

def AllOKS : World → List Step → Prop
  | _, [] => True
  | wc, (env, s, op) :: r =>
      StepOK wc env s op ∧ Live wc env s op ∧ AllOKS (step wc env s ⟨0, false⟩ op.tx) r

/-- when the cw20 step fails, the native step with nothing attached fails -/
theorem sim_step_fail {wn wc : World} (h : Sim wn wc) (env : Env) (s : Nat) (op : Op)
    (hok : StepOK wc env s op) (hlive : Live wc env s op) (e : Err)
    (hc : applyTx wc env s ⟨0, false⟩ op.tx = .error e) :
    ∃ e', applyTx wn env s ⟨0, false⟩ op.tx = .error e' := by
  cases op with
  | «open» v side m l b =>
    obtain ⟨hS, hcase⟩ := hok
    rcases hcase with hinc | hred | ⟨hrev, hco⟩ | ⟨hrev, hre, hnet⟩
    · exact sim_fail_B h env s _ e hc (SatG.twin_open_increase wc env s v side m l b hinc hS h.keysC h.totC).2
    · exact sim_fail_B h env s _ e hc (SatGReduce.twin_open_reduce wc env s v side m l b hred hS h.keysC h.totC).2
    · exact sim_fail_B h env s _ e hc
        (SatGReverse.twin_open_reverse_closeonly wc env s v side m l b hrev hco hS h.keysC h.totC).2
    · exact sim_fail_B h env s _ e hc
        (SatGReverse.twin_open_reverse_reopen wc env s v side m l b hrev hre hnet hS h.keysC h.totC).2
  | close v lim =>
    obtain ⟨wc', hc'⟩ := hlive
    have hc2 : applyTx wc env s ⟨0, false⟩ (.engine (.closePosition v lim)) = .error e := hc
    rw [hc'] at hc2
    cases hc2
  | deposit v a => exact sim_fail_deposit h env s v a
  | withdraw v a => exact ⟨e, sim_fail_eq h env s _ (SatG.twin_withdraw wc env s v a) e hc⟩
  | liquidate v t l => exact ⟨e, sim_fail_eq h env s _ (SatG.twin_liquidate wc env s v t l) e hc⟩
  | payFunding v => exact ⟨e, sim_fail_eq h env s _ (SatG.twin_payFunding wc env s v) e hc⟩

theorem pulledBy_nil (s : Nat) : pulledBy [] s = 0 := rfl

/-- **one transactional step from a `Sim` pair**: both deployments succeed or both fail, and they are in step again -/
theorem sim_step_total {wn wc : World} (h : Sim wn wc) (env : Env) (s : Nat) (op : Op)
    (hok : StepOK wc env s op) (hlive : Live wc env s op) :
    (applyTx wn env s ⟨pulledBy (step wc env s ⟨0, false⟩ op.tx).log s, false⟩ op.tx).isOk
        = (applyTx wc env s ⟨0, false⟩ op.tx).isOk
    ∧ Sim (step wn env s ⟨pulledBy (step wc env s ⟨0, false⟩ op.tx).log s, false⟩ op.tx)
        (step wc env s ⟨0, false⟩ op.tx) := by
  cases hc : applyTx wc env s ⟨0, false⟩ op.tx with
  | ok wc1 =>
    have hst : step wc env s ⟨0, false⟩ op.tx = wc1 := by unfold step; rw [hc]
    rw [hst]
    obtain ⟨wn1, hn1, h1⟩ := sim_step h env s op hok hc
    have hstn : step wn env s ⟨pulledBy wc1.log s, false⟩ op.tx = wn1 := by unfold step; rw [hn1]
    rw [hstn, hn1]
    exact ⟨rfl, h1⟩
  | error e =>
    have hst : step wc env s ⟨0, false⟩ op.tx = { wc with env := env, log := [] } := by unfold step; rw [hc]
    rw [hst]
    show (applyTx wn env s ⟨pulledBy [] s, false⟩ op.tx).isOk = _ ∧ Sim (step wn env s ⟨pulledBy [] s, false⟩ op.tx) _
    rw [pulledBy_nil]
    obtain ⟨e', hn⟩ := sim_step_fail h env s op hok hlive e hc
    have hstn : step wn env s ⟨0, false⟩ op.tx = { wn with env := env, log := [] } := by unfold step; rw [hn]
    rw [hstn, hn]
    exact ⟨rfl, h.fail env⟩

/-- **C13 at history level, failing steps included.**  Along a history whose steps satisfy `StepOK` (and whose close
    steps succeed), at every step both deployments succeed or both fail, and they are in step at the end. -/
theorem twin_history_steps : ∀ (hist : List Step) (wn wc : World), Sim wn wc → AllOKS wc hist →
    Sim (lockSteps wn wc hist).1 (lockSteps wn wc hist).2
    ∧ ∀ p ∈ lockOutcomes wn wc hist, p.1 = p.2 := by
  intro hist
  induction hist with
  | nil => intro wn wc h _; exact ⟨h, fun _ hp => by cases hp⟩
  | cons st r ih =>
    intro wn wc h hok
    obtain ⟨env, s, op⟩ := st
    obtain ⟨h1, h2, h3⟩ := hok
    obtain ⟨ho, hs⟩ := sim_step_total h env s op h1 h2
    obtain ⟨ih1, ih2⟩ := ih _ _ hs h3
    refine ⟨ih1, fun p hp => ?_⟩
    rcases List.mem_cons.1 hp with rfl | hp
    · exact ho
    · exact ih2 p hp

/-! ### executable, sound form of the hypotheses -/

def setupB (w : World) (s : Nat) : Bool :=
  decide (w.engine.cfg.insuranceFund = IFUND) && decide (w.engine.cfg.feePool = FEEPOOL)
    && decide (s ≠ ENGINE) && decide (s ≠ IFUND) && decide (s ≠ FEEPOOL)

theorem setup_of_setupB (w : World) (s : Nat) (h : setupB w s = true) : Setup w s := by
  unfold setupB at h
  simp only [Bool.and_eq_true, decide_eq_true_eq] at h
  obtain ⟨⟨⟨⟨h1, h2⟩, h3⟩, h4⟩, h5⟩ := h
  exact ⟨h1, h2, h3, h4, h5⟩

def incB (wc : World) (env : Env) (s v : Nat) (side : Side) : Bool :=
  decide ((getPosition env wc.engine v s side).size.isZero = true
      ∨ (getPosition env wc.engine v s side).direction = sideToDirection side)

/-- the reversal takes the close-only branch, whatever the vAMM pays for the old position -/
def coB (wc : World) (env : Env) (s v : Nat) (side : Side) (m l : Nat) : Bool :=
  match SatGReverse.revOutF wc env s v side with
  | some out => decide (SatGReverse.levOf wc.engine m l out = some 0)
  | none => true

def roB (wc : World) (env : Env) (s v : Nat) (side : Side) (m l : Nat) : Bool :=
  match SatGReverse.revOutF wc env s v side with
  | some out =>
    match SatGReverse.levOf wc.engine m l out with
    | some (_ + 1) => true
    | _ => false
  | none => true

def netsB (wc : World) (env : Env) (s v : Nat) (side : Side) (m l : Nat) : Bool :=
  match SatGReverse.revOutF wc env s v side with
  | some out =>
    match SatGReverse.netsVals ({ wc with env := env, log := [] } : World).q wc.engine env s v side m l out with
    | .ok (fee, sm, mtv0) => decide (SatGReverse.NetsCase fee.2 fee.1 sm mtv0)
    | .error _ => false
  | none => true

theorem coB_sound (wc : World) (env : Env) (s v : Nat) (side : Side) (m l : Nat) (h : coB wc env s v side m l = true) :
    ∀ out, SatGReverse.RevOut wc env s v side out → SatGReverse.CloseOnlyQ wc.engine m l out := by
  intro out ho
  rw [SatGReverse.revOut_iff] at ho
  unfold coB at h
  rw [ho] at h
  exact SatGReverse.closeOnlyQ_of_lev _ _ _ _ (of_decide_eq_true h)

theorem roB_sound (wc : World) (env : Env) (s v : Nat) (side : Side) (m l : Nat) (h : roB wc env s v side m l = true) :
    ∀ out, SatGReverse.RevOut wc env s v side out → SatGReverse.ReopenQ wc.engine m l out := by
  intro out ho
  rw [SatGReverse.revOut_iff] at ho
  unfold roB at h
  rw [ho] at h
  dsimp only at h
  cases hl : SatGReverse.levOf wc.engine m l out with
  | none => rw [hl] at h; cases h
  | some k =>
    cases k with
    | zero => rw [hl] at h; cases h
    | succ k => exact SatGReverse.reopenQ_of_lev _ _ _ _ k hl

theorem netsB_sound (wc : World) (env : Env) (s v : Nat) (side : Side) (m l : Nat)
    (h : netsB wc env s v side m l = true) :
    ∀ out, SatGReverse.RevOut wc env s v side out →
      SatGReverse.NetsOKQ ({ wc with env := env, log := [] } : World).q wc.engine env s v side m l out := by
  intro out ho
  rw [SatGReverse.revOut_iff] at ho
  unfold netsB at h
  rw [ho] at h
  dsimp only at h
  cases hv : SatGReverse.netsVals ({ wc with env := env, log := [] } : World).q wc.engine env s v side m l out with
  | error e => rw [hv] at h; cases h
  | ok r =>
    obtain ⟨fee, sm, mtv0⟩ := r
    rw [hv] at h
    exact (SatGReverse.netsOKQ_iff_vals _ _ _ _ _ _ _ _ _ fee sm mtv0 hv).2 (of_decide_eq_true h)

def openB (wc : World) (env : Env) (s v : Nat) (side : Side) (m l : Nat) : Bool :=
  incB wc env s v side
  || SatGReduce.Witness.reduceB ({ wc with env := env, log := [] } : World).q wc.engine env s v side m l
  || (SatGReverse.reverseB ({ wc with env := env, log := [] } : World).q wc.engine env s v side m l
      && coB wc env s v side m l)
  || (SatGReverse.reverseB ({ wc with env := env, log := [] } : World).q wc.engine env s v side m l
      && roB wc env s v side m l && netsB wc env s v side m l)

theorem openB_sound (wc : World) (env : Env) (s v : Nat) (side : Side) (m l : Nat)
    (h : openB wc env s v side m l = true) : OpenOK wc env s v side m l := by
  unfold openB at h
  simp only [Bool.or_eq_true, Bool.and_eq_true] at h
  rcases h with ((h | h) | ⟨h1, h2⟩) | ⟨⟨h1, h2⟩, h3⟩
  · exact Or.inl (of_decide_eq_true h)
  · exact Or.inr (Or.inl (SatGReduce.Witness.reduceQ_of_reduceB _ _ _ _ _ _ _ _ h))
  · exact Or.inr (Or.inr (Or.inl ⟨SatGReverse.reverseQ_of_reverseB _ _ _ _ _ _ _ _ h1, coB_sound _ _ _ _ _ _ _ h2⟩))
  · exact Or.inr (Or.inr (Or.inr ⟨SatGReverse.reverseQ_of_reverseB _ _ _ _ _ _ _ _ h1, roB_sound _ _ _ _ _ _ _ h2,
      netsB_sound _ _ _ _ _ _ _ h3⟩))

def wholeB (q : Q) (e : E) (s v : Nat) : Bool :=
  match q.isOverFluct v (if Integer.gt (readPosition e v s).size Integer.zero then .addToAmm else .removeFromAmm)
      (readPosition e v s).size.value with
  | .ok over => !(over && decide (e.cfg.plr < e.cfg.decimals))
  | .error _ => true

theorem wholeB_sound (q : Q) (e : E) (s v : Nat) (h : wholeB q e s v = true) : SatGClose.WholeQ q e s v := by
  intro over ho
  unfold wholeB at h
  rw [ho] at h
  simp only [Bool.not_eq_true', Bool.and_eq_false_iff, decide_eq_false_iff_not] at h
  rintro ⟨h1, h2⟩
  rcases h with h | h
  · rw [h1] at h; cases h
  · exact h h2

def closeB (wc : World) (env : Env) (s v lim : Nat) : Bool :=
  decide (SatGReduce.PartialQ ({ wc with env := env, log := [] } : World).q wc.engine s v)
  || (wholeB ({ wc with env := env, log := [] } : World).q wc.engine s v
      && match applyTx wc env s ⟨0, false⟩ (.engine (.closePosition v lim)) with
         | .ok wc' => decide (wc'.engine.st.prepaid = wc.engine.st.prepaid)
                      && decide (pulledBy wc'.log s ≤ wc.ledger.balance s)
         | .error _ => true)

theorem closeB_sound (wc : World) (env : Env) (s v lim : Nat) (h : closeB wc env s v lim = true) :
    CloseOK wc env s v lim := by
  unfold closeB at h
  simp only [Bool.or_eq_true, Bool.and_eq_true] at h
  rcases h with h | ⟨h1, h2⟩
  · exact Or.inl (of_decide_eq_true h)
  · refine Or.inr ⟨wholeB_sound _ _ _ _ h1, fun wc' hc => ?_⟩
    rw [hc] at h2
    simp only [Bool.and_eq_true, decide_eq_true_eq] at h2
    exact h2

def userB (s : Nat) : Bool := decide (s ≠ ENGINE) && decide (s ≠ IFUND)

theorem userB_sound (s : Nat) (h : userB s = true) : s ≠ ENGINE ∧ s ≠ IFUND := by
  unfold userB at h
  simpa using h

def stepOKb (wc : World) (env : Env) (s : Nat) : Op → Bool
  | .open v side m l _ => setupB wc s && openB wc env s v side m l
  | .close v lim => setupB wc s && closeB wc env s v lim
  | .deposit _ _ => true
  | .withdraw _ _ => userB s
  | .liquidate _ _ _ => userB s
  | .payFunding _ => userB s

theorem stepOKb_sound (wc : World) (env : Env) (s : Nat) (op : Op) (h : stepOKb wc env s op = true) :
    StepOK wc env s op := by
  cases op with
  | «open» v side m l b =>
    simp only [stepOKb, Bool.and_eq_true] at h
    exact ⟨setup_of_setupB _ _ h.1, openB_sound _ _ _ _ _ _ _ h.2⟩
  | close v lim =>
    simp only [stepOKb, Bool.and_eq_true] at h
    exact ⟨setup_of_setupB _ _ h.1, closeB_sound _ _ _ _ _ h.2⟩
  | deposit v a => trivial
  | withdraw v a => exact userB_sound s h
  | liquidate v t l => exact userB_sound s h
  | payFunding v => exact userB_sound s h

/-- the cw20 run succeeds on every step and every step passes the check -/
def allOKb : World → List Step → Bool
  | _, [] => true
  | wc, (env, s, op) :: r =>
      stepOKb wc env s op
      && match applyTx wc env s ⟨0, false⟩ op.tx with
         | .ok wc1 => allOKb wc1 r
         | .error _ => false

theorem allOKb_sound : ∀ (hist : List Step) (wc : World), allOKb wc hist = true →
    AllOK wc hist ∧ ∃ wc', cwRun wc hist = .ok wc' := by
  intro hist
  induction hist with
  | nil => intro wc _; exact ⟨trivial, wc, rfl⟩
  | cons st r ih =>
    intro wc h
    obtain ⟨env, s, op⟩ := st
    simp only [allOKb, Bool.and_eq_true] at h
    obtain ⟨h1, h2⟩ := h
    cases hc : applyTx wc env s ⟨0, false⟩ op.tx with
    | error e => rw [hc] at h2; cases h2
    | ok wc1 =>
      rw [hc] at h2
      obtain ⟨ha, wc', hr⟩ := ih wc1 h2
      refine ⟨⟨stepOKb_sound _ _ _ _ h1, fun w1 hw1 => ?_⟩, wc', ?_⟩
      · rw [hc] at hw1
        injection hw1 with hw1
        subst hw1
        exact ha
      · show (applyTx wc env s ⟨0, false⟩ op.tx >>= fun wc1 => cwRun wc1 r) = _
        rw [hc]
        exact hr

/-- **the history theorem, executable form**: if the check passes, the lock-step run succeeds and ends in step -/
theorem twin_history_checked (wc0 : World) (hist : List Step) (hf : wc0.engine.cfg.native = false)
    (hk : Dispatch.KeysNodup wc0.ledger) (ht : Dispatch.total wc0.ledger ≤ U128.MAX)
    (hchk : allOKb wc0 hist = true) :
    ∃ wn' wc', cwRun wc0 hist = .ok wc' ∧ lockRun (nat wc0) wc0 hist = .ok (wn', wc') ∧ Sim wn' wc' := by
  obtain ⟨hok, wc', hrun⟩ := allOKb_sound hist wc0 hchk
  obtain ⟨wn', hl, hs⟩ := twin_history wc0 hist hf hk ht wc' hrun hok
  exact ⟨wn', wc', hrun, hl, hs⟩

/-- … from a cw20 deployment and its native twin -/
theorem twin_history_steps_start (wc0 : World) (hist : List Step) (hf : wc0.engine.cfg.native = false)
    (hk : Dispatch.KeysNodup wc0.ledger) (ht : Dispatch.total wc0.ledger ≤ U128.MAX) (hok : AllOKS wc0 hist) :
    Sim (lockSteps (nat wc0) wc0 hist).1 (lockSteps (nat wc0) wc0 hist).2
    ∧ ∀ p ∈ lockOutcomes (nat wc0) wc0 hist, p.1 = p.2 :=
  twin_history_steps hist (nat wc0) wc0 (Sim.start wc0 hf hk ht) hok

def liveB (wc : World) (env : Env) (s : Nat) : Op → Bool
  | .close v lim => (applyTx wc env s ⟨0, false⟩ (.engine (.closePosition v lim))).isOk
  | _ => true

theorem liveB_sound (wc : World) (env : Env) (s : Nat) (op : Op) (h : liveB wc env s op = true) : Live wc env s op := by
  cases op with
  | close v lim =>
    show ∃ wc', applyTx wc env s ⟨0, false⟩ (.engine (.closePosition v lim)) = .ok wc'
    have h' : (applyTx wc env s ⟨0, false⟩ (.engine (.closePosition v lim))).isOk = true := h
    cases hc : applyTx wc env s ⟨0, false⟩ (.engine (.closePosition v lim)) with
    | ok wc' => exact ⟨wc', rfl⟩
    | error e => rw [hc] at h'; cases h'
  | _ => trivial

def allOKSb : World → List Step → Bool
  | _, [] => true
  | wc, (env, s, op) :: r =>
      stepOKb wc env s op && liveB wc env s op && allOKSb (step wc env s ⟨0, false⟩ op.tx) r

theorem allOKSb_sound : ∀ (hist : List Step) (wc : World), allOKSb wc hist = true → AllOKS wc hist := by
  intro hist
  induction hist with
  | nil => intro _ _; trivial
  | cons st r ih =>
    intro wc h
    obtain ⟨env, s, op⟩ := st
    simp only [allOKSb, Bool.and_eq_true] at h
    exact ⟨stepOKb_sound _ _ _ _ h.1.1, liveB_sound _ _ _ _ h.1.2, ih _ h.2⟩

/-! ### non-vacuity: concrete histories (kernel-evaluated)

  Worlds of `SatGReduce.Witness`: `w0` — a cw20 deployment, one vAMM (1000 / 1000 reserves, toll 0.1 %, spread 0.2 %),
  trader 101 with 1000 collateral and an allowance of 500, insurance fund 5000;  `w2` — `w0` after trader 101 went
  long 100 quote and the vAMM owner set a fluctuation limit of 5 % (so that a whole close falls back to a partial one). -/

namespace Witness
open SatGReduce.Witness (D w0 w2)

/-- open long 100 (increase on a flat position) · deposit 10 · sell 20 (reducing order) · withdraw 5 · close whole -/
def histA : List Step :=
  [ (⟨5, 5000⟩, 101, .open 10 .buy (50 * D) (2 * D) 0),
    (⟨6, 6000⟩, 101, .deposit 10 (10 * D)),
    (⟨7, 7000⟩, 101, .open 10 .sell (10 * D) (2 * D) 0),
    (⟨8, 8000⟩, 101, .withdraw 10 (5 * D)),
    (⟨9, 9000⟩, 101, .close 10 0) ]

/-- open long 100 · sell 150 (re-opening reversal: closes the long, opens a short of 50) · a third party settles
    funding · close the short whole -/
def histB : List Step :=
  [ (⟨5, 5000⟩, 101, .open 10 .buy (50 * D) (2 * D) 0),
    (⟨7, 7000⟩, 101, .open 10 .sell (75 * D) (2 * D) 0),
    (⟨8, 8000⟩, 102, .payFunding 10),
    (⟨9, 9000⟩, 101, .close 10 0) ]

/-- open long 100 · add 40 (increase on a same-side position) · sell 20 (reduce) · sell 120 (close-only reversal) -/
def histC : List Step :=
  [ (⟨5, 5000⟩, 101, .open 10 .buy (50 * D) (2 * D) 0),
    (⟨6, 6000⟩, 101, .open 10 .buy (20 * D) (2 * D) 0),
    (⟨7, 7000⟩, 101, .open 10 .sell (10 * D) (2 * D) 0),
    (⟨8, 8000⟩, 101, .open 10 .sell (60 * D) (2 * D) 0) ]

/-- (from `w2`) partial close · deposit 1 · partial close -/
def histD : List Step :=
  [ (⟨7, 7000⟩, 101, .close 10 0),
    (⟨8, 8000⟩, 101, .deposit 10 (1 * D)),
    (⟨9, 9000⟩, 101, .close 10 0) ]

/-- what each step of the cw20 run pulled from its caller -/
def pulls (w : World) : List Step → List (Option Nat)
  | [] => []
  | (env, s, op) :: r =>
    match applyTx w env s ⟨0, false⟩ op.tx with
    | .ok w1 => some (pulledBy w1.log s) :: pulls w1 r
    | .error _ => [none]

/-- the path each step takes: 1 increase, 2 reduce, 3 close-only reversal, 4 re-opening reversal, 5 partial close,
    6 whole close, 0 the other entry points -/
def pathOf (wc : World) (env : Env) (s : Nat) : Op → Nat
  | .open v side m l _ =>
    if incB wc env s v side then 1
    else if SatGReduce.Witness.reduceB ({ wc with env := env, log := [] } : World).q wc.engine env s v side m l then 2
    else if coB wc env s v side m l then 3 else 4
  | .close v _ =>
    if decide (SatGReduce.PartialQ ({ wc with env := env, log := [] } : World).q wc.engine s v) then 5 else 6
  | _ => 0

def paths (w : World) : List Step → List Nat
  | [] => []
  | (env, s, op) :: r =>
    pathOf w env s op :: match applyTx w env s ⟨0, false⟩ op.tx with
    | .ok w1 => paths w1 r
    | .error _ => []

theorem w0_base : w0.engine.cfg.native = false ∧ Dispatch.KeysNodup w0.ledger ∧ Dispatch.total w0.ledger ≤ U128.MAX :=
  ⟨by decide +kernel, by unfold Dispatch.KeysNodup; decide +kernel, by decide +kernel⟩

set_option maxRecDepth 100000 in
theorem w2_base : w2.engine.cfg.native = false ∧ Dispatch.KeysNodup w2.ledger ∧ Dispatch.total w2.ledger ≤ U128.MAX :=
  ⟨by decide +kernel, by unfold Dispatch.KeysNodup; decide +kernel, by decide +kernel⟩

set_option maxRecDepth 100000 in
/-- **non-vacuity of `twin_history`** (A): the hypotheses hold for `histA` on `w0` — every cw20 step succeeds and
    passes `StepOK`; the steps take the paths increase / deposit / reduce / withdraw / whole close and pull
    50.3, 10, 0.06, 0, 0.24 from the trader -/
theorem histA_nonvacuous :
    allOKb w0 histA = true ∧ paths w0 histA = [1, 0, 2, 0, 6]
    ∧ pulls w0 histA = [some 50300000, some 10000000, some 60000, some 0, some 240000] :=
  ⟨by decide +kernel, by decide +kernel, by decide +kernel⟩

set_option maxRecDepth 100000 in
/-- (B): increase / re-opening reversal / payFunding / whole close -/
theorem histB_nonvacuous :
    allOKb w0 histB = true ∧ paths w0 histB = [1, 4, 0, 6]
    ∧ pulls w0 histB = [some 50300000, some 450000, some 0, some 150000] :=
  ⟨by decide +kernel, by decide +kernel, by decide +kernel⟩

set_option maxRecDepth 100000 in
/-- (C): increase (flat) / increase (same side) / reduce / close-only reversal -/
theorem histC_nonvacuous :
    allOKb w0 histC = true ∧ paths w0 histC = [1, 1, 2, 3]
    ∧ pulls w0 histC = [some 50300000, some 20120000, some 60000, some 360000] :=
  ⟨by decide +kernel, by decide +kernel, by decide +kernel⟩

set_option maxRecDepth 100000 in
/-- (D): partial close / deposit / partial close -/
theorem histD_nonvacuous :
    allOKb w2 histD = true ∧ paths w2 histD = [5, 0, 5] :=
  ⟨by decide +kernel, by decide +kernel⟩

/-- the history theorem applied: the lock-step runs succeed and end in step -/
theorem histA_applied : ∃ wn' wc', cwRun w0 histA = .ok wc' ∧ lockRun (nat w0) w0 histA = .ok (wn', wc') ∧ Sim wn' wc' :=
  twin_history_checked w0 histA w0_base.1 w0_base.2.1 w0_base.2.2 histA_nonvacuous.1

theorem histB_applied : ∃ wn' wc', cwRun w0 histB = .ok wc' ∧ lockRun (nat w0) w0 histB = .ok (wn', wc') ∧ Sim wn' wc' :=
  twin_history_checked w0 histB w0_base.1 w0_base.2.1 w0_base.2.2 histB_nonvacuous.1

theorem histC_applied : ∃ wn' wc', cwRun w0 histC = .ok wc' ∧ lockRun (nat w0) w0 histC = .ok (wn', wc') ∧ Sim wn' wc' :=
  twin_history_checked w0 histC w0_base.1 w0_base.2.1 w0_base.2.2 histC_nonvacuous.1

theorem histD_applied : ∃ wn' wc', cwRun w2 histD = .ok wc' ∧ lockRun (nat w2) w2 histD = .ok (wn', wc') ∧ Sim wn' wc' :=
  twin_history_checked w2 histD w2_base.1 w2_base.2.1 w2_base.2.2 histD_nonvacuous.1

/-- a history with failing steps: open long 100 · withdraw 1000 (fails: free collateral) · deposit 600 (fails: allowance)
    · sell at leverage ½ (fails: leverage below 1) · sell 20 (reduce) · a third party tries to liquidate the healthy
    position (fails) · close whole -/
def histE : List Step :=
  [ (⟨5, 5000⟩, 101, .open 10 .buy (50 * D) (2 * D) 0),
    (⟨6, 6000⟩, 101, .withdraw 10 (1000 * D)),
    (⟨6, 6000⟩, 101, .deposit 10 (600 * D)),
    (⟨7, 7000⟩, 101, .open 10 .sell (10 * D) (D / 2) 0),
    (⟨7, 7000⟩, 101, .open 10 .sell (10 * D) (2 * D) 0),
    (⟨8, 8000⟩, 102, .liquidate 10 101 0),
    (⟨9, 9000⟩, 101, .close 10 0) ]

set_option maxRecDepth 100000 in
/-- **non-vacuity of `twin_history_steps`** (E): the hypotheses hold for `histE` on `w0`; evaluated by the kernel, the
    two deployments succeed on steps 1, 5, 7 and fail on steps 2, 3, 4, 6 — alike, as the theorem says -/
theorem histE_nonvacuous :
    allOKSb w0 histE = true
    ∧ lockOutcomes (nat w0) w0 histE
        = [(true, true), (false, false), (false, false), (false, false), (true, true), (false, false), (true, true)] :=
  ⟨by decide +kernel, by decide +kernel⟩

theorem histE_applied :
    Sim (lockSteps (nat w0) w0 histE).1 (lockSteps (nat w0) w0 histE).2
    ∧ ∀ p ∈ lockOutcomes (nat w0) w0 histE, p.1 = p.2 :=
  twin_history_steps_start w0 histE w0_base.1 w0_base.2.1 w0_base.2.2 (allOKSb_sound _ _ histE_nonvacuous.1)

/-- what the theorem predicts, observed: evaluated by the kernel, the lock-step run of `histA` ends with equal
    positions, vAMMs and balances of the five accounts, although the two ledgers list the accounts in a different
    order -/
def observe (r : Except Err (World × World)) : Option (Bool × Bool × List (Nat × Nat) × Bool) :=
  match r with
  | .ok (wn, wc) =>
    some (decide (wn.engine.positions = wc.engine.positions), decide (wn.vamms = wc.vamms),
      [101, ENGINE, IFUND, FEEPOOL].map (fun a => (wn.ledger.balance a, wc.ledger.balance a)),
      decide (wn.ledger.bal = wc.ledger.bal))
  | .error _ => none

set_option maxRecDepth 100000 in
theorem histA_observed :
    observe (lockRun (nat w0) w0 histA)
      = some (true, true, [(999399998, 999399998), (2, 2), (5000400000, 5000400000), (200000, 200000)], false) := by
  decide +kernel

end Witness

end Perp.Props.SatGHistory
