/-
  G9 helpers (C03, second sentence): every collateral transfer of an engine transaction runs
  between the sender, the engine, the insurance fund and the fee pool.
-/
import Perp.Model.World
import Perp.Lemmas.Basic
import Perp.Props.Dispatch
import Perp.Props.EngineGuards
import Perp.Props.EngineMoney
import Perp.Props.WorldInv
import Perp.Props.G9Restr

namespace Perp.Props.G9Perm
open Perp Perp.World Perp.Engine
open Perp.Props.Dispatch Perp.Props.EngineMoney Perp.Props.WorldInv
open Perp.Props.EngineGuards (Post Post_error Post_exmap openPosition_msgs closePosition_msgs transferFees_spec)

/-- the accounts an engine transaction by `s` under configuration `c` may move collateral between -/
def Perm (s : Nat) (c : Config) (a : Nat) : Prop :=
  a = s ∨ a = ENGINE ∨ a = IFUND ∨ a = c.insuranceFund ∨ a = c.feePool

/-- the accounts (other than the dispatching contract) a message moves collateral between -/
def ends : Msg → List Nat
  | .tokenTransfer to _ => [to]
  | .tokenTransferFrom owner to _ => [owner, to]
  | .bankSend to _ => [to]
  | .ifWithdraw _ => [IFUND]
  | _ => []

def MP (A : Nat → Prop) (m : SubMsg) : Prop := ∀ a ∈ ends m.msg, A a

def All (P : SubMsg → Prop) (l : List SubMsg) : Prop := ∀ m ∈ l, P m

theorem All_nil {P : SubMsg → Prop} : All P [] := by intro m hm; cases hm
theorem All_cons {P : SubMsg → Prop} {m : SubMsg} {l : List SubMsg} (h1 : P m) (h2 : All P l) : All P (m :: l) := by
  intro x hx
  rcases List.mem_cons.1 hx with rfl | hx
  · exact h1
  · exact h2 x hx
theorem All_append {P : SubMsg → Prop} {a b : List SubMsg} (h1 : All P a) (h2 : All P b) : All P (a ++ b) := by
  intro x hx
  rcases List.mem_append.1 hx with hx | hx
  · exact h1 x hx
  · exact h2 x hx

/-- what has happened so far is permitted: the log, and the balances of everybody else -/
def WP (A : Nat → Prop) (bal0 : Nat → Nat) (w : World) : Prop :=
  (∀ x ∈ w.log, A x.1 ∧ A x.2.1) ∧ (∀ a, ¬ A a → w.ledger.balance a = bal0 a)

/-! ### ledger frames -/

theorem tokenTransfer_frame (g g' : Ledger) (src dst amt a : Nat) (h : Ledger.tokenTransfer g src dst amt = .ok g')
    (h1 : a ≠ src) (h2 : a ≠ dst) : g'.balance a = g.balance a := by
  unfold Ledger.tokenTransfer at h
  split at h
  · cases h
  · exact move_frame _ _ _ _ _ _ h h1 h2

theorem bankSend_frame (g g' : Ledger) (src dst amt a : Nat) (h : Ledger.bankSend g src dst amt = .ok g')
    (h1 : a ≠ src) (h2 : a ≠ dst) : g'.balance a = g.balance a := by
  unfold Ledger.bankSend at h
  split at h
  · cases h
  · exact move_frame _ _ _ _ _ _ h h1 h2

theorem tokenTransferFrom_frame (g g' : Ledger) (owner dst amt a : Nat)
    (h : Ledger.tokenTransferFrom g owner dst amt = .ok g')
    (h1 : a ≠ owner) (h2 : a ≠ dst) : g'.balance a = g.balance a := by
  unfold Ledger.tokenTransferFrom at h
  split at h
  · cases h
  · split at h
    · cases h
    · have := move_frame _ g' owner dst amt a h h1 h2
      exact this

/-! ### one message -/

theorem WP_step (A : Nat → Prop) (bal0 : Nat → Nat) (w : World) (g : Ledger) (x y amt : Nat)
    (hw : WP A bal0 w) (hx : A x) (hy : A y)
    (hfr : ∀ a, a ≠ x → a ≠ y → g.balance a = w.ledger.balance a) :
    WP A bal0 { w with ledger := g, log := w.log ++ [(x, y, amt)] } := by
  refine ⟨fun z hz => ?_, fun a ha => ?_⟩
  · rcases List.mem_append.1 hz with hz | hz
    · exact hw.1 z hz
    · simp only [List.mem_singleton] at hz
      subst hz
      exact ⟨hx, hy⟩
  · show g.balance a = bal0 a
    rw [hfr a (fun h => ha (h ▸ hx)) (fun h => ha (h ▸ hy))]
    exact hw.2 a ha

/-- a plain transfer message by `c` -/
theorem execMsg_WP_xfer (A : Nat → Prop) (bal0 : Nat → Nat) (fuel : Nat) (w w1 : World) (c : Nat) (m : Msg) (ev : Ev)
    (h : execMsg fuel w c m = .ok (w1, ev))
    (hm : (∃ to amt, m = .tokenTransfer to amt) ∨ (∃ to amt, m = .bankSend to amt)
          ∨ (∃ o to amt, m = .tokenTransferFrom o to amt))
    (hc : A c) (he : ∀ a ∈ ends m, A a) (hw : WP A bal0 w) : WP A bal0 w1 := by
  cases fuel with
  | zero => unfold execMsg at h; cases h
  | succ fuel =>
    unfold execMsg at h
    rcases hm with ⟨to, amt, rfl⟩ | ⟨to, amt, rfl⟩ | ⟨o, to, amt, rfl⟩
    · simp at h
      obtain ⟨g, hg, rfl, _⟩ := h
      exact WP_step A bal0 w g c to amt hw hc (he to (by simp [ends]))
        (fun a h1 h2 => tokenTransfer_frame _ _ _ _ _ _ hg h1 h2)
    · simp at h
      obtain ⟨g, hg, rfl, _⟩ := h
      exact WP_step A bal0 w g c to amt hw hc (he to (by simp [ends]))
        (fun a h1 h2 => bankSend_frame _ _ _ _ _ _ hg h1 h2)
    · try simp only [] at h
      split at h
      · cases h
      simp at h
      obtain ⟨g, hg, rfl, _⟩ := h
      exact WP_step A bal0 w g o to amt hw (he o (by simp [ends])) (he to (by simp [ends]))
        (fun a h1 h2 => tokenTransferFrom_frame _ _ _ _ _ _ hg h1 h2)

theorem execSubs_single_never (fuel : Nat) (w w' : World) (c : Nat) (s : SubMsg)
    (h : execSubs fuel w c [s] = .ok w') (hr : s.replyOn = .never) :
    ∃ f' ev, execMsg f' w c s.msg = .ok (w', ev) := by
  cases fuel with
  | zero => unfold execSubs at h; cases h
  | succ fuel =>
    obtain ⟨w1, ev, hx, _, hno⟩ := execSubs_cons_ok fuel w w' c s [] h
    have h2 := hno (by rw [hr]; simp)
    rw [execSubs_nil _ _ _ _ h2]
    exact ⟨fuel, ev, hx⟩

/-- any message dispatched by a permitted contract whose other endpoints are permitted -/
theorem execMsg_WP (A : Nat → Prop) (bal0 : Nat → Nat) (fuel : Nat) (w w1 : World) (c : Nat) (m : Msg) (ev : Ev)
    (h : execMsg fuel w c m = .ok (w1, ev))
    (hc : A c) (he : ∀ a ∈ ends m, A a) (hw : WP A bal0 w) : WP A bal0 w1 := by
  have hv : ((∃ a d x l g, m = .vammSwapInput a d x l g) ∨ (∃ a d x l, m = .vammSwapOutput a d x l)
          ∨ (∃ a, m = .vammSettle a) ∨ (∃ a o, m = .vammSetOpen a o)) → WP A bal0 w1 := by
    intro hm
    obtain ⟨h1, h2⟩ := execMsg_vamm_ledger fuel w w1 c m ev h hm
    unfold WP
    rw [h1, h2]
    exact hw
  cases m with
  | vammSwapInput a d x l g => exact hv (Or.inl ⟨_, _, _, _, _, rfl⟩)
  | vammSwapOutput a d x l => exact hv (Or.inr (Or.inl ⟨_, _, _, _, rfl⟩))
  | vammSettle a => exact hv (Or.inr (Or.inr (Or.inl ⟨_, rfl⟩)))
  | vammSetOpen a o => exact hv (Or.inr (Or.inr (Or.inr ⟨_, _, rfl⟩)))
  | tokenTransfer to amt => exact execMsg_WP_xfer A bal0 fuel w w1 c _ ev h (Or.inl ⟨_, _, rfl⟩) hc he hw
  | bankSend to amt => exact execMsg_WP_xfer A bal0 fuel w w1 c _ ev h (Or.inr (Or.inl ⟨_, _, rfl⟩)) hc he hw
  | tokenTransferFrom o to amt =>
    exact execMsg_WP_xfer A bal0 fuel w w1 c _ ev h (Or.inr (Or.inr ⟨_, _, _, rfl⟩)) hc he hw
  | ifWithdraw amt =>
    have hI : A IFUND := he IFUND (by simp [ends])
    cases fuel with
    | zero => unfold execMsg at h; cases h
    | succ fuel =>
      unfold execMsg at h
      try simp only [] at h
      split at h
      · cases h
      split at h
      · cases h
      rename_i hs
      have hs' : c = w.ifund.engine := by simpa using hs
      simp at h
      obtain ⟨w2, hsub, rfl, _⟩ := h
      obtain ⟨f', ev', hx⟩ := execSubs_single_never _ _ _ _ _ hsub (by split <;> rfl)
      refine execMsg_WP_xfer A bal0 f' w w2 IFUND _ ev' hx ?_ hI ?_ hw
      · split
        · exact Or.inr (Or.inl ⟨_, _, rfl⟩)
        · exact Or.inl ⟨_, _, rfl⟩
      · intro a ha
        have : a = w.ifund.engine := by
          split at ha <;> simpa [ends] using ha
        rw [this, ← hs']
        exact hc

/-! ### message shapes -/

theorem mp_transferMsg (A : Nat → Prop) (cfg : Config) (r a : Nat) (hr : A r) : MP A (transferMsg cfg r a) := by
  intro x hx
  unfold transferMsg at hx
  split at hx <;> simp [ends] at hx <;> subst hx <;> exact hr

theorem mp_transferFromMsg (A : Nat → Prop) (cfg : Config) (o r a : Nat) (ho : A o) (hr : A r) :
    MP A (transferFromMsg cfg o r a) := by
  intro x hx
  unfold transferFromMsg at hx
  split at hx <;> simp [ends] at hx
  · subst hx; exact hr
  · rcases hx with rfl | rfl
    · exact ho
    · exact hr

theorem mp_ifWithdrawMsg (A : Nat → Prop) (a : Nat) (hI : A IFUND) : MP A (ifWithdrawMsg a) := by
  intro x hx
  simp [ifWithdrawMsg, ends] at hx
  subst hx; exact hI

theorem mp_swapIn (A : Nat → Prop) (v : Nat) (sd : Side) (n l : Nat) (g : Bool) (id : Nat) :
    MP A (swapInputMsg v sd n l g id) := by
  intro x hx; simp [swapInputMsg, ends] at hx

theorem mp_swapOut (A : Nat → Prop) (v : Nat) (sd : Side) (n l id : Nat) :
    MP A (swapOutputMsg v sd n l id) := by
  intro x hx; simp [swapOutputMsg, ends] at hx

theorem mp_settle (A : Nat → Prop) (v id : Nat) (r : ReplyOn) : MP A ⟨.vammSettle v, id, r⟩ := by
  intro x hx; simp [ends] at hx

macro "allmp" : tactic => `(tactic|
  repeat' first
    | exact All_nil
    | assumption
    | exact mp_swapIn _ _ _ _ _ _ _
    | exact mp_swapOut _ _ _ _ _ _
    | exact mp_settle _ _ _ _
    | (apply mp_ifWithdrawMsg; assumption)
    | (apply mp_transferMsg; assumption)
    | (apply mp_transferFromMsg <;> assumption)
    | (with_reducible apply All_append)
    | (with_reducible apply All_cons)
    | split)

theorem withdraw_mp (A : Nat → Prop) (q : Q) (e : E) (st : State) (r a p : Nat) (x : State × List SubMsg)
    (h : unwrap (withdraw q e st r a p) = .ok x) (hI : A IFUND) (hr : A r) : All (MP A) x.2 := by
  rw [EngineMoney.unwrap_ok] at h
  obtain ⟨st', msgs⟩ := x
  obtain ⟨bal, _, hm⟩ := withdraw_spec q e st st' r a p msgs h
  rcases hm with ⟨_, _, _, _, rfl⟩ | ⟨_, _, rfl⟩ <;> allmp

theorem transferFees_mp (A : Nat → Prop) (q : Q) (e : E) (src v N : Nat) (x : List SubMsg × Nat × Nat)
    (h : unwrap (transferFees q e src v N) = .ok x) (hs : A src) (hif : A e.cfg.insuranceFund)
    (hfp : A e.cfg.feePool) : All (MP A) x.1 := by
  rw [EngineMoney.unwrap_ok] at h
  obtain ⟨msgs, sp, tl⟩ := x
  obtain ⟨_, rfl⟩ := transferFees_spec q e src v N msgs sp tl h
  allmp

theorem transferToIF_mp (A : Nat → Prop) (q : Q) (e : E) (a : Nat) (m : SubMsg)
    (h : transferToInsuranceFund q e a = .ok m) (hif : A e.cfg.insuranceFund) : MP A m := by
  unfold transferToInsuranceFund at h
  peel h as bal, hb
  simp only [pure_ok_iff] at h
  subst h
  exact mp_transferMsg _ _ _ _ hif

/-- register the facts of the money helpers that ran on this path -/
macro "mp_hyps" : tactic => `(tactic|
  (try (have hw__ := withdraw_mp _ _ _ _ _ _ _ _ ‹unwrap (withdraw _ _ _ _ _ _) = Except.ok _›
          (by assumption) (by assumption))
   try (have hf__ := transferFees_mp _ _ _ _ _ _ _ ‹unwrap (transferFees _ _ _ _ _) = Except.ok _›
          (by assumption) (by assumption) (by assumption))))

/-! ### reply handlers -/

section replies
set_option linter.unusedSectionVars false
variable (A : Nat → Prop) (hE : A ENGINE_ADDR) (hI : A IFUND)
include hE hI

set_option maxHeartbeats 800000 in
theorem updatePositionReply_mp (q : Q) (e : E) (env : Env) (i o id : Nat)
    (hsw : ∀ sw, e.tmpSwap = some sw → A sw.trader) (hif : A e.cfg.insuranceFund) (hfp : A e.cfg.feePool) :
    Post (fun r => All (MP A) r.2) (updatePositionReply q e env i o id) := by
  cases hs : e.tmpSwap with
  | none => unfold updatePositionReply; rw [hs]; post_walk [skip]
  | some sw =>
    have hT : A sw.trader := hsw sw hs
    unfold updatePositionReply
    rw [hs]
    post_walk [(mp_hyps; allmp)]

theorem reversePositionReply_mp (q : Q) (e : E) (env : Env) (o : Nat)
    (hsw : ∀ sw, e.tmpSwap = some sw → A sw.trader) (hif : A e.cfg.insuranceFund) (hfp : A e.cfg.feePool) :
    Post (fun r => All (MP A) r.2) (reversePositionReply q e env o) := by
  cases hs : e.tmpSwap with
  | none => unfold reversePositionReply; rw [hs]; post_walk [skip]
  | some sw =>
    have hT : A sw.trader := hsw sw hs
    unfold reversePositionReply
    rw [hs]
    post_walk [(mp_hyps; allmp)]

theorem closePositionReply_mp (q : Q) (e : E) (env : Env) (o : Nat)
    (hsw : ∀ sw, e.tmpSwap = some sw → A sw.trader) (hif : A e.cfg.insuranceFund) (hfp : A e.cfg.feePool) :
    Post (fun r => All (MP A) r.2) (closePositionReply q e env o) := by
  cases hs : e.tmpSwap with
  | none => unfold closePositionReply; rw [hs]; post_walk [skip]
  | some sw =>
    have hT : A sw.trader := hsw sw hs
    unfold closePositionReply
    rw [hs]
    post_walk [(mp_hyps; allmp)]

theorem partialClosePositionReply_mp (q : Q) (e : E) (env : Env) (i o : Nat)
    (hsw : ∀ sw, e.tmpSwap = some sw → A sw.trader) (hif : A e.cfg.insuranceFund) (hfp : A e.cfg.feePool) :
    Post (fun r => All (MP A) r.2) (partialClosePositionReply q e env i o) := by
  cases hs : e.tmpSwap with
  | none => unfold partialClosePositionReply; rw [hs]; post_walk [skip]
  | some sw =>
    have hT : A sw.trader := hsw sw hs
    unfold partialClosePositionReply
    rw [hs]
    post_walk [(mp_hyps; allmp)]

theorem liquidateReply_mp (q : Q) (e : E) (env : Env) (o : Nat)
    (hl : ∀ l, e.tmpLiq = some l → A l) (hif : A e.cfg.insuranceFund) :
    Post (fun r => All (MP A) r.2) (liquidateReply q e env o) := by
  unfold liquidateReply realizeBadDebt
  post_walk [(have hT := hl _ ‹e.tmpLiq = some _›; mp_hyps; allmp)]

theorem partialLiquidationReply_mp (q : Q) (e : E) (env : Env) (i o : Nat)
    (hl : ∀ l, e.tmpLiq = some l → A l) (hif : A e.cfg.insuranceFund) :
    Post (fun r => All (MP A) r.2) (partialLiquidationReply q e env i o) := by
  unfold partialLiquidationReply
  post_walk [(have hT := hl _ ‹e.tmpLiq = some _›; mp_hyps; allmp)]

theorem payFundingReply_mp (q : Q) (e : E) (env : Env) (pf : Integer) (v : Nat) (hif : A e.cfg.insuranceFund) :
    Post (fun r => All (MP A) r.2) (payFundingReply q e env pf v) := by
  unfold payFundingReply
  post_walk [(
    have hc := EngineGuards.appendCum_cfg _ _ _ _ ‹appendCum _ _ _ = Except.ok _›
    try (have ht__ := transferToIF_mp A _ _ _ _ ‹transferToInsuranceFund _ _ _ = Except.ok _› (by rw [hc]; exact hif))
    allmp)]

end replies

/-! ### execute handlers -/

theorem withdraw_mp' (A : Nat → Prop) (q : Q) (e : E) (st st' : State) (r a p : Nat) (msgs : List SubMsg)
    (h : withdraw q e st r a p = .ok (st', msgs)) (hI : A IFUND) (hr : A r) : All (MP A) msgs :=
  withdraw_mp A q e st r a p (st', msgs) ((EngineMoney.unwrap_ok _ _).2 h) hI hr

theorem partialLiquidation_mp (A : Nat → Prop) (q : Q) (e : E) (v t l : Nat) :
    Post (fun r => MP A r.2) (partialLiquidation q e v t l) := by
  unfold partialLiquidation
  post_walk [exact mp_swapOut _ _ _ _ _ _]

theorem liquidate_mp (A : Nat → Prop) (q : Q) (e : E) (env : Env) (s v t l : Nat) :
    Post (fun r => All (MP A) r.2) (liquidate q e env s v t l) := by
  unfold liquidate internalClosePosition
  post_walk [(
    first
      | exact All_cons (mp_swapOut _ _ _ _ _ _) All_nil
      | exact All_cons (partialLiquidation_mp A _ _ _ _ _ _ ‹partialLiquidation _ _ _ _ _ = Except.ok _›) All_nil)]

/-! ### flows -/

/-- what the engine's records look like while a sub-message with reply id `id` is in flight:
    the configuration is the transaction's, and whoever the reply will pay or pull from is the sender -/
def Pend (s : Nat) (c0 : Config) (id : Nat) (e : E) : Prop :=
  e.cfg = c0 ∧ (if id = 6 ∨ id = 7 then e.tmpLiq = some s else ∀ sw, e.tmpSwap = some sw → sw.trader = s)

theorem Pend_swap {s : Nat} {c0 : Config} {id : Nat} {e : E} (n : Nat) (hn : id = n) (hid : n ≠ 6 ∧ n ≠ 7)
    (hc : e.cfg = c0) (h : ∀ sw, e.tmpSwap = some sw → sw.trader = s) : Pend s c0 id e := by
  subst hn
  refine ⟨hc, ?_⟩
  rw [if_neg (by omega)]
  exact h

theorem Pend_liq {s : Nat} {c0 : Config} {id : Nat} {e : E} (hid : id = 6 ∨ id = 7) (hc : e.cfg = c0)
    (h : e.tmpLiq = some s) : Pend s c0 id e := by
  refine ⟨hc, ?_⟩
  rw [if_pos hid]
  exact h

theorem Pend.swap {s : Nat} {c0 : Config} {id : Nat} {e : E} (hp : Pend s c0 id e) (hid : id ≠ 6 ∧ id ≠ 7) :
    ∀ sw, e.tmpSwap = some sw → sw.trader = s := by
  have := hp.2
  rw [if_neg (by omega)] at this
  exact this

theorem Pend.liq {s : Nat} {c0 : Config} {id : Nat} {e : E} (hp : Pend s c0 id e) (hid : id = 6 ∨ id = 7) :
    e.tmpLiq = some s := by
  have := hp.2
  rw [if_pos hid] at this
  exact this

/-- the pending sub-messages are all fire-and-forget, or end in exactly one swap / settle whose reply
    is covered by `Pend` -/
def J (s : Nat) (c0 : Config) (e : E) (subs : List SubMsg) : Prop :=
  AllErr subs ∨ ∃ pre last, subs = pre ++ [last] ∧ AllErr pre ∧ last.replyOn = .always ∧ Pend s c0 last.id e

theorem reply_J (s : Nat) (c0 : Config) (q : Q) (e e2 : E) (env : Env) (id : Nat) (ev : Ev) (subs2 : List SubMsg)
    (hp : Pend s c0 id e) (h : replyOk q e env id ev = .ok (e2, subs2)) :
    J s c0 e2 subs2 ∧ All (MP (Perm s c0)) subs2 := by
  have hE : Perm s c0 ENGINE_ADDR := Or.inr (Or.inl rfl)
  have hI : Perm s c0 IFUND := Or.inr (Or.inr (Or.inl rfl))
  have hif : Perm s c0 e.cfg.insuranceFund := by rw [hp.1]; exact Or.inr (Or.inr (Or.inr (Or.inl rfl)))
  have hfp : Perm s c0 e.cfg.feePool := by rw [hp.1]; exact Or.inr (Or.inr (Or.inr (Or.inr rfl)))
  have hsw : ∀ {n : Nat}, id = n → (n ≠ 6 ∧ n ≠ 7) → ∀ sw, e.tmpSwap = some sw → Perm s c0 sw.trader := by
    intro n hn hid sw hs
    subst hn
    rw [hp.swap hid sw hs]
    exact Or.inl rfl
  have hlq : ∀ {n : Nat}, id = n → (n = 6 ∨ n = 7) → ∀ l, e.tmpLiq = some l → Perm s c0 l := by
    intro n hn hid l hl
    subst hn
    rw [hp.liq hid] at hl
    cases hl
    exact Or.inl rfl
  rcases replyOk_id q e env id ev _ h with ⟨rfl, pf, v, rfl⟩ | ⟨hid, o, rfl⟩
  · have h' : payFundingReply q e env pf v = .ok (e2, subs2) := h
    exact ⟨Or.inl (payFundingReply_res _ _ _ _ _ _ h').2.2.2, payFundingReply_mp _ hE hI _ _ _ _ _ hif _ h'⟩
  · rcases hid with rfl | rfl | rfl | rfl | rfl | rfl | rfl
    · have h' : updatePositionReply q e env _ _ REPLY_INCREASE = .ok (e2, subs2) := h
      exact ⟨Or.inl (updatePositionReply_res _ _ _ _ _ _ _ h').2.2.2,
        updatePositionReply_mp _ hE hI _ _ _ _ _ _ (hsw rfl (by decide)) hif hfp _ h'⟩
    · have h' : updatePositionReply q e env _ _ REPLY_DECREASE = .ok (e2, subs2) := h
      exact ⟨Or.inl (updatePositionReply_res _ _ _ _ _ _ _ h').2.2.2,
        updatePositionReply_mp _ hE hI _ _ _ _ _ _ (hsw rfl (by decide)) hif hfp _ h'⟩
    · have h' : reversePositionReply q e env _ = .ok (e2, subs2) := h
      refine ⟨?_, reversePositionReply_mp _ hE hI _ _ _ _ (hsw rfl (by decide)) hif hfp _ h'⟩
      obtain ⟨_, pre, last, h2, h3, h4⟩ := reversePositionReply_res _ _ _ _ _ h'
      dsimp only at h2 h4
      rcases h4 with ⟨_, _, h7⟩ | ⟨h5, h6⟩
      · left
        rw [h2]
        exact AllErr_append h3 (AllErr_cons h7 AllErr_nil)
      · refine Or.inr ⟨pre, last, h2, h3, h5, ?_⟩
        rw [h6]
        refine Pend_swap 1 rfl (by decide) ((EngineGuards.replyOk_cfg _ _ _ _ _ _ _ h).trans hp.1) ?_
        intro sw' hsw'
        obtain ⟨sw, hs, heq⟩ := (replyOk_others _ _ _ _ _ _ _ h).2 sw' hsw'
        rw [heq]
        exact hp.swap (by decide) sw hs
    · have h' : closePositionReply q e env _ = .ok (e2, subs2) := h
      exact ⟨Or.inl (closePositionReply_res _ _ _ _ _ h').2.2.2,
        closePositionReply_mp _ hE hI _ _ _ _ (hsw rfl (by decide)) hif hfp _ h'⟩
    · have h' : partialClosePositionReply q e env _ _ = .ok (e2, subs2) := h
      exact ⟨Or.inl (partialClosePositionReply_res _ _ _ _ _ _ h').2.2.2,
        partialClosePositionReply_mp _ hE hI _ _ _ _ _ (hsw rfl (by decide)) hif hfp _ h'⟩
    · have h' : liquidateReply q e env _ = .ok (e2, subs2) := h
      exact ⟨Or.inl (liquidateReply_res _ _ _ _ _ h').2.2.2,
        liquidateReply_mp _ hE hI _ _ _ _ (hlq rfl (by decide)) hif _ h'⟩
    · have h' : partialLiquidationReply q e env _ _ = .ok (e2, subs2) := h
      exact ⟨Or.inl (partialLiquidationReply_res _ _ _ _ _ _ h').2.2.2,
        partialLiquidationReply_mp _ hE hI _ _ _ _ _ (hlq rfl (by decide)) hif _ h'⟩

/-- every `execute` (other than a configuration update) starts a flow that pays only permitted accounts -/
theorem exec_J (q : Q) (e e1 : E) (env : Env) (s : Nat) (f : Funds) (m : ExecMsg) (subs : List SubMsg)
    (hinv : NoResidue e) (hcfg : ∀ u, m ≠ .updateConfig u) (h : execute q e env s f m = .ok (e1, subs)) :
    J s e.cfg e1 subs ∧ All (MP (Perm s e.cfg)) subs := by
  have hE : Perm s e.cfg ENGINE_ADDR := Or.inr (Or.inl rfl)
  have hI : Perm s e.cfg IFUND := Or.inr (Or.inr (Or.inl rfl))
  have hS : Perm s e.cfg s := Or.inl rfl
  have hc := EngineGuards.execute_cfg q e e1 env s f m subs hcfg h
  unfold execute at h
  cases m with
  | updateConfig u => exact absurd rfl (hcfg u)
  | updatePauser p =>
    obtain ⟨e1', h1, h2⟩ := (EngineGuards.exmap_ok _ _ _).1 h
    cases h2
    exact ⟨Or.inl AllErr_nil, All_nil⟩
  | addWhitelist a =>
    obtain ⟨e1', h1, h2⟩ := (EngineGuards.exmap_ok _ _ _).1 h
    cases h2
    exact ⟨Or.inl AllErr_nil, All_nil⟩
  | removeWhitelist a =>
    obtain ⟨e1', h1, h2⟩ := (EngineGuards.exmap_ok _ _ _).1 h
    cases h2
    exact ⟨Or.inl AllErr_nil, All_nil⟩
  | setPause p =>
    obtain ⟨e1', h1, h2⟩ := (EngineGuards.exmap_ok _ _ _).1 h
    cases h2
    exact ⟨Or.inl AllErr_nil, All_nil⟩
  | openPosition v sd mg l b =>
    obtain ⟨_, ⟨tmp, h2, h3⟩, _⟩ := openPosition_frame _ _ _ _ _ _ _ _ _ _ _ h
    have hT : ∀ sw, e1.tmpSwap = some sw → sw.trader = s := by
      intro sw hsw; rw [h2] at hsw; cases hsw; exact h3
    rcases openPosition_msgs _ _ _ _ _ _ _ _ _ _ _ _ h with rfl | rfl | rfl
    · exact ⟨Or.inr ⟨[], _, rfl, AllErr_nil, rfl, Pend_swap 1 rfl (by decide) hc hT⟩, All_cons (mp_swapIn _ _ _ _ _ _ _) All_nil⟩
    · exact ⟨Or.inr ⟨[], _, rfl, AllErr_nil, rfl, Pend_swap 2 rfl (by decide) hc hT⟩, All_cons (mp_swapIn _ _ _ _ _ _ _) All_nil⟩
    · exact ⟨Or.inr ⟨[], _, rfl, AllErr_nil, rfl, Pend_swap 3 rfl (by decide) hc hT⟩, All_cons (mp_swapOut _ _ _ _ _ _) All_nil⟩
  | closePosition v l =>
    obtain ⟨_, ⟨tmp, h2, h3⟩, _⟩ := closePosition_frame _ _ _ _ _ _ _ h
    have hT : ∀ sw, e1.tmpSwap = some sw → sw.trader = s := by
      intro sw hsw; rw [h2] at hsw; cases hsw; exact h3
    rcases closePosition_msgs _ _ _ _ _ _ _ _ h with rfl | ⟨n, rfl, _⟩
    · exact ⟨Or.inr ⟨[], _, rfl, AllErr_nil, rfl, Pend_swap 4 rfl (by decide) hc hT⟩, All_cons (mp_swapOut _ _ _ _ _ _) All_nil⟩
    · exact ⟨Or.inr ⟨[], _, rfl, AllErr_nil, rfl, Pend_swap 5 rfl (by decide) hc hT⟩, All_cons (mp_swapIn _ _ _ _ _ _ _) All_nil⟩
  | liquidate v t l =>
    have hmp := liquidate_mp (Perm s e.cfg) _ _ _ _ _ _ _ _ h
    obtain ⟨_, _, _, h4, mm, h5, h6, h7⟩ := liquidate_frame _ _ _ _ _ _ _ _ h
    dsimp only at h4 h5 hmp
    subst h5
    refine ⟨Or.inr ⟨[], mm, rfl, AllErr_nil, h6, Pend_liq ?_ hc h4⟩, hmp⟩
    rcases h7 with h7 | h7 <;> rw [h7]
    · exact Or.inl rfl
    · exact Or.inr rfl
  | payFunding v =>
    obtain ⟨h1, h2⟩ := payFunding_frame _ _ _ _ h
    dsimp only at h1 h2
    subst h1 h2
    refine ⟨Or.inr ⟨[], _, rfl, AllErr_nil, rfl, Pend_swap 8 rfl (by decide) rfl ?_⟩, All_cons (mp_settle _ _ _ _) All_nil⟩
    intro sw hsw
    rw [hinv.1] at hsw
    cases hsw
  | depositMargin v a =>
    obtain ⟨_, _, _, _, h5⟩ := depositMargin_frame _ _ _ _ _ _ _ h
    refine ⟨Or.inl h5, ?_⟩
    obtain ⟨_, _, _, hn1, hn2⟩ := depositMargin_spec _ _ _ _ _ _ _ _ h
    cases hn : e.cfg.native with
    | true => rw [(hn1 hn).1]; exact All_nil
    | false => rw [hn2 hn]; exact All_cons (mp_transferFromMsg _ _ _ _ _ hS hE) All_nil
  | withdrawMargin v a =>
    obtain ⟨_, _, _, _, h5⟩ := withdrawMargin_frame _ _ _ _ _ _ _ h
    refine ⟨Or.inl h5, ?_⟩
    obtain ⟨rm, fc, st1, _, _, _, _, hw, _⟩ := withdrawMargin_spec _ _ _ _ _ _ _ _ h
    exact withdraw_mp' _ _ _ _ _ _ _ _ _ hw hI hS

/-- running a well-formed flow keeps the log and everybody else's balance permitted -/
theorem flow_WP (s : Nat) (c0 : Config) (bal0 : Nat → Nat) : ∀ (fuel : Nat) (w w' : World) (subs : List SubMsg),
    execSubs fuel w ENGINE subs = .ok w' → J s c0 w.engine subs → All (MP (Perm s c0)) subs →
    WP (Perm s c0) bal0 w → WP (Perm s c0) bal0 w' := by
  intro fuel
  induction fuel with
  | zero => intro w w' subs h; unfold execSubs at h; cases h
  | succ fuel ih =>
    intro w w' subs h hJ hall hw
    cases subs with
    | nil => rw [execSubs_nil _ _ _ _ h]; exact hw
    | cons m rest =>
      obtain ⟨w1, ev, hx, hyes, hno⟩ := execSubs_cons_ok fuel w w' ENGINE m rest h
      have hf := ((execMsg_engine_frame fuel).1 _ _ _ _ _ hx).1
      have hw1 : WP (Perm s c0) bal0 w1 :=
        execMsg_WP _ bal0 fuel w w1 ENGINE m.msg ev hx (Or.inr (Or.inl rfl)) (hall m List.mem_cons_self) hw
      have hrest : All (MP (Perm s c0)) rest := fun x hx => hall x (List.mem_cons_of_mem _ hx)
      rcases hJ with ha | ⟨pre, last, hl, hpre, hlast, hpend⟩
      · obtain ⟨h1, h2⟩ := AllErr_tail ha
        exact ih _ _ _ (hno (not_reply_of_err h1)) (Or.inl h2) hrest hw1
      · cases pre with
        | nil =>
          simp only [List.nil_append, List.cons.injEq] at hl
          obtain ⟨rfl, rfl⟩ := hl
          obtain ⟨_, e2, subs2, w3, hrep, hs2, hrest'⟩ := hyes (Or.inl hlast)
          rw [hf] at hrep
          obtain ⟨hJ2, hall2⟩ := reply_J s c0 _ _ _ _ _ _ _ hpend hrep
          have h3 := ih _ _ _ hs2 hJ2 hall2 hw1
          rw [execSubs_nil _ _ _ _ hrest']
          exact h3
        | cons p pre' =>
          simp only [List.cons_append, List.cons.injEq] at hl
          obtain ⟨rfl, rfl⟩ := hl
          obtain ⟨h1, h2⟩ := AllErr_tail hpre
          exact ih _ _ _ (hno (not_reply_of_err h1)) (Or.inr ⟨pre', last, rfl, h2, hlast, hf ▸ hpend⟩) hrest hw1

/-- C03, second sentence, in one invariant: after an engine transaction every logged transfer has both
    endpoints permitted and nobody else's balance moved -/
theorem engine_tx_WP (w w' : World) (env : Env) (s : Nat) (f : Funds) (m : ExecMsg)
    (hinv : NoResidue w.engine) (hcfg : ∀ u, m ≠ .updateConfig u)
    (h : applyTx w env s f (.engine m) = .ok w') :
    WP (Perm s w.engine.cfg) w.ledger.balance w' := by
  have hw0 : WP (Perm s w.engine.cfg) w.ledger.balance { w with env := env, log := [] } :=
    ⟨fun x hx => (by cases hx), fun _ _ => rfl⟩
  unfold applyTx at h
  dsimp only at h
  split at h
  · simp at h
    obtain ⟨w1, hg, e', subs, hex, h⟩ := h
    obtain ⟨⟨w1', ev⟩, hg', rfl⟩ := (Dispatch.exmap_ok _ _ _).1 hg
    have a1 : w1'.engine = w.engine := ((execMsg_engine_frame FUEL).1 _ _ _ _ _ hg').1
    have hw1 : WP (Perm s w.engine.cfg) w.ledger.balance w1' :=
      execMsg_WP _ _ FUEL _ w1' s _ ev hg' (Or.inl rfl)
        (by intro a ha; simp [ends] at ha; subst ha; exact Or.inr (Or.inl rfl)) hw0
    dsimp only at hex h
    rw [a1] at hex
    obtain ⟨hJ, hall⟩ := exec_J _ _ _ _ _ _ _ _ hinv hcfg hex
    exact flow_WP s w.engine.cfg _ FUEL _ w' subs h hJ hall hw1
  · simp at h
    obtain ⟨e', subs, hex, h⟩ := h
    obtain ⟨hJ, hall⟩ := exec_J _ _ _ _ _ _ _ _ hinv hcfg hex
    exact flow_WP s w.engine.cfg _ FUEL _ w' subs h hJ hall hw0

/-! ### the two pools -/

theorem ifWithdraw_frame (w w' : World) (env : Env) (s : Nat) (f : Funds) (amt : Nat)
    (h : applyTx w env s f (.ifWithdraw amt) = .ok w') :
    ∀ a, a ≠ IFUND → a ≠ w.ifund.engine → w'.ledger.balance a = w.ledger.balance a := by
  unfold applyTx at h
  dsimp only [] at h
  rw [Dispatch.exmap_ok] at h
  obtain ⟨⟨w1, ev⟩, hr, rfl⟩ := h
  have hs : s = w.ifund.engine := EngineGuards.execMsg_ifWithdraw _ { w with env := env, log := [] } _ _ _ hr
  have hw0 : WP (fun a => a = IFUND ∨ a = w.ifund.engine) w.ledger.balance { w with env := env, log := [] } :=
    ⟨fun x hx => (by cases hx), fun _ _ => rfl⟩
  have := execMsg_WP _ _ _ _ _ _ _ _ hr (Or.inr hs) (by intro a ha; simp [ends] at ha; exact Or.inl ha) hw0
  intro a h1 h2
  exact this.2 a (fun hh => hh.elim h1 h2)

theorem fpSend_frame (w w' : World) (env : Env) (s : Nat) (f : Funds) (tok amt to : Nat)
    (h : applyTx w env s f (.fpSend tok amt to) = .ok w') :
    ∀ a, a ≠ FEEPOOL → a ≠ to → w'.ledger.balance a = w.ledger.balance a := by
  have hw0 : WP (fun a => a = FEEPOOL ∨ a = to) w.ledger.balance { w with env := env, log := [] } :=
    ⟨fun x hx => (by cases hx), fun _ _ => rfl⟩
  unfold applyTx at h
  dsimp only [] at h
  repeat' split at h
  all_goals first | cases h | skip
  all_goals
    obtain ⟨f', ev, hx⟩ := execSubs_single_never _ _ _ _ _ h rfl
    have := execMsg_WP _ _ _ _ _ _ _ _ hx (Or.inl rfl) (by intro a ha; simp [ends] at ha; exact Or.inr ha) hw0
    intro a h1 h2
    exact this.2 a (fun hh => hh.elim h1 h2)

end Perp.Props.G9Perm
