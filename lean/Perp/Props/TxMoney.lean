/-
  Handler inversions for the money theorems (C04, C12) that keep, next to the message shapes already
  proved in `EngineMoney`, the engine's pre-paid bad debt counter and the in-flight record:
  every insurance-fund withdrawal a trading handler requests is booked in `prepaid`, one for one.
-/
import Perp.Model.World
import Perp.Lemmas.Basic
import Perp.Props.C19
import Perp.Props.EngineGuards
import Perp.Props.EngineMoney
import Perp.Props.WorldInv

namespace Perp.Props.TxMoney
open Perp Perp.Engine
open Perp.Props.EngineMoney Perp.Props.C19

theorem updateOpenInterest_prepaid (q : Q) (e : E) (st st' : State) (v : Nat) (a : Integer) (t : Nat)
    (h : updateOpenInterest q e st v a t = .ok st') : st'.prepaid = st.prepaid := by
  unfold updateOpenInterest at h
  peel h as x, hx
  peel h as u, hu
  dsimp only [] at h
  repeat' split at h
  all_goals first
    | (simp only [pure_ok_iff] at h; subst h; rfl)
    | cases h

/-- the messages of one `withdraw`: an insurance-fund withdrawal of the shortfall `sf` (if any), then the payout -/
def wdMsgs (cfg : Config) (r amt sf : Nat) : List SubMsg :=
  (if sf = 0 then [] else [ifWithdrawMsg sf]) ++ [transferMsg cfg r amt]

theorem withdraw_shape (q : Q) (e : E) (st st' : State) (r amt pre : Nat) (msgs : List SubMsg)
    (h : withdraw q e st r amt pre = .ok (st', msgs)) :
    ∃ sf, st'.prepaid = st.prepaid + sf ∧ msgs = wdMsgs e.cfg r amt sf := by
  obtain ⟨bal, _, hm⟩ := withdraw_spec q e st st' r amt pre msgs h
  rcases hm with ⟨hlt, hp, _, _, hm⟩ | ⟨_, hst, hm⟩
  · refine ⟨amt - (bal + pre), hp, ?_⟩
    rw [hm]
    unfold wdMsgs
    rw [if_neg (by omega)]
    rfl
  · refine ⟨0, by rw [hst]; rfl, ?_⟩
    rw [hm]
    rfl

/-- the margin-moving part of an open's reply: nothing, a pull from the trader (cw20), or a `withdraw` -/
def VaultMs (cfg : Config) (trader sf : Nat) (ms : List SubMsg) : Prop :=
  (ms = [] ∧ sf = 0)
  ∨ (∃ a, ms = [transferFromMsg cfg trader ENGINE_ADDR a] ∧ cfg.native = false ∧ sf = 0)
  ∨ (∃ a, ms = wdMsgs cfg trader a sf)

theorem updatePositionReply_money (q : Q) (e e' : E) (env : Env) (i o id : Nat) (msgs : List SubMsg) (sw : TmpSwap)
    (hs : e.tmpSwap = some sw) (h : updatePositionReply q e env i o id = .ok (e', msgs)) :
    ∃ (sf : Nat) (ms : List SubMsg),
      e'.st.prepaid = e.st.prepaid + sf ∧ VaultMs e.cfg sw.trader sf ms
      ∧ (sw.feesPaid = true → msgs = ms)
      ∧ (sw.feesPaid = false → ∃ fm sp tl,
            transferFees q e sw.trader sw.vamm sw.openNotional = .ok (fm, sp, tl) ∧ msgs = ms ++ fm) := by
  have hk := getPosition_key env e sw.vamm sw.trader sw.side
  unfold updatePositionReply at h
  rw [hs] at h
  unjp h
  cases hsf : e.sentFunds with
  | none =>
    rw [hsf] at h
    simp [bind, Except.bind] at h
  | some funds =>
    rw [hsf] at h
    unjp h
    unjp h
    generalize getPosition env e sw.vamm sw.trader sw.side = p at h hk ⊢
    peel h as st, hst
    have hstp := updateOpenInterest_prepaid _ _ _ _ _ _ _ hst
    extract_lets -underBinder jpA at h
    have hA : ∃ x, jpA x = .ok (e', msgs) := by
      split at h
      · peel h as a1, ha1
        peel h as a2, ha2
        peel h as a3, ha3
        peel h as a4, ha4
        exact ⟨(a2, a3, Integer.newPositive a2, sideToDirection sw.side, a4), h⟩
      · peel h as a1, ha1
        peel h as a2, ha2
        peel h as a3, ha3
        exact ⟨(0, sw.marginToVault, a1, p.direction, a3.value), h⟩
    clear h
    obtain ⟨⟨sm, mtv, md, nd, nn⟩, h⟩ := hA
    simp -zeta only [jpA] at h
    clear jpA
    peel h as rm, hrm
    peel h as ns, hns
    extract_lets -underBinder p' e1 at h
    peel h as u, hcap
    extract_lets -underBinder jpB at h
    have hB : ∃ y : State × List SubMsg × Nat, jpB y = .ok (e', msgs)
        ∧ ∃ sf, y.1.prepaid = e.st.prepaid + sf ∧ VaultMs e.cfg sw.trader sf y.2.1 := by
      split at h
      · peel h as x, hw
        rw [unwrap_ok] at hw
        obtain ⟨sf, hp, hm⟩ := withdraw_shape q e1 st x.1 sw.trader mtv.value 0 x.2 hw
        refine ⟨(x.1, x.2, funds.required), h, sf, ?_, Or.inr (Or.inr ⟨mtv.value, hm⟩)⟩
        show x.1.prepaid = _
        rw [hp, hstp]
      · split at h
        · split at h
          · peel h as r, hr
            exact ⟨(st, [], r), h, 0, hstp, Or.inl ⟨rfl, rfl⟩⟩
          · rename_i hnat
            refine ⟨(st, [transferFromMsg e.cfg sw.trader ENGINE_ADDR mtv.value], funds.required), h, 0, hstp,
              Or.inr (Or.inl ⟨mtv.value, rfl, by simpa using hnat, rfl⟩)⟩
        · exact ⟨(st, [], funds.required), h, 0, hstp, Or.inl ⟨rfl, rfl⟩⟩
    clear h
    obtain ⟨⟨st2, ms, rq⟩, h, sf, hsfp, hvm⟩ := hB
    simp only [] at hsfp hvm
    simp -zeta only [jpB] at h
    clear jpB
    extract_lets -underBinder jpC at h
    have hC : ∃ z : List SubMsg × Nat, jpC z = .ok (e', msgs)
        ∧ (sw.feesPaid = true → z.1 = ms)
        ∧ (sw.feesPaid = false → ∃ fm sp tl,
            transferFees q e sw.trader sw.vamm sw.openNotional = .ok (fm, sp, tl) ∧ z.1 = ms ++ fm) := by
      split at h
      · rename_i hfp
        peel h as x, hx
        rw [unwrap_ok] at hx
        peel h as r1, hr1
        peel h as r2, hr2
        refine ⟨(ms ++ x.1, r2), h, ?_, ?_⟩
        · intro hh; rw [hh] at hfp; cases hfp
        · intro _
          exact ⟨x.1, x.2.1, x.2.2, hx, rfl⟩
      · rename_i hfp
        refine ⟨(ms, rq), h, fun _ => rfl, ?_⟩
        intro hh; rw [hh] at hfp; exact absurd rfl hfp
    clear h
    obtain ⟨⟨zs, zr⟩, h, hz1, hz2⟩ := hC
    simp only [] at hz1 hz2
    simp -zeta only [jpC] at h
    clear jpC
    extract_lets -underBinder jpD at h
    have hD : jpD () = .ok (e', msgs) := by
      split at h
      · peel h as u', hu'
        exact h
      · exact h
    clear h
    simp only [jpD] at hD
    peel hD as ratio, hratio
    peel hD as u2, hreq
    simp only [pure_ok_iff] at hD
    injection hD with h1 h2
    subst h2
    refine ⟨sf, ms, ?_, hvm, hz1, hz2⟩
    rw [← h1]
    exact hsfp


/-- a reversal's first leg: the fee on the requested notional, then either the payout of a close-only
    reversal or the second swap (fee marked paid); the pre-paid counter does not move -/
theorem reversePositionReply_money (q : Q) (e e' : E) (env : Env) (out : Nat) (msgs : List SubMsg) (sw : TmpSwap)
    (hs : e.tmpSwap = some sw) (h : reversePositionReply q e env out = .ok (e', msgs)) :
    ∃ fm sp tl last, transferFees q e sw.trader sw.vamm sw.openNotional = .ok (fm, sp, tl)
      ∧ msgs = fm ++ [last]
      ∧ e'.st.prepaid = e.st.prepaid
      ∧ ((∃ amt, last = transferMsg e.cfg sw.trader amt)
         ∨ (∃ sw', e'.tmpSwap = some sw' ∧ sw'.feesPaid = true ∧ sw'.trader = sw.trader ∧ sw'.vamm = sw.vamm
              ∧ last = swapInputMsg sw.vamm sw.side sw'.openNotional 0 false REPLY_INCREASE)) := by
  have hk := getPosition_key env e sw.vamm sw.trader sw.side
  unfold reversePositionReply at h
  rw [hs] at h
  unjp h
  cases hsf : e.sentFunds with
  | none =>
    rw [hsf] at h
    simp [bind, Except.bind] at h
  | some funds =>
    rw [hsf] at h
    unjp h
    generalize getPosition env e sw.vamm sw.trader sw.side = p at h hk ⊢
    peel h as st, hst
    have hstp := updateOpenInterest_prepaid _ _ _ _ _ _ _ hst
    peel h as rm0, hrm0
    peel h as pm, hpm
    extract_lets p' con newOpen at h
    peel h as x, hx
    obtain ⟨fm, sp, tl⟩ := x
    rw [unwrap_ok] at hx
    peel h as r, hr
    peel h as req, hreq
    peel h as lev, hlev
    split at h
    · peel h as margin, hmargin
      extract_lets ms jp at h
      have h2 : jp () = .ok (e', msgs) := by
        split at h
        · peel h as u, hu
          exact h
        · exact h
      clear h
      simp only [jp, pure_ok_iff] at h2
      injection h2 with h1 h2
      subst h1 h2
      exact ⟨fm, sp, tl, _, hx, rfl, hstp, Or.inl ⟨_, rfl⟩⟩
    · peel h as mtv, hmtv
      extract_lets -underBinder jp at h
      have h2 : ∃ rq, jp rq = .ok (e', msgs) := by
        split at h
        · peel h as rq, hrq
          exact ⟨rq, h⟩
        · split at h
          · peel h as rq, hrq
            exact ⟨rq, h⟩
          · peel h as rq, hrq
            exact ⟨rq, h⟩
      clear h
      obtain ⟨rq, h2⟩ := h2
      simp only [jp, pure_ok_iff] at h2
      injection h2 with h1 h2
      subst h1 h2
      exact ⟨fm, sp, tl, _, hx, rfl, hstp, Or.inr ⟨_, rfl, rfl, rfl, rfl, rfl⟩⟩

/-- a whole close: `withdraw` of the equity (if any), then the fee on the stored open notional;
    the record is erased -/
theorem closePositionReply_money (q : Q) (e e' : E) (env : Env) (out : Nat) (msgs : List SubMsg) (sw : TmpSwap)
    (hs : e.tmpSwap = some sw) (h : closePositionReply q e env out = .ok (e', msgs)) :
    let p := getPosition env e sw.vamm sw.trader sw.side
    ∃ delta rm wa sf wmsgs fmsgs,
      closeMarginDelta p sw out = .ok delta ∧ calcRemainMargin e p delta = .ok rm ∧ rm.badDebt = 0
      ∧ Integer.checkedAdd (Integer.newPositive rm.margin) sw.upnl = .ok wa
      ∧ (if wa.isZero then sf = 0 ∧ wmsgs = [] else wmsgs = wdMsgs e.cfg sw.trader wa.value sf)
      ∧ (if p.notional ≠ 0 then ∃ sp tl, transferFees q e sw.trader sw.vamm p.notional = .ok (fmsgs, sp, tl) else fmsgs = [])
      ∧ msgs = wmsgs ++ fmsgs
      ∧ e'.st.prepaid = e.st.prepaid + sf
      ∧ e'.positions = (removePosition e p).positions := by
  unfold closePositionReply at h
  rw [hs] at h
  extract_lets jp at h
  simp only [pure_bind] at h
  simp -zeta only [jp] at h
  clear jp
  generalize getPosition env e sw.vamm sw.trader sw.side = p at h ⊢
  intro p0
  extract_lets e1 at h
  peel h as delta, hd
  peel h as rm, hrm
  peel h as wa, hwa
  by_cases hb : rm.badDebt = 0
  · rw [if_neg (fun hh => hh hb)] at h
    extract_lets jp2 at h
    peelj h as ⟨st1, wm⟩, hw
    simp -zeta only [jp2] at h
    clear jp2
    extract_lets jp3 at h
    have hfm : ∃ fm, (if p.notional ≠ 0 then ∃ sp tl, transferFees q e sw.trader sw.vamm p.notional = .ok (fm, sp, tl) else fm = [])
        ∧ jp3 (wm ++ fm) = .ok (e', msgs) := by
      split at h
      · rename_i hn
        peel h as ⟨fm, sp, tl⟩, hf
        rw [unwrap_ok] at hf
        refine ⟨fm, ?_, h⟩
        rw [if_pos hn]; exact ⟨sp, tl, hf⟩
      · rename_i hn
        refine ⟨[], ?_, ?_⟩
        · rw [if_neg hn]
        · simpa using h
    obtain ⟨fm, hfm, h⟩ := hfm
    simp only [jp3] at h
    peel h as v1, hv1
    peel h as value, hv2
    peel h as st2, hst2
    have hstp := updateOpenInterest_prepaid _ _ _ _ _ _ _ hst2
    simp only [pure_ok_iff] at h
    injection h with h1 h2
    subst h1 h2
    have hW : ∃ sf, (if wa.isZero then sf = 0 ∧ wm = [] else wm = wdMsgs e.cfg sw.trader wa.value sf)
        ∧ st1.prepaid = e.st.prepaid + sf := by
      split at hw
      · rename_i hz
        simp at hz
        rw [unwrap_ok] at hw
        obtain ⟨sf, hp, hm⟩ := withdraw_shape _ _ _ _ _ _ _ _ hw
        refine ⟨sf, ?_, hp⟩
        rw [if_neg (by simp [hz])]; exact hm
      · rename_i hz
        simp at hz
        simp at hw
        refine ⟨0, ?_, by rw [← hw.1]; rfl⟩
        rw [if_pos hz]
        exact ⟨rfl, hw.2⟩
    obtain ⟨sf, hW1, hW2⟩ := hW
    refine ⟨delta, rm, wa, sf, wm, fm, hd, hrm, hb, hwa, hW1, hfm, rfl, ?_, rfl⟩
    show st2.prepaid = _
    rw [hstp, hW2]
  · rw [if_pos hb] at h; cases h

/-- a partial close: only the fee on the swapped notional is dispatched; the record stays -/
theorem partialClose_money (q : Q) (e e' : E) (env : Env) (i o : Nat) (msgs : List SubMsg) (sw : TmpSwap)
    (hs : e.tmpSwap = some sw) (h : partialClosePositionReply q e env i o = .ok (e', msgs)) :
    ∃ fm sp tl p', transferFees q e sw.trader sw.vamm sw.openNotional = .ok (fm, sp, tl) ∧ msgs = fm
      ∧ e'.st.prepaid = e.st.prepaid
      ∧ e'.positions = (storePosition e p').positions ∧ p'.vamm = sw.vamm ∧ p'.trader = sw.trader := by
  have hk := getPosition_key env e sw.vamm sw.trader sw.side
  unfold partialClosePositionReply at h
  rw [hs] at h
  extract_lets jp at h
  simp only [pure_bind] at h
  simp -zeta only [jp] at h
  clear jp
  generalize getPosition env e sw.vamm sw.trader sw.side = p at h hk ⊢
  simp only [] at h
  peel h as st, hst
  have hstp := updateOpenInterest_prepaid _ _ _ _ _ _ _ hst
  peel h as realized, hr
  peel h as rm, hrm
  peel h as ua, hua
  peel h as rn, hrn
  peel h as fm, hfm
  rw [unwrap_ok] at hfm
  peel h as ns, hns
  by_cases hb : rm.badDebt = 0
  · rw [if_neg (fun hh => hh hb)] at h
    simp only [pure_ok_iff] at h
    injection h with h1 h2
    subst h1 h2
    exact ⟨fm.1, fm.2.1, fm.2.2, _, hfm, rfl, hstp, rfl, hk.1, hk.2⟩
  · rw [if_pos hb] at h; cases h

/-- `open_position`: the in-flight record it leaves and the one swap it dispatches -/
theorem openPosition_tmp (q : Q) (e e1 : E) (env : Env) (s : Nat) (f : Funds) (v : Nat) (side : Side)
    (m l b : Nat) (subs : List SubMsg) (h : openPosition q e env s f v side m l b = .ok (e1, subs)) :
    ∃ tmp sfd, e1 = { e with tmpSwap := some tmp, sentFunds := some sfd }
      ∧ tmp.vamm = v ∧ tmp.trader = s ∧ tmp.side = side ∧ tmp.openNotional = m * l / e.cfg.decimals
      ∧ tmp.feesPaid = false
      ∧ ((∃ N lim, subs = [swapInputMsg v side N lim false REPLY_INCREASE])
         ∨ (∃ N lim, subs = [swapInputMsg v side N lim false REPLY_DECREASE])
         ∨ (∃ sd n, subs = [swapOutputMsg v sd n 0 REPLY_REVERSE])) := by
  have hk := getPosition_key env e v s side
  have hmsgs := EngineGuards.openPosition_msgs q e e1 env s f v side m l b subs h
  simp only [] at hmsgs
  rw [hk.1] at hmsgs
  unfold openPosition at h
  peel h as u, hu
  peel h as u, hu
  peel h as u, hu
  peel h as u, hm
  peel h as u, hl
  split at h
  · cases h
  peel h as dd, hdd
  peel h as mr, hmr
  peel h as u, ham
  dsimp only [] at h
  peel h as ml, hml
  peel h as N, hN
  simp at hml hN
  obtain ⟨_, rfl⟩ := hml
  obtain ⟨_, rfl⟩ := hN
  have hshape : (∃ N lim, subs = [swapInputMsg v side N lim false REPLY_INCREASE])
         ∨ (∃ N lim, subs = [swapInputMsg v side N lim false REPLY_DECREASE])
         ∨ (∃ sd n, subs = [swapOutputMsg v sd n 0 REPLY_REVERSE]) := by
    rcases hmsgs with hm | hm | hm
    · exact Or.inl ⟨_, _, hm⟩
    · exact Or.inr (Or.inl ⟨_, _, hm⟩)
    · exact Or.inr (Or.inr ⟨_, _, hm⟩)
  split at h
  · simp only [pure_bind] at h
    peel h as pp, hpp
    simp only [pure_ok_iff] at h
    injection h with h1 h2
    subst h1
    exact ⟨_, _, rfl, rfl, rfl, rfl, rfl, rfl, hshape⟩
  · peel h as x0, hx0
    split at h
    · simp only [pure_bind] at h
      peel h as pp, hpp
      simp only [pure_ok_iff] at h
      injection h with h1 h2
      subst h1
      exact ⟨_, _, rfl, rfl, rfl, rfl, rfl, rfl, hshape⟩
    · simp only [pure_bind] at h
      peel h as pp, hpp
      simp only [pure_ok_iff] at h
      injection h with h1 h2
      subst h1
      exact ⟨_, _, rfl, rfl, rfl, rfl, rfl, rfl, hshape⟩

/-- `close_position`: the in-flight record it leaves and the one swap it dispatches -/
theorem closePosition_tmp (q : Q) (e e1 : E) (env : Env) (s v l : Nat) (subs : List SubMsg)
    (h : closePosition q e env s v l = .ok (e1, subs)) :
    let p := readPosition e v s
    ¬ p.size.value = 0 ∧
    ∃ tmp, e1 = { e with tmpSwap := some tmp } ∧ tmp.vamm = p.vamm ∧ tmp.trader = p.trader
      ∧ ((tmp.side = directionToSide p.direction ∧ tmp.openNotional = p.notional ∧ tmp.upnl = Integer.zero
            ∧ subs = [swapOutputMsg p.vamm (directionToSide p.direction) p.size.value l REPLY_CLOSE])
         ∨ (subs = [swapInputMsg p.vamm (positionToSide p.size) tmp.openNotional 0 true REPLY_PARTIAL_CLOSE])) := by
  unfold closePosition at h
  dsimp only [] at h
  peel h as u, hu
  split at h
  · cases h
  rename_i hsz
  peel h as u, hr
  peel h as over, hover
  intro p
  refine ⟨hsz, ?_⟩
  split at h
  · rename_i hc
    peel h as x, hx
    peel h as pa, hpa
    peel h as pn, hpn
    peel h as pp, hpp
    obtain ⟨a, b⟩ := pp
    simp only [pure_ok_iff] at h
    injection h with h1 h2
    subst h1 h2
    exact ⟨_, rfl, rfl, rfl, Or.inr rfl⟩
  · simp only [internalClosePosition, pure_ok_iff] at h
    injection h with h1 h2
    subst h1 h2
    exact ⟨_, rfl, rfl, rfl, Or.inl ⟨rfl, rfl, rfl, rfl⟩⟩

end Perp.Props.TxMoney
