/-
  SatExtra3 — refinement theorem for the clause of `Spec.extraChecks3`:

  * `C14.checkReg`  the registry of the insurance fund is only what the owner's AddVamm / RemoveVamm calls made
                    it: a successful RemoveVamm{v} leaves exactly the other entries, a successful AddVamm{v} adds
                    exactly v, and no other transaction (successful or not) changes the registry.

    Model side.  Only `.ifAdd` / `.ifRemove` / `.ifOwner` write the insurance fund's state (`SatF14.applyTx_ifund`);
    `.ifOwner` keeps the list; `Insurance.addVamm` appends (`EngineGuards.addVamm_spec`); `Insurance.removeVamm`
    is `swap_remove` of the first index, which on a duplicate-free list removes the entry and keeps every other
    one (`EngineGuards.removeVamm_spec`).  A failed transaction has `post = pre`.

    Result.  `sat_C14_reg`: the clause is TRUE of the model in every world with `SatF14.RegInv w.ifund` (a conjunct
    of `Capstone.AllInv`; holds in every reachable world).  It is necessary
    (`Witness.sat_C14_reg_needs_regInv`): with a duplicated entry, `swap_remove` of the first index leaves the
    second copy and the vAMM stays registered.
  * `sat_extra3`, `reachable_extra3`, `reachable_extra3_clean`, `history_extra3`.
-/
import Perp.Model.World
import Perp.Spec.World
import Perp.Spec.Registry
import Perp.Lemmas.Basic
import Perp.Props.ModelStep
import Perp.Props.EngineGuards
import Perp.Props.MirrorInv
import Perp.Props.SatF14
import Perp.Props.Capstone

namespace Perp.Props.SatExtra3
open Perp Perp.World Perp.Engine Perp.Spec Perp.Spec.W Perp.Props.ModelStep

/-! ## 1. list facts -/

theorem sameSet_refl (l : List Nat) : Spec.C14.sameSet l l = true := by
  unfold Spec.C14.sameSet
  have : (l.all fun x => l.contains x) = true := by
    rw [List.all_eq_true]
    intro x hx
    simpa using hx
  rw [this]
  rfl

theorem sameSet_of_eq {a b : List Nat} (h : b = a) : Spec.C14.sameSet a b = true := by
  subst h
  exact sameSet_refl _

/-! ## 2. the clause on a successful / failed transaction -/

/-- the three Booleans of the RemoveVamm branch -/
theorem remove_ok (pre post : List Nat) (v : Nat) (h1 : v ∉ post)
    (h2 : ∀ x, x ≠ v → (x ∈ post ↔ x ∈ pre)) :
    (!post.contains v) = true
    ∧ (pre.all (fun x => x == v || post.contains x)) = true
    ∧ (post.all (fun x => pre.contains x)) = true := by
  refine ⟨by simpa using h1, ?_, ?_⟩
  · rw [List.all_eq_true]
    intro x hx
    by_cases hv : x = v
    · simp [hv]
    · have := (h2 x hv).2 hx
      simp [this]
  · rw [List.all_eq_true]
    intro x hx
    have hv : x ≠ v := fun e => h1 (e ▸ hx)
    have := (h2 x hv).1 hx
    simpa using this

/-- the three Booleans of the AddVamm branch -/
theorem add_ok (pre : List Nat) (v : Nat) :
    ((pre ++ [v]).contains v) = true
    ∧ (pre.all (fun x => (pre ++ [v]).contains x)) = true
    ∧ ((pre ++ [v]).all (fun x => x == v || pre.contains x)) = true := by
  refine ⟨by simp, ?_, ?_⟩
  · rw [List.all_eq_true]
    intro x hx
    simp [hx]
  · rw [List.all_eq_true]
    intro x hx
    rw [List.mem_append] at hx
    rcases hx with hx | hx
    · simp [hx]
    · simp only [List.mem_singleton] at hx
      simp [hx]

theorem reg_ok (w w' : World) (env : Env) (s : Nat) (f : Funds) (tx : Tx) (xf : List (Nat × Nat × Nat)) (r : Bool)
    (hr : SatF14.RegInv w.ifund) (h : applyTx w env s f tx = .ok w') :
    Spec.C14.checkReg { pre := w, post := w', env := env, sender := s, funds := f, tx := tx, ok := true,
                        xfers := xf, residue := r } = [] := by
  by_cases h1 : ∃ v, tx = .ifAdd v
  · obtain ⟨v, rfl⟩ := h1
    unfold applyTx at h
    simp only [bind_ok_iff, pure_ok_iff] at h
    obtain ⟨x, hx, rfl⟩ := h
    obtain ⟨_, _, _, hv, _⟩ := EngineGuards.addVamm_spec _ _ _ _ _ _ ⟨hr.nodup, hr.cap⟩ hx
    obtain ⟨a1, a2, a3⟩ := add_ok w.ifund.vamms v
    simp only [Spec.C14.checkReg, hv, a1, a2, a3, chk]
    rfl
  by_cases h2 : ∃ v, tx = .ifRemove v
  · obtain ⟨v, rfl⟩ := h2
    unfold applyTx at h
    simp only [bind_ok_iff, pure_ok_iff] at h
    obtain ⟨x, hx, rfl⟩ := h
    obtain ⟨_, _, b1, b2⟩ := EngineGuards.removeVamm_spec _ _ _ _ ⟨hr.nodup, hr.cap⟩ hx
    obtain ⟨a1, a2, a3⟩ := remove_ok w.ifund.vamms x.vamms v b1 b2
    simp only [Spec.C14.checkReg, a1, a2, a3, chk]
    rfl
  have hsame : w'.ifund.vamms = w.ifund.vamms := by
    by_cases h3 : ∃ n, tx = .ifOwner n
    · obtain ⟨n, rfl⟩ := h3
      unfold applyTx at h
      simp only [bind_ok_iff, pure_ok_iff] at h
      obtain ⟨x, hx, rfl⟩ := h
      unfold Insurance.updateOwner at hx
      split at hx
      · cases hx
      injection hx with hx
      subst hx
      rfl
    · rw [SatF14.applyTx_ifund w w' env s f tx (fun v e => h1 ⟨v, e⟩) (fun v e => h2 ⟨v, e⟩)
        (fun n e => h3 ⟨n, e⟩) h]
  have hs := sameSet_of_eq hsame
  cases tx with
  | ifAdd v => exact absurd ⟨v, rfl⟩ h1
  | ifRemove v => exact absurd ⟨v, rfl⟩ h2
  | _ => simp only [Spec.C14.checkReg, hs, chk]; rfl

theorem reg_err (w : World) (env : Env) (s : Nat) (f : Funds) (tx : Tx) (xf : List (Nat × Nat × Nat)) (r : Bool) :
    Spec.C14.checkReg { pre := w, post := w, env := env, sender := s, funds := f, tx := tx, ok := false,
                        xfers := xf, residue := r } = [] := by
  have hs := sameSet_refl w.ifund.vamms
  cases tx <;> (simp only [Spec.C14.checkReg, hs, chk]; rfl)

/-! ## 3. the refinement theorem -/

/-- **C14, the registry — every world whose registry has no duplicates, every block, sender, funds and message.**
    The model's step satisfies the registry clause: RemoveVamm removes exactly the named entry, AddVamm adds
    exactly it, nothing else touches the registry.

    Hypothesis kept: `SatF14.RegInv w.ifund` (a conjunct of `Capstone.AllInv`; holds in every reachable world);
    only its `nodup` half matters, on the RemoveVamm path (`Witness.sat_C14_reg_needs_regInv`). -/
theorem sat_C14_reg (w : World) (env : Env) (s : Nat) (f : Funds) (tx : Tx) (hreg : SatF14.RegInv w.ifund) :
    Spec.C14.checkReg (modelStep w env s f tx) = [] := by
  unfold modelStep
  cases h : applyTx w env s f tx with
  | ok w' => exact reg_ok w w' env s f tx _ _ hreg h
  | error e => exact reg_err w env s f tx _ _

/-- every clause of `Spec.extraChecks3` is empty on the model's step — every world with a well-shaped registry -/
theorem sat_extra3 (w : World) (env : Env) (s : Nat) (f : Funds) (tx : Tx) (hreg : SatF14.RegInv w.ifund) :
    ∀ pc ∈ Spec.extraChecks3 (modelStep w env s f tx), pc.2 = [] := by
  intro pc hpc
  unfold Spec.extraChecks3 at hpc
  simp only [List.mem_cons, List.not_mem_nil, or_false] at hpc
  rcases hpc with rfl
  exact sat_C14_reg w env s f tx hreg

/-- the clauses of `extraChecks3`, as a record in the style of `Capstone.CleanChecks` / `SatExtra2.ExtraClean2` -/
structure ExtraClean3 (st : Step) : Prop where
  c14reg : Spec.C14.checkReg st = []

/-- on a reachable world, under the side conditions (`Capstone.AllInv` supplies `RegInv`; the side conditions
    themselves are not used) -/
theorem reachable_extra3 {w : World} (hr : Capstone.Reachable w) {env : Env} {s : Nat} {f : Funds} {tx : Tx}
    (_hs : Capstone.SideOK w env s f tx) :
    ∀ pc ∈ Spec.extraChecks3 (modelStep w env s f tx), pc.2 = [] :=
  sat_extra3 w env s f tx (Capstone.reachable_allInv hr).registry

theorem reachable_extra3_clean (w : World) (hr : Capstone.Reachable w) (env : Env) (s : Nat) (f : Funds) (tx : Tx)
    (_hs : Capstone.SideOK w env s f tx) : ExtraClean3 (modelStep w env s f tx) :=
  ⟨sat_C14_reg w env s f tx (Capstone.reachable_allInv hr).registry⟩

/-- … and along any history from a deployment -/
theorem history_extra3 (w0 : World) (h0 : Capstone.Deployed w0) (txs : Capstone.History)
    (hside : Capstone.SideAlong w0 txs)
    (pre : Capstone.History) (t : Env × Nat × Funds × Tx) (post : Capstone.History) (e : txs = pre ++ t :: post) :
    ExtraClean3 (modelStep (Capstone.run w0 pre) t.1 t.2.1 t.2.2.1 t.2.2.2) :=
  reachable_extra3_clean _ (Capstone.history_reachable w0 h0 txs hside pre (t :: post) e) _ _ _ _ (hside pre t post e)

/-- the same, entry by entry of `extraChecks3` -/
theorem history_extra3_all (w0 : World) (h0 : Capstone.Deployed w0) (txs : Capstone.History)
    (hside : Capstone.SideAlong w0 txs)
    (pre : Capstone.History) (t : Env × Nat × Funds × Tx) (post : Capstone.History) (e : txs = pre ++ t :: post) :
    ∀ pc ∈ Spec.extraChecks3 (modelStep (Capstone.run w0 pre) t.1 t.2.1 t.2.2.1 t.2.2.2), pc.2 = [] :=
  reachable_extra3 (Capstone.history_reachable w0 h0 txs hside pre (t :: post) e) (hside pre t post e)

/-! ## 4. witnesses (all evaluated by the kernel) -/

namespace Witness
open Perp.Props.Mirror.Cex (w0)

/-- the registry holds vAMM 0 twice (unreachable: `add_vamm` rejects a registered address) -/
def dup : World := { w0 with ifund := { w0.ifund with vamms := [0, 0] } }

/-- two registered vAMMs -/
def two : World := { w0 with ifund := { w0.ifund with vamms := [0, 7] } }

set_option maxRecDepth 100000 in
/-- **`RegInv` (no duplicate entries) is needed.**  With the entry duplicated, the owner's RemoveVamm{0} is
    accepted, `swap_remove` of the first index leaves the second copy: the vAMM stays registered and the clause
    fails. -/
theorem c14_reg_dup :
    Spec.C14.checkReg (modelStep dup ⟨2, 1000⟩ 61 ⟨0, false⟩ (.ifRemove 0)) = ["deregistered-vamm-still-registered"]
    ∧ (modelStep dup ⟨2, 1000⟩ 61 ⟨0, false⟩ (.ifRemove 0)).ok = true
    ∧ (step dup ⟨2, 1000⟩ 61 ⟨0, false⟩ (.ifRemove 0)).ifund.vamms = [0]
    ∧ ¬ SatF14.RegInv dup.ifund := by
  refine ⟨by decide +kernel, by decide +kernel, by decide +kernel, ?_⟩
  intro h
  exact absurd h.nodup (by decide)

theorem sat_C14_reg_needs_regInv :
    ∃ w env s f tx, Spec.C14.checkReg (modelStep w env s f tx) ≠ [] :=
  ⟨dup, ⟨2, 1000⟩, 61, ⟨0, false⟩, .ifRemove 0, by rw [c14_reg_dup.1]; decide⟩

set_option maxRecDepth 100000 in
/-- not vacuous: on a duplicate-free registry the owner's RemoveVamm{0} is accepted (the last entry takes the
    freed slot), the owner's RemoveVamm{7} too, and so is AddVamm — rejected here, vAMM 0 being registered —;
    a stranger's call fails; the clause is empty each time -/
theorem c14_reg_regular :
    (modelStep two ⟨2, 1000⟩ 61 ⟨0, false⟩ (.ifRemove 0)).ok = true
    ∧ (step two ⟨2, 1000⟩ 61 ⟨0, false⟩ (.ifRemove 0)).ifund.vamms = [7]
    ∧ Spec.C14.checkReg (modelStep two ⟨2, 1000⟩ 61 ⟨0, false⟩ (.ifRemove 0)) = []
    ∧ (step two ⟨2, 1000⟩ 61 ⟨0, false⟩ (.ifRemove 7)).ifund.vamms = [0]
    ∧ Spec.C14.checkReg (modelStep two ⟨2, 1000⟩ 61 ⟨0, false⟩ (.ifRemove 7)) = []
    ∧ (modelStep two ⟨2, 1000⟩ 100 ⟨0, false⟩ (.ifRemove 0)).ok = false
    ∧ Spec.C14.checkReg (modelStep two ⟨2, 1000⟩ 100 ⟨0, false⟩ (.ifRemove 0)) = []
    ∧ (modelStep two ⟨2, 1000⟩ 61 ⟨0, false⟩ (.ifAdd 0)).ok = false
    ∧ Spec.C14.checkReg (modelStep two ⟨2, 1000⟩ 61 ⟨0, false⟩ (.ifAdd 0)) = [] := by
  decide +kernel

set_option maxRecDepth 100000 in
/-- … and a successful AddVamm: the registry of `w0` emptied first, then vAMM 0 registered again -/
theorem c14_reg_add :
    (modelStep { w0 with ifund := { w0.ifund with vamms := [] } } ⟨2, 1000⟩ 61 ⟨0, false⟩ (.ifAdd 0)).ok = true
    ∧ (step { w0 with ifund := { w0.ifund with vamms := [] } } ⟨2, 1000⟩ 61 ⟨0, false⟩ (.ifAdd 0)).ifund.vamms = [0]
    ∧ Spec.C14.checkReg
        (modelStep { w0 with ifund := { w0.ifund with vamms := [] } } ⟨2, 1000⟩ 61 ⟨0, false⟩ (.ifAdd 0)) = [] := by
  decide +kernel

end Witness

/-- `RegInv` (no duplicate entries) is needed: with a duplicated entry a removal leaves the vAMM registered
    (`Witness.c14_reg_dup`) -/
theorem sat_C14_reg_needs_regInv : ∃ w env s f tx, Spec.C14.checkReg (modelStep w env s f tx) ≠ [] :=
  Witness.sat_C14_reg_needs_regInv

end Perp.Props.SatExtra3
