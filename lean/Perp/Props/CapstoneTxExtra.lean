/-
  CapstoneTxExtra — the extensions of the capstone to the extra clauses (`SatExtra.reachable_sat_all`,
  `SatExtra2.reachable_sat_all2`, `SatExtra3.reachable_extra3`) under the per-transaction side conditions of
  `Perp/Props/CapstoneTx.lean`: everything a check run of the driver evaluates
  (`allChecks ++ extraChecks ++ extraChecks2 ++ extraChecks3`) on a `ReachableTx` world, and along a history.
-/
import Perp.Props.CapstoneTx
import Perp.Props.SatExtra
import Perp.Props.SatExtra2
import Perp.Props.SatExtra3

namespace Perp.Props.CapstoneTx
open Perp Perp.World Perp.Engine Perp.Spec Perp.Props.ModelStep
open Perp.Props.Capstone

/-- the three extra lists are empty on a world satisfying the invariants (no side condition is used) -/
theorem allInv_extra {w : World} (hI : AllInv w) (env : Env) (s : Nat) (f : Funds) (tx : Tx) :
    ∀ pc ∈ Spec.extraChecks (modelStep w env s f tx) ++ Spec.extraChecks2 (modelStep w env s f tx)
            ++ Spec.extraChecks3 (modelStep w env s f tx), pc.2 = [] := by
  intro pc hpc
  rcases List.mem_append.1 hpc with h12 | h3
  · rcases List.mem_append.1 h12 with h1 | h2
    · exact SatExtra.sat_extra w env s f tx pc h1
    · exact SatExtra2.sat_extra2 w env s f tx hI.noZeroVamm pc h2
  · exact SatExtra3.sat_extra3 w env s f tx hI.registry pc h3

/-- **everything a check run evaluates** (`allChecks ++ extraChecks ++ extraChecks2 ++ extraChecks3`, as the
    driver folds them) on a `ReachableTx` world under `SideOKTx`: every reported tag is one of
    `Capstone.knownTags` -/
theorem reachable_sat_all_tx (w : World) (hr : ReachableTx w) (env : Env) (s : Nat) (f : Funds) (tx : Tx)
    (hs : SideOKTx w env s f tx) :
    ∀ pc ∈ Spec.allChecks (modelStep w env s f tx) ++ Spec.extraChecks (modelStep w env s f tx)
            ++ Spec.extraChecks2 (modelStep w env s f tx) ++ Spec.extraChecks3 (modelStep w env s f tx),
      ∀ tag ∈ pc.2, tag ∈ knownTags := by
  intro pc hpc tag htag
  have hI := reachable_allInv_tx hr
  simp only [List.append_assoc] at hpc
  rcases List.mem_append.1 hpc with h0 | hx
  · exact reachable_sat_tx w hr env s f tx hs pc h0 tag htag
  · rw [allInv_extra hI env s f tx pc (by simpa only [List.append_assoc] using hx)] at htag
    cases htag

/-- … and along any history from a deployment with `SideOKTx` at each step -/
theorem history_sat_all_tx (w0 : World) (h0 : Deployed w0) (txs : History) (hside : SideAlongTx w0 txs)
    (pre : History) (t : Env × Nat × Funds × Tx) (post : History) (e : txs = pre ++ t :: post) :
    ∀ pc ∈ Spec.allChecks (modelStep (run w0 pre) t.1 t.2.1 t.2.2.1 t.2.2.2)
            ++ Spec.extraChecks (modelStep (run w0 pre) t.1 t.2.1 t.2.2.1 t.2.2.2)
            ++ Spec.extraChecks2 (modelStep (run w0 pre) t.1 t.2.1 t.2.2.1 t.2.2.2)
            ++ Spec.extraChecks3 (modelStep (run w0 pre) t.1 t.2.1 t.2.2.1 t.2.2.2),
      ∀ tag ∈ pc.2, tag ∈ knownTags :=
  reachable_sat_all_tx _ (history_reachable_tx w0 h0 txs hside pre (t :: post) e) _ _ _ _ (hside pre t post e)

end Perp.Props.CapstoneTx
