/-
  SatB — the model's step satisfies Spec.C04, C12 (see Perp/Props/ModelStep.lean).
  Target shape of every theorem:   Spec.Cxx.check (modelStep w env s f tx) = []

  Helper files (build order): Perp/Props/TxLog.lean, TxMoney.lean, TxFlow.lean, SatOpen.lean,
  SatClose.lean, SatFree.lean.

  HYPOTHESES ADDED to `WF w` (both are pieces of the sanctioned deployment-wiring bundles of
  `ModelStep`, kind (b); `sat_C04'` / `sat_C12'` restate the theorems with the bundles themselves):

  * `TxFlow.PoolsWired w`  :  `w.engine.cfg.insuranceFund = IFUND ∧ w.engine.cfg.feePool = FEEPOOL`
    — the first two fields of `Wired w`.  C12 measures the toll at the configured fee-pool address and
    the spread at the configured insurance-fund address; if the two coincide (or coincide with the
    engine's own vault) the measured credit is toll + spread (resp. includes the margin), so every
    "…-not-exact" clause needs the two pools to be the deployment's two distinct contracts.  C04's
    insurance-fund clause reads the balance at the configured address and the only permitted debit is the
    fund's own `Withdraw`, which lives at `IFUND`.
  * `TxFlow.Outside s`  :  `s ≠ ENGINE ∧ s ≠ IFUND ∧ s ≠ FEEPOOL` — three conjuncts of `UserSender w s`.
    A "trader" that is the fee pool or the insurance fund pays margin / fees out of the pool's own
    balance (cw20 `TransferFrom`, or the attached native funds), which the clauses
    `fee-charged-on-fee-free-operation`, `…-toll-not-exact`, `insurance-fund-drained-…` then see as a
    debit of the pool; a sender equal to the engine turns the attached funds into an ENGINE → sender
    entry, which `close-payout-not-equity` counts as payout.
  Counterexamples (namespace `Need` at the end of this file, evaluated by `decide +kernel`; every witness
  world satisfies `WF` and the *other* hypothesis — `wf0`, `pools0`, `outside100`, `wfE`, `poolsE`):
  `need_pools_wired`, `need_sender_not_feepool`, `need_sender_not_ifund`, `need_sender_not_engine`.

  Nothing in C04 / C12 is false for the model under these hypotheses: both theorems are proved in the
  clean form `check = []`, for every transaction kind, both collateral kinds, all four open flows
  (increase, reduce, reversal with payout, reversal with second leg) and both close flows.

  `WF w` itself is not needed by the proofs (the handlers of the six transactions concerned overwrite
  the in-flight records they read); it is kept as the common base hypothesis.
-/
import Perp.Model.World
import Perp.Spec.World
import Perp.Lemmas.Basic
import Perp.Props.ModelStep
import Perp.Props.Dispatch
import Perp.Props.EngineGuards
import Perp.Props.EngineMoney
import Perp.Props.WorldInv
import Perp.Props.CurveNoFlip
import Perp.Props.C01
import Perp.Props.C15
import Perp.Props.C17
import Perp.Props.C18
import Perp.Props.VammGuards
import Perp.Props.G9Restr
import Perp.Props.G9Perm
import Perp.Props.WorldMore
import Perp.Props.MirrorInv
import Perp.Props.TxLog
import Perp.Props.TxMoney
import Perp.Props.TxFlow
import Perp.Props.SatOpen
import Perp.Props.SatClose
import Perp.Props.SatFree

namespace Perp.Props.SatB
open Perp Perp.World Perp.Engine Perp.Spec Perp.Props.ModelStep
open Perp.Props.TxLog Perp.Props.TxFlow Perp.Props.SatOpen Perp.Props.SatClose Perp.Props.SatFree

theorem chk_true (c : Bool) (tag : String) (h : c = true) : Spec.W.chk c tag = [] := by
  unfold Spec.W.chk; rw [h]; rfl

/-- the observation of a successful model transaction -/
def okStep (w w' : World) (env : Env) (s : Nat) (f : Funds) (tx : Tx) : Step :=
  { pre := w, post := w', env := env, sender := s, funds := f, tx := tx, ok := true,
    xfers := w'.log, residue := residue w'.engine }

theorem modelStep_ok (w w' : World) (env : Env) (s : Nat) (f : Funds) (tx : Tx)
    (h : applyTx w env s f tx = .ok w') : modelStep w env s f tx = okStep w w' env s f tx := by
  unfold modelStep okStep; rw [h]

theorem modelStep_err (w : World) (env : Env) (s : Nat) (f : Funds) (tx : Tx) (e : Err)
    (h : applyTx w env s f tx = .error e) : (modelStep w env s f tx).ok = false := by
  unfold modelStep; rw [h]

/-! ### C12 -/

theorem c12_open (w w' : World) (env : Env) (s : Nat) (f : Funds) (v : Nat) (side : Side) (m l b : Nat)
    (hp : PoolsWired w) (hs : Outside s)
    (h : applyTx w env s f (.engine (.openPosition v side m l b)) = .ok w') :
    Spec.C12.check (okStep w w' env s f (.engine (.openPosition v side m l b))) = [] := by
  obtain ⟨y0, tl, sp, hy0, hfee, hIs⟩ := open_facts w w' env s f v side m l b hp hs h
  have hLL := applyTx_LL w w' env s f _ h
  have hF := hLL FEEPOOL
  have hI := hLL IFUND
  obtain ⟨h1, h2, h3, h4, h5⟩ := hIs
  unfold toFP at h1
  unfold frFP at h2
  unfold toIF at h3
  unfold frIF at h4
  unfold nFP cnt at h5
  simp only [] at hF hI
  unfold Spec.C12.check okStep
  simp only [Spec.W.engineMsg, Spec.W.fpool, Spec.W.ifd, Spec.W.bal, Spec.C12.fees, hy0, hp.1, hp.2, Bool.not_true,
    Bool.false_eq_true, if_false]
  unfold feeOn at hfee
  injection hfee with ht hsp
  rw [ht, hsp, inflow_eq]
  rw [chk_true _ _ (by rw [beq_iff_eq]; omega), chk_true _ _ (by rw [beq_iff_eq]; omega),
    chk_true _ _ (by rw [beq_iff_eq, h5]; simp only [beq_iff_eq]),
    chk_true _ _ (by rw [beq_iff_eq]; omega)]
  rfl

theorem c12_close (w w' : World) (env : Env) (s : Nat) (f : Funds) (v lim : Nat)
    (hp : PoolsWired w) (hs : Outside s)
    (h : applyTx w env s f (.engine (.closePosition v lim)) = .ok w') :
    Spec.C12.check (okStep w w' env s f (.engine (.closePosition v lim))) = [] := by
  obtain ⟨x, x', tl, sp, hx, hx', hIs, hcase⟩ := close_facts w w' env s f v lim hp hs h
  have hLL := applyTx_LL w w' env s f _ h
  have hF := hLL FEEPOOL
  obtain ⟨h1, h2, h3, h4, h5⟩ := hIs
  unfold toFP at h1
  unfold frFP at h2
  unfold toIF at h3
  simp only [] at hF
  unfold Spec.C12.check okStep
  simp only [Spec.W.engineMsg, Spec.W.fpool, Spec.W.ifd, Spec.W.bal, Spec.C12.fees, Spec.W.hasPos, Spec.W.pos,
    Spec.W.quoteMoved, Spec.W.quoteOf, hx, hx', hp.1, hp.2, Bool.not_true,
    Bool.false_eq_true, if_false]
  have hN : feeOn x (if (!w'.engine.positions.any fun p => p.vamm == v && p.trader == s) = true then
                  (readPosition w.engine v s).notional
                else ((x'.st.quote : Int) - (x.st.quote : Int)).natAbs) = (tl, sp) := by
    rcases hcase with ⟨hany, hfee, _, _⟩ | ⟨hany, hfee⟩
    · rw [hany]; exact hfee
    · rw [hany]; exact hfee
  unfold feeOn at hN
  injection hN with ht hsp
  rw [ht, hsp, inflow_eq]
  rw [chk_true _ _ (by rw [beq_iff_eq]; omega), chk_true _ _ (by rw [beq_iff_eq]; omega)]
  rfl

theorem c12_free (w w' : World) (env : Env) (s : Nat) (f : Funds) (m : ExecMsg) (hno : NoFP w'.log)
    (hp : PoolsWired w) (h : applyTx w env s f (.engine m) = .ok w') :
    Spec.W.chk (Spec.W.bal (okStep w w' env s f (.engine m)).post (Spec.W.fpool (okStep w w' env s f (.engine m)))
        - Spec.W.bal (okStep w w' env s f (.engine m)).pre (Spec.W.fpool (okStep w w' env s f (.engine m))) == 0)
      "fee-charged-on-fee-free-operation" = [] := by
  have hF := applyTx_LL w w' env s f _ h FEEPOOL
  obtain ⟨h1, h2⟩ := hno
  unfold toFP at h1
  unfold frFP at h2
  simp only [] at hF
  apply chk_true
  unfold okStep
  simp only [Spec.W.fpool, Spec.W.bal, hp.2]
  rw [beq_iff_eq]
  omega

/-- **C12**: trading fees are exact, charged once, and routed to the right pools -/
theorem sat_C12 (w : World) (env : Env) (s : Nat) (f : Funds) (tx : Tx) (hwf : WF w)
    (hp : PoolsWired w) (hs : Outside s) :
    Spec.C12.check (modelStep w env s f tx) = [] := by
  have _ := hwf
  cases happ : applyTx w env s f tx with
  | error e =>
    unfold Spec.C12.check
    rw [modelStep_err w env s f tx e happ]
    rfl
  | ok w' =>
    rw [modelStep_ok w w' env s f tx happ]
    cases tx with
    | engine m =>
      cases m with
      | openPosition v side mg l b => exact c12_open w w' env s f v side mg l b hp hs happ
      | closePosition v lim => exact c12_close w w' env s f v lim hp hs happ
      | depositMargin v a =>
        have := c12_free w w' env s f _ (NoFP_of_Is (deposit_facts w w' env s f v a hs happ).1) hp happ
        unfold Spec.C12.check
        exact this
      | withdrawMargin v a =>
        obtain ⟨sf, hIs, _⟩ := withdraw_facts w w' env s f v a hs happ
        have := c12_free w w' env s f _ (NoFP_of_Is hIs) hp happ
        unfold Spec.C12.check
        exact this
      | payFunding v =>
        have := c12_free w w' env s f _ (payFunding_facts w w' env s f v hp hs happ) hp happ
        unfold Spec.C12.check
        exact this
      | liquidate v t lim =>
        have := c12_free w w' env s f _ (liquidate_facts w w' env s f v t lim hp hs happ) hp happ
        unfold Spec.C12.check
        exact this
      | updateConfig u => rfl
      | updatePauser p => rfl
      | addWhitelist a => rfl
      | removeWhitelist a => rfl
      | setPause p => rfl
    | _ => rfl


/-! ### C04 -/

/-- the insurance-fund clause from the pool measures of the log -/
theorem c04_drain (w w' : World) (env : Env) (s : Nat) (f : Funds) (m : ExecMsg) (a c : Int) (n : Nat)
    (hp : PoolsWired w) (h : applyTx w env s f (.engine m) = .ok w')
    (hIs : Is w'.log a 0 c ((w'.engine.st.prepaid : Int) - (w.engine.st.prepaid : Int)) n) :
    Spec.W.chk (decide (Spec.W.bal (okStep w w' env s f (.engine m)).pre (Spec.W.ifd (okStep w w' env s f (.engine m)))
        - Spec.W.bal (okStep w w' env s f (.engine m)).post (Spec.W.ifd (okStep w w' env s f (.engine m)))
        ≤ ((okStep w w' env s f (.engine m)).post.engine.st.prepaid : Int)
          - ((okStep w w' env s f (.engine m)).pre.engine.st.prepaid : Int)))
      "insurance-fund-drained-beyond-prepaid-bad-debt" = [] := by
  have hI := applyTx_LL w w' env s f _ h IFUND
  obtain ⟨_, _, h3, h4, _⟩ := hIs
  unfold toIF at h3
  unfold frIF at h4
  have hnn := tot_nonneg (fun x => x.2.1 == IFUND) w'.log
  simp only [] at hI
  apply chk_true
  unfold okStep
  simp only [Spec.W.ifd, Spec.W.bal, hp.1, decide_eq_true_eq]
  omega

theorem c04_close (w w' : World) (env : Env) (s : Nat) (f : Funds) (v lim : Nat)
    (hp : PoolsWired w) (hs : Outside s)
    (h : applyTx w env s f (.engine (.closePosition v lim)) = .ok w') :
    Spec.C04.check (okStep w w' env s f (.engine (.closePosition v lim))) = [] := by
  obtain ⟨x, x', tl, sp, hx, hx', hIs, hcase⟩ := close_facts w w' env s f v lim hp hs h
  have hd := c04_drain w w' env s f _ _ _ _ hp h hIs
  unfold Spec.C04.check
  have hok : (okStep w w' env s f (.engine (.closePosition v lim))).ok = true := rfl
  simp only [hok, Bool.not_true, Bool.false_eq_true, if_false]
  have hem : Spec.W.engineMsg (okStep w w' env s f (.engine (.closePosition v lim))) = some (.closePosition v lim) := rfl
  simp only [hem]
  rw [hd, List.nil_append]
  rcases hcase with ⟨hany, _, hnn, hpay⟩ | ⟨hany, _⟩
  · have hhas : Spec.W.hasPos (okStep w w' env s f (.engine (.closePosition v lim))).post v
        (okStep w w' env s f (.engine (.closePosition v lim))).sender = false := hany
    rw [hhas, if_neg (by decide)]
    have hqm : ((Spec.W.quoteMoved (okStep w w' env s f (.engine (.closePosition v lim))) v : Nat) : Int)
        = (((x'.st.quote : Int) - (x.st.quote : Int)).natAbs : Int) := by
      unfold Spec.W.quoteMoved Spec.W.quoteOf okStep
      simp only [hx, hx']
    change Spec.W.chk (decide (equity w (readPosition w.engine v s)
          ((Spec.W.quoteMoved (okStep w w' env s f (.engine (.closePosition v lim))) v : Nat) : Int) ≥ 0)) _
        ++ Spec.W.chk (Spec.W.flow (okStep w w' env s f (.engine (.closePosition v lim))).xfers ENGINE
              (okStep w w' env s f (.engine (.closePosition v lim))).sender
            == equity w (readPosition w.engine v s)
                ((Spec.W.quoteMoved (okStep w w' env s f (.engine (.closePosition v lim))) v : Nat) : Int)) _ = []
    rw [hqm]
    have hflow : Spec.W.flow (okStep w w' env s f (.engine (.closePosition v lim))).xfers ENGINE
        (okStep w w' env s f (.engine (.closePosition v lim))).sender = pay s w'.log := rfl
    rw [hflow, hpay]
    rw [chk_true _ _ (by rw [decide_eq_true_eq]; exact hnn), chk_true _ _ (by rw [beq_iff_eq])]
    rfl
  · have hhas : Spec.W.hasPos (okStep w w' env s f (.engine (.closePosition v lim))).post v
        (okStep w w' env s f (.engine (.closePosition v lim))).sender = true := hany
    rw [hhas, if_pos rfl]

/-- **C04**: a whole close pays exactly the (non-negative) equity; the insurance fund is debited only by
    what is booked as pre-paid bad debt -/
theorem sat_C04 (w : World) (env : Env) (s : Nat) (f : Funds) (tx : Tx) (hwf : WF w)
    (hp : PoolsWired w) (hs : Outside s) :
    Spec.C04.check (modelStep w env s f tx) = [] := by
  have _ := hwf
  cases happ : applyTx w env s f tx with
  | error e =>
    unfold Spec.C04.check
    rw [modelStep_err w env s f tx e happ]
    rfl
  | ok w' =>
    rw [modelStep_ok w w' env s f tx happ]
    cases tx with
    | engine m =>
      cases m with
      | openPosition v side mg l b =>
        obtain ⟨y0, tl, sp, _, _, hIs⟩ := open_facts w w' env s f v side mg l b hp hs happ
        have hd := c04_drain w w' env s f _ _ _ _ hp happ hIs
        unfold Spec.C04.check
        have hok : (okStep w w' env s f (.engine (.openPosition v side mg l b))).ok = true := rfl
        have hem : Spec.W.engineMsg (okStep w w' env s f (.engine (.openPosition v side mg l b))) = some (.openPosition v side mg l b) := rfl
        simp only [hok, Bool.not_true, Bool.false_eq_true, if_false, hem]
        rw [hd]; rfl
      | closePosition v lim => exact c04_close w w' env s f v lim hp hs happ
      | depositMargin v a =>
        obtain ⟨hIs, hpp⟩ := deposit_facts w w' env s f v a hs happ
        have hd := c04_drain w w' env s f _ _ _ _ hp happ
          (Is_cast hIs rfl rfl rfl (by rw [hpp]; omega) rfl)
        unfold Spec.C04.check
        have hok : (okStep w w' env s f (.engine (.depositMargin v a))).ok = true := rfl
        have hem : Spec.W.engineMsg (okStep w w' env s f (.engine (.depositMargin v a))) = some (.depositMargin v a) := rfl
        simp only [hok, Bool.not_true, Bool.false_eq_true, if_false, hem]
        rw [hd]; rfl
      | withdrawMargin v a =>
        obtain ⟨sf, hIs, hpp⟩ := withdraw_facts w w' env s f v a hs happ
        have hd := c04_drain w w' env s f _ _ _ _ hp happ
          (Is_cast hIs rfl rfl rfl (by rw [hpp]; omega) rfl)
        unfold Spec.C04.check
        have hok : (okStep w w' env s f (.engine (.withdrawMargin v a))).ok = true := rfl
        have hem : Spec.W.engineMsg (okStep w w' env s f (.engine (.withdrawMargin v a))) = some (.withdrawMargin v a) := rfl
        simp only [hok, Bool.not_true, Bool.false_eq_true, if_false, hem]
        rw [hd]; rfl
      | payFunding v => rfl
      | liquidate v t lim => rfl
      | updateConfig u => rfl
      | updatePauser p => rfl
      | addWhitelist a => rfl
      | removeWhitelist a => rfl
      | setPause p => rfl
    | _ => rfl

/-! ### the same theorems under the bundles of `ModelStep` -/

theorem poolsWired_of_wired {w : World} (h : Wired w) : PoolsWired w := ⟨h.ifd, h.fp⟩
theorem outside_of_user {w : World} {s : Nat} (h : UserSender w s) : Outside s := ⟨h.1, h.2.1, h.2.2.1⟩

theorem sat_C04' (w : World) (env : Env) (s : Nat) (f : Funds) (tx : Tx) (hwf : WF w)
    (hw : Wired w) (hu : UserSender w s) : Spec.C04.check (modelStep w env s f tx) = [] :=
  sat_C04 w env s f tx hwf (poolsWired_of_wired hw) (outside_of_user hu)

theorem sat_C12' (w : World) (env : Env) (s : Nat) (f : Funds) (tx : Tx) (hwf : WF w)
    (hw : Wired w) (hu : UserSender w s) : Spec.C12.check (modelStep w env s f tx) = [] :=
  sat_C12 w env s f tx hwf (poolsWired_of_wired hw) (outside_of_user hu)


/-! ### necessity of the hypotheses (concrete worlds, evaluated by the kernel) -/

namespace Need

def D : Nat := 10^6

/-- one open vAMM at address 10: reserves 1 000 000 / 100 000, toll 1 %, spread 2 % -/
def v0 : Vamm.V :=
  { cfg := { owner := 50, marginEngine := ENGINE, insuranceFund := IFUND, pricefeed := FEED, holdingCap := 0,
             oiCap := 0, decimals := D, toll := 10000, spread := 20000, fluct := 0, twapInterval := 3600,
             fundingPeriod := 3600, fundingBuffer := 1800 },
    st := { isOpen := true, quote := 1000000 * D, base := 100000 * D, net := Integer.zero,
            fundingRate := Integer.zero, nextFunding := 0, snaps := [⟨1000000 * D, 100000 * D, 0, 0⟩] } }

def e0 (native : Bool) (ifd fp : Nat) : E :=
  { cfg := { owner := 60, insuranceFund := ifd, feePool := fp, native := native, decimals := D,
             imr := 50000, mmr := 50000, plr := 0, liqFee := 25000 },
    st := ⟨0, 0, false⟩, pauser := 60, whitelist := [], positions := [], vammMaps := [],
    tmpSwap := none, sentFunds := none, tmpLiq := none }

/-- a fresh deployment; every contract holds collateral and has approved the engine (cw20 case) -/
def w0 (native : Bool) (ifd fp : Nat) : World :=
  { env := ⟨1, 5⟩, engine := e0 native ifd fp, vamms := [(10, v0)],
    ifund := { owner := 61, engine := ENGINE, vamms := [10], stored := true },
    feePool := { owner := 62, tokens := [5] },
    feed := .mock { owner := 63, price := some (10 * D) },
    ledger := { bal := [(100, 10000 * D), (ENGINE, 5000 * D), (IFUND, 5000 * D), (FEEPOOL, 5000 * D)],
                allow := [(100, 10000 * D), (IFUND, 5000 * D), (FEEPOOL, 5000 * D)] } }

/-- 60 margin, 2x, long: notional 120, toll 1.2, spread 2.4 -/
def openTx : Tx := .engine (.openPosition 10 .buy (60 * D) (2 * D) 0)

theorem wf0 (n : Bool) (i p : Nat) : WF (w0 n i p) :=
  ⟨⟨rfl, rfl, rfl⟩, (by decide : ([100, ENGINE, IFUND, FEEPOOL] : List Nat).Nodup),
    (by decide : ([100, IFUND, FEEPOOL] : List Nat).Nodup)⟩

theorem pools0 (n : Bool) : PoolsWired (w0 n IFUND FEEPOOL) := ⟨rfl, rfl⟩
theorem outside100 : Outside 100 := ⟨by decide, by decide, by decide⟩

/-- sanity: with both hypotheses the same transaction passes both checks -/
example : (modelStep (w0 false IFUND FEEPOOL) ⟨2, 1000⟩ 100 ⟨0, false⟩ openTx).ok = true
    ∧ (modelStep (w0 false IFUND FEEPOOL) ⟨2, 1000⟩ 100 ⟨0, false⟩ openTx).xfers
        = [(100, 1, 60000000), (100, 2, 2400000), (100, 3, 1200000)] := by decide +kernel

/-- `s ≠ FEEPOOL` is needed (C12): the fee pool as trader pays margin and fees out of its own balance -/
theorem need_sender_not_feepool :
    Spec.C12.check (modelStep (w0 false IFUND FEEPOOL) ⟨2, 1000⟩ FEEPOOL ⟨0, false⟩ openTx)
      = ["open-toll-not-exact"] := by decide +kernel

/-- `s ≠ IFUND` is needed (C04 and C12): the insurance fund as trader is debited the margin and the toll -/
theorem need_sender_not_ifund :
    Spec.C04.check (modelStep (w0 false IFUND FEEPOOL) ⟨2, 1000⟩ IFUND ⟨0, false⟩ openTx)
      = ["insurance-fund-drained-beyond-prepaid-bad-debt"]
    ∧ Spec.C12.check (modelStep (w0 false IFUND FEEPOOL) ⟨2, 1000⟩ IFUND ⟨0, false⟩ openTx)
      = ["open-insurance-fund-delta"] := by decide +kernel

/-- native collateral: the engine itself opens (attached funds = margin + fees) … -/
def wE : World := step (w0 true IFUND FEEPOOL) ⟨2, 1000⟩ ENGINE ⟨63600000, false⟩ openTx

theorem wfE : WF wE := ⟨by decide +kernel, by decide +kernel, by decide +kernel⟩

/-- `s ≠ ENGINE` is needed (C04): … and closes with one unit attached, which the log shows as ENGINE → sender -/
theorem poolsE : PoolsWired wE := by
  constructor <;> decide +kernel

theorem need_sender_not_engine :
    Spec.C04.check (modelStep wE ⟨3, 2000⟩ ENGINE ⟨1, false⟩ (.engine (.closePosition 10 0)))
      = ["close-payout-not-equity"] := by decide +kernel

/-- `PoolsWired` is needed (C12): with the fee pool configured at the insurance fund's address the two
    fees land on one account -/
theorem need_pools_wired :
    Spec.C12.check (modelStep (w0 false IFUND IFUND) ⟨2, 1000⟩ 100 ⟨0, false⟩ openTx)
      = ["open-toll-not-exact", "open-spread-not-exact", "open-toll-charged-more-than-once",
         "open-insurance-fund-delta"] := by decide +kernel

end Need

end Perp.Props.SatB
