/-
  SatWithdrawExact — refinement theorem for `Spec.C08.checkWithdrawExact` (`Spec.extraChecks8`): an accepted
  `Withdraw{amount}` (amount ≠ 0) of the insurance fund moved exactly `amount`, once, from the fund to its engine, and
  nothing else moved.

  Route: a successful `execMsg _ w sender (.ifWithdraw amt)` runs exactly one fire-and-forget collateral message
  (`bankSend` for native collateral, cw20 `Transfer` otherwise) sent by `IFUND` to `w.ifund.engine`; both reject a zero
  amount and append exactly `(IFUND, w.ifund.engine, amt)` to the ghost log (`move_log`, `ifWithdraw_log`).  `applyTx`
  resets the log, so the log of the transaction is that single entry; `modelStep` reports it as `xfers`.

  Hypotheses: NONE — every world (wired or not), block, sender, funds and transaction.  The sender recorded in the log is
  the fund's fixed address `IFUND` (the dispatcher runs the fund's sub-message with `c := IFUND`), the recipient is the
  fund's stored `engine` field of the PRE-state (a withdrawal does not write it), as the clause expects.

  §3: kernel-evaluated witnesses — real model withdrawals (cw20 and native) succeed with the clause empty, and the clause
  reports a hand-made short payment.
-/
import Perp.Model.World
import Perp.Spec.World
import Perp.Spec.WithdrawExact
import Perp.Props.ModelStep
import Perp.Props.SatScope

namespace Perp.Props.SatWithdrawExact
open Perp Perp.World Perp.Engine Perp.Spec Perp.Props.ModelStep

/-! ## 1. the dispatcher -/

/-- the fund's payment message appends exactly its entry, and rejects a zero amount -/
theorem move_log (fuel : Nat) (w : World) (native : Bool) (dst amt : Nat) (w' : World) (ev : Ev)
    (h : execMsg fuel w IFUND (if native then Msg.bankSend dst amt else Msg.tokenTransfer dst amt) = .ok (w', ev)) :
    w'.log = w.log ++ [(IFUND, dst, amt)] ∧ amt ≠ 0 ∧ w'.ifund = w.ifund := by
  cases fuel with
  | zero => unfold execMsg at h; cases h
  | succ fuel =>
    cases native with
    | true =>
      simp only [if_true] at h
      unfold execMsg at h
      simp at h
      obtain ⟨g, hg, rfl, _⟩ := h
      refine ⟨rfl, ?_, rfl⟩
      intro h0
      subst h0
      simp [Ledger.bankSend] at hg
    | false =>
      simp only [Bool.false_eq_true, if_false] at h
      unfold execMsg at h
      simp at h
      obtain ⟨g, hg, rfl, _⟩ := h
      refine ⟨rfl, ?_, rfl⟩
      intro h0
      subst h0
      simp [Ledger.tokenTransfer] at hg

/-- a successful fund withdrawal appends exactly `(IFUND, fund's engine, amt)`, and `amt ≠ 0` -/
theorem ifWithdraw_log (fuel : Nat) (w : World) (sender amt : Nat) (w' : World) (ev : Ev)
    (h : execMsg fuel w sender (.ifWithdraw amt) = .ok (w', ev)) :
    w'.log = w.log ++ [(IFUND, w.ifund.engine, amt)] ∧ amt ≠ 0 := by
  cases fuel with
  | zero => unfold execMsg at h; cases h
  | succ fuel =>
    unfold execMsg at h
    simp only [] at h
    split at h
    · cases h
    split at h
    · cases h
    cases fuel with
    | zero => unfold execSubs at h; cases h
    | succ fuel =>
      unfold execSubs at h
      simp only [] at h
      split at h
      · rename_i w1 ev1 hm
        have hm' : execMsg fuel w IFUND
            (if w.engine.cfg.native then Msg.bankSend w.ifund.engine amt else Msg.tokenTransfer w.ifund.engine amt)
            = .ok (w1, ev1) := by
          rw [← hm]; split <;> rfl
        obtain ⟨hl, hn, _⟩ := move_log fuel w _ _ _ w1 ev1 hm'
        have hro : ∀ b : Bool, (if b = true then (⟨Msg.bankSend w.ifund.engine amt, 0, ReplyOn.never⟩ : SubMsg)
            else ⟨Msg.tokenTransfer w.ifund.engine amt, 0, ReplyOn.never⟩).replyOn = .never := by
          intro b; cases b <;> rfl
        rw [hro] at h
        simp only [reduceCtorEq, or_self, if_false] at h
        cases fuel with
        | zero => unfold execSubs at h; cases h
        | succ fuel =>
          unfold execSubs at h
          simp at h
          obtain ⟨rfl, _⟩ := h
          exact ⟨hl, hn⟩
      · rename_i err hm
        have hro : ∀ b : Bool, (if b = true then (⟨Msg.bankSend w.ifund.engine amt, 0, ReplyOn.never⟩ : SubMsg)
            else ⟨Msg.tokenTransfer w.ifund.engine amt, 0, ReplyOn.never⟩).replyOn = .never := by
          intro b; cases b <;> rfl
        rw [hro] at h
        simp at h

/-! ## 2. the transaction -/

theorem applyTx_ifWithdraw (w w' : World) (env : Env) (s : Nat) (f : Funds) (amt : Nat)
    (h : applyTx w env s f (.ifWithdraw amt) = .ok w') :
    w'.log = [(IFUND, w.ifund.engine, amt)] ∧ amt ≠ 0 := by
  unfold applyTx at h
  simp only [] at h
  cases hm : execMsg FUEL { w with env := env, log := [] } s (.ifWithdraw amt) with
  | error e => rw [hm] at h; cases h
  | ok r =>
    obtain ⟨w1, ev⟩ := r
    rw [hm] at h
    cases h
    have := ifWithdraw_log FUEL _ s amt w1 ev hm
    simpa using this

/-- MAIN -/
theorem sat_C08_withdrawExact (w : World) (env : Env) (s : Nat) (f : Engine.Funds) (tx : Tx) :
    Spec.C08.checkWithdrawExact (modelStep w env s f tx) = [] := by
  have htx : (modelStep w env s f tx).tx = tx := by unfold modelStep; split <;> rfl
  have hpre : (modelStep w env s f tx).pre = w := by unfold modelStep; split <;> rfl
  unfold Spec.C08.checkWithdrawExact
  rw [htx, hpre]
  split
  · rename_i amt
    split
    · rfl
    · rename_i hc
      have hx : (modelStep w env s f (.ifWithdraw amt)).xfers = [(IFUND, w.ifund.engine, amt)] ∧ amt ≠ 0 := by
        unfold modelStep at hc ⊢
        cases h : applyTx w env s f (.ifWithdraw amt) with
        | error e => rw [h] at hc; simp at hc
        | ok w' => exact applyTx_ifWithdraw w w' env s f amt h
      rw [hx.1]
      have hn : (amt != 0) = true := by simp [hx.2]
      simp [W.chk, List.filter, hn]
  · rfl

theorem sat_extra8 (w : World) (env : Env) (s : Nat) (f : Engine.Funds) (tx : Tx) :
    ∀ pc ∈ Spec.extraChecks8 (modelStep w env s f tx), pc.2 = [] := by
  intro pc hpc
  simp only [Spec.extraChecks8, List.mem_singleton] at hpc
  subst hpc
  exact sat_C08_withdrawExact w env s f tx

/-! ## 3. witnesses (kernel-evaluated)

  The two-vAMM deployment of `SatScope.Witness` (cw20 collateral; the fund holds 5000 units and names `ENGINE` as its
  engine), and the same deployment with native collateral. -/

namespace Witness
open Perp.Props.SatScope.Witness (wFull envA)

def TAG : String := "fund-withdrawal-accepted-but-not-paid-in-full"

/-- cw20 collateral -/
def wTok : World := wFull
/-- the same deployment on native collateral -/
def wNat : World := { wFull with engine := { wFull.engine with cfg := { wFull.engine.cfg with native := true } } }

def wdTx : Tx := .ifWithdraw 100

set_option maxRecDepth 100000 in
/-- **(a)** a model `Withdraw{100}` sent by the engine SUCCEEDS, on cw20 and on native collateral; the transfers of the
    transaction are exactly `[(IFUND, ENGINE, 100)]` (the sender recorded is the fund's address `IFUND`), the balances
    moved accordingly, and the clause evaluates to `[]` -/
theorem real_withdraw :
    (modelStep wTok envA ENGINE ⟨0, false⟩ wdTx).ok = true
    ∧ (modelStep wTok envA ENGINE ⟨0, false⟩ wdTx).xfers = [(IFUND, ENGINE, 100)]
    ∧ (modelStep wTok envA ENGINE ⟨0, false⟩ wdTx).post.ledger.balance IFUND + 100 = wTok.ledger.balance IFUND
    ∧ (modelStep wTok envA ENGINE ⟨0, false⟩ wdTx).post.ledger.balance ENGINE = wTok.ledger.balance ENGINE + 100
    ∧ Spec.C08.checkWithdrawExact (modelStep wTok envA ENGINE ⟨0, false⟩ wdTx) = []
    ∧ Spec.extraChecks8 (modelStep wTok envA ENGINE ⟨0, false⟩ wdTx) = [("C08", [])]
    ∧ (modelStep wNat envA ENGINE ⟨0, false⟩ wdTx).ok = true
    ∧ (modelStep wNat envA ENGINE ⟨0, false⟩ wdTx).xfers = [(IFUND, ENGINE, 100)]
    ∧ Spec.C08.checkWithdrawExact (modelStep wNat envA ENGINE ⟨0, false⟩ wdTx) = [] := by
  decide +kernel

set_option maxRecDepth 100000 in
/-- what the model refuses (so the clause is not judged): a withdrawal by anyone but the fund's engine, a zero amount,
    and an amount the fund does not hold — the model's fund FAILS rather than paying what it has -/
theorem refused_withdraw :
    applyTx wTok envA 102 ⟨0, false⟩ wdTx = .error .unauthorized
    ∧ applyTx wTok envA ENGINE ⟨0, false⟩ (.ifWithdraw 0) = .error (.guard 90)
    ∧ applyTx wNat envA ENGINE ⟨0, false⟩ (.ifWithdraw 0) = .error (.guard 90)
    ∧ applyTx wTok envA ENGINE ⟨0, false⟩ (.ifWithdraw (wTok.ledger.balance IFUND + 1)) = .error .overflow
    ∧ Spec.C08.checkWithdrawExact
        (modelStep wTok envA ENGINE ⟨0, false⟩ (.ifWithdraw (wTok.ledger.balance IFUND + 1))) = [] := by
  decide +kernel

/-- a hand-made observation: `Withdraw{100}` accepted, but only 40 moved from the fund to the engine (the seeded
    `amount.min(balance)` behaviour) -/
def shortStep : Step :=
  { pre := wTok, post := wTok, env := envA, sender := ENGINE, funds := ⟨0, false⟩, tx := wdTx, ok := true,
    xfers := [(IFUND, ENGINE, 40)], residue := false }

set_option maxRecDepth 100000 in
/-- **(b)** the clause is not vacuous: it reports a short payment, a payment made twice, a payment to someone else, a
    payment with another transfer beside it, and an accepted withdrawal that moved nothing; it accepts the exact payment
    (also with zero-amount entries beside it) and does not judge a rejected or a zero withdrawal -/
theorem clause_not_vacuous :
    Spec.C08.checkWithdrawExact shortStep = [TAG]
    ∧ Spec.extraChecks8 shortStep = [("C08", [TAG])]
    ∧ Spec.C08.checkWithdrawExact { shortStep with xfers := [(IFUND, ENGINE, 100), (IFUND, ENGINE, 100)] } = [TAG]
    ∧ Spec.C08.checkWithdrawExact { shortStep with xfers := [(IFUND, 102, 100)] } = [TAG]
    ∧ Spec.C08.checkWithdrawExact { shortStep with xfers := [(IFUND, ENGINE, 100), (ENGINE, 102, 100)] } = [TAG]
    ∧ Spec.C08.checkWithdrawExact { shortStep with xfers := [] } = [TAG]
    ∧ Spec.C08.checkWithdrawExact { shortStep with xfers := [(IFUND, ENGINE, 100)] } = []
    ∧ Spec.C08.checkWithdrawExact { shortStep with xfers := [(ENGINE, 102, 0), (IFUND, ENGINE, 100)] } = []
    ∧ Spec.C08.checkWithdrawExact { shortStep with ok := false } = []
    ∧ Spec.C08.checkWithdrawExact { shortStep with tx := .ifWithdraw 0 } = [] := by
  decide +kernel

end Witness

end Perp.Props.SatWithdrawExact

#print axioms Perp.Props.SatWithdrawExact.sat_C08_withdrawExact
#print axioms Perp.Props.SatWithdrawExact.sat_extra8
