/-
  C15 (vAMM part) — per-block price bandRaw.  Statements were fixed before the proofs were written.
-/
import Perp.Model.VammRun
import Perp.Spec.Vamm
import Perp.Lemmas.Basic

namespace Perp.Props.C15
open Perp Perp.Vamm Perp.Spec.C15

theorem priceOf_ok (D q b r : Nat) (h : priceOf D q b = .ok r) : b ≠ 0 ∧ r = spot D q b := by
  unfold priceOf at h
  simp at h
  obtain ⟨x, ⟨_, hx⟩, hb, hr⟩ := h
  subst hx
  exact ⟨hb, hr⟩

/-- the boundary computation from a given reference snapshot -/
def bounds (cfg : Config) (l : Snapshot) : Except Err (Nat × Nat) := do
  let last ← priceOf cfg.decimals l.quote l.base
  let up ← cadd cfg.decimals cfg.fluct
  let upper ← (do let x ← cmul last up; cdiv x cfg.decimals)
  let dn ← csub cfg.decimals cfg.fluct
  let lower ← (do let x ← cmul last dn; cdiv x cfg.decimals)
  pure (upper, lower)

theorem bounds_ok (cfg : Config) (l : Snapshot) (up lo : Nat) (h : bounds cfg l = .ok (up, lo)) :
    l.base ≠ 0 ∧ cfg.decimals ≠ 0 ∧
      up = l.quote * cfg.decimals / l.base * (cfg.decimals + cfg.fluct) / cfg.decimals ∧
      lo = l.quote * cfg.decimals / l.base * (cfg.decimals - cfg.fluct) / cfg.decimals := by
  unfold bounds at h
  simp at h
  obtain ⟨p, hp, a, ⟨_, ha⟩, x, ⟨_, hx⟩, u, ⟨hD, hu⟩, d, ⟨_, hd⟩, y, ⟨_, hy⟩, ⟨_, hlo⟩, hup⟩ := h
  obtain ⟨hb, hp⟩ := priceOf_ok _ _ _ _ hp
  subst hp ha hx hu hd hy hlo hup
  exact ⟨hb, hD, rfl, rfl⟩

theorem priceBoundaries_ref (cfg : Config) (snaps : List Snapshot) (env : Env) (r : Nat × Nat)
    (h : priceBoundaries cfg snaps env = .ok r) :
    ∃ l, refSnapshot snaps env.height = some l ∧ bounds cfg l = .ok r := by
  unfold priceBoundaries at h
  cases snaps with
  | nil => simp at h
  | cons s rest =>
    cases rest with
    | nil => exact ⟨s, rfl, h⟩
    | cons s2 t =>
      simp only [refSnapshot]
      by_cases hh : s.height = env.height
      · simp only [hh, if_true] at h ⊢
        exact ⟨s2, rfl, h⟩
      · simp only [hh, if_false] at h ⊢
        exact ⟨s, rfl, h⟩

theorem priceBoundaries_eq_band (cfg : Config) (snaps : List Snapshot) (env : Env) (up lo : Nat)
    (h : priceBoundaries cfg snaps env = .ok (up, lo)) :
    bandRaw cfg.decimals cfg.fluct snaps env.height = some (up, lo) := by
  obtain ⟨l, hl, hb⟩ := priceBoundaries_ref cfg snaps env _ h
  obtain ⟨hb, hD, hu, hlo⟩ := bounds_ok cfg l up lo hb
  simp [bandRaw, hl, hb, hD, hu, hlo]

theorem inside_iff (D : Nat) (bd : Nat × Nat) (q b : Nat) :
    inside D bd q b = true ↔ (spot D q b ≤ bd.1 ∧ bd.2 ≤ spot D q b) := by
  simp [inside]

theorem not_inside_eq (D : Nat) (bd : Nat × Nat) (q b : Nat) :
    (!(inside D bd q b)) = (!decide (spot D q b ≤ bd.1) || !decide (bd.2 ≤ spot D q b)) := by
  simp [inside]

def postQ (dir : Direction) (q qa : Nat) : Nat :=
  match dir with | .addToAmm => q + qa | .removeFromAmm => q - qa
def postB (dir : Direction) (b ba : Nat) : Nat :=
  match dir with | .addToAmm => b - ba | .removeFromAmm => b + ba

theorem checkFluctuation_ok (v : V) (env : Env) (dir : Direction) (qa ba : Nat) (cgo : Bool)
    (hf : v.cfg.fluct ≠ 0) (h : checkFluctuation v env dir qa ba cgo = .ok ()) :
    ∃ bd, priceBoundaries v.cfg v.st.snaps env = .ok bd
      ∧ inside v.cfg.decimals bd v.st.quote v.st.base = true
      ∧ (cgo = false →
          inside v.cfg.decimals bd (postQ dir v.st.quote qa) (postB dir v.st.base ba) = true) := by
  unfold checkFluctuation at h
  simp only [hf, if_false] at h
  simp at h
  obtain ⟨up, lo, hpb, cur, hcur, h⟩ := h
  obtain ⟨_, hcur⟩ := priceOf_ok _ _ _ _ hcur
  subst hcur
  refine ⟨(up, lo), hpb, ?_⟩
  split at h
  · cases h
  · rename_i hg
    refine ⟨by rw [inside_iff]; simp only []; omega, ?_⟩
    intro hc
    simp only [hc, if_true] at h
    cases dir <;> simp at h <;>
      obtain ⟨q, ⟨_, hq⟩, x, ⟨_, hx⟩, b, ⟨_, hb⟩, p, ⟨_, hp⟩, h⟩ := h <;>
      subst hq hx hb hp <;> split at h
    · cases h
    · rename_i hg2
      simp only [not_or, Nat.not_lt] at hg2
      rw [inside_iff]
      simpa [spot, postQ, postB] using hg2
    · cases h
    · rename_i hg2
      simp only [not_or, Nat.not_lt] at hg2
      rw [inside_iff]
      simpa [spot, postQ, postB] using hg2

theorem updateReserve_ok (v v' : V) (env : Env) (dir : Direction) (qa ba : Nat) (cgo : Bool)
    (h : updateReserve v env dir qa ba cgo = .ok v') :
    checkFluctuation v env dir qa ba cgo = .ok () ∧
      v'.st.quote = postQ dir v.st.quote qa ∧ v'.st.base = postB dir v.st.base ba := by
  unfold updateReserve at h
  simp at h
  obtain ⟨⟨x, hx⟩, h⟩ := h
  refine ⟨hx, ?_⟩
  cases dir <;> simp at h
  · obtain ⟨q, ⟨_, hq⟩, b, ⟨_, hb⟩, n, _, h⟩ := h
    subst h hq hb
    exact ⟨rfl, rfl⟩
  · obtain ⟨b, ⟨_, hb⟩, q, ⟨_, hq⟩, n, _, h⟩ := h
    subst h hq hb
    exact ⟨rfl, rfl⟩

theorem swapInput_ok (v v' : V) (env : Env) (s : Nat) (dir : Direction) (amt lim : Nat) (cgo : Bool)
    (o : SwapOut) (h : swapInput v env s dir amt lim cgo = .ok (v', o)) :
    ∃ ba, updateReserve v env dir amt ba cgo = .ok v' := by
  unfold swapInput at h
  simp at h
  obtain ⟨_, _, h⟩ := h
  split at h
  · simp at h
    obtain ⟨w, hw, h, _⟩ := h
    subst h
    exact ⟨_, hw⟩
  · simp at h
    obtain ⟨b, _, h⟩ := h
    repeat' split at h
    all_goals simp at h
    all_goals
      obtain ⟨w, hw, h, _⟩ := h
      subst h
      exact ⟨_, hw⟩

theorem swapOutput_ok (v v' : V) (env : Env) (s : Nat) (dir : Direction) (amt lim : Nat)
    (o : SwapOut) (h : swapOutput v env s dir amt lim = .ok (v', o)) :
    ∃ qa, queryOutputAmount v dir amt = .ok qa ∧
      updateReserve v env dir.flip qa amt true = .ok v' := by
  unfold swapOutput at h
  simp at h
  obtain ⟨_, _, h⟩ := h
  split at h
  · rename_i h0
    simp at h
    obtain ⟨w, hw, h, _⟩ := h
    subst h
    exact ⟨0, by simp [queryOutputAmount, getOutputPrice, h0], hw⟩
  · simp at h
    obtain ⟨q, hq, h⟩ := h
    repeat' split at h
    all_goals simp at h
    all_goals
      obtain ⟨w, hw, h, _⟩ := h
      subst h
      exact ⟨_, hq, hw⟩

theorem checkFluctuation_band (v : V) (env : Env) (dir : Direction) (qa ba : Nat) (cgo : Bool)
    (hf : v.cfg.fluct ≠ 0) (h : checkFluctuation v env dir qa ba cgo = .ok ()) :
    ∃ bd, priceBoundaries v.cfg v.st.snaps env = .ok bd
      ∧ bandRaw v.cfg.decimals v.cfg.fluct v.st.snaps env.height = some bd
      ∧ inside v.cfg.decimals bd v.st.quote v.st.base = true
      ∧ (cgo = false →
          inside v.cfg.decimals bd (postQ dir v.st.quote qa) (postB dir v.st.base ba) = true) := by
  obtain ⟨⟨up, lo⟩, hpb, h1, h2⟩ := checkFluctuation_ok v env dir qa ba cgo hf h
  exact ⟨(up, lo), hpb, priceBoundaries_eq_band _ _ _ _ _ hpb, h1, h2⟩

theorem swapInput_inside_band (v v' : V) (env : Env) (s : Nat) (dir : Direction) (amt lim : Nat)
    (o : SwapOut) (hf : v.cfg.fluct ≠ 0)
    (h : swapInput v env s dir amt lim false = .ok (v', o)) :
    ∃ bd, bandRaw v.cfg.decimals v.cfg.fluct v.st.snaps env.height = some bd
      ∧ inside v.cfg.decimals bd v.st.quote v.st.base = true
      ∧ inside v.cfg.decimals bd v'.st.quote v'.st.base = true := by
  obtain ⟨ba, hu⟩ := swapInput_ok _ _ _ _ _ _ _ _ _ h
  obtain ⟨hc, hq, hb⟩ := updateReserve_ok _ _ _ _ _ _ _ hu
  obtain ⟨bd, _, hbd, h1, h2⟩ := checkFluctuation_band _ _ _ _ _ _ hf hc
  refine ⟨bd, hbd, h1, ?_⟩
  rw [hq, hb]
  exact h2 rfl

theorem updateReserve_rejected_outside (v : V) (env : Env) (dir : Direction) (qa ba : Nat)
    (cgo : Bool) (hf : v.cfg.fluct ≠ 0) (bd : Nat × Nat)
    (hb : bandRaw v.cfg.decimals v.cfg.fluct v.st.snaps env.height = some bd)
    (hout : inside v.cfg.decimals bd v.st.quote v.st.base = false) (v' : V) :
    updateReserve v env dir qa ba cgo ≠ .ok v' := by
  intro hu
  obtain ⟨hc, _, _⟩ := updateReserve_ok _ _ _ _ _ _ _ hu
  obtain ⟨bd', _, hbd, h1, _⟩ := checkFluctuation_band _ _ _ _ _ _ hf hc
  rw [hb] at hbd
  cases hbd
  rw [hout] at h1
  cases h1

theorem swapInput_rejected_outside (v : V) (env : Env) (s : Nat) (dir : Direction) (amt lim : Nat)
    (cgo : Bool) (hf : v.cfg.fluct ≠ 0) (bd : Nat × Nat)
    (hb : bandRaw v.cfg.decimals v.cfg.fluct v.st.snaps env.height = some bd)
    (hout : inside v.cfg.decimals bd v.st.quote v.st.base = false) :
    ∃ e, swapInput v env s dir amt lim cgo = .error e := by
  rcases except_cases (swapInput v env s dir amt lim cgo) with h | ⟨⟨v', o⟩, h⟩
  · exact h
  · exfalso
    obtain ⟨ba, hu⟩ := swapInput_ok _ _ _ _ _ _ _ _ _ h
    exact updateReserve_rejected_outside v env dir amt ba cgo hf bd hb hout v' hu

theorem swapOutput_rejected_outside (v : V) (env : Env) (s : Nat) (dir : Direction) (amt lim : Nat)
    (hf : v.cfg.fluct ≠ 0) (bd : Nat × Nat)
    (hb : bandRaw v.cfg.decimals v.cfg.fluct v.st.snaps env.height = some bd)
    (hout : inside v.cfg.decimals bd v.st.quote v.st.base = false) :
    ∃ e, swapOutput v env s dir amt lim = .error e := by
  rcases except_cases (swapOutput v env s dir amt lim) with h | ⟨⟨v', o⟩, h⟩
  · exact h
  · exfalso
    obtain ⟨qa, _, hu⟩ := swapOutput_ok _ _ _ _ _ _ _ _ h
    exact updateReserve_rejected_outside v env dir.flip qa amt true hf bd hb hout v' hu

theorem swapOutput_started_inside (v v' : V) (env : Env) (s : Nat) (dir : Direction) (amt lim : Nat)
    (o : SwapOut) (hf : v.cfg.fluct ≠ 0)
    (h : swapOutput v env s dir amt lim = .ok (v', o)) :
    ∃ bd, bandRaw v.cfg.decimals v.cfg.fluct v.st.snaps env.height = some bd
      ∧ inside v.cfg.decimals bd v.st.quote v.st.base = true := by
  obtain ⟨qa, _, hu⟩ := swapOutput_ok _ _ _ _ _ _ _ _ h
  obtain ⟨hc, _, _⟩ := updateReserve_ok _ _ _ _ _ _ _ hu
  obtain ⟨bd, _, hbd, h1, _⟩ := checkFluctuation_band _ _ _ _ _ _ hf hc
  exact ⟨bd, hbd, h1⟩

theorem isOverFluctuation_spec (v v' : V) (env : Env) (s : Nat) (dir : Direction) (amt : Nat) (r : Bool)
    (o : SwapOut) (hf : v.cfg.fluct ≠ 0)
    (hq : queryIsOverFluctuationLimit v env dir amt = .ok r)
    (hs : swapOutput v env s dir amt 0 = .ok (v', o)) :
    ∃ bd, bandRaw v.cfg.decimals v.cfg.fluct v.st.snaps env.height = some bd
      ∧ r = !(inside v.cfg.decimals bd v'.st.quote v'.st.base) := by
  obtain ⟨qa, hqa, hu⟩ := swapOutput_ok _ _ _ _ _ _ _ _ hs
  obtain ⟨hc, hq', hb'⟩ := updateReserve_ok _ _ _ _ _ _ _ hu
  obtain ⟨bd, hpb, hbd, _, _⟩ := checkFluctuation_band _ _ _ _ _ _ hf hc
  refine ⟨bd, hbd, ?_⟩
  unfold queryIsOverFluctuationLimit at hq
  simp only [hf, if_false] at hq
  rw [hpb, hqa] at hq
  rw [hq', hb']
  cases dir <;> simp at hq <;>
    obtain ⟨q, ⟨_, hq1⟩, x, ⟨_, hx⟩, b, ⟨_, hb1⟩, p, ⟨_, hp⟩, hr⟩ := hq <;>
    subst hq1 hx hb1 hp hr <;>
    rw [not_inside_eq] <;> rfl

theorem isOverFluctuation_zero_limit (v : V) (env : Env) (dir : Direction) (amt : Nat)
    (hf : v.cfg.fluct = 0) : queryIsOverFluctuationLimit v env dir amt = .ok false := by
  simp [queryIsOverFluctuationLimit, hf]

/-- where the property's band is defined (reference snapshot from an earlier block) it is the band the
    contract computes; in the instantiation block the property's band is undefined -/
theorem band_some_raw (D f : Nat) (snaps : List Snapshot) (height : Nat) (bd : Nat × Nat)
    (h : Perp.Spec.C15.band D f snaps height = some bd) : bandRaw D f snaps height = some bd := by
  unfold Perp.Spec.C15.band at h
  unfold bandRaw
  split at h
  · cases h
  · rename_i s hs
    split at h
    · cases h
    · rename_i hc
      have hc' : ¬ (s.base = 0 ∨ D = 0) := fun hh => hc (by rcases hh with a | b; exact Or.inl a; exact Or.inr (Or.inl b))
      rw [if_neg hc']
      exact h

theorem band_defined_iff_earlier (D f : Nat) (snaps : List Snapshot) (height : Nat) (bd : Nat × Nat)
    (h : Perp.Spec.C15.band D f snaps height = some bd) :
    ∃ s, refSnapshot snaps height = some s ∧ s.height < height := by
  unfold Perp.Spec.C15.band at h
  split at h
  · cases h
  · rename_i s hs
    split at h
    · cases h
    · rename_i hc
      exact ⟨s, hs, by omega⟩

end Perp.Props.C15
