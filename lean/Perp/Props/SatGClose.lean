/-
  SatG, part 4 — ClosePosition (whole close): the reply on native collateral with the fee coins already in the
  vault against the reply on cw20 collateral.
-/
import Perp.Props.SatGOpen
import Perp.Props.TxMoney

namespace Perp.Props.SatGClose
open Perp Perp.World Perp.Engine Perp.Props.LiqTwin Perp.Props.SatGTwin Perp.Props.SatGOpen

/-- a successful `A` that passes the test `C` is reproduced by `B` -/
def Imp {α : Type} (C : α → Prop) (A B : Except Err α) : Prop := ∀ r, A = .ok r → C r → B = .ok r

section
variable {α γ : Type} {C : α → Prop}

theorem Imp.refl (A : Except Err α) : Imp C A A := fun _ h _ => h

theorem Imp.bind_same (x : Except Err γ) (f g : γ → Except Err α) (h : ∀ c, x = .ok c → Imp C (f c) (g c)) :
    Imp C (x >>= f) (x >>= g) := by
  cases x with
  | error e => intro r hr; cases hr
  | ok c => exact h c rfl

theorem Imp.ite (c : Prop) {i1 i2 : Decidable c} (a a' b b' : Except Err α)
    (h1 : c → Imp C a b) (h2 : ¬ c → Imp C a' b') : Imp C (@ite _ c i1 a a') (@ite _ c i2 b b') := by
  by_cases h : c
  · rw [if_pos h, if_pos h]; exact h1 h
  · rw [if_neg h, if_neg h]; exact h2 h

theorem Imp.bind_mid (x1 x2 : Except Err γ) (f g : γ → Except Err α)
    (hx : ∀ c r, x1 = .ok c → f c = .ok r → C r → x2 = .ok c) (h : ∀ c, Imp C (f c) (g c)) :
    Imp C (x1 >>= f) (x2 >>= g) := by
  intro r hr hC
  cases hx1 : x1 with
  | error e => rw [hx1] at hr; cases hr
  | ok c =>
    rw [hx1] at hr
    have hf : f c = .ok r := hr
    rw [hx c r hx1 hf hC]
    exact h c r hf hC
end

macro "imp_walk" : tactic => `(tactic|
  repeat' first
    | (with_reducible exact Imp.refl _)
    | (with_reducible refine Imp.bind_same _ _ _ fun _ _ => ?_)
    | (with_reducible refine Imp.ite _ _ _ _ _ (fun _ => ?_) (fun _ => ?_)))

@[simp] theorem qb_balance (q : Q) (f : Nat → Except Err Nat) : (qb q f).balance = f := rfl

theorem withdraw_noshort (q : Q) (e : E) (st : State) (r amt B : Nat) (hb : q.balance ENGINE_ADDR = .ok B)
    (hB : B ≤ U128.MAX) (h : amt ≤ B) : withdraw q e st r amt 0 = .ok (st, [transferMsg e.cfg r amt]) := by
  unfold withdraw
  rw [hb]
  have h1 : cadd B 0 = .ok B := by simp; omega
  simp only [unwrap, bind, Except.bind, h1]
  rw [if_neg (by omega)]
  rfl

/-- the test: no shortfall was booked, and every payout to the trader fits in `B2` -/
def NoShort (e : E) (tr B2 : Nat) (r : E × List SubMsg) : Prop :=
  r.1.st.prepaid = e.st.prepaid ∧ ∀ amt, transferMsg e.cfg tr amt ∈ r.2 → amt ≤ B2

theorem cpr_swapq (q : Q) (f1 f2 : Nat → Except Err Nat) (e : E) (env : Env) (o : Nat) (swap : TmpSwap)
    (hsw : e.tmpSwap = some swap) (B2 : Nat) (h2 : f2 ENGINE_ADDR = .ok B2) (hB2 : B2 ≤ U128.MAX) :
    Imp (NoShort e swap.trader B2) (closePositionReply (qb q f1) e env o) (closePositionReply (qb q f2) e env o) := by
  unfold closePositionReply
  simp only [qb_updateOpenInterest, qb_transferFees, hsw, pure_bind]
  imp_walk
  refine Imp.bind_mid _ _ _ _ ?_ (fun c => Imp.refl _)
  intro c r hw hrest hC
  rename_i wa _ _ _
  -- what the rest of the reply does with the result of `withdraw`
  have hfacts : r.1.st.prepaid = c.1.prepaid ∧ ∀ m ∈ c.2, m ∈ r.2 := by
    split at hrest
    · simp only [bind_ok_iff, pure_ok_iff] at hrest
      obtain ⟨fm, _, v1, _, value, _, st, hst, rfl⟩ := hrest
      exact ⟨Perp.Props.TxMoney.updateOpenInterest_prepaid _ _ _ _ _ _ _ hst, fun m hm => List.mem_append_left _ hm⟩
    · simp only [bind_ok_iff, pure_ok_iff] at hrest
      obtain ⟨v1, _, value, _, st, hst, rfl⟩ := hrest
      exact ⟨Perp.Props.TxMoney.updateOpenInterest_prepaid _ _ _ _ _ _ _ hst, fun m hm => hm⟩
  obtain ⟨c1, c2⟩ := c
  rw [EngineMoney.unwrap_ok] at hw
  obtain ⟨bal, hbal, hcase⟩ := EngineMoney.withdraw_spec _ _ _ _ _ _ _ _ hw
  rw [EngineMoney.unwrap_ok]
  rcases hcase with ⟨hlt, hpp, _, _, _⟩ | ⟨hle, rfl, rfl⟩
  · have := hC.1
    rw [hfacts.1] at this
    dsimp only at this hpp
    omega
  · have hamt : wa.value ≤ B2 := hC.2 _ (hfacts.2 _ (List.mem_singleton.2 rfl))
    exact withdraw_noshort _ _ _ _ _ B2 h2 hB2 hamt


/-! ### shape of the cw20 messages of a whole close without shortfall -/

def payC (s a : Nat) : List SubMsg :=
  if a ≠ 0 then [⟨.tokenTransfer s a, REPLY_TRANSFER_FAILURE, .error⟩] else []

def payN (s a : Nat) : List SubMsg :=
  if a ≠ 0 then [⟨.bankSend s a, REPLY_TRANSFER_FAILURE, .error⟩] else []

theorem payN_eq (s a : Nat) : (payC s a).map toNative = payN s a := by
  unfold payC payN
  by_cases h : a = 0 <;> simp [h, toNative]

theorem close_map (s i f a sp tl : Nat) :
    (payC s a ++ feesC s i f sp tl).map toNative = payN s a ++ feesN i f sp tl := by
  rw [List.map_append, payN_eq, feesN_eq]

theorem cpr_shape_cw (q : Q) (e e2 : E) (env : Env) (o : Nat) (msgs : List SubMsg) (swap : TmpSwap)
    (hsw : e.tmpSwap = some swap)
    (h : closePositionReply q (setNative e false) env o = .ok (e2, msgs)) :
    ∃ sf amt sp tl, e2.st.prepaid = e.st.prepaid + sf
      ∧ (sf = 0 → msgs = payC swap.trader amt ++ feesC swap.trader e.cfg.insuranceFund e.cfg.feePool sp tl) := by
  obtain ⟨delta, rm, wa, sf, wm, fm, _, _, _, _, hwm, hfm, hmsgs, hpp, _⟩ :=
    TxMoney.closePositionReply_money q (setNative e false) e2 env o msgs swap hsw h
  have hF : ∃ sp tl, fm = feesC swap.trader e.cfg.insuranceFund e.cfg.feePool sp tl := by
    split at hfm
    · obtain ⟨sp, tl, htf⟩ := hfm
      exact ⟨sp, tl, (EngineGuards.transferFees_spec _ _ _ _ _ _ _ _ htf).2⟩
    · exact ⟨0, 0, hfm⟩
  obtain ⟨sp, tl, rfl⟩ := hF
  by_cases hz : wa.isZero = true
  · rw [if_pos hz] at hwm
    obtain ⟨rfl, rfl⟩ := hwm
    exact ⟨0, 0, sp, tl, hpp, fun _ => hmsgs⟩
  · rw [if_neg hz] at hwm
    refine ⟨sf, wa.value, sp, tl, hpp, fun h0 => ?_⟩
    subst h0
    rw [hmsgs, hwm]
    have hv : wa.value ≠ 0 := by
      intro hh; apply hz; simp [Integer.isZero, hh]
    unfold payC TxMoney.wdMsgs
    rw [if_pos hv, if_pos rfl]
    rfl

/-! ### the execute half -/

theorem close_twin (q : Q) (f : Nat → Except Err Nat) (e : E) (env : Env) (s v l : Nat) :
    closePosition (qb q f) (setNative e true) env s v l
      = (closePosition q (setNative e false) env s v l).map lift :=
  closePosition_twin q e env s v l

/-- the engine does not fall back to a partial close -/
def WholeQ (q : Q) (e : E) (s v : Nat) : Prop :=
  ∀ over, q.isOverFluct v (if Integer.gt (readPosition e v s).size Integer.zero then .addToAmm else .removeFromAmm)
      (readPosition e v s).size.value = .ok over → ¬ (over = true ∧ e.cfg.plr < e.cfg.decimals)

open Perp.Props.EngineGuards in
theorem close_shape (q : Q) (e : E) (env : Env) (s v l : Nat) (hw : WholeQ q e s v) :
    Post (fun r => ∃ tmp a sd n, r.1 = { e with tmpSwap := some tmp } ∧ tmp.trader = s
        ∧ r.2 = [swapOutputMsg a sd n l REPLY_CLOSE])
      (closePosition q e env s v l) := by
  unfold closePosition internalClosePosition
  post_walk [first
    | exact absurd ‹_ ∧ _› (hw _ ‹_›)
    | (refine ⟨_, _, _, _, rfl, ?_, rfl⟩
       exact WorldInv.readPosition_trader _ _ _ ‹_›)]

end Perp.Props.SatGClose
