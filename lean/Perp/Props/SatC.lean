/-
  SatC — the model's step satisfies Spec.C05, C20, C16 (see Perp/Props/ModelStep.lean).
  Target shape of every theorem:   Spec.Cxx.check (modelStep w env s f tx) = []

  Helper files (build order): Perp/Props/SatCBase.lean, SatCFlow.lean, SatCCaps.lean, SatCMargin.lean,
  SatCWallet.lean.

  RESULTS
  * `sat_C16` — proved from `WF w` alone (not even used).
  * `sat_C20` — proved under `AllConfigOK w` (invariant, `allConfigOK_step`), `Mirror.SignDir w.engine`
    (conjunct of the proved inductive invariant `Mirror.Inv`) and `Mirror.CurveRegular w`; the last two are
    needed by one clause only (`open-interest-above-cap`, reducing path).
  * `sat_C05` — proved under `MarginRep w.engine` (invariant, `marginRep_step`), `UserSender w s` and
    `NonZeroSender s`.  (The wallet clause of a withdrawal accounts for native coins the caller attaches:
    they are the caller's own outflow; `Wit.C05_attached_funds_ok`.)
-/
import Perp.Model.World
import Perp.Spec.World
import Perp.Lemmas.Basic
import Perp.Props.ModelStep
import Perp.Props.Dispatch
import Perp.Props.EngineGuards
import Perp.Props.EngineMoney
import Perp.Props.WorldInv
import Perp.Props.CurveNoFlip
import Perp.Props.C01
import Perp.Props.C15
import Perp.Props.C17
import Perp.Props.C18
import Perp.Props.VammGuards
import Perp.Props.G9Restr
import Perp.Props.G9Perm
import Perp.Props.WorldMore
import Perp.Props.MirrorInv
import Perp.Props.SatCBase
import Perp.Props.SatCFlow
import Perp.Props.SatCCaps
import Perp.Props.SatCMargin
import Perp.Props.SatCWallet

namespace Perp.Props.SatC
open Perp Perp.World Perp.Engine Perp.Spec Perp.Props.ModelStep

set_option linter.unusedVariables false

/-! ## C05 -/

/-- **hypothesis of `sat_C05`** (kind (b), deployment: like `Mirror.NoZeroVamm`).  Address 0 is the
    engine's "no record" sentinel (the empty string of the implementation): a `DepositMargin` by account 0
    on a vAMM where it has no position passes the ownership test against the *default* record
    (`trader = 0`) and stores the deposit under the key (0, 0) instead of (vamm, 0).  Needed by the clause
    `deposit-margin-delta` only; counterexample `C05_zero_sender_witness`. -/
def NonZeroSender (s : Nat) : Prop := s ≠ 0

/-- **C05**: the model's step satisfies `Spec.C05.check`.
    Hypotheses beyond `WF w`:
    * `MarginRep w.engine` — invariant (`marginRep_step`); clause `free-collateral-undefined-after-withdraw`;
    * `UserSender w s` — only `s ≠ ENGINE` (clauses `withdraw-wallet-delta`, `deposit-wallet-delta`: a transfer
      from the engine to itself moves nothing) and `s ≠ IFUND` (`withdraw-wallet-delta`: the shortfall of the
      vault is drawn from the insurance fund's own wallet) are used;
    * `NonZeroSender s` — clause `deposit-margin-delta`. -/
theorem sat_C05 (w : World) (env : Env) (s : Nat) (f : Funds) (tx : Tx) (hwf : WF w)
    (hM : MarginRep w.engine) (hu : UserSender w s) (h0 : NonZeroSender s) :
    Spec.C05.check (modelStep w env s f tx) = [] := by
  cases h : applyTx w env s f tx with
  | error e =>
    rw [ms_err h]
    unfold C05.check W.engineMsg
    cases tx with
    | engine m => cases m <;> first | rfl | (simp [W.chk])
    | _ => rfl
  | ok w' =>
    rw [ms_ok h]
    unfold C05.check W.engineMsg
    cases tx with
    | engine m =>
      cases m with
      | openPosition v side mg l b =>
        dsimp only
        refine append_eq_nil' ?_ ?_
        · rw [chk_nil]
          simp only [Bool.true_and, Bool.not_eq_true', Bool.or_eq_false_iff, decide_eq_false_iff_not,
            Bool.and_eq_false_iff, ne_eq, Decidable.not_not]
          by_cases hl : l < w.engine.cfg.decimals ∨ w.engine.cfg.decimals * w.engine.cfg.decimals / l < w.engine.cfg.imr
          · exact (isErr_ok_false h (WorldInv.leverage_tx_rejected w env s f v side mg l b hl)).elim
          · refine ⟨fun h1 => hl (Or.inl h1), Or.inr (fun h2 => hl (Or.inr h2))⟩
        · rcases ratio_clause w w' env s f v side mg l b h with hz | ⟨r, hr, hle⟩
          · have hz' : (W.pos w' v s).size.isZero = true := hz
            simp [hz']
          · split
            · rw [hr]
              show W.chk _ _ = []
              rw [chk_nil]
              simpa using hle
            · rfl
      | withdrawMargin v amt =>
        obtain ⟨c1, c1', c2, c3, fc', c4, c5⟩ := withdraw_tx w w' env s f v amt hM hu.1 hu.2.1 h
        have e2 : W.chk (((W.pos w' v s).margin : Int) == ((W.pos w v s).margin : Int) - amt - W.fundingOwed w (W.pos w v s))
            "withdraw-margin-delta" = [] := by
          rw [chk_nil, beq_iff_eq]; exact c2
        have e3 : W.chk ((W.pos w' v s).chk.toInt == (latestCum w.engine v).toInt) "withdraw-checkpoint-not-moved" = [] := by
          rw [chk_nil, beq_iff_eq]
          show (readPosition w'.engine v s).chk.toInt = _
          rw [c3]
        have e4 : W.chk (decide (fc'.toInt ≥ 0)) "negative-free-collateral-after-withdraw" = [] := by
          rw [chk_nil]
          simpa using c5
        dsimp only
        simp only [Bool.not_true, Bool.false_eq_true, if_false]
        rw [c4]
        dsimp only [exInt]
        rw [e2, e3, e4]
        simp only [List.append_nil]
        rw [chk_nil, beq_iff_eq]
        unfold W.bal
        by_cases hnf : w.engine.cfg.native = true ∧ f.amount ≠ 0
        · have := c1' hnf
          rw [if_pos hnf.1]
          omega
        · rw [c1 hnf]
          by_cases hn : w.engine.cfg.native = true
          · have hf0 : f.amount = 0 := Decidable.not_not.mp (fun hh => hnf ⟨hn, hh⟩)
            rw [if_pos hn, hf0]
            omega
          · rw [if_neg hn]
            omega
      | depositMargin v amt =>
        obtain ⟨c1, c2⟩ := deposit_tx w w' env s f v amt h0 hu.1 h
        dsimp only
        simp only [Bool.not_true, Bool.false_eq_true, if_false]
        refine append_eq_nil' ?_ ?_
        · rw [chk_nil, beq_iff_eq]
          show ((readPosition w'.engine v s).margin : Int) = _
          rw [c1]
          show _ = ((readPosition w.engine v s).margin : Int) + amt
          omega
        · rw [chk_nil, beq_iff_eq]
          unfold W.bal
          omega
      | _ => rfl
    | _ => rfl

/-! ## C20 -/

theorem not_and3 (a b c : Bool) (h : a = true → b = true → c = false) : (!(a && b && c)) = true := by
  cases a <;> cases b <;> cases c <;> simp_all

/-- **C20**: the model's step satisfies `Spec.C20.check`.
    Hypotheses beyond `WF w`:
    * `AllConfigOK w` — invariant (`allConfigOK_step`); the four bounds clauses (they speak about the
      post-state of *every* transaction, so they hold after a step iff they held before it);
    * `Mirror.SignDir w.engine` — conjunct of the proved inductive invariant `Mirror.Inv`
      (`Mirror.mirror_invariant_partial2`), and `Mirror.CurveRegular w` — kind (b); both only for the clause
      `open-interest-above-cap` on the *reducing* path of an `OpenPosition`: there the engine lowers the open
      interest without consulting the cap, which is sound only because a reducing trade never increases
      the exposure — true when the stored direction agrees with the stored sign (else a "reduce" adds to the
      position) and the curve is regular (else the base bought back can exceed the position: `CurveNoFlip`).
    The holding-cap clause, the registration clause and the increase / reversal paths need neither. -/
theorem sat_C20 (w : World) (env : Env) (s : Nat) (f : Funds) (tx : Tx) (hwf : WF w)
    (hcfg : AllConfigOK w) (hsd : Mirror.SignDir w.engine) (hcr : Mirror.CurveRegular w) :
    Spec.C20.check (modelStep w env s f tx) = [] := by
  cases h : applyTx w env s f tx with
  | error e =>
    rw [ms_err h]
    unfold C20.check
    dsimp only
    refine append_eq_nil' (append_eq_nil' (c20_bounds w hcfg) ?_) ?_
    · cases tx <;> first | rfl | (rw [chk_nil]; rfl)
    · unfold W.engineMsg
      cases tx with
      | engine m => cases m <;> rfl
      | _ => rfl
  | ok w' =>
    rw [ms_ok h]
    unfold C20.check
    dsimp only
    refine append_eq_nil' (append_eq_nil' (c20_bounds w' (allConfigOK_applyTx w w' env s f tx hcfg h)) ?_) ?_
    · cases tx
      case ifAdd v =>
        dsimp only
        rw [chk_nil, ifAdd_decimals w w' env s f v h]
        simp
      all_goals rfl
    · unfold W.engineMsg
      cases tx with
      | engine m =>
        cases m with
        | openPosition v side mg l b =>
          dsimp only
          cases hwl : W.whitelisted w s with
          | true => rfl
          | false =>
            simp only [Bool.true_and, Bool.not_false, if_true]
            cases hx : w'.vamm? v with
            | none => rfl
            | some x =>
              obtain ⟨c1, c2⟩ := caps_clause w w' env s f v side mg l b hsd hcr hwl h x hx
              have c1' : x.cfg.holdingCap ≠ 0 → (W.pos w' v s).size.toInt.natAbs ≤ x.cfg.holdingCap := c1
              have c2' : ((W.pos w' v s).size.toInt.natAbs > (W.pos w v s).size.toInt.natAbs
                  ∨ (W.pos w v s).size.toInt * (W.pos w' v s).size.toInt < 0) →
                  x.cfg.oiCap ≠ 0 → w'.engine.st.oi ≤ x.cfg.oiCap := c2
              refine append_eq_nil' ?_ ?_
              · rw [chk_nil]
                apply not_and3
                intro ha hb
                simp only [Bool.or_eq_true, decide_eq_true_eq, ne_eq] at ha hb
                have := c2' ha hb
                simp only [decide_eq_false_iff_not]
                omega
              · rw [chk_nil]
                apply not_and3
                intro _ hb
                simp only [decide_eq_true_eq, ne_eq] at hb
                have := c1' hb
                simp only [decide_eq_false_iff_not]
                omega
        | _ => rfl
      | _ => rfl

/-! ## C16 -/

/-- **C16**: the model's step satisfies `Spec.C16.check` (with `liqsThisBlock = []` the predicate
    `Spec.C16.restricted` is the engine's own marker, which `open_position` / `close_position` test first).
    No hypothesis is needed (`WF w` is not used). -/
theorem sat_C16 (w : World) (env : Env) (s : Nat) (f : Funds) (tx : Tx) (hwf : WF w) :
    Spec.C16.check (modelStep w env s f tx) = [] := by
  cases h : applyTx w env s f tx with
  | error e =>
    rw [ms_err h]
    unfold C16.check W.engineMsg
    cases tx with
    | engine m => cases m <;> simp [W.chk]
    | _ => rfl
  | ok w' =>
    rw [ms_ok h]
    unfold C16.check W.engineMsg
    cases tx with
    | engine m =>
      cases m with
      | openPosition v side mg l b =>
        simp only [chk_nil, C16.restricted, W.pos]
        cases hr : (decide ((readVammMap w.engine v).lastRestriction = env.height)
            && decide ((readPosition w.engine v s).block = env.height)) with
        | false => simp at hr ⊢; omega
        | true =>
          exfalso
          simp at hr
          exact isErr_ok_false h (WorldInv.restricted_tx_rejected w env s f v side mg l b hr).1
      | closePosition v l =>
        simp only [chk_nil, C16.restricted, W.pos]
        cases hr : (decide ((readVammMap w.engine v).lastRestriction = env.height)
            && decide ((readPosition w.engine v s).block = env.height)) with
        | false => simp at hr ⊢; omega
        | true =>
          exfalso
          simp at hr
          exact isErr_ok_false h (WorldInv.restricted_tx_rejected w env s f v .buy 0 l 0 hr).2
      | _ => rfl
    | _ => rfl

/-! ## Witnesses: each added hypothesis is needed

Concrete, kernel-evaluated worlds (`decide +kernel`; no `native_decide`).  Each witness states that all
the *other* hypotheses of the theorem hold and that the check returns exactly the tag in question. -/

namespace Wit

def D : Nat := 10^9

/-- the deployment of `Mirror.Cex` (native collateral, one open registered vAMM, no fees, no caps), with
    its vAMM at address 10 -/
def wA : World :=
  { Mirror.Cex.w0 with
    vamms := [(10, Mirror.Cex.v0)],
    ifund := { owner := 61, engine := ENGINE, vamms := [10], stored := true } }

/-- user 100 opens a 10x long with 60 margin -/
def w1 : World := step wA ⟨2, 1000⟩ 100 ⟨60 * D, false⟩ (.engine (.openPosition 10 .buy (60 * D) (10 * D) 0))

def marginRepB (e : E) : Bool := e.positions.all (fun p => decide (p.margin ≤ U128.MAX))

theorem marginRepB_sound (e : E) (h : marginRepB e = true) : MarginRep e := by
  intro p hp
  unfold marginRepB at h
  rw [List.all_eq_true] at h
  simpa using h p hp

def signDirB (e : E) : Bool :=
  e.positions.all (fun p => (!decide (0 < p.size.toInt) || p.direction == .addToAmm)
    && (!decide (p.size.toInt < 0) || p.direction == .removeFromAmm))

theorem signDirB_sound (e : E) (h : signDirB e = true) : Mirror.SignDir e := by
  intro p hp
  unfold signDirB at h
  rw [List.all_eq_true] at h
  have := h p hp
  simp only [Bool.and_eq_true, Bool.or_eq_true, Bool.not_eq_true', decide_eq_false_iff_not, beq_iff_eq] at this
  refine ⟨fun h1 => ?_, fun h2 => ?_⟩
  · rcases this.1 with h3 | h3
    · exact absurd h1 h3
    · exact h3
  · rcases this.2 with h3 | h3
    · exact absurd h2 h3
    · exact h3

def allConfigOKB (w : World) : Bool :=
  decide (w.engine.cfg.imr ≤ w.engine.cfg.decimals) && decide (w.engine.cfg.mmr ≤ w.engine.cfg.decimals)
  && decide (w.engine.cfg.plr ≤ w.engine.cfg.decimals) && decide (w.engine.cfg.liqFee ≤ w.engine.cfg.decimals)
  && decide (w.engine.cfg.mmr ≤ w.engine.cfg.imr)
  && w.vamms.all (fun p => decide (p.2.cfg.toll ≤ p.2.cfg.decimals) && decide (p.2.cfg.spread ≤ p.2.cfg.decimals)
      && decide (p.2.cfg.fluct ≤ p.2.cfg.decimals) && decide (60 ≤ p.2.cfg.twapInterval)
      && decide (p.2.cfg.twapInterval ≤ 604800))

theorem allConfigOKB_sound (w : World) (h : allConfigOKB w = true) : AllConfigOK w := by
  unfold allConfigOKB at h
  simp only [Bool.and_eq_true, decide_eq_true_eq, List.all_eq_true] at h
  obtain ⟨⟨⟨⟨⟨h1, h2⟩, h3⟩, h4⟩, h5⟩, hv⟩ := h
  refine ⟨⟨h1, h2, h3, h4, h5⟩, fun p hp => ?_⟩
  obtain ⟨⟨⟨⟨g1, g2⟩, g3⟩, g4⟩, g5⟩ := hv p hp
  exact ⟨g1, g2, g3, g4, g5⟩

/-! ### C05 -/

set_option maxRecDepth 100000 in
/-- attached coins are the caller's own outflow: with 5 units of native collateral attached to a
    `WithdrawMargin` of 1 unit the withdrawal succeeds, the engine keeps the 5 units, the sender's wallet
    moves by 1 − 5, and the check (whose wallet clause subtracts the attached amount) reports nothing.
    (Under the earlier form of the clause, `… == amt`, this world produced `withdraw-wallet-delta`.) -/
theorem C05_attached_funds_ok :
    MarginRep w1.engine ∧ UserSender w1 100 ∧ NonZeroSender 100
    ∧ (modelStep w1 ⟨3, 2000⟩ 100 ⟨5 * D, false⟩ (.engine (.withdrawMargin 10 D))).ok = true
    ∧ W.bal (modelStep w1 ⟨3, 2000⟩ 100 ⟨5 * D, false⟩ (.engine (.withdrawMargin 10 D))).post 100
        - W.bal w1 100 = (D : Int) - (5 * D : Nat)
    ∧ Spec.C05.check (modelStep w1 ⟨3, 2000⟩ 100 ⟨5 * D, false⟩ (.engine (.withdrawMargin 10 D))) = [] :=
  ⟨marginRepB_sound _ (by decide +kernel), Mirror.Cex.userB_sound _ _ (by decide +kernel), (by decide : (100 : Nat) ≠ 0),
   by decide +kernel, by decide +kernel, by decide +kernel⟩

/-- a fresh deployment in which account 0 holds collateral -/
def wZ : World :=
  { wA with ledger := { bal := [(0, 1000 * D), (ENGINE, 5000 * D), (IFUND, 5000 * D)], allow := [] } }

set_option maxRecDepth 100000 in
/-- `NonZeroSender` is needed: account 0 deposits on a vAMM where it has no position; the deposit is
    accepted and booked under the key (0, 0) -/
theorem C05_zero_sender_witness :
    MarginRep wZ.engine ∧ UserSender wZ 0
    ∧ Spec.C05.check (modelStep wZ ⟨2, 1000⟩ 0 ⟨7 * D, false⟩ (.engine (.depositMargin 10 (7 * D))))
        = ["deposit-margin-delta"] :=
  ⟨marginRepB_sound _ (by decide +kernel), Mirror.Cex.userB_sound _ _ (by decide +kernel), by decide +kernel⟩

/-- `w1` with a stored margin above `u128::MAX`, an unrealised loss, and one unit of funding owed -/
def wM : World :=
  { w1 with
    engine := { w1.engine with positions := w1.engine.positions.map (fun p =>
      { p with margin := U128.MAX + 200 * D, notional := 700 * D, chk := Integer.newNegative 1 }) } }

set_option maxRecDepth 100000 in
/-- `MarginRep` is needed: the withdrawal is accepted (the funding owed makes the pre-state query
    subtract), afterwards the same query adds `margin + 0` and overflows -/
theorem C05_marginRep_witness :
    UserSender wM 100 ∧ NonZeroSender 100
    ∧ ¬ MarginRep wM.engine
    ∧ Spec.C05.check (modelStep wM ⟨3, 2000⟩ 100 ⟨0, false⟩ (.engine (.withdrawMargin 10 D)))
        = ["free-collateral-undefined-after-withdraw"] := by
  refine ⟨Mirror.Cex.userB_sound _ _ (by decide +kernel), (by decide : (100 : Nat) ≠ 0), ?_, by decide +kernel⟩
  · intro h
    have hb : wM.engine.positions.any (fun p => decide (U128.MAX < p.margin)) = true := by decide +kernel
    rw [List.any_eq_true] at hb
    obtain ⟨p, hp, hc⟩ := hb
    have := h p hp
    simp only [decide_eq_true_eq] at hc
    omega

/-! ### C20 -/

/-- the fresh deployment with the engine's maintenance ratio above its initial ratio -/
def wBad : World := { wA with engine := { wA.engine with cfg := { wA.engine.cfg with mmr := 6 * 10^7 } } }

set_option maxRecDepth 100000 in
/-- `AllConfigOK` is needed: an unrelated (here: rejected) transaction leaves the bad configuration in place -/
theorem C20_configOK_witness :
    Mirror.SignDir wBad.engine ∧ Mirror.CurveRegular wBad
    ∧ Spec.C20.check (modelStep wBad ⟨2, 1000⟩ 100 ⟨0, false⟩ (.fpOwner 1)) = ["maintenance-above-initial"] :=
  ⟨signDirB_sound _ (by decide +kernel), Mirror.Cex.curveB_sound _ (by decide +kernel), by decide +kernel⟩

/-- `w1` with the stored direction flipped against the stored sign, and an open-interest cap of 100
    (below the 600 already open) -/
def wS : World :=
  { w1 with
    engine := { w1.engine with positions := w1.engine.positions.map (fun p => { p with direction := .removeFromAmm }) },
    vamms := w1.vamms.map (fun p => (p.1, { p.2 with cfg := { p.2.cfg with oiCap := 100 * D } })) }

set_option maxRecDepth 100000 in
/-- `Mirror.SignDir` is needed: a buy against a record that claims to be short is treated as a reduce, the
    position grows, the open interest is lowered without consulting the cap and stays above it -/
theorem C20_signDir_witness :
    AllConfigOK wS ∧ Mirror.CurveRegular wS ∧ ¬ Mirror.SignDir wS.engine
    ∧ Spec.C20.check (modelStep wS ⟨3, 2000⟩ 100 ⟨0, false⟩ (.engine (.openPosition 10 .buy (1 * D) (10 * D) 0)))
        = ["open-interest-above-cap"] := by
  refine ⟨allConfigOKB_sound _ (by decide +kernel), Mirror.Cex.curveB_sound _ (by decide +kernel), ?_,
    by decide +kernel⟩
  intro h
  have hb : wS.engine.positions.any (fun p => decide (0 < p.size.toInt) && p.direction == .removeFromAmm) = true := by
    decide +kernel
  rw [List.any_eq_true] at hb
  obtain ⟨p, hp, hc⟩ := hb
  simp only [Bool.and_eq_true, decide_eq_true_eq, beq_iff_eq] at hc
  have := (h p hp).1 hc.1
  rw [hc.2] at this
  cases this

end Wit

end Perp.Props.SatC
