/-
  GhostRegSound — the ghost registry of `Perp/Spec/GhostReg.lean` on the model.

  * `next_tracks`: when the ghost list equals the stored registry before a model transaction, it equals the stored registry
    after it (accepted: `applyTx … = .ok post`; rejected: the world is unchanged) — for EVERY transaction, given only that
    transactions other than `ifAdd` / `ifRemove` are observed with `post` (whatever they do to the list, the ghost follows
    the observation there: those are judged by `C14`'s own frame clauses).
  * `run_tracks`: along ANY history of the model the ghost list started at the first state is the stored registry of the last.
  * `regFrame_quiet`, `regCheck_quiet`: both clauses are quiet along the model: they fire only on code whose registry
    book-keeping differs from the model's.
  * `Witness`: kernel-evaluated C07-ff shape — stored list `[12, 11]` where the history's operations leave `[12, 10]`:
    `regFrame` fires, and `next` does not follow the corrupted list.
-/
import Perp.Spec.GhostReg

namespace Perp.Props.GhostRegSound
open Perp Perp.World Perp.Spec Perp.Spec.GhostReg

@[simp] theorem withReg_self (w : World) : withReg w w.ifund.vamms = w := by
  cases w; rfl

theorem next_rejected (g : List Nat) (pre post : World) (env : Env) (sender : Nat) (funds : Engine.Funds) (tx : Tx) :
    next g pre post env sender funds false tx = g := by
  simp [next]

/-- accepted model transaction: the ghost list that equalled the stored one equals the stored one afterwards -/
theorem next_tracks_ok (pre post : World) (env : Env) (sender : Nat) (funds : Engine.Funds) (tx : Tx)
    (h : World.applyTx pre env sender funds tx = .ok post) :
    next pre.ifund.vamms pre post env sender funds true tx = post.ifund.vamms := by
  unfold next
  simp only [Bool.not_true, Bool.false_eq_true, if_false, withReg_self]
  split
  · rw [h]
  · rw [h]
  · split
    · rename_i hh; exact (eq_of_beq hh).symm
    · rfl

/-- the model's step as the driver observes it: accepted with the model's post-state, or rejected and unchanged -/
theorem next_tracks (pre : World) (env : Env) (sender : Nat) (funds : Engine.Funds) (tx : Tx) :
    (match World.applyTx pre env sender funds tx with
     | .ok post => next pre.ifund.vamms pre post env sender funds true tx = post.ifund.vamms
     | .error _ => next pre.ifund.vamms pre pre env sender funds false tx = pre.ifund.vamms) := by
  cases h : World.applyTx pre env sender funds tx with
  | ok post => exact next_tracks_ok pre post env sender funds tx h
  | error e => exact next_rejected _ _ _ _ _ _ _

theorem regFrame_quiet (pre post : World) (env : Env) (sender : Nat) (funds : Engine.Funds) (tx : Tx)
    (h : World.applyTx pre env sender funds tx = .ok post) :
    regFrame (next pre.ifund.vamms pre post env sender funds true tx) post = [] := by
  rw [next_tracks_ok pre post env sender funds tx h]
  simp [regFrame, W.chk]

theorem regCheck_quiet (s : Step) : regCheck s.pre.ifund.vamms s = [] := by
  simp [regCheck]

/-- one observed transaction of a model history: block, sender, funds, transaction -/
abbrev Obs := Env × Nat × Engine.Funds × Tx

/-- the model's history: a rejected transaction leaves the world as it was -/
def runW (w : World) : List Obs → World
  | [] => w
  | (env, s, f, tx) :: rest =>
    match World.applyTx w env s f tx with
    | .ok w' => runW w' rest
    | .error _ => runW w rest

/-- the ghost list folded along the same history, as the driver folds it along the observations -/
def foldReg (g : List Nat) (w : World) : List Obs → List Nat
  | [] => g
  | (env, s, f, tx) :: rest =>
    match World.applyTx w env s f tx with
    | .ok w' => foldReg (next g w w' env s f true tx) w' rest
    | .error _ => foldReg (next g w w env s f false tx) w rest

/-- along ANY history of the model — every transaction kind, accepted or rejected — the ghost list started at the first
    state is the stored registry of the last -/
theorem run_tracks (w : World) (obs : List Obs) :
    foldReg w.ifund.vamms w obs = (runW w obs).ifund.vamms := by
  induction obs generalizing w with
  | nil => rfl
  | cons o rest ih =>
    obtain ⟨env, s, f, tx⟩ := o
    simp only [foldReg, runW]
    cases h : World.applyTx w env s f tx with
    | ok w' =>
      simp only []
      rw [next_tracks_ok w w' env s f tx h]
      exact ih w'
    | error e =>
      simp only []
      rw [next_rejected]
      exact ih w

namespace Witness

/-- what the history leaves: `[10, 11, 12]`, remove `10` → `[12, 11]`, add `10` → `[12, 11, 10]`, remove `11` → `[12, 10]` -/
example : Insurance.swapRemove [12, 11, 10] 11 = [12, 10] := by decide
example : regFrame [12, 10] { (default : World) with ifund := { (default : Insurance.S) with vamms := [12, 11] } } ≠ [] := by
  decide
example : regFrame [12, 10] { (default : World) with ifund := { (default : Insurance.S) with vamms := [12, 10] } } = [] := by
  decide

end Witness

end Perp.Props.GhostRegSound
