/-
  SatG, part 3a — the dispatcher unrolled, both directions: a transaction whose `execute` emits one
  reply-always message, whose reply emits plain collateral transfers.
-/
import Perp.Props.SatGDeposit

namespace Perp.Props.SatGRun
open Perp Perp.World Perp.Engine Perp.Props.LiqTwin Perp.Props.SatGTwin

/-! ### the top of a transaction -/

/-- the world in which `execute` runs: the attached coins (native collateral only) are already in the vault -/
def Attach (w : World) (env : Env) (s : Nat) (f : Funds) (Wa : World) : Prop :=
  ((w.engine.cfg.native = true ∧ f.amount ≠ 0) →
    ∃ g, Ledger.move w.ledger s ENGINE f.amount = .ok g
      ∧ Wa = { w with env := env, ledger := g, log := [(s, ENGINE, f.amount)] })
  ∧ (¬ (w.engine.cfg.native = true ∧ f.amount ≠ 0) → Wa = { w with env := env, log := [] })

theorem applyTx_engine_iff (w : World) (env : Env) (s : Nat) (f : Funds) (m : ExecMsg) (w' : World) :
    applyTx w env s f (.engine m) = .ok w' ↔
      ∃ Wa e1 subs, Attach w env s f Wa ∧ execute Wa.q Wa.engine env s f m = .ok (e1, subs)
        ∧ execSubs FUEL { Wa with engine := e1 } ENGINE subs = .ok w' := by
  unfold applyTx Attach
  dsimp only []
  by_cases hc : w.engine.cfg.native = true ∧ f.amount ≠ 0
  · rw [if_pos hc]
    conv => lhs; lhs; rw [show FUEL = 39 + 1 from rfl, SatGDeposit.execMsg_bankSend_eq]
    simp only [bind_ok_iff, pure_ok_iff, Dispatch.exmap_ok, Ledger.bankSend, if_neg hc.2]
    constructor
    · rintro ⟨_, ⟨_, ⟨g, hg, rfl⟩, rfl⟩, ⟨e1, subs⟩, hd, hx⟩
      exact ⟨_, e1, subs, ⟨fun _ => ⟨g, hg, rfl⟩, fun h => absurd hc h⟩, hd, hx⟩
    · rintro ⟨_, e1, subs, ⟨ha, _⟩, hd, hx⟩
      obtain ⟨g, hg, rfl⟩ := ha hc
      exact ⟨_, ⟨_, ⟨g, hg, rfl⟩, rfl⟩, (e1, subs), hd, hx⟩
  · rw [if_neg hc]
    simp only [pure_bind, bind_ok_iff]
    constructor
    · rintro ⟨⟨e1, subs⟩, hd, hx⟩
      exact ⟨_, e1, subs, ⟨fun h => absurd h hc, fun _ => rfl⟩, hd, hx⟩
    · rintro ⟨_, e1, subs, ⟨_, ha⟩, hd, hx⟩
      obtain rfl := ha hc
      exact ⟨(e1, subs), hd, hx⟩

/-! ### one reply-always message -/

theorem single_always_iff (fuel : Nat) (W : World) (msg : Msg) (id : Nat) (w' : World) :
    execSubs (fuel + 2) W ENGINE [⟨msg, id, .always⟩] = .ok w' ↔
      ∃ w1 ev e2 subs2, execMsg (fuel + 1) W ENGINE msg = .ok (w1, ev)
        ∧ replyOk w1.q w1.engine w1.env id ev = .ok (e2, subs2)
        ∧ execSubs (fuel + 1) { w1 with engine := e2 } ENGINE subs2 = .ok w' := by
  constructor
  · intro h
    obtain ⟨w1, ev, hx, hyes, _⟩ := Dispatch.execSubs_cons_ok (fuel + 1) W w' ENGINE _ [] h
    obtain ⟨_, e2, subs2, w3, hr, hs, hn⟩ := hyes (Or.inl rfl)
    rw [SatGDeposit.execSubs_nil_eq] at hn
    injection hn with hn
    subst hn
    exact ⟨w1, ev, e2, subs2, hx, hr, hs⟩
  · rintro ⟨w1, ev, e2, subs2, hx, hr, hs⟩
    conv => lhs; unfold execSubs
    dsimp only []
    rw [hx]
    dsimp only []
    rw [if_pos (Or.inl rfl), if_neg (by simp), hr]
    dsimp only []
    rw [hs]
    dsimp only []
    exact SatGDeposit.execSubs_nil_eq _ _ _

/-! ### plain collateral transfers, fire-and-forget -/

/-- one transfer sent by the engine -/
def stepX (W : World) : Msg → Option World
  | .tokenTransfer to a =>
    match W.ledger.tokenTransfer ENGINE to a with
    | .ok g => some { W with ledger := g, log := W.log ++ [(ENGINE, to, a)] }
    | .error _ => none
  | .bankSend to a =>
    match W.ledger.bankSend ENGINE to a with
    | .ok g => some { W with ledger := g, log := W.log ++ [(ENGINE, to, a)] }
    | .error _ => none
  | .tokenTransferFrom o to a =>
    match W.ledger.tokenTransferFrom o to a with
    | .ok g => some { W with ledger := g, log := W.log ++ [(o, to, a)] }
    | .error _ => none
  | _ => none

def IsXfer : Msg → Prop
  | .tokenTransfer _ _ => True
  | .bankSend _ _ => True
  | .tokenTransferFrom _ _ _ => True
  | _ => False

def runX (W : World) : List SubMsg → Option World
  | [] => some W
  | m :: r => match stepX W m.msg with
    | some W1 => runX W1 r
    | none => none

theorem execMsg_xfer_iff (fuel : Nat) (W : World) (msg : Msg) (hm : IsXfer msg) (w1 : World) (ev : Ev) :
    execMsg (fuel + 1) W ENGINE msg = .ok (w1, ev) ↔ stepX W msg = some w1 ∧ ev = .none := by
  cases msg with
  | tokenTransfer to a =>
    unfold execMsg stepX
    dsimp only []
    cases W.ledger.tokenTransfer ENGINE to a with
    | ok g => simp [bind, Except.bind, pure, Except.pure]; intro _; exact eq_comm
    | error e => simp [bind, Except.bind]
  | bankSend to a =>
    unfold execMsg stepX
    dsimp only []
    cases W.ledger.bankSend ENGINE to a with
    | ok g => simp [bind, Except.bind, pure, Except.pure]; intro _; exact eq_comm
    | error e => simp [bind, Except.bind]
  | tokenTransferFrom o to a =>
    unfold execMsg stepX
    dsimp only []
    rw [if_neg (by simp)]
    cases W.ledger.tokenTransferFrom o to a with
    | ok g => simp [bind, Except.bind, pure, Except.pure]; intro _; exact eq_comm
    | error e => simp [bind, Except.bind]
  | _ => exact absurd hm (by simp [IsXfer])

/-- fire-and-forget transfers -/
def XE (m : SubMsg) : Prop := m.replyOn = .error ∧ IsXfer m.msg

theorem execSubs_xfers_iff : ∀ (subs : List SubMsg) (fuel : Nat) (W w' : World),
    subs.length + 1 ≤ fuel → (∀ m ∈ subs, XE m) →
    (execSubs fuel W ENGINE subs = .ok w' ↔ runX W subs = some w') := by
  intro subs
  induction subs with
  | nil =>
    intro fuel W w' hf _
    obtain ⟨f, rfl⟩ : ∃ f, fuel = f + 1 := ⟨fuel - 1, by simp at hf; omega⟩
    rw [SatGDeposit.execSubs_nil_eq]
    simp [runX]
  | cons m r ih =>
    intro fuel W w' hf hx
    obtain ⟨f, rfl⟩ : ∃ f, fuel = f + 1 + 1 := ⟨fuel - 2, by simp at hf; omega⟩
    have hm : XE m := hx m (List.mem_cons_self ..)
    have hr : ∀ m' ∈ r, XE m' := fun m' h' => hx m' (List.mem_cons_of_mem _ h')
    have hnr : ¬ (m.replyOn = .always ∨ m.replyOn = .success) := by rw [hm.1]; simp
    conv => lhs; lhs; unfold execSubs
    dsimp only []
    unfold runX
    cases hs : stepX W m.msg with
    | none =>
      cases he : execMsg (f + 1) W ENGINE m.msg with
      | ok p =>
        obtain ⟨w1, ev⟩ := p
        rw [(execMsg_xfer_iff f W m.msg hm.2 w1 ev).1 he |>.1] at hs
        cases hs
      | error e =>
        dsimp only []
        rw [if_pos (Or.inr hm.1), if_neg (by simp)]
        simp [replyErr]
    | some W1 =>
      have he := (execMsg_xfer_iff f W m.msg hm.2 W1 .none).2 ⟨hs, rfl⟩
      rw [he]
      dsimp only []
      rw [if_neg hnr]
      exact ih (f + 1) W1 w' (by simp at hf ⊢; omega) hr


/-! ### vAMM swaps and reply dispatch -/

theorem swapIn_iff (fuel : Nat) (W : World) (a : Nat) (d : Direction) (n lim : Nat) (cgo : Bool) (w1 : World) (ev : Ev) :
    execMsg (fuel + 1) W ENGINE (.vammSwapInput a d n lim cgo) = .ok (w1, ev) ↔
      ∃ x x' o, W.vammE a = .ok x ∧ Vamm.swapInput x W.env ENGINE d n lim cgo = .ok (x', o)
        ∧ w1 = W.setVamm a x' ∧ ev = .swap o := by
  unfold execMsg
  simp only [bind_ok_iff, pure_ok_iff, Prod.mk.injEq]
  constructor
  · rintro ⟨x, hx, ⟨x', o⟩, hs, rfl, rfl⟩
    exact ⟨x, x', o, hx, hs, rfl, rfl⟩
  · rintro ⟨x, x', o, hx, hs, rfl, rfl⟩
    exact ⟨x, hx, (x', o), hs, rfl, rfl⟩

theorem swapOut_iff (fuel : Nat) (W : World) (a : Nat) (d : Direction) (n lim : Nat) (w1 : World) (ev : Ev) :
    execMsg (fuel + 1) W ENGINE (.vammSwapOutput a d n lim) = .ok (w1, ev) ↔
      ∃ x x' o, W.vammE a = .ok x ∧ Vamm.swapOutput x W.env ENGINE d n lim = .ok (x', o)
        ∧ w1 = W.setVamm a x' ∧ ev = .swap o := by
  unfold execMsg
  simp only [bind_ok_iff, pure_ok_iff, Prod.mk.injEq]
  constructor
  · rintro ⟨x, hx, ⟨x', o⟩, hs, rfl, rfl⟩
    exact ⟨x, x', o, hx, hs, rfl, rfl⟩
  · rintro ⟨x, x', o, hx, hs, rfl, rfl⟩
    exact ⟨x, hx, (x', o), hs, rfl, rfl⟩

def swIn (o : Vamm.SwapOut) : Nat := if o.isInput then o.quoteAmt else o.baseAmt
def swOut (o : Vamm.SwapOut) : Nat := if o.isInput then o.baseAmt else o.quoteAmt

theorem replyOk_increase (q : Q) (e : E) (env : Env) (o : Vamm.SwapOut) :
    replyOk q e env REPLY_INCREASE (.swap o) = updatePositionReply q e env (swIn o) (swOut o) REPLY_INCREASE := rfl

theorem replyOk_close (q : Q) (e : E) (env : Env) (o : Vamm.SwapOut) :
    replyOk q e env REPLY_CLOSE (.swap o) = closePositionReply q e env (swOut o) := rfl

theorem replyOk_partialClose (q : Q) (e : E) (env : Env) (o : Vamm.SwapOut) :
    replyOk q e env REPLY_PARTIAL_CLOSE (.swap o) = partialClosePositionReply q e env (swIn o) (swOut o) := rfl

end Perp.Props.SatGRun
