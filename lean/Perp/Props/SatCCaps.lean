/-
  SatC, part 3 — C20: the caps clause through the open flow, and the static clauses.
-/
import Perp.Props.SatCFlow

namespace Perp.Props.SatC
open Perp Perp.World Perp.Engine Perp.Spec Perp.Props.ModelStep
open Perp.Props.Dispatch
open Perp.Props.MirrorP (AllCE)

theorem q_vammCaps (W : World) (v : Nat) (x : Vamm.V) (h : W.vamm? v = some x) :
    W.q.vammCaps v = .ok (x.cfg.holdingCap, x.cfg.oiCap) := by
  show (W.vammE v).map (fun x => (x.cfg.holdingCap, x.cfg.oiCap)) = _
  rw [(MirrorP.vammE_ok _ _ _).2 h]
  rfl

/-- the record a reply stored is the one read back under its key -/
theorem read_stored {e e2 : E} {p' : Position} {v t : Nat} (hpos : e2.positions = (storePosition e p').positions)
    (hv : p'.vamm = v) (ht : p'.trader = t) : readPosition e2 v t = p' := by
  rw [WorldInv.rp_same v t hpos, ← hv, ← ht]
  exact EngineMoney.readPosition_store_same e p'

/-- **C20, caps clause** (Prop form).  The holding cap is enforced on every path; the open-interest cap
    on every path that increases the exposure — on the reducing path it is not consulted, and that path
    never increases the exposure when stored signs agree with stored directions and the curve is regular. -/
theorem caps_clause (w w' : World) (env : Env) (s : Nat) (f : Funds) (v : Nat) (side : Side) (mg l b : Nat)
    (hsd : Mirror.SignDir w.engine) (hcr : Mirror.CurveRegular w)
    (hwl : w.engine.whitelist.contains s = false)
    (h : applyTx w env s f (.engine (.openPosition v side mg l b)) = .ok w')
    (x : Vamm.V) (hx : w'.vamm? v = some x) :
    (x.cfg.holdingCap ≠ 0 → (readPosition w'.engine v s).size.toInt.natAbs ≤ x.cfg.holdingCap)
    ∧ (((readPosition w'.engine v s).size.toInt.natAbs > (readPosition w.engine v s).size.toInt.natAbs
          ∨ (readPosition w.engine v s).size.toInt * (readPosition w'.engine v s).size.toInt < 0) →
        x.cfg.oiCap ≠ 0 → w'.engine.st.oi ≤ x.cfg.oiCap) := by
  obtain ⟨W, sw, msgs, hsw, sv, st, ss, hWenv, hWwl, hvm, henv, hcase⟩ := open_flow w w' env s f v side mg l b h
  have hxW : W.vamm? v = some x := by rw [← MirrorP.vamm?_of_vamms hvm]; exact hx
  have hq := q_vammCaps W v x hxW
  have hwlW : W.engine.whitelist.contains sw.trader = false := by rw [hWwl, st]; exact hwl
  have hk := EngineMoney.getPosition_key W.env W.engine sw.vamm sw.trader sw.side
  -- both update paths check the holding cap on the stored size
  have hold : ∀ N bb id, updatePositionReply W.q W.engine W.env N bb id = .ok (w'.engine, msgs) →
      x.cfg.holdingCap ≠ 0 → (readPosition w'.engine v s).size.toInt.natAbs ≤ x.cfg.holdingCap := by
    intro N bb id hu hcap
    obtain ⟨st1, p', _, _, hpos, hpv, hpt, hchk, _⟩ := updatePositionReply_caps _ _ _ _ _ _ sw hsw _ hu
    have hr : readPosition w'.engine v s = p' := read_stored hpos ((hpv.trans hk.1).trans sv) ((hpt.trans hk.2).trans st)
    rw [hr, C19.toInt_natAbs]
    rw [sv] at hchk
    exact EngineGuards.holding_cap _ _ _ _ _ _ _ hchk hq hcap hwlW
  rcases hcase with ⟨N, bb, hu⟩ | ⟨N, bb, hu, hposW, hdir, Wq, pn, x0, hWq, hout, hgt, hx0, hqi⟩ | ⟨o, hu, _, hz⟩
  · refine ⟨hold _ _ _ hu, fun _ hcap => ?_⟩
    obtain ⟨st1, p', hoi, hoi2, _⟩ := updatePositionReply_caps _ _ _ _ _ _ sw hsw _ hu
    rw [if_pos rfl, sv] at hoi
    dsimp only at hoi2
    rw [hoi2]
    exact EngineGuards.oi_cap _ _ _ _ _ _ _ _ _ hoi hq hcap rfl hwlW
  · refine ⟨hold _ _ _ hu, fun hinc _ => ?_⟩
    exfalso
    obtain ⟨⟨p', hpos, hpv, hpt, hsz, _⟩, _⟩ := MirrorP.updatePositionReply_eff _ _ _ _ _ _ sw hsw _ hu
    have hr : readPosition w'.engine v s = p' := read_stored hpos ((hpv.trans hk.1).trans sv) ((hpt.trans hk.2).trans st)
    have hrW : readPosition W.engine v s = readPosition w.engine v s := WorldInv.rp_same v s hposW
    rw [MirrorP.getPosition_size, sv, st, ss, hrW] at hsz
    rw [hr, hsz] at hinc
    -- the stored record is a real one, of the opposite direction
    have hdir' : MirrorP.gdir w.engine v s side ≠ sideToDirection side := by
      rw [← MirrorP.getPosition_direction env]; exact hdir
    have hgd := MirrorP.gdir_ne hdir'
    rw [MirrorP.getPosition_direction, hgd, MirrorP.getPosition_size] at hout
    have hne : (readPosition w.engine v s).direction ≠ sideToDirection side := by rw [← hgd]; exact hdir'
    have hSD : MirrorP.SD (readPosition w.engine v s) := MirrorP.SD_read w.engine v s hsd
    have hCR : MirrorP.CurveRegF Wq.vamm? := by rw [MirrorP.vamm?_of_vamms hWq]; exact hcr
    have hb := MirrorP.noflip_reduce Wq (readPosition w.engine v s) side N pn v hCR hne hout hgt x0 bb hx0 hqi
    have hv := C19.toInt_natAbs (readPosition w.engine v s).size
    rw [MirrorP.signedOutput_toInt] at hinc
    have hS1 : 0 < (readPosition w.engine v s).size.toInt → (readPosition w.engine v s).direction = .addToAmm := hSD.1
    have hS2 : (readPosition w.engine v s).size.toInt < 0 → (readPosition w.engine v s).direction = .removeFromAmm := hSD.2
    generalize (readPosition w.engine v s).size.toInt = a at hinc hv hS1 hS2
    generalize (readPosition w.engine v s).size.value = av at hb hv
    cases side with
    | buy =>
      simp only [] at hinc
      have ha : ¬ 0 < a := fun hh => hne (hS1 hh)
      rcases hinc with hinc | hinc
      · omega
      · have := Int.mul_nonneg_of_nonpos_of_nonpos (a := a) (b := a + bb) (by omega) (by omega)
        omega
    | sell =>
      simp only [] at hinc
      have ha : ¬ a < 0 := fun hh => hne (hS2 hh)
      rcases hinc with hinc | hinc
      · omega
      · have := Int.mul_nonneg (a := a) (b := a + -(bb : Int)) (by omega) (by omega)
        omega
  · have h0 : (readPosition w'.engine v s).size.toInt = 0 := by rw [hz]; rfl
    rw [h0]
    refine ⟨fun _ => by simp, fun hinc _ => ?_⟩
    exfalso
    rcases hinc with hinc | hinc
    · simp at hinc
    · simp at hinc

/-! ### the static clauses -/

theorem foldl_nil {α β : Type} (g : List β → α → List β) (l : List α) (h : ∀ p ∈ l, g [] p = []) :
    l.foldl g [] = [] := by
  induction l with
  | nil => rfl
  | cons p l ih =>
    rw [List.foldl_cons, h p List.mem_cons_self]
    exact ih (fun q hq => h q (List.mem_cons_of_mem _ hq))

/-- the four bounds clauses of `Spec.C20.check` hold of any world satisfying `AllConfigOK` -/
theorem c20_bounds (w' : World) (hc : AllConfigOK w') :
    W.chk (decide (w'.engine.cfg.imr ≤ w'.engine.cfg.decimals) && decide (w'.engine.cfg.mmr ≤ w'.engine.cfg.decimals)
        && decide (w'.engine.cfg.plr ≤ w'.engine.cfg.decimals) && decide (w'.engine.cfg.liqFee ≤ w'.engine.cfg.decimals))
      "engine-ratio-above-one" ++
    W.chk (decide (w'.engine.cfg.mmr ≤ w'.engine.cfg.imr)) "maintenance-above-initial" ++
    w'.vamms.foldl (fun acc p =>
      acc ++ W.chk (decide (p.2.cfg.toll ≤ p.2.cfg.decimals) && decide (p.2.cfg.spread ≤ p.2.cfg.decimals)
                      && decide (p.2.cfg.fluct ≤ p.2.cfg.decimals))
        s!"vamm-ratio-above-one(v{p.1})" ++
      W.chk (decide (60 ≤ p.2.cfg.twapInterval) && decide (p.2.cfg.twapInterval ≤ 604800))
        s!"vamm-twap-interval-out-of-range(v{p.1})") [] = [] := by
  obtain ⟨⟨h1, h2, h3, h4, h5⟩, hv⟩ := hc
  refine append_eq_nil' (append_eq_nil' ?_ ?_) ?_
  · rw [chk_nil]; simp [h1, h2, h3, h4]
  · rw [chk_nil]; simp [h5]
  · apply foldl_nil
    intro p hp
    obtain ⟨g1, g2, g3, g4, g5⟩ := hv p hp
    refine append_eq_nil' (append_eq_nil' rfl ?_) ?_
    · rw [chk_nil]; simp [g1, g2, g3]
    · rw [chk_nil]; simp [g4, g5]

/-- a successful `AddVamm` registered a vAMM with the engine's decimals -/
theorem ifAdd_decimals (w w' : World) (env : Env) (s : Nat) (f : Funds) (v : Nat)
    (h : applyTx w env s f (.ifAdd v) = .ok w') :
    (w'.vamm? v).map (·.cfg.decimals) = some w'.engine.cfg.decimals := by
  unfold applyTx at h
  dsimp only at h
  simp only [bind_ok_iff, pure_ok_iff] at h
  obtain ⟨s', hs', rfl⟩ := h
  unfold Insurance.addVamm at hs'
  split at hs'
  · cases hs'
  simp only [bind_ok_iff] at hs'
  obtain ⟨ed, hed, vd, hvd, hs'⟩ := hs'
  split at hs'
  · cases hs'
  rename_i hne
  have hEq : ed = vd := by simpa using hne
  split at hed
  · injection hed with hed
    rw [EngineGuards.exmap_ok] at hvd
    obtain ⟨x, hx, hxd⟩ := hvd
    have hx' : ({ w with env := env, log := [] } : World).vamm? v = some x := (MirrorP.vammE_ok _ _ _).1 hx
    show (({ w with env := env, log := [] } : World).vamm? v).map (·.cfg.decimals) = some w.engine.cfg.decimals
    rw [hx']
    show some x.cfg.decimals = _
    rw [hxd, ← hEq, ← hed]
  · cases hed

end Perp.Props.SatC
