/-
  SatE — the model's step satisfies Spec.C11, C15, C17 (see Perp/Props/ModelStep.lean).
  Target shape of every theorem:   Spec.Cxx.check (modelStep w env s f tx) = []

  Each property comes in two forms (rule 3 of the task):
  * `sat_Cxx`   — the clean form `= []`, under invariants / wiring / stated preconditions and at most ONE
                  sub-case hypothesis that excludes the place where the model (and the implementation it
                  mirrors) violates the property (C11 and C17 need none);
  * `Cxx_tags`  — the general form `∀ tag ∈ check, tag ∈ [the tags that can occur]` without the sub-case
                  hypothesis, together with `…_witness` theorems exhibiting a concrete world for every tag.
  Helper files (build order): Perp/Props/SatTrace, SatFlows, C15Band, SatC17, SatC11, SatC15, SatBuffer,
  SatEWitness.  `Perp.Props.C15` is NOT imported: it does not compile against the revised `Spec.C15.band`
  (its band lemmas are re-proved in `C15Band`).
-/
import Perp.Model.World
import Perp.Spec.World
import Perp.Lemmas.Basic
import Perp.Props.ModelStep
import Perp.Props.MirrorInv
import Perp.Props.SatC11
import Perp.Props.SatC15
import Perp.Props.SatC17
import Perp.Props.SatBuffer
import Perp.Props.SatEWitness

namespace Perp.Props.SatE
open Perp Perp.World Perp.Engine Perp.Spec Perp.Props.ModelStep

/-! ## C11 — funding settles on schedule, exactly, charged once

Hypotheses of the clean form (all defined, with their justification, in `Perp/Props/SatC11.lean`):
* `SatC11.BufferHalf w` — **invariant** (kind a): every vAMM's funding buffer is half its funding period;
  preserved by every transaction (`SatBuffer.bufferHalf_step`), established by `instantiate`
  (`VammGuards.instantiate_buffer`).  Needed by clause `next-funding-less-than-half-a-period-away`;
  counterexample without it: `SatEWitness.c11_needs_bufferHalf`.
* (The former precondition `SatC11.NoFundsAttached w f tx` — no native coins attached to PayFunding — is
  gone: the three `funding-payment-…` clauses of `Spec.C11.check` now expect the host's attachment transfer
  `(sender, ENGINE, amount)` at the head of the transfer list and count the attached coins into the vault
  that caps the payment, unless the sender is the vault itself (`SatC11.engine_start_att`).  The former
  counterexample now passes: `SatEWitness.c11_funds_attached_ok`; see also `c11_funds_attached_cap`.)
* `SatC11.SenderOutside w s` — **wiring** (kind b, implied by `Wired w ∧ UserSender w s`,
  `SatC11.SenderOutside.of_wired`): the sender is not the vault / configured insurance fund / fee pool.
  Needed by clause `funding-skipped-when-closing-by-reversal` (the payout is read off the transfer list).
* `Mirror.NoZeroVamm w` — **invariant** (kind a), a component of `Mirror.Inv`: no vAMM lives at address 0,
  the engine's "no record" sentinel.  Needed by clause `funding-skipped-when-closing-by-reversal`: a record
  stored under vAMM address 0 is taken by `get_position` for an absent one, so the engine runs an increase
  where the property — reading the stored record — expects a reduce or a reversal; counterexample without it
  (with a non-zero maintenance ratio): `SatEWitness.c11_needs_noZeroVamm`.
NO sub-case hypothesis is left.  The former one, `w.engine.cfg.mmr ≠ 0`, excluded outcomes the old predicate
mis-classified as "closed by a reversal" (size 0 after an opposite order: an order against a zero-size record,
a reduce or a second leg that rounds the size to 0 — the final margin-ratio guard lets them through only with
a maintenance ratio of 0).  `Spec.C11.check` now follows the engine's own case distinction (flat / same side /
position worth more than the order ⇒ reduce / otherwise reversal, close-only iff `|N − out| / leverage = 0`),
`SatC11.open_core` proves that the model takes the same branch (the engine's valuation after funds attachment
equals the property's on the pre-state, `SatC11.start_outputAmount`; `SatC11.openPosition_branch`,
`SatC11.rev_branch_inv`), and the former witness now passes: `c11_rounded_reduce_ok`.
The former second sub-case hypothesis `SatC11.StaleClean w s tx` (a zero-size record carries no notional)
is no longer needed: `open_position` treats a stored record of size zero like an absent one, so the
reversal path — the only one on which the engine's PnL (0 for a zero-size record) and the property's formula
(∓notional) could disagree — is only taken for records of non-zero size.  The former counterexample now
passes: `c11_stale_notional_ok`.
-/

theorem sat_C11 (w : World) (env : Env) (s : Nat) (f : Funds) (tx : Tx) (hwf : WF w)
    (hbh : SatC11.BufferHalf w) (hso : SatC11.SenderOutside w s)
    (hnz : Mirror.NoZeroVamm w) :
    Spec.C11.check (modelStep w env s f tx) = [] := by
  have _ := hwf
  exact SatC11.sat_C11 w env s f tx hbh hso hnz

/-- general form, without the deployment facts `SenderOutside` / `NoZeroVamm`: only the reversal-payout clause
    can fail (and does without `NoZeroVamm`: `c11_needs_noZeroVamm`) -/
theorem C11_tags (w : World) (env : Env) (s : Nat) (f : Funds) (tx : Tx) (hwf : WF w)
    (hbh : SatC11.BufferHalf w) :
    ∀ tag ∈ Spec.C11.check (modelStep w env s f tx), tag ∈ ["funding-skipped-when-closing-by-reversal"] := by
  have _ := hwf
  exact SatC11.C11_tags w env s f tx hbh

/-- the invariant is preserved by `step` -/
theorem bufferHalf_preserved (w : World) (env : Env) (s : Nat) (f : Funds) (tx : Tx)
    (hb : SatC11.BufferHalf w) : SatC11.BufferHalf (step w env s f tx) :=
  SatBuffer.bufferHalf_step w env s f tx hb

/-- the former witness of the tag (maintenance ratio 0, a reduce that the vAMM rounds up to the whole size,
    leaving a zero-size record that keeps its margin): nothing was closed by a reversal, the check is empty -/
theorem c11_rounded_reduce_ok :
    Spec.C11.check (modelStep SatEWitness.b0 ⟨2, 1000⟩ 100 ⟨0, false⟩
        (.engine (.openPosition 10 .sell 780048891 SatEWitness.D 0)))
      = [] := SatEWitness.c11_rounded_reduce_ok.1

/-- the tag occurs without `NoZeroVamm` (a record stored under vAMM address 0, maintenance ratio 5 %) -/
theorem c11_needs_noZeroVamm :
    Spec.C11.check (modelStep SatEWitness.z0 ⟨2, 1000⟩ 100 ⟨0, false⟩
        (.engine (.openPosition 0 .sell 78004890 (10 * SatEWitness.D) 0)))
      = ["funding-skipped-when-closing-by-reversal"] := SatEWitness.c11_needs_noZeroVamm.1

/-- the former counterexample to `sat_C11` without `StaleClean` (a zero-size record that still carries
    margin and notional, then a tiny opposite order): the order is now an increase and the check is empty -/
theorem c11_stale_notional_ok :
    Spec.C11.check (modelStep SatEWitness.staleNotional ⟨2, 1000⟩ 100 ⟨0, false⟩
        (.engine (.openPosition 10 .sell 1000 SatEWitness.D 0))) = [] := SatEWitness.c11_stale_notional_ok.1

/-! ## C15 — per-block price band

Hypotheses of the clean form:
* `Mirror.SignDir w.engine` — **invariant** (kind a), a component of `Mirror.Inv`
  (preserved: `Mirror.mirror_invariant_partial2`): the sign of every stored size agrees with the stored
  direction.  Needed by the ClosePosition clauses (`close_position` asks the vAMM about the direction it
  derives from the sign and then trades in the stored direction); counterexample without it:
  `SatEWitness.c15_needs_signDir`.
* `SatC15.NoPartialClose w env s tx` — **sub-case** (rule 3): the transaction is not a ClosePosition that
  takes the partial-close path.  On that path clause `partial-close-not-the-configured-fraction` fails with
  tag `…[within-requote-rounding]` (known finding: the close is priced in quote and re-quoted in base;
  `c15_within_witness`, and `c15_large_position_witness` — 19 units off, within the bound since
  `Spec.C15.check` bounds the deviation by the larger of the pre- and post-trade exchange rates).
Sharper general form `C15_tags_within`: in the regular regime of the curve (`Mirror.CurveRegular w`) and with
a bounded post-trade exchange rate (`SatC15.PostRateBounded`: `⌊base'/quote'⌋ + 2 ≤ 2·quote'` on the vAMM
traded on, e.g. post-trade price ≥ 1) ONLY the `[within-requote-rounding]` tag can occur: the closed amount
is at most the configured fraction and short of it by at most `⌊base'/quote'⌋ + 2` (`SatC15.partial_core`,
`C15Requote.long_requote`; a short closes exactly the configured fraction, `C15Requote.short_requote`).
The extra hypothesis is needed: `c15_gross_witness` (a long so large that the partial close drains the quote
reserve to 1 raw unit) shows `…[gross]` under `SignDir`, `CurveRegular` and the mirror property — which is
why the unconditional `C15_tags` still lists both tags.
No band hypothesis is needed: with the revised `Spec.C15.band` the band is undefined in a vAMM's
instantiation block, which was the only case where a reversal's second leg was checked against a
different band than the first.
-/

theorem sat_C15 (w : World) (env : Env) (s : Nat) (f : Funds) (tx : Tx) (hwf : WF w)
    (hsd : Mirror.SignDir w.engine) (hnp : SatC15.NoPartialClose w env s tx) :
    Spec.C15.check (modelStep w env s f tx) = [] := by
  have _ := hwf
  exact SatC15.sat_C15 w env s f tx hsd hnp

/-- general form: every OpenPosition clause, the whole-close clause and the clause "a partial close only
    when the whole close would leave the band" hold; only the size of a partial close can be off -/
theorem C15_tags (w : World) (env : Env) (s : Nat) (f : Funds) (tx : Tx) (hwf : WF w)
    (hsd : Mirror.SignDir w.engine) :
    ∀ tag ∈ Spec.C15.check (modelStep w env s f tx),
      tag ∈ ["partial-close-not-the-configured-fraction[within-requote-rounding]",
             "partial-close-not-the-configured-fraction[gross]"] := by
  have _ := hwf
  exact SatC15.C15_tags w env s f tx hsd

/-- sharper general form: in the regular regime of the curve and with a bounded post-trade exchange rate
    the `[gross]` tag never occurs -/
theorem C15_tags_within (w : World) (env : Env) (s : Nat) (f : Funds) (tx : Tx) (hwf : WF w)
    (hsd : Mirror.SignDir w.engine) (hcr : Mirror.CurveRegular w) (hrb : SatC15.PostRateBounded w env s f tx) :
    ∀ tag ∈ Spec.C15.check (modelStep w env s f tx),
      tag ∈ ["partial-close-not-the-configured-fraction[within-requote-rounding]"] := by
  have _ := hwf
  exact SatC15.C15_tags_within w env s f tx hsd hcr hrb

theorem c15_within_witness :
    Spec.C15.check (modelStep (SatEWitness.c0 (5657 * SatEWitness.D)) ⟨2, 1000⟩ 100 ⟨0, false⟩
        (.engine (.closePosition 10 0)))
      = ["partial-close-not-the-configured-fraction[within-requote-rounding]"] := SatEWitness.c15_within_witness

theorem c15_large_position_witness :
    Spec.C15.check (modelStep (SatEWitness.c0 5255512575) ⟨2, 1000⟩ 100 ⟨0, false⟩
        (.engine (.closePosition 10 0)))
      = ["partial-close-not-the-configured-fraction[within-requote-rounding]"] := SatEWitness.c15_large_position_witness

/-- the `[gross]` tag occurs without `PostRateBounded` … -/
theorem c15_gross_witness :
    Spec.C15.check (modelStep (SatEWitness.c0 (10^20)) ⟨2, 1000⟩ 100 ⟨0, false⟩
        (.engine (.closePosition 10 0)))
      = ["partial-close-not-the-configured-fraction[gross]"] := SatEWitness.c15_gross_witness.1

set_option maxRecDepth 100000 in
/-- … in a world that satisfies every other hypothesis of `C15_tags_within` (and the mirror property) -/
theorem c15_gross_witness_hyps :
    Mirror.SignDir (SatEWitness.c0 (10^20)).engine ∧ Mirror.CurveRegular (SatEWitness.c0 (10^20))
    ∧ Mirror.MirrorOK (SatEWitness.c0 (10^20)) := by
  refine ⟨?_, Mirror.Cex.curveB_sound _ (by decide +kernel), ?_⟩
  · intro p hp
    have : p = ⟨10, 100, .addToAmm, Integer.newPositive (10^20), 500 * SatEWitness.D, 1100 * SatEWitness.D,
        Integer.zero, 1⟩ := by
      simpa [SatEWitness.c0, SatEWitness.world, SatEWitness.eng] using hp
    subst this
    exact ⟨fun _ => rfl, fun h => absurd h (by decide +kernel)⟩
  · intro a x hx _
    have hm := Mirror.Cex.vamm?_mem _ a x hx
    have : (a, x) = (10, SatEWitness.vamm (1372 * SatEWitness.D) (1291 * SatEWitness.D) (10^4) 1800
        (Integer.newPositive (10^20))) := by
      simpa [SatEWitness.c0, SatEWitness.world] using hm
    injection this with h1 h2
    subst h1 h2
    decide +kernel

/-! ## C17 (engine part) — the caller's limit is applied unchanged

Hypothesis of the clean form:
* `Mirror.SignDir w.engine` — **invariant** (kind a), as for C15.  Needed by the OpenPosition clauses
  (a reversal must flip the sign); counterexample without it: `SatEWitness.c17_needs_signDir`.
The former sub-case hypothesis `SatC17.NoStaleOpposite w s tx` (no stored record of size 0 whose direction
is opposite to the order's side) is gone together with the defect it excluded: `open_position` now treats a
stored record of size zero like an absent one, so the order takes the increase path and its `swap_input`
carries the caller's limit.  On the history of the former witness (reachable from a fresh deployment in two
transactions) the third transaction is now rejected by the limit: `c17_witness`, `c17_limit_exact`.
The ClosePosition clauses need no hypothesis.
-/

theorem sat_C17 (w : World) (env : Env) (s : Nat) (f : Funds) (tx : Tx) (hwf : WF w)
    (hsd : Mirror.SignDir w.engine) :
    Spec.C17.check (modelStep w env s f tx) = [] := by
  have _ := hwf
  exact SatC17.sat_C17 w env s f tx hsd

/-- general form, now a corollary of `sat_C17`: under the invariant no tag can occur -/
theorem C17_tags (w : World) (env : Env) (s : Nat) (f : Funds) (tx : Tx) (hwf : WF w)
    (hsd : Mirror.SignDir w.engine) :
    ∀ tag ∈ Spec.C17.check (modelStep w env s f tx), tag ∈ ([] : List String) := by
  have _ := hwf
  exact SatC17.C17_tags w env s f tx hsd

/-- without the invariant `SignDir`: the ClosePosition clauses always hold; only the OpenPosition limit
    clauses can fail (and do, `SatEWitness.c17_needs_signDir`) -/
theorem C17_tags_noInv (w : World) (env : Env) (s : Nat) (f : Funds) (tx : Tx) (hwf : WF w) :
    ∀ tag ∈ Spec.C17.check (modelStep w env s f tx),
      tag ∈ ["open-base-limit-not-honoured(buy)", "open-base-limit-not-honoured(sell)"] := by
  have _ := hwf
  exact SatC17.C17_tags_noInv w env s f tx

/-- the former witness of the dropped limit: after open-long / sell-the-same-notional (which leaves a
    zero-size record of direction `addToAmm`), a sell with `base_asset_limit = 1` is now REJECTED, and the
    check is empty -/
theorem c17_witness :
    (modelStep SatEWitness.a2 ⟨4, 3000⟩ 100 ⟨0, false⟩
        (.engine (.openPosition 10 .sell (60 * SatEWitness.D) (10 * SatEWitness.D) 1))).ok = false
    ∧ Spec.C17.check (modelStep SatEWitness.a2 ⟨4, 3000⟩ 100 ⟨0, false⟩
        (.engine (.openPosition 10 .sell (60 * SatEWitness.D) (10 * SatEWitness.D) 1)))
      = [] := SatEWitness.c17_witness

end Perp.Props.SatE
