/-
  SatE — the model's step satisfies Spec.C11, C15, C17 (see Perp/Props/ModelStep.lean).
  Target shape of every theorem:   Spec.Cxx.check (modelStep w env s f tx) = []

  Each property comes in two forms (rule 3 of the task):
  * `sat_Cxx`   — the clean form `= []`, under invariants / wiring / stated preconditions and ONE
                  sub-case hypothesis that excludes the place where the model (and the implementation it
                  mirrors) violates the property;
  * `Cxx_tags`  — the general form `∀ tag ∈ check, tag ∈ [the tags that can occur]` without the sub-case
                  hypothesis, together with `…_witness` theorems exhibiting a concrete world for every tag.
  Helper files (build order): Perp/Props/SatTrace, SatFlows, C15Band, SatC17, SatC11, SatC15, SatBuffer,
  SatEWitness.  `Perp.Props.C15` is NOT imported: it does not compile against the revised `Spec.C15.band`
  (its band lemmas are re-proved in `C15Band`).
-/
import Perp.Model.World
import Perp.Spec.World
import Perp.Lemmas.Basic
import Perp.Props.ModelStep
import Perp.Props.MirrorInv
import Perp.Props.SatC11
import Perp.Props.SatC15
import Perp.Props.SatC17
import Perp.Props.SatBuffer
import Perp.Props.SatEWitness

namespace Perp.Props.SatE
open Perp Perp.World Perp.Engine Perp.Spec Perp.Props.ModelStep

/-! ## C11 — funding settles on schedule, exactly, charged once

Hypotheses of the clean form (all defined, with their justification, in `Perp/Props/SatC11.lean`):
* `SatC11.BufferHalf w` — **invariant** (kind a): every vAMM's funding buffer is half its funding period;
  preserved by every transaction (`SatBuffer.bufferHalf_step`), established by `instantiate`
  (`VammGuards.instantiate_buffer`).  Needed by clause `next-funding-less-than-half-a-period-away`;
  counterexample without it: `SatEWitness.c11_needs_bufferHalf`.
* `SatC11.NoFundsAttached w f tx` — **precondition** (kind c): no native coins attached to PayFunding.
  Needed by the three `funding-payment-…` clauses; counterexample: `SatEWitness.c11_needs_noFunds`.
* `SatC11.SenderOutside w s` — **wiring** (kind b, implied by `Wired w ∧ UserSender w s`,
  `SatC11.SenderOutside.of_wired`): the sender is not the vault / configured insurance fund / fee pool.
  Needed by clause `funding-skipped-when-closing-by-reversal` (the payout is read off the transfer list).
* `w.engine.cfg.mmr ≠ 0` and `SatC11.StaleClean w s tx` — **sub-case** (rule 3), both for clause
  `funding-skipped-when-closing-by-reversal`: with a maintenance ratio of 0 an order against an opposite
  record can end at size exactly 0 without going through the closing branch of the reversal (a reduce that
  rounds to the whole size, `SatEWitness.c11_witness`; a second leg that buys 0 base); then the margin
  stays in a zero-size record and the trader is not paid.  `StaleClean`: a zero-size record carries no
  notional (the engine's PnL for it is 0, the property's formula gives ∓notional;
  `SatEWitness.c11_needs_staleClean`).
-/

theorem sat_C11 (w : World) (env : Env) (s : Nat) (f : Funds) (tx : Tx) (hwf : WF w)
    (hbh : SatC11.BufferHalf w) (hnf : SatC11.NoFundsAttached w f tx) (hso : SatC11.SenderOutside w s)
    (hmmr : w.engine.cfg.mmr ≠ 0) (hcl : SatC11.StaleClean w s tx) :
    Spec.C11.check (modelStep w env s f tx) = [] := by
  have _ := hwf
  exact SatC11.sat_C11 w env s f tx hbh hnf hso hmmr hcl

/-- general form: only the reversal-payout clause can fail -/
theorem C11_tags (w : World) (env : Env) (s : Nat) (f : Funds) (tx : Tx) (hwf : WF w)
    (hbh : SatC11.BufferHalf w) (hnf : SatC11.NoFundsAttached w f tx) :
    ∀ tag ∈ Spec.C11.check (modelStep w env s f tx), tag ∈ ["funding-skipped-when-closing-by-reversal"] := by
  have _ := hwf
  exact SatC11.C11_tags w env s f tx hbh hnf

/-- the invariant is preserved by `step` -/
theorem bufferHalf_preserved (w : World) (env : Env) (s : Nat) (f : Funds) (tx : Tx)
    (hb : SatC11.BufferHalf w) : SatC11.BufferHalf (step w env s f tx) :=
  SatBuffer.bufferHalf_step w env s f tx hb

/-- the tag occurs (maintenance ratio 0, reduce that rounds to the whole size) -/
theorem c11_witness :
    Spec.C11.check (modelStep SatEWitness.b0 ⟨2, 1000⟩ 100 ⟨0, false⟩
        (.engine (.openPosition 10 .sell 780048891 SatEWitness.D 0)))
      = ["funding-skipped-when-closing-by-reversal"] := SatEWitness.c11_witness

/-! ## C15 — per-block price band

Hypotheses of the clean form:
* `Mirror.SignDir w.engine` — **invariant** (kind a), a component of `Mirror.Inv`
  (preserved: `Mirror.mirror_invariant_partial2`): the sign of every stored size agrees with the stored
  direction.  Needed by the ClosePosition clauses (`close_position` asks the vAMM about the direction it
  derives from the sign and then trades in the stored direction); counterexample without it:
  `SatEWitness.c15_needs_signDir`.
* `SatC15.NoPartialClose w env s tx` — **sub-case** (rule 3): the transaction is not a ClosePosition that
  takes the partial-close path.  On that path clause `partial-close-not-the-configured-fraction` fails:
  `…[within-requote-rounding]` (known finding, `c15_within_witness`) and also `…[gross]`
  (`c15_gross_witness`: the re-quote happens at the post-trade price, so for a position that is large
  relative to the base reserve the deviation exceeds the specification's bound `pre-trade base/quote + 2`).
No band hypothesis is needed: with the revised `Spec.C15.band` the band is undefined in a vAMM's
instantiation block, which was the only case where a reversal's second leg was checked against a
different band than the first.
-/

theorem sat_C15 (w : World) (env : Env) (s : Nat) (f : Funds) (tx : Tx) (hwf : WF w)
    (hsd : Mirror.SignDir w.engine) (hnp : SatC15.NoPartialClose w env s tx) :
    Spec.C15.check (modelStep w env s f tx) = [] := by
  have _ := hwf
  exact SatC15.sat_C15 w env s f tx hsd hnp

/-- general form: every OpenPosition clause, the whole-close clause and the clause "a partial close only
    when the whole close would leave the band" hold; only the size of a partial close can be off -/
theorem C15_tags (w : World) (env : Env) (s : Nat) (f : Funds) (tx : Tx) (hwf : WF w)
    (hsd : Mirror.SignDir w.engine) :
    ∀ tag ∈ Spec.C15.check (modelStep w env s f tx),
      tag ∈ ["partial-close-not-the-configured-fraction[within-requote-rounding]",
             "partial-close-not-the-configured-fraction[gross]"] := by
  have _ := hwf
  exact SatC15.C15_tags w env s f tx hsd

theorem c15_within_witness :
    Spec.C15.check (modelStep (SatEWitness.c0 (5657 * SatEWitness.D)) ⟨2, 1000⟩ 100 ⟨0, false⟩
        (.engine (.closePosition 10 0)))
      = ["partial-close-not-the-configured-fraction[within-requote-rounding]"] := SatEWitness.c15_within_witness

theorem c15_large_position_witness :
    Spec.C15.check (modelStep (SatEWitness.c0 5255512575) ⟨2, 1000⟩ 100 ⟨0, false⟩
        (.engine (.closePosition 10 0)))
      = ["partial-close-not-the-configured-fraction[within-requote-rounding]"] := SatEWitness.c15_large_position_witness

/-! ## C17 (engine part) — the caller's limit is applied unchanged

Hypotheses of the clean form:
* `Mirror.SignDir w.engine` — **invariant** (kind a), as for C15.  Needed by the OpenPosition clauses
  (a reversal must flip the sign); counterexample without it: `SatEWitness.c17_needs_signDir`.
* `SatC17.NoStaleOpposite w s tx` — **sub-case** (rule 3): the sender has no stored record of size 0 whose
  direction is opposite to the order's side.  With such a record (left by a reversal of equal size)
  `open_position` takes the reversal path and the re-opening `swap_input` carries `base_asset_limit = 0`:
  the caller's limit is dropped on a trade that simply opens a position (`c17_witness`, reachable from a
  fresh deployment in two transactions).
The ClosePosition clauses need no hypothesis.
-/

theorem sat_C17 (w : World) (env : Env) (s : Nat) (f : Funds) (tx : Tx) (hwf : WF w)
    (hsd : Mirror.SignDir w.engine) (hns : SatC17.NoStaleOpposite w s tx) :
    Spec.C17.check (modelStep w env s f tx) = [] := by
  have _ := hwf
  exact SatC17.sat_C17 w env s f tx hsd hns

/-- general form: the ClosePosition clauses always hold; only the OpenPosition limit clauses can fail -/
theorem C17_tags (w : World) (env : Env) (s : Nat) (f : Funds) (tx : Tx) (hwf : WF w) :
    ∀ tag ∈ Spec.C17.check (modelStep w env s f tx),
      tag ∈ ["open-base-limit-not-honoured(buy)", "open-base-limit-not-honoured(sell)"] := by
  have _ := hwf
  exact SatC17.C17_tags w env s f tx

theorem c17_witness :
    Spec.C17.check (modelStep SatEWitness.a2 ⟨4, 3000⟩ 100 ⟨0, false⟩
        (.engine (.openPosition 10 .sell (60 * SatEWitness.D) (10 * SatEWitness.D) 1)))
      = ["open-base-limit-not-honoured(sell)"] := SatEWitness.c17_witness

end Perp.Props.SatE
